//! Request executor for the DEFAULT-feature build of momtrop (no `log`, no hooks): one JSON request per line on stdin, one answer per
//! line on stdout prefixed by "@@ANS " (the library's debug output goes to the same stdout). Only the public API is used.
use momtrop::vector::Vector;
use momtrop::{Edge, Graph, TropicalSamplingSettings};
use serde_json::{json, Value};
use std::io::{BufRead, Write};
use std::panic::{catch_unwind, AssertUnwindSafe};

fn b2f(b: u64) -> f64 { f64::from_bits(b) }
fn f2b(x: f64) -> u64 { x.to_bits() }

macro_rules! with_d {
    ($d:expr, $D:ident, $body:block) => {
        match $d {
            1 => { const $D: usize = 1; $body }
            2 => { const $D: usize = 2; $body }
            3 => { const $D: usize = 3; $body }
            4 => { const $D: usize = 4; $body }
            5 => { const $D: usize = 5; $body }
            6 => { const $D: usize = 6; $body }
            _ => panic!("harness: unsupported dimension"),
        }
    };
}

fn graph_from(j: &Value) -> Graph {
    let edges = j["edges"].as_array().unwrap().iter().map(|e| Edge {
        vertices: (e[0].as_u64().unwrap() as u8, e[1].as_u64().unwrap() as u8),
        weight: b2f(e[2].as_u64().unwrap()),
        is_massive: e[3].as_bool().unwrap(),
    }).collect();
    let externals = j["ext"].as_array().unwrap().iter().map(|v| v.as_u64().unwrap() as u8).collect();
    Graph { edges, externals }
}

fn op_sample(j: &Value) -> Value {
    let d = j["D"].as_u64().unwrap() as usize;
    let sig: Vec<Vec<isize>> = j["sig"].as_array().unwrap().iter()
        .map(|r| r.as_array().unwrap().iter().map(|v| v.as_i64().unwrap() as isize).collect()).collect();
    let xs: Vec<f64> = j["x"].as_array().unwrap().iter().map(|v| b2f(v.as_u64().unwrap())).collect();
    let settings = TropicalSamplingSettings {
        matrix_stability_test: j.get("tol").and_then(|v| v.as_u64()).map(b2f),
        print_debug_info: j.get("debug").and_then(|v| v.as_bool()).unwrap_or(false),
        return_metadata: j.get("meta").and_then(|v| v.as_bool()).unwrap_or(true),
    };
    with_d!(d, D, {
        let gen = match graph_from(&j["api_graph"]).build_sampler::<D>(sig) {
            Ok(g) => g,
            Err(msg) => return json!({"status": "builderr", "msg": msg}),
        };
        let edge_data: Vec<(Option<f64>, Vector<f64, D>)> = j["edge_data"].as_array().unwrap().iter().map(|e| {
            let mass = e[0].as_u64().map(b2f);
            let shift: Vec<f64> = e[1].as_array().unwrap().iter().map(|v| b2f(v.as_u64().unwrap())).collect();
            (mass, Vector::from_vec(shift))
        }).collect();
        match gen.generate_sample_from_x_space_point(&xs, edge_data, &settings) {
            Err(e) => {
                let s = format!("{:?}", e);
                let status = if s.contains("ZeroDet") { "zerodet" } else if s.contains("Unstable") { "unstable" } else if s.contains("Gamma") { "gammaerr" } else { "error" };
                json!({"status": status})
            }
            Ok(s) => {
                let k: Vec<Vec<u64>> = s.loop_momenta.iter().map(|v| v.get_elements().iter().map(|x| f2b(*x)).collect()).collect();
                let q = s.metadata.as_ref().map(|m| m.q_vectors.iter().map(|v| v.get_elements().iter().map(|x| f2b(*x)).collect::<Vec<u64>>()).collect::<Vec<_>>());
                json!({"status": "ok", "k": k, "uTrop": f2b(s.u_trop), "vTrop": f2b(s.v_trop), "u": f2b(s.u), "v": f2b(s.v), "jac": f2b(s.jacobian),
                       "has_meta": s.metadata.is_some(), "q": q, "lambda": s.metadata.as_ref().map(|m| f2b(m.lambda)), "dimension": gen.get_dimension()})
            }
        }
    })
}

fn op_decomp(j: &Value) -> Value {
    let n = j["n"].as_u64().unwrap() as usize;
    let a: Vec<f64> = j["a"].as_array().unwrap().iter().map(|v| b2f(v.as_u64().unwrap())).collect();
    let mut m = momtrop::matrix::SquareMatrix::new_zeros_from_num(&0.0f64, n);
    for i in 0..n {
        for k in 0..n {
            m[(i, k)] = a[i * n + k];
        }
    }
    let settings = TropicalSamplingSettings {
        matrix_stability_test: j.get("tol").and_then(|v| v.as_u64()).map(b2f),
        print_debug_info: j.get("debug").and_then(|v| v.as_bool()).unwrap_or(false),
        return_metadata: false,
    };
    match m.decompose_for_tropical(&settings) {
        Err(momtrop::matrix::MatrixError::ZeroDet) => json!({"status": "zerodet"}),
        Err(momtrop::matrix::MatrixError::Unstable) => json!({"status": "unstable"}),
        Ok(r) => json!({"status": "ok", "det": f2b(r.determinant)}),
    }
}

/// the vector operations of the property, in this (debug-assertions, overflow-checks) build
fn op_vec(j: &Value) -> Value {
    let d = j["D"].as_u64().unwrap() as usize;
    let f = j["fn"].as_str().unwrap();
    let get = |k: &str| -> Vec<f64> { j.get(k).and_then(|v| v.as_array()).map(|a| a.iter().map(|v| b2f(v.as_u64().unwrap())).collect()).unwrap_or_default() };
    let (a, b) = (get("a"), get("b"));
    let s = j.get("s").and_then(|v| v.as_u64()).map(b2f).unwrap_or(0.0);
    with_d!(d, D, {
        let va = || Vector::<f64, D>::from_vec(a.clone());
        let vb = || Vector::<f64, D>::from_vec(b.clone());
        let r: Vec<f64> = match f {
            "add" => (&va() + &vb()).get_elements().to_vec(),
            "sub" => (&va() - &vb()).get_elements().to_vec(),
            "muls" => (&va() * s).get_elements().to_vec(),
            "mulr" => (&va() * &s).get_elements().to_vec(),
            "addassign" => { let mut v = va(); v += vb(); v.get_elements().to_vec() }
            "dot" => vec![va().dot(&vb())],
            "squared" => vec![va().squared()],
            "new" => va().new().get_elements().to_vec(),
            "new_from_num" => Vector::<f64, D>::new_from_num(&s).get_elements().to_vec(),
            "roundtrip" => {
                let arr = va().get_elements();
                let v2 = Vector::<f64, D>::from_array(arr);
                let v3 = Vector::<f64, D>::from_slice(&v2.get_elements());
                (0..D).map(|i| v3[i]).collect()
            }
            other => panic!("harness: unknown vec fn {other}"),
        };
        json!({"r": r.iter().map(|x| f2b(*x)).collect::<Vec<u64>>()})
    })
}

/// the scalar trait methods on f64 in this build
fn op_f64(j: &Value) -> Value {
    use momtrop::float::MomTropFloat;
    let f = j["fn"].as_str().unwrap();
    let x = j.get("x").and_then(|v| v.as_u64()).map(b2f).unwrap_or(0.0);
    let y = j.get("y").and_then(|v| v.as_u64()).map(b2f).unwrap_or(0.0);
    let n = j.get("n").and_then(|v| v.as_i64()).unwrap_or(0) as isize;
    let r: f64 = match f {
        "ln" => MomTropFloat::ln(&x),
        "exp" => MomTropFloat::exp(&x),
        "cos" => MomTropFloat::cos(&x),
        "sin" => MomTropFloat::sin(&x),
        "sqrt" => MomTropFloat::sqrt(&x),
        "abs" => MomTropFloat::abs(&x),
        "inv" => MomTropFloat::inv(&x),
        "powf" => MomTropFloat::powf(&x, &y),
        "from_isize" => x.from_isize(n),
        "from_f64" => y.from_f64(x),
        "to_f64" => x.to_f64(),
        "PI" => x.PI(),
        "zero" => MomTropFloat::zero(&x),
        "one" => MomTropFloat::one(&x),
        _ => return json!({"skipped": true}),
    };
    json!({"r": f2b(r)})
}

fn main() {
    std::panic::set_hook(Box::new(|_| {}));
    let stdin = std::io::stdin();
    for line in stdin.lock().lines() {
        let line = line.unwrap();
        if line.trim().is_empty() { continue; }
        let req: Value = match serde_json::from_str(&line) {
            Ok(v) => v,
            Err(e) => { println!("@@ANS {}", json!({"error": format!("bad json: {e}")})); continue; }
        };
        let res = catch_unwind(AssertUnwindSafe(|| match req["op"].as_str() {
            Some("sample") => op_sample(&req),
            Some("decomp") => op_decomp(&req),
            Some("vec") => op_vec(&req),
            Some("f64") => op_f64(&req),
            other => json!({"error": format!("unknown op {:?}", other)}),
        }));
        let ans = match res {
            Ok(v) => v,
            Err(p) => {
                let msg = p.downcast_ref::<String>().cloned().or_else(|| p.downcast_ref::<&str>().map(|s| s.to_string())).unwrap_or_default();
                json!({"status": "panic", "msg": msg})
            }
        };
        // the library prints with println!: make sure an answer starts on a fresh line
        println!("\n@@ANS {}", ans);
        std::io::stdout().flush().unwrap();
    }
}
