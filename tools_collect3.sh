#!/bin/bash
# usage: tools_collect3.sh C03  -- third-round deliverables go to /verif/seeded/<ID>-r3-k/
id=$1
for k in 1 2 3; do
  if [ -f /tmp/wt/$id/mutation$k.patch ]; then
    d=/verif/seeded/$id-r3-$k; mkdir -p $d
    cp /tmp/wt/$id/mutation$k.patch $d/patch.diff
    [ -f /tmp/wt/$id/demo$k.rs ] && cp /tmp/wt/$id/demo$k.rs $d/demo.rs
    [ -f /tmp/wt/$id/REPORT.md ] && cp /tmp/wt/$id/REPORT.md $d/REPORT.md
  fi
done
git -C /repo worktree remove --force /tmp/wt/$id
ls /verif/seeded | grep -c r3
