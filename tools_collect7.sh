#!/bin/bash
# usage: tools_collect4.sh C20  -- seventh-round deliverables (/tmp/wt/<ID>r7) go to /verif/seeded/<ID>-r7-k/
id=$1
for k in 1 2 3; do
  if [ -f /tmp/wt/${id}r7/mutation$k.patch ]; then
    d=/verif/seeded/$id-r7-$k; mkdir -p $d
    cp /tmp/wt/${id}r7/mutation$k.patch $d/patch.diff
    [ -f /tmp/wt/${id}r7/demo$k.rs ] && cp /tmp/wt/${id}r7/demo$k.rs $d/demo.rs
    [ -f /tmp/wt/${id}r7/REPORT.md ] && cp /tmp/wt/${id}r7/REPORT.md $d/REPORT.md
  fi
done
git -C /repo worktree remove --force /tmp/wt/${id}r7
ls /verif/seeded | grep -c r7
