#!/bin/bash
# usage: tools_collect4.sh C20  -- eighth-round deliverables (/tmp/wt/<ID>r15) go to /verif/seeded/<ID>-r15-k/
id=$1
for k in 1 2 3; do
  if [ -f /tmp/wt/${id}r15/mutation$k.patch ]; then
    d=/verif/seeded/$id-r15-$k; mkdir -p $d
    cp /tmp/wt/${id}r15/mutation$k.patch $d/patch.diff
    [ -f /tmp/wt/${id}r15/demo$k.rs ] && cp /tmp/wt/${id}r15/demo$k.rs $d/demo.rs
    [ -f /tmp/wt/${id}r15/REPORT.md ] && cp /tmp/wt/${id}r15/REPORT.md $d/REPORT.md
  fi
done
git -C /repo worktree remove --force /tmp/wt/${id}r15
ls /verif/seeded | grep -c r15
