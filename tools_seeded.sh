#!/bin/bash
# usage: tools_seeded.sh <seeded-dir-name> [check-id]   -- apply the seeded change to /repo, run the check, undo it
d=/verif/seeded/$1
id=${2:-${1%%-*}}
cd /repo && git status --short | grep -q . && { echo "repo dirty"; exit 2; }
git -C /repo apply $d/patch.diff || { echo "patch does not apply"; exit 2; }
cd /verif && ./check $id --skip-lean 2>&1 | tail -4
rc=$?
git -C /repo checkout -- .
git -C /verif checkout -- lean/Momtrop/Generated/SerdeSchema.lean 2>/dev/null   # regenerated from the mutated source during the run
git -C /repo status --short
