#!/bin/bash
# usage: tools_seeded_seed.sh <seeded-dir-name> <seed> [check-id]   -- as tools_seeded.sh, with another generator seed
d=/verif/seeded/$1
id=${3:-${1%%-*}}
cd /repo && git status --short | grep -q . && { echo "repo dirty"; exit 2; }
git -C /repo apply $d/patch.diff || { echo "patch does not apply"; exit 2; }
cd /verif && ./check $id --skip-lean --seed $2 2>&1 | tail -2
git -C /repo checkout -- .
git -C /verif checkout -- lean/Momtrop/Generated/SerdeSchema.lean 2>/dev/null
git -C /repo status --short
