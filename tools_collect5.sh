#!/bin/bash
# usage: tools_collect4.sh C20  -- fifth-round deliverables (/tmp/wt/<ID>r5) go to /verif/seeded/<ID>-r5-k/
id=$1
for k in 1 2 3; do
  if [ -f /tmp/wt/${id}r5/mutation$k.patch ]; then
    d=/verif/seeded/$id-r5-$k; mkdir -p $d
    cp /tmp/wt/${id}r5/mutation$k.patch $d/patch.diff
    [ -f /tmp/wt/${id}r5/demo$k.rs ] && cp /tmp/wt/${id}r5/demo$k.rs $d/demo.rs
    [ -f /tmp/wt/${id}r5/REPORT.md ] && cp /tmp/wt/${id}r5/REPORT.md $d/REPORT.md
  fi
done
git -C /repo worktree remove --force /tmp/wt/${id}r5
ls /verif/seeded | grep -c r5
