//! Request executor: one JSON request per stdin line, one JSON answer per stdout line.
//! Every request is run against the real momtrop code (path dependency on /repo, features
//! `log` + `verif-hooks`) under `catch_unwind`. Floats travel as IEEE-754 bit patterns.

mod extra;
mod wire;
mod scalars;

use momtrop::float::MomTropFloat;
use momtrop::log::Logger;
use momtrop::matrix::{MatrixError, SquareMatrix};
use momtrop::vector::Vector;
use momtrop::verif_hooks::{pre, samp, SamplingError, TropicalSubgraphTable};
use momtrop::{Edge, Graph, SampleGenerator, TropicalSamplingSettings};
use serde_json::{json, Map, Value};
use std::cell::RefCell;
use std::io::{BufRead, Write};
use std::panic::{catch_unwind, AssertUnwindSafe};

pub fn f2b(x: f64) -> u64 {
    x.to_bits()
}
pub fn b2f(b: u64) -> f64 {
    f64::from_bits(b)
}
fn jf(x: f64) -> Value {
    json!(f2b(x))
}
fn jfs(xs: &[f64]) -> Value {
    Value::Array(xs.iter().map(|&x| jf(x)).collect())
}
fn get_u64(j: &Value, k: &str) -> u64 {
    j[k].as_u64().unwrap_or_else(|| panic!("harness: missing u64 field {k}"))
}
fn get_usize(j: &Value, k: &str) -> usize {
    get_u64(j, k) as usize
}
fn get_f(j: &Value, k: &str) -> f64 {
    b2f(get_u64(j, k))
}
fn get_fs(j: &Value, k: &str) -> Vec<f64> {
    j[k].as_array()
        .unwrap_or_else(|| panic!("harness: missing array {k}"))
        .iter()
        .map(|v| b2f(v.as_u64().expect("harness: bits")))
        .collect()
}
fn get_fss(j: &Value, k: &str) -> Vec<Vec<f64>> {
    j[k].as_array()
        .unwrap_or_else(|| panic!("harness: missing array {k}"))
        .iter()
        .map(|r| r.as_array().unwrap().iter().map(|v| b2f(v.as_u64().unwrap())).collect())
        .collect()
}
fn get_opt_f(j: &Value, k: &str) -> Option<f64> {
    j.get(k).and_then(|v| v.as_u64()).map(b2f)
}
fn get_sig(j: &Value, k: &str) -> Vec<Vec<isize>> {
    j[k].as_array()
        .unwrap()
        .iter()
        .map(|r| r.as_array().unwrap().iter().map(|v| v.as_i64().unwrap() as isize).collect())
        .collect()
}

/// Dispatch a runtime dimension to the const generic `D`.
macro_rules! with_d {
    ($d:expr, $D:ident, $body:block) => {
        match $d {
            1 => { const $D: usize = 1; $body }
            2 => { const $D: usize = 2; $body }
            3 => { const $D: usize = 3; $body }
            4 => { const $D: usize = 4; $body }
            5 => { const $D: usize = 5; $body }
            6 => { const $D: usize = 6; $body }
            7 => { const $D: usize = 7; $body }
            8 => { const $D: usize = 8; $body }
            _ => panic!("harness: unsupported dimension"),
        }
    };
}

/// Vector operations: the usual dimensions and a few beyond them (multiples of 16 and their neighbours)
macro_rules! with_d_vec {
    ($d:expr, $D:ident, $body:block) => {
        match $d {
            1 => { const $D: usize = 1; $body }
            2 => { const $D: usize = 2; $body }
            3 => { const $D: usize = 3; $body }
            4 => { const $D: usize = 4; $body }
            5 => { const $D: usize = 5; $body }
            6 => { const $D: usize = 6; $body }
            7 => { const $D: usize = 7; $body }
            8 => { const $D: usize = 8; $body }
            13 => { const $D: usize = 13; $body }
            16 => { const $D: usize = 16; $body }
            17 => { const $D: usize = 17; $body }
            32 => { const $D: usize = 32; $body }
            48 => { const $D: usize = 48; $body }
            _ => panic!("harness: unsupported dimension"),
        }
    };
}

/// `sample` only: additionally a dimension beyond one byte (D is an unbounded const generic) and an odd one beyond the usual range
macro_rules! with_d_sample {
    ($d:expr, $D:ident, $body:block) => {
        match $d {
            1 => { const $D: usize = 1; $body }
            2 => { const $D: usize = 2; $body }
            3 => { const $D: usize = 3; $body }
            4 => { const $D: usize = 4; $body }
            5 => { const $D: usize = 5; $body }
            6 => { const $D: usize = 6; $body }
            7 => { const $D: usize = 7; $body }
            8 => { const $D: usize = 8; $body }
            13 => { const $D: usize = 13; $body }
            260 => { const $D: usize = 260; $body }
            _ => panic!("harness: unsupported dimension"),
        }
    };
}

// ------------------------------------------------------------------------------------------------
// logger capturing the debug log (feature `log`)
// ------------------------------------------------------------------------------------------------
pub struct CaptureLogger {
    pub entries: RefCell<Vec<(String, ciborium::value::Value)>>,
}
impl CaptureLogger {
    pub fn new() -> Self {
        Self { entries: RefCell::new(vec![]) }
    }
    /// floats (also NaN and infinities, which JSON cannot carry) as bit patterns
    fn bits(v: &ciborium::value::Value) -> Value {
        use ciborium::value::Value as C;
        match v {
            C::Array(a) => Value::Array(a.iter().map(Self::bits).collect()),
            C::Float(f) => json!(f2b(*f)),
            C::Integer(i) => json!(f2b(i128::from(*i) as f64)),
            C::Bool(b) => json!(b),
            C::Text(t) => json!(t),
            _ => Value::Null,
        }
    }
    pub fn to_json(&self) -> Value {
        let mut m = Map::new();
        for (k, v) in self.entries.borrow().iter() {
            m.insert(k.clone(), Self::bits(v));
        }
        Value::Object(m)
    }
}
impl Logger for CaptureLogger {
    fn write<T: serde::Serialize>(&self, msg: &str, data: &T) {
        let v = ciborium::value::Value::serialized(data).unwrap_or(ciborium::value::Value::Null);
        self.entries.borrow_mut().push((msg.to_string(), v));
    }
}

// ------------------------------------------------------------------------------------------------
// graphs and tables
// ------------------------------------------------------------------------------------------------
pub fn graph_from(j: &Value) -> Graph {
    let edges = j["edges"]
        .as_array()
        .unwrap()
        .iter()
        .map(|e| Edge {
            vertices: (e[0].as_u64().unwrap() as u8, e[1].as_u64().unwrap() as u8),
            weight: b2f(e[2].as_u64().unwrap()),
            is_massive: e[3].as_bool().unwrap(),
        })
        .collect();
    let externals = j["ext"].as_array().unwrap().iter().map(|v| v.as_u64().unwrap() as u8).collect();
    Graph { edges, externals }
}

pub fn table_to_bits(t: &TropicalSubgraphTable) -> Value {
    let v = serde_json::to_value(t).unwrap();
    let tg = &v["tropical_graph"];
    let edges: Vec<Value> = tg["topology"]
        .as_array()
        .unwrap()
        .iter()
        .map(|e| json!([e["left"], e["right"], f2b(e["weight"].as_f64().unwrap_or(f64::NAN)), e["is_massive"]]))
        .collect();
    let entries: Vec<Value> = t
        .table
        .iter()
        .map(|e| json!([e.loop_number, e.mass_momentum_spanning, f2b(e.j_function), f2b(e.generalized_dod)]))
        .collect();
    json!({
        "n": t.tropical_graph.topology.len(),
        "D": t.dimension,
        "numLoops": t.tropical_graph.num_loops,
        "numMassive": t.tropical_graph.num_massive_edges,
        "dod": f2b(t.tropical_graph.dod),
        "cached": f2b(t.cached_factor),
        "entries": entries,
        "edges": edges,
        "ext": tg["external_vertices"],
    })
}

/// the tree of field names of a serialised value (arrays are represented by their first element)
pub fn key_tree(v: &Value) -> Value {
    match v {
        Value::Object(m) => Value::Object(m.iter().map(|(k, x)| (k.clone(), key_tree(x))).collect()),
        Value::Array(a) => match a.first() {
            Some(x) => json!([key_tree(x)]),
            None => json!([]),
        },
        Value::Number(_) => json!("number"),
        Value::Bool(_) => json!("bool"),
        Value::String(_) => json!("string"),
        Value::Null => Value::Null,
    }
}

/// Build a real `TropicalSubgraphTable` from the bits format through its `Deserialize` impl
/// (via a CBOR value tree, which can carry NaN and infinities).
pub fn table_from_bits(t: &Value) -> TropicalSubgraphTable {
    use ciborium::value::Value as C;
    let txt = |s: &str| C::Text(s.to_string());
    let int = |v: &Value| C::Integer((v.as_u64().expect("harness: integer")).into());
    let flt = |v: &Value| C::Float(b2f(v.as_u64().expect("harness: bits")));
    let boo = |v: &Value| C::Bool(v.as_bool().expect("harness: bool"));
    let topology: Vec<C> = t["edges"].as_array().unwrap().iter().enumerate()
        .map(|(i, e)| C::Map(vec![
            (txt("edge_id"), C::Integer((i as u64).into())), (txt("left"), int(&e[0])), (txt("right"), int(&e[1])),
            (txt("weight"), flt(&e[2])), (txt("is_massive"), boo(&e[3]))]))
        .collect();
    let table: Vec<C> = t["entries"].as_array().unwrap().iter()
        .map(|e| C::Map(vec![
            (txt("loop_number"), int(&e[0])), (txt("mass_momentum_spanning"), boo(&e[1])),
            (txt("j_function"), flt(&e[2])), (txt("generalized_dod"), flt(&e[3]))]))
        .collect();
    let ext: Vec<C> = t["ext"].as_array().unwrap().iter().map(int).collect();
    let v = C::Map(vec![
        (txt("table"), C::Array(table)),
        (txt("dimension"), int(&t["D"])),
        (txt("tropical_graph"), C::Map(vec![
            (txt("dod"), flt(&t["dod"])), (txt("topology"), C::Array(topology)),
            (txt("num_massive_edges"), int(&t["numMassive"])), (txt("external_vertices"), C::Array(ext)),
            (txt("num_loops"), int(&t["numLoops"]))])),
        (txt("cached_factor"), flt(&t["cached"])),
    ]);
    v.deserialized().expect("harness: table deserialisation")
}

fn op_graph(j: &Value) -> Value {
    let d = get_usize(j, "D");
    let tg = pre::from_graph(graph_from(j), d);
    let mut gammas = vec![statrs::function::gamma::gamma(tg.dod)];
    for e in &tg.topology {
        gammas.push(statrs::function::gamma::gamma(e.weight));
    }
    let mut out = json!({
        "dod": f2b(tg.dod), "numLoops": tg.num_loops, "numMassive": tg.num_massive_edges,
        "gammas": jfs(&gammas),
    });
    match pre::generate_table(&tg, d) {
        Err(msg) => {
            out["status"] = json!("err");
            out["msg"] = json!(msg);
        }
        Ok(t) => {
            out["status"] = json!("ok");
            out["numVars"] = json!(pre::num_variables(&t));
            out["smallestDod"] = jf(t.get_smallest_dod());
            let tb = table_to_bits(&t);
            out["entries"] = tb["entries"].clone();
            out["cached"] = tb["cached"].clone();
            out["table"] = tb;
        }
    }
    out
}

/// `build_sampler` through the public API for a given D; returns the public getters.
fn op_build(j: &Value) -> Value {
    let d = get_usize(j, "D");
    let sig = get_sig(j, "sig");
    with_d!(d, D, {
        match graph_from(j).build_sampler::<D>(sig) {
            Err(msg) => json!({"status": "err", "msg": msg}),
            Ok(g) => {
                let ws: Vec<f64> = g.iter_edge_weights().collect();
                json!({
                    "status": "ok", "dimension": g.get_dimension(), "dod": f2b(g.get_dod()),
                    "numEdges": g.get_num_edges(), "weights": jfs(&ws),
                    "table": table_to_bits(g.verif_table()),
                    "serde": serde_json::to_string(&g).unwrap(),
                })
            }
        }
    })
}

fn op_comps(j: &Value) -> Value {
    // dimension is irrelevant for the combinatorial functions
    let tg = pre::from_graph(graph_from(j), 4);
    let subset: Vec<usize> = j["subset"].as_array().unwrap().iter().map(|v| v.as_u64().unwrap() as usize).collect();
    json!({
        "comps": pre::connected_components(&tg, &subset),
        "loops": pre::loop_number(&tg, &subset),
        "mms": pre::is_mass_momentum_spanning(&tg, &subset),
        "wsum": f2b(pre::weight_sum(&tg, &subset)),
    })
}

/// every subset of the graph's edges at once: components, loop number, spanning flag, weight sum
fn op_subsets(j: &Value) -> Value {
    let tg = pre::from_graph(graph_from(j), 4);
    let n = tg.topology.len();
    let (mut comps, mut loops, mut mms, mut wsum) = (vec![], vec![], vec![], vec![]);
    for mask in 0..(1usize << n) {
        let subset: Vec<usize> = (0..n).filter(|e| mask & (1 << e) != 0).collect();
        comps.push(json!(pre::connected_components(&tg, &subset)));
        loops.push(pre::loop_number(&tg, &subset));
        mms.push(pre::is_mass_momentum_spanning(&tg, &subset));
        wsum.push(f2b(pre::weight_sum(&tg, &subset)));
    }
    json!({"comps": comps, "loops": loops, "mms": mms, "wsum": wsum})
}

fn op_edge(j: &Value) -> Value {
    let t = table_from_bits(&j["table"]);
    let g = get_usize(j, "g");
    let u = get_f(j, "u");
    let (e, rest) = pre::sample_edge(&t, &u, g);
    json!({"status": "ok", "edge": e, "rest": rest})
}

fn settings_from(j: &Value) -> TropicalSamplingSettings {
    TropicalSamplingSettings {
        matrix_stability_test: get_opt_f(j, "tol"),
        print_debug_info: j.get("debug").and_then(|v| v.as_bool()).unwrap_or(false),
        return_metadata: j.get("meta").and_then(|v| v.as_bool()).unwrap_or(true),
    }
}

fn op_perm(j: &Value) -> Value {
    let t = table_from_bits(&j["table"]);
    let xs = get_fs(j, "x");
    let logger = CaptureLogger::new();
    let settings = TropicalSamplingSettings { matrix_stability_test: None, print_debug_info: true, return_metadata: false };
    let (x, u_trop, v_trop) = samp::permatuhedral(&t, &xs, &settings, &logger);
    json!({"status": "ok", "x": jfs(&x), "uTr": f2b(u_trop), "vTr": f2b(v_trop), "log": logger.to_json()})
}

// ------------------------------------------------------------------------------------------------
// matrix
// ------------------------------------------------------------------------------------------------
fn matrix_from(n: usize, a: &[f64]) -> SquareMatrix<f64> {
    let mut m = SquareMatrix::new_zeros_from_num(&0.0f64, n);
    for i in 0..n {
        for k in 0..n {
            m[(i, k)] = a[i * n + k];
        }
    }
    m
}
fn matrix_flat<T: MomTropFloat>(m: &SquareMatrix<T>) -> Vec<T> {
    let n = m.get_dim();
    let mut out = Vec::with_capacity(n * n);
    for i in 0..n {
        for k in 0..n {
            out.push(m[(i, k)].clone());
        }
    }
    out
}
fn decomp_json(r: &Result<momtrop::matrix::DecompositionResult<f64>, MatrixError>) -> Value {
    match r {
        Err(MatrixError::ZeroDet) => json!({"status": "zerodet"}),
        Err(MatrixError::Unstable) => json!({"status": "unstable"}),
        Ok(d) => json!({
            "status": "ok", "det": f2b(d.determinant), "inv": jfs(&matrix_flat(&d.inverse)),
            "qt": jfs(&matrix_flat(&d.q_transposed)), "qti": jfs(&matrix_flat(&d.q_transposed_inverse)),
            "n": d.inverse.get_dim(),
        }),
    }
}
fn op_decomp(j: &Value) -> Value {
    let n = get_usize(j, "n");
    let a = get_fs(j, "a");
    let m = matrix_from(n, &a);
    let settings = TropicalSamplingSettings {
        matrix_stability_test: get_opt_f(j, "tol"),
        print_debug_info: j.get("debug").and_then(|v| v.as_bool()).unwrap_or(false),
        return_metadata: false,
    };
    decomp_json(&m.decompose_for_tropical(&settings))
}

// ------------------------------------------------------------------------------------------------
// pieces of sample through the hooks
// ------------------------------------------------------------------------------------------------
fn vecs_json<const D: usize>(vs: &[Vector<f64, D>]) -> Value {
    Value::Array(vs.iter().map(|v| jfs(&v.get_elements())).collect())
}
fn vecs_from<const D: usize>(rows: &[Vec<f64>]) -> Vec<Vector<f64, D>> {
    rows.iter().map(|r| Vector::from_vec(r.clone())).collect()
}

fn op_bm(j: &Value) -> Value {
    let (a, b) = samp::box_muller_pair(&get_f(j, "a"), &get_f(j, "b"));
    json!({"r": jfs(&[a, b])})
}
fn op_qvec(j: &Value) -> Value {
    let xs = get_fs(j, "x");
    let d = get_usize(j, "D");
    let l = get_usize(j, "L");
    with_d!(d, D, {
        let q = samp::q_vectors::<f64, D>(&xs, d, l);
        json!({"status": "ok", "q": vecs_json(&q), "reads": d * l + (d * l) % 2})
    })
}
fn op_lmat(j: &Value) -> Value {
    let m = samp::l_matrix(&get_fs(j, "x"), &get_sig(j, "sig"));
    json!({"l": jfs(&matrix_flat(&m))})
}
fn op_uvec(j: &Value) -> Value {
    let d = get_usize(j, "D");
    with_d!(d, D, {
        let shifts = vecs_from::<D>(&get_fss(j, "shifts"));
        let refs: Vec<&Vector<f64, D>> = shifts.iter().collect();
        let u = samp::u_vectors(&get_fs(j, "x"), &get_sig(j, "sig"), &refs);
        json!({"u": vecs_json(&u)})
    })
}
fn op_vpoly(j: &Value) -> Value {
    let d = get_usize(j, "D");
    let nl = get_usize(j, "nL");
    with_d!(d, D, {
        let shifts = vecs_from::<D>(&get_fss(j, "shifts"));
        let refs: Vec<&Vector<f64, D>> = shifts.iter().collect();
        let u = vecs_from::<D>(&get_fss(j, "u"));
        let linv = matrix_from(nl, &get_fs(j, "linv"));
        let v = samp::v_polynomial(&get_fs(j, "x"), &u, &linv, &refs, &get_fs(j, "masses"));
        json!({"v": f2b(v)})
    })
}
fn op_momenta(j: &Value) -> Value {
    let d = get_usize(j, "D");
    let nl = get_usize(j, "nL");
    with_d!(d, D, {
        let u = vecs_from::<D>(&get_fss(j, "u"));
        let q = vecs_from::<D>(&get_fss(j, "q"));
        let linv = matrix_from(nl, &get_fs(j, "linv"));
        let qti = matrix_from(nl, &get_fs(j, "qti"));
        let k = samp::loop_momenta(&get_f(j, "v"), &get_f(j, "lambda"), &qti, &q, &linv, &u);
        let s = samp::only_shift(&linv, &u);
        json!({"k": vecs_json(&k), "shift": vecs_json(&s)})
    })
}

// ------------------------------------------------------------------------------------------------
// sample through the public API
// ------------------------------------------------------------------------------------------------
fn edge_data_from<const D: usize>(j: &Value) -> Vec<(Option<f64>, Vector<f64, D>)> {
    j["edge_data"]
        .as_array()
        .unwrap()
        .iter()
        .map(|e| {
            let mass = e[0].as_u64().map(b2f);
            let shift: Vec<f64> = e[1].as_array().unwrap().iter().map(|v| b2f(v.as_u64().unwrap())).collect();
            (mass, Vector::from_vec(shift))
        })
        .collect()
}

pub fn sample_result_json<const D: usize>(
    r: &Result<momtrop::TropicalSampleResult<f64, D>, SamplingError>,
) -> Value {
    match r {
        Err(SamplingError::MatrixError(MatrixError::ZeroDet)) => json!({"status": "zerodet"}),
        Err(SamplingError::MatrixError(MatrixError::Unstable)) => json!({"status": "unstable"}),
        Err(SamplingError::GammaError(_)) => json!({"status": "gammaerr"}),
        Ok(s) => {
            let md = match &s.metadata {
                None => Value::Null,
                Some(m) => json!({
                    "q": vecs_json(&m.q_vectors), "lambda": f2b(m.lambda),
                    "l": jfs(&matrix_flat(&m.l_matrix)),
                    "decomp": decomp_json(&Ok(m.decompoisiton_result.clone())),
                    "u": vecs_json(&m.u_vectors), "shift": vecs_json(&m.shift),
                }),
            };
            json!({
                "status": "ok", "k": vecs_json(&s.loop_momenta), "uTrop": f2b(s.u_trop), "vTrop": f2b(s.v_trop),
                "u": f2b(s.u), "v": f2b(s.v), "jac": f2b(s.jacobian), "meta": md,
            })
        }
    }
}

fn op_sample(j: &Value) -> Value {
    let d = get_usize(j, "D");
    let sig = get_sig(j, "sig");
    let xs = get_fs(j, "x");
    let settings = settings_from(j);
    with_d_sample!(d, D, {
        // with an "api_graph" the sampler is built through the public API (Graph::build_sampler with the caller's signature), so
        // that whatever build_sampler does with the graph and the signature is part of what is observed; otherwise from the parts
        let gen = if j.get("api_graph").map(|g| !g.is_null()).unwrap_or(false) {
            match graph_from(&j["api_graph"]).build_sampler::<D>(sig) {
                Ok(g) => g,
                Err(msg) => return json!({"status": "builderr", "msg": msg}),
            }
        } else {
            // (the table is only read on this path: with an api_graph a table layout the executor does not know is no obstacle)
            SampleGenerator::<D>::verif_from_parts(sig, table_from_bits(&j["table"]))
        };
        let logger = CaptureLogger::new();
        let r = gen.generate_sample_from_x_space_point(&xs, edge_data_from::<D>(j), &settings, &logger);
        let mut out = sample_result_json(&r);
        out["log"] = logger.to_json();
        out["dimension"] = json!(gen.get_dimension());
        if j.get("api_graph").map(|g| !g.is_null()).unwrap_or(false) {
            out["api_signature_kept"] = json!(gen.verif_signature() == get_sig(j, "sig").as_slice());
        }
        out
    })
}

// ------------------------------------------------------------------------------------------------
// gamma
// ------------------------------------------------------------------------------------------------
fn op_gamma(j: &Value) -> Value {
    let a = get_f(j, "a");
    let p = get_f(j, "p");
    let n = j.get("n").and_then(|v| v.as_u64()).unwrap_or(50) as usize;
    let tol = get_opt_f(j, "tol").unwrap_or(5.0);
    match momtrop::gamma::inverse_gamma_lr(&a, &p, n, &tol) {
        Ok(x) => json!({"status": "ok", "r": f2b(x)}),
        Err(_) => json!({"status": "err"}),
    }
}
fn op_gamma_impl(j: &Value) -> Value {
    let a = get_f(j, "a");
    let p = get_f(j, "p");
    let n = j.get("n").and_then(|v| v.as_u64()).unwrap_or(50) as usize;
    let tol = get_opt_f(j, "tol").unwrap_or(5.0);
    json!({"status": "ok", "r": f2b(momtrop::gamma::inverse_gamma_lr_impl(a, p, n, tol))})
}
fn op_statrs(j: &Value) -> Value {
    let a = get_f(j, "a");
    let x = get_opt_f(j, "x").unwrap_or(0.0);
    let r = match j["fn"].as_str().unwrap() {
        "gamma" => statrs::function::gamma::gamma(a),
        "ln_gamma" => statrs::function::gamma::ln_gamma(a),
        "gamma_lr" => statrs::function::gamma::gamma_lr(a, x),
        "gamma_ur" => statrs::function::gamma::gamma_ur(a, x),
        other => panic!("harness: unknown statrs fn {other}"),
    };
    json!({"status": "ok", "r": f2b(r)})
}

// ------------------------------------------------------------------------------------------------
// vector and scalar primitives
// ------------------------------------------------------------------------------------------------
fn op_vec(j: &Value) -> Value {
    let d = get_usize(j, "D");
    let f = j["fn"].as_str().unwrap();
    let a = j.get("a").map(|_| get_fs(j, "a")).unwrap_or_default();
    let b = j.get("b").map(|_| get_fs(j, "b")).unwrap_or_default();
    let s = get_opt_f(j, "s").unwrap_or(0.0);
    with_d_vec!(d, D, {
        let va = || Vector::<f64, D>::from_vec(a.clone());
        let vb = || Vector::<f64, D>::from_vec(b.clone());
        let r: Vec<f64> = match f {
            "add" => (&va() + &vb()).get_elements().to_vec(),
            "sub" => (&va() - &vb()).get_elements().to_vec(),
            "muls" => (&va() * s).get_elements().to_vec(),
            "mulr" => (&va() * &s).get_elements().to_vec(),
            "addassign" => {
                let mut v = va();
                v += vb();
                v.get_elements().to_vec()
            }
            "dot" => vec![va().dot(&vb())],
            "squared" => vec![va().squared()],
            "new" => va().new().get_elements().to_vec(),
            "new_from_num" => Vector::<f64, D>::new_from_num(&s).get_elements().to_vec(),
            "roundtrip" => {
                // from_vec -> get_elements -> from_array -> from_slice -> index
                let arr = va().get_elements();
                let v2 = Vector::<f64, D>::from_array(arr);
                let v3 = Vector::<f64, D>::from_slice(&v2.get_elements());
                assert_eq!(v3.len(), D);
                (0..D).map(|i| v3[i]).collect()
            }
            other => panic!("harness: unknown vec fn {other}"),
        };
        json!({"r": jfs(&r)})
    })
}

fn op_f64(j: &Value) -> Value {
    let f = j["fn"].as_str().unwrap();
    let x = get_opt_f(j, "x").unwrap_or(0.0);
    let y = get_opt_f(j, "y").unwrap_or(0.0);
    let n = j.get("n").and_then(|v| v.as_i64()).unwrap_or(0) as isize;
    let r: f64 = match f {
        "ln" => MomTropFloat::ln(&x),
        "exp" => MomTropFloat::exp(&x),
        "cos" => MomTropFloat::cos(&x),
        "sin" => MomTropFloat::sin(&x),
        "sqrt" => MomTropFloat::sqrt(&x),
        "abs" => MomTropFloat::abs(&x),
        "inv" => MomTropFloat::inv(&x),
        "powf" => MomTropFloat::powf(&x, &y),
        "from_isize" => x.from_isize(n),
        "from_f64" => y.from_f64(x),
        "to_f64" => x.to_f64(),
        "PI" => x.PI(),
        "zero" => MomTropFloat::zero(&x),
        "one" => MomTropFloat::one(&x),
        "add" => x + y,
        "sub" => x - y,
        "mul" => x * y,
        "div" => x / y,
        "neg" => -x,
        other => panic!("harness: unknown f64 fn {other}"),
    };
    json!({"r": f2b(r)})
}

fn handle(j: &Value) -> Value {
    match j["op"].as_str().unwrap_or("") {
        "vec" => op_vec(j),
        "f64" => op_f64(j),
        "bm" => op_bm(j),
        "qvec" => op_qvec(j),
        "decomp" => op_decomp(j),
        "graph" => op_graph(j),
        "build" => op_build(j),
        "comps" => op_comps(j),
        "subsets" => op_subsets(j),
        "edge" => op_edge(j),
        "perm" => op_perm(j),
        "lmat" => op_lmat(j),
        "uvec" => op_uvec(j),
        "vpoly" => op_vpoly(j),
        "momenta" => op_momenta(j),
        "sample" => op_sample(j),
        "gamma" => op_gamma(j),
        "gamma_impl" => op_gamma_impl(j),
        "statrs" => op_statrs(j),
        other => scalars::handle_ext(other, j),
    }
}

fn main() {
    std::panic::set_hook(Box::new(|_| {}));
    let stdin = std::io::stdin();
    let stdout = std::io::stdout();
    let mut out = std::io::BufWriter::new(stdout.lock());
    for line in stdin.lock().lines() {
        let line = line.unwrap();
        if line.trim().is_empty() {
            continue;
        }
        let req: Value = match serde_json::from_str(&line) {
            Ok(v) => v,
            Err(e) => {
                writeln!(out, "@@ANS {}", json!({"error": format!("bad json: {e}")})).unwrap();
                continue;
            }
        };
        let res = catch_unwind(AssertUnwindSafe(|| handle(&req)));
        let ans = match res {
            Ok(v) => v,
            Err(p) => {
                let msg = p
                    .downcast_ref::<String>()
                    .cloned()
                    .or_else(|| p.downcast_ref::<&str>().map(|s| s.to_string()))
                    .unwrap_or_default();
                if msg.starts_with("harness:") {
                    json!({"error": msg})
                } else {
                    json!({"status": "panic", "msg": msg})
                }
            }
        };
        // debug printing of the library goes to stdout as well: flush and tag our own lines
        out.flush().unwrap();
        writeln!(out, "@@ANS {}", ans).unwrap();
        // flush at once: an answer longer than the buffer would otherwise be split around the library's prints of the next request
        out.flush().unwrap();
    }
    out.flush().unwrap();
}
