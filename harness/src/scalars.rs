//! Operations that instantiate the generic code with non-f64 scalar types (to be extended).
use serde_json::{json, Value};

pub fn handle_ext(op: &str, _j: &Value) -> Value {
    json!({"error": format!("unknown op {op}")})
}
