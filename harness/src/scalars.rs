//! The generic sampling code instantiated with user scalar types:
//!  * `Tr`  – f64 value + set of x-space coordinates it was computed from; every comparison and every
//!            narrowing (`to_f64`) is logged (properties C14, C19);
//!  * `Dd`  – double-double arithmetic for + - * / sqrt (≈106 bits), transcendental functions through f64
//!            (property C19: precision is preserved outside the Gamma draw).
use crate::{b2f, f2b, table_from_bits, CaptureLogger};
use momtrop::float::MomTropFloat;
use momtrop::vector::Vector;
use momtrop::verif_hooks::{samp, SamplingError};
use momtrop::{SampleGenerator, TropicalSamplingSettings};
use serde_json::{json, Value};
use std::cell::RefCell;
use std::cmp::Ordering;
use std::ops::{Add, AddAssign, Div, Mul, MulAssign, Neg, Sub, SubAssign};

/// implement every operator combination `MomTropFloat` asks for, from four by-reference methods
macro_rules! impl_ops {
    ($T:ty) => {
        impl<'a, 'b> Add<&'b $T> for &'a $T { type Output = $T; fn add(self, r: &$T) -> $T { <$T>::op_add(self, r) } }
        impl<'a, 'b> Sub<&'b $T> for &'a $T { type Output = $T; fn sub(self, r: &$T) -> $T { <$T>::op_sub(self, r) } }
        impl<'a, 'b> Mul<&'b $T> for &'a $T { type Output = $T; fn mul(self, r: &$T) -> $T { <$T>::op_mul(self, r) } }
        impl<'a, 'b> Div<&'b $T> for &'a $T { type Output = $T; fn div(self, r: &$T) -> $T { <$T>::op_div(self, r) } }
        impl<'a> Add<$T> for &'a $T { type Output = $T; fn add(self, r: $T) -> $T { <$T>::op_add(self, &r) } }
        impl<'a> Sub<$T> for &'a $T { type Output = $T; fn sub(self, r: $T) -> $T { <$T>::op_sub(self, &r) } }
        impl<'a> Mul<$T> for &'a $T { type Output = $T; fn mul(self, r: $T) -> $T { <$T>::op_mul(self, &r) } }
        impl<'a> Div<$T> for &'a $T { type Output = $T; fn div(self, r: $T) -> $T { <$T>::op_div(self, &r) } }
        impl Add<$T> for $T { type Output = $T; fn add(self, r: $T) -> $T { <$T>::op_add(&self, &r) } }
        impl Sub<$T> for $T { type Output = $T; fn sub(self, r: $T) -> $T { <$T>::op_sub(&self, &r) } }
        impl Mul<$T> for $T { type Output = $T; fn mul(self, r: $T) -> $T { <$T>::op_mul(&self, &r) } }
        impl Div<$T> for $T { type Output = $T; fn div(self, r: $T) -> $T { <$T>::op_div(&self, &r) } }
        impl<'a> Add<&'a $T> for $T { type Output = $T; fn add(self, r: &$T) -> $T { <$T>::op_add(&self, r) } }
        impl<'a> Sub<&'a $T> for $T { type Output = $T; fn sub(self, r: &$T) -> $T { <$T>::op_sub(&self, r) } }
        impl<'a> Mul<&'a $T> for $T { type Output = $T; fn mul(self, r: &$T) -> $T { <$T>::op_mul(&self, r) } }
        impl<'a> Div<&'a $T> for $T { type Output = $T; fn div(self, r: &$T) -> $T { <$T>::op_div(&self, r) } }
        impl<'a> AddAssign<&'a $T> for $T { fn add_assign(&mut self, r: &$T) { *self = <$T>::op_add(self, r) } }
        impl<'a> SubAssign<&'a $T> for $T { fn sub_assign(&mut self, r: &$T) { *self = <$T>::op_sub(self, r) } }
        impl<'a> MulAssign<&'a $T> for $T { fn mul_assign(&mut self, r: &$T) { *self = <$T>::op_mul(self, r) } }
        impl Neg for $T { type Output = $T; fn neg(self) -> $T { <$T>::op_neg(&self) } }
        impl<'a> Neg for &'a $T { type Output = $T; fn neg(self) -> $T { <$T>::op_neg(self) } }
    };
}

// ------------------------------------------------------------------------------------------------
// dependency-tracking scalar
// ------------------------------------------------------------------------------------------------
thread_local! {
    static COMPARISONS: RefCell<Vec<u128>> = RefCell::new(vec![]);
    static NARROWINGS: RefCell<Vec<(u128, u64)>> = RefCell::new(vec![]);
    static WIDENINGS: RefCell<u64> = RefCell::new(0);
    static WIDENED: RefCell<Vec<u64>> = RefCell::new(vec![]);
    static PI_CALLS: RefCell<u64> = RefCell::new(0);
    /// union of the dependencies of every value any operation (arithmetic, function, comparison, conversion) was applied to
    static TOUCHED: RefCell<u128> = RefCell::new(0);
}
fn touch(d: u128) { if d != 0 { TOUCHED.with(|t| *t.borrow_mut() |= d); } }

#[derive(Clone, Debug)]
pub struct Tr {
    pub v: f64,
    pub deps: u128,
}
impl Tr {
    fn op_add(a: &Tr, b: &Tr) -> Tr { touch(a.deps | b.deps); Tr { v: a.v + b.v, deps: a.deps | b.deps } }
    fn op_sub(a: &Tr, b: &Tr) -> Tr { touch(a.deps | b.deps); Tr { v: a.v - b.v, deps: a.deps | b.deps } }
    fn op_mul(a: &Tr, b: &Tr) -> Tr { touch(a.deps | b.deps); Tr { v: a.v * b.v, deps: a.deps | b.deps } }
    fn op_div(a: &Tr, b: &Tr) -> Tr { touch(a.deps | b.deps); Tr { v: a.v / b.v, deps: a.deps | b.deps } }
    fn op_neg(a: &Tr) -> Tr { touch(a.deps); Tr { v: -a.v, deps: a.deps } }
    fn un(&self, v: f64) -> Tr { touch(self.deps); Tr { v, deps: self.deps } }
}
impl_ops!(Tr);
impl PartialEq for Tr {
    fn eq(&self, o: &Tr) -> bool {
        COMPARISONS.with(|c| c.borrow_mut().push(self.deps | o.deps));
        touch(self.deps | o.deps);
        self.v == o.v
    }
}
impl PartialOrd for Tr {
    fn partial_cmp(&self, o: &Tr) -> Option<Ordering> {
        COMPARISONS.with(|c| c.borrow_mut().push(self.deps | o.deps));
        touch(self.deps | o.deps);
        self.v.partial_cmp(&o.v)
    }
}
impl MomTropFloat for Tr {
    fn one(&self) -> Self { Tr { v: 1.0, deps: 0 } }
    fn zero(&self) -> Self { Tr { v: 0.0, deps: 0 } }
    fn PI(&self) -> Self {
        PI_CALLS.with(|w| *w.borrow_mut() += 1);
        Tr { v: std::f64::consts::PI, deps: 0 }
    }
    fn ln(&self) -> Self { self.un(self.v.ln()) }
    fn exp(&self) -> Self { self.un(self.v.exp()) }
    fn cos(&self) -> Self { self.un(self.v.cos()) }
    fn sin(&self) -> Self { self.un(self.v.sin()) }
    fn sqrt(&self) -> Self { self.un(self.v.sqrt()) }
    fn abs(&self) -> Self { self.un(self.v.abs()) }
    fn inv(&self) -> Self { self.un(1.0 / self.v) }
    fn powf(&self, p: &Self) -> Self { touch(self.deps | p.deps); Tr { v: self.v.powf(p.v), deps: self.deps | p.deps } }
    fn from_isize(&self, value: isize) -> Self { Tr { v: value as f64, deps: 0 } }
    fn from_f64(&self, value: f64) -> Self {
        WIDENINGS.with(|w| *w.borrow_mut() += 1);
        WIDENED.with(|w| w.borrow_mut().push(f2b(value)));
        Tr { v: value, deps: 0 }
    }
    fn to_f64(&self) -> f64 {
        NARROWINGS.with(|n| n.borrow_mut().push((self.deps, f2b(self.v))));
        touch(self.deps);
        self.v
    }
}

fn bits_of(d: u128) -> Vec<usize> {
    (0..128).filter(|i| d >> i & 1 == 1).collect()
}

macro_rules! with_d6 {
    ($d:expr, $D:ident, $body:block) => {
        match $d {
            1 => { const $D: usize = 1; $body }
            2 => { const $D: usize = 2; $body }
            3 => { const $D: usize = 3; $body }
            4 => { const $D: usize = 4; $body }
            5 => { const $D: usize = 5; $body }
            6 => { const $D: usize = 6; $body }
            _ => panic!("harness: unsupported dimension"),
        }
    };
}

fn get_sig(j: &Value) -> Vec<Vec<isize>> {
    j["sig"].as_array().unwrap().iter()
        .map(|r| r.as_array().unwrap().iter().map(|v| v.as_i64().unwrap() as isize).collect()).collect()
}
fn get_x(j: &Value) -> Vec<f64> {
    j["x"].as_array().unwrap().iter().map(|v| b2f(v.as_u64().unwrap())).collect()
}
fn settings(j: &Value) -> TropicalSamplingSettings {
    TropicalSamplingSettings {
        matrix_stability_test: j.get("tol").and_then(|v| v.as_u64()).map(b2f),
        print_debug_info: j.get("debug").and_then(|v| v.as_bool()).unwrap_or(false),
        return_metadata: j.get("meta").and_then(|v| v.as_bool()).unwrap_or(true),
    }
}

/// `sample` with the tracking scalar: values, data dependencies of every output, comparison log, narrowing log
fn op_sample_track(j: &Value) -> Value {
    let d = j["D"].as_u64().unwrap() as usize;
    let table = table_from_bits(&j["table"]);
    let xs: Vec<Tr> = get_x(j).iter().enumerate().map(|(i, &v)| Tr { v, deps: 1u128 << i }).collect();
    let st = settings(j);
    COMPARISONS.with(|c| c.borrow_mut().clear());
    NARROWINGS.with(|c| c.borrow_mut().clear());
    WIDENINGS.with(|c| *c.borrow_mut() = 0);
    with_d6!(d, D, {
        let edge_data: Vec<(Option<Tr>, Vector<Tr, D>)> = j["edge_data"].as_array().unwrap().iter().map(|e| {
            let mass = e[0].as_u64().map(|b| Tr { v: b2f(b), deps: 0 });
            let sh: Vec<Tr> = e[1].as_array().unwrap().iter().map(|v| Tr { v: b2f(v.as_u64().unwrap()), deps: 0 }).collect();
            (mass, Vector::from_vec(sh))
        }).collect();
        // Feynman parameters through the hook (same table, same point)
        let logger = CaptureLogger::new();
        let quiet = TropicalSamplingSettings { matrix_stability_test: None, print_debug_info: false, return_metadata: false };
        let (xf, _, _) = samp::permatuhedral(&table, &xs, &quiet, &logger);
        let perm_cmp: Vec<Vec<usize>> = COMPARISONS.with(|c| c.borrow().iter().map(|&d| bits_of(d)).collect());
        let perm_narrow = NARROWINGS.with(|c| c.borrow().len());
        COMPARISONS.with(|c| c.borrow_mut().clear());
        NARROWINGS.with(|c| c.borrow_mut().clear());
        WIDENINGS.with(|c| *c.borrow_mut() = 0);
        WIDENED.with(|c| c.borrow_mut().clear());
        PI_CALLS.with(|c| *c.borrow_mut() = 0);
        TOUCHED.with(|c| *c.borrow_mut() = 0);
        let gen = SampleGenerator::<D>::verif_from_parts(get_sig(j), table);
        let r = gen.generate_sample_from_x_space_point(&xs, edge_data, &st, &logger);
        let touched = TOUCHED.with(|c| *c.borrow());
        let cmp: Vec<Vec<usize>> = COMPARISONS.with(|c| c.borrow().iter().map(|&d| bits_of(d)).collect());
        let narrow: Vec<Value> = NARROWINGS.with(|c| c.borrow().iter().map(|&(d, b)| json!({"deps": bits_of(d), "value": b})).collect());
        let widen = WIDENINGS.with(|c| *c.borrow());
        let widened: Vec<u64> = WIDENED.with(|c| { let mut v = c.borrow().clone(); v.sort(); v.dedup(); v });
        let pi_calls = PI_CALLS.with(|c| *c.borrow());
        let mut out = json!({
            "widened_values": widened, "pi_calls": pi_calls, "touched": bits_of(touched),
            "dimension": gen.get_dimension(),
            "x_deps": xf.iter().map(|t| bits_of(t.deps)).collect::<Vec<_>>(),
            "x": xf.iter().map(|t| f2b(t.v)).collect::<Vec<_>>(),
            "perm_comparisons": perm_cmp, "perm_narrowings": perm_narrow,
            "comparisons": cmp, "narrowings": narrow, "widenings": widen,
        });
        match r {
            Err(SamplingError::MatrixError(_)) => { out["status"] = json!("matrixerr"); }
            Err(SamplingError::GammaError(_)) => { out["status"] = json!("gammaerr"); }
            Ok(s) => {
                out["status"] = json!("ok");
                let vd = |vs: &Vec<Vector<Tr, D>>| -> (Value, Value) {
                    (json!(vs.iter().map(|v| v.get_elements().iter().map(|t| f2b(t.v)).collect::<Vec<_>>()).collect::<Vec<_>>()),
                     json!(vs.iter().map(|v| v.get_elements().iter().map(|t| bits_of(t.deps)).collect::<Vec<_>>()).collect::<Vec<_>>()))
                };
                let (k, kd) = vd(&s.loop_momenta);
                out["k"] = k; out["k_deps"] = kd;
                out["u"] = json!(f2b(s.u.v)); out["u_deps"] = json!(bits_of(s.u.deps));
                out["v"] = json!(f2b(s.v.v)); out["v_deps"] = json!(bits_of(s.v.deps));
                out["jac"] = json!(f2b(s.jacobian.v)); out["jac_deps"] = json!(bits_of(s.jacobian.deps));
                if let Some(m) = s.metadata {
                    let (q, qd) = vd(&m.q_vectors);
                    out["q"] = q; out["q_deps"] = qd;
                    out["lambda"] = json!(f2b(m.lambda.v)); out["lambda_deps"] = json!(bits_of(m.lambda.deps));
                }
            }
        }
        out
    })
}

// ------------------------------------------------------------------------------------------------
// double-double scalar
// ------------------------------------------------------------------------------------------------
#[derive(Clone, Copy, Debug)]
pub struct Dd {
    pub hi: f64,
    pub lo: f64,
}
fn two_sum(a: f64, b: f64) -> (f64, f64) {
    let s = a + b;
    let bb = s - a;
    (s, (a - (s - bb)) + (b - bb))
}
fn quick_two_sum(a: f64, b: f64) -> (f64, f64) {
    let s = a + b;
    (s, b - (s - a))
}
fn two_prod(a: f64, b: f64) -> (f64, f64) {
    let p = a * b;
    (p, a.mul_add(b, -p))
}
impl Dd {
    pub fn new(x: f64) -> Dd { Dd { hi: x, lo: 0.0 } }
    fn norm(hi: f64, lo: f64) -> Dd {
        if !hi.is_finite() { return Dd { hi, lo: 0.0 }; }
        let (h, l) = quick_two_sum(hi, lo);
        Dd { hi: h, lo: l }
    }
    fn op_add(a: &Dd, b: &Dd) -> Dd {
        let (s, e) = two_sum(a.hi, b.hi);
        let (t, f) = two_sum(a.lo, b.lo);
        let (s, e) = quick_two_sum(s, e + t);
        Dd::norm(s, e + f)
    }
    fn op_neg(a: &Dd) -> Dd { Dd { hi: -a.hi, lo: -a.lo } }
    fn op_sub(a: &Dd, b: &Dd) -> Dd { Dd::op_add(a, &Dd::op_neg(b)) }
    fn op_mul(a: &Dd, b: &Dd) -> Dd {
        let (p, e) = two_prod(a.hi, b.hi);
        Dd::norm(p, e + (a.hi * b.lo + a.lo * b.hi))
    }
    fn op_div(a: &Dd, b: &Dd) -> Dd {
        let q1 = a.hi / b.hi;
        if !q1.is_finite() { return Dd::new(q1); }
        let r = Dd::op_sub(a, &Dd::op_mul(b, &Dd::new(q1)));
        let q2 = r.hi / b.hi;
        let r2 = Dd::op_sub(&r, &Dd::op_mul(b, &Dd::new(q2)));
        let q3 = r2.hi / b.hi;
        let (s, e) = quick_two_sum(q1, q2);
        Dd::norm(s, e + q3)
    }
    fn f(&self, g: impl Fn(f64) -> f64) -> Dd { Dd::new(g(self.hi + self.lo)) }
}
impl_ops!(Dd);
impl PartialEq for Dd { fn eq(&self, o: &Dd) -> bool { self.hi == o.hi && self.lo == o.lo } }
impl PartialOrd for Dd {
    fn partial_cmp(&self, o: &Dd) -> Option<Ordering> {
        match self.hi.partial_cmp(&o.hi) {
            Some(Ordering::Equal) => self.lo.partial_cmp(&o.lo),
            x => x,
        }
    }
}
impl MomTropFloat for Dd {
    fn one(&self) -> Self { Dd::new(1.0) }
    fn zero(&self) -> Self { Dd::new(0.0) }
    fn PI(&self) -> Self { Dd { hi: 3.141592653589793116e+00, lo: 1.224646799147353207e-16 } }
    fn ln(&self) -> Self { self.f(f64::ln) }
    fn exp(&self) -> Self { self.f(f64::exp) }
    fn cos(&self) -> Self { self.f(f64::cos) }
    fn sin(&self) -> Self { self.f(f64::sin) }
    fn abs(&self) -> Self { if self.hi < 0.0 { Dd::op_neg(self) } else { *self } }
    fn inv(&self) -> Self { Dd::op_div(&Dd::new(1.0), self) }
    fn powf(&self, p: &Self) -> Self {
        // x^p = exp(p ln x) in double-double precision for ordinary positive x; the f64 function for everything else
        if self.hi > 0.0 && self.hi.is_finite() && p.hi.is_finite() {
            let r = dd_exp(&Dd::op_mul(p, &dd_ln(self)));
            if r.hi.is_finite() && r.hi > 0.0 { return r; }
        }
        Dd::new((self.hi + self.lo).powf(p.hi + p.lo))
    }
    fn sqrt(&self) -> Self {
        if self.hi <= 0.0 || !self.hi.is_finite() { return Dd::new(self.hi.sqrt()); }
        let x = 1.0 / self.hi.sqrt();
        let ax = self.hi * x;
        let d = Dd::op_sub(self, &Dd::op_mul(&Dd::new(ax), &Dd::new(ax)));
        let (s, e) = two_sum(ax, d.hi * (x * 0.5));
        Dd::norm(s, e)
    }
    fn from_isize(&self, value: isize) -> Self { Dd::new(value as f64) }
    fn from_f64(&self, value: f64) -> Self { Dd::new(value) }
    fn to_f64(&self) -> f64 { self.hi + self.lo }
}

const DD_LN2: Dd = Dd { hi: 6.931471805599452862e-01, lo: 2.319046813846299558e-17 };

/// exp in double-double precision (argument reduction by ln 2 and 2^-9, Taylor series, nine squarings)
fn dd_exp(a: &Dd) -> Dd {
    if a.hi <= -709.0 { return Dd::new(0.0); }
    if a.hi >= 709.0 { return Dd::new(f64::INFINITY); }
    if a.hi == 0.0 && a.lo == 0.0 { return Dd::new(1.0); }
    let m = (a.hi / DD_LN2.hi + 0.5).floor();
    let red = Dd::op_sub(a, &Dd::op_mul(&DD_LN2, &Dd::new(m)));
    let r = Dd { hi: red.hi / 512.0, lo: red.lo / 512.0 };
    // s = exp(r) - 1
    let mut term = r;
    let mut s = r;
    for i in 2..=12 {
        term = Dd::op_div(&Dd::op_mul(&term, &r), &Dd::new(i as f64));
        s = Dd::op_add(&s, &term);
        if term.hi.abs() < 1e-40 * s.hi.abs().max(1e-300) { break; }
    }
    for _ in 0..9 {
        // (1+s)^2 - 1 = 2s + s^2
        s = Dd::op_add(&Dd { hi: 2.0 * s.hi, lo: 2.0 * s.lo }, &Dd::op_mul(&s, &s));
    }
    let e = Dd::op_add(&s, &Dd::new(1.0));
    let sc = (2.0f64).powi(m as i32);
    Dd { hi: e.hi * sc, lo: e.lo * sc }
}

/// ln in double-double precision: two Newton steps on exp from the f64 logarithm
fn dd_ln(a: &Dd) -> Dd {
    if !(a.hi > 0.0) || !a.hi.is_finite() { return Dd::new(a.hi.ln()); }
    let mut x = Dd::new(a.hi.ln());
    for _ in 0..2 {
        let corr = Dd::op_sub(&Dd::op_mul(a, &dd_exp(&Dd::op_neg(&x))), &Dd::new(1.0));
        x = Dd::op_add(&x, &corr);
    }
    x
}

fn ddv(d: &Dd) -> Value { json!([f2b(d.hi), f2b(d.lo)]) }

/// `sample` with the double-double scalar; Feynman parameters through the hook
fn op_sample_dd(j: &Value) -> Value {
    let d = j["D"].as_u64().unwrap() as usize;
    let table = table_from_bits(&j["table"]);
    // optional low parts: the user's point need not be made of f64 values
    let lo: Vec<f64> = j.get("x_lo").and_then(|v| v.as_array()).map(|a| a.iter().map(|b| b2f(b.as_u64().unwrap())).collect()).unwrap_or_default();
    let xs: Vec<Dd> = get_x(j).iter().enumerate().map(|(i, &v)| Dd::norm(v, lo.get(i).copied().unwrap_or(0.0))).collect();
    let st = settings(j);
    with_d6!(d, D, {
        let edge_data: Vec<(Option<Dd>, Vector<Dd, D>)> = j["edge_data"].as_array().unwrap().iter().map(|e| {
            let mass = e[0].as_u64().map(|b| Dd::new(b2f(b)));
            let sh: Vec<Dd> = e[1].as_array().unwrap().iter().map(|v| Dd::new(b2f(v.as_u64().unwrap()))).collect();
            (mass, Vector::from_vec(sh))
        }).collect();
        let logger = CaptureLogger::new();
        let quiet = TropicalSamplingSettings { matrix_stability_test: None, print_debug_info: false, return_metadata: false };
        let (xf, _, _) = samp::permatuhedral(&table, &xs, &quiet, &logger);
        let gen = SampleGenerator::<D>::verif_from_parts(get_sig(j), table);
        let r = gen.generate_sample_from_x_space_point(&xs, edge_data, &st, &logger);
        let mut out = json!({"x": xf.iter().map(ddv).collect::<Vec<_>>()});
        match r {
            Err(SamplingError::MatrixError(_)) => { out["status"] = json!("matrixerr"); }
            Err(SamplingError::GammaError(_)) => { out["status"] = json!("gammaerr"); }
            Ok(s) => {
                out["status"] = json!("ok");
                let vv = |vs: &Vec<Vector<Dd, D>>| json!(vs.iter().map(|v| v.get_elements().iter().map(ddv).collect::<Vec<_>>()).collect::<Vec<_>>());
                out["k"] = vv(&s.loop_momenta);
                out["u"] = ddv(&s.u); out["v"] = ddv(&s.v); out["jac"] = ddv(&s.jacobian);
                if let Some(m) = s.metadata {
                    out["q"] = vv(&m.q_vectors); out["lambda"] = ddv(&m.lambda); out["uvec"] = vv(&m.u_vectors);
                    out["shift"] = vv(&m.shift);
                    let n = m.l_matrix.get_dim();
                    let flat = |mm: &momtrop::matrix::SquareMatrix<Dd>| -> Value {
                        let mut o = vec![];
                        for i in 0..n { for k in 0..n { o.push(ddv(&mm[(i, k)])); } }
                        json!(o)
                    };
                    out["l"] = flat(&m.l_matrix);
                    out["inv"] = flat(&m.decompoisiton_result.inverse);
                    out["qt"] = flat(&m.decompoisiton_result.q_transposed);
                    out["qti"] = flat(&m.decompoisiton_result.q_transposed_inverse);
                    out["det"] = ddv(&m.decompoisiton_result.determinant);
                }
            }
        }
        out
    })
}

// ------------------------------------------------------------------------------------------------
// left-tagged scalar: every result carries the tag of its LEFT operand (of the value it was derived from for unary operations and
// constructors). A legal MomTropFloat for which `a * b` and `b * a`, `zero()` of one vector and of another are distinguishable.
// ------------------------------------------------------------------------------------------------
#[derive(Clone, Debug)]
pub struct Lt {
    pub v: f64,
    pub tag: u32,
}
impl Lt {
    fn op_add(a: &Lt, b: &Lt) -> Lt { Lt { v: a.v + b.v, tag: a.tag } }
    fn op_sub(a: &Lt, b: &Lt) -> Lt { Lt { v: a.v - b.v, tag: a.tag } }
    fn op_mul(a: &Lt, b: &Lt) -> Lt { Lt { v: a.v * b.v, tag: a.tag } }
    fn op_div(a: &Lt, b: &Lt) -> Lt { Lt { v: a.v / b.v, tag: a.tag } }
    fn op_neg(a: &Lt) -> Lt { Lt { v: -a.v, tag: a.tag } }
    fn un(&self, v: f64) -> Lt { Lt { v, tag: self.tag } }
}
impl_ops!(Lt);
impl PartialEq for Lt { fn eq(&self, o: &Lt) -> bool { self.v == o.v } }
impl PartialOrd for Lt { fn partial_cmp(&self, o: &Lt) -> Option<Ordering> { self.v.partial_cmp(&o.v) } }
impl MomTropFloat for Lt {
    fn one(&self) -> Self { self.un(1.0) }
    fn zero(&self) -> Self { self.un(0.0) }
    fn PI(&self) -> Self { self.un(std::f64::consts::PI) }
    fn ln(&self) -> Self { self.un(self.v.ln()) }
    fn exp(&self) -> Self { self.un(self.v.exp()) }
    fn cos(&self) -> Self { self.un(self.v.cos()) }
    fn sin(&self) -> Self { self.un(self.v.sin()) }
    fn sqrt(&self) -> Self { self.un(self.v.sqrt()) }
    fn abs(&self) -> Self { self.un(self.v.abs()) }
    fn inv(&self) -> Self { self.un(1.0 / self.v) }
    fn powf(&self, p: &Self) -> Self { self.un(self.v.powf(p.v)) }
    fn from_isize(&self, value: isize) -> Self { self.un(value as f64) }
    fn from_f64(&self, value: f64) -> Self { self.un(value) }
    fn to_f64(&self) -> f64 { self.v }
}

/// vector operations with the left-tagged scalar: `a` carries tag 1, `b` tag 2, the scalar `s` tag 3; returns values and tags
fn op_vec_tag(j: &Value) -> Value {
    let d = j["D"].as_u64().unwrap() as usize;
    let f = j["fn"].as_str().unwrap();
    let a: Vec<Lt> = get_bits(j, "a").iter().map(|&v| Lt { v, tag: 1 }).collect();
    let b: Vec<Lt> = get_bits(j, "b").iter().map(|&v| Lt { v, tag: 2 }).collect();
    let s = Lt { v: j["s"].as_u64().map(b2f).unwrap_or(0.0), tag: 3 };
    with_d6!(d, D, {
        let va = || Vector::<Lt, D>::from_vec(a.clone());
        let vb = || Vector::<Lt, D>::from_vec(b.clone());
        let r: Vec<Lt> = match f {
            "add" => (&va() + &vb()).get_elements().to_vec(),
            "sub" => (&va() - &vb()).get_elements().to_vec(),
            "muls" => (&va() * s.clone()).get_elements().to_vec(),
            "mulr" => (&va() * &s).get_elements().to_vec(),
            "addassign" => { let mut v = va(); v += vb(); v.get_elements().to_vec() }
            "dot" => vec![va().dot(&vb())],
            "squared" => vec![va().squared()],
            "new" => va().new().get_elements().to_vec(),
            // every component with its own tag (100 + i): `new()` is componentwise `zero()` of each component
            "new_i" => Vector::<Lt, D>::from_vec(a.iter().enumerate().map(|(i, t)| Lt { v: t.v, tag: 100 + i as u32 }).collect()).new().get_elements().to_vec(),
            other => panic!("harness: unknown vec_tag fn {other}"),
        };
        json!({"r": r.iter().map(|t| f2b(t.v)).collect::<Vec<_>>(), "tags": r.iter().map(|t| t.tag).collect::<Vec<_>>()})
    })
}

fn get_bits(j: &Value, k: &str) -> Vec<f64> {
    j[k].as_array().map(|a| a.iter().map(|v| b2f(v.as_u64().unwrap())).collect()).unwrap_or_default()
}

/// `decompose_for_tropical` with the double-double scalar on a matrix given by its f64 entries (optional low parts in `a_lo`)
fn op_decomp_dd(j: &Value) -> Value {
    let n = j["n"].as_u64().unwrap() as usize;
    let a: Vec<f64> = j["a"].as_array().unwrap().iter().map(|b| b2f(b.as_u64().unwrap())).collect();
    let lo: Vec<f64> = j.get("a_lo").and_then(|v| v.as_array()).map(|x| x.iter().map(|b| b2f(b.as_u64().unwrap())).collect()).unwrap_or_default();
    let mut m = momtrop::matrix::SquareMatrix::new_zeros_from_num(&Dd::new(0.0), n);
    for i in 0..n {
        for k in 0..n {
            m[(i, k)] = Dd::norm(a[i * n + k], lo.get(i * n + k).copied().unwrap_or(0.0));
        }
    }
    let st = settings(j);
    match m.decompose_for_tropical(&st) {
        Err(momtrop::matrix::MatrixError::ZeroDet) => json!({"status": "zerodet"}),
        Err(momtrop::matrix::MatrixError::Unstable) => json!({"status": "unstable"}),
        Ok(r) => {
            let flat = |mm: &momtrop::matrix::SquareMatrix<Dd>| -> Value {
                let mut o = vec![];
                for i in 0..n { for k in 0..n { o.push(ddv(&mm[(i, k)])); } }
                json!(o)
            };
            json!({"status": "ok", "det": ddv(&r.determinant), "inv": flat(&r.inverse), "qt": flat(&r.q_transposed), "qti": flat(&r.q_transposed_inverse)})
        }
    }
}

pub fn handle_ext(op: &str, j: &Value) -> Value {
    match op {
        "decomp_dd" => op_decomp_dd(j),
        "vec_tag" => op_vec_tag(j),
        "sample_track" => op_sample_track(j),
        "sample_dd" => op_sample_dd(j),
        other => crate::extra::handle_extra(other, j),
    }
}
