//! A small self-describing serde data format (value tree) that preserves f64 bit for bit and can write
//! structs either as maps keyed by field name (like JSON/CBOR) or as sequences of field values (like
//! MessagePack's default). Used by the C18 round trip next to serde_json and ciborium.
use serde::de::{self, DeserializeOwned, DeserializeSeed, IntoDeserializer, MapAccess, SeqAccess, Visitor};
use serde::ser::{self, Serialize};
use std::fmt;

#[derive(Debug, Clone, PartialEq)]
pub enum Val {
    Unit,
    Bool(bool),
    I(i64),
    U(u64),
    F(u64),
    Str(String),
    Bytes(Vec<u8>),
    None,
    Some(Box<Val>),
    Seq(Vec<Val>),
    Map(Vec<(Val, Val)>),
}

impl Val {
    pub fn size(&self) -> usize {
        match self {
            Val::Seq(v) => 1 + v.iter().map(|x| x.size()).sum::<usize>(),
            Val::Map(v) => 1 + v.iter().map(|(k, x)| k.size() + x.size()).sum::<usize>(),
            Val::Some(b) => 1 + b.size(),
            _ => 1,
        }
    }
}

#[derive(Debug)]
pub struct Error(String);
impl fmt::Display for Error {
    fn fmt(&self, f: &mut fmt::Formatter) -> fmt::Result { write!(f, "{}", self.0) }
}
impl std::error::Error for Error {}
impl ser::Error for Error {
    fn custom<T: fmt::Display>(msg: T) -> Self { Error(msg.to_string()) }
}
impl de::Error for Error {
    fn custom<T: fmt::Display>(msg: T) -> Self { Error(msg.to_string()) }
}

pub fn to_val<T: Serialize>(value: &T, structs_as_seq: bool) -> Result<Val, Error> {
    value.serialize(Ser { seq: structs_as_seq })
}
pub fn from_val<T: DeserializeOwned>(v: Val) -> Result<T, Error> { T::deserialize(v) }

#[derive(Clone, Copy)]
struct Ser { seq: bool }

pub struct SeqSer { ser: Ser, items: Vec<Val>, variant: Option<&'static str> }
pub struct MapSer { ser: Ser, items: Vec<(Val, Val)>, key: Option<Val>, variant: Option<&'static str> }
pub enum StructSer { Seq(SeqSer), Map(MapSer) }

fn wrap(variant: Option<&'static str>, v: Val) -> Val {
    match variant { Some(name) => Val::Map(vec![(Val::Str(name.to_string()), v)]), None => v }
}

impl ser::Serializer for Ser {
    type Ok = Val;
    type Error = Error;
    type SerializeSeq = SeqSer;
    type SerializeTuple = SeqSer;
    type SerializeTupleStruct = SeqSer;
    type SerializeTupleVariant = SeqSer;
    type SerializeMap = MapSer;
    type SerializeStruct = StructSer;
    type SerializeStructVariant = StructSer;
    fn serialize_bool(self, v: bool) -> Result<Val, Error> { Ok(Val::Bool(v)) }
    fn serialize_i8(self, v: i8) -> Result<Val, Error> { Ok(Val::I(v as i64)) }
    fn serialize_i16(self, v: i16) -> Result<Val, Error> { Ok(Val::I(v as i64)) }
    fn serialize_i32(self, v: i32) -> Result<Val, Error> { Ok(Val::I(v as i64)) }
    fn serialize_i64(self, v: i64) -> Result<Val, Error> { Ok(Val::I(v)) }
    fn serialize_u8(self, v: u8) -> Result<Val, Error> { Ok(Val::U(v as u64)) }
    fn serialize_u16(self, v: u16) -> Result<Val, Error> { Ok(Val::U(v as u64)) }
    fn serialize_u32(self, v: u32) -> Result<Val, Error> { Ok(Val::U(v as u64)) }
    fn serialize_u64(self, v: u64) -> Result<Val, Error> { Ok(Val::U(v)) }
    fn serialize_f32(self, v: f32) -> Result<Val, Error> { Ok(Val::F((v as f64).to_bits())) }
    fn serialize_f64(self, v: f64) -> Result<Val, Error> { Ok(Val::F(v.to_bits())) }
    fn serialize_char(self, v: char) -> Result<Val, Error> { Ok(Val::Str(v.to_string())) }
    fn serialize_str(self, v: &str) -> Result<Val, Error> { Ok(Val::Str(v.to_string())) }
    fn serialize_bytes(self, v: &[u8]) -> Result<Val, Error> { Ok(Val::Bytes(v.to_vec())) }
    fn serialize_none(self) -> Result<Val, Error> { Ok(Val::None) }
    fn serialize_some<T: ?Sized + Serialize>(self, v: &T) -> Result<Val, Error> { Ok(Val::Some(Box::new(v.serialize(self)?))) }
    fn serialize_unit(self) -> Result<Val, Error> { Ok(Val::Unit) }
    fn serialize_unit_struct(self, _n: &'static str) -> Result<Val, Error> { Ok(Val::Unit) }
    fn serialize_unit_variant(self, _n: &'static str, _i: u32, variant: &'static str) -> Result<Val, Error> { Ok(Val::Str(variant.to_string())) }
    fn serialize_newtype_struct<T: ?Sized + Serialize>(self, _n: &'static str, v: &T) -> Result<Val, Error> { v.serialize(self) }
    fn serialize_newtype_variant<T: ?Sized + Serialize>(self, _n: &'static str, _i: u32, variant: &'static str, v: &T) -> Result<Val, Error> {
        Ok(wrap(Some(variant), v.serialize(self)?))
    }
    fn serialize_seq(self, _len: Option<usize>) -> Result<SeqSer, Error> { Ok(SeqSer { ser: self, items: vec![], variant: None }) }
    fn serialize_tuple(self, _len: usize) -> Result<SeqSer, Error> { Ok(SeqSer { ser: self, items: vec![], variant: None }) }
    fn serialize_tuple_struct(self, _n: &'static str, _len: usize) -> Result<SeqSer, Error> { Ok(SeqSer { ser: self, items: vec![], variant: None }) }
    fn serialize_tuple_variant(self, _n: &'static str, _i: u32, variant: &'static str, _len: usize) -> Result<SeqSer, Error> {
        Ok(SeqSer { ser: self, items: vec![], variant: Some(variant) })
    }
    fn serialize_map(self, _len: Option<usize>) -> Result<MapSer, Error> { Ok(MapSer { ser: self, items: vec![], key: None, variant: None }) }
    fn serialize_struct(self, _n: &'static str, _len: usize) -> Result<StructSer, Error> {
        Ok(if self.seq { StructSer::Seq(SeqSer { ser: self, items: vec![], variant: None }) }
           else { StructSer::Map(MapSer { ser: self, items: vec![], key: None, variant: None }) })
    }
    fn serialize_struct_variant(self, _n: &'static str, _i: u32, variant: &'static str, _len: usize) -> Result<StructSer, Error> {
        Ok(if self.seq { StructSer::Seq(SeqSer { ser: self, items: vec![], variant: Some(variant) }) }
           else { StructSer::Map(MapSer { ser: self, items: vec![], key: None, variant: Some(variant) }) })
    }
}

impl SeqSer {
    fn push<T: ?Sized + Serialize>(&mut self, v: &T) -> Result<(), Error> { self.items.push(v.serialize(self.ser)?); Ok(()) }
    fn finish(self) -> Result<Val, Error> { Ok(wrap(self.variant, Val::Seq(self.items))) }
}
impl ser::SerializeSeq for SeqSer {
    type Ok = Val; type Error = Error;
    fn serialize_element<T: ?Sized + Serialize>(&mut self, v: &T) -> Result<(), Error> { self.push(v) }
    fn end(self) -> Result<Val, Error> { self.finish() }
}
impl ser::SerializeTuple for SeqSer {
    type Ok = Val; type Error = Error;
    fn serialize_element<T: ?Sized + Serialize>(&mut self, v: &T) -> Result<(), Error> { self.push(v) }
    fn end(self) -> Result<Val, Error> { self.finish() }
}
impl ser::SerializeTupleStruct for SeqSer {
    type Ok = Val; type Error = Error;
    fn serialize_field<T: ?Sized + Serialize>(&mut self, v: &T) -> Result<(), Error> { self.push(v) }
    fn end(self) -> Result<Val, Error> { self.finish() }
}
impl ser::SerializeTupleVariant for SeqSer {
    type Ok = Val; type Error = Error;
    fn serialize_field<T: ?Sized + Serialize>(&mut self, v: &T) -> Result<(), Error> { self.push(v) }
    fn end(self) -> Result<Val, Error> { self.finish() }
}
impl ser::SerializeMap for MapSer {
    type Ok = Val; type Error = Error;
    fn serialize_key<T: ?Sized + Serialize>(&mut self, k: &T) -> Result<(), Error> { self.key = Some(k.serialize(self.ser)?); Ok(()) }
    fn serialize_value<T: ?Sized + Serialize>(&mut self, v: &T) -> Result<(), Error> {
        let k = self.key.take().ok_or_else(|| Error("value without key".into()))?;
        self.items.push((k, v.serialize(self.ser)?));
        Ok(())
    }
    fn end(self) -> Result<Val, Error> { Ok(wrap(self.variant, Val::Map(self.items))) }
}
impl StructSer {
    fn field<T: ?Sized + Serialize>(&mut self, key: &'static str, v: &T) -> Result<(), Error> {
        match self {
            StructSer::Seq(s) => s.push(v),
            StructSer::Map(m) => { m.items.push((Val::Str(key.to_string()), v.serialize(m.ser)?)); Ok(()) }
        }
    }
    fn finish(self) -> Result<Val, Error> {
        match self { StructSer::Seq(s) => s.finish(), StructSer::Map(m) => Ok(wrap(m.variant, Val::Map(m.items))) }
    }
}
impl ser::SerializeStruct for StructSer {
    type Ok = Val; type Error = Error;
    fn serialize_field<T: ?Sized + Serialize>(&mut self, key: &'static str, v: &T) -> Result<(), Error> { self.field(key, v) }
    fn end(self) -> Result<Val, Error> { self.finish() }
}
impl ser::SerializeStructVariant for StructSer {
    type Ok = Val; type Error = Error;
    fn serialize_field<T: ?Sized + Serialize>(&mut self, key: &'static str, v: &T) -> Result<(), Error> { self.field(key, v) }
    fn end(self) -> Result<Val, Error> { self.finish() }
}

struct SeqAcc(std::vec::IntoIter<Val>);
impl<'de> SeqAccess<'de> for SeqAcc {
    type Error = Error;
    fn next_element_seed<T: DeserializeSeed<'de>>(&mut self, seed: T) -> Result<Option<T::Value>, Error> {
        match self.0.next() { Some(v) => seed.deserialize(v).map(Some), None => Ok(None) }
    }
    fn size_hint(&self) -> Option<usize> { Some(self.0.len()) }
}
struct MapAcc(std::vec::IntoIter<(Val, Val)>, Option<Val>);
impl<'de> MapAccess<'de> for MapAcc {
    type Error = Error;
    fn next_key_seed<K: DeserializeSeed<'de>>(&mut self, seed: K) -> Result<Option<K::Value>, Error> {
        match self.0.next() { Some((k, v)) => { self.1 = Some(v); seed.deserialize(k).map(Some) } None => Ok(None) }
    }
    fn next_value_seed<V: DeserializeSeed<'de>>(&mut self, seed: V) -> Result<V::Value, Error> {
        seed.deserialize(self.1.take().ok_or_else(|| Error("value without key".into()))?)
    }
}
struct EnumAcc(Val, Option<Val>);
impl<'de> de::EnumAccess<'de> for EnumAcc {
    type Error = Error;
    type Variant = VariantAcc;
    fn variant_seed<V: DeserializeSeed<'de>>(self, seed: V) -> Result<(V::Value, VariantAcc), Error> {
        Ok((seed.deserialize(self.0)?, VariantAcc(self.1)))
    }
}
struct VariantAcc(Option<Val>);
impl<'de> de::VariantAccess<'de> for VariantAcc {
    type Error = Error;
    fn unit_variant(self) -> Result<(), Error> { Ok(()) }
    fn newtype_variant_seed<T: DeserializeSeed<'de>>(self, seed: T) -> Result<T::Value, Error> {
        seed.deserialize(self.0.ok_or_else(|| Error("missing variant content".into()))?)
    }
    fn tuple_variant<V: Visitor<'de>>(self, _len: usize, visitor: V) -> Result<V::Value, Error> {
        de::Deserializer::deserialize_any(self.0.ok_or_else(|| Error("missing variant content".into()))?, visitor)
    }
    fn struct_variant<V: Visitor<'de>>(self, _f: &'static [&'static str], visitor: V) -> Result<V::Value, Error> {
        de::Deserializer::deserialize_any(self.0.ok_or_else(|| Error("missing variant content".into()))?, visitor)
    }
}

impl<'de> de::Deserializer<'de> for Val {
    type Error = Error;
    fn deserialize_any<V: Visitor<'de>>(self, visitor: V) -> Result<V::Value, Error> {
        match self {
            Val::Unit => visitor.visit_unit(),
            Val::Bool(b) => visitor.visit_bool(b),
            Val::I(i) => visitor.visit_i64(i),
            Val::U(u) => visitor.visit_u64(u),
            Val::F(bits) => visitor.visit_f64(f64::from_bits(bits)),
            Val::Str(s) => visitor.visit_string(s),
            Val::Bytes(b) => visitor.visit_byte_buf(b),
            Val::None => visitor.visit_none(),
            Val::Some(b) => visitor.visit_some(*b),
            Val::Seq(v) => visitor.visit_seq(SeqAcc(v.into_iter())),
            Val::Map(m) => visitor.visit_map(MapAcc(m.into_iter(), None)),
        }
    }
    fn deserialize_option<V: Visitor<'de>>(self, visitor: V) -> Result<V::Value, Error> {
        match self {
            Val::None | Val::Unit => visitor.visit_none(),
            Val::Some(b) => visitor.visit_some(*b),
            other => visitor.visit_some(other),
        }
    }
    fn deserialize_newtype_struct<V: Visitor<'de>>(self, _n: &'static str, visitor: V) -> Result<V::Value, Error> {
        visitor.visit_newtype_struct(self)
    }
    fn deserialize_enum<V: Visitor<'de>>(self, _n: &'static str, _v: &'static [&'static str], visitor: V) -> Result<V::Value, Error> {
        match self {
            Val::Str(s) => visitor.visit_enum(s.into_deserializer()),
            Val::Map(mut m) if m.len() == 1 => { let (k, v) = m.pop().unwrap(); visitor.visit_enum(EnumAcc(k, Some(v))) }
            other => Err(Error(format!("expected enum, found {other:?}"))),
        }
    }
    serde::forward_to_deserialize_any! {
        bool i8 i16 i32 i64 u8 u16 u32 u64 f32 f64 char str string bytes byte_buf unit unit_struct seq tuple
        tuple_struct map struct identifier ignored_any
    }
}
