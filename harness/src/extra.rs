//! Operations about purity, threads, RNG entry point and serde round trips (C17, C18).
use crate::{b2f, f2b, graph_from, sample_result_json, table_from_bits, table_to_bits, CaptureLogger};
use momtrop::vector::Vector;
use momtrop::{SampleGenerator, TropicalSamplingSettings};
use rand::RngCore;
use serde_json::{json, Value};

macro_rules! with_d6 {
    ($d:expr, $D:ident, $body:block) => {
        match $d {
            1 => { const $D: usize = 1; $body }
            2 => { const $D: usize = 2; $body }
            3 => { const $D: usize = 3; $body }
            4 => { const $D: usize = 4; $body }
            5 => { const $D: usize = 5; $body }
            6 => { const $D: usize = 6; $body }
            _ => panic!("harness: unsupported dimension"),
        }
    };
}

/// dimensions for the serde round trip: 1..6 and one far beyond a byte (the const generic D is unbounded)
macro_rules! with_d_serde {
    ($d:expr, $D:ident, $body:block) => {
        match $d {
            1 => { const $D: usize = 1; $body }
            2 => { const $D: usize = 2; $body }
            3 => { const $D: usize = 3; $body }
            4 => { const $D: usize = 4; $body }
            5 => { const $D: usize = 5; $body }
            6 => { const $D: usize = 6; $body }
            260 => { const $D: usize = 260; $body }
            _ => panic!("harness: unsupported dimension"),
        }
    };
}

fn get_sig(j: &Value) -> Vec<Vec<isize>> {
    j["sig"].as_array().unwrap().iter()
        .map(|r| r.as_array().unwrap().iter().map(|v| v.as_i64().unwrap() as isize).collect()).collect()
}
fn settings(j: &Value) -> TropicalSamplingSettings {
    TropicalSamplingSettings {
        matrix_stability_test: j.get("tol").and_then(|v| v.as_u64()).map(b2f),
        print_debug_info: j.get("debug").and_then(|v| v.as_bool()).unwrap_or(false),
        return_metadata: j.get("meta").and_then(|v| v.as_bool()).unwrap_or(true),
    }
}
fn edge_data<const D: usize>(j: &Value) -> Vec<(Option<f64>, Vector<f64, D>)> {
    j["edge_data"].as_array().unwrap().iter().map(|e| {
        let mass = e[0].as_u64().map(b2f);
        let shift: Vec<f64> = e[1].as_array().unwrap().iter().map(|v| b2f(v.as_u64().unwrap())).collect();
        (mass, Vector::from_vec(shift))
    }).collect()
}

/// RNG that replays given 64-bit words and counts how often it is asked
struct ReplayRng {
    words: Vec<u64>,
    pos: usize,
    calls64: usize,
    calls_other: usize,
}
impl RngCore for ReplayRng {
    fn next_u32(&mut self) -> u32 { self.calls_other += 1; (self.next_u64() >> 32) as u32 }
    fn next_u64(&mut self) -> u64 {
        self.calls64 += 1;
        let w = self.words.get(self.pos).copied().unwrap_or(0x9E37_79B9_7F4A_7C15);
        self.pos += 1;
        w
    }
    fn fill_bytes(&mut self, dest: &mut [u8]) { self.calls_other += 1; for b in dest.iter_mut() { *b = 0; } }
    fn try_fill_bytes(&mut self, dest: &mut [u8]) -> Result<(), rand::Error> { self.fill_bytes(dest); Ok(()) }
}

/// generate_sample_from_rng with a replaying RNG: `k` = integers, the i-th uniform is k_i * 2^-53
fn op_rng(j: &Value) -> Value {
    let d = j["D"].as_u64().unwrap() as usize;
    let table = table_from_bits(&j["table"]);
    let ks: Vec<u64> = j["k"].as_array().unwrap().iter().map(|v| v.as_u64().unwrap()).collect();
    let st = settings(j);
    with_d6!(d, D, {
        let gen = SampleGenerator::<D>::verif_from_parts(get_sig(j), table);
        let mut rng = ReplayRng { words: ks.iter().map(|k| k << 11).collect(), pos: 0, calls64: 0, calls_other: 0 };
        let logger = CaptureLogger::new();
        let r = gen.generate_sample_from_rng(edge_data::<D>(j), &st, &mut rng, &logger);
        let mut out = sample_result_json(&r);
        out["draws"] = json!(rng.calls64);
        out["other_rng_calls"] = json!(rng.calls_other);
        out["dimension"] = json!(gen.get_dimension());
        out
    })
}

/// many threads sampling concurrently on ONE shared sampler; every thread repeats the target point between other points
fn op_threads(j: &Value) -> Value {
    let d = j["D"].as_u64().unwrap() as usize;
    let table = table_from_bits(&j["table"]);
    let st = settings(j);
    let nthreads = j["threads"].as_u64().unwrap_or(8) as usize;
    let reps = j["reps"].as_u64().unwrap_or(50) as usize;
    let points: Vec<Vec<f64>> = j["points"].as_array().unwrap().iter()
        .map(|p| p.as_array().unwrap().iter().map(|v| b2f(v.as_u64().unwrap())).collect()).collect();
    with_d6!(d, D, {
        let gen = SampleGenerator::<D>::verif_from_parts(get_sig(j), table);
        let ed = edge_data::<D>(j);
        let logger = CaptureLogger::new();
        // reference: single thread, fresh
        let reference: Vec<String> = points.iter().map(|p| {
            sample_result_json(&gen.generate_sample_from_x_space_point(p, ed.clone(), &st, &logger)).to_string()
        }).collect();
        let gen_ref = &gen;
        let ed_ref = &ed;
        let st_ref = &st;
        let pts = &points;
        let refs = &reference;
        let bad: usize = std::thread::scope(|sc| {
            let hs: Vec<_> = (0..nthreads).map(|t| sc.spawn(move || {
                let lg = CaptureLogger::new();
                let mut bad = 0usize;
                for r in 0..reps {
                    let i = (t * 7 + r * 13) % pts.len();
                    let s = sample_result_json(&gen_ref.generate_sample_from_x_space_point(&pts[i], ed_ref.clone(), st_ref, &lg)).to_string();
                    if s != refs[i] { bad += 1; }
                }
                bad
            })).collect();
            hs.into_iter().map(|h| h.join().unwrap_or(usize::MAX / 2)).sum()
        });
        // and once more single threaded after all that history
        let after: Vec<String> = points.iter().map(|p| {
            sample_result_json(&gen.generate_sample_from_x_space_point(p, ed.clone(), &st, &logger)).to_string()
        }).collect();
        let table_after = table_to_bits(gen.verif_table());
        json!({"status": "ok", "thread_mismatches": bad, "after_equal": after == reference,
               "evaluations": nthreads * reps + 2 * points.len(),
               "table_unchanged": table_after == j["table"],
               "reference": reference.iter().map(|s| serde_json::from_str::<Value>(s).unwrap()).collect::<Vec<_>>()})
    })
}

/// build through the public API, serialise, deserialise, compare getters, table and samples bit for bit
fn op_serde(j: &Value) -> Value {
    let d = j["D"].as_u64().unwrap() as usize;
    let st = settings(j);
    let fmt = j["format"].as_str().unwrap_or("json");
    let points: Vec<Vec<f64>> = j["points"].as_array().unwrap().iter()
        .map(|p| p.as_array().unwrap().iter().map(|v| b2f(v.as_u64().unwrap())).collect()).collect();
    with_d_serde!(d, D, {
        let gen = match graph_from(j).build_sampler::<D>(get_sig(j)) {
            Ok(g) => g,
            Err(msg) => return json!({"status": "err", "msg": msg}),
        };
        let (restored, size): (SampleGenerator<D>, usize) = match fmt {
            "json" => {
                let s = serde_json::to_string(&gen).expect("serialise");
                (serde_json::from_str(&s).expect("deserialise"), s.len())
            }
            "json_value" => {
                let v = serde_json::to_value(&gen).expect("serialise");
                (serde_json::from_value(v).expect("deserialise"), 0)
            }
            "cbor" => {
                let mut buf = vec![];
                ciborium::ser::into_writer(&gen, &mut buf).expect("serialise");
                let n = buf.len();
                (ciborium::de::from_reader(buf.as_slice()).expect("deserialise"), n)
            }
            "wire_map" | "wire_seq" => {
                let v = crate::wire::to_val(&gen, fmt == "wire_seq").expect("serialise");
                let n = v.size();
                (crate::wire::from_val(v).expect("deserialise"), n)
            }
            other => panic!("harness: unknown format {other}"),
        };
        let logger = CaptureLogger::new();
        let ed = edge_data::<D>(j);
        let mut mism = vec![];
        let mut first = Value::Null;
        for (i, p) in points.iter().enumerate() {
            let a = sample_result_json(&gen.generate_sample_from_x_space_point(p, ed.clone(), &st, &logger));
            let b = sample_result_json(&restored.generate_sample_from_x_space_point(p, ed.clone(), &st, &logger));
            if a != b {
                if mism.is_empty() { first = json!({"point": i, "original": a, "restored": b}); }
                mism.push(i);
            }
        }
        let wa: Vec<u64> = gen.iter_edge_weights().map(f2b).collect();
        let wb: Vec<u64> = restored.iter_edge_weights().map(f2b).collect();
        json!({
            "status": "ok", "bytes": size,
            "dimension": [gen.get_dimension(), restored.get_dimension()],
            "dod": [f2b(gen.get_dod()), f2b(restored.get_dod())],
            "num_edges": [gen.get_num_edges(), restored.get_num_edges()],
            "weights_equal": wa == wb,
            "smallest_dod": [f2b(gen.get_smallest_dod()), f2b(restored.get_smallest_dod())],
            "table_equal": table_to_bits(gen.verif_table()) == table_to_bits(restored.verif_table()),
            "signature_equal": gen.verif_signature() == restored.verif_signature(),
            "sample_mismatches": mism, "first_mismatch": first, "points": points.len(),
            "serialized_keys": serde_json::to_value(&gen).map(|v| crate::key_tree(&v)).unwrap_or(Value::Null),
        })
    })
}

/// Monte Carlo means over n points drawn from a seeded StdRng through generate_sample_from_rng:
/// jacobian, and jacobian * g(k) with g = prod_e (q_e^2+m_e^2)^{w_e} exp(-alpha sum_l k_l^2), whose exact mean is (pi/alpha)^{DL/2}.
fn op_mc(j: &Value) -> Value {
    use rand::SeedableRng;
    let d = j["D"].as_u64().unwrap() as usize;
    let table = table_from_bits(&j["table"]);
    let n = j["n"].as_u64().unwrap() as usize;
    let seed = j["seed"].as_u64().unwrap_or(1);
    let alpha = j.get("alpha").and_then(|v| v.as_u64()).map(b2f).unwrap_or(1.0);
    let weights: Vec<f64> = table.tropical_graph.topology.iter().map(|e| e.weight).collect();
    let sig = get_sig(j);
    let st = TropicalSamplingSettings { matrix_stability_test: None, print_debug_info: false, return_metadata: false };
    with_d6!(d, D, {
        let gen = SampleGenerator::<D>::verif_from_parts(sig.clone(), table);
        let ed = edge_data::<D>(j);
        let logger = CaptureLogger::new();
        let mut rng = rand::rngs::StdRng::seed_from_u64(seed);
        let (mut s1, mut s2, mut g1, mut g2) = (0.0f64, 0.0f64, 0.0f64, 0.0f64);
        let (mut ok, mut err, mut nonfinite) = (0usize, 0usize, 0usize);
        let (mut jmin, mut jmax) = (f64::INFINITY, 0.0f64);
        for _ in 0..n {
            match gen.generate_sample_from_rng(ed.clone(), &st, &mut rng, &logger) {
                Err(_) => err += 1,
                Ok(s) => {
                    let jac = s.jacobian;
                    let mut g = 1.0f64;
                    for (e, (mass, shift)) in ed.iter().enumerate() {
                        let mut q2 = 0.0;
                        for i in 0..D {
                            let mut c = shift[i];
                            for (l, k) in s.loop_momenta.iter().enumerate() { c += sig[e][l] as f64 * k[i]; }
                            q2 += c * c;
                        }
                        let m = mass.unwrap_or(0.0);
                        g *= (q2 + m * m).powf(weights[e]);
                    }
                    let k2: f64 = s.loop_momenta.iter().map(|k| k.squared()).sum();
                    let gj = jac * g * (-alpha * k2).exp();
                    if !(jac.is_finite() && gj.is_finite()) { nonfinite += 1; continue; }
                    ok += 1;
                    s1 += jac; s2 += jac * jac; g1 += gj; g2 += gj * gj;
                    jmin = jmin.min(jac); jmax = jmax.max(jac);
                }
            }
        }
        json!({"status": "ok", "n": n, "ok": ok, "err": err, "nonfinite": nonfinite,
               "sum_jac": f2b(s1), "sumsq_jac": f2b(s2), "sum_gj": f2b(g1), "sumsq_gj": f2b(g2),
               "jac_min": f2b(jmin), "jac_max": f2b(jmax)})
    })
}

pub fn handle_extra(op: &str, j: &Value) -> Value {
    match op {
        "rng" => op_rng(j),
        "threads" => op_threads(j),
        "serde" => op_serde(j),
        "mc" => op_mc(j),
        other => json!({"error": format!("unknown op {other}")}),
    }
}
