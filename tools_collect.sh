#!/bin/bash
# usage: tools_collect.sh C12  -- copy a sub-agent's deliverables from /tmp/wt/<ID> into /verif/seeded/<ID>-k/
id=$1
for k in 1 2; do
  if [ -f /tmp/wt/$id/mutation$k.patch ]; then
    mkdir -p /verif/seeded/$id-$k
    cp /tmp/wt/$id/mutation$k.patch /verif/seeded/$id-$k/patch.diff
    [ -f /tmp/wt/$id/demo$k.rs ] && cp /tmp/wt/$id/demo$k.rs /verif/seeded/$id-$k/demo.rs
    [ -f /tmp/wt/$id/REPORT.md ] && cp /tmp/wt/$id/REPORT.md /verif/seeded/$id-$k/REPORT.md
  fi
done
ls /verif/seeded | tr '\n' ' '
