import Lean.Data.Json
import Momtrop.Model.Sample
import Momtrop.Model.Gamma
/-!
# Driver: the model instantiated at `Float`, behind a one-JSON-line-in / one-line-out protocol.

Floats travel as IEEE-754 bit patterns (JSON integers). Imports no Mathlib.
-/
open Lean Momtrop Momtrop.Scalar

instance : Scalar Float where
  zero := 0.0
  one := 1.0
  pi := Float.ofBits 0x400921FB54442D18
  sqrt := Float.sqrt
  ln := Float.log
  exp := Float.exp
  cos := Float.cos
  sin := Float.sin
  abs := Float.abs
  inv := fun x => 1.0 / x
  powf := Float.pow
  ofInt := Float.ofInt
  ofF64 := Float.ofBits
  decLe := fun a b => Float.decLe a b
  decLt := fun a b => Float.decLt a b
  beq := fun a b => a == b

namespace Drv

def fl (x : Float) : Json := Json.num (JsonNumber.fromNat x.toBits.toNat)
def fls (l : List Float) : Json := Json.arr (l.map fl).toArray
def flss (l : List (List Float)) : Json := Json.arr (l.map fls).toArray
def nat (n : Nat) : Json := Json.num (JsonNumber.fromNat n)
def nats (l : List Nat) : Json := Json.arr (l.map nat).toArray
def ofBits (n : Nat) : Float := Float.ofBits n.toUInt64

def getNat (j : Json) (k : String) : Except String Nat := j.getObjValAs? Nat k
def getBool (j : Json) (k : String) : Except String Bool := j.getObjValAs? Bool k
def getStr (j : Json) (k : String) : Except String String := j.getObjValAs? String k
def getF (j : Json) (k : String) : Except String Float := do return ofBits (← getNat j k)
def getFs (j : Json) (k : String) : Except String (List Float) := do
  let a ← j.getObjValAs? (Array Nat) k
  return a.toList.map ofBits
def getFss (j : Json) (k : String) : Except String (List (List Float)) := do
  let a ← j.getObjValAs? (Array (Array Nat)) k
  return a.toList.map fun r => r.toList.map ofBits
def getNats (j : Json) (k : String) : Except String (List Nat) := do
  let a ← j.getObjValAs? (Array Nat) k
  return a.toList
def getIntss (j : Json) (k : String) : Except String (List (List Int)) := do
  let a ← j.getObjValAs? (Array (Array Int)) k
  return a.toList.map fun r => r.toList
def getOptF (j : Json) (k : String) : Except String (Option Float) :=
  match j.getObjVal? k with
  | .ok Json.null => .ok none
  | .ok v => match v.getNat? with
    | .ok n => .ok (some (ofBits n))
    | .error e => .error e
  | .error _ => .ok none

def unflat (n : Nat) (l : List Float) : Mat Float :=
  (List.range n).map fun i => (List.range n).map fun j => l.getD (i * n + j) 0.0

/-! ### graph / table -/

def getTop (j : Json) : Except String (List (TEdge Float)) := do
  let a ← j.getObjValAs? (Array Json) "edges"
  a.toList.mapM fun e => do
    let l ← e.getArrVal? 0 >>= Json.getNat?
    let r ← e.getArrVal? 1 >>= Json.getNat?
    let w ← e.getArrVal? 2 >>= Json.getNat?
    let m ← e.getArrVal? 3 >>= Json.getBool?
    return ({ left := l, right := r, weight := ofBits w, massive := m } : TEdge Float)

def entryJson (e : Entry Float) : Json :=
  Json.arr #[nat e.loopNumber, Json.bool e.mms, fl e.j, fl e.dod]

/-- `gammas`: Γ(dod) followed by Γ(w_e), supplied by the harness from the real `statrs`. -/
def gammaLookup (G : TGraph Float) (gs : List Float) : Float → Float := fun x =>
  let keys := G.dod :: G.topology.map (·.weight)
  match (keys.zip gs).find? (fun p => p.1.toBits == x.toBits) with
  | some p => p.2
  | none => 0.0 / 0.0

def opGraph (j : Json) : Except String Json := do
  let top ← getTop j
  let ext ← getNats j "ext"
  let D ← getNat j "D"
  let G : TGraph Float := fromGraph { edges := top, externals := ext } D
  let gs := (getFs j "gammas").toOption.getD []
  let base := [("dod", fl G.dod), ("numLoops", nat G.numLoops), ("numMassive", nat G.numMassive)]
  match generateTable (gammaLookup G gs) G D with
  | .error i => return Json.mkObj (base ++ [("status", Json.str "err"), ("at", nat i)])
  | .ok T =>
    return Json.mkObj (base ++ [("status", Json.str "ok"),
      ("entries", Json.arr (T.entries.map entryJson).toArray),
      ("cached", fl T.cached), ("numVars", nat (numVariables T))])

def opComps (j : Json) : Except String Json := do
  let top ← getTop j
  let ext ← getNats j "ext"
  let s ← getNats j "subset"
  let nm := (top.filter (·.massive)).length
  return Json.mkObj [("comps", nats (components top s)), ("loops", nat (loopNumber top s)),
    ("mms", Json.bool (isMMSpanning top nm ext s)), ("wsum", fl (weightSum top s))]

def opSubsets (j : Json) : Except String Json := do
  let top ← getTop j
  let ext ← getNats j "ext"
  let nm := (top.filter (·.massive)).length
  let n := top.length
  let masks := List.range (2 ^ n)
  let ss := masks.map fun m => Mask.edges n m
  return Json.mkObj [("comps", Json.arr (ss.map fun s => nats (components top s)).toArray),
    ("loops", nats (ss.map (loopNumber top))),
    ("mms", Json.arr (ss.map fun s => Json.bool (isMMSpanning top nm ext s)).toArray),
    ("wsum", fls (ss.map (weightSum top)))]

/-- the memoised J recursion on the implementation's own generalised dods -/
def opJfill (j : Json) : Except String Json := do
  let n ← getNat j "n"
  let dods ← getFs j "dods"
  let omega : Mask → Float := fun g => dods.getD g 1.0
  let memo := (fillJ omega n n (Mask.full n) (List.replicate (2 ^ n) none)).2
  let spec := (List.range (2 ^ n)).map fun g => jSpec omega n n g
  return Json.mkObj [("j", fls (memo.map fun o => o.getD (0.0 / 0.0))), ("jspec", fls spec)]

/-- `cached_factor` from its ingredients (Γ values from the real statrs) -/
def opCached (j : Json) : Except String Json := do
  let top ← getTop j
  let D ← getNat j "D"
  let nl ← getNat j "numLoops"
  let dod ← getF j "dod"
  let iTr ← getF j "iTr"
  let gs ← getFs j "gammas"
  let G : TGraph Float := { dod := dod, topology := top, numMassive := 0, externals := [], numLoops := nl }
  return Json.mkObj [("cached", fl (cachedFactor (gammaLookup G gs) G D iTr))]

/-! ### sampler view of the table -/

def getSTable (j : Json) : Except String (STable Float) := do
  let t ← j.getObjVal? "table"
  let n ← getNat t "n"
  let D ← getNat t "D"
  let nl ← getNat t "numLoops"
  let dod ← getF t "dod"
  let cached ← getF t "cached"
  let ents ← t.getObjValAs? (Array Json) "entries"
  let entries ← ents.toList.mapM fun e => do
    let l ← e.getArrVal? 0 >>= Json.getNat?
    let m ← e.getArrVal? 1 >>= Json.getBool?
    let jf ← e.getArrVal? 2 >>= Json.getNat?
    let om ← e.getArrVal? 3 >>= Json.getNat?
    return ({ loops := l, mms := m, j := ofBits jf, omega := ofBits om } : SEntry Float)
  let halfD := Float.ofNat D / 2.0
  let lastLoops := match entries.getLast? with | some e => e.loops | none => 0
  return { numEdges := n, entries := entries, dimension := D, numLoops := nl, dod := dod,
           halfD := halfD, negHalfD := -halfD,
           scaleDen := halfD * Float.ofNat lastLoops + dod, cached := cached }

def opEdge (j : Json) : Except String Json := do
  let T ← getSTable j
  let g ← getNat j "g"
  let u ← getF j "u"
  match sampleEdge T u g with
  | none => return Json.mkObj [("status", Json.str "panic")]
  | some (e, g') => return Json.mkObj [("status", Json.str "ok"), ("edge", nat e), ("rest", nat g')]

def opPerm (j : Json) : Except String Json := do
  let T ← getSTable j
  let xs ← getFs j "x"
  match permutahedral T xs with
  | none => return Json.mkObj [("status", Json.str "panic")]
  | some r => return Json.mkObj [("status", Json.str "ok"), ("x", fls r.x), ("xPre", fls r.xPre),
      ("uTrPre", fl r.uTrPre), ("vTrPre", fl r.vTrPre), ("scaling", fl r.scaling),
      ("uTr", fl r.uTr), ("vTr", fl r.vTr), ("reads", nat r.reads), ("order", nats r.order)]

/-! ### matrix -/

def decompJson (n : Nat) (r : Except MatErr (Decomp Float)) : Json :=
  match r with
  | .error .zeroDet => Json.mkObj [("status", Json.str "zerodet")]
  | .error .unstable => Json.mkObj [("status", Json.str "unstable")]
  | .ok d => Json.mkObj [("status", Json.str "ok"), ("det", fl d.determinant), ("inv", fls d.inverse.flat),
      ("qt", fls d.qT.flat), ("qti", fls d.qTInv.flat), ("n", nat n)]

def opDecomp (j : Json) : Except String Json := do
  let n ← getNat j "n"
  let a ← getFs j "a"
  let tol ← getOptF j "tol"
  return decompJson n (decompose n (unflat n a) tol)

/-! ### pieces of `sample` -/

def opBm (j : Json) : Except String Json := do
  let a ← getF j "a"; let b ← getF j "b"
  let r := boxMuller a b
  return Json.mkObj [("r", fls [r.1, r.2])]

def opQvec (j : Json) : Except String Json := do
  let xs ← getFs j "x"; let D ← getNat j "D"; let L ← getNat j "L"
  match qVectors xs 0 D L with
  | none => return Json.mkObj [("status", Json.str "panic")]
  | some q => return Json.mkObj [("status", Json.str "ok"), ("q", flss q), ("reads", nat (qReads D L))]

def opLmat (j : Json) : Except String Json := do
  let x ← getFs j "x"; let S ← getIntss j "sig"
  return Json.mkObj [("l", fls (lMatrix x S).flat)]

def opUvec (j : Json) : Except String Json := do
  let x ← getFs j "x"; let S ← getIntss j "sig"; let sh ← getFss j "shifts"; let D ← getNat j "D"
  return Json.mkObj [("u", flss (uVectors D x S sh))]

def opVpoly (j : Json) : Except String Json := do
  let x ← getFs j "x"; let u ← getFss j "u"; let sh ← getFss j "shifts"
  let ms ← getFs j "masses"; let nL ← getNat j "nL"; let li ← getFs j "linv"
  return Json.mkObj [("v", fl (vPolynomial x u (unflat nL li) nL sh ms))]

def opMomenta (j : Json) : Except String Json := do
  let D ← getNat j "D"; let nL ← getNat j "nL"
  let v ← getF j "v"; let lam ← getF j "lambda"
  let qti ← getFs j "qti"; let li ← getFs j "linv"
  let q ← getFss j "q"; let u ← getFss j "u"
  return Json.mkObj [("k", flss (loopMomenta D v lam (unflat nL qti) nL q (unflat nL li) u)),
    ("shift", flss (onlyShift D (unflat nL li) nL u))]

def getEdgeData (j : Json) : Except String (List (Option Float × Vec Float)) := do
  let a ← j.getObjValAs? (Array Json) "edge_data"
  a.toList.mapM fun e => do
    let m ← e.getArrVal? 0
    let mass : Option Float := match m.getNat? with | .ok n => some (ofBits n) | .error _ => none
    let sh ← e.getArrVal? 1 >>= fun v => (fromJson? v : Except String (Array Nat))
    return (mass, sh.toList.map ofBits)

/-- `sample` with the Gamma draw supplied by the caller (`lambda`: value, or null for GammaError). -/
def opSample (j : Json) : Except String Json := do
  let T ← getSTable j
  let D ← getNat j "D"
  let xs ← getFs j "x"
  let S ← getIntss j "sig"
  let ed ← getEdgeData j
  let tol ← getOptF j "tol"
  let lam ← getOptF j "lambda"
  let st : Settings Float := { stability := tol, debug := false, returnMeta := true }
  match sampleCore (fun _ _ => lam) T D xs S ed st with
  | none => return Json.mkObj [("status", Json.str "panic")]
  | some (.error (.matrix .zeroDet)) => return Json.mkObj [("status", Json.str "zerodet")]
  | some (.error (.matrix .unstable)) => return Json.mkObj [("status", Json.str "unstable")]
  | some (.error .gamma) => return Json.mkObj [("status", Json.str "gammaerr")]
  | some (.ok r) =>
    let nL := (S.getD 0 []).length
    let mdJ := match r.metadata with
      | none => Json.null
      | some m => Json.mkObj [("q", flss m.qVectors), ("lambda", fl m.lambda),
          ("l", fls m.lMatrix.flat), ("decomp", decompJson nL (.ok m.decomp)),
          ("u", flss m.uVectors), ("shift", flss m.shift)]
    return Json.mkObj [("status", Json.str "ok"), ("k", flss r.loopMomenta), ("uTrop", fl r.uTrop),
      ("vTrop", fl r.vTrop), ("u", fl r.u), ("v", fl r.v), ("jac", fl r.jacobian),
      ("reads", nat r.reads), ("meta", mdJ)]

/-! ### gamma -/

def exitTag : GExit → String
  | .nearOne => "nearOne" | .tinyB => "tinyB" | .largeA => "largeA"
  | .converged k => s!"converged:{k}" | .exhausted => "exhausted"

def opGamma (j : Json) : Except String Json := do
  let a ← getF j "a"; let p ← getF j "p"
  let n := (getNat j "n").toOption.getD 50
  let tol := (getF j "tol").toOption.getD 5.0
  let ext : GammaExt Float := statrsExt
  match invGammaImpl ext a p n tol with
  | none => return Json.mkObj [("status", Json.str "panic")]
  | some (r, e) =>
    let st := match invGammaLr ext a p n tol with
      | some (some _) => "ok" | some none => "err" | none => "panic"
    return Json.mkObj [("status", Json.str st), ("r", fl r), ("raw", fl r), ("exit", Json.str (exitTag e))]

def opStatrs (j : Json) : Except String Json := do
  let f ← getStr j "fn"
  let a ← getF j "a"
  let x := (getF j "x").toOption.getD 0.0
  let r : Option Float := match f with
    | "gamma" => some (statrsGamma a)
    | "ln_gamma" => some (statrsLnGamma a)
    | "gamma_lr" => statrsGammaLr a x
    | "gamma_ur" => statrsGammaUr a x
    | _ => none
  match r with
  | some v => return Json.mkObj [("status", Json.str "ok"), ("r", fl v)]
  | none => return Json.mkObj [("status", Json.str "panic")]

/-! ### vector / scalar primitives -/

def opVec (j : Json) : Except String Json := do
  let f ← getStr j "fn"; let D ← getNat j "D"
  let a := (getFs j "a").toOption.getD []; let b := (getFs j "b").toOption.getD []
  let s := (getF j "s").toOption.getD 0.0
  match f with
  | "add" => return Json.mkObj [("r", fls (Vec.add D a b))]
  | "sub" => return Json.mkObj [("r", fls (Vec.sub D a b))]
  | "muls" => return Json.mkObj [("r", fls (Vec.smul a s))]
  | "mulr" => return Json.mkObj [("r", fls (Vec.smul a s))]
  | "addassign" => return Json.mkObj [("r", fls (Vec.addAssign D a b))]
  | "dot" => return Json.mkObj [("r", fls [Vec.dot a b])]
  | "squared" => return Json.mkObj [("r", fls [Vec.squared a])]
  | "new" => return Json.mkObj [("r", fls (Vec.zeros D))]
  | "new_from_num" => return Json.mkObj [("r", fls (Vec.zeros D))]
  | "roundtrip" => return Json.mkObj [("r", fls a)]
  | _ => throw s!"unknown vec fn {f}"

def opF64 (j : Json) : Except String Json := do
  let f ← getStr j "fn"
  let x := (getF j "x").toOption.getD 0.0; let y := (getF j "y").toOption.getD 0.0
  let n : Int := (j.getObjValAs? Int "n").toOption.getD 0
  let r : Float := match f with
    | "ln" => ln x | "exp" => exp x | "cos" => cos x | "sin" => sin x | "sqrt" => sqrt x
    | "abs" => Scalar.abs x | "inv" => inv x | "powf" => powf x y
    | "from_isize" => (ofInt n : Float) | "from_f64" => x | "to_f64" => x
    | "PI" => (pi : Float) | "zero" => (zero : Float) | "one" => (one : Float)
    | "add" => x + y | "sub" => x - y | "mul" => x * y | "div" => x / y | "neg" => -x
    | _ => 0.0 / 0.0
  return Json.mkObj [("r", fl r)]

def handle (j : Json) : Except String Json := do
  let op ← getStr j "op"
  match op with
  | "vec" => opVec j
  | "f64" => opF64 j
  | "bm" => opBm j
  | "qvec" => opQvec j
  | "decomp" => opDecomp j
  | "graph" => opGraph j
  | "comps" => opComps j
  | "subsets" => opSubsets j
  | "jfill" => opJfill j
  | "cached" => opCached j
  | "edge" => opEdge j
  | "perm" => opPerm j
  | "lmat" => opLmat j
  | "uvec" => opUvec j
  | "vpoly" => opVpoly j
  | "momenta" => opMomenta j
  | "sample" => opSample j
  | "gamma" => opGamma j
  | "statrs" => opStatrs j
  | _ => throw s!"unknown op {op}"

end Drv

partial def loop (h out : IO.FS.Stream) : IO Unit := do
  let line ← h.getLine
  if line.isEmpty then return ()
  let res := match Json.parse line with
    | .error e => Json.mkObj [("error", Json.str e)]
    | .ok j => match Drv.handle j with
      | .ok r => r
      | .error e => Json.mkObj [("error", Json.str e)]
  out.putStrLn res.compress
  loop h out

def main : IO Unit := do
  loop (← IO.getStdin) (← IO.getStdout)
