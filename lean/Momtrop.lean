-- Root of the `Momtrop` library: model, proofs and property theorems.
import Momtrop.Model.Sample
