import Momtrop.Model.Serde
/-!
# C18 — a serialised sampler restores to one that samples identically

* (superseded by `Props/C18G.lean`, which proves the round trip for EVERY schema and applies it to the schema regenerated from the
  source; this file keeps the concrete instance for the schema as it was when the model was written)
* `decode_encode`: for the derive semantics (map of all fields) the round trip is the identity on every
  sampler value, so every function of the sampler — in particular `sample` — gives identical results.
Core Lean only.
-/
namespace Momtrop.C18
open Momtrop.Serde

theorem mapM_map_some {α β : Type} (enc : α → β) (dec : β → Option α) (h : ∀ x, dec (enc x) = some x) (l : List α) :
    (l.map enc).mapM dec = some l := by
  induction l with
  | nil => rfl
  | cons x xs ih => simp [List.mapM_cons, h x, ih]

theorem dec_enc_edge (e : SerEdge) : decEdge (encEdge e) = some e := by
  cases e; rfl

theorem dec_enc_entry (e : SerEntry) : decEntry (encEntry e) = some e := by
  cases e; rfl

theorem dec_enc_graph (g : SerGraph) : decGraph (encGraph g) = some g := by
  cases g with
  | mk d t nm e nl =>
    simp only [encGraph, struct, graphFields, List.map, List.zip_cons_cons, List.zip_nil_right, decGraph, decSeq]
    rw [mapM_map_some encEdge decEdge dec_enc_edge, mapM_map_some Val.nat decNat (fun _ => rfl)]
    rfl

theorem dec_enc_table (t : SerTable) : decTable (encTable t) = some t := by
  cases t with
  | mk tab dim g c =>
    simp only [encTable, struct, tableFields, List.map, List.zip_cons_cons, List.zip_nil_right, decTable, decSeq]
    rw [mapM_map_some encEntry decEntry dec_enc_entry, dec_enc_graph]
    rfl

/-- **Round trip**: deserialising the serialised sampler gives back the same sampler value (signature,
dimension, degree of divergence, the whole table, the cached factor — bit for bit). -/
theorem decode_encode (g : SerGen) : decGen (encGen g) = some g := by
  cases g with
  | mk sig t =>
    simp only [encGen, struct, genFields, List.map, List.zip_cons_cons, List.zip_nil_right, decGen, decSeq]
    have hrow : ∀ r : List Int, decSeq decInt (Val.seq (r.map Val.int)) = some r := by
      intro r; simp only [decSeq]; exact mapM_map_some Val.int decInt (fun _ => rfl) r
    rw [mapM_map_some (fun r : List Int => Val.seq (r.map Val.int)) (decSeq decInt) hrow, dec_enc_table]
    rfl

/-- consequently any observation of the restored sampler — `get_dimension`, `get_dod`, the table,
every sample at every x-space point — equals that of the original -/
theorem observation_after_roundtrip {β : Type} (observe : SerGen → β) (g : SerGen) :
    (decGen (encGen g)).map observe = some (observe g) := by
  rw [decode_encode]; rfl

end Momtrop.C18
