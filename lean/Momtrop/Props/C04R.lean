import Momtrop.Props.C04
import Mathlib.Data.Nat.Factorial.Basic
import Mathlib.Data.List.Perm.Basic
/-!
# C04 in exact arithmetic: `J(g)` is the sum over all orderings of the edges of `g`
-/
namespace Momtrop.C04
open Momtrop Scalar

/-- all orderings of a list of `k` elements: pick the first element, then order the rest -/
def orderingsAux : Nat → List Nat → List (List Nat)
  | 0, _ => [[]]
  | k + 1, l => l.flatMap fun e => (orderingsAux k (l.erase e)).map fun σ => e :: σ

/-- all removal orders of the edges in `l` -/
def orderings (l : List Nat) : List (List Nat) := orderingsAux l.length l

/-- the weight of one removal order: `Π_k 1/ω(g minus the first k+1 removed edges)` -/
noncomputable def orderWeight (omega : Mask → ℝ) : Mask → List Nat → ℝ
  | _, [] => 1
  | g, e :: σ => 1 / omega (Mask.pop g e) * orderWeight omega (Mask.pop g e) σ

theorem sum_map_flatMap {β : Type} (l : List β) (f : β → List (List Nat)) (w : List Nat → ℝ) :
    ((l.flatMap f).map w).sum = (l.map fun e => ((f e).map w).sum).sum := by
  induction l with
  | nil => simp
  | cons a as ih => simp [List.flatMap_cons, List.map_append, List.sum_append, ih]

theorem sum_map_mul_left (l : List (List Nat)) (c : ℝ) (w : List Nat → ℝ) :
    (l.map fun σ => c * w σ).sum = c * (l.map w).sum := by
  induction l with
  | nil => simp
  | cons a as ih => simp [ih, mul_add]

theorem edges_pop_erase (n : Nat) (g : Mask) (e : Nat) (he : e ∈ Mask.edges n g) :
    Mask.edges n (Mask.pop g e) = (Mask.edges n g).erase e := by
  rw [Mask.edges_pop n g e (Mask.mem_edges.mp he).2, List.Nodup.erase_eq_filter (Mask.edges_nodup n g)]
  apply List.filter_congr
  intro x _
  by_cases hx : x = e <;> simp [hx]

/-- **`J(g)` as the sum over all orderings** of the edges of `g` of the product of inverse generalised
degrees of divergence of the successive remainders. -/
theorem J_eq_sum_orderings (omega : Mask → ℝ) (n : Nat) :
    ∀ (k : Nat) (g : Mask), g < 2 ^ n → card n g = k →
      Jval omega n g = ((orderingsAux k (Mask.edges n g)).map (orderWeight omega g)).sum := by
  intro k
  induction k with
  | zero =>
    intro g hg hc
    have h0 : g = 0 := by
      apply Classical.byContradiction; intro h0
      have := card_pos hg h0; omega
    subst h0
    simp [J_empty, orderingsAux, orderWeight]
  | succ k ih =>
    intro g hg hc
    have h0 : g ≠ 0 := by
      intro h0; subst h0; rw [card_zero] at hc; omega
    rw [J_rec omega n g hg h0, sumIter_eq]
    simp only [orderingsAux]
    rw [sum_map_flatMap]
    congr 1
    apply List.map_congr_left
    intro e he
    have hlt : Mask.pop g e < 2 ^ n := Mask.pop_lt hg (Mask.mem_edges.mp he).1
    have hck : card n (Mask.pop g e) = k := by
      have := Mask.card_pop n g e he; unfold card at *; omega
    rw [ih (Mask.pop g e) hlt hck, edges_pop_erase n g e he, List.map_map]
    have : (orderWeight omega g ∘ fun σ => e :: σ) = fun σ => 1 / omega (Mask.pop g e) * orderWeight omega (Mask.pop g e) σ := by
      funext σ; simp [orderWeight]
    rw [this, sum_map_mul_left]
    ring

/-- `J(full graph) = Σ over all E! orderings …` -/
theorem J_full_eq_sum_orderings (omega : Mask → ℝ) (n : Nat) :
    Jval omega n (Mask.full n)
      = ((orderings (List.range n)).map (orderWeight omega (Mask.full n))).sum := by
  have := J_eq_sum_orderings omega n n (Mask.full n) (full_lt n) (card_full n)
  rw [Mask.edges_full] at this
  rw [this]; simp [orderings]

/-- there are `k!` orderings of a `k`-element list -/
theorem orderingsAux_length : ∀ (k : Nat) (l : List Nat), l.length = k → (orderingsAux k l).length = k.factorial := by
  intro k
  induction k with
  | zero => intro l _; simp [orderingsAux]
  | succ k ih =>
    intro l hl
    simp only [orderingsAux, List.length_flatMap, List.length_map]
    have : (l.map fun e => (orderingsAux k (l.erase e)).length) = l.map fun _ => k.factorial := by
      apply List.map_congr_left
      intro e he
      exact ih _ (by rw [List.length_erase_of_mem he, hl]; rfl)
    rw [this]
    simp [hl, Nat.factorial_succ]

/-- every listed ordering is a permutation of the list -/
theorem orderingsAux_perm : ∀ (k : Nat) (l σ : List Nat), l.length = k → σ ∈ orderingsAux k l → σ.Perm l := by
  intro k
  induction k with
  | zero =>
    intro l σ hl h
    have : l = [] := List.eq_nil_of_length_eq_zero hl
    subst this
    simp [orderingsAux] at h; subst h; exact List.Perm.refl _
  | succ k ih =>
    intro l σ hl h
    simp only [orderingsAux, List.mem_flatMap, List.mem_map] at h
    obtain ⟨e, he, τ, hτ, rfl⟩ := h
    have := ih (l.erase e) τ (by rw [List.length_erase_of_mem he, hl]; rfl) hτ
    exact (List.Perm.cons e this).trans (List.perm_cons_erase he).symm

/-- for a duplicate-free list the orderings are pairwise different: together with the count `k!` and
`orderingsAux_perm` they are *all* permutations, each exactly once -/
theorem orderingsAux_nodup : ∀ (k : Nat) (l : List Nat), l.length = k → l.Nodup → (orderingsAux k l).Nodup := by
  intro k
  induction k with
  | zero => intro l _ _; simp [orderingsAux]
  | succ k ih =>
    intro l hl hnd
    simp only [orderingsAux]
    rw [List.nodup_flatMap]
    constructor
    · intro e he
      apply List.Nodup.map
      · intro a b hab; simpa using hab
      · exact ih _ (by rw [List.length_erase_of_mem he, hl]; rfl) (hnd.erase e)
    · apply List.Pairwise.imp_of_mem _ (List.Nodup.pairwise_of_forall_ne hnd (fun a _ b _ h => h))
      intro a b _ _ hab
      intro σ h1 h2
      simp only [List.mem_map] at h1 h2
      obtain ⟨τ1, _, rfl⟩ := h1
      obtain ⟨τ2, _, h⟩ := h2
      simp only [List.cons.injEq] at h
      exact hab h.1.symm

end Momtrop.C04
