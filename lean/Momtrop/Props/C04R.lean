import Momtrop.Props.C04
import Mathlib.Data.Nat.Factorial.Basic
import Mathlib.Data.List.Perm.Basic
/-!
# C04 in exact arithmetic: `J(g)` is the sum over all orderings of the edges of `g`
-/
namespace Momtrop.C04
open Momtrop Scalar

/-- all orderings of a list of `k` elements: pick the first element, then order the rest -/
def orderingsAux : Nat → List Nat → List (List Nat)
  | 0, _ => [[]]
  | k + 1, l => l.flatMap fun e => (orderingsAux k (l.erase e)).map fun σ => e :: σ

/-- all removal orders of the edges in `l` -/
def orderings (l : List Nat) : List (List Nat) := orderingsAux l.length l

/-- the weight of one removal order: `Π_k 1/ω(g minus the first k+1 removed edges)` -/
noncomputable def orderWeight (omega : Mask → ℝ) : Mask → List Nat → ℝ
  | _, [] => 1
  | g, e :: σ => 1 / omega (Mask.pop g e) * orderWeight omega (Mask.pop g e) σ

theorem sum_map_flatMap {β : Type} (l : List β) (f : β → List (List Nat)) (w : List Nat → ℝ) :
    ((l.flatMap f).map w).sum = (l.map fun e => ((f e).map w).sum).sum := by
  induction l with
  | nil => simp
  | cons a as ih => simp [List.flatMap_cons, List.map_append, List.sum_append, ih]

theorem sum_map_mul_left (l : List (List Nat)) (c : ℝ) (w : List Nat → ℝ) :
    (l.map fun σ => c * w σ).sum = c * (l.map w).sum := by
  induction l with
  | nil => simp
  | cons a as ih => simp [ih, mul_add]

theorem edges_pop_erase (n : Nat) (g : Mask) (e : Nat) (he : e ∈ Mask.edges n g) :
    Mask.edges n (Mask.pop g e) = (Mask.edges n g).erase e := by
  rw [Mask.edges_pop n g e (Mask.mem_edges.mp he).2, List.Nodup.erase_eq_filter (Mask.edges_nodup n g)]
  apply List.filter_congr
  intro x _
  by_cases hx : x = e <;> simp [hx]

/-- **`J(g)` as the sum over all orderings** of the edges of `g` of the product of inverse generalised
degrees of divergence of the successive remainders. -/
theorem J_eq_sum_orderings (omega : Mask → ℝ) (n : Nat) :
    ∀ (k : Nat) (g : Mask), g < 2 ^ n → card n g = k →
      Jval omega n g = ((orderingsAux k (Mask.edges n g)).map (orderWeight omega g)).sum := by
  intro k
  induction k with
  | zero =>
    intro g hg hc
    have h0 : g = 0 := by
      apply Classical.byContradiction; intro h0
      have := card_pos hg h0; omega
    subst h0
    simp [J_empty, orderingsAux, orderWeight]
  | succ k ih =>
    intro g hg hc
    have h0 : g ≠ 0 := by
      intro h0; subst h0; rw [card_zero] at hc; omega
    rw [J_rec omega n g hg h0, sumIter_eq]
    simp only [orderingsAux]
    rw [sum_map_flatMap]
    congr 1
    apply List.map_congr_left
    intro e he
    have hlt : Mask.pop g e < 2 ^ n := Mask.pop_lt hg (Mask.mem_edges.mp he).1
    have hck : card n (Mask.pop g e) = k := by
      have := Mask.card_pop n g e he; unfold card at *; omega
    rw [ih (Mask.pop g e) hlt hck, edges_pop_erase n g e he, List.map_map]
    have : (orderWeight omega g ∘ fun σ => e :: σ) = fun σ => 1 / omega (Mask.pop g e) * orderWeight omega (Mask.pop g e) σ := by
      funext σ; simp [orderWeight]
    rw [this, sum_map_mul_left]
    ring

/-- `J(full graph) = Σ over all E! orderings …` -/
theorem J_full_eq_sum_orderings (omega : Mask → ℝ) (n : Nat) :
    Jval omega n (Mask.full n)
      = ((orderings (List.range n)).map (orderWeight omega (Mask.full n))).sum := by
  have := J_eq_sum_orderings omega n n (Mask.full n) (full_lt n) (card_full n)
  rw [Mask.edges_full] at this
  rw [this]; simp [orderings]

/-- there are `k!` orderings of a `k`-element list -/
theorem orderingsAux_length : ∀ (k : Nat) (l : List Nat), l.length = k → (orderingsAux k l).length = k.factorial := by
  intro k
  induction k with
  | zero => intro l _; simp [orderingsAux]
  | succ k ih =>
    intro l hl
    simp only [orderingsAux, List.length_flatMap, List.length_map]
    have : (l.map fun e => (orderingsAux k (l.erase e)).length) = l.map fun _ => k.factorial := by
      apply List.map_congr_left
      intro e he
      exact ih _ (by rw [List.length_erase_of_mem he, hl]; rfl)
    rw [this]
    simp [hl, Nat.factorial_succ]

/-- every listed ordering is a permutation of the list -/
theorem orderingsAux_perm : ∀ (k : Nat) (l σ : List Nat), l.length = k → σ ∈ orderingsAux k l → σ.Perm l := by
  intro k
  induction k with
  | zero =>
    intro l σ hl h
    have : l = [] := List.eq_nil_of_length_eq_zero hl
    subst this
    simp [orderingsAux] at h; subst h; exact List.Perm.refl _
  | succ k ih =>
    intro l σ hl h
    simp only [orderingsAux, List.mem_flatMap, List.mem_map] at h
    obtain ⟨e, he, τ, hτ, rfl⟩ := h
    have := ih (l.erase e) τ (by rw [List.length_erase_of_mem he, hl]; rfl) hτ
    exact (List.Perm.cons e this).trans (List.perm_cons_erase he).symm

/-- for a duplicate-free list the orderings are pairwise different: together with the count `k!` and
`orderingsAux_perm` they are *all* permutations, each exactly once -/
theorem orderingsAux_nodup : ∀ (k : Nat) (l : List Nat), l.length = k → l.Nodup → (orderingsAux k l).Nodup := by
  intro k
  induction k with
  | zero => intro l _ _; simp [orderingsAux]
  | succ k ih =>
    intro l hl hnd
    simp only [orderingsAux]
    rw [List.nodup_flatMap]
    constructor
    · intro e he
      apply List.Nodup.map
      · intro a b hab; simpa using hab
      · exact ih _ (by rw [List.length_erase_of_mem he, hl]; rfl) (hnd.erase e)
    · apply List.Pairwise.imp_of_mem _ (List.Nodup.pairwise_of_forall_ne hnd (fun a _ b _ h => h))
      intro a b _ _ hab
      intro σ h1 h2
      simp only [List.mem_map] at h1 h2
      obtain ⟨τ1, _, rfl⟩ := h1
      obtain ⟨τ2, _, h⟩ := h2
      simp only [List.cons.injEq] at h
      exact hab h.1.symm

/-- probability that the sampler removes the edges of `σ` from `g` in this order: the product of the step probabilities
`J(g∖e)/J(g)/ω(g∖e)` (C06: each step selects `e` with exactly this probability) -/
noncomputable def orderProb (omega : Mask → ℝ) (n : Nat) : Mask → List Nat → ℝ
  | _, [] => 1
  | g, e :: σ => Jval omega n (Mask.pop g e) / Jval omega n g / omega (Mask.pop g e) * orderProb omega n (Mask.pop g e) σ

/-- **Sector probability (telescoping).** The probability of a removal order is its weight `Π 1/ω` times
`J(what is left)/J(g)`; for a complete order of `g` (nothing left, `J(∅)=1`) it is `orderWeight/J(g)`. -/
theorem orderProb_eq (omega : Mask → ℝ) (n : Nat) (hJ : ∀ h, h < 2 ^ n → Jval omega n h ≠ 0) :
    ∀ (σ : List Nat) (g : Mask), g < 2 ^ n → (∀ e ∈ σ, e < n) →
      orderProb omega n g σ = orderWeight omega g σ * Jval omega n (σ.foldl Mask.pop g) / Jval omega n g := by
  intro σ
  induction σ with
  | nil => intro g hg _; simp [orderProb, orderWeight, hJ g hg]
  | cons e σ ih =>
    intro g hg hσ
    have hlt : Mask.pop g e < 2 ^ n := Mask.pop_lt hg (hσ e List.mem_cons_self)
    simp only [orderProb, orderWeight, List.foldl_cons]
    rw [ih (Mask.pop g e) hlt (fun f hf => hσ f (List.mem_cons_of_mem _ hf))]
    have h1 := hJ (Mask.pop g e) hlt
    have h2 := hJ g hg
    field_simp

/-- removing a duplicate-free list of present edges leaves exactly the other edges -/
theorem edges_foldl_pop (n : Nat) : ∀ (σ : List Nat) (g : Mask), σ.Nodup → (∀ e ∈ σ, e ∈ Mask.edges n g) →
    Mask.edges n (σ.foldl Mask.pop g) = (Mask.edges n g).filter (fun f => decide (f ∉ σ)) := by
  intro σ
  induction σ with
  | nil => intro g _ _; simp
  | cons e σ ih =>
    intro g hnd hmem
    rw [List.nodup_cons] at hnd
    have he : e ∈ Mask.edges n g := hmem e List.mem_cons_self
    have hpop := Mask.edges_pop n g e (Mask.mem_edges.mp he).2
    rw [List.foldl_cons, ih (Mask.pop g e) hnd.2, hpop, List.filter_filter]
    · apply List.filter_congr
      intro f _
      by_cases hfe : f = e
      · subst hfe; simp
      · simp [hfe]
    · intro f hf
      rw [hpop]
      refine List.mem_filter.mpr ⟨hmem f (List.mem_cons_of_mem _ hf), ?_⟩
      have : f ≠ e := fun h => hnd.1 (h ▸ hf)
      simpa using this

theorem foldl_pop_lt (n : Nat) : ∀ (σ : List Nat) (g : Mask), g < 2 ^ n → (∀ e ∈ σ, e < n) → σ.foldl Mask.pop g < 2 ^ n := by
  intro σ
  induction σ with
  | nil => intro g hg _; simpa
  | cons e σ ih =>
    intro g hg h
    rw [List.foldl_cons]
    exact ih _ (Mask.pop_lt hg (h e List.mem_cons_self)) (fun f hf => h f (List.mem_cons_of_mem _ hf))

/-- a complete removal order exhausts the subgraph -/
theorem complete_order_exhausts (n : Nat) (g : Mask) (hg : g < 2 ^ n) (σ : List Nat)
    (hσ : σ ∈ orderingsAux (card n g) (Mask.edges n g)) : σ.foldl Mask.pop g = 0 := by
  have hperm := orderingsAux_perm (card n g) (Mask.edges n g) σ rfl hσ
  have hnd : σ.Nodup := (hperm.nodup_iff).mpr (Mask.edges_nodup n g)
  have hmem : ∀ e ∈ σ, e ∈ Mask.edges n g := fun e he => hperm.mem_iff.mp he
  have hedges := edges_foldl_pop n σ g hnd hmem
  have hnil : Mask.edges n (σ.foldl Mask.pop g) = [] := by
    rw [hedges, List.filter_eq_nil_iff]
    intro f hf
    simpa using hperm.mem_iff.mpr hf
  have hlt := foldl_pop_lt n σ g hg (fun e he => (Mask.mem_edges.mp (hmem e he)).1)
  apply Classical.byContradiction
  intro h0
  exact Mask.edges_ne_nil hlt h0 hnil

/-- **The sector probabilities of all `k!` complete removal orders sum to one.** -/
theorem orderProb_sum_one (omega : Mask → ℝ) (n : Nat) (hJ : ∀ h, h < 2 ^ n → Jval omega n h ≠ 0)
    (g : Mask) (hg : g < 2 ^ n) :
    ((orderingsAux (card n g) (Mask.edges n g)).map (orderProb omega n g)).sum = 1 := by
  have hsum := J_eq_sum_orderings omega n (card n g) g hg rfl
  have : (orderingsAux (card n g) (Mask.edges n g)).map (orderProb omega n g)
      = (orderingsAux (card n g) (Mask.edges n g)).map (fun σ => orderWeight omega g σ / Jval omega n g) := by
    apply List.map_congr_left
    intro σ hσ
    have hlt : ∀ e ∈ σ, e < n := fun e he =>
      (Mask.mem_edges.mp ((orderingsAux_perm (card n g) (Mask.edges n g) σ rfl hσ).mem_iff.mp he)).1
    rw [orderProb_eq omega n hJ σ g hg hlt, complete_order_exhausts n g hg σ hσ, J_empty, one_real, mul_one]
  rw [this]
  have hdiv : ∀ l : List (List Nat), (l.map (fun σ => orderWeight omega g σ / Jval omega n g)).sum
      = (l.map (orderWeight omega g)).sum / Jval omega n g := by
    intro l
    induction l with
    | nil => simp
    | cons a as ih => simp [ih, add_div]
  rw [hdiv, ← hsum, div_self (hJ g hg)]

end Momtrop.C04
