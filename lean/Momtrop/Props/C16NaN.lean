import Momtrop.Props.C16
/-!
# C16, NaN clause: with the stability test on, an `Ok` decomposition contains no NaN in its inverse

`NaNLaws` states the IEEE-754 behaviour of NaN that the argument needs (propagation through `+ − ×` and
`sqrt`, and `NaN ≤ t` false). It is a hypothesis about the scalar type: `Float`/`f64` satisfy it by the
IEEE standard (assumed, part of the trusted base); `instNaNLawsOption` shows the laws are consistent by
exhibiting a model (`Option`-lifted arithmetic with `none` as NaN). Core Lean only.
-/
namespace Momtrop.C16
open Momtrop Scalar

/-- IEEE-like NaN behaviour -/
class NaNLaws (α : Type) [Scalar α] where
  isNaN : α → Prop
  add_left : ∀ a b : α, isNaN a → isNaN (a + b)
  add_right : ∀ a b : α, isNaN b → isNaN (a + b)
  sub_left : ∀ a b : α, isNaN a → isNaN (a - b)
  mul_left : ∀ a b : α, isNaN a → isNaN (a * b)
  sqrt_nan : ∀ a : α, isNaN a → isNaN (sqrt a)
  not_le : ∀ a t : α, isNaN a → ¬ (a ≤ t)

variable {α : Type} [Scalar α] [NaNLaws α]
open NaNLaws

/-- once an accumulation has seen a NaN term it is NaN -/
theorem foldl_add_nan (l : List α) (acc : α) (h : isNaN acc ∨ ∃ x ∈ l, isNaN x) :
    isNaN (l.foldl (· + ·) acc) := by
  induction l generalizing acc with
  | nil =>
    rcases h with h | ⟨x, hx, _⟩
    · exact h
    · simp at hx
  | cons y ys ih =>
    rw [List.foldl_cons]
    apply ih
    rcases h with h | ⟨x, hx, hn⟩
    · exact Or.inl (add_left acc y h)
    · rcases List.mem_cons.mp hx with rfl | hx'
      · exact Or.inl (add_right acc x hn)
      · exact Or.inr ⟨x, hx', hn⟩

theorem sumFrom_nan (l : List α) (init : α) (h : ∃ x ∈ l, isNaN x) : isNaN (sumFrom init l) :=
  foldl_add_nan l init (Or.inr h)

theorem ofFn_get' (n : Nat) (f : Nat → Nat → α) {i j : Nat} (hi : i < n) (hj : j < n) :
    (Mat.ofFn n f).get i j = f i j := by
  simp [Mat.ofFn, Mat.get, List.getD_eq_getElem?_getD, hi, hj]

/-- **No NaN is returned as `Ok` when the stability test is on**: if an entry `(i,j)` of the computed inverse
were NaN, row `i` of `inverse·A`, hence a column of the residual, its norm and the `L_{2,1}` distance would
be NaN, and `NaN ≤ tol` is false — the routine returns `Unstable`. -/
theorem ok_no_nan (n : Nat) (A : Mat α) (t : α) (r : Decomp α) (h : decompose n A (some t) = .ok r)
    {i j : Nat} (hi : i < n) (hj : j < n) : ¬ isNaN (r.inverse.get i j) := by
  intro hnan
  have hle := ok_stable n A t r h
  unfold residual at hle
  have hc : 0 < n := Nat.lt_of_le_of_lt (Nat.zero_le _) hi
  -- entry (i, 0) of inverse * A is NaN
  have h1 : isNaN ((Mat.mul n r.inverse A).get i 0) := by
    unfold Mat.mul
    rw [ofFn_get' n _ hi hc]
    apply sumFrom_nan
    exact ⟨r.inverse.get i j * A.get j 0, List.mem_map.mpr ⟨j, List.mem_range.mpr hj, rfl⟩, mul_left _ _ hnan⟩
  -- entry (i, 0) of the residual matrix is NaN
  have h2 : isNaN ((Mat.sub n (Mat.mul n r.inverse A) (Mat.identity n)).get i 0) := by
    unfold Mat.sub
    rw [ofFn_get' n _ hi hc]
    exact sub_left _ _ h1
  -- the norm of column 0 is NaN, so the sum over columns is NaN
  have h3 : isNaN (Mat.l21 n (Mat.sub n (Mat.mul n r.inverse A) (Mat.identity n))) := by
    unfold Mat.l21
    apply sumFrom_nan
    refine ⟨_, List.mem_map.mpr ⟨0, List.mem_range.mpr hc, rfl⟩, ?_⟩
    apply sqrt_nan
    apply sumFrom_nan
    exact ⟨_, List.mem_map.mpr ⟨i, List.mem_range.mpr hi, rfl⟩, mul_left _ _ h2⟩
  have : (Mat.l21 n (Mat.sub n (Mat.mul n r.inverse A) (Mat.identity n))) ≤ t := by
    simpa [leB] using hle
  exact not_le _ t h3 this

end Momtrop.C16

namespace Momtrop.C16.Consistency
open Momtrop Scalar

/-- a toy scalar with a NaN: `Option Nat`, every operation strict in `none` -/
def lift2 (f : Nat → Nat → Nat) : Option Nat → Option Nat → Option Nat
  | some a, some b => some (f a b)
  | _, _ => none

instance : Scalar (Option Nat) where
  add := lift2 (· + ·)
  sub := lift2 (· - ·)
  mul := lift2 (· * ·)
  div := lift2 (· / ·)
  neg := fun a => a
  lt := fun a b => ∃ x y, a = some x ∧ b = some y ∧ x < y
  le := fun a b => ∃ x y, a = some x ∧ b = some y ∧ x ≤ y
  zero := some 0
  one := some 1
  pi := some 3
  sqrt := fun a => a.map Nat.sqrt
  ln := id
  exp := id
  cos := id
  sin := id
  abs := id
  inv := id
  powf := lift2 (· ^ ·)
  ofInt := fun n => some n.toNat
  ofF64 := fun b => some b.toNat
  decLe := fun a b => by
    cases a <;> cases b
    · exact isFalse (by rintro ⟨x, y, h, _⟩; cases h)
    · exact isFalse (by rintro ⟨x, y, h, _⟩; cases h)
    · exact isFalse (by rintro ⟨x, y, _, h, _⟩; cases h)
    · rename_i x y
      exact if h : x ≤ y then isTrue ⟨x, y, rfl, rfl, h⟩
        else isFalse (by rintro ⟨x', y', h1, h2, h3⟩; cases h1; cases h2; exact h h3)
  decLt := fun a b => by
    cases a <;> cases b
    · exact isFalse (by rintro ⟨x, y, h, _⟩; cases h)
    · exact isFalse (by rintro ⟨x, y, h, _⟩; cases h)
    · exact isFalse (by rintro ⟨x, y, _, h, _⟩; cases h)
    · rename_i x y
      exact if h : x < y then isTrue ⟨x, y, rfl, rfl, h⟩
        else isFalse (by rintro ⟨x', y', h1, h2, h3⟩; cases h1; cases h2; exact h h3)
  beq := fun a b => match a, b with
    | some x, some y => x == y
    | _, _ => false

/-- the laws are satisfiable: `none` behaves like NaN -/
instance instNaNLawsOption : NaNLaws (Option Nat) where
  isNaN := fun a => a = none
  add_left := by intro a b h; subst h; rfl
  add_right := by intro a b h; subst h; cases a <;> rfl
  sub_left := by intro a b h; subst h; rfl
  mul_left := by intro a b h; subst h; rfl
  sqrt_nan := by intro a h; subst h; rfl
  not_le := by intro a t h; subst h; rintro ⟨x, y, h1, _⟩; cases h1

/-- non-vacuity of `ok_no_nan`: the theorem applies to this scalar type -/
example (n : Nat) (A : Mat (Option Nat)) (t : Option Nat) (r : Decomp (Option Nat))
    (h : decompose n A (some t) = .ok r) {i j : Nat} (hi : i < n) (hj : j < n) :
    r.inverse.get i j ≠ none := ok_no_nan n A t r h hi hj

end Momtrop.C16.Consistency
