import Momtrop.Model.Sampling
/-!
# C06 — edge selection inverts the tropical edge distribution and is total

Law-free (`S`) theorems about `sampleEdge` (the model of `sample_edge` **after** fix `46483d2`): they hold
for every `Scalar α`, in particular for IEEE `f64` with its rounded cumulative sums. Core Lean only.
-/
namespace Momtrop.C06
open Momtrop Scalar
variable {α : Type} [Scalar α]

/-- running sum after scanning the edges `pre` starting from `c` (the code's `cum_sum += p_e`) -/
def cumAfter (T : STable α) (g : Mask) (pre : List Nat) (c : α) : α :=
  pre.foldl (fun acc e => acc + edgeProb T g e) c

theorem cumAfter_append_singleton (T : STable α) (g : Mask) (pre : List Nat) (e : Nat) (c : α) :
    cumAfter T g (pre ++ [e]) c = cumAfter T g pre c + edgeProb T g e := by
  simp [cumAfter, List.foldl_append]

/-- What the scan returns: either the **first** edge (in list order) at which the running sum reaches
`u`, or — when no running sum reaches `u` and `u ≤ 1` — the fallback `last` / the last edge scanned. -/
theorem scan_spec (T : STable α) (u : α) (g : Mask) :
    ∀ (es : List Nat) (c : α) (last r : Option (Nat × Mask)), scanEdges T u g es c last = r →
      (∃ pre e post, es = pre ++ e :: post ∧ r = some (e, Mask.pop g e) ∧
          geB (cumAfter T g (pre ++ [e]) c) u = true ∧
          ∀ pre' e' post', pre = pre' ++ e' :: post' → geB (cumAfter T g (pre' ++ [e']) c) u = false)
      ∨ ((∀ pre' e' post', es = pre' ++ e' :: post' → geB (cumAfter T g (pre' ++ [e']) c) u = false) ∧
          r = if leB u (one : α) then (match es.getLast? with | some e => some (e, Mask.pop g e) | none => last)
              else none) := by
  intro es
  induction es with
  | nil =>
    intro c last r h
    right
    refine ⟨by intro pre' e' post' h'; simp at h', ?_⟩
    simp [scanEdges] at h ⊢; exact h.symm
  | cons e es ih =>
    intro c last r h
    unfold scanEdges at h
    by_cases hge : geB (c + edgeProb T g e) u = true
    · left
      simp only [hge, if_true] at h
      refine ⟨[], e, es, rfl, h.symm, by simpa [cumAfter] using hge, ?_⟩
      intro pre' e' post' h'; simp at h'
    · simp only [hge, Bool.false_eq_true, if_false] at h
      have hge' : geB (c + edgeProb T g e) u = false := by simpa using hge
      rcases ih (c + edgeProb T g e) (some (e, Mask.pop g e)) r h with ⟨pre, e2, post, hes, hr, hhit, hmiss⟩ | ⟨hmiss, hr⟩
      · left
        refine ⟨e :: pre, e2, post, by simp [hes], hr, by simpa [cumAfter] using hhit, ?_⟩
        intro pre' e' post' h'
        cases pre' with
        | nil =>
          simp only [List.nil_append, List.cons.injEq] at h'
          obtain ⟨rfl, _⟩ := h'
          simpa [cumAfter] using hge'
        | cons a pre'' =>
          simp only [List.cons_append, List.cons.injEq] at h'
          obtain ⟨rfl, h''⟩ := h'
          have := hmiss pre'' e' post' h''
          simpa [cumAfter] using this
      · right
        refine ⟨?_, ?_⟩
        · intro pre' e' post' h'
          cases pre' with
          | nil =>
            simp only [List.nil_append, List.cons.injEq] at h'
            obtain ⟨rfl, _⟩ := h'
            simpa [cumAfter] using hge'
          | cons a pre'' =>
            simp only [List.cons_append, List.cons.injEq] at h'
            obtain ⟨rfl, h''⟩ := h'
            have := hmiss pre'' e' post' h''
            simpa [cumAfter] using this
        · rw [hr]
          cases hl : es.getLast? with
          | none =>
            have : es = [] := by simpa using hl
            subst this; simp
          | some x =>
            have : (e :: es).getLast? = some x := by
              cases es with
              | nil => simp at hl
              | cons b bs => simpa [List.getLast?_cons_cons] using hl
            simp [this]

/-- **Soundness**: a selected edge belongs to the subgraph and the remaining graph is `g` without it. -/
theorem sampleEdge_sound (T : STable α) (u : α) (g : Mask) (e : Nat) (g' : Mask)
    (h : sampleEdge T u g = some (e, g')) : e ∈ Mask.edges T.numEdges g ∧ g' = Mask.pop g e := by
  unfold sampleEdge at h
  rcases scan_spec T u g _ zero none _ h with ⟨pre, e2, post, hes, hr, _, _⟩ | ⟨_, hr⟩
  · simp only [Option.some.injEq, Prod.mk.injEq] at hr
    obtain ⟨rfl, rfl⟩ := hr
    exact ⟨by rw [hes]; simp, rfl⟩
  · by_cases hu : leB u (one : α) = true
    · simp only [hu, if_true] at hr
      cases hl : (Mask.edges T.numEdges g).getLast? with
      | none => simp [hl] at hr
      | some x =>
        simp only [hl, Option.some.injEq, Prod.mk.injEq] at hr
        obtain ⟨rfl, rfl⟩ := hr
        exact ⟨List.mem_of_getLast? hl, rfl⟩
    · simp [hu] at hr

/-- **First edge in index order**: the running sums of all edges before the selected one stay below
`u`, and the selected edge's running sum reaches `u` unless it is the last edge of the subgraph
(the rounding-shortfall fallback). -/
theorem sampleEdge_first (T : STable α) (u : α) (g : Mask) (e : Nat) (g' : Mask)
    (h : sampleEdge T u g = some (e, g')) :
    ∃ pre post, Mask.edges T.numEdges g = pre ++ e :: post ∧
      (∀ pre' e' post', pre = pre' ++ e' :: post' → geB (cumAfter T g (pre' ++ [e']) zero) u = false) ∧
      (geB (cumAfter T g (pre ++ [e]) zero) u = true ∨ (post = [] ∧ leB u (one : α) = true)) := by
  unfold sampleEdge at h
  rcases scan_spec T u g _ zero none _ h with ⟨pre, e2, post, hes, hr, hhit, hmiss⟩ | ⟨hmiss, hr⟩
  · simp only [Option.some.injEq, Prod.mk.injEq] at hr
    obtain ⟨rfl, _⟩ := hr
    exact ⟨pre, post, hes, hmiss, Or.inl hhit⟩
  · by_cases hu : leB u (one : α) = true
    · simp only [hu, if_true] at hr
      cases hl : (Mask.edges T.numEdges g).getLast? with
      | none => simp [hl] at hr
      | some x =>
        simp only [hl, Option.some.injEq, Prod.mk.injEq] at hr
        obtain ⟨rfl, _⟩ := hr
        obtain ⟨pre, hpre⟩ := List.getLast?_eq_some_iff.mp hl
        refine ⟨pre, [], by simpa using hpre, ?_, Or.inr ⟨rfl, hu⟩⟩
        intro pre' e' post' hp
        exact hmiss pre' e' (post' ++ [e]) (by rw [hpre, hp]; simp)
    · simp [hu] at hr

/-- **Totality**: for a non-empty subgraph and every `u ≤ 1` (under the scalar's own comparison — for
`f64` this covers every `u ∈ [0,1)`, also one ulp below 1, and excludes only NaN and `u > 1`) an edge
is selected: the model never reaches the `panic!`. -/
theorem sampleEdge_total (T : STable α) (u : α) (g : Mask)
    (hne : Mask.edges T.numEdges g ≠ []) (hu : leB u (one : α) = true) :
    (sampleEdge T u g).isSome = true := by
  unfold sampleEdge
  rcases scan_spec T u g (Mask.edges T.numEdges g) zero none _ rfl with ⟨_, _, _, _, hr, _, _⟩ | ⟨_, hr⟩
  · rw [hr]; rfl
  · rw [hr]
    simp only [hu, if_true]
    cases hl : (Mask.edges T.numEdges g).getLast? with
    | none => exact absurd (by simpa using hl) hne
    | some x => rfl

end Momtrop.C06

namespace Momtrop.C06
open Momtrop Scalar
variable {α : Type} [Scalar α]

/-- if every running sum over `pre` stays below `u` and the running sum reaches `u` at `e`, the scan
returns `e` (law-free converse of `scan_spec`: the selected edge is determined by the comparisons) -/
theorem scan_hit (T : STable α) (u : α) (g : Mask) :
    ∀ (pre : List Nat) (e : Nat) (post : List Nat) (c : α) (last : Option (Nat × Mask)),
      (∀ pre' e' post', pre = pre' ++ e' :: post' → geB (cumAfter T g (pre' ++ [e']) c) u = false) →
      geB (cumAfter T g (pre ++ [e]) c) u = true →
      scanEdges T u g (pre ++ e :: post) c last = some (e, Mask.pop g e) := by
  intro pre
  induction pre with
  | nil =>
    intro e post c last _ hhit
    simp only [List.nil_append, scanEdges]
    have : geB (c + edgeProb T g e) u = true := by simpa [cumAfter] using hhit
    simp [this]
  | cons a pre ih =>
    intro e post c last hmiss hhit
    simp only [List.cons_append, scanEdges]
    have hma : geB (c + edgeProb T g a) u = false := by
      have := hmiss [] a pre rfl
      simpa [cumAfter] using this
    simp only [hma, Bool.false_eq_true, if_false]
    apply ih
    · intro pre' e' post' hp
      have := hmiss (a :: pre') e' post' (by rw [hp]; rfl)
      simpa [cumAfter] using this
    · simpa [cumAfter] using hhit

end Momtrop.C06
