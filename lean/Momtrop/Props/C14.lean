import Momtrop.Model.Sample
import Momtrop.Proofs.MaskLemmas
import Momtrop.Props.C06
/-!
# C14 — each hypercube coordinate is consumed exactly once, in one statistical role

Law-free (`S`) theorems: they hold for every scalar type and every table, whatever values are read
(non-interference). Core Lean only.
-/
namespace Momtrop.C14
open Momtrop Scalar
variable {α : Type} [Scalar α]

/-- number of edges listed by a subgraph id -/
def card (T : STable α) (g : Mask) : Nat := (Mask.edges T.numEdges g).length

/-- what a successful edge choice does to the subgraph and to the read counter -/
theorem chooseEdge_spec (T : STable α) (xs : List α) (g : Mask) (cnt : Nat) (hg : g < 2 ^ T.numEdges)
    (e : Nat) (g' : Mask) (cnt' : Nat) (h : chooseEdge T xs g cnt = some (e, g', cnt')) :
    g' < 2 ^ T.numEdges ∧ card T g' + 1 = card T g ∧
      ((card T g = 1 ∧ cnt' = cnt) ∨ (card T g ≠ 1 ∧ cnt' = cnt + 1)) := by
  unfold chooseEdge at h
  by_cases h1 : Mask.hasOneEdge g = true
  · simp only [h1, if_true] at h
    cases hh : (Mask.edges T.numEdges g).head? with
    | none => simp [hh] at h
    | some e0 =>
      simp only [hh, Option.some.injEq, Prod.mk.injEq] at h
      obtain ⟨rfl, rfl, rfl⟩ := h
      have hmem : e0 ∈ Mask.edges T.numEdges g := List.mem_of_head? hh
      have hc := Mask.card_pop T.numEdges g e0 hmem
      exact ⟨Mask.pop_lt hg (Mask.mem_edges.mp hmem).1, hc, Or.inl ⟨(Mask.hasOneEdge_iff hg).mp h1, rfl⟩⟩
  · simp only [h1, Bool.false_eq_true, if_false] at h
    cases hx : xs[cnt]? with
    | none => simp [hx] at h
    | some u =>
      simp only [hx] at h
      cases hs : sampleEdge T u g with
      | none => simp [hs] at h
      | some r =>
        obtain ⟨e2, g2⟩ := r
        simp only [hs, Option.map_some, Option.some.injEq, Prod.mk.injEq] at h
        obtain ⟨rfl, rfl, rfl⟩ := h
        obtain ⟨hmem, rfl⟩ := C06.sampleEdge_sound T u g e2 g2 hs
        have hc := Mask.card_pop T.numEdges g e2 hmem
        refine ⟨Mask.pop_lt hg (Mask.mem_edges.mp hmem).1, hc, Or.inr ⟨?_, rfl⟩⟩
        intro hone
        exact h1 ((Mask.hasOneEdge_iff hg).mpr hone)

/-- **The removal loop reads exactly `2k − 2` coordinates** for a subgraph with `k ≥ 1` edges: one per
edge choice except the last, one per `ξ` except after the last removal — independent of the values. -/
theorem permLoop_reads (T : STable α) (xs : List α) :
    ∀ (fuel : Nat) (g : Mask) (st st' : PState α), g < 2 ^ T.numEdges → card T g ≤ fuel → 1 ≤ card T g →
      permLoop T xs fuel g st = some st' → st'.cnt + 2 = st.cnt + 2 * card T g := by
  intro fuel
  induction fuel with
  | zero => intro g st st' _ h1 h2; omega
  | succ fuel ih =>
    intro g st st' hg hfuel hpos h
    unfold permLoop at h
    have hne : Mask.isEmpty g = false := by
      cases he : Mask.isEmpty g with
      | false => rfl
      | true => have := (Mask.isEmpty_iff_card hg).mp he; unfold card at hpos; omega
    simp only [hne, Bool.false_eq_true, if_false] at h
    cases hc : chooseEdge T xs g st.cnt with
    | none => simp [hc] at h
    | some r =>
      obtain ⟨e, g', cnt⟩ := r
      simp only [hc] at h
      obtain ⟨hg', hcard, hcnt⟩ := chooseEdge_spec T xs g st.cnt hg e g' cnt hc
      by_cases hz : Mask.isEmpty g' = true
      · simp only [hz, if_true, Option.some.injEq] at h
        subst h
        have := (Mask.isEmpty_iff_card hg').mp hz
        unfold card at *
        simp only
        rcases hcnt with ⟨h1, rfl⟩ | ⟨h1, rfl⟩ <;> omega
      · simp only [hz, Bool.false_eq_true, if_false] at h
        have hz' : card T g' ≠ 0 := fun h0 => hz ((Mask.isEmpty_iff_card hg').mpr h0)
        cases hx : xs[cnt]? with
        | none => simp [hx] at h
        | some xi =>
          simp only [hx] at h
          have := ih g' _ st' hg' (by omega) (by omega) h
          simp only at this
          rcases hcnt with ⟨h1, rfl⟩ | ⟨h1, rfl⟩ <;> omega

theorem full_lt (n : Nat) : Mask.full n < 2 ^ n := by
  unfold Mask.full; rw [Nat.one_shiftLeft]
  have : 0 < 2 ^ n := Nat.pos_of_ne_zero (by intro h; simp at h)
  exact Nat.sub_lt this (by omega)

/-- **`permatuhedral_sampling` reads exactly `2E − 2` coordinates** (and they are `xs[0..2E-2)`: the
counter starts at 0 and every read is at the counter). -/
theorem permutahedral_reads (T : STable α) (xs : List α) (r : PermResult α) (hE : 1 ≤ T.numEdges)
    (h : permutahedral T xs = some r) : r.reads + 2 = 2 * T.numEdges := by
  unfold permutahedral at h
  simp only at h
  cases hp : permLoop T xs T.numEdges (Mask.full T.numEdges)
      { kappa := one, x := List.replicate T.numEdges zero, uTr := one, vTr := one, cnt := 0, order := [] } with
  | none => simp [hp] at h
  | some st =>
    simp only [hp, Option.some.injEq] at h
    subst h
    have hc : card T (Mask.full T.numEdges) = T.numEdges := by unfold card; rw [Mask.edges_full]; simp
    have := permLoop_reads T xs T.numEdges (Mask.full T.numEdges) _ st (full_lt _) (by rw [hc]; exact Nat.le_refl _) (by rw [hc]; exact hE) hp
    rw [hc] at this
    simpa using this

/-- **A successful sample has read exactly `get_dimension()` coordinates**:
`2E − 2` for the Feynman parameters, one for the Gamma variate, `D·L + (D·L mod 2)` for the Gaussians. -/
theorem sample_reads_dim (draw : α → α → Option α) (T : STable α) (D : Nat) (xs : List α)
    (S : List (List Int)) (ed : List (Option α × Vec α)) (st : Settings α) (res : SampleResult α)
    (hE : 1 ≤ T.numEdges) (h : sampleCore draw T D xs S ed st = some (.ok res)) :
    res.reads + 1 = 2 * T.numEdges + T.dimension * T.numLoops + (T.dimension * T.numLoops) % 2 := by
  unfold sampleCore at h
  by_cases hx : xs.isEmpty = true
  · simp only [hx, if_true] at h; cases h
  · simp only [hx, Bool.false_eq_true, if_false] at h
    cases hpr : permutahedral T xs with
    | none => simp only [hpr] at h; cases h
    | some pr =>
      simp only [hpr] at h
      have hreads := permutahedral_reads T xs pr hE hpr
      cases hdec : decompose (S.getD 0 []).length (lMatrix pr.x S) st.stability with
      | error e => simp only [hdec] at h; cases h
      | ok dec =>
        simp only [hdec] at h
        cases hp : xs[pr.reads]? with
        | none => simp only [hp] at h; cases h
        | some p =>
          simp only [hp] at h
          cases hl : draw T.dod p with
          | none => simp only [hl] at h; cases h
          | some lam =>
            simp only [hl] at h
            cases hq : qVectors xs (pr.reads + 1) T.dimension T.numLoops with
            | none => simp only [hq] at h; cases h
            | some q =>
              simp only [hq, Option.some.injEq, Except.ok.injEq] at h
              rw [← h]
              simp only [qReads]
              omega

/-- **The Gamma variate is the quantile of coordinate `2E − 2` alone**, and it is the only use of the
narrowing draw: two draws that agree on `(dod, xs[2E-2])` give the same sample. -/
theorem lambda_depends_one (draw draw' : α → α → Option α) (T : STable α) (D : Nat) (xs : List α)
    (S : List (List Int)) (ed : List (Option α × Vec α)) (st : Settings α)
    (h : ∀ pr p, permutahedral T xs = some pr → xs[pr.reads]? = some p → draw T.dod p = draw' T.dod p) :
    sampleCore draw T D xs S ed st = sampleCore draw' T D xs S ed st := by
  unfold sampleCore
  by_cases hx : xs.isEmpty = true
  · simp only [hx, if_true]
  · simp only [hx, Bool.false_eq_true, if_false]
    cases hpr : permutahedral T xs with
    | none => rfl
    | some pr =>
      simp only
      cases hdec : decompose (S.getD 0 []).length (lMatrix pr.x S) st.stability with
      | error e => rfl
      | ok dec =>
        simp only
        cases hp : xs[pr.reads]? with
        | none => rfl
        | some p =>
          simp only
          rw [h pr p hpr hp]

/-- a Gaussian component reads only its own pair of coordinates -/
theorem gaussian_depends_pair (xs ys : List α) (base n : Nat)
    (h1 : xs[base + 2 * (n / 2)]? = ys[base + 2 * (n / 2)]?)
    (h2 : xs[base + 2 * (n / 2) + 1]? = ys[base + 2 * (n / 2) + 1]?) :
    gaussianAt xs base n = gaussianAt ys base n := by
  unfold gaussianAt; rw [h1, h2]

end Momtrop.C14
