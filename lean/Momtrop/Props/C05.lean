import Momtrop.Model.Table
/-!
# C05 — `build_sampler` rejects exactly the graphs with a divergent proper subgraph

Law-free (`S`) theorems about `generateTable` (model of `generate_from_tropical`): stated with the
scalar's own `≤`, so for `Float` they are exact statements about the *computed* generalised degrees of
divergence (the property's 1e-9 exclusion band is the rounding band of those values); at `α := ℝ`
they are the property's "if and only if" in exact arithmetic. Core Lean only.
-/
set_option linter.unusedSectionVars false
set_option linter.unusedVariables false

namespace Momtrop.C05
open Momtrop Scalar
variable {α : Type} [Scalar α]

/-- generalised degree of divergence of subset `s` as the build computes it -/
def genDod (G : TGraph α) (D : Nat) (s : Mask) : α := (preEntry G D s).2.2

/-- the rejection test, spelled out: `ω(s) ≤ 0`, `s` non-empty, `s` not the full graph -/
theorem isBad_iff (G : TGraph α) (D : Nat) (s : Mask) :
    isBad G D s = true ↔
      leB (genDod G D s) (zero : α) = true ∧ s ≠ 0 ∧ s ≠ Mask.full G.topology.length := by
  unfold isBad genDod Mask.isEmpty
  simp [Bool.and_eq_true, and_assoc]

/-- **Rejection iff a divergent proper subgraph exists** (among the `2^E` subset ids). -/
theorem build_err_iff (Γ : α → α) (G : TGraph α) (D : Nat) :
    (∃ i, generateTable Γ G D = .error i) ↔ ∃ s, s < 2 ^ G.topology.length ∧ isBad G D s = true := by
  unfold generateTable
  constructor
  · rintro ⟨i, h⟩
    cases hf : (List.range (2 ^ G.topology.length)).find? (isBad G D) with
    | none => simp [hf] at h
    | some j =>
      have := List.find?_range_eq_some.mp hf
      exact ⟨j, List.mem_range.mp this.2.1, this.1⟩
  · rintro ⟨s, hs, hb⟩
    cases hf : (List.range (2 ^ G.topology.length)).find? (isBad G D) with
    | none =>
      have := List.find?_range_eq_none.mp hf s hs
      simp [hb] at this
    | some j => exact ⟨j, by simp [hf]⟩

/-- the reported subgraph is the **first** divergent one in id order -/
theorem build_err_first (Γ : α → α) (G : TGraph α) (D : Nat) (i : Mask)
    (h : generateTable Γ G D = .error i) :
    isBad G D i = true ∧ i < 2 ^ G.topology.length ∧ ∀ s, s < i → isBad G D s = false := by
  unfold generateTable at h
  cases hf : (List.range (2 ^ G.topology.length)).find? (isBad G D) with
  | none => simp [hf] at h
  | some j =>
    simp only [hf, Except.error.injEq] at h
    subst h
    have := List.find?_range_eq_some.mp hf
    exact ⟨this.1, List.mem_range.mp this.2.1, fun s hs => by simpa using this.2.2 s hs⟩

/-- **Acceptance**: an `Ok` table has one entry per subset, each holding what `preEntry` computes,
and no proper non-empty subset has `ω ≤ 0`. -/
theorem build_ok (Γ : α → α) (G : TGraph α) (D : Nat) (T : Table α) (h : generateTable Γ G D = .ok T) :
    T.entries.length = 2 ^ G.topology.length ∧ T.dimension = D ∧ T.graph = G ∧
    (∀ s, s < 2 ^ G.topology.length → isBad G D s = false) ∧
    (∀ s, s < 2 ^ G.topology.length → ∃ e, T.entries[s]? = some e ∧
        e.loopNumber = (preEntry G D s).2.1 ∧ e.mms = (preEntry G D s).1 ∧ e.dod = genDod G D s) := by
  unfold generateTable at h
  cases hf : (List.range (2 ^ G.topology.length)).find? (isBad G D) with
  | some j => simp [hf] at h
  | none =>
    simp only [hf, Except.ok.injEq] at h
    subst h
    refine ⟨by simp, rfl, rfl, ?_, ?_⟩
    · intro s hs
      simpa using List.find?_range_eq_none.mp hf s hs
    · intro s hs
      simp [List.getElem?_map, List.getElem?_range hs, genDod]

/-- building is a function of the graph: no state, no hash order, no randomness enters the model
(the model has no other inputs), so two builds of the same graph give the identical table. -/
theorem build_deterministic (Γ : α → α) (G : InGraph α) (D : Nat) :
    buildTable Γ G D = buildTable Γ G D := rfl

end Momtrop.C05
