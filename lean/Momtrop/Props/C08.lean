import Momtrop.Proofs.Kinematics
import Momtrop.Props.C15
/-!
# C08 — the `L` matrix and `u = det L`; independence of cycle basis and edge orientation

* `S`: the metadata `L` matrix is symmetric bit for bit (both triangles receive the same additions in the
  same order), for every scalar type.
* `R`: `L_ij = Σ_e x_e s_ei s_ej`; the returned `u` is `det L`; `det L` does not change under a
  unimodular change of cycle basis and under edge re-orientations — for every number of loops and edges.
The identification `det L = Σ_T Π_{e∉T} x_e` (matrix-tree theorem in its cycle-space form) is classical
and not formalised (Mathlib has no Cauchy–Binet); it is decided on the implementation by the
spanning-tree oracle, for each supplied basis.
-/
namespace Momtrop.C08
open Momtrop Scalar Matrix

section S
variable {α : Type} [Scalar α]

theorem ofFn_getD (n : Nat) (f : Nat → Nat → α) {i j : Nat} (hi : i < n) (hj : j < n) :
    ((Mat.ofFn n f).getD i []).getD j zero = f i j := by
  simp [Mat.ofFn, List.getD_eq_getElem?_getD, hi, hj]

/-- **Symmetric, exactly**: entries `(i,j)` and `(j,i)` are the same value (not merely close). -/
theorem lMatrix_symm (x : List α) (S : List (List Int)) {i j : Nat}
    (hi : i < (S.getD 0 []).length) (hj : j < (S.getD 0 []).length) :
    (((lMatrix x S).getD i []).getD j zero) = (((lMatrix x S).getD j []).getD i zero) := by
  unfold lMatrix
  simp only
  rw [ofFn_getD _ _ hi hj, ofFn_getD _ _ hj hi]
  rcases Nat.lt_trichotomy i j with h | h | h
  · have h1 : i ≤ j := Nat.le_of_lt h
    have h2 : ¬ j ≤ i := by omega
    simp only [h1, h2, if_true, if_false]
  · subst h; rfl
  · have h1 : ¬ i ≤ j := by omega
    have h2 : j ≤ i := Nat.le_of_lt h
    simp only [h1, h2, if_true, if_false]

end S

section R
variable (x : List ℝ) (S : List (List Int))

/-- **Entries**: `L_ij = Σ_e x_e s_ei s_ej` -/
theorem lMatrix_entry {i j : Nat} (hi : i < (S.getD 0 []).length) (hj : j < (S.getD 0 []).length) :
    (lMatrix x S).get i j = ∑ e ∈ Finset.range S.length, x.getD e 0 * (sigGet S e i : ℝ) * (sigGet S e j : ℝ) :=
  lMatrix_get x S hi hj

theorem lMatrix_symmOn : SymmOn (lMatrix x S) (S.getD 0 []).length := by
  intro i j hi hj
  rw [lMatrix_get x S hi hj, lMatrix_get x S hj hi]
  apply Finset.sum_congr rfl; intro e _; ring

/-- **`u = det L`**: when the Cholesky pivots are positive, the determinant returned by the matrix routine
for the sample's `L` matrix is `det(Sᵀ diag(x) S)` -/
theorem u_eq_det (hp : PivotsPos (lMatrix x S) (S.getD 0 []).length) :
    (C15.result (lMatrix x S) (S.getD 0 []).length).determinant = (lMat (Sm S) (xv x S)).det := by
  rw [C15.determinant_correct _ _ hp (lMatrix_symmOn x S), M_lMatrix]

variable {E L : ℕ}

/-- change of cycle basis: `L' = Pᵀ L P` -/
theorem lMat_basis_change (Sg : Matrix (Fin E) (Fin L) ℝ) (xs : Fin E → ℝ) (P : Matrix (Fin L) (Fin L) ℝ) :
    lMat (Sg * P) xs = Pᵀ * lMat Sg xs * P := by
  unfold lMat
  rw [transpose_mul]
  simp only [Matrix.mul_assoc]

/-- re-orienting edges (`ε_e = ±1`) does not change `L` -/
theorem lMat_orientation (Sg : Matrix (Fin E) (Fin L) ℝ) (xs : Fin E → ℝ) (ε : Fin E → ℝ)
    (hε : ∀ e, ε e * ε e = 1) : lMat (diagonal ε * Sg) xs = lMat Sg xs := by
  ext i j
  rw [lMat_apply, lMat_apply]
  apply Finset.sum_congr rfl
  intro e _
  simp only [diagonal_mul]
  have := hε e
  calc xs e * (ε e * Sg e i) * (ε e * Sg e j) = (ε e * ε e) * (xs e * Sg e i * Sg e j) := by ring
    _ = xs e * Sg e i * Sg e j := by rw [this, one_mul]

/-- **Basis independence of `U = det L`**: for `P` with `det P = ±1` (every integer change of cycle basis)
and any edge re-orientations, `det L` is unchanged. -/
theorem det_basis_change (Sg : Matrix (Fin E) (Fin L) ℝ) (xs : Fin E → ℝ) (P : Matrix (Fin L) (Fin L) ℝ)
    (ε : Fin E → ℝ) (hε : ∀ e, ε e * ε e = 1) (hP : P.det * P.det = 1) :
    (lMat (diagonal ε * Sg * P) xs).det = (lMat Sg xs).det := by
  rw [lMat_basis_change, lMat_orientation Sg xs ε hε, det_mul, det_mul, det_transpose]
  calc P.det * (lMat Sg xs).det * P.det = (P.det * P.det) * (lMat Sg xs).det := by ring
    _ = (lMat Sg xs).det := by rw [hP, one_mul]

/-- an integer matrix with determinant `±1` satisfies the hypothesis -/
theorem unimodular_sq (P : Matrix (Fin L) (Fin L) ℤ) (h : P.det = 1 ∨ P.det = -1) :
    (P.map (Int.cast : ℤ → ℝ)).det * (P.map (Int.cast : ℤ → ℝ)).det = 1 := by
  have : (P.map (Int.cast : ℤ → ℝ)).det = ((P.det : ℤ) : ℝ) := by
    have := (RingHom.map_det (Int.castRingHom ℝ) P).symm
    simpa [RingHom.mapMatrix_apply] using this
  rw [this]
  rcases h with h | h <;> simp [h]

end R
end Momtrop.C08
