import Momtrop.Props.C04
import Momtrop.Props.C06
import Momtrop.Props.C07
import Momtrop.Props.C08
import Momtrop.Props.C10Law
import Momtrop.Props.C11
import Momtrop.Props.C12
import Momtrop.Props.C13BM
import Momtrop.Props.C13Joint
import Momtrop.Props.C14
import Mathlib.MeasureTheory.Function.JacobianOneDim
import Mathlib.Analysis.SpecialFunctions.Pow.Deriv
/-!
# C01 — the estimator is unbiased (partial: algebraic reduction)

"mean of `jacobian × g(loop_momenta)` over the hypercube = Feynman integral" is an identity between a
`(2E−1+DL)`-dimensional integral and a momentum-space integral. Neither Feynman/Schwinger
parametrisation nor the measure of the sector sample is available in Mathlib, so the statement itself
is **not** proved. What is proved is that the code computes every algebraic ingredient of the standard
derivation; Schwinger parametrisation (+ Gaussian integral) is cited. Borinsky's sector density
`x^{ν-1} U_tr^{-D/2} V_tr^{-dod}/I_tr` is proved in `C01Sector.lean` (as an iterated integral, for every sector), except for the
identification of `U_tr`, `V_tr` with the maximal monomials of `U`, `F/U` (cited, C07). Box–Muller (`C13.boxMuller_law`), the Gaussian law of the momenta
(`C10.momenta_law`) and the inverse-CDF lemma (`inverse_cdf_law`, abstract: for an exact quantile function) are proved. `reduction` collects the ingredients.
-/
namespace Momtrop.C01
open Momtrop Scalar Matrix MeasureTheory

variable {E L : ℕ}

/-- **Jacobian of the momentum map.** `k = c·Q⁻ᵀ q − L⁻¹u` is affine in the Gaussian vector `q` with linear
part `c·Q⁻ᵀ` in each of the `D` components; with `Q⁻¹ L Q⁻ᵀ = 1` its determinant satisfies
`det(c·Q⁻ᵀ)² · det L = c^{2L}`, i.e. `|det| = c^L · U^{-1/2}` per component — the `U^{-D/2}` and the
`(V/2λ)^{DL/2}` of the derivation. -/
theorem det_momentum_map (Lm Qti : Matrix (Fin L) (Fin L) ℝ) (c : ℝ) (hQ : Qtiᵀ * Lm * Qti = 1) :
    (c • Qti).det ^ 2 * Lm.det = c ^ (2 * L) := by
  have h1 : Qti.det * Lm.det * Qti.det = 1 := by
    have := congrArg Matrix.det hQ
    rwa [det_mul, det_mul, det_transpose, det_one] at this
  rw [det_smul, Fintype.card_fin]
  calc (c ^ L * Qti.det) ^ 2 * Lm.det = c ^ (2 * L) * (Qti.det * Lm.det * Qti.det) := by ring
    _ = c ^ (2 * L) := by rw [h1, mul_one]

/-- **Inverse-CDF lemma.** Let `F` be differentiable and injective on `(0,∞)` with `F '' (0,∞) = (0,1)` and let `G` be a
right inverse on `(0,1)` with values in `(0,∞)`. Then the image of the uniform law on `(0,1)` under `G` has density
`|F'|` on `(0,∞)`. -/
theorem inverse_cdf_law (F F' G : ℝ → ℝ) (hF : ∀ x ∈ Set.Ioi (0:ℝ), HasDerivWithinAt F (F' x) (Set.Ioi 0) x)
    (hinj : Set.InjOn F (Set.Ioi 0)) (himg : F '' Set.Ioi 0 = Set.Ioo 0 1)
    (hG : ∀ p ∈ Set.Ioo (0:ℝ) 1, G p ∈ Set.Ioi (0:ℝ) ∧ F (G p) = p) (f : ℝ → ENNReal) :
    ∫⁻ p in Set.Ioo (0:ℝ) 1, f (G p) = ∫⁻ x in Set.Ioi (0:ℝ), ENNReal.ofReal (_root_.abs (F' x)) * f x := by
  rw [← himg, lintegral_image_eq_lintegral_abs_deriv_mul measurableSet_Ioi hF hinj]
  apply setLIntegral_congr_fun measurableSet_Ioi
  intro x hx
  have hp : F x ∈ Set.Ioo (0:ℝ) 1 := by rw [← himg]; exact Set.mem_image_of_mem F hx
  obtain ⟨h1, h2⟩ := hG (F x) hp
  have : G (F x) = x := hinj h1 hx h2
  simp only [this]

/-- **One step of the sector sample**: if `ξ` is uniform on `(0,1)` then `y = c·ξ^(1/ω)` has density `ω·y^(ω−1)/c^ω` on `(0,c)`. -/
theorem xi_power_law (c ω : ℝ) (hc : 0 < c) (hω : 0 < ω) (f : ℝ → ENNReal) :
    ∫⁻ ξ in Set.Ioo (0:ℝ) 1, f (c * ξ ^ (1 / ω)) = ∫⁻ y in Set.Ioo (0:ℝ) c, ENNReal.ofReal (ω * y ^ (ω - 1) / c ^ ω) * f y := by
  have himg : (fun y : ℝ => (y / c) ^ ω) '' Set.Ioo 0 c = Set.Ioo (0:ℝ) 1 := by
    ext p
    constructor
    · rintro ⟨y, ⟨h0, h1⟩, rfl⟩
      have hy : 0 < y / c := div_pos h0 hc
      refine ⟨Real.rpow_pos_of_pos hy ω, ?_⟩
      exact Real.rpow_lt_one hy.le ((div_lt_one hc).mpr h1) hω
    · rintro ⟨h0, h1⟩
      refine ⟨c * p ^ (1 / ω), ⟨mul_pos hc (Real.rpow_pos_of_pos h0 _), ?_⟩, ?_⟩
      · have : p ^ (1 / ω) < 1 := Real.rpow_lt_one h0.le h1 (by positivity)
        nlinarith
      · show (c * p ^ (1 / ω) / c) ^ ω = p
        rw [mul_div_assoc, mul_comm, div_mul_cancel₀ _ hc.ne', ← Real.rpow_mul h0.le, one_div, inv_mul_cancel₀ hω.ne', Real.rpow_one]
  rw [← himg, lintegral_image_eq_lintegral_abs_deriv_mul (f' := fun y => ω * y ^ (ω - 1) / c ^ ω) measurableSet_Ioo]
  · apply setLIntegral_congr_fun measurableSet_Ioo
    intro y hy
    have hy0 : 0 < y := hy.1
    have hpos : 0 ≤ ω * y ^ (ω - 1) / c ^ ω := by positivity
    simp only [abs_of_nonneg hpos]
    congr 2
    have : ((y / c) ^ ω) ^ (1 / ω) = y / c := by
      rw [← Real.rpow_mul (div_pos hy0 hc).le, one_div, mul_inv_cancel₀ hω.ne', Real.rpow_one]
    rw [this, mul_div_cancel₀ _ hc.ne']
  · intro y hy
    have hy0 : 0 < y := hy.1
    have h1 : HasDerivAt (fun y : ℝ => y / c) (1 / c) y := (hasDerivAt_id y).div_const c
    have h2 := (Real.hasDerivAt_rpow_const (x := y / c) (p := ω) (Or.inl (div_pos hy0 hc).ne')).comp y h1
    have hval : ω * (y / c) ^ (ω - 1) * (1 / c) = ω * y ^ (ω - 1) / c ^ ω := by
      rw [Real.div_rpow hy0.le hc.le]
      have hcω : c ^ ω = c ^ (ω - 1) * c := by
        rw [← Real.rpow_add_one hc.ne']; ring_nf
      rw [hcω]
      have := (Real.rpow_pos_of_pos hc (ω - 1)).ne'
      field_simp
    have h3 : HasDerivAt (fun y : ℝ => (y / c) ^ ω) (ω * y ^ (ω - 1) / c ^ ω) y := h2.congr_deriv hval
    exact h3.hasDerivWithinAt
  · intro x hx y hy h
    have hx0 : 0 < x / c := div_pos hx.1 hc
    have hy0 : 0 < y / c := div_pos hy.1 hc
    have := (Real.rpow_left_injOn hω.ne') hx0.le hy0.le h
    field_simp at this
    exact this

/-- The ingredients of the unbiasedness derivation, each a theorem about the model (see the modules). -/
structure Reduction : Prop where
  /-- (i) the three coordinate groups are read disjointly: `2E−2` + 1 + `DL(+1)` -/
  reads : ∀ {α : Type} [Scalar α] (draw : α → α → Option α) (T : STable α) (D : Nat) (xs : List α)
      (S : List (List Int)) (ed : List (Option α × Vec α)) (st : Settings α) (res : SampleResult α),
      1 ≤ T.numEdges → sampleCore draw T D xs S ed st = some (.ok res) →
      res.reads + 1 = 2 * T.numEdges + T.dimension * T.numLoops + (T.dimension * T.numLoops) % 2
  /-- (ii) the edge probabilities of the sector sample sum to one -/
  probs : ∀ (omega : Mask → ℝ) (n : Nat) (g : Mask), g < 2 ^ n → g ≠ 0 → Jval omega n g ≠ 0 →
      ((Mask.edges n g).map fun e => Jval omega n (Mask.pop g e) / Jval omega n g / omega (Mask.pop g e)).sum = 1
  /-- (iii) the rescaling normalises the tropical polynomials -/
  rescale : ∀ (T : STable ℝ) (uTr vTr : ℝ) (loops : ℕ), T.negHalfD = -T.halfD →
      T.scaleDen = T.halfD * loops + T.dod → 0 < uTr → 0 < vTr → T.halfD * loops + T.dod ≠ 0 →
      (scalingOf T uTr vTr ^ loops * uTr) ^ T.halfD * (scalingOf T uTr vTr * vTr) ^ T.dod = 1
  /-- (iv) the Gaussian pair has squared radius `−2 ln a` -/
  gauss : ∀ (a b : ℝ), 0 < a → a ≤ 1 → (boxMuller a b).1 ^ 2 + (boxMuller a b).2 ^ 2 = -2 * Real.log a
  /-- (iv') Box–Muller theorem: a uniform pair of coordinates gives two independent standard normals -/
  gaussLaw : ∀ (f : ℝ × ℝ → ENNReal), Measurable f →
      ∫⁻ p in Set.Ioo (0:ℝ) 1 ×ˢ Set.Ioo (0:ℝ) 1, f (boxMuller p.1 p.2) = ∫⁻ z, f z * ENNReal.ofReal (C13.gauss2 z)
  /-- (iv‴) all `m = D·L` Gaussian numbers of a sample (model numbering) are iid `N(0,1)` for uniform independent coordinates -/
  gaussJoint : ∀ (n m : ℕ) (h : m ≤ 2 * n),
      MeasureTheory.Measure.map
        (fun (p : Fin n → ℝ × ℝ) (j : Fin m) => C13.pick (C13.bm (p (C13.numbering n m h j).1)) (C13.numbering n m h j).2)
        ((MeasureTheory.volume : MeasureTheory.Measure (Fin n → ℝ × ℝ)).restrict (Set.univ.pi fun _ => C13.sq))
      = MeasureTheory.Measure.pi fun _ : Fin m => ProbabilityTheory.gaussianReal 0 1
  /-- (iv'') inverse-CDF lemma: the quantile of a uniform number has the density of the CDF -/
  icdf : ∀ (F F' G : ℝ → ℝ), (∀ x ∈ Set.Ioi (0:ℝ), HasDerivWithinAt F (F' x) (Set.Ioi 0) x) → Set.InjOn F (Set.Ioi 0) →
      F '' Set.Ioi 0 = Set.Ioo 0 1 → (∀ p ∈ Set.Ioo (0:ℝ) 1, G p ∈ Set.Ioi (0:ℝ) ∧ F (G p) = p) → ∀ f : ℝ → ENNReal,
      ∫⁻ p in Set.Ioo (0:ℝ) 1, f (G p) = ∫⁻ x in Set.Ioi (0:ℝ), ENNReal.ofReal (_root_.abs (F' x)) * f x
  /-- (ii') one step of the sector sample: `y = c·ξ^(1/ω)` with uniform `ξ` has density `ω y^(ω-1)/c^ω` on `(0,c)` -/
  xiLaw : ∀ (c ω : ℝ), 0 < c → 0 < ω → ∀ f : ℝ → ENNReal,
      ∫⁻ ξ in Set.Ioo (0:ℝ) 1, f (c * ξ ^ (1 / ω)) = ∫⁻ y in Set.Ioo (0:ℝ) c, ENNReal.ofReal (ω * y ^ (ω - 1) / c ^ ω) * f y
  /-- (v) at the returned momenta the weighted propagator sum is `c²|q|² + (pᵀXp − uᵀL⁻¹u)` -/
  momenta : ∀ {E L : ℕ} (S : Matrix (Fin E) (Fin L) ℝ) (x p : Fin E → ℝ) (q : Fin L → ℝ) (c : ℝ)
      (Li Qti : Matrix (Fin L) (Fin L) ℝ), lMat S x * Li = 1 → Qtiᵀ * lMat S x * Qti = 1 →
      (S *ᵥ (c • (Qti *ᵥ q) - Li *ᵥ uVec S x p) + p) ⬝ᵥ (diagonal x *ᵥ (S *ᵥ (c • (Qti *ᵥ q) - Li *ᵥ uVec S x p) + p))
        = c ^ 2 * (q ⬝ᵥ q) + C09.Vabs S x p Li
  /-- (v') law of the loop momenta: Gaussian with centre `−L⁻¹u` and covariance `c²L⁻¹` -/
  momentaLaw : ∀ {L : ℕ} (Lm Qti Li : Matrix (Fin L) (Fin L) ℝ) (c : ℝ), 0 < c → Qtiᵀ * Lm * Qti = 1 → Lmᵀ = Lm →
      ∀ (u : Fin L → ℝ) (f : (Fin L → ℝ) → ENNReal), Measurable f →
      ∫⁻ q, f (c • (Qti *ᵥ q) - Li *ᵥ u) * ENNReal.ofReal (Real.exp (-(q ⬝ᵥ q) / 2))
        = ENNReal.ofReal (Real.sqrt Lm.det / c ^ L) *
          ∫⁻ k, f k * ENNReal.ofReal (Real.exp (-((k + Li *ᵥ u) ⬝ᵥ (Lm *ᵥ (k + Li *ᵥ u))) / (2 * c ^ 2)))
  /-- (vi) the Jacobian determinant of the momentum map -/
  jac : ∀ {L : ℕ} (Lm Qti : Matrix (Fin L) (Fin L) ℝ) (c : ℝ), Qtiᵀ * Lm * Qti = 1 →
      (c • Qti).det ^ 2 * Lm.det = c ^ (2 * L)
  /-- (vii) the weight is invariant under the internal rescaling -/
  gauge : ∀ (halfD dod s U V Utr Vtr : ℝ) (L : ℕ), 0 < s → 0 < U → 0 < V → 0 < Utr → 0 < Vtr →
      (s ^ L * Utr) ^ halfD * (s * Vtr) ^ dod = 1 →
      ((1 : ℝ) / (s ^ L * U)) ^ halfD * ((1 : ℝ) / (s * V)) ^ dod = (Utr / U) ^ halfD * (Vtr / V) ^ dod

/-- all ingredients hold -/
theorem reduction : Reduction where
  reads := fun draw T D xs S ed st res hE h => C14.sample_reads_dim draw T D xs S ed st res hE h
  probs := fun omega n g hg h0 hJ => C04.edge_probs_sum_one omega n g hg h0 hJ
  rescale := fun T uTr vTr loops h1 h2 h3 h4 h5 => C07.rescaling_normalises T uTr vTr loops h1 h2 h3 h4 h5
  gauss := fun a b h0 h1 => C13.box_muller_radius a b h0 h1
  gaussLaw := fun f hf => C13.boxMuller_law_model f hf
  gaussJoint := fun n m h => C13.components_iid n m h
  icdf := fun F F' G h1 h2 h3 h4 f => inverse_cdf_law F F' G h1 h2 h3 h4 f
  xiLaw := fun c ω hc hω f => xi_power_law c ω hc hω f
  momenta := fun S x p q c Li Qti h1 h2 => C10.propSum_at_sample S x p q c Li Qti h1 h2
  momentaLaw := fun Lm Qti Li c hc hQ hs u f hf => C10.momenta_law Lm Qti Li c hc hQ hs u f hf
  jac := fun Lm Qti c h => det_momentum_map Lm Qti c h
  gauge := fun halfD dod s U V Utr Vtr L h1 h2 h3 h4 h5 h6 => C11.gauge_invariant halfD dod s U V Utr Vtr L h1 h2 h3 h4 h5 h6

end Momtrop.C01
