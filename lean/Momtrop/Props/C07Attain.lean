import Momtrop.Props.C07Forest
/-!
# `u_trop · v_trop` is attained by a momentum term of `F` when spanning is lost because two externals get separated

`uv_attained_momentum`: removal order `σ`, `e* = σ[k]`; two external vertices `v`, `w` are joined inside the graph before the removal of `e*`
and not after it. Then `C' = greedy cotree ∪ {e*}` is the complement of a spanning 2-forest (`loops(S∖C') = 0`, `|C'| = L + 1`) that
separates `v` and `w` - a momentum term of `F` - and its monomial is `x_{e*} · ∏_{greedy cotree} x`, which is `u_trop · v_trop`
(`uv_decomposition`).

Proof: the greedy forest `S ∖ G` keeps the connectivity of every suffix graph (`forest_conn`); going back from the suffix after `e*` to the
whole graph, the forest edges put back are exactly the edges that did not lower the loop number, i.e. whose end points were NOT yet joined;
if one of them joined `v` and `w` (without `e*`), its end points would be joined through `v`, `w` and the later graph (`add_edge_split`),
so it would have closed a cycle (`joined_closes_cycle`).
-/
namespace Momtrop.C07
open Momtrop
open Classical

section attain
variable {α : Type}

theorem VConn.congr {top : List (TEdge α)} {γ γ' : List ℕ} (h : ∀ x, x ∈ γ ↔ x ∈ γ') {v w : ℕ} :
    VConn top γ v w ↔ VConn top γ' v w :=
  ⟨fun hh => hh.mono fun x hx => (h x).mp hx, fun hh => hh.mono fun x hx => (h x).mpr hx⟩

/-- joining through one extra edge `e`: either already joined, or joined to an end of `e` on each side -/
theorem add_edge_split (top : List (TEdge α)) (γ : List ℕ) (e : ℕ) (v w : ℕ) (h : VConn top (e :: γ) v w) :
    VConn top γ v w ∨ ∃ a ∈ endSet top e, ∃ b ∈ endSet top e, VConn top γ v a ∧ VConn top γ b w := by
  rcases h with rfl | ⟨h1, hh1, h2, hh2, hv, hw, hc⟩
  · exact Or.inl (Or.inl rfl)
  · -- R p: p is reached from v
    have key : ∀ j, EdgeConn top (e :: γ) h1 j → ∀ p ∈ endSet top j,
        VConn top γ v p ∨ ∃ a ∈ endSet top e, ∃ b ∈ endSet top e, VConn top γ v a ∧ VConn top γ b p := by
      intro j hj
      induction hj with
      | refl =>
        intro p hp
        rcases List.mem_cons.mp hh1 with rfl | hγ
        · exact Or.inr ⟨v, hv, p, hp, Or.inl rfl, Or.inl rfl⟩
        · exact Or.inl (vconn_edge hγ hv hp)
      | @tail k j _ hstep ih =>
        intro p hp
        obtain ⟨q, hqk, hqj⟩ := (adj_iff_share top k j).mp hstep.2.2
        have hq := ih q hqk
        rcases List.mem_cons.mp hstep.2.1 with rfl | hjγ
        · -- j = e
          rcases hq with hq | ⟨a, ha, _, _, hva, _⟩
          · exact Or.inr ⟨q, hqj, p, hp, hq, Or.inl rfl⟩
          · exact Or.inr ⟨a, ha, p, hp, hva, Or.inl rfl⟩
        · have hqp : VConn top γ q p := vconn_edge hjγ hqj hp
          rcases hq with hq | ⟨a, ha, b, hb, hva, hbq⟩
          · exact Or.inl (hq.trans hqp)
          · exact Or.inr ⟨a, ha, b, hb, hva, hbq.trans hqp⟩
    exact key h2 hc w hw

/-- an edge whose two different end points are joined inside `B` raises the loop number -/
theorem joined_closes_cycle (top : List (TEdge α)) (B : Finset ℕ) (hB : ∀ x ∈ B, x < top.length) (f : ℕ) (hf : f < top.length)
    (hfB : f ∉ B) (a b : ℕ) (ha : a ∈ endSet top f) (hb : b ∈ endSet top f) (hab : a ≠ b) (hj : VConn top B.toList a b) :
    loopsOf top (insert f B) = loopsOf top B + 1 := by
  set s := ((insert f B).filter (· < top.length)).sort (· ≤ ·) with hs
  have hnd : s.Nodup := Finset.sort_nodup _ _
  have hvalid : ∀ x ∈ s, x < top.length := by
    intro x hx; rw [hs, Finset.mem_sort, Finset.mem_filter] at hx; exact hx.2
  have hmem : f ∈ s := by rw [hs, Finset.mem_sort, Finset.mem_filter]; exact ⟨Finset.mem_insert_self _ _, hf⟩
  have h1 : loopNumber top (s.erase f) = loopsOf top B := loopsOf_insert_erase top B f hfB
  have hsub : ∀ x ∈ B.toList, x ∈ s.erase f := by
    intro x hx
    rw [Finset.mem_toList] at hx
    rw [hnd.mem_erase_iff, hs, Finset.mem_sort, Finset.mem_filter, Finset.mem_insert]
    exact ⟨fun hxf => hfB (hxf ▸ hx), Or.inr hx, hB x hx⟩
  have hcyc : Cyc top (s.erase f) f := by
    rcases hj with hj | ⟨h1', hh1, h2', hh2, hah, hbh, hc⟩
    · exact absurd hj hab
    · exact Or.inr ⟨a, ha, b, hb, hab, h1', hsub _ hh1, h2', hsub _ hh2, hah, hbh, edgeConn_subset hsub hc⟩
  have := (loopNumber_drop_iff top s hnd hvalid f hmem).mpr hcyc
  have hdef : loopsOf top (insert f B) = loopNumber top s := rfl
  rw [hdef, this, h1]

variable (top : List (TEdge α))

/-- the greedy spanning forest: what is left when the greedy cotree is taken out -/
noncomputable def forestOf (σ : List ℕ) : Finset ℕ := σ.toFinset \ greedySet (loopsOf top) σ

theorem forestOf_cons (e : ℕ) (rest : List ℕ) (he : e ∉ rest) :
    forestOf top (e :: rest) =
      if loopsOf top rest.toFinset < loopsOf top (insert e rest.toFinset) then forestOf top rest
      else insert e (forestOf top rest) := by
  have heR : e ∉ rest.toFinset := fun hm => he (List.mem_toFinset.mp hm)
  have heG : e ∉ greedySet (loopsOf top) rest := fun hm => heR (greedySet_subset rest hm)
  unfold forestOf
  rw [greedySet, List.toFinset_cons]
  split
  · ext y
    simp only [Finset.mem_sdiff, Finset.mem_insert]
    constructor
    · rintro ⟨h1 | h1, h2⟩
      · exact absurd (Or.inl h1) h2
      · exact ⟨h1, fun hg => h2 (Or.inr hg)⟩
    · rintro ⟨h1, h2⟩
      refine ⟨Or.inr h1, ?_⟩
      rintro (rfl | hg)
      · exact heR h1
      · exact h2 hg
  · rw [Finset.insert_sdiff_of_notMem _ heG]

theorem forestOf_subset (σ : List ℕ) : ∀ x ∈ (forestOf top σ).toList, x ∈ σ := by
  intro x hx
  rw [Finset.mem_toList] at hx
  exact List.mem_toFinset.mp (Finset.mem_sdiff.mp hx).1

/-- **the greedy forest keeps the connectivity** -/
theorem forest_conn : ∀ (σ : List ℕ), σ.Nodup → (∀ x ∈ σ, x < top.length) →
    ∀ a b, VConn top σ a b → VConn top (forestOf top σ).toList a b := by
  intro σ
  induction σ with
  | nil =>
    intro _ _ a b h
    rcases h with rfl | ⟨h1, hh1, _⟩
    · exact Or.inl rfl
    · cases hh1
  | cons e rest ih =>
    intro hnd hvalid a b h
    rw [List.nodup_cons] at hnd
    have ihr := ih hnd.2 (fun x hx => hvalid x (List.mem_cons_of_mem _ hx))
    have hsubF : ∀ x ∈ (forestOf top rest).toList, x ∈ (forestOf top (e :: rest)).toList := by
      intro x hx
      rw [Finset.mem_toList] at hx ⊢
      rw [forestOf_cons top e rest hnd.1]
      split
      · exact hx
      · exact Finset.mem_insert_of_mem hx
    -- every edge of e :: rest has its end points joined inside the forest
    have hP : ∀ g ∈ e :: rest, ∀ p ∈ endSet top g, ∀ q ∈ endSet top g, VConn top (forestOf top (e :: rest)).toList p q := by
      intro g hg p hp q hq
      rcases List.mem_cons.mp hg with hge | hr
      · subst hge
        by_cases hgr : loopsOf top rest.toFinset < loopsOf top (insert g rest.toFinset)
        · have hne : loopsOf top (insert g rest.toFinset) ≠ loopsOf top rest.toFinset := by omega
          have := removed_edge_joined top rest.toFinset
            (fun x hx => hvalid x (List.mem_cons_of_mem _ (List.mem_toFinset.mp hx))) g (hvalid g List.mem_cons_self)
            (fun hm => hnd.1 (List.mem_toFinset.mp hm)) hne p hp q hq
          have h2 : VConn top rest p q := this.mono fun x hx => List.mem_toFinset.mp (Finset.mem_toList.mp hx)
          exact (ihr p q h2).mono hsubF
        · apply vconn_edge _ hp hq
          rw [Finset.mem_toList, forestOf_cons top g rest hnd.1, if_neg hgr]
          exact Finset.mem_insert_self _ _
      · exact (ihr p q (vconn_edge hr hp hq)).mono hsubF
    rcases h with rfl | ⟨h1, hh1, h2, hh2, ha, hb, hc⟩
    · exact Or.inl rfl
    · exact conn_transfer hP hh1 hc a ha b hb

theorem greedy_at {r : Finset ℕ → ℕ} : ∀ (σ : List ℕ), σ.Nodup → ∀ (k : ℕ) (hk : k < σ.length),
    σ[k] ∈ greedySet r σ → r (σ.drop (k + 1)).toFinset < r (insert σ[k] (σ.drop (k + 1)).toFinset) := by
  intro σ
  induction σ with
  | nil => intro _ k hk; simp at hk
  | cons e rest ih =>
    intro hnd k hk hm
    rw [List.nodup_cons] at hnd
    have heG : e ∉ greedySet r rest := fun hmm => hnd.1 (List.mem_toFinset.mp (greedySet_subset rest hmm))
    cases k with
    | zero =>
      simp only [List.getElem_cons_zero, List.drop_succ_cons, List.drop_zero] at hm ⊢
      rw [greedySet] at hm
      by_contra hc
      rw [if_neg hc] at hm
      exact heG hm
    | succ k =>
      simp only [List.getElem_cons_succ, List.drop_succ_cons] at hm ⊢
      have hk' : k < rest.length := by simpa using hk
      have hne : rest[k] ≠ e := fun h => hnd.1 (h ▸ List.getElem_mem hk')
      rw [greedySet] at hm
      split at hm
      · rcases Finset.mem_insert.mp hm with h | h
        · exact absurd h hne
        · exact ih hnd.2 k hk' h
      · exact ih hnd.2 k hk' hm

/-- what separates `v` and `w` after the removal of `σ[k]` still separates them in the greedy forest without `σ[k]` -/
theorem split_persist : ∀ (σ : List ℕ), σ.Nodup → (∀ x ∈ σ, x < top.length) → ∀ (k : ℕ) (hk : k < σ.length) (v w : ℕ),
    VConn top (σ.drop k) v w → ¬ VConn top (σ.drop (k + 1)) v w →
    ¬ VConn top ((forestOf top σ).erase σ[k]).toList v w := by
  intro σ
  induction σ with
  | nil => intro _ _ k hk; simp at hk
  | cons e rest ih =>
    intro hnd hvalid k hk v w hj hnj
    rw [List.nodup_cons] at hnd
    have hvalidr : ∀ x ∈ rest, x < top.length := fun x hx => hvalid x (List.mem_cons_of_mem _ hx)
    have heF : e ∉ forestOf top rest := fun hm => hnd.1 (forestOf_subset top rest e (Finset.mem_toList.mpr hm))
    cases k with
    | zero =>
      simp only [List.getElem_cons_zero, List.drop_succ_cons, List.drop_zero] at hj hnj ⊢
      intro hc
      apply hnj
      apply hc.mono
      intro x hx
      rw [Finset.mem_toList, Finset.mem_erase, forestOf_cons top e rest hnd.1] at hx
      apply forestOf_subset top rest x
      rw [Finset.mem_toList]
      split at hx
      · exact hx.2
      · rcases Finset.mem_insert.mp hx.2 with h | h
        · exact absurd h hx.1
        · exact h
    | succ k =>
      simp only [List.getElem_cons_succ, List.drop_succ_cons] at hj hnj ⊢
      have hk' : k < rest.length := by simpa using hk
      have ihk := ih hnd.2 hvalidr k hk' v w hj hnj
      have hne : rest[k] ≠ e := fun h => hnd.1 (h ▸ List.getElem_mem hk')
      rw [forestOf_cons top e rest hnd.1]
      split
      · exact ihk
      · rename_i hng
        intro hc
        -- (insert e F).erase e* has the members of e :: (F.erase e*)
        set X := ((forestOf top rest).erase rest[k]).toList with hX
        have hmemb : ∀ x, x ∈ ((insert e (forestOf top rest)).erase rest[k]).toList ↔ x ∈ e :: X := by
          intro x
          rw [Finset.mem_toList, Finset.mem_erase, Finset.mem_insert, List.mem_cons, hX, Finset.mem_toList, Finset.mem_erase]
          constructor
          · rintro ⟨h1, h2 | h2⟩
            · exact Or.inl h2
            · exact Or.inr ⟨h1, h2⟩
          · rintro (h | ⟨h1, h2⟩)
            · exact ⟨h ▸ hne.symm, Or.inl h⟩
            · exact ⟨h1, Or.inr h2⟩
        have hc' : VConn top (e :: X) v w := (VConn.congr hmemb).mp hc
        have hXrest : ∀ x ∈ X, x ∈ rest := by
          intro x hx
          rw [hX, Finset.mem_toList, Finset.mem_erase] at hx
          exact forestOf_subset top rest x (Finset.mem_toList.mpr hx.2)
        rcases add_edge_split top X e v w hc' with h | ⟨a, ha, b, hb, hva, hbw⟩
        · exact ihk h
        · -- a ~ v ~ w ~ b inside rest
          have hvw : VConn top rest v w := hj.mono fun x hx => List.mem_of_mem_drop hx
          have hab : VConn top rest a b := ((hva.mono hXrest).symm.trans hvw).trans (hbw.mono hXrest).symm
          by_cases habeq : a = b
          · subst habeq
            exact ihk (hva.trans hbw)
          · have := joined_closes_cycle top rest.toFinset (fun x hx => hvalidr x (List.mem_toFinset.mp hx)) e
              (hvalid e List.mem_cons_self) (fun hm => hnd.1 (List.mem_toFinset.mp hm)) a b ha hb habeq
              (hab.mono fun x hx => Finset.mem_toList.mpr (List.mem_toFinset.mpr hx))
            omega

/-- **attainment by a momentum term**: if the removal of `e* = σ[k]` separates two external vertices, `greedy cotree ∪ {e*}` is the
complement of a spanning 2-forest separating them, and its monomial is `x_{e*} · ∏_{greedy cotree} x` -/
theorem uv_attained_momentum (ext : List ℕ) (x : ℕ → ℝ) (σ : List ℕ) (hσ : σ.Nodup) (hvalid : ∀ e ∈ σ, e < top.length)
    (k : ℕ) (hk : k < σ.length) (v w : ℕ) (hv : v ∈ ext) (hw : w ∈ ext)
    (hj : VConn top (σ.drop k) v w) (hnj : ¬ VConn top (σ.drop (k + 1)) v w) :
    let C' := insert σ[k] (greedySet (loopsOf top) σ)
    C' ⊆ σ.toFinset ∧ loopsOf top (σ.toFinset \ C') = 0 ∧ C'.card = loopsOf top σ.toFinset + 1 ∧
      Split top ext (σ.toFinset \ C') ∧ ∏ e ∈ C', x e = x σ[k] * ∏ e ∈ greedySet (loopsOf top) σ, x e := by
  intro C'
  have hN := loopsOf_nullity top
  have hcot := greedySet_cotree hN σ hσ
  have hmemσ : σ[k] ∈ σ.toFinset := List.mem_toFinset.mpr (List.getElem_mem hk)
  -- e* is not greedy: otherwise its removal would not separate anything
  have hnotG : σ[k] ∉ greedySet (loopsOf top) σ := by
    intro hG
    have hlt := greedy_at σ hσ k hk hG
    have hndrop : (σ.drop (k + 1)).Nodup := hσ.sublist (List.drop_sublist _ σ)
    have hek : σ[k] ∉ (σ.drop (k + 1)).toFinset := by
      intro hm
      rw [List.mem_toFinset] at hm
      have hdk : σ.drop k = σ[k] :: σ.drop (k + 1) := List.drop_eq_getElem_cons hk
      have : (σ.drop k).Nodup := hσ.sublist (List.drop_sublist _ σ)
      rw [hdk, List.nodup_cons] at this
      exact this.1 hm
    have hends := removed_edge_joined top (σ.drop (k + 1)).toFinset
      (fun y hy => hvalid y (List.mem_of_mem_drop (List.mem_toFinset.mp hy))) σ[k] (hvalid _ (List.getElem_mem hk)) hek (by omega)
    apply hnj
    have hdk : σ.drop k = σ[k] :: σ.drop (k + 1) := List.drop_eq_getElem_cons hk
    have hP : ∀ h ∈ σ.drop k, ∀ p ∈ endSet top h, ∀ q ∈ endSet top h, VConn top (σ.drop (k + 1)) p q := by
      intro h hh p hp q hq
      rw [hdk] at hh
      rcases List.mem_cons.mp hh with rfl | hr
      · exact (hends p hp q hq).mono fun y hy => List.mem_toFinset.mp (Finset.mem_toList.mp hy)
      · exact vconn_edge hr hp hq
    rcases hj with rfl | ⟨h1, hh1, h2, hh2, ha, hb, hc⟩
    · exact Or.inl rfl
    · exact conn_transfer hP hh1 hc v ha w hb
  have hsd : σ.toFinset \ C' = (forestOf top σ).erase σ[k] := by
    ext y
    simp only [C', forestOf, Finset.mem_sdiff, Finset.mem_insert, Finset.mem_erase]
    constructor
    · rintro ⟨h1, h2⟩
      exact ⟨fun hy => h2 (Or.inl hy), h1, fun hg => h2 (Or.inr hg)⟩
    · rintro ⟨h1, h2, h3⟩
      exact ⟨h2, fun hh => hh.elim h1 h3⟩
  refine ⟨?_, ?_, ?_, ?_, ?_⟩
  · exact Finset.insert_subset hmemσ hcot.1
  · have hsub : σ.toFinset \ C' ⊆ σ.toFinset \ greedySet (loopsOf top) σ :=
      Finset.sdiff_subset_sdiff (le_refl _) (Finset.subset_insert _ _)
    have := r_mono hN hsub
    rw [hcot.2.1] at this
    omega
  · rw [Finset.card_insert_of_notMem hnotG, hcot.2.2]
  · refine ⟨v, hv, w, hw, ?_⟩
    rw [hsd]
    exact split_persist top σ hσ hvalid k hk v w hj hnj
  · rw [Finset.prod_insert hnotG]

end attain

/-! ### the model's flag: with two different external vertices `u_trop · v_trop` is always a monomial of `F` -/
section model3
variable {α : Type} [Scalar α]

theorem massCount (top : List (TEdge α)) (A : Finset ℕ) :
    (((A.filter (· < top.length)).sort (· ≤ ·)).filter (isMassive top)).length
      = ((A.filter (· < top.length)).filter (fun e => isMassive top e = true)).card := by
  have hnd : (((A.filter (· < top.length)).sort (· ≤ ·)).filter (isMassive top)).Nodup :=
    (Finset.sort_nodup _ _).filter _
  rw [← List.toFinset_card_of_nodup hnd]
  congr 1
  ext y
  simp only [List.mem_toFinset, List.mem_filter, Finset.mem_sort, Finset.mem_filter]

/-- if the massive edges are all there and the external vertices (at least two different ones) are pairwise joined, the subgraph is
mass-momentum spanning -/
theorem mmOf_of_joined (G : TGraph α) (A : Finset ℕ) (hA : ∀ x ∈ A, x < G.topology.length)
    (hmass : (((A.filter (· < G.topology.length)).sort (· ≤ ·)).filter (isMassive G.topology)).length = G.numMassive)
    (v0 w0 : ℕ) (hv0 : v0 ∈ G.externals) (hw0 : w0 ∈ G.externals) (hne : v0 ≠ w0)
    (hall : ∀ v ∈ G.externals, ∀ w ∈ G.externals, VConn G.topology A.toList v w) : mmOf G A = true := by
  unfold mmOf
  rw [C03.spanning_iff]
  refine ⟨hmass, ?_⟩
  set s := (A.filter (· < G.topology.length)).sort (· ≤ ·) with hs
  have hnd : s.Nodup := Finset.sort_nodup _ _
  have hmem : ∀ x, x ∈ A.toList ↔ x ∈ s := by
    intro x
    rw [Finset.mem_toList, hs, Finset.mem_sort, Finset.mem_filter]
    exact ⟨fun hx => ⟨hx, hA x hx⟩, fun hx => hx.1⟩
  have hall' : ∀ v ∈ G.externals, ∀ w ∈ G.externals, VConn G.topology s v w :=
    fun v hv w hw => (VConn.congr hmem).mp (hall v hv w hw)
  -- the edge at v0
  rcases hall' v0 hv0 w0 hw0 with h | ⟨h1, hh1, h2, hh2, hv0h1, _, _⟩
  · exact absurd h hne
  · obtain ⟨hclass, _, hcover⟩ := componentLists_spec G.topology s hnd
    obtain ⟨cl, hcl, hh1cl⟩ := hcover h1 hh1
    obtain ⟨seed, hseed, hcls⟩ := hclass cl hcl
    have hseed1 : EdgeConn G.topology s seed h1 := (hcls h1).mp hh1cl
    refine ⟨Mask.ofList cl, List.mem_map.mpr ⟨cl, hcl, rfl⟩, ?_⟩
    intro u hu
    -- an edge at u in the class of h1
    have hedge : ∃ i, i ∈ s ∧ u ∈ endSet G.topology i ∧ EdgeConn G.topology s h1 i := by
      rcases hall' v0 hv0 u hu with h | ⟨g1, hg1, g2, hg2, hv0g1, hug2, hc⟩
      · exact ⟨h1, hh1, h ▸ hv0h1, Relation.ReflTransGen.refl⟩
      · have hadj : EdgeConn G.topology s h1 g1 :=
          Relation.ReflTransGen.single ⟨hh1, hg1, (adj_iff_share G.topology h1 g1).mpr ⟨v0, hv0h1, hv0g1⟩⟩
        exact ⟨g2, hg2, hug2, hadj.trans hc⟩
    obtain ⟨i, his, hui, hci⟩ := hedge
    have hicl : i ∈ cl := (hcls i).mpr (hseed1.trans hci)
    have hilt : i < G.topology.length := by
      rw [hs, Finset.mem_sort, Finset.mem_filter] at his; exact his.2
    exact ⟨i, Mask.mem_edges_ofList.mpr ⟨hilt, hicl⟩, (containsVertex_iff _ _ _).mpr hui⟩

/-- **with at least two different external vertices `u_trop · v_trop` is a monomial of `F`**: `x_{e*} ∏_{greedy cotree} x`, where either
`e*` is massive (a mass term) or `greedy cotree ∪ {e*}` is the complement of a spanning 2-forest separating two external vertices (a
momentum term). With `mass_term_le`, `momentum_term_le`: `v_trop` is exactly the largest monomial of `F/U`. -/
theorem uv_is_monomial (G : TGraph α) (x : ℕ → ℝ) (σ : List ℕ) (hσ : σ.Nodup) (hvalid : ∀ e ∈ σ, e < G.topology.length)
    (hnm : G.numMassive = ((List.range G.topology.length).filter (isMassive G.topology)).length)
    (hfull : mmOf G σ.toFinset = true)
    (v0 w0 : ℕ) (hv0 : v0 ∈ G.externals) (hw0 : w0 ∈ G.externals) (hne : v0 ≠ w0) :
    ∃ k, ∃ hk : k < σ.length,
      tropPow (zF (loopsOf G.topology) (mmOf G)) x σ = x σ[k] * ∏ e ∈ greedySet (loopsOf G.topology) σ, x e ∧
      Cotree (loopsOf G.topology) σ.toFinset (greedySet (loopsOf G.topology) σ) ∧
      (isMassive G.topology σ[k] = true ∨
        (insert σ[k] (greedySet (loopsOf G.topology) σ) ⊆ σ.toFinset ∧
          loopsOf G.topology (σ.toFinset \ insert σ[k] (greedySet (loopsOf G.topology) σ)) = 0 ∧
          (insert σ[k] (greedySet (loopsOf G.topology) σ)).card = loopsOf G.topology σ.toFinset + 1 ∧
          Split G.topology G.externals (σ.toFinset \ insert σ[k] (greedySet (loopsOf G.topology) σ)) ∧
          ∏ e ∈ insert σ[k] (greedySet (loopsOf G.topology) σ), x e = tropPow (zF (loopsOf G.topology) (mmOf G)) x σ)) := by
  have hm := mmOf_spanLike G hnm
  obtain ⟨k, hk, h1, h2, h3, h4⟩ := uv_decomposition (loopsOf_nullity G.topology) hm x σ hσ hfull
  refine ⟨k, hk, h3, h4, ?_⟩
  by_cases hmv : isMassive G.topology σ[k] = true
  · exact Or.inl hmv
  · right
    have hmemdrop : ∀ j, ∀ y, y ∈ (σ.drop j).toFinset.toList ↔ y ∈ σ.drop j := by
      intro j y; rw [Finset.mem_toList, List.mem_toFinset]
    -- joined before
    have hj : ∀ v ∈ G.externals, ∀ w ∈ G.externals, VConn G.topology (σ.drop k) v w :=
      fun v hv w hw => (VConn.congr (hmemdrop k)).mp (mmOf_conn G _ h1 v hv w hw)
    -- separated after
    have hsep : ∃ v ∈ G.externals, ∃ w ∈ G.externals, ¬ VConn G.topology (σ.drop (k + 1)) v w := by
      by_contra hc
      push_neg at hc
      have hAvalid : ∀ y ∈ (σ.drop (k + 1)).toFinset, y < G.topology.length :=
        fun y hy => hvalid y (List.mem_of_mem_drop (List.mem_toFinset.mp hy))
      -- the massive edges are still all there
      have hcount : (((((σ.drop (k + 1)).toFinset).filter (· < G.topology.length)).sort (· ≤ ·)).filter (isMassive G.topology)).length
          = G.numMassive := by
        have hbefore := h1
        unfold mmOf at hbefore
        rw [C03.spanning_iff] at hbefore
        rw [← hbefore.1, massCount, massCount]
        congr 1
        have hdk : σ.drop k = σ[k] :: σ.drop (k + 1) := List.drop_eq_getElem_cons hk
        ext y
        simp only [Finset.mem_filter, List.mem_toFinset]
        rw [hdk, List.mem_cons]
        constructor
        · rintro ⟨⟨hy, hlt⟩, hmy⟩
          exact ⟨⟨Or.inr hy, hlt⟩, hmy⟩
        · rintro ⟨⟨hy | hy, hlt⟩, hmy⟩
          · exact absurd (hy ▸ hmy) hmv
          · exact ⟨⟨hy, hlt⟩, hmy⟩
      have := mmOf_of_joined G (σ.drop (k + 1)).toFinset hAvalid hcount v0 w0 hv0 hw0 hne
        (fun v hv w hw => (VConn.congr (hmemdrop (k + 1))).mpr (hc v hv w hw))
      rw [h2] at this
      cases this
    obtain ⟨v, hv, w, hw, hnj⟩ := hsep
    obtain ⟨a1, a2, a3, a4, a5⟩ := uv_attained_momentum G.topology G.externals x σ hσ hvalid k hk v w hv hw (hj v hv w hw) hnj
    exact ⟨a1, a2, a3, a4, by rw [a5, h3]⟩

/-! non-vacuity: the massless triangle with its three vertices external and the removal order 0, 1, 2 meets every hypothesis of
`uv_is_monomial` -/
noncomputable def triG : TGraph ℝ :=
  { dod := 1, topology := [⟨0, 1, 1, false⟩, ⟨1, 2, 1, false⟩, ⟨2, 0, 1, false⟩], numMassive := 0, externals := [0, 1, 2], numLoops := 1 }

theorem tri_full : mmOf triG (Mask.edges triG.topology.length 7).toFinset = true := by
  rw [mmOf_edges triG 3 7, (C03.preEntry_flags triG 3 7).2]
  decide

theorem tri_edges : Mask.edges triG.topology.length 7 = [0, 1, 2] := by decide

example (x : ℕ → ℝ) :=
  uv_is_monomial triG x [0, 1, 2] (by decide) (by decide) (by decide) (by rw [← tri_edges]; exact tri_full) 0 1
    (by decide) (by decide) (by decide)

/-- **C07 on the model's own table, in one statement.** `T` carries the flags of `preEntry G D` (what `generate_from_tropical` stores), the
whole graph is mass-momentum spanning, the run of `permatuhedral_sampling` succeeds with uniform numbers in `(0,1]` and positive `ω`'s. With `x`
the pre-rescaling Feynman parameters: (1) every cotree monomial is `≤ u_trop` and `u_trop` is one; (2) every mass term and (3) every momentum
term of `F` is `≤ u_trop · v_trop`. (`uv_is_monomial` adds that `u_trop · v_trop` is one of them when two different externals exist.) -/
theorem tropical_values_bound_all_monomials (T : STable ℝ) (G : TGraph ℝ) (D : Nat) (hn : T.numEdges = G.topology.length)
    (hnm : G.numMassive = ((List.range G.topology.length).filter (isMassive G.topology)).length)
    (hl : ∀ m, m < 2 ^ T.numEdges → T.loops m = (preEntry G D m).2.1)
    (hs : ∀ m, m < 2 ^ T.numEdges → T.mms m = (preEntry G D m).1)
    (hspan : T.mms (Mask.full T.numEdges) = true)
    (xs : List ℝ) (r : PermResult ℝ) (h : permutahedral T xs = some r)
    (hpos : ∀ s ∈ permTrace T xs T.numEdges (Mask.full T.numEdges) 0, ∀ xi, s.xi = some xi → 0 < xi ∧ xi ≤ 1 ∧ 0 < T.omega s.rest) :
    let x : ℕ → ℝ := fun e => r.xPre.getD e 0
    let S := Finset.range T.numEdges
    ((∀ C, Cotree (loopsOf G.topology) S C → ∏ e ∈ C, x e ≤ r.uTrPre) ∧
        ∃ C, Cotree (loopsOf G.topology) S C ∧ ∏ e ∈ C, x e = r.uTrPre) ∧
      (∀ C, Cotree (loopsOf G.topology) S C → ∀ e0, e0 < T.numEdges → isMassive G.topology e0 = true →
        x e0 * ∏ e ∈ C, x e ≤ r.uTrPre * r.vTrPre) ∧
      (∀ C, C ⊆ S → loopsOf G.topology (S \ C) = 0 → C.card = loopsOf G.topology S + 1 → Split G.topology G.externals (S \ C) →
        ∏ e ∈ C, x e ≤ r.uTrPre * r.vTrPre) := by
  intro x S
  obtain ⟨hm, hL, hM⟩ := premises_of_preEntry T G D hn hnm hl hs
  refine ⟨uTrop_is_largest_monomial T G.topology hL xs r h hpos, ?_, ?_⟩
  · intro C hC e0 he0 hmass
    exact mass_terms_le T G.topology (mmOf G) hm hL hM hspan xs r h hpos C hC e0 he0
      (fun A hA => mmOf_contains_massive G hnm e0 (hn ▸ he0) hmass A hA)
  · intro C hCS hz hcard hsplit
    exact momentum_terms_le T G.topology G.externals (mmOf G) hm (fun A hA => mmOf_conn G A hA) hn hL hM hspan xs r h hpos C hCS hz hcard hsplit

end model3

end Momtrop.C07
