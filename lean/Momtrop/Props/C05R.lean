import Momtrop.Props.C05
import Momtrop.Props.C04R
/-!
# C05 in exact arithmetic: an accepted table has strictly positive `J` everywhere
-/
namespace Momtrop.C05
open Momtrop Scalar

theorem card_lt_of_pop {n : Nat} {g : Mask} {e : Nat} (he : e ∈ Mask.edges n g) :
    card n (Mask.pop g e) < card n g := by
  have := Mask.card_pop n g e he
  unfold card; omega

theorem card_le_n (n : Nat) (g : Mask) : card n g ≤ n := by
  unfold card Mask.edges
  calc ((List.range n).filter _).length ≤ (List.range n).length := List.length_filter_le _ _
    _ = n := List.length_range

/-- **`J > 0`** (exact arithmetic): if every subset other than the full graph has `ω > 0`, then `J(g) > 0`
for every subset `g` (non-empty sum of positive terms; only proper-subset `ω`'s are ever divided by). -/
theorem J_pos (omega : Mask → ℝ) (n : Nat)
    (hpos : ∀ h, h < 2 ^ n → h ≠ Mask.full n → 0 < omega h) :
    ∀ (c : Nat) (g : Mask), g < 2 ^ n → card n g = c → 0 < Jval omega n g := by
  intro c
  induction c using Nat.strong_induction_on with
  | _ c ih =>
    intro g hg hc
    by_cases h0 : g = 0
    · subst h0; rw [C04.J_empty]; simp
    · rw [C04.J_rec omega n g hg h0, sumIter_eq]
      have hne : Mask.edges n g ≠ [] := Mask.edges_ne_nil hg h0
      apply List.sum_pos
      · intro t ht
        obtain ⟨e, he, rfl⟩ := List.mem_map.mp ht
        have hlt : Mask.pop g e < 2 ^ n := Mask.pop_lt hg (Mask.mem_edges.mp he).1
        have hcl := card_lt_of_pop he
        have hJ := ih (card n (Mask.pop g e)) (by omega) (Mask.pop g e) hlt rfl
        have hnf : Mask.pop g e ≠ Mask.full n := by
          intro hf
          have : card n (Mask.pop g e) = n := by rw [hf]; exact C04.card_full n
          have := card_le_n n g
          omega
        exact div_pos hJ (hpos _ hlt hnf)
      · simpa using hne

/-- the same for the table that `generate_from_tropical` accepts -/
theorem table_j_pos (Γ : ℝ → ℝ) (G : TGraph ℝ) (D : Nat) (T : Table ℝ) (h : generateTable Γ G D = .ok T)
    (g : Mask) (hg : g < 2 ^ G.topology.length) :
    ∃ e, T.entries[g]? = some e ∧ 0 < e.j := by
  obtain ⟨e, he, hj⟩ := C04.table_j Γ G D T h g hg
  refine ⟨e, he, ?_⟩
  rw [hj]
  have hok := build_ok Γ G D T h
  apply J_pos _ _ _ _ g hg rfl
  intro s hs hsf
  have hnb := hok.2.2.2.1 s hs
  unfold omegaOf
  simp only [List.getElem?_map, List.getElem?_range hs, Option.map_some]
  by_cases hs0 : s = 0
  · subst hs0; rw [C03_genDod_empty]; simp
  · have : ¬ (isBad G D s = true) := by simp [hnb]
    rw [isBad_iff] at this
    simp only [not_and, leB_real] at this
    by_contra hcon
    exact (this (not_lt.mp hcon) hs0) hsf
where
  C03_genDod_empty : (preEntry G D 0).2.2 = (one : ℝ) := by simp [preEntry, Mask.isEmpty]

/-- **Sector probabilities of an accepted table sum to one**: if every subset other than the full graph has `ω > 0`
(what `build_sampler` checks), the probabilities `Π_k J(g_k)/J(g_{k-1})/ω(g_k)` of all `E!` complete removal orders add up to 1,
each being `Π_k 1/ω(g_k) / J(G)`. -/
theorem sector_probs_sum_one (omega : Mask → ℝ) (n : Nat)
    (hpos : ∀ h, h < 2 ^ n → h ≠ Mask.full n → 0 < omega h) (g : Mask) (hg : g < 2 ^ n) :
    ((C04.orderingsAux (card n g) (Mask.edges n g)).map (C04.orderProb omega n g)).sum = 1 :=
  C04.orderProb_sum_one omega n (fun h hh => (J_pos omega n hpos _ h hh rfl).ne') g hg

end Momtrop.C05

namespace Momtrop.C05
/-- non-vacuity of `sector_probs_sum_one`: `ω ≡ 1` satisfies its hypothesis for every number of edges -/
example (n : Nat) (g : Mask) (hg : g < 2 ^ n) :
    ((C04.orderingsAux (card n g) (Mask.edges n g)).map (C04.orderProb (fun _ => (1 : ℝ)) n g)).sum = 1 :=
  sector_probs_sum_one (fun _ => 1) n (fun _ _ _ => by norm_num) g hg
end Momtrop.C05
