import Momtrop.Props.C09
import Momtrop.Props.C15
/-!
# C10 — loop momenta: Gaussian map with covariance `(V/2λ) L⁻¹` and centre `−L⁻¹u`

`R`-theorems for every `L`, `E`, `D`:
* closed form of `compute_loop_momenta` / `compute_only_shift` (which index of `Q⁻ᵀ`, which sign);
* the matrix routine's `q_transposed_inverse` satisfies `Q⁻¹ L Q⁻ᵀ = 1`;
* at `k = c·Q⁻ᵀq − L⁻¹u` the weighted propagator sum of one spatial component is `c²·|q|² + (pᵀXp − uᵀL⁻¹u)`;
  summing over the `D` components and adding the masses gives `v·(1 + |q|²/(2λ))`.
A transposed factor, a swapped index of the double sum or a wrong sign of the shift makes
`propSum_at_sample` unprovable for `L ≥ 2`.
-/
namespace Momtrop.C10
open Momtrop Scalar Matrix

/-- closed form of the returned loop momenta (model of `compute_loop_momenta`) -/
theorem momenta_eq (D nL : Nat) (v lam : ℝ) (qTInv Linv : Mat ℝ) (q u : List (Vec ℝ))
    (hq : q.length = nL) (hu : u.length = nL) {l i : Nat} (hl : l < nL) (hi : i < D) :
    ((loopMomenta D v lam qTInv nL q Linv u).getD l []).get i
      = ∑ l' ∈ Finset.range nL, ((q.getD l' []).get i * (Real.sqrt (v / lam / 2) * qTInv.get l l')
          - (u.getD l' []).get i * Linv.get l l') :=
  loopMomenta_get D nL v lam qTInv Linv q u hq hu hl hi

/-- `Metadata.shift = L⁻¹ u` -/
theorem shift_eq (D nL : Nat) (Linv : Mat ℝ) (u : List (Vec ℝ)) (hu : u.length = nL)
    {l i : Nat} (hl : l < nL) (hi : i < D) :
    ((onlyShift D Linv nL u).getD l []).get i = ∑ l' ∈ Finset.range nL, Linv.get l l' * (u.getD l' []).get i := by
  rw [onlyShift_get D nL Linv u hu hl hi]
  apply Finset.sum_congr rfl; intro l' _; ring

/-- **`Q⁻¹ L Q⁻ᵀ = 1`** for the factors returned by the matrix routine (with `Qti = q_transposed_inverse`) -/
theorem qTInv_whitens (A : Mat ℝ) (n : Nat) (hp : PivotsPos A n) (hs : SymmOn A n) :
    (M n (C15.result A n).qTInv)ᵀ * M n A * M n (C15.result A n).qTInv = 1 := by
  rw [C15.M_result_qTInv, transpose_transpose, ← QM_mul_transpose A n hp hs]
  calc IQ A n * (QM A n * (QM A n)ᵀ) * (IQ A n)ᵀ
      = (IQ A n * QM A n) * ((QM A n)ᵀ * (IQ A n)ᵀ) := by simp only [Matrix.mul_assoc]
    _ = 1 := by rw [IQ_mul_QM A n hp, ← transpose_mul, IQ_mul_QM A n hp, transpose_one, Matrix.mul_one]

variable {E L : ℕ}

/-- **The momentum identity, one spatial component.** With `L⁻¹` the inverse of `L = SᵀXS` and `Qti` such that
`Qtiᵀ L Qti = 1`, at `k = c·Qti q − L⁻¹u`: `Σ_e x_e (S k + p)_e² = c²·|q|² + (pᵀXp − uᵀL⁻¹u)`. -/
theorem propSum_at_sample (S : Matrix (Fin E) (Fin L) ℝ) (x p : Fin E → ℝ) (q : Fin L → ℝ) (c : ℝ)
    (Li Qti : Matrix (Fin L) (Fin L) ℝ) (hinv : lMat S x * Li = 1) (hQ : Qtiᵀ * lMat S x * Qti = 1) :
    let k := c • (Qti *ᵥ q) - Li *ᵥ uVec S x p
    (S *ᵥ k + p) ⬝ᵥ (diagonal x *ᵥ (S *ᵥ k + p)) = c ^ 2 * (q ⬝ᵥ q) + C09.Vabs S x p Li := by
  intro k
  rw [C09.complete_the_square S x p k Li hinv]
  have : k + Li *ᵥ uVec S x p = c • (Qti *ᵥ q) := by simp [k]
  rw [this, quadratic_at_sample (lMat S x) Qti q c hQ]

/-- **The momentum identity, all `D` components and the masses**: with `c² = v/(2λ)` and
`v = Σ_e x_e m_e² + Σ_i (p_iᵀXp_i − u_iᵀL⁻¹u_i)`,
`Σ_e x_e (|q_e|² + m_e²) = v·(1 + |q|²/(2λ))` at the returned momenta. -/
theorem propSum_total (D : ℕ) (S : Matrix (Fin E) (Fin L) ℝ) (x m : Fin E → ℝ) (p : Fin D → Fin E → ℝ)
    (q : Fin D → Fin L → ℝ) (v lam : ℝ) (Li Qti : Matrix (Fin L) (Fin L) ℝ)
    (hinv : lMat S x * Li = 1) (hQ : Qtiᵀ * lMat S x * Qti = 1) (hlam : 0 < lam) (hv0 : 0 ≤ v)
    (hv : v = (∑ e, x e * (m e * m e)) + ∑ i, C09.Vabs S x (p i) Li) :
    (∑ i, (S *ᵥ (Real.sqrt (v / lam / 2) • (Qti *ᵥ q i) - Li *ᵥ uVec S x (p i)) + p i)
          ⬝ᵥ (diagonal x *ᵥ (S *ᵥ (Real.sqrt (v / lam / 2) • (Qti *ᵥ q i) - Li *ᵥ uVec S x (p i)) + p i)))
      + ∑ e, x e * (m e * m e)
      = v * (1 + (∑ i, q i ⬝ᵥ q i) / (2 * lam)) := by
  have hc : Real.sqrt (v / lam / 2) ^ 2 = v / lam / 2 := Real.sq_sqrt (by positivity)
  have hstep : ∀ i, (S *ᵥ (Real.sqrt (v / lam / 2) • (Qti *ᵥ q i) - Li *ᵥ uVec S x (p i)) + p i)
          ⬝ᵥ (diagonal x *ᵥ (S *ᵥ (Real.sqrt (v / lam / 2) • (Qti *ᵥ q i) - Li *ᵥ uVec S x (p i)) + p i))
        = v / lam / 2 * (q i ⬝ᵥ q i) + C09.Vabs S x (p i) Li := by
    intro i
    have := propSum_at_sample S x (p i) (q i) (Real.sqrt (v / lam / 2)) Li Qti hinv hQ
    simp only at this
    rw [this, hc]
  simp only [hstep]
  rw [Finset.sum_add_distrib, ← Finset.mul_sum]
  have hsum : (∑ i, C09.Vabs S x (p i) Li) + ∑ e, x e * (m e * m e) = v := by rw [hv]; ring
  calc v / lam / 2 * ∑ i, q i ⬝ᵥ q i + ∑ i, C09.Vabs S x (p i) Li + ∑ e, x e * (m e * m e)
      = v / lam / 2 * ∑ i, q i ⬝ᵥ q i + ((∑ i, C09.Vabs S x (p i) Li) + ∑ e, x e * (m e * m e)) := by ring
    _ = v * (1 + (∑ i, q i ⬝ᵥ q i) / (2 * lam)) := by rw [hsum]; field_simp; ring

end Momtrop.C10
