import Momtrop.Props.C13
import Mathlib.Analysis.SpecialFunctions.PolarCoord
import Mathlib.MeasureTheory.Group.LIntegral
import Mathlib.MeasureTheory.Measure.Haar.Unique
import Mathlib.MeasureTheory.Function.JacobianOneDim
import Mathlib.Analysis.SpecialFunctions.Log.Deriv
import Mathlib.Analysis.SpecialFunctions.ExpDeriv
/-!
# C13, the Box–Muller theorem itself

`boxMuller_law`: for every measurable `f ≥ 0`, the integral of `f ∘ boxMuller` over the open unit square equals the
integral of `f` against the standard Gaussian density `(2π)⁻¹ exp(−(z₁²+z₂²)/2)` on `ℝ²` — i.e. the two values
produced from one coordinate pair are independent standard normals when the pair is uniform. `boxMuller_law_model`
is the same statement for the model's own `boxMuller` (the function the driver runs) at `α := ℝ`.
Proof: polar coordinates (Mathlib) + the substitutions `a = exp(−r²/2)`, `b = (θ+π)/2π` + invariance of Lebesgue
measure under `z ↦ −z`.
-/
open MeasureTheory Real Set
open scoped ENNReal

namespace Momtrop.C13
open Momtrop

noncomputable def bm (p : ℝ × ℝ) : ℝ × ℝ :=
  (√(-2 * log p.1) * cos (2 * π * p.2), √(-2 * log p.1) * sin (2 * π * p.2))

noncomputable def gauss2 (z : ℝ × ℝ) : ℝ := (2 * π)⁻¹ * exp (-(z.1 ^ 2 + z.2 ^ 2) / 2)

/-- angle substitution -/
theorem angle_subst (F : ℝ → ℝ≥0∞) :
    ∫⁻ b in Ioo (0:ℝ) 1, F (2 * π * b) = ∫⁻ θ in Ioo (-π) π, ENNReal.ofReal (2 * π)⁻¹ * F (θ + π) := by
  have himg : (fun θ : ℝ => (θ + π) / (2 * π)) '' Ioo (-π) π = Ioo (0:ℝ) 1 := by
    have h2 : (0:ℝ) < 2 * π := by positivity
    ext b
    constructor
    · rintro ⟨θ, ⟨h1, h3⟩, rfl⟩
      constructor
      · apply div_pos _ h2; linarith
      · rw [div_lt_one h2]; linarith
    · rintro ⟨h1, h3⟩
      refine ⟨2 * π * b - π, ⟨?_, ?_⟩, ?_⟩
      · nlinarith
      · nlinarith
      · field_simp; ring
  rw [← himg, lintegral_image_eq_lintegral_abs_deriv_mul (f' := fun _ => (2 * π)⁻¹) measurableSet_Ioo]
  · apply lintegral_congr; intro θ
    have hpos : (0:ℝ) < (2 * π)⁻¹ := by positivity
    rw [abs_of_pos hpos]
    congr 2
    field_simp
  · intro x _
    have := ((hasDerivAt_id x).add_const π).div_const (2 * π)
    simpa using this.hasDerivWithinAt
  · intro x _ y _ h
    have h2 : (0:ℝ) < 2 * π := by positivity
    field_simp at h
    linarith

/-- radius substitution -/
theorem radius_subst (H : ℝ → ℝ≥0∞) :
    ∫⁻ a in Ioo (0:ℝ) 1, H a = ∫⁻ r in Ioi (0:ℝ), ENNReal.ofReal (r * exp (-(r ^ 2) / 2)) * H (exp (-(r ^ 2) / 2)) := by
  have himg : (fun r : ℝ => exp (-(r ^ 2) / 2)) '' Ioi 0 = Ioo (0:ℝ) 1 := by
    ext a
    constructor
    · rintro ⟨r, hr, rfl⟩
      have hr' : (0:ℝ) < r := hr
      refine ⟨exp_pos _, ?_⟩
      rw [exp_lt_one_iff]  
      have : 0 < r ^ 2 := by positivity
      linarith
    · rintro ⟨h1, h3⟩
      have hlog : log a < 0 := log_neg h1 h3
      have hpos : 0 < -2 * log a := by linarith
      refine ⟨√(-2 * log a), sqrt_pos.mpr hpos, ?_⟩
      show exp (-(√(-2 * log a) ^ 2) / 2) = a
      rw [sq_sqrt hpos.le]
      have : -(-2 * log a) / 2 = log a := by ring
      rw [this, exp_log h1]
  rw [← himg, lintegral_image_eq_lintegral_abs_deriv_mul (f' := fun r => -r * exp (-(r ^ 2) / 2)) measurableSet_Ioi]
  · apply setLIntegral_congr_fun measurableSet_Ioi
    intro r hr
    have hr' : (0:ℝ) < r := hr
    have : |(-r * exp (-(r ^ 2) / 2))| = r * exp (-(r ^ 2) / 2) := by
      rw [abs_mul, abs_neg, abs_of_pos hr', abs_of_pos (exp_pos _)]
    simp only [this]
  · intro x _
    have h0 : HasDerivAt (fun r : ℝ => r ^ 2) (2 * x) x := by simpa using hasDerivAt_pow 2 x
    have h1 : HasDerivAt (fun r : ℝ => -(r ^ 2) / 2) (-(2 * x) / 2) x := (h0.neg).div_const 2
    have h' : HasDerivAt (fun r : ℝ => exp (-(r ^ 2) / 2)) (-x * exp (-(x ^ 2) / 2)) x := by
      have := h1.exp
      convert this using 1
      ring
    exact h'.hasDerivWithinAt
  · intro x hx y hy h
    have hx' : (0:ℝ) < x := hx
    have hy' : (0:ℝ) < y := hy
    have h2 := exp_injective h
    have h3 : x ^ 2 = y ^ 2 := by linarith
    have h4 : (x - y) * (x + y) = 0 := by ring_nf; linarith
    rcases mul_eq_zero.mp h4 with h5 | h5 <;> linarith

theorem bm_meas : Measurable bm := by
  unfold bm
  fun_prop

/-- **Box–Muller theorem**: the image of the uniform distribution on the open unit square under the
Box–Muller map is the standard Gaussian on `ℝ²` (density `(2π)⁻¹ exp(-(z₁²+z₂²)/2)`), stated for every
measurable test function `f ≥ 0`. -/
theorem boxMuller_law (f : ℝ × ℝ → ℝ≥0∞) (hf : Measurable f) :
    ∫⁻ p in Ioo (0:ℝ) 1 ×ˢ Ioo (0:ℝ) 1, f (bm p) = ∫⁻ z, f z * ENNReal.ofReal (gauss2 z) := by
  have hL : ∫⁻ p in Ioo (0:ℝ) 1 ×ˢ Ioo (0:ℝ) 1, f (bm p)
      = ∫⁻ r in Ioi (0:ℝ), ENNReal.ofReal (r * exp (-(r ^ 2) / 2)) *
          ∫⁻ θ in Ioo (-π) π, ENNReal.ofReal (2 * π)⁻¹ * f (-(r * cos θ), -(r * sin θ)) := by
    rw [Measure.volume_eq_prod, ← Measure.prod_restrict, lintegral_prod (fun p => f (bm p)) (hf.comp bm_meas).aemeasurable]
    rw [radius_subst (fun a => ∫⁻ b in Ioo (0:ℝ) 1, f (bm (a, b)))]
    apply setLIntegral_congr_fun measurableSet_Ioi
    intro r hr
    have hr' : (0:ℝ) < r := hr
    simp only
    congr 1
    have hsq : √(-2 * log (exp (-(r ^ 2) / 2))) = r := by
      rw [log_exp]
      have : -2 * (-(r ^ 2) / 2) = r ^ 2 := by ring
      rw [this, sqrt_sq hr'.le]
    have := angle_subst (fun t => f (r * cos t, r * sin t))
    simp only [bm, hsq]
    rw [this]
    apply lintegral_congr; intro θ
    rw [cos_add_pi, sin_add_pi, mul_neg, mul_neg]
  have hR : ∫⁻ z, f z * ENNReal.ofReal (gauss2 z)
      = ∫⁻ r in Ioi (0:ℝ), ENNReal.ofReal (r * exp (-(r ^ 2) / 2)) *
          ∫⁻ θ in Ioo (-π) π, ENNReal.ofReal (2 * π)⁻¹ * f (-(r * cos θ), -(r * sin θ)) := by
    have hg : Measurable fun z : ℝ × ℝ => f z * ENNReal.ofReal (gauss2 z) := by
      unfold gauss2; fun_prop
    rw [← lintegral_neg_eq_self, ← lintegral_comp_polarCoord_symm, polarCoord_target,
      Measure.volume_eq_prod, ← Measure.prod_restrict, lintegral_prod]
    · apply setLIntegral_congr_fun measurableSet_Ioi
      intro r hr
      have hr' : (0:ℝ) < r := hr
      simp only
      rw [← lintegral_const_mul]
      · apply lintegral_congr; intro θ
        have hgz : gauss2 (-(polarCoord.symm (r, θ))) = (2 * π)⁻¹ * exp (-(r ^ 2) / 2) := by
          simp only [gauss2, polarCoord_symm_apply, Prod.neg_mk, Prod.fst, Prod.snd]
          congr 2
          have := cos_sq_add_sin_sq θ
          nlinarith [this]
        rw [hgz]
        simp only [polarCoord_symm_apply, Prod.neg_mk, smul_eq_mul]
        rw [ENNReal.ofReal_mul hr'.le, ENNReal.ofReal_mul (by positivity)]
        ring
      · have : Measurable fun θ : ℝ => f (-(r * cos θ), -(r * sin θ)) := by fun_prop
        fun_prop
    · apply Measurable.aemeasurable
      have : Measurable fun p : ℝ × ℝ => f (-(polarCoord.symm p)) * ENNReal.ofReal (gauss2 (-(polarCoord.symm p))) := by
        have hm : Measurable fun p : ℝ × ℝ => -(polarCoord.symm p) := by
          have : (fun p : ℝ × ℝ => -(polarCoord.symm p)) = fun p => (-(p.1 * cos p.2), -(p.1 * sin p.2)) := by
            funext p; simp [polarCoord_symm_apply]
          rw [this]; fun_prop
        exact hg.comp hm
      fun_prop
  rw [hL, hR]

/-- the same for the model's `boxMuller` (what `gaussianAt` evaluates) -/
theorem boxMuller_law_model (f : ℝ × ℝ → ℝ≥0∞) (hf : Measurable f) :
    ∫⁻ p in Ioo (0:ℝ) 1 ×ˢ Ioo (0:ℝ) 1, f (boxMuller p.1 p.2) = ∫⁻ z, f z * ENNReal.ofReal (gauss2 z) := by
  rw [← boxMuller_law f hf]
  apply lintegral_congr; intro p
  rw [box_muller_polar]
  simp only [bm, mul_comm]

end Momtrop.C13
