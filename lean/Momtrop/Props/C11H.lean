import Momtrop.Props.C11
import Momtrop.Props.C09
/-!
# C11: homogeneity of `U = det L` (degree `L`) and of `V` (degree 1) in the Feynman parameters
These discharge the homogeneity hypotheses of `gauge_invariant` for the Symanzik side.
-/

namespace Momtrop.C11
open Momtrop Scalar Matrix

variable {E L : ℕ}

/-- `L` is homogeneous of degree 1 in the Feynman parameters -/
theorem lMat_smul (S : Matrix (Fin E) (Fin L) ℝ) (x : Fin E → ℝ) (s : ℝ) :
    lMat S (fun e => s * x e) = s • lMat S x := by
  ext i j
  rw [lMat_apply, Matrix.smul_apply, lMat_apply, smul_eq_mul, Finset.mul_sum]
  apply Finset.sum_congr rfl; intro e _; ring

/-- **`U = det L` is homogeneous of degree `L`** (the number of loops) -/
theorem det_lMat_smul (S : Matrix (Fin E) (Fin L) ℝ) (x : Fin E → ℝ) (s : ℝ) :
    (lMat S (fun e => s * x e)).det = s ^ L * (lMat S x).det := by
  rw [lMat_smul, det_smul, Fintype.card_fin]

/-- `u` is homogeneous of degree 1 -/
theorem uVec_smul (S : Matrix (Fin E) (Fin L) ℝ) (x p : Fin E → ℝ) (s : ℝ) :
    uVec S (fun e => s * x e) p = s • uVec S x p := by
  funext l
  rw [uVec_apply, Pi.smul_apply, uVec_apply, smul_eq_mul, Finset.mul_sum]
  apply Finset.sum_congr rfl; intro e _; ring

/-- **`V` is homogeneous of degree 1**: with `L⁻¹` replaced by `s⁻¹·L⁻¹` (the inverse of the rescaled `L`) -/
theorem Vabs_smul (S : Matrix (Fin E) (Fin L) ℝ) (x p : Fin E → ℝ) (Li : Matrix (Fin L) (Fin L) ℝ) (s : ℝ) (hs : s ≠ 0) :
    C09.Vabs S (fun e => s * x e) p (s⁻¹ • Li) = s * C09.Vabs S x p Li := by
  unfold C09.Vabs
  rw [uVec_smul]
  have h1 : p ⬝ᵥ (diagonal (fun e => s * x e) *ᵥ p) = s * (p ⬝ᵥ (diagonal x *ᵥ p)) := by
    simp only [dotProduct, mulVec_diagonal, Finset.mul_sum]
    apply Finset.sum_congr rfl; intro e _; ring
  have h2 : (s • uVec S x p) ⬝ᵥ ((s⁻¹ • Li) *ᵥ (s • uVec S x p)) = s * (uVec S x p ⬝ᵥ (Li *ᵥ uVec S x p)) := by
    rw [smul_mulVec, mulVec_smul, smul_dotProduct, dotProduct_smul, dotProduct_smul]
    simp only [smul_eq_mul]
    field_simp
  rw [h1, h2]; ring

/-- the inverse of the rescaled `L` matrix is `s⁻¹·L⁻¹` -/
theorem lMat_smul_inv (S : Matrix (Fin E) (Fin L) ℝ) (x : Fin E → ℝ) (Li : Matrix (Fin L) (Fin L) ℝ) (s : ℝ)
    (hs : s ≠ 0) (hinv : lMat S x * Li = 1) : lMat S (fun e => s * x e) * (s⁻¹ • Li) = 1 := by
  rw [lMat_smul, Matrix.smul_mul, Matrix.mul_smul, hinv, smul_smul, mul_inv_cancel₀ hs, one_smul]

end Momtrop.C11
