import Momtrop.Props.C15
import Momtrop.Proofs.PosDef
/-!
# C15 for every symmetric positive-definite matrix (the property's own hypothesis)

`pivotsPos_of_posDef`: a positive-definite matrix has all Cholesky pivots positive (the leading block of size
`k+1` factors as `R·diag(1,…,1,piv_k)·Rᵀ` with `R` lower triangular with positive diagonal, and its
determinant is positive). Hence every C15 theorem holds under `PosDef` alone, for every dimension `n`.
-/
namespace Momtrop.C15
open Momtrop Scalar Matrix

theorem symmOn_of_posDef (A : Mat ℝ) (n : Nat) (hpd : (M n A).PosDef) : SymmOn A n := by
  intro i j hi hj
  have := congrFun (congrFun hpd.1 ⟨i, hi⟩) ⟨j, hj⟩
  simpa [M_apply, Matrix.conjTranspose_apply] using this.symm

/-- **C15, full statement in exact arithmetic.** For every symmetric positive-definite matrix of any dimension
the routine returns `Ok` (with or without the stability test, any tolerance `≥ 0`), `q_transposed` is upper
triangular with positive diagonal and `q_transposedᵀ q_transposed = A`, `q_transposed_inverse` is its inverse,
`inverse = A⁻¹` and `determinant = det A`. -/
theorem decompose_correct_of_posDef (A : Mat ℝ) (n : Nat) (hpd : (M n A).PosDef) :
    decompose n A none = .ok (result A n) ∧
    (∀ t : ℝ, 0 ≤ t → decompose n A (some t) = .ok (result A n)) ∧
    (M n (result A n).qT).transpose * M n (result A n).qT = M n A ∧
    (∀ i j : Fin n, (j < i → M n (result A n).qT i j = 0) ∧ 0 < M n (result A n).qT i i) ∧
    M n (result A n).qTInv * M n (result A n).qT = 1 ∧
    M n (result A n).inverse = (M n A)⁻¹ ∧
    (result A n).determinant = (M n A).det := by
  have hp := pivotsPos_of_posDef A n hpd
  have hs := symmOn_of_posDef A n hpd
  exact ⟨decompose_none A n hp, fun t ht => decompose_ok_of_pivotsPos A n hp hs t ht, factor_correct A n hp hs,
    fun i j => factor_upper_pos A n hp i j, qTInv_correct A n hp, (inverse_correct A n hp hs).2,
    determinant_correct A n hp hs⟩

end Momtrop.C15
