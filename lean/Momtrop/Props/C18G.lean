import Momtrop.Model.SerdeG
import Momtrop.Generated.SerdeSchema
/-!
# C18, schema-generic: the derive round trip is the identity for EVERY schema

* `dec_enc` (+ `_list`, `_fields`): for every schema `S`, every type and every well-typed value, `dec (enc d) = some d`.
* `generated_schema_ok`: the schema **regenerated from `/repo/src` on every run** has only modelled field types, resolvable struct
  references, no `#[serde(..)]` attribute on any field or struct, no manual `Serialize`/`Deserialize` impl, and contains the root struct
  `SampleGenerator`. (A field order change, a rename or a new plain field keeps this true — and keeps the round trip the identity; a
  `skip`, `with`, `default`, `skip_serializing_if`, a manual impl or an unmodelled field type makes it false.)
* `roundtrip_generated`, `observation_after_roundtrip`: hence every sampler value of the current source round-trips, and so does every
  function of it (dimension, dod, table, every sample at every point).
* `default_inhabits`: non-vacuity — the generated root type has a well-typed value (built by `defaultOf`).
-/
namespace Momtrop.C18G
open Momtrop.SerdeG

mutual
theorem dec_enc (S : Schema) : ∀ (ty : Ty) (d : Data), hasTy S ty d = true → dec S ty (enc S ty d) = some d
  | .nat, .nat _, _ => rfl
  | .int, .int _, _ => rfl
  | .f64, .f64 _, _ => rfl
  | .bool, .bool _, _ => rfl
  | .seq t, .seq l, h => by
    simp only [hasTy] at h
    simp only [enc, dec, dec_enc_list S t l h, Option.map_some]
  | .struct name, .record l, h => by
    simp only [hasTy] at h
    cases hl : lookup S name with
    | none => simp [hl] at h
    | some fs =>
      simp only [hl] at h
      simp only [enc, dec, hl, dec_enc_fields S fs l h, Option.map_some]
  | .nat, .int _, h | .nat, .f64 _, h | .nat, .bool _, h | .nat, .seq _, h | .nat, .record _, h => by simp [hasTy] at h
  | .int, .nat _, h | .int, .f64 _, h | .int, .bool _, h | .int, .seq _, h | .int, .record _, h => by simp [hasTy] at h
  | .f64, .nat _, h | .f64, .int _, h | .f64, .bool _, h | .f64, .seq _, h | .f64, .record _, h => by simp [hasTy] at h
  | .bool, .nat _, h | .bool, .int _, h | .bool, .f64 _, h | .bool, .seq _, h | .bool, .record _, h => by simp [hasTy] at h
  | .seq _, .nat _, h | .seq _, .int _, h | .seq _, .f64 _, h | .seq _, .bool _, h | .seq _, .record _, h => by simp [hasTy] at h
  | .struct _, .nat _, h | .struct _, .int _, h | .struct _, .f64 _, h | .struct _, .bool _, h | .struct _, .seq _, h => by simp [hasTy] at h
  | .other _, _, h => by simp [hasTy] at h
theorem dec_enc_list (S : Schema) : ∀ (t : Ty) (l : DataList), hasTyList S t l = true → decList S t (encList S t l) = some l
  | _, .nil, _ => rfl
  | t, .cons d rest, h => by
    simp only [hasTyList, Bool.and_eq_true] at h
    simp only [encList, decList, dec_enc S t d h.1, dec_enc_list S t rest h.2]
theorem dec_enc_fields (S : Schema) : ∀ (fs : Fields) (l : DataList), hasTyFields S fs l = true →
    decFields S fs (encFields S fs l) = some l
  | [], .nil, _ => rfl
  | (k, t) :: fs, .cons d rest, h => by
    simp only [hasTyFields, Bool.and_eq_true] at h
    simp only [encFields, decFields, if_true, dec_enc S t d h.1, dec_enc_fields S fs rest h.2]
  | [], .cons _ _, h => by simp [hasTyFields] at h
  | _ :: _, .nil, h => by simp [hasTyFields] at h
end

open Momtrop.Generated in
/-- the conditions under which the derive semantics modelled by `enc`/`dec` is what the source asks for -/
theorem generated_schema_ok :
    schemaOk typedSchema = true ∧ fieldAttrs = [] ∧ serdeCustomisations = [] ∧
    (lookup typedSchema "SampleGenerator").isSome = true ∧ serdeBoth = typedSchema.map (·.1) := by
  decide

open Momtrop.Generated in
/-- **Round trip for the current source**: every value of the regenerated `SampleGenerator` type deserialises to itself -/
theorem roundtrip_generated (d : Data) (h : hasTy typedSchema (.struct "SampleGenerator") d = true) :
    dec typedSchema (.struct "SampleGenerator") (enc typedSchema (.struct "SampleGenerator") d) = some d :=
  dec_enc typedSchema _ d h

open Momtrop.Generated in
/-- consequently any observation of the restored sampler equals that of the original -/
theorem observation_after_roundtrip {β : Type} (observe : Data → β) (d : Data)
    (h : hasTy typedSchema (.struct "SampleGenerator") d = true) :
    (dec typedSchema (.struct "SampleGenerator") (enc typedSchema (.struct "SampleGenerator") d)).map observe = some (observe d) := by
  rw [roundtrip_generated d h]; rfl

def dataListOf : List Data → DataList
  | [] => .nil
  | d :: ds => .cons d (dataListOf ds)

/-- a default value of a type (zeros, `false`, a negative integer, one-element sequences); fuel bounds the nesting depth -/
def defaultOf (S : Schema) : Nat → Ty → Data
  | 0, _ => .nat 0
  | _ + 1, .nat => .nat 0
  | _ + 1, .int => .int (-1)
  | _ + 1, .f64 => .f64 0
  | _ + 1, .bool => .bool false
  | n + 1, .seq t => .seq (.cons (defaultOf S n t) .nil)
  | n + 1, .struct name =>
    match lookup S name with
    | some fs => .record (dataListOf (fs.map fun f => defaultOf S n f.2))
    | none => .record .nil
  | _ + 1, .other _ => .nat 0

open Momtrop.Generated in
/-- non-vacuity: the regenerated root type is inhabited by a well-typed value (with non-empty sequences and a negative integer) -/
theorem default_inhabits : hasTy typedSchema (.struct "SampleGenerator") (defaultOf typedSchema 8 (.struct "SampleGenerator")) = true := by
  decide

end Momtrop.C18G
