import Momtrop.Props.C13BM
import Mathlib.Probability.Distributions.Gaussian.Real
import Mathlib.MeasureTheory.Constructions.Pi
/-!
# C13, the joint law: "each component is standard normal and components are independent"

`C13BM.boxMuller_law` is the Box–Muller theorem for ONE coordinate pair, as an identity of integrals. Here it is turned into
statements about measures, and lifted to any number `n` of pairs:

* `map_bm`            : the image of the uniform law on the open unit square under Box–Muller is the measure with density `gauss2`;
* `gaussPair_eq_prod` : that measure is `N(0,1) ⊗ N(0,1)` for Mathlib's `gaussianReal 0 1` — each of the two values is standard
                        normal and the two are independent;
* `joint_law`         : for `n` pairs read from `2n` DIFFERENT coordinates, the image of the uniform law on the open unit cube
                        `((0,1)²)ⁿ` under the pairwise Box–Muller map is the product measure `⊗ⁿ (N(0,1) ⊗ N(0,1))`:
                        all `2n` components are independent standard normals;
* `drop_last_sine`    : discarding the second value of a pair leaves `N(0,1)` (the `D·L` odd case).
-/
open MeasureTheory Real Set ProbabilityTheory
open scoped ENNReal NNReal

namespace Momtrop.C13

/-- the open unit square `(0,1)²` -/
def sq : Set (ℝ × ℝ) := Ioo (0:ℝ) 1 ×ˢ Ioo (0:ℝ) 1

/-- the measure on `ℝ²` with density `gauss2` -/
noncomputable def gaussPair : Measure (ℝ × ℝ) := volume.withDensity fun z => ENNReal.ofReal (gauss2 z)

theorem gauss2_meas : Measurable fun z : ℝ × ℝ => ENNReal.ofReal (gauss2 z) := by
  unfold gauss2
  fun_prop

/-- Box–Muller as an identity of measures -/
theorem map_bm : Measure.map bm (volume.restrict sq) = gaussPair := by
  ext s hs
  rw [Measure.map_apply bm_meas hs, gaussPair, withDensity_apply _ hs]
  have h := boxMuller_law (s.indicator fun _ => 1) (measurable_const.indicator hs)
  have h1 : ∫⁻ p in sq, s.indicator (fun _ => (1:ℝ≥0∞)) (bm p) = (volume.restrict sq) (bm ⁻¹' s) := by
    have : (fun p => s.indicator (fun _ => (1:ℝ≥0∞)) (bm p)) = (bm ⁻¹' s).indicator fun _ => 1 := by
      ext p; simp only [indicator, mem_preimage]; rfl
    rw [this, lintegral_indicator (bm_meas hs)]
    simp
  have h2 : ∫⁻ z, s.indicator (fun _ => (1:ℝ≥0∞)) z * ENNReal.ofReal (gauss2 z)
      = ∫⁻ z in s, ENNReal.ofReal (gauss2 z) := by
    rw [← lintegral_indicator hs]
    apply lintegral_congr; intro z
    by_cases hz : z ∈ s <;> simp [indicator, hz]
  rw [← h1, ← h2]
  exact h

/-- the density `gauss2` is the product of two standard normal densities -/
theorem gauss2_eq (z : ℝ × ℝ) :
    ENNReal.ofReal (gauss2 z) = gaussianPDF 0 1 z.1 * gaussianPDF 0 1 z.2 := by
  unfold gaussianPDF gaussianPDFReal gauss2
  rw [← ENNReal.ofReal_mul (by positivity)]
  congr 1
  have hpi : (0:ℝ) ≤ 2 * π := by positivity
  simp only [NNReal.coe_one, mul_one, sub_zero]
  rw [show (√(2 * π))⁻¹ * rexp (-z.1 ^ 2 / 2) * ((√(2 * π))⁻¹ * rexp (-z.2 ^ 2 / 2))
      = ((√(2 * π))⁻¹ * (√(2 * π))⁻¹) * (rexp (-z.1 ^ 2 / 2) * rexp (-z.2 ^ 2 / 2)) by ring]
  rw [← Real.exp_add, ← mul_inv, Real.mul_self_sqrt hpi]
  congr 2
  ring

/-- one Box–Muller pair: two independent standard normals -/
theorem gaussPair_eq_prod : gaussPair = (gaussianReal 0 1).prod (gaussianReal 0 1) := by
  rw [gaussianReal_of_var_ne_zero 0 one_ne_zero,
    prod_withDensity (measurable_gaussianPDF 0 1) (measurable_gaussianPDF 0 1), gaussPair, Measure.volume_eq_prod]
  congr 1
  funext z
  exact gauss2_eq z

instance : IsProbabilityMeasure gaussPair := by
  rw [gaussPair_eq_prod]; infer_instance

/-- **Joint law of `n` Box–Muller pairs.** The image of the uniform law on the open unit cube `((0,1)²)ⁿ` under the map that applies
Box–Muller to each of `n` disjoint coordinate pairs is the product of `n` copies of `N(0,1) ⊗ N(0,1)`: the `2n` Gaussian
components are independent standard normals. -/
theorem joint_law (n : ℕ) :
    Measure.map (fun (p : Fin n → ℝ × ℝ) i => bm (p i)) (volume.restrict (univ.pi fun _ => sq))
      = Measure.pi fun _ : Fin n => (gaussianReal 0 1).prod (gaussianReal 0 1) := by
  rw [volume_pi, Measure.restrict_pi_pi]
  have hσ : ∀ _ : Fin n, SigmaFinite (Measure.map bm ((volume : Measure (ℝ × ℝ)).restrict sq)) := fun _ => by
    rw [map_bm]; infer_instance
  rw [Measure.pi_map_pi (μ := fun _ : Fin n => (volume : Measure (ℝ × ℝ)).restrict sq) (f := fun _ => bm)
    (hμ := hσ) (fun _ => bm_meas.aemeasurable)]
  simp only [map_bm, gaussPair_eq_prod]

/-- the same as an identity of integrals: for every measurable test function of all `2n` components -/
theorem joint_law_lintegral (n : ℕ) (f : (Fin n → ℝ × ℝ) → ℝ≥0∞) (hf : Measurable f) :
    ∫⁻ p in univ.pi fun _ : Fin n => sq, f (fun i => bm (p i))
      = ∫⁻ z, f z ∂(Measure.pi fun _ : Fin n => (gaussianReal 0 1).prod (gaussianReal 0 1)) := by
  rw [← joint_law n, lintegral_map hf]
  exact measurable_pi_lambda _ fun i => bm_meas.comp (measurable_pi_apply i)

/-- `D·L` odd: the discarded last sine leaves a standard normal cosine -/
theorem drop_last_sine : Measure.map Prod.fst gaussPair = gaussianReal 0 1 := by
  rw [gaussPair_eq_prod, Measure.map_fst_prod]
  simp

theorem boxMuller_eq_bm (p : ℝ × ℝ) : boxMuller p.1 p.2 = bm p := by
  rw [box_muller_polar]
  simp only [bm, mul_comm]

/-- the model's own `boxMuller` (what the driver runs, at `α := ℝ`) is `bm` -/
theorem joint_law_model (n : ℕ) :
    Measure.map (fun (p : Fin n → ℝ × ℝ) i => boxMuller (p i).1 (p i).2) (volume.restrict (univ.pi fun _ => sq))
      = Measure.pi fun _ : Fin n => (gaussianReal 0 1).prod (gaussianReal 0 1) := by
  have : (fun (p : Fin n → ℝ × ℝ) i => boxMuller (p i).1 (p i).2) = fun p i => bm (p i) := by
    funext p i
    exact boxMuller_eq_bm (p i)
  rw [this, joint_law]

/-- non-vacuity: the cube has measure one (it carries the uniform law) -/
example : (volume : Measure (Fin 3 → ℝ × ℝ)) (univ.pi fun _ => sq) = 1 := by
  rw [volume_pi, Measure.pi_pi]
  simp [sq, Measure.volume_eq_prod, Measure.prod_prod]

/-! ### All `D·L` components at once: independent standard normals, in the model's own numbering -/

/-- component `b` of a pair (`false` = cosine value, `true` = sine value) -/
def pick (w : ℝ × ℝ) (b : Bool) : ℝ := if b then w.2 else w.1

/-- select components of a family of pairs: output index `k` reads component `(g k).2` of pair `(g k).1` -/
def sel {ι κ : Type*} (g : κ → ι × Bool) (z : ι → ℝ × ℝ) : κ → ℝ := fun k => pick (z (g k).1) (g k).2

theorem sel_meas {ι κ : Type*} (g : κ → ι × Bool) : Measurable (sel g) := by
  refine measurable_pi_lambda _ fun k => ?_
  unfold sel pick
  split
  · exact measurable_snd.comp (measurable_pi_apply _)
  · exact measurable_fst.comp (measurable_pi_apply _)

/-- **Selecting distinct components of independent pairs gives independent components.** For every injective selection
`g` (no component is read twice) the image of `⊗_ι (N ⊗ N)` is `⊗_κ N`. Covers the full flattening `(ℝ²)ⁿ → ℝ²ⁿ` and the
marginal that forgets the last sine. -/
theorem map_sel {ι κ : Type*} [Fintype ι] [Fintype κ] [DecidableEq ι] (N : Measure ℝ) [IsProbabilityMeasure N]
    (g : κ → ι × Bool) (hg : Function.Injective g) :
    Measure.map (sel g) (Measure.pi fun _ : ι => N.prod N) = Measure.pi fun _ : κ => N := by
  symm
  refine Measure.pi_eq fun s hs => ?_
  classical
  -- the constraint the box puts on component `p`
  let C : ι × Bool → Set ℝ := fun p => {x | ∀ k, g k = p → x ∈ s k}
  have hCg : ∀ k, C (g k) = s k := by
    intro k; ext x
    constructor
    · intro h; exact h k rfl
    · intro h k' hk'; rw [hg hk']; exact h
  have hCuniv : ∀ p, p ∉ Set.range g → C p = univ := by
    intro p hp; ext x
    simp only [C, mem_setOf_eq, mem_univ, iff_true]
    intro k hk; exact absurd ⟨k, hk⟩ hp
  have hpre : sel g ⁻¹' (univ.pi s) = univ.pi fun i => C (i, false) ×ˢ C (i, true) := by
    ext z
    simp only [mem_preimage, mem_univ_pi, mem_prod, C, mem_setOf_eq, sel, pick]
    constructor
    · intro h i
      constructor
      · intro k hk; have := h k; rw [hk] at this; simpa using this
      · intro k hk; have := h k; rw [hk] at this; simpa using this
    · intro h k
      rcases hgk : g k with ⟨i, b⟩
      cases b
      · simpa using (h i).1 k hgk
      · simpa using (h i).2 k hgk
  rw [Measure.map_apply (sel_meas g) (MeasurableSet.univ_pi hs), hpre, Measure.pi_pi]
  simp only [Measure.prod_prod]
  rw [Finset.prod_mul_distrib]
  -- ∏ over pairs of both components = ∏ over ι × Bool
  have hsplit : (∏ i : ι, N (C (i, false))) * ∏ i : ι, N (C (i, true)) = ∏ p : ι × Bool, N (C p) := by
    rw [Fintype.prod_prod_type, ← Finset.prod_mul_distrib]
    apply Finset.prod_congr rfl
    intro i _
    rw [Fintype.prod_bool, mul_comm]
  rw [hsplit]
  -- outside the range of `g` the factor is `N univ = 1`
  have hsub : ∏ p : ι × Bool, N (C p) = ∏ p ∈ Finset.univ.map ⟨g, hg⟩, N (C p) := by
    symm
    apply Finset.prod_subset (Finset.subset_univ _)
    intro p _ hp
    have : p ∉ Set.range g := by
      intro ⟨k, hk⟩
      exact hp (Finset.mem_map.mpr ⟨k, Finset.mem_univ _, hk⟩)
    rw [hCuniv p this]; simp
  rw [hsub, Finset.prod_map]
  simp only [Function.Embedding.coeFn_mk, hCg]

/-- the model's numbering: Gaussian number `j` is component `j % 2` of pair `j / 2` (`Model.gaussianAt`) -/
def numbering (n m : ℕ) (h : m ≤ 2 * n) (j : Fin m) : Fin n × Bool :=
  (⟨j.val / 2, by have := j.isLt; omega⟩, decide (j.val % 2 = 1))

theorem numbering_inj (n m : ℕ) (h : m ≤ 2 * n) : Function.Injective (numbering n m h) := by
  intro a b hab
  simp only [numbering, Prod.mk.injEq, Fin.mk.injEq, decide_eq_decide] at hab
  apply Fin.ext
  omega

/-- **C13, "Hence" clause, every `D·L`.** The first `m ≤ 2n` Gaussian numbers produced from `n` coordinate pairs (`m = D·L`,
`n = ⌈D·L/2⌉`; for odd `D·L` the last sine is not among them) are independent standard normals when the `2n` coordinates are
independent and uniform on `(0,1)`: their joint law is `⊗ᵐ N(0,1)`. -/
theorem components_iid (n m : ℕ) (h : m ≤ 2 * n) :
    Measure.map (fun (p : Fin n → ℝ × ℝ) (j : Fin m) => pick (bm (p (numbering n m h j).1)) (numbering n m h j).2)
        (volume.restrict (univ.pi fun _ => sq))
      = Measure.pi fun _ : Fin m => gaussianReal 0 1 := by
  have hcomp : (fun (p : Fin n → ℝ × ℝ) (j : Fin m) => pick (bm (p (numbering n m h j).1)) (numbering n m h j).2)
      = sel (numbering n m h) ∘ fun p i => bm (p i) := rfl
  have hm : Measurable fun (p : Fin n → ℝ × ℝ) i => bm (p i) :=
    measurable_pi_lambda _ fun i => bm_meas.comp (measurable_pi_apply i)
  rw [hcomp, ← Measure.map_map (sel_meas _) hm, joint_law, map_sel _ _ (numbering_inj n m h)]

/-- tie to the executable model: on a coordinate list whose entries `2i`, `2i+1` (after `base`) are the pair `p i`, the model's
`gaussianAt` returns exactly the component used in `components_iid` -/
theorem gaussianAt_of_pairs (n m : ℕ) (h : m ≤ 2 * n) (p : Fin n → ℝ × ℝ) (xs : List ℝ) (base : ℕ)
    (hx : ∀ i : Fin n, xs[base + 2 * i.val]? = some (p i).1 ∧ xs[base + 2 * i.val + 1]? = some (p i).2) (j : Fin m) :
    gaussianAt xs base j.val = some (pick (bm (p (numbering n m h j).1)) (numbering n m h j).2) := by
  have hi := hx (numbering n m h j).1
  simp only [numbering] at hi ⊢
  unfold gaussianAt
  rw [hi.1, hi.2]
  simp only [pick, boxMuller_eq_bm]
  by_cases hj : j.val % 2 = 0
  · have : ¬ j.val % 2 = 1 := by omega
    simp [hj, this]
  · have : j.val % 2 = 1 := by omega
    simp [this]

/-- non-vacuity of `components_iid` for `D = 3`, `L = 1` (three numbers from two pairs) -/
example : numbering 2 3 (by norm_num) ⟨2, by norm_num⟩ = (⟨1, by norm_num⟩, false) := by decide

end Momtrop.C13
