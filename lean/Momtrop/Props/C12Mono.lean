import Momtrop.Props.C12
import Mathlib.Order.Monotone.Basic
import Mathlib.Data.Real.Basic
import Mathlib.Tactic.Linarith
/-!
# C12, the "hence monotone in p up to that tolerance" clause

`monotone_up_to_tol`: for ANY strictly increasing `F` (here `P(a,·)`, the regularised lower incomplete gamma function) and any
function `lam` whose values satisfy `|F (lam p) − p| ≤ t`, `p₁ + 2t < p₂` forces `lam p₁ < lam p₂`. So the accuracy bound (decided
numerically, mpmath oracle) implies monotonicity of the returned quantile outside a `2t` window — the implication the property states.
-/
namespace Momtrop.C12

theorem monotone_up_to_tol (F lam : ℝ → ℝ) (hF : StrictMono F) (t : ℝ) (p₁ p₂ : ℝ)
    (h₁ : |F (lam p₁) - p₁| ≤ t) (h₂ : |F (lam p₂) - p₂| ≤ t) (hp : p₁ + 2 * t < p₂) :
    lam p₁ < lam p₂ := by
  have a1 := (abs_le.mp h₁).2
  have a2 := (abs_le.mp h₂).1
  have : F (lam p₁) < F (lam p₂) := by linarith
  exact hF.lt_iff_lt.mp this

/-- and the returned quantile never decreases by more than the tolerance allows: `p₁ ≤ p₂` gives `F(lam p₁) ≤ F(lam p₂) + 2t` -/
theorem cdf_of_quantile_almost_monotone (F lam : ℝ → ℝ) (t : ℝ) (p₁ p₂ : ℝ)
    (h₁ : |F (lam p₁) - p₁| ≤ t) (h₂ : |F (lam p₂) - p₂| ≤ t) (hp : p₁ ≤ p₂) :
    F (lam p₁) ≤ F (lam p₂) + 2 * t := by
  have a1 := (abs_le.mp h₁).2
  have a2 := (abs_le.mp h₂).1
  linarith

end Momtrop.C12
