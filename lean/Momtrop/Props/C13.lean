import Momtrop.Model.Sample
import Momtrop.Proofs.RealInst
/-!
# C13 — Gaussian vectors are the Box–Muller transform of their designated coordinates

`S`: which coordinates feed which component, for every `D`, `L` and scalar type.
`R`: the Box–Muller identities in exact arithmetic. That the pair is standard normal and independent
for a uniform point is the Box–Muller theorem (cited, not formalised).
-/
namespace Momtrop.C13
open Momtrop Scalar

section S
variable {α : Type} [Scalar α]

/-- `box_muller(a, b) = (cos(2π b)·r, sin(2π b)·r)` with `r = sqrt(−2·ln a)`, in the code's operation order -/
theorem boxMuller_def (a b : α) :
    boxMuller a b = (cos ((ofInt 2 : α) * pi * b) * sqrt (-(ofInt 2 : α) * ln a),
                     sin ((ofInt 2 : α) * pi * b) * sqrt (-(ofInt 2 : α) * ln a)) := rfl

/-- Gaussian number `n` (counted through all loop vectors) is the cosine branch (even `n`) or the sine
branch (odd `n`) of pair `⌊n/2⌋`, i.e. of coordinates `base + 2⌊n/2⌋` and `base + 2⌊n/2⌋ + 1`. -/
theorem gaussianAt_def (xs : List α) (base n : Nat) (a b : α)
    (ha : xs[base + 2 * (n / 2)]? = some a) (hb : xs[base + 2 * (n / 2) + 1]? = some b) :
    gaussianAt xs base n = some (if n % 2 = 0 then (boxMuller a b).1 else (boxMuller a b).2) := by
  unfold gaussianAt; rw [ha, hb]

theorem mapM_some_getElem {β γ : Type} (f : β → Option γ) :
    ∀ (l : List β) (r : List γ), l.mapM f = some r →
      r.length = l.length ∧ ∀ i (hi : i < l.length) (hr : i < r.length), f l[i] = some r[i] := by
  intro l
  induction l with
  | nil => intro r h; simp at h; subst h; exact ⟨rfl, fun i hi => absurd hi (by simp)⟩
  | cons x xs ih =>
    intro r h
    rw [List.mapM_cons] at h
    cases hx : f x with
    | none => simp [hx] at h
    | some y =>
      cases hxs : xs.mapM f with
      | none => simp [hx, hxs] at h
      | some ys =>
        simp [hx, hxs] at h
        subst h
        obtain ⟨hl, hg⟩ := ih ys hxs
        refine ⟨by simp [hl], ?_⟩
        intro i hi hr
        cases i with
        | zero => simpa using hx
        | succ j => simpa using hg j (by simpa using hi) (by simpa using hr)

/-- **Pairing across loop vectors**: component `i` of loop vector `l` is Gaussian number `l·D + i`;
there are exactly `L` vectors of `D` components. -/
theorem qVectors_component (xs : List α) (base D L : Nat) (q : List (Vec α))
    (h : qVectors xs base D L = some q) :
    q.length = L ∧ ∀ l (hl : l < L) (hq : l < q.length), q[l].length = D ∧
      ∀ i (hi : i < D) (hv : i < q[l].length), gaussianAt xs base (l * D + i) = some (q[l])[i] := by
  unfold qVectors at h
  obtain ⟨hlen, hrows⟩ := mapM_some_getElem _ _ _ h
  simp only [List.length_range] at hlen
  refine ⟨hlen, ?_⟩
  intro l hl hq
  have hrow := hrows l (by simpa using hl) hq
  simp only [List.getElem_range] at hrow
  obtain ⟨hlen2, hcomp⟩ := mapM_some_getElem _ _ _ hrow
  simp only [List.length_range] at hlen2
  refine ⟨hlen2, ?_⟩
  intro i hi hv
  have := hcomp i (by simpa using hi) hv
  simpa using this

/-- the number of coordinates the Gaussians consume: `D·L`, plus one when `D·L` is odd (the last sine is
produced and dropped) -/
theorem qReads_def (D L : Nat) : qReads D L = D * L + (D * L) % 2 := rfl

/-- every pair used lies inside the `qReads` coordinates after `base` -/
theorem pair_in_range (D L n : Nat) (hn : n < D * L) : 2 * (n / 2) + 1 < qReads D L := by
  unfold qReads; omega

end S

section R

/-- **Box–Muller radius** (exact arithmetic): for `a ∈ (0,1]`, `z₁² + z₂² = −2·ln a`. -/
theorem box_muller_radius (a b : ℝ) (ha0 : 0 < a) (ha1 : a ≤ 1) :
    (boxMuller a b).1 ^ 2 + (boxMuller a b).2 ^ 2 = -2 * Real.log a := by
  have hnn : 0 ≤ -2 * Real.log a := by
    have := Real.log_nonpos ha0.le ha1
    nlinarith
  simp only [boxMuller_def, ofInt_real, pi_real, cos_real, sin_real, sqrt_real, ln_real]
  push_cast
  have hs : Real.sqrt (-2 * Real.log a) ^ 2 = -2 * Real.log a := Real.sq_sqrt hnn
  have hcs := Real.cos_sq_add_sin_sq (2 * Real.pi * b)
  calc (Real.cos (2 * Real.pi * b) * Real.sqrt (-2 * Real.log a)) ^ 2
        + (Real.sin (2 * Real.pi * b) * Real.sqrt (-2 * Real.log a)) ^ 2
      = (Real.cos (2 * Real.pi * b) ^ 2 + Real.sin (2 * Real.pi * b) ^ 2) * Real.sqrt (-2 * Real.log a) ^ 2 := by ring
    _ = -2 * Real.log a := by rw [hcs, hs, one_mul]

/-- polar form: `(z₁, z₂) = r·(cos θ, sin θ)` with `r = sqrt(−2 ln a)`, `θ = 2π b` -/
theorem box_muller_polar (a b : ℝ) :
    boxMuller a b = (Real.cos (2 * Real.pi * b) * Real.sqrt (-2 * Real.log a),
                     Real.sin (2 * Real.pi * b) * Real.sqrt (-2 * Real.log a)) := by
  simp only [boxMuller_def, ofInt_real, pi_real, cos_real, sin_real, sqrt_real, ln_real]
  push_cast
  rfl

end R
end Momtrop.C13
