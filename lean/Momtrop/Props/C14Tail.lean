import Momtrop.Props.C14
/-!
# C14: coordinates beyond `get_dimension()` are ignored; the Feynman parameters depend only on the first `2E−2`
-/
namespace Momtrop.C14
open Momtrop Scalar
variable {α : Type} [Scalar α]

theorem chooseEdge_congr (T : STable α) (xs ys : List α) (g : Mask) (cnt : Nat)
    (h : Mask.hasOneEdge g = false → xs[cnt]? = ys[cnt]?) : chooseEdge T xs g cnt = chooseEdge T ys g cnt := by
  unfold chooseEdge
  by_cases h1 : Mask.hasOneEdge g = true
  · simp only [h1, if_true]
  · have h1' : Mask.hasOneEdge g = false := by simpa using h1
    simp only [h1', Bool.false_eq_true, if_false, h h1']

/-- **The removal loop only looks at coordinates `cnt ≤ i < cnt + 2k − 2`** (`k` = number of edges left): two
points that agree there give the same run. -/
theorem permLoop_congr (T : STable α) (xs ys : List α) :
    ∀ (fuel : Nat) (g : Mask) (st : PState α), g < 2 ^ T.numEdges → card T g ≤ fuel →
      (∀ i, st.cnt ≤ i → i + 2 < st.cnt + 2 * card T g → xs[i]? = ys[i]?) →
      permLoop T xs fuel g st = permLoop T ys fuel g st := by
  intro fuel
  induction fuel with
  | zero => intro g st _ _ _; rfl
  | succ fuel ih =>
    intro g st hg hfuel hagree
    unfold permLoop
    by_cases he : Mask.isEmpty g = true
    · simp only [he, if_true]
    · have he' : Mask.isEmpty g = false := by simpa using he
      simp only [he', Bool.false_eq_true, if_false]
      have hcpos : 1 ≤ card T g := by
        have : card T g ≠ 0 := fun h0 => he ((Mask.isEmpty_iff_card hg).mpr h0)
        omega
      have hce : chooseEdge T xs g st.cnt = chooseEdge T ys g st.cnt := by
        apply chooseEdge_congr
        intro hone
        have : card T g ≠ 1 := fun h1 => by
          have := (Mask.hasOneEdge_iff hg).mpr h1; rw [hone] at this; exact absurd this (by simp)
        exact hagree st.cnt (Nat.le_refl _) (by omega)
      rw [← hce]
      cases hc : chooseEdge T xs g st.cnt with
      | none => rfl
      | some r =>
        obtain ⟨e, g', cnt⟩ := r
        simp only
        obtain ⟨hg', hcard, hcnt⟩ := chooseEdge_spec T xs g st.cnt hg e g' cnt hc
        by_cases hz : Mask.isEmpty g' = true
        · simp only [hz, if_true]
        · have hz' : Mask.isEmpty g' = false := by simpa using hz
          simp only [hz', Bool.false_eq_true, if_false]
          have hnz : card T g' ≠ 0 := fun h0 => hz ((Mask.isEmpty_iff_card hg').mpr h0)
          have hxi : xs[cnt]? = ys[cnt]? := by
            apply hagree cnt
            · rcases hcnt with ⟨_, rfl⟩ | ⟨_, rfl⟩ <;> omega
            · rcases hcnt with ⟨h1, rfl⟩ | ⟨h1, rfl⟩ <;> omega
          rw [← hxi]
          cases hx : xs[cnt]? with
          | none => rfl
          | some xi =>
            simp only
            apply ih g' _ hg' (by omega)
            intro i hi1 hi2
            simp only at hi1 hi2
            apply hagree i
            · rcases hcnt with ⟨_, rfl⟩ | ⟨_, rfl⟩ <;> omega
            · rcases hcnt with ⟨h1, rfl⟩ | ⟨h1, rfl⟩ <;> omega

/-- **The Feynman parameters depend only on the first `2E − 2` coordinates** -/
theorem feynman_depends_first (T : STable α) (xs ys : List α)
    (h : ∀ i, i + 2 < 2 * T.numEdges → xs[i]? = ys[i]?) : permutahedral T xs = permutahedral T ys := by
  unfold permutahedral
  have hc : card T (Mask.full T.numEdges) = T.numEdges := by unfold card; rw [Mask.edges_full]; simp
  have key := permLoop_congr T xs ys T.numEdges (Mask.full T.numEdges)
    { kappa := one, x := List.replicate T.numEdges zero, uTr := one, vTr := one, cnt := 0, order := [] }
    (full_lt _) (by rw [hc]; exact Nat.le_refl _)
    (by intro i _ hi; simp only at hi; rw [hc] at hi; exact h i (by omega))
  simp only [key]

theorem mapM_congr_mem {β γ : Type} (f g : β → Option γ) (l : List β) (h : ∀ x ∈ l, f x = g x) :
    l.mapM f = l.mapM g := by
  induction l with
  | nil => rfl
  | cons a as ih =>
    rw [List.mapM_cons, List.mapM_cons, h a List.mem_cons_self, ih (fun x hx => h x (List.mem_cons_of_mem _ hx))]

/-- the Gaussian vectors depend only on the `D·L + (D·L mod 2)` coordinates after `base` -/
theorem qVectors_congr (xs ys : List α) (base D L : Nat)
    (h : ∀ i, base ≤ i → i < base + qReads D L → xs[i]? = ys[i]?) : qVectors xs base D L = qVectors ys base D L := by
  unfold qVectors
  apply mapM_congr_mem
  intro l hl
  apply mapM_congr_mem
  intro i hi
  have hl' : l < L := List.mem_range.mp hl
  have hi' : i < D := List.mem_range.mp hi
  have hn : l * D + i < D * L := by
    calc l * D + i < l * D + D := by omega
      _ = (l + 1) * D := (Nat.succ_mul l D).symm
      _ ≤ L * D := Nat.mul_le_mul_right D hl'
      _ = D * L := Nat.mul_comm L D
  have hp := C13_pair_in_range D L (l * D + i) hn
  apply gaussian_depends_pair
  · exact h _ (by omega) (by omega)
  · exact h _ (by omega) (by omega)
where
  C13_pair_in_range (D L n : Nat) (hn : n < D * L) : 2 * (n / 2) + 1 < qReads D L := by
    unfold qReads; omega

/-- **Coordinates beyond `get_dimension()` are ignored**: two points that agree on the first
`2E − 1 + D·L + (D·L mod 2)` coordinates give the same sample (same result, same error, same panic). -/
theorem sample_ignores_tail (draw : α → α → Option α) (T : STable α) (D : Nat) (xs ys : List α)
    (S : List (List Int)) (ed : List (Option α × Vec α)) (st : Settings α) (hE : 1 ≤ T.numEdges)
    (hne : xs.isEmpty = ys.isEmpty)
    (h : ∀ i, i + 1 < 2 * T.numEdges + qReads T.dimension T.numLoops → xs[i]? = ys[i]?) :
    sampleCore draw T D xs S ed st = sampleCore draw T D ys S ed st := by
  unfold sampleCore
  rw [hne]
  by_cases hx : ys.isEmpty = true
  · simp only [hx, if_true]
  · simp only [hx, Bool.false_eq_true, if_false]
    have hperm : permutahedral T xs = permutahedral T ys :=
      feynman_depends_first T xs ys (fun i hi => h i (by omega))
    rw [hperm]
    cases hpr : permutahedral T ys with
    | none => rfl
    | some pr =>
      simp only
      have hreads := permutahedral_reads T ys pr hE hpr
      cases hdec : decompose (S.getD 0 []).length (lMatrix pr.x S) st.stability with
      | error e => rfl
      | ok dec =>
        simp only
        rw [h pr.reads (by omega)]
        cases hp : ys[pr.reads]? with
        | none => rfl
        | some p =>
          simp only
          cases hl : draw T.dod p with
          | none => rfl
          | some lam =>
            simp only
            rw [qVectors_congr xs ys (pr.reads + 1) T.dimension T.numLoops (fun i hi1 hi2 => h i (by omega))]

end Momtrop.C14
