import Momtrop.Props.C03
import Momtrop.Props.C04R
/-!
# C03 → C01: the table's generalised degrees of divergence along a removal

`genDod_step` (α := ℝ): for a non-empty subset `g`, an edge `e` of it with `g∖e` non-empty,

  `ω(g) − ω(g∖e) = w_e − (L(g) − L(g∖e))·D/2 − dod·([g spanning] − [g∖e spanning])`

for the `ω`, `L`, spanning flag that the model's `preEntry` (= `generate_from_tropical`) stores. This is the premise
`C01.Consistent` of the sector-density theorem, stated on the table itself; that the loop-number drop is `0` or `1` and that the
spanning flag can only be lost is checked on the implementation's flags for every subset (C03 check).
-/
namespace Momtrop.C03
open Momtrop Scalar

theorem weightSum_real (top : List (TEdge ℝ)) (s : List Nat) :
    weightSum top s = (s.map fun i => match top[i]? with | some t => t.weight | none => (0:ℝ)).sum := by
  unfold weightSum
  rw [sumIter_eq]
  congr 1
  apply List.map_congr_left
  intro i _
  cases top[i]? <;> rfl

/-- removing edge `e` removes exactly its weight from the weight sum -/
theorem weightSum_pop (top : List (TEdge ℝ)) (n : Nat) (g : Mask) (e : Nat) (he : e ∈ Mask.edges n g) :
    weightSum top (Mask.edges n g)
      = (match top[e]? with | some t => t.weight | none => (0:ℝ)) + weightSum top (Mask.edges n (Mask.pop g e)) := by
  rw [weightSum_real, weightSum_real, C04.edges_pop_erase n g e he]
  exact (List.sum_map_erase (fun i => match top[i]? with | some t => t.weight | none => (0:ℝ)) he).symm

/-- **One removal step on the table.** -/
theorem genDod_step (G : TGraph ℝ) (D : Nat) (g : Mask) (e : Nat)
    (he : e ∈ Mask.edges G.topology.length g) (hg : g ≠ 0) (hne : Mask.pop g e ≠ 0) :
    (preEntry G D g).2.2 - (preEntry G D (Mask.pop g e)).2.2
      = (match G.topology[e]? with | some t => t.weight | none => (0:ℝ))
        - (((preEntry G D g).2.1 : ℝ) - ((preEntry G D (Mask.pop g e)).2.1 : ℝ)) * (D : ℝ) / 2
        - G.dod * ((if (preEntry G D g).1 then 1 else 0) - (if (preEntry G D (Mask.pop g e)).1 then 1 else 0)) := by
  have h1 := genDod_nonempty G D g hg
  have h2 := genDod_nonempty G D (Mask.pop g e) hne
  simp only at h1 h2
  rw [h1, h2, (preEntry_flags G D g).1, (preEntry_flags G D g).2, (preEntry_flags G D (Mask.pop g e)).1,
    (preEntry_flags G D (Mask.pop g e)).2, weightSum_pop G.topology G.topology.length g e he]
  simp only [ofInt_real]
  generalize isMMSpanning G.topology G.numMassive G.externals (Mask.edges G.topology.length g) = b1
  generalize isMMSpanning G.topology G.numMassive G.externals (Mask.edges G.topology.length (Mask.pop g e)) = b2
  generalize (match G.topology[e]? with | some t => t.weight | none => (0:ℝ)) = w
  cases b1 <;> cases b2 <;> simp <;> ring

/-- the same with the two Boolean step flags of `C01.StepData`: `dL` = "the removal lowers the loop number", `dS` = "the removal loses
mass-momentum spanning"; hypotheses: the loop number drops by `0` or `1`, spanning is never gained (graph facts, checked on the
implementation's flags for every subset of every small multigraph in the C03 check) -/
theorem genDod_step_bool (G : TGraph ℝ) (D : Nat) (g : Mask) (e : Nat)
    (he : e ∈ Mask.edges G.topology.length g) (hg : g ≠ 0) (hne : Mask.pop g e ≠ 0)
    (hL : (preEntry G D g).2.1 = (preEntry G D (Mask.pop g e)).2.1 ∨ (preEntry G D g).2.1 = (preEntry G D (Mask.pop g e)).2.1 + 1)
    (hS : (preEntry G D (Mask.pop g e)).1 = true → (preEntry G D g).1 = true) :
    (preEntry G D g).2.2 - (preEntry G D (Mask.pop g e)).2.2
      = (match G.topology[e]? with | some t => t.weight | none => (0:ℝ))
        - (D : ℝ) / 2 * (if decide ((preEntry G D g).2.1 ≠ (preEntry G D (Mask.pop g e)).2.1) then 1 else 0)
        - G.dod * (if ((preEntry G D g).1 && !(preEntry G D (Mask.pop g e)).1) then 1 else 0) := by
  rw [genDod_step G D g e he hg hne]
  generalize (preEntry G D g).2.1 = l1 at hL ⊢
  generalize (preEntry G D (Mask.pop g e)).2.1 = l2 at hL ⊢
  generalize (preEntry G D g).1 = b1 at hS ⊢
  generalize (preEntry G D (Mask.pop g e)).1 = b2 at hS ⊢
  have hb : b2 = true → b1 = true := hS
  rcases hL with h | h
  · subst h
    cases b1 <;> cases b2 <;> simp_all
  · subst h
    cases b1 <;> cases b2 <;> simp_all

end Momtrop.C03
