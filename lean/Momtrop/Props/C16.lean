import Momtrop.Model.Sample
/-!
# C16 — matrix failures are reported

Law-free (`S`) theorems: they hold for every `Scalar α`, hence for IEEE `f64` (through the `Float`
instance the correspondence check ties to the code), including NaN, underflow and infinities.
Core Lean only. They describe the code **after** the two `fix:` commits (`9f39851`, `641a06a`).
-/
namespace Momtrop.C16
open Momtrop Scalar
variable {α : Type} [Scalar α]

/-- the residual the stability test looks at: `‖inverse·A − 1‖_{2,1}` -/
def residual (n : Nat) (A : Mat α) (r : Decomp α) : α :=
  Mat.l21 n (Mat.sub n (Mat.mul n r.inverse A) (Mat.identity n))

/-- **Never `Ok` with a zero determinant** (neither the pivot product nor its square compares
equal to zero — the second test covers the underflow of `det_q²`). -/
theorem ok_det_nonzero (n : Nat) (A : Mat α) (tol : Option α) (r : Decomp α)
    (h : decompose n A tol = .ok r) :
    beq (detQ n (cholQ A n)) (zero : α) = false ∧ beq r.determinant (zero : α) = false := by
  unfold decompose at h
  by_cases hz : (beq (detQ n (cholQ A n)) zero || beq (detQ n (cholQ A n) * detQ n (cholQ A n)) zero) = true
  · simp [hz] at h
  · simp only [hz, Bool.false_eq_true, if_false] at h
    have hz' := Bool.eq_false_iff.mpr hz
    rw [Bool.or_eq_false_iff] at hz'
    refine ⟨hz'.1, ?_⟩
    cases tol with
    | none =>
      simp only [Except.ok.injEq] at h
      rw [← h]; exact hz'.2
    | some t =>
      simp only at h
      split at h
      · simp only [Except.ok.injEq] at h
        rw [← h]; exact hz'.2
      · simp at h

/-- **A zero pivot product is reported**: whatever the tolerance, the result is `ZeroDet`. -/
theorem zeroDet_of_pivot_product_zero (n : Nat) (A : Mat α) (tol : Option α)
    (h : beq (detQ n (cholQ A n)) (zero : α) = true) : decompose n A tol = .error .zeroDet := by
  unfold decompose
  simp [h]

/-- the determinant underflow case is reported as well -/
theorem zeroDet_of_det_zero (n : Nat) (A : Mat α) (tol : Option α)
    (h : beq (detQ n (cholQ A n) * detQ n (cholQ A n)) (zero : α) = true) :
    decompose n A tol = .error .zeroDet := by
  unfold decompose
  simp [h]

/-- **The stability test is sound**: with `matrix_stability_test = Some(t)` an `Ok` result satisfies
`residual ≤ t` *as evaluated by the scalar type's own comparison*. For IEEE numbers `NaN ≤ t` is
false, so an `Ok` result never has a NaN residual. -/
theorem ok_stable (n : Nat) (A : Mat α) (t : α) (r : Decomp α)
    (h : decompose n A (some t) = .ok r) : leB (residual n A r) t = true := by
  unfold decompose at h
  by_cases hz : (beq (detQ n (cholQ A n)) zero || beq (detQ n (cholQ A n) * detQ n (cholQ A n)) zero) = true
  · simp [hz] at h
  · simp only [hz, Bool.false_eq_true, if_false] at h
    split at h
    · rename_i hle
      simp only [Except.ok.injEq] at h
      rw [← h]; exact hle
    · simp at h

/-- the test can only turn `Ok` into `Unstable`: the returned record does not depend on the tolerance -/
theorem ok_same_without_test (n : Nat) (A : Mat α) (t : α) (r : Decomp α)
    (h : decompose n A (some t) = .ok r) : decompose n A none = .ok r := by
  unfold decompose at h ⊢
  by_cases hz : (beq (detQ n (cholQ A n)) zero || beq (detQ n (cholQ A n) * detQ n (cholQ A n)) zero) = true
  · simp [hz] at h
  · simp only [hz, Bool.false_eq_true, if_false] at h ⊢
    split at h
    · simpa using h
    · simp at h

/-- **Through a sample**: whenever the matrix routine fails on the `L` matrix of the sample, `sample`
returns that `MatrixError` (and reads no further coordinate). -/
theorem sample_reports_matrix_error (draw : α → α → Option α) (T : STable α) (D : Nat) (xs : List α)
    (S : List (List Int)) (ed : List (Option α × Vec α)) (st : Settings α) (pr : PermResult α)
    (e : MatErr) (hx : xs.isEmpty = false) (hp : permutahedral T xs = some pr)
    (hd : decompose (S.getD 0 []).length (lMatrix pr.x S) st.stability = .error e) :
    sampleCore draw T D xs S ed st = some (.error (.matrix e)) := by
  unfold sampleCore
  simp only [hx, hp, hd, Bool.false_eq_true, if_false]

/-- and an `Ok` sample with the stability test on satisfies the residual bound for its own `L` matrix -/
theorem sample_ok_stable (draw : α → α → Option α) (T : STable α) (D : Nat) (xs : List α)
    (S : List (List Int)) (ed : List (Option α × Vec α)) (st : Settings α) (t : α) (res : SampleResult α)
    (ht : st.stability = some t)
    (h : sampleCore draw T D xs S ed st = some (.ok res)) :
    ∃ pr dec, permutahedral T xs = some pr ∧
      decompose (S.getD 0 []).length (lMatrix pr.x S) (some t) = .ok dec ∧ res.u = dec.determinant ∧
      leB (residual (S.getD 0 []).length (lMatrix pr.x S) dec) t = true := by
  unfold sampleCore at h
  by_cases hx : xs.isEmpty = true
  · simp only [hx, if_true] at h; cases h
  · simp only [hx, Bool.false_eq_true, if_false] at h
    cases hpr : permutahedral T xs with
    | none => simp only [hpr] at h; cases h
    | some pr =>
      simp only [hpr] at h
      cases hdec : decompose (S.getD 0 []).length (lMatrix pr.x S) st.stability with
      | error e => simp only [hdec] at h; cases h
      | ok dec =>
        simp only [hdec] at h
        have hdec' := hdec
        rw [ht] at hdec'
        refine ⟨pr, dec, rfl, hdec', ?_, ok_stable _ _ t dec hdec'⟩
        cases hp : xs[pr.reads]? with
        | none => simp only [hp] at h; cases h
        | some p =>
          simp only [hp] at h
          cases hl : draw T.dod p with
          | none => simp only [hl] at h; cases h
          | some lam =>
            simp only [hl] at h
            cases hq : qVectors xs (pr.reads + 1) T.dimension T.numLoops with
            | none => simp only [hq] at h; cases h
            | some q =>
              simp only [hq, Option.some.injEq, Except.ok.injEq] at h
              rw [← h]

end Momtrop.C16
