import Momtrop.Proofs.Decomp
import Mathlib.Tactic.IntervalCases
/-!
# C15 — the matrix routine returns the true determinant, inverse and Cholesky factors

`R`-theorems (exact arithmetic, `α := ℝ`) for **every** dimension `n`, under the explicit
hypothesis `PivotsPos A n` (all Cholesky pivots positive) and symmetry of `A` on the index range.
`PivotsPos` is what the algorithm itself needs; for a symmetric matrix it is equivalent to positive
definiteness (classical; the direction `PosDef → PivotsPos` is not formalised here, the converse
follows from `factor_correct`). The rounding-error clause of the property ("relative accuracy
proportional to the condition number") is measured by the oracle, not proved.
-/
namespace Momtrop.C15
open Momtrop Scalar

variable (A : Mat ℝ) (n : Nat)

/-- the record `decompose` returns on success, spelled out -/
noncomputable def result : Decomp ℝ :=
  let Q := cholQ A n
  let iq := inverseQ n (nSum n (nMatrix n Q) (numPowers n)) (invDiag n Q)
  { determinant := detQ n Q * detQ n Q
    inverse := Mat.mul n (Mat.transpose n iq) iq
    qT := Mat.transpose n Q
    qTInv := Mat.transpose n iq }

theorem M_result_qT : M n (result A n).qT = (QM A n).transpose := by
  unfold result QM; simp only; rw [M_transpose]
theorem M_result_qTInv : M n (result A n).qTInv = (IQ A n).transpose := by
  unfold result IQ; simp only; rw [M_transpose]
theorem M_result_inverse : M n (result A n).inverse = (IQ A n).transpose * IQ A n := by
  unfold result IQ; simp only; rw [M_mul, M_transpose]

theorem detQ_pos (hp : PivotsPos A n) : 0 < detQ n (cholQ A n) := by
  rw [detQ_eq]; exact Finset.prod_pos fun k _ => q_diag_pos A n hp k.2

/-- Without the stability test the routine succeeds on every matrix with positive pivots and
returns `result`. -/
theorem decompose_none (hp : PivotsPos A n) : decompose n A none = .ok (result A n) := by
  have h := detQ_pos A n hp
  have h1 : beq (detQ n (cholQ A n)) (zero : ℝ) = false := by
    rw [Bool.eq_false_iff]; intro hb; rw [beq_real] at hb; rw [hb] at h; simp at h
  have h2 : beq (detQ n (cholQ A n) * detQ n (cholQ A n)) (zero : ℝ) = false := by
    rw [Bool.eq_false_iff]; intro hb; rw [beq_real] at hb
    have : 0 < detQ n (cholQ A n) * detQ n (cholQ A n) := mul_pos h h
    rw [hb] at this; simp at this
  unfold decompose
  simp only [h1, h2, Bool.or_self, Bool.false_eq_true, if_false]
  rfl

/-- **C15 (Cholesky factor).** `q_transposedᵀ · q_transposed = A`. -/
theorem factor_correct (hp : PivotsPos A n) (hs : SymmOn A n) :
    (M n (result A n).qT).transpose * M n (result A n).qT = M n A := by
  rw [M_result_qT, Matrix.transpose_transpose]; exact QM_mul_transpose A n hp hs

/-- `q_transposed` is upper triangular with a positive diagonal. -/
theorem factor_upper_pos (hp : PivotsPos A n) (i j : Fin n) :
    (j < i → M n (result A n).qT i j = 0) ∧ 0 < M n (result A n).qT i i := by
  rw [M_result_qT]
  simp only [Matrix.transpose_apply, QM_apply]
  exact ⟨fun h => q_upper A n (by simpa using h) i.2, q_diag_pos A n hp i.2⟩

/-- **C15 (inverse factor).** `q_transposed_inverse · q_transposed = 1`. -/
theorem qTInv_correct (hp : PivotsPos A n) :
    M n (result A n).qTInv * M n (result A n).qT = 1 := by
  rw [M_result_qTInv, M_result_qT, ← Matrix.transpose_mul, QM_mul_IQ A n hp, Matrix.transpose_one]

/-- **C15 (inverse).** `inverse · A = 1`, hence `inverse = A⁻¹`. -/
theorem inverse_correct (hp : PivotsPos A n) (hs : SymmOn A n) :
    M n (result A n).inverse * M n A = 1 ∧ M n (result A n).inverse = (M n A)⁻¹ := by
  have h : M n (result A n).inverse * M n A = 1 := by
    rw [M_result_inverse, ← QM_mul_transpose A n hp hs]
    calc (IQ A n).transpose * IQ A n * (QM A n * (QM A n).transpose)
        = (IQ A n).transpose * (IQ A n * QM A n) * (QM A n).transpose := by
          simp only [Matrix.mul_assoc]
      _ = 1 := by
          rw [IQ_mul_QM A n hp, Matrix.mul_one, ← Matrix.transpose_mul, QM_mul_IQ A n hp,
            Matrix.transpose_one]
  exact ⟨h, (Matrix.inv_eq_left_inv h).symm⟩

/-- **C15 (determinant).** `determinant = det A`. -/
theorem determinant_correct (hp : PivotsPos A n) (hs : SymmOn A n) :
    (result A n).determinant = (M n A).det := by
  have : (result A n).determinant = detQ n (cholQ A n) * detQ n (cholQ A n) := rfl
  rw [this, detQ_eq]
  exact (det_eq_sq_prod_diag A n hp hs).symm

/-- the stability residual vanishes in exact arithmetic -/
theorem l21_zero (Z : Mat ℝ) (hZ : M n Z = 0) : Mat.l21 n Z = 0 := by
  unfold Mat.l21
  rw [sumFrom_eq, list_sum_range_eq]
  simp only [zero_real, zero_add]
  apply Finset.sum_eq_zero
  intro j hj
  have hj' : j < n := Finset.mem_range.mp hj
  rw [sumFrom_eq, list_sum_range_eq]
  have : ∑ i ∈ Finset.range n, Z.get i j * Z.get i j = 0 := by
    apply Finset.sum_eq_zero
    intro i hi
    have hi' : i < n := Finset.mem_range.mp hi
    have := congrFun (congrFun hZ ⟨i, hi'⟩) ⟨j, hj'⟩
    rw [M_apply] at this
    simp only [Matrix.zero_apply] at this
    rw [this, mul_zero]
  rw [this]; simp

/-- With `matrix_stability_test = Some(t)`, `t ≥ 0`, the routine still succeeds in exact arithmetic
(the residual `‖inverse·A − 1‖_{2,1}` is exactly zero). -/
theorem decompose_ok_of_pivotsPos (hp : PivotsPos A n) (hs : SymmOn A n) (t : ℝ) (ht : 0 ≤ t) :
    decompose n A (some t) = .ok (result A n) := by
  have h0 := decompose_none A n hp
  have hres := (inverse_correct A n hp hs).1
  unfold decompose at h0 ⊢
  have h := detQ_pos A n hp
  have h1 : beq (detQ n (cholQ A n)) (zero : ℝ) = false := by
    rw [Bool.eq_false_iff]; intro hb; rw [beq_real] at hb; rw [hb] at h; simp at h
  have h2 : beq (detQ n (cholQ A n) * detQ n (cholQ A n)) (zero : ℝ) = false := by
    rw [Bool.eq_false_iff]; intro hb; rw [beq_real] at hb
    have : 0 < detQ n (cholQ A n) * detQ n (cholQ A n) := mul_pos h h
    rw [hb] at this; simp at this
  simp only [h1, h2, Bool.or_self, Bool.false_eq_true, if_false]
  have hz : Mat.l21 n (Mat.sub n (Mat.mul n (result A n).inverse A) (Mat.identity n)) = 0 := by
    apply l21_zero
    rw [M_sub, M_mul, M_identity, hres, sub_self]
  have : leB (Mat.l21 n (Mat.sub n (Mat.mul n (result A n).inverse A) (Mat.identity n))) t = true := by
    rw [leB_real, hz]; exact ht
  simp only [result] at this
  simp only [this, if_true]
  rfl

/-- Non-vacuity: the hypotheses are satisfiable by a non-diagonal matrix, `[[4,2],[2,5]]`
(`Q = [[2,0],[1,2]]`). -/
def ex : Mat ℝ := [[4, 2], [2, 5]]

theorem ex_symm : SymmOn ex 2 := by
  intro i j hi hj
  interval_cases i <;> interval_cases j <;> simp [ex, Mat.get]

theorem ex_pivotsPos : PivotsPos ex 2 := by
  have p0 : piv ex 2 0 = 4 := by simp [piv, ex, Mat.get]
  have q00 : q ex 2 0 0 = 2 := by
    rw [q_diag ex 2 (by omega), p0]
    rw [show (4 : ℝ) = 2 * 2 by norm_num]; exact Real.sqrt_mul_self (by norm_num)
  have q10 : q ex 2 1 0 = 1 := by
    rw [q_lower ex 2 (by omega) (by omega), q00]; simp [ex, Mat.get]
  have p1 : piv ex 2 1 = 4 := by
    unfold piv
    rw [Finset.sum_range_one, q10]
    simp [ex, Mat.get]; norm_num
  intro k hk
  interval_cases k
  · rw [p0]; norm_num
  · rw [p1]; norm_num

end Momtrop.C15
