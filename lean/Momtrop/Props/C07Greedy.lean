import Momtrop.Proofs.LoopMono
import Momtrop.Props.C07Sector
import Momtrop.Props.C04R
import Momtrop.Props.C03
import Mathlib.Algebra.BigOperators.Group.Finset.Basic
import Mathlib.Algebra.Order.BigOperators.Ring.Finset
import Mathlib.Algebra.Order.BigOperators.Group.Finset
import Mathlib.Data.Real.Basic
import Mathlib.Data.Finset.Sort
/-!
# `u_trop` is the LARGEST monomial of the first Symanzik polynomial (greedy optimality, proved)

The monomials of `U` are `∏_{e ∈ C} x_e` over the complements `C` of spanning forests ("cotrees": `loops(S ∖ C) = 0`, `|C| = loops(S)`).
The sampler multiplies `u_trop` by the parameter of a removed edge exactly when the removal lowers the loop number of what is left
(`greedyProd`). With the parameters non-increasing along the removal order (`C07.sector_monotone`):

* `greedySet_cotree`: the edges picked this way form a cotree, so `u_trop` IS a monomial of `U`;
* `greedy_max`: every other monomial is `≤ u_trop`.

Both are proved for any set function `r` that behaves like a cyclomatic number (`NullityLike`: `r ∅ = 0`, adding an element raises `r` by 0
or 1, an element that does not raise `r` over `A` does not raise it over any `B ⊆ A`) by induction along the removal order with an exchange
step, and `loopsOf_nullity` shows that the model's `get_loop_number` is such a function (`loopNumber_erase`, `bridge_mono`).
`symanzik_U_bounds`: `U_tr ≤ U ≤ N_T · U_tr`, the first premise of C02.
-/
namespace Momtrop.C07
open Momtrop

section abstract
variable (r : Finset ℕ → ℕ)

/-- what the proof uses of the cyclomatic number -/
structure NullityLike : Prop where
  zero : r ∅ = 0
  step : ∀ A e, e ∉ A → r A ≤ r (insert e A) ∧ r (insert e A) ≤ r A + 1
  mono : ∀ A B e, B ⊆ A → e ∉ A → r (insert e A) = r A → r (insert e B) = r B

variable {r}

theorem union_bounds (h : NullityLike r) (B C : Finset ℕ) (hd : Disjoint B C) :
    r B ≤ r (B ∪ C) ∧ r (B ∪ C) ≤ r B + C.card := by
  induction C using Finset.induction_on with
  | empty => simp
  | insert c C' hc ih =>
    rw [Finset.disjoint_insert_right] at hd
    obtain ⟨h1, h2⟩ := ih hd.2
    have hnot : c ∉ B ∪ C' := by
      rw [Finset.mem_union]; rintro (hb | hc'); exact hd.1 hb; exact hc hc'
    have hs := h.step (B ∪ C') c hnot
    rw [Finset.union_insert, Finset.card_insert_of_notMem hc]
    omega

/-- exchange: if adding `C` to `B` raises `r` by less than `|C|`, some single element of `C` does not raise `r` over `B` -/
theorem exchange (h : NullityLike r) (B C : Finset ℕ) (hd : Disjoint B C) (hlt : r (B ∪ C) < r B + C.card) :
    ∃ f ∈ C, r (insert f B) = r B := by
  induction C using Finset.induction_on with
  | empty => simp at hlt
  | insert c C' hc ih =>
    rw [Finset.disjoint_insert_right] at hd
    have hnot : c ∉ B ∪ C' := by
      rw [Finset.mem_union]; rintro (hb | hc'); exact hd.1 hb; exact hc hc'
    by_cases h' : r (B ∪ C') < r B + C'.card
    · obtain ⟨f, hf, hfe⟩ := ih hd.2 h'
      exact ⟨f, Finset.mem_insert_of_mem hf, hfe⟩
    · have hb := union_bounds h B C' hd.2
      have hs := h.step (B ∪ C') c hnot
      rw [Finset.union_insert, Finset.card_insert_of_notMem hc] at hlt
      have heq : r (insert c (B ∪ C')) = r (B ∪ C') := by omega
      exact ⟨c, Finset.mem_insert_self _ _, h.mono (B ∪ C') B c Finset.subset_union_left hnot heq⟩

variable (r)

/-- complement of a spanning forest of `S` -/
def Cotree (S C : Finset ℕ) : Prop := C ⊆ S ∧ r (S \ C) = 0 ∧ C.card = r S

variable {r} in
/-- a cotree is the complement of a MAXIMAL acyclic subset (a spanning forest): `S ∖ C` has no loop and putting any edge of `C` back
creates one -/
theorem cotree_iff_maximal_forest (h : NullityLike r) (S C : Finset ℕ) :
    Cotree r S C ↔ C ⊆ S ∧ r (S \ C) = 0 ∧ ∀ f ∈ C, r (insert f (S \ C)) ≠ 0 := by
  constructor
  · rintro ⟨hsub, hz, hcard⟩
    refine ⟨hsub, hz, ?_⟩
    intro f hf hzero
    have hfn : f ∉ S \ C := fun hm => (Finset.mem_sdiff.mp hm).2 hf
    have hd : Disjoint (insert f (S \ C)) (C.erase f) := by
      rw [Finset.disjoint_left]
      intro y hy hy'
      rw [Finset.mem_erase] at hy'
      rcases Finset.mem_insert.mp hy with rfl | hy
      · exact hy'.1 rfl
      · exact (Finset.mem_sdiff.mp hy).2 hy'.2
    have hb := (union_bounds h _ _ hd).2
    have hun : insert f (S \ C) ∪ C.erase f = S := by
      ext y
      simp only [Finset.mem_union, Finset.mem_insert, Finset.mem_sdiff, Finset.mem_erase]
      constructor
      · rintro ((rfl | ⟨h1, _⟩) | ⟨_, h2⟩)
        · exact hsub hf
        · exact h1
        · exact hsub h2
      · intro hy
        by_cases hyC : y ∈ C
        · by_cases hyf : y = f
          · exact Or.inl (Or.inl hyf)
          · exact Or.inr ⟨hyf, hyC⟩
        · exact Or.inl (Or.inr ⟨hy, hyC⟩)
    rw [hun, hzero, Finset.card_erase_of_mem hf] at hb
    have : 0 < C.card := Finset.card_pos.mpr ⟨f, hf⟩
    omega
  · rintro ⟨hsub, hz, hmax⟩
    refine ⟨hsub, hz, ?_⟩
    have hb := union_bounds h (S \ C) C Finset.sdiff_disjoint
    rw [Finset.sdiff_union_of_subset hsub, hz] at hb
    by_contra hne
    have hlt : r (S \ C ∪ C) < r (S \ C) + C.card := by
      rw [Finset.sdiff_union_of_subset hsub, hz]; omega
    obtain ⟨f, hf, hfe⟩ := exchange h (S \ C) C Finset.sdiff_disjoint hlt
    exact hmax f hf (by rw [hfe, hz])

/-- the removed edges at whose removal the loop number of the remaining graph drops; `σ` lists the edges in removal order -/
def greedySet : List ℕ → Finset ℕ
  | [] => ∅
  | e :: rest => if r rest.toFinset < r (insert e rest.toFinset) then insert e (greedySet rest) else greedySet rest

/-- `u_trop`: the product of the parameters of those edges -/
noncomputable def greedyProd (x : ℕ → ℝ) : List ℕ → ℝ
  | [] => 1
  | e :: rest => (if r rest.toFinset < r (insert e rest.toFinset) then x e else 1) * greedyProd x rest

variable {r}

theorem greedySet_subset (σ : List ℕ) : greedySet r σ ⊆ σ.toFinset := by
  induction σ with
  | nil => simp [greedySet]
  | cons e rest ih =>
    rw [greedySet, List.toFinset_cons]
    split
    · exact Finset.insert_subset_insert _ ih
    · exact ih.trans (Finset.subset_insert _ _)

theorem greedyProd_eq (x : ℕ → ℝ) (σ : List ℕ) (hσ : σ.Nodup) : greedyProd r x σ = ∏ e ∈ greedySet r σ, x e := by
  induction σ with
  | nil => simp [greedyProd, greedySet]
  | cons e rest ih =>
    rw [List.nodup_cons] at hσ
    rw [greedyProd, greedySet, ih hσ.2]
    have hnot : e ∉ greedySet r rest := fun hm => hσ.1 (List.mem_toFinset.mp (greedySet_subset rest hm))
    split
    · rw [Finset.prod_insert hnot]
    · rw [one_mul]

/-- **the greedy set is a cotree**: `u_trop` is one of the monomials of `U` -/
theorem greedySet_cotree (h : NullityLike r) (σ : List ℕ) (hσ : σ.Nodup) : Cotree r σ.toFinset (greedySet r σ) := by
  induction σ with
  | nil => exact ⟨by simp [greedySet], by simp [greedySet, h.zero], by simp [greedySet, h.zero]⟩
  | cons e rest ih =>
    rw [List.nodup_cons] at hσ
    obtain ⟨hsub, hz, hcard⟩ := ih hσ.2
    have heR : e ∉ rest.toFinset := fun hm => hσ.1 (List.mem_toFinset.mp hm)
    have heG : e ∉ greedySet r rest := fun hm => heR (hsub hm)
    have hs := h.step rest.toFinset e heR
    rw [greedySet, List.toFinset_cons]
    split
    · rename_i hp
      refine ⟨Finset.insert_subset_insert _ hsub, ?_, ?_⟩
      · have : insert e rest.toFinset \ insert e (greedySet r rest) = rest.toFinset \ greedySet r rest := by
          ext y
          simp only [Finset.mem_sdiff, Finset.mem_insert]
          constructor
          · rintro ⟨h1 | h1, h2⟩
            · exact absurd (Or.inl h1) h2
            · exact ⟨h1, fun hg => h2 (Or.inr hg)⟩
          · rintro ⟨h1, h2⟩
            refine ⟨Or.inr h1, ?_⟩
            rintro (rfl | hg)
            · exact heR h1
            · exact h2 hg
        rw [this]; exact hz
      · rw [Finset.card_insert_of_notMem heG]; omega
    · rename_i hp
      have heq : r (insert e rest.toFinset) = r rest.toFinset := by omega
      refine ⟨hsub.trans (Finset.subset_insert _ _), ?_, by omega⟩
      rw [Finset.insert_sdiff_of_notMem _ heG]
      rw [h.mono rest.toFinset (rest.toFinset \ greedySet r rest) e Finset.sdiff_subset heR heq]
      exact hz

/-- **`u_trop` is homogeneous of degree `r(S)`** (the loop number) in the parameters: the tropical side of C11's gauge invariance -/
theorem greedyProd_smul (h : NullityLike r) (x : ℕ → ℝ) (s : ℝ) (σ : List ℕ) (hσ : σ.Nodup) :
    greedyProd r (fun e => s * x e) σ = s ^ r σ.toFinset * greedyProd r x σ := by
  rw [greedyProd_eq _ σ hσ, greedyProd_eq _ σ hσ, Finset.prod_mul_distrib, Finset.prod_const,
    (greedySet_cotree h σ hσ).2.2]

/-- **every monomial of `U` is at most `u_trop`** when the parameters do not increase along the removal order -/
theorem greedy_max (h : NullityLike r) (x : ℕ → ℝ) (hx : ∀ e, 0 ≤ x e) (σ : List ℕ) (hσ : σ.Nodup)
    (hmono : σ.Pairwise fun a b => x b ≤ x a) (C : Finset ℕ) (hC : Cotree r σ.toFinset C) :
    ∏ e ∈ C, x e ≤ greedyProd r x σ := by
  induction σ generalizing C with
  | nil =>
    obtain ⟨hsub, _, _⟩ := hC
    have : C = ∅ := by simpa using hsub
    subst this
    simp [greedyProd]
  | cons e rest ih =>
    rw [List.nodup_cons] at hσ
    rw [List.pairwise_cons] at hmono
    obtain ⟨hsub, hz, hcard⟩ := hC
    rw [List.toFinset_cons] at hsub hz hcard
    set R := rest.toFinset with hR
    have heR : e ∉ R := fun hm => hσ.1 (List.mem_toFinset.mp hm)
    have hs := h.step R e heR
    have hprodnn : ∀ D : Finset ℕ, 0 ≤ ∏ y ∈ D, x y := fun D => Finset.prod_nonneg fun y _ => hx y
    rw [greedyProd]
    by_cases heC : e ∈ C
    · -- e belongs to the cotree
      have hC'sub : C.erase e ⊆ R := by
        intro y hy
        rw [Finset.mem_erase] at hy
        rcases Finset.mem_insert.mp (hsub hy.2) with h1 | h1
        · exact absurd h1 hy.1
        · exact h1
      have hsd : insert e R \ C = R \ C.erase e := by
        ext y
        simp only [Finset.mem_sdiff, Finset.mem_insert, Finset.mem_erase]
        constructor
        · rintro ⟨h1 | h1, h2⟩
          · exact absurd (h1 ▸ heC) h2
          · exact ⟨h1, fun hh => h2 hh.2⟩
        · rintro ⟨h1, h2⟩
          refine ⟨Or.inr h1, fun hh => h2 ⟨?_, hh⟩⟩
          rintro rfl
          exact heR h1
      have hcardC' : (C.erase e).card = C.card - 1 := Finset.card_erase_of_mem heC
      have hCpos : 0 < C.card := Finset.card_pos.mpr ⟨e, heC⟩
      by_cases hp : r R < r (insert e R)
      · rw [if_pos hp]
        have hcot : Cotree r R (C.erase e) := ⟨hC'sub, by rw [← hsd]; exact hz, by omega⟩
        have := ih hσ.2 hmono.2 (C.erase e) hcot
        rw [← Finset.mul_prod_erase C x heC]
        exact mul_le_mul_of_nonneg_left this (hx e)
      · exfalso
        have hb := union_bounds h (R \ C.erase e) (C.erase e) Finset.sdiff_disjoint
        rw [Finset.sdiff_union_of_subset hC'sub, ← hsd, hz] at hb
        omega
    · -- e is outside the cotree
      have hCR : C ⊆ R := by
        intro y hy
        rcases Finset.mem_insert.mp (hsub hy) with h1 | h1
        · exact absurd (h1 ▸ hy) heC
        · exact h1
      have hzR : r (R \ C) = 0 := by
        rw [Finset.insert_sdiff_of_notMem _ heC] at hz
        have := (h.step (R \ C) e (fun hm => heR (Finset.mem_sdiff.mp hm).1)).1
        omega
      by_cases hp : r R < r (insert e R)
      · rw [if_pos hp]
        have hlt : r (R \ C ∪ C) < r (R \ C) + C.card := by
          rw [Finset.sdiff_union_of_subset hCR]; omega
        obtain ⟨f, hfC, hfe⟩ := exchange h (R \ C) C Finset.sdiff_disjoint hlt
        have hfR : f ∈ R := hCR hfC
        have hsd : R \ C.erase f = insert f (R \ C) := by
          ext y
          simp only [Finset.mem_sdiff, Finset.mem_insert, Finset.mem_erase]
          constructor
          · rintro ⟨h1, h2⟩
            by_cases hyf : y = f
            · exact Or.inl hyf
            · exact Or.inr ⟨h1, fun hh => h2 ⟨hyf, hh⟩⟩
          · rintro (rfl | ⟨h1, h2⟩)
            · exact ⟨hfR, fun hh => hh.1 rfl⟩
            · exact ⟨h1, fun hh => h2 hh.2⟩
        have hCpos : 0 < C.card := Finset.card_pos.mpr ⟨f, hfC⟩
        have hcardC' : (C.erase f).card = C.card - 1 := Finset.card_erase_of_mem hfC
        have hcot : Cotree r R (C.erase f) :=
          ⟨(Finset.erase_subset _ _).trans hCR, by rw [hsd, hfe]; exact hzR, by omega⟩
        have := ih hσ.2 hmono.2 (C.erase f) hcot
        rw [← Finset.mul_prod_erase C x hfC]
        exact mul_le_mul (hmono.1 f (List.mem_toFinset.mp hfR)) this (hprodnn _) (hx e)
      · rw [if_neg hp, one_mul]
        have hcot : Cotree r R C := ⟨hCR, hzR, by omega⟩
        exact ih hσ.2 hmono.2 C hcot

end abstract

/-! ### the model's loop number is such a function -/
section graph
variable {α : Type}

/-- loop number of a set of edge ids (ids beyond the graph are ignored) -/
noncomputable def loopsOf (top : List (TEdge α)) (A : Finset ℕ) : ℕ :=
  loopNumber top ((A.filter (· < top.length)).sort (· ≤ ·))

/-- for a duplicate-free list of valid ids this is `get_loop_number` of the list, in whatever order -/
theorem loopsOf_eq (top : List (TEdge α)) (s : List ℕ) (hs : s.Nodup) (hvalid : ∀ x ∈ s, x < top.length) :
    loopsOf top s.toFinset = loopNumber top s := by
  unfold loopsOf
  apply loopNumber_perm top _ _ (Finset.sort_nodup _ _) hs
  · intro x hx
    rw [Finset.mem_sort, Finset.mem_filter] at hx
    exact hx.2
  · intro x
    rw [Finset.mem_sort, Finset.mem_filter, List.mem_toFinset]
    exact ⟨fun hh => hh.1, fun hh => ⟨hh, hvalid x hh⟩⟩

theorem loopsOf_insert_big (top : List (TEdge α)) (A : Finset ℕ) (e : ℕ) (he : ¬ e < top.length) :
    loopsOf top (insert e A) = loopsOf top A := by
  unfold loopsOf
  rw [Finset.filter_insert, if_neg he]

/-- the sorted list of `insert e A`, with `e` erased, has the loop number of `A` -/
theorem loopsOf_insert_erase (top : List (TEdge α)) (A : Finset ℕ) (e : ℕ) (heA : e ∉ A) :
    loopNumber top ((((insert e A).filter (· < top.length)).sort (· ≤ ·)).erase e) = loopsOf top A := by
  unfold loopsOf
  have hnd := Finset.sort_nodup ((insert e A).filter (· < top.length)) (· ≤ ·)
  apply loopNumber_perm top _ _ (hnd.erase e) (Finset.sort_nodup _ _)
  · intro x hx
    have := List.mem_of_mem_erase hx
    rw [Finset.mem_sort, Finset.mem_filter] at this
    exact this.2
  · intro x
    rw [hnd.mem_erase_iff, Finset.mem_sort, Finset.mem_sort, Finset.mem_filter, Finset.mem_filter, Finset.mem_insert]
    constructor
    · rintro ⟨h1, h2 | h2, h3⟩
      · exact absurd h2 h1
      · exact ⟨h2, h3⟩
    · rintro ⟨h1, h2⟩
      exact ⟨fun hxe => heA (hxe ▸ h1), Or.inr h1, h2⟩

theorem loopsOf_nullity (top : List (TEdge α)) : NullityLike (loopsOf top) := by
  have hsortvalid : ∀ A : Finset ℕ, ∀ x ∈ (A.filter (· < top.length)).sort (· ≤ ·), x < top.length := by
    intro A x hx
    rw [Finset.mem_sort, Finset.mem_filter] at hx
    exact hx.2
  refine ⟨?_, ?_, ?_⟩
  · unfold loopsOf
    simp [loopNumber, components, componentLists, compsLoop]
  · intro A e heA
    by_cases he : e < top.length
    · have hmem : e ∈ ((insert e A).filter (· < top.length)).sort (· ≤ ·) := by
        rw [Finset.mem_sort, Finset.mem_filter]; exact ⟨Finset.mem_insert_self _ _, he⟩
      have := loopNumber_erase top _ (Finset.sort_nodup _ _) (hsortvalid (insert e A)) e hmem
      rw [loopsOf_insert_erase top A e heA] at this
      unfold loopsOf at this ⊢
      omega
    · rw [loopsOf_insert_big top A e he]; omega
  · intro A B e hBA heA heq
    by_cases he : e < top.length
    · have heB : e ∉ B := fun hm => heA (hBA hm)
      have hmemA : e ∈ ((insert e A).filter (· < top.length)).sort (· ≤ ·) := by
        rw [Finset.mem_sort, Finset.mem_filter]; exact ⟨Finset.mem_insert_self _ _, he⟩
      have hmemB : e ∈ ((insert e B).filter (· < top.length)).sort (· ≤ ·) := by
        rw [Finset.mem_sort, Finset.mem_filter]; exact ⟨Finset.mem_insert_self _ _, he⟩
      have hsub : ∀ x ∈ ((insert e B).filter (· < top.length)).sort (· ≤ ·),
          x ∈ ((insert e A).filter (· < top.length)).sort (· ≤ ·) := by
        intro x hx
        rw [Finset.mem_sort, Finset.mem_filter] at hx ⊢
        exact ⟨Finset.insert_subset_insert _ hBA hx.1, hx.2⟩
      have h1 : loopNumber top (((insert e A).filter (· < top.length)).sort (· ≤ ·))
          = loopNumber top ((((insert e A).filter (· < top.length)).sort (· ≤ ·)).erase e) := by
        rw [loopsOf_insert_erase top A e heA]; exact heq
      have := bridge_mono top _ _ (Finset.sort_nodup _ _) (Finset.sort_nodup _ _) (hsortvalid (insert e A)) hsub e hmemB h1
      rw [loopsOf_insert_erase top B e heB] at this
      exact this
    · rw [loopsOf_insert_big top B e he]

/-- **`u_trop` is the largest monomial of `U`.** `σ`: the edges of the graph in removal order, `x`: their Feynman parameters,
non-negative and non-increasing along `σ`. Every cotree monomial is `≤ greedyProd`, and `greedyProd` is the monomial of a cotree. -/
theorem uTrop_largest_monomial (top : List (TEdge α)) (σ : List ℕ) (hσ : σ.Nodup) (x : ℕ → ℝ) (hx : ∀ e, 0 ≤ x e)
    (hmono : σ.Pairwise fun a b => x b ≤ x a) :
    (∀ C, Cotree (loopsOf top) σ.toFinset C → ∏ e ∈ C, x e ≤ greedyProd (loopsOf top) x σ) ∧
      ∃ C, Cotree (loopsOf top) σ.toFinset C ∧ ∏ e ∈ C, x e = greedyProd (loopsOf top) x σ :=
  ⟨fun C hC => greedy_max (loopsOf_nullity top) x hx σ hσ hmono C hC,
    greedySet (loopsOf top) σ, greedySet_cotree (loopsOf_nullity top) σ hσ, (greedyProd_eq x σ hσ).symm⟩

open Classical

/-- the cotrees of `S` (complements of spanning forests): the index set of the first Symanzik polynomial -/
noncomputable def cotrees (top : List (TEdge α)) (S : Finset ℕ) : Finset (Finset ℕ) :=
  S.powerset.filter (Cotree (loopsOf top) S)

/-- **`U_tr ≤ U ≤ N_T · U_tr`** with `U = Σ_{cotrees} ∏ x` and `N_T` the number of spanning forests: the first premise of C02 -/
theorem symanzik_U_bounds (top : List (TEdge α)) (σ : List ℕ) (hσ : σ.Nodup) (x : ℕ → ℝ) (hx : ∀ e, 0 ≤ x e)
    (hmono : σ.Pairwise fun a b => x b ≤ x a) :
    greedyProd (loopsOf top) x σ ≤ ∑ C ∈ cotrees top σ.toFinset, ∏ e ∈ C, x e ∧
      ∑ C ∈ cotrees top σ.toFinset, ∏ e ∈ C, x e ≤ (cotrees top σ.toFinset).card * greedyProd (loopsOf top) x σ := by
  obtain ⟨hmax, C0, hC0, hC0eq⟩ := uTrop_largest_monomial top σ hσ x hx hmono
  have hmem : C0 ∈ cotrees top σ.toFinset := by
    unfold cotrees
    rw [Finset.mem_filter, Finset.mem_powerset]
    exact ⟨hC0.1, hC0⟩
  constructor
  · rw [← hC0eq]
    exact Finset.single_le_sum (f := fun C => ∏ e ∈ C, x e) (fun C _ => Finset.prod_nonneg fun y _ => hx y) hmem
  · rw [← nsmul_eq_mul]
    apply Finset.sum_le_card_nsmul
    intro C hC
    unfold cotrees at hC
    rw [Finset.mem_filter] at hC
    exact hmax C hC.2

end graph

/-! ### the sampler's `u_trop` is that greedy product -/
section link
variable {β : Type}

theorem toFinset_pop (n : Nat) (g : Mask) (e : Nat) (he : e ∈ Mask.edges n g) :
    (Mask.edges n g).toFinset = insert e (Mask.edges n (Mask.pop g e)).toFinset := by
  ext y
  rw [Finset.mem_insert, List.mem_toFinset, List.mem_toFinset, C04.edges_pop_erase n g e he, (Mask.edges_nodup n g).mem_erase_iff]
  constructor
  · intro hy
    by_cases hye : y = e
    · exact Or.inl hye
    · exact Or.inr ⟨hye, hy⟩
  · rintro (rfl | ⟨_, hy⟩)
    · exact he
    · exact hy

/-- a successful run of the removal loop with enough fuel removes every edge: the trace lists exactly the edges of `g` -/
theorem permTrace_complete (T : STable ℝ) (xs : List ℝ) :
    ∀ (fuel : Nat) (g : Mask) (st st' : PState ℝ), g < 2 ^ T.numEdges → (Mask.edges T.numEdges g).length ≤ fuel →
      permLoop T xs fuel g st = some st' →
      ((permTrace T xs fuel g st.cnt).map (·.e)).toFinset = (Mask.edges T.numEdges g).toFinset := by
  intro fuel
  induction fuel with
  | zero =>
    intro g st st' _ hlen _
    have : Mask.edges T.numEdges g = [] := List.length_eq_zero_iff.mp (Nat.le_zero.mp hlen)
    simp [permTrace, this]
  | succ fuel ih =>
    intro g st st' hg hlen h
    unfold permLoop at h
    unfold permTrace
    by_cases hge : Mask.isEmpty g = true
    · have : Mask.edges T.numEdges g = [] := List.length_eq_zero_iff.mp ((Mask.isEmpty_iff_card hg).mp hge)
      simp [hge, this]
    · simp only [hge, Bool.false_eq_true, if_false] at h ⊢
      cases hc : chooseEdge T xs g st.cnt with
      | none => simp [hc] at h
      | some r =>
        obtain ⟨e, g', cnt⟩ := r
        simp only [hc] at h ⊢
        obtain ⟨hmem, hpop⟩ := chooseEdge_mem T xs g st.cnt e g' cnt hc
        have hg' : g' < 2 ^ T.numEdges := hpop ▸ Mask.pop_lt hg (Mask.mem_edges.mp hmem).1
        have hcard := Mask.card_pop T.numEdges g e hmem
        rw [← hpop] at hcard
        by_cases hz : Mask.isEmpty g' = true
        · simp only [hz, if_true, List.map_cons, List.map_nil]
          have : Mask.edges T.numEdges g' = [] := List.length_eq_zero_iff.mp ((Mask.isEmpty_iff_card hg').mp hz)
          rw [toFinset_pop T.numEdges g e hmem, ← hpop, this]
          rfl
        · simp only [hz, Bool.false_eq_true, if_false] at h ⊢
          cases hx : xs[cnt]? with
          | none => simp [hx] at h
          | some xi =>
            simp only [hx] at h ⊢
            have := ih g' _ st' hg' (by omega) h
            simp only at this
            rw [List.map_cons, List.toFinset_cons, this, toFinset_pop T.numEdges g e hmem, ← hpop]

/-- along a complete chain the first component of `tropReplay` is the greedy product of the parameters, for a table whose loop numbers
are those of the graph -/
theorem tropReplay_fst (T : STable ℝ) (top : List (TEdge β))
    (hL : ∀ m, m < 2 ^ T.numEdges → T.loops m = loopsOf top (Mask.edges T.numEdges m).toFinset) (x : ℕ → ℝ) :
    ∀ (tr : List (Step ℝ)) (κ u v : ℝ) (g : Mask), g < 2 ^ T.numEdges → Chain T.numEdges g tr →
      (Mask.edges T.numEdges g).toFinset = (tr.map (·.e)).toFinset →
      (∀ (k : Nat) (hk : k < tr.length), x (tr[k].e) = kappaAt T κ tr k) →
      (tropReplay T κ u v g tr).1 = u * greedyProd (loopsOf top) x (tr.map (·.e)) := by
  intro tr
  induction tr with
  | nil => intro κ u v g _ _ _ _; simp [tropReplay, greedyProd]
  | cons s rest ih =>
    intro κ u v g hg hch hcomp hx
    have hnd := chain_nodup g (s :: rest) hch
    obtain ⟨hmem, hpop, hch'⟩ := hch
    rw [List.map_cons, List.nodup_cons] at hnd
    have hg' : s.rest < 2 ^ T.numEdges := hpop ▸ Mask.pop_lt hg (Mask.mem_edges.mp hmem).1
    have hcomp' : (Mask.edges T.numEdges s.rest).toFinset = (rest.map (·.e)).toFinset := by
      rw [toFinset_pop T.numEdges g s.e hmem, ← hpop, List.map_cons, List.toFinset_cons] at hcomp
      have h1 : s.e ∉ (Mask.edges T.numEdges s.rest).toFinset := by
        rw [List.mem_toFinset, hpop, C04.edges_pop_erase T.numEdges g s.e hmem]
        exact (Mask.edges_nodup T.numEdges g).not_mem_erase
      have h2 : s.e ∉ (rest.map (·.e)).toFinset := fun hm => hnd.1 (List.mem_toFinset.mp hm)
      have := congrArg (fun F => F.erase s.e) hcomp
      simpa [Finset.erase_insert h1, Finset.erase_insert h2] using this
    have hx0 : x s.e = κ := by
      have := hx 0 (by simp)
      simpa [kappaAt] using this
    have hx' : ∀ (k : Nat) (hk : k < rest.length), x (rest[k].e) = kappaAt T (nextKappa T κ s) rest k := by
      intro k hk
      have := hx (k + 1) (by simpa using hk)
      simpa [kappaAt, List.take_succ_cons, List.foldl_cons] using this
    simp only [tropReplay, List.map_cons, greedyProd]
    rw [ih _ _ _ s.rest hg' hch' hcomp' hx', hL g hg, hL s.rest hg', hcomp', toFinset_pop T.numEdges g s.e hmem, ← hpop, hcomp', hx0]
    split <;> ring

/-- **C07, `u_trop` = largest monomial of `U`, on the sampler itself.** For a table whose loop numbers are those of the graph `top`
(what `generate_from_tropical` stores, C03), a successful run of `permatuhedral_sampling` whose uniform numbers lie in `(0,1]` and whose
remaining graphs have positive `ω` (accepted table, C05): with `x_e` the pre-rescaling Feynman parameters, every cotree monomial
`∏_{e∈C} x_e` is at most the reported `u_trop`, and `u_trop` is the monomial of a cotree. -/
theorem uTrop_is_largest_monomial (T : STable ℝ) (top : List (TEdge β))
    (hL : ∀ m, m < 2 ^ T.numEdges → T.loops m = loopsOf top (Mask.edges T.numEdges m).toFinset)
    (xs : List ℝ) (r : PermResult ℝ) (h : permutahedral T xs = some r)
    (hpos : ∀ s ∈ permTrace T xs T.numEdges (Mask.full T.numEdges) 0, ∀ xi, s.xi = some xi → 0 < xi ∧ xi ≤ 1 ∧ 0 < T.omega s.rest) :
    let x : ℕ → ℝ := fun e => r.xPre.getD e 0
    (∀ C, Cotree (loopsOf top) (Finset.range T.numEdges) C → ∏ e ∈ C, x e ≤ r.uTrPre) ∧
      ∃ C, Cotree (loopsOf top) (Finset.range T.numEdges) C ∧ ∏ e ∈ C, x e = r.uTrPre := by
  intro x
  obtain ⟨hord, hnd, hchain, hget⟩ := sector_formula T xs r h
  have hfull : Mask.full T.numEdges < 2 ^ T.numEdges := by
    unfold Mask.full
    rw [Nat.shiftLeft_eq, one_mul]
    exact Nat.sub_lt (Nat.two_pow_pos _) Nat.one_pos
  -- the run in terms of the loop
  unfold permutahedral at h
  simp only at h
  split at h
  · cases h
  next st hp =>
    simp only [Option.some.injEq] at h
    subst h
    simp only at hord hnd hget x ⊢
    have hcomp := permTrace_complete T xs T.numEdges (Mask.full T.numEdges) _ st hfull
      (by rw [Mask.edges_full, List.length_range]) hp
    simp only at hcomp
    have htrop := permLoop_trop T xs T.numEdges (Mask.full T.numEdges) _ st hp
    simp only at htrop
    have hlen : st.x.length = T.numEdges := by
      have := (permLoop_trace T xs T.numEdges (Mask.full T.numEdges) _ st hp).1
      rw [this, replay_length]; simp
    generalize htr : permTrace T xs T.numEdges (Mask.full T.numEdges) 0 = tr at *
    have hu : st.uTr = (tropReplay T 1 1 1 (Mask.full T.numEdges) tr).1 := by
      have := congrArg Prod.fst htrop
      simpa [Scalar.one_real] using this
    -- the parameters along the trace
    have hxk : ∀ (k : Nat) (hk : k < tr.length), x (tr[k].e) = kappaAt T 1 tr k := by
      intro k hk
      have := (hget k hk).1
      simp only [x, List.getD_eq_getElem?_getD, this, Option.getD_some]
      rw [kappaAt_prod, one_mul]
    have hgp := tropReplay_fst T top hL x tr 1 1 1 (Mask.full T.numEdges) hfull hchain hcomp.symm hxk
    rw [one_mul] at hgp
    have hσ : (tr.map (·.e)).Nodup := by rw [← hord]; exact hnd
    have hS : (tr.map (·.e)).toFinset = Finset.range T.numEdges := by
      rw [hcomp, Mask.edges_full]
      ext y; simp
    -- non-negative and non-increasing along the removal order
    have hx0 : ∀ e, 0 ≤ x e := by
      intro e
      by_cases he : e ∈ tr.map (·.e)
      · obtain ⟨k, hk, rfl⟩ := List.getElem_of_mem he
        have hk' : k < tr.length := by simpa using hk
        rw [List.getElem_map, hxk k hk', kappaAt_prod, one_mul]
        exact (sector_monotone T tr hpos k hk').2.2.le
      · -- an edge outside the trace: there is none, but the default value is 0 anyway
        have : e ∉ Finset.range T.numEdges := by rw [← hS]; simpa using he
        simp only [x]
        rw [List.getD_eq_getElem?_getD, List.getElem?_eq_none (by rw [hlen]; simpa using this)]
        simp
    have hprod_anti : ∀ a b : Nat, a ≤ b → ((tr.take b).map (factor T)).prod ≤ ((tr.take a).map (factor T)).prod := by
      intro a b hab
      induction b, hab using Nat.le_induction with
      | base => exact le_rfl
      | succ b _ ihb =>
        by_cases hb : b < tr.length
        · exact ((sector_monotone T tr hpos b hb).2.1).trans ihb
        · rw [List.take_of_length_le (by omega : tr.length ≤ b + 1)]
          rw [List.take_of_length_le (by omega : tr.length ≤ b)] at ihb
          exact ihb
    have hmono : (tr.map (·.e)).Pairwise fun a b => x b ≤ x a := by
      rw [List.pairwise_iff_getElem]
      intro i j hi hj hij
      have hi' : i < tr.length := by simpa using hi
      have hj' : j < tr.length := by simpa using hj
      rw [List.getElem_map, List.getElem_map, hxk i hi', hxk j hj', kappaAt_prod, kappaAt_prod, one_mul, one_mul]
      exact hprod_anti i j hij.le
    obtain ⟨h1, h2⟩ := uTrop_largest_monomial top (tr.map (·.e)) hσ x hx0 hmono
    rw [hS, ← hgp, ← hu] at h1 h2
    exact ⟨h1, h2⟩

/-- the premise `hL` holds for the table the model builds from a graph (`preEntry`, what `generate_from_tropical` stores; C03) -/
theorem preEntry_loops {α : Type} [Scalar α] (G : TGraph α) (D : Nat) (m : Mask) :
    (preEntry G D m).2.1 = loopsOf G.topology (Mask.edges G.topology.length m).toFinset := by
  rw [(C03.preEntry_flags G D m).1, loopsOf_eq _ _ (Mask.edges_nodup _ _) (fun x hx => (Mask.mem_edges.mp hx).1)]

end link
end Momtrop.C07
