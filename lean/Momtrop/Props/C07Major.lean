import Momtrop.Props.C07Greedy
import Momtrop.Props.C03Mono
/-!
# The tropical value is the maximum over the generalised permutahedron of the table flags

`majorization`: positive numbers `x₁ ≥ x₂ ≥ … ≥ xₙ`, two exponent vectors `a`, `g` with equal totals and every tail sum of `a` at least that
of `g`: `∏ xⱼ^aⱼ ≤ ∏ xⱼ^gⱼ` (Abel summation, by induction from the front).

`polytope_max`: for a monotone set function `z` with `z ∅ = 0`, a removal order `σ` and parameters non-increasing along it, every exponent
vector `a` with `Σ_{e ∈ suffix} a_e ≥ z(suffix)` on the suffixes of `σ` and total `z(S)` has `∏ x^a ≤ ∏_k x_{σ_k}^{z(S_k) − z(S_{k+1})}`
(`tropPow`) - the greedy vertex of the generalised permutahedron `{a : Σ_{e∈γ} a_e ≥ z(γ), Σ_S a = z(S)}` in the sector of `σ`.

With `z = loop number + [mass-momentum spanning]` (`zF`) `tropPow` is `u_trop · v_trop` of the sampler (`tropReplay_mul`), and
`mass_term_le`: every mass term `x_{e₀} ∏_{e∈C} x_e` (`C` a cotree, `e₀` massive) of `F = U·Σ m²x + …` is `≤ u_trop · v_trop`.
Cited, not proved here: every monomial of the momentum part of `F` satisfies the same inequalities (Schultka 2018; Borinsky 2020, Thm 8.1:
the Newton polytope of `F` is this generalised permutahedron).
-/
namespace Momtrop.C07
open Momtrop

/-! ### majorization -/
def PA : List (ℝ × ℕ × ℕ) → ℝ
  | [] => 1
  | t :: l => t.1 ^ t.2.1 * PA l
def PG : List (ℝ × ℕ × ℕ) → ℝ
  | [] => 1
  | t :: l => t.1 ^ t.2.2 * PG l
def SA : List (ℝ × ℕ × ℕ) → ℕ
  | [] => 0
  | t :: l => t.2.1 + SA l
def SG : List (ℝ × ℕ × ℕ) → ℕ
  | [] => 0
  | t :: l => t.2.2 + SG l
/-- every tail sum of `g` is at most that of `a` -/
def Dom : List (ℝ × ℕ × ℕ) → Prop
  | [] => True
  | t :: l => SG (t :: l) ≤ SA (t :: l) ∧ Dom l

theorem dom_self : ∀ (l : List (ℝ × ℕ × ℕ)), Dom l → SG l ≤ SA l
  | [], _ => by simp [SG, SA]
  | _ :: _, h => h.1

theorem PG_pos : ∀ (l : List (ℝ × ℕ × ℕ)), (∀ t ∈ l, 0 < t.1) → 0 < PG l
  | [], _ => by simp [PG]
  | t :: l, h => by
    rw [PG]
    exact mul_pos (pow_pos (h t List.mem_cons_self) _) (PG_pos l fun u hu => h u (List.mem_cons_of_mem _ hu))

theorem majorization_aux : ∀ (l : List (ℝ × ℕ × ℕ)) (y : ℝ), 0 < y → (∀ t ∈ l, 0 < t.1 ∧ t.1 ≤ y) →
    l.Pairwise (fun t u => u.1 ≤ t.1) → Dom l → PA l * y ^ SG l ≤ y ^ SA l * PG l := by
  intro l
  induction l with
  | nil => intro y _ _ _ _; simp [PA, SG, SA, PG]
  | cons t l ih =>
    intro y hy hb hs hdom
    obtain ⟨x, a, g⟩ := t
    rw [List.pairwise_cons] at hs
    have hx := hb (x, a, g) List.mem_cons_self
    simp only at hx
    have hbl : ∀ u ∈ l, 0 < u.1 ∧ u.1 ≤ x := fun u hu => ⟨(hb u (List.mem_cons_of_mem _ hu)).1, hs.1 u hu⟩
    have ih' := ih x hx.1 hbl hs.2 hdom.2
    have hdl := dom_self l hdom.2
    have hd := hdom.1
    simp only [SG, SA] at hd
    obtain ⟨d, hdeq⟩ := Nat.exists_eq_add_of_le hdl
    obtain ⟨d', hd'eq⟩ := Nat.exists_eq_add_of_le hd
    have hPG : 0 < PG l := PG_pos l fun u hu => (hbl u hu).1
    -- PA l ≤ x^d PG l
    have h1 : PA l ≤ x ^ d * PG l := by
      rw [hdeq, pow_add] at ih'
      have hpos : 0 < x ^ SG l := pow_pos hx.1 _
      have : PA l * x ^ SG l ≤ (x ^ d * PG l) * x ^ SG l := by
        calc PA l * x ^ SG l ≤ x ^ SG l * x ^ d * PG l := ih'
          _ = (x ^ d * PG l) * x ^ SG l := by ring
      exact le_of_mul_le_mul_right this hpos
    have hexp : a + d = d' + g := by omega
    have h2 : x ^ a * PA l ≤ y ^ d' * (x ^ g * PG l) := by
      calc x ^ a * PA l ≤ x ^ a * (x ^ d * PG l) := mul_le_mul_of_nonneg_left h1 (pow_pos hx.1 _).le
        _ = x ^ d' * (x ^ g * PG l) := by rw [← mul_assoc, ← pow_add, hexp, pow_add, mul_assoc]
        _ ≤ y ^ d' * (x ^ g * PG l) :=
          mul_le_mul_of_nonneg_right (pow_le_pow_left₀ hx.1.le hx.2 d') (mul_pos (pow_pos hx.1 _) hPG).le
    simp only [PA, SG, SA, PG]
    rw [hd'eq]
    calc x ^ a * PA l * y ^ (g + SG l) ≤ y ^ d' * (x ^ g * PG l) * y ^ (g + SG l) :=
          mul_le_mul_of_nonneg_right h2 (pow_pos hy _).le
      _ = y ^ (g + SG l + d') * (x ^ g * PG l) := by rw [pow_add (y) (g + SG l) d']; ring

/-- **majorization**: equal totals, dominated tails, `x` positive and non-increasing -/
theorem majorization (l : List (ℝ × ℕ × ℕ)) (hpos : ∀ t ∈ l, 0 < t.1) (hs : l.Pairwise (fun t u => u.1 ≤ t.1))
    (hdom : Dom l) (heq : SA l = SG l) : PA l ≤ PG l := by
  cases l with
  | nil => simp [PA, PG]
  | cons t l =>
    have hy := hpos t List.mem_cons_self
    have hb : ∀ u ∈ t :: l, 0 < u.1 ∧ u.1 ≤ t.1 := by
      intro u hu
      refine ⟨hpos u hu, ?_⟩
      rcases List.mem_cons.mp hu with rfl | hu
      · exact le_rfl
      · exact (List.pairwise_cons.mp hs).1 u hu
    have := majorization_aux (t :: l) t.1 hy hb hs hdom
    rw [heq, mul_comm] at this
    exact le_of_mul_le_mul_left this (pow_pos hy _)

/-! ### the greedy vertex of a generalised permutahedron -/
section polytope
variable (z : Finset ℕ → ℕ)

/-- `∏_k x_{σ_k}^{z(S_k) − z(S_{k+1})}`, `S_k` the edges not yet removed before step `k` -/
noncomputable def tropPow (x : ℕ → ℝ) : List ℕ → ℝ
  | [] => 1
  | e :: rest => x e ^ (z (insert e rest.toFinset) - z rest.toFinset) * tropPow x rest

noncomputable def triples (x : ℕ → ℝ) (a : ℕ → ℕ) : List ℕ → List (ℝ × ℕ × ℕ)
  | [] => []
  | e :: rest => (x e, a e, z (insert e rest.toFinset) - z rest.toFinset) :: triples x a rest

variable {z}

theorem PG_triples (x : ℕ → ℝ) (a : ℕ → ℕ) : ∀ σ : List ℕ, PG (triples z x a σ) = tropPow z x σ
  | [] => rfl
  | e :: rest => by rw [triples, PG, tropPow, PG_triples x a rest]

theorem PA_triples (x : ℕ → ℝ) (a : ℕ → ℕ) : ∀ σ : List ℕ, PA (triples z x a σ) = (σ.map fun e => x e ^ a e).prod
  | [] => rfl
  | e :: rest => by rw [triples, PA, List.map_cons, List.prod_cons, PA_triples x a rest]

theorem SA_triples (x : ℕ → ℝ) (a : ℕ → ℕ) : ∀ σ : List ℕ, SA (triples z x a σ) = (σ.map a).sum
  | [] => rfl
  | e :: rest => by rw [triples, SA, List.map_cons, List.sum_cons, SA_triples x a rest]

theorem SG_triples (hz0 : z ∅ = 0) (hzm : ∀ A e, z A ≤ z (insert e A)) (x : ℕ → ℝ) (a : ℕ → ℕ) :
    ∀ σ : List ℕ, SG (triples z x a σ) = z σ.toFinset
  | [] => by simp [triples, SG, hz0]
  | e :: rest => by
    rw [triples, SG, SG_triples hz0 hzm x a rest, List.toFinset_cons]
    have := hzm rest.toFinset e
    simp only
    omega

theorem mem_triples (x : ℕ → ℝ) (a : ℕ → ℕ) : ∀ (σ : List ℕ) (t : ℝ × ℕ × ℕ), t ∈ triples z x a σ → ∃ e ∈ σ, t.1 = x e
  | [], t, h => by simp [triples] at h
  | e :: rest, t, h => by
    rw [triples, List.mem_cons] at h
    rcases h with rfl | h
    · exact ⟨e, List.mem_cons_self, rfl⟩
    · obtain ⟨f, hf, hfe⟩ := mem_triples x a rest t h
      exact ⟨f, List.mem_cons_of_mem _ hf, hfe⟩

/-- **the greedy vertex maximises every monomial of the polytope in its sector** -/
theorem polytope_max (hz0 : z ∅ = 0) (hzm : ∀ A e, z A ≤ z (insert e A)) (x : ℕ → ℝ) (σ : List ℕ)
    (hpos : ∀ e ∈ σ, 0 < x e) (hsorted : σ.Pairwise fun p q => x q ≤ x p) (a : ℕ → ℕ)
    (hdom : ∀ k, z (σ.drop k).toFinset ≤ ((σ.drop k).map a).sum) (htot : (σ.map a).sum = z σ.toFinset) :
    (σ.map fun e => x e ^ a e).prod ≤ tropPow z x σ := by
  rw [← PA_triples (z := z) x a σ, ← PG_triples x a σ]
  apply majorization
  · intro t ht
    obtain ⟨e, he, hte⟩ := mem_triples x a σ t ht
    rw [hte]; exact hpos e he
  · clear hpos hdom htot
    induction σ with
    | nil => simp [triples]
    | cons e rest ih =>
      rw [List.pairwise_cons] at hsorted
      rw [triples, List.pairwise_cons]
      refine ⟨?_, ih hsorted.2⟩
      intro t ht
      obtain ⟨f, hf, hfe⟩ := mem_triples x a rest t ht
      simp only
      rw [hfe]; exact hsorted.1 f hf
  · clear hpos hsorted htot
    induction σ with
    | nil => simp [triples, Dom]
    | cons e rest ih =>
      refine ⟨?_, ?_⟩
      · have h1 := SG_triples hz0 hzm x a (e :: rest)
        have h2 := SA_triples (z := z) x a (e :: rest)
        rw [triples] at h1 h2
        rw [h1, h2]
        exact hdom 0
      · apply ih
        intro k
        exact hdom (k + 1)
  · rw [SA_triples, SG_triples hz0 hzm, htot]

end polytope

/-! ### `z = loop number + [mass-momentum spanning]` -/
section F
variable (r : Finset ℕ → ℕ) (mm : Finset ℕ → Bool)

/-- the `z`-function of the second Symanzik polynomial on the table flags -/
def zF (A : Finset ℕ) : ℕ := r A + (if mm A = true then 1 else 0)

/-- what is used of the spanning flag: false on the empty graph, never lost by adding an edge -/
structure SpanLike : Prop where
  empty : mm ∅ = false
  mono : ∀ A e, mm A = true → mm (insert e A) = true

variable {r mm}

theorem zF_zero (h : NullityLike r) (hm : SpanLike mm) : zF r mm ∅ = 0 := by
  simp [zF, h.zero, hm.empty]

theorem zF_mono (h : NullityLike r) (hm : SpanLike mm) (A : Finset ℕ) (e : ℕ) : zF r mm A ≤ zF r mm (insert e A) := by
  by_cases he : e ∈ A
  · rw [Finset.insert_eq_of_mem he]
  · have h1 := (h.step A e he).1
    unfold zF
    by_cases hA : mm A = true
    · rw [if_pos hA, if_pos (hm.mono A e hA)]; omega
    · rw [if_neg hA]; omega

theorem r_mono (h : NullityLike r) {B A : Finset ℕ} (hBA : B ⊆ A) : r B ≤ r A := by
  have := (union_bounds h B (A \ B) Finset.disjoint_sdiff).1
  rwa [Finset.union_sdiff_of_subset hBA] at this

/-- a cotree meets every subgraph in at least as many edges as the subgraph has loops -/
theorem cotree_inter_ge (h : NullityLike r) (S C : Finset ℕ) (hC : Cotree r S C) (A : Finset ℕ) (hA : A ⊆ S) :
    r A ≤ (A ∩ C).card := by
  have h0 : r (A \ C) = 0 := by
    have := r_mono h (Finset.sdiff_subset_sdiff hA (le_refl C))
    rw [hC.2.1] at this
    omega
  have hd : Disjoint (A \ C) (A ∩ C) := by
    rw [Finset.disjoint_left]
    intro y hy hy'
    exact (Finset.mem_sdiff.mp hy).2 (Finset.mem_inter.mp hy').2
  have := (union_bounds h (A \ C) (A ∩ C) hd).2
  rw [Finset.sdiff_union_inter, h0] at this
  omega

theorem sum_indicator (p : ℕ → Prop) [DecidablePred p] : ∀ (τ : List ℕ), τ.Nodup →
    (τ.map fun e => if p e then 1 else 0).sum = (τ.toFinset.filter p).card
  | [], _ => by simp
  | e :: rest, hnd => by
    rw [List.nodup_cons] at hnd
    rw [List.map_cons, List.sum_cons, sum_indicator p rest hnd.2, List.toFinset_cons, Finset.filter_insert]
    have hnot : e ∉ rest.toFinset.filter p := fun hm => hnd.1 (List.mem_toFinset.mp (Finset.mem_filter.mp hm).1)
    split
    · rw [Finset.card_insert_of_notMem hnot]; omega
    · omega

/-- **every mass term of `F` is at most `u_trop · v_trop`**: `x_{e₀} ∏_{e∈C} x_e` for a cotree `C` and an edge `e₀` that every
mass-momentum spanning subgraph contains (a massive edge) -/
theorem mass_term_le (h : NullityLike r) (hm : SpanLike mm) (x : ℕ → ℝ) (σ : List ℕ) (hσ : σ.Nodup)
    (hpos : ∀ e ∈ σ, 0 < x e) (hsorted : σ.Pairwise fun p q => x q ≤ x p)
    (C : Finset ℕ) (hC : Cotree r σ.toFinset C) (e0 : ℕ) (he0 : e0 ∈ σ) (hmass : ∀ A, mm A = true → e0 ∈ A)
    (hfull : mm σ.toFinset = true) :
    x e0 * ∏ e ∈ C, x e ≤ tropPow (zF r mm) x σ := by
  let a : ℕ → ℕ := fun e => (if e ∈ C then 1 else 0) + (if e = e0 then 1 else 0)
  have hsum : ∀ τ : List ℕ, τ.Nodup → (τ.map a).sum = (τ.toFinset ∩ C).card + (if e0 ∈ τ then 1 else 0) := by
    intro τ hτ
    simp only [a]
    rw [List.sum_map_add, sum_indicator (· ∈ C) τ hτ, sum_indicator (· = e0) τ hτ, Finset.filter_mem_eq_inter]
    congr 1
    by_cases hmem : e0 ∈ τ
    · rw [if_pos hmem]
      have : τ.toFinset.filter (· = e0) = {e0} := by
        ext y; simp only [Finset.mem_filter, List.mem_toFinset, Finset.mem_singleton]
        exact ⟨fun hh => hh.2, fun hh => ⟨hh ▸ hmem, hh⟩⟩
      rw [this, Finset.card_singleton]
    · rw [if_neg hmem]
      have : τ.toFinset.filter (· = e0) = ∅ := by
        ext y; simp only [Finset.mem_filter, List.mem_toFinset, Finset.notMem_empty, iff_false]
        rintro ⟨hy, rfl⟩; exact hmem hy
      rw [this, Finset.card_empty]
  have hdom : ∀ k, zF r mm (σ.drop k).toFinset ≤ ((σ.drop k).map a).sum := by
    intro k
    have hnd : (σ.drop k).Nodup := hσ.sublist (List.drop_sublist k σ)
    have hsub : (σ.drop k).toFinset ⊆ σ.toFinset := by
      intro y hy
      rw [List.mem_toFinset] at hy ⊢
      exact List.mem_of_mem_drop hy
    rw [hsum _ hnd]
    have h1 := cotree_inter_ge h σ.toFinset C hC _ hsub
    unfold zF
    by_cases hmk : mm (σ.drop k).toFinset = true
    · have := List.mem_toFinset.mp (hmass _ hmk)
      rw [if_pos hmk, if_pos this]; omega
    · rw [if_neg hmk]; omega
  have htot : (σ.map a).sum = zF r mm σ.toFinset := by
    rw [hsum σ hσ, if_pos he0, Finset.inter_eq_right.mpr hC.1, hC.2.2]
    unfold zF
    rw [if_pos hfull]
  have := polytope_max (zF_zero h hm) (zF_mono h hm) x σ hpos hsorted a hdom htot
  refine le_trans (le_of_eq ?_) this
  rw [← List.prod_toFinset _ hσ]
  simp only [a, pow_add]
  rw [Finset.prod_mul_distrib]
  have e1 : ∏ e ∈ σ.toFinset, x e ^ (if e ∈ C then 1 else 0) = ∏ e ∈ C, x e := by
    have : ∀ e, x e ^ (if e ∈ C then 1 else 0) = if e ∈ C then x e else 1 := by
      intro e; split <;> simp
    simp only [this]
    rw [Finset.prod_ite_mem, Finset.inter_eq_right.mpr hC.1]
  have e2 : ∏ e ∈ σ.toFinset, x e ^ (if e = e0 then 1 else 0) = x e0 := by
    rw [Finset.prod_eq_single e0]
    · simp
    · intro b _ hb; simp [hb]
    · intro hn; exact absurd (List.mem_toFinset.mpr he0) hn
  rw [e1, e2, mul_comm]

/-- the spanning part of the exponent -/
def mInd (mm : Finset ℕ → Bool) (A : Finset ℕ) : ℕ := if mm A = true then 1 else 0

theorem tropPow_split (h : NullityLike r) (hm : SpanLike mm) (x : ℕ → ℝ) : ∀ σ : List ℕ, σ.Nodup →
    tropPow (zF r mm) x σ = greedyProd r x σ * tropPow (mInd mm) x σ
  | [], _ => by simp [tropPow, greedyProd]
  | e :: rest, hnd => by
    rw [List.nodup_cons] at hnd
    have heR : e ∉ rest.toFinset := fun hmem => hnd.1 (List.mem_toFinset.mp hmem)
    have hs := h.step rest.toFinset e heR
    rw [tropPow, tropPow, greedyProd, tropPow_split h hm x rest hnd.2]
    have hexp : zF r mm (insert e rest.toFinset) - zF r mm rest.toFinset
        = (r (insert e rest.toFinset) - r rest.toFinset) + (mInd mm (insert e rest.toFinset) - mInd mm rest.toFinset) := by
      unfold zF mInd
      by_cases hA : mm rest.toFinset = true
      · rw [if_pos hA, if_pos (hm.mono _ e hA)]; omega
      · rw [if_neg hA]; split <;> omega
    have hg : (if r rest.toFinset < r (insert e rest.toFinset) then x e else 1)
        = x e ^ (r (insert e rest.toFinset) - r rest.toFinset) := by
      split
      · have : r (insert e rest.toFinset) - r rest.toFinset = 1 := by omega
        rw [this, pow_one]
      · have : r (insert e rest.toFinset) - r rest.toFinset = 0 := by omega
        rw [this, pow_zero]
    rw [hexp, pow_add, hg]
    ring

theorem vPow_of_not (hm : SpanLike mm) (x : ℕ → ℝ) : ∀ σ : List ℕ, mm σ.toFinset = false → tropPow (mInd mm) x σ = 1
  | [], _ => rfl
  | e :: rest, hf => by
    rw [List.toFinset_cons] at hf
    have hrest : mm rest.toFinset = false := by
      by_contra hc
      have := hm.mono rest.toFinset e (by simpa using hc)
      rw [hf] at this; cases this
    rw [tropPow, vPow_of_not hm x rest hrest]
    simp [mInd, hf, hrest]

end F

/-! ### the sampler's `u_trop · v_trop` -/
section link2
variable {β : Type}

theorem tropReplay_snd_not (T : STable ℝ) (mm : Finset ℕ → Bool) (hm : SpanLike mm)
    (hM : ∀ m, m < 2 ^ T.numEdges → T.mms m = mm (Mask.edges T.numEdges m).toFinset) :
    ∀ (tr : List (Step ℝ)) (κ u v : ℝ) (g : Mask), g < 2 ^ T.numEdges → Chain T.numEdges g tr → T.mms g = false →
      (tropReplay T κ u v g tr).2 = v := by
  intro tr
  induction tr with
  | nil => intro κ u v g _ _ _; simp [tropReplay]
  | cons s rest ih =>
    intro κ u v g hg hch hf
    obtain ⟨hmem, hpop, hch'⟩ := hch
    have hg' : s.rest < 2 ^ T.numEdges := hpop ▸ Mask.pop_lt hg (Mask.mem_edges.mp hmem).1
    have hf' : T.mms s.rest = false := by
      by_contra hc
      have h1 : mm (Mask.edges T.numEdges s.rest).toFinset = true := by rw [← hM _ hg']; simpa using hc
      have := hm.mono _ s.e h1
      rw [hpop, ← toFinset_pop T.numEdges g s.e hmem, ← hM g hg, hf] at this
      cases this
    simp only [tropReplay, hf, Bool.false_and, Bool.false_eq_true, if_false]
    exact ih _ _ _ s.rest hg' hch' hf'

theorem tropReplay_snd (T : STable ℝ) (mm : Finset ℕ → Bool) (hm : SpanLike mm)
    (hM : ∀ m, m < 2 ^ T.numEdges → T.mms m = mm (Mask.edges T.numEdges m).toFinset) (x : ℕ → ℝ) :
    ∀ (tr : List (Step ℝ)) (κ u v : ℝ) (g : Mask), g < 2 ^ T.numEdges → Chain T.numEdges g tr →
      (Mask.edges T.numEdges g).toFinset = (tr.map (·.e)).toFinset →
      (∀ (k : Nat) (hk : k < tr.length), x (tr[k].e) = kappaAt T κ tr k) → T.mms g = true →
      (tropReplay T κ u v g tr).2 = tropPow (mInd mm) x (tr.map (·.e)) := by
  intro tr
  induction tr with
  | nil =>
    intro κ u v g hg _ hcomp _ ht
    rw [hM g hg, hcomp] at ht
    simp [hm.empty] at ht
  | cons s rest ih =>
    intro κ u v g hg hch hcomp hx ht
    have hnd := chain_nodup g (s :: rest) hch
    obtain ⟨hmem, hpop, hch'⟩ := hch
    rw [List.map_cons, List.nodup_cons] at hnd
    have hg' : s.rest < 2 ^ T.numEdges := hpop ▸ Mask.pop_lt hg (Mask.mem_edges.mp hmem).1
    have hcomp' : (Mask.edges T.numEdges s.rest).toFinset = (rest.map (·.e)).toFinset := by
      rw [toFinset_pop T.numEdges g s.e hmem, ← hpop, List.map_cons, List.toFinset_cons] at hcomp
      have h1 : s.e ∉ (Mask.edges T.numEdges s.rest).toFinset := by
        rw [List.mem_toFinset, hpop, C04.edges_pop_erase T.numEdges g s.e hmem]
        exact (Mask.edges_nodup T.numEdges g).not_mem_erase
      have h2 : s.e ∉ (rest.map (·.e)).toFinset := fun hmm => hnd.1 (List.mem_toFinset.mp hmm)
      have := congrArg (fun F => F.erase s.e) hcomp
      simpa [Finset.erase_insert h1, Finset.erase_insert h2] using this
    have hx0 : x s.e = κ := by
      have := hx 0 (by simp)
      simpa [kappaAt] using this
    have hx' : ∀ (k : Nat) (hk : k < rest.length), x (rest[k].e) = kappaAt T (nextKappa T κ s) rest k := by
      intro k hk
      have := hx (k + 1) (by simpa using hk)
      simpa [kappaAt, List.take_succ_cons, List.foldl_cons] using this
    have hmg : mm (insert s.e (rest.map (·.e)).toFinset) = true := by
      rw [← hcomp', hpop, ← toFinset_pop T.numEdges g s.e hmem, ← hM g hg]; exact ht
    simp only [tropReplay, List.map_cons, tropPow]
    by_cases ht' : T.mms s.rest = true
    · have hmr : mm (rest.map (·.e)).toFinset = true := by rw [← hcomp', ← hM _ hg']; exact ht'
      simp only [ht, ht', Bool.not_true, Bool.and_false, Bool.false_eq_true, if_false]
      rw [ih _ _ _ s.rest hg' hch' hcomp' hx' ht']
      simp [mInd, hmg, hmr]
    · have ht'' : T.mms s.rest = false := by simpa using ht'
      have hmr : mm (rest.map (·.e)).toFinset = false := by rw [← hcomp', ← hM _ hg']; exact ht''
      simp only [ht, ht'', Bool.not_false, Bool.and_self, if_true]
      rw [tropReplay_snd_not T mm hm hM rest _ _ _ s.rest hg' hch' ht'', vPow_of_not hm x _ hmr]
      simp [mInd, hmg, hmr, hx0]

/-- what a successful run of the model's `permatuhedral_sampling` provides (collected from `sector_formula`, `permLoop_trop`,
`permTrace_complete`, `sector_monotone`) -/
theorem run_facts (T : STable ℝ) (xs : List ℝ) (r : PermResult ℝ) (h : permutahedral T xs = some r)
    (hpos : ∀ s ∈ permTrace T xs T.numEdges (Mask.full T.numEdges) 0, ∀ xi, s.xi = some xi → 0 < xi ∧ xi ≤ 1 ∧ 0 < T.omega s.rest) :
    let tr := permTrace T xs T.numEdges (Mask.full T.numEdges) 0
    let x : ℕ → ℝ := fun e => r.xPre.getD e 0
    r.order = tr.map (·.e) ∧ (tr.map (·.e)).Nodup ∧ (tr.map (·.e)).toFinset = Finset.range T.numEdges ∧
      Mask.full T.numEdges < 2 ^ T.numEdges ∧ Chain T.numEdges (Mask.full T.numEdges) tr ∧
      (Mask.edges T.numEdges (Mask.full T.numEdges)).toFinset = (tr.map (·.e)).toFinset ∧
      (∀ (k : Nat) (hk : k < tr.length), x (tr[k].e) = kappaAt T 1 tr k) ∧
      (∀ e ∈ tr.map (·.e), 0 < x e) ∧ ((tr.map (·.e)).Pairwise fun p q => x q ≤ x p) ∧
      (r.uTrPre, r.vTrPre) = tropReplay T 1 1 1 (Mask.full T.numEdges) tr := by
  intro tr x
  obtain ⟨hord, hnd, hchain, hget⟩ := sector_formula T xs r h
  have hfull : Mask.full T.numEdges < 2 ^ T.numEdges := by
    unfold Mask.full
    rw [Nat.shiftLeft_eq, one_mul]
    exact Nat.sub_lt (Nat.two_pow_pos _) Nat.one_pos
  unfold permutahedral at h
  simp only at h
  split at h
  · cases h
  next st hp =>
    simp only [Option.some.injEq] at h
    subst h
    simp only at hord hnd hget x ⊢
    have hcomp := permTrace_complete T xs T.numEdges (Mask.full T.numEdges) _ st hfull
      (by rw [Mask.edges_full, List.length_range]) hp
    simp only at hcomp
    have htrop := permLoop_trop T xs T.numEdges (Mask.full T.numEdges) _ st hp
    simp only at htrop
    have hxk : ∀ (k : Nat) (hk : k < tr.length), x (tr[k].e) = kappaAt T 1 tr k := by
      intro k hk
      have := (hget k hk).1
      simp only [x, List.getD_eq_getElem?_getD]
      rw [this, Option.getD_some, kappaAt_prod, one_mul]
    have hσ : (tr.map (·.e)).Nodup := by rw [← hord]; exact hnd
    have hS : (tr.map (·.e)).toFinset = Finset.range T.numEdges := by
      rw [hcomp, Mask.edges_full]
      ext y; simp
    have hx0 : ∀ e ∈ tr.map (·.e), 0 < x e := by
      intro e he
      obtain ⟨k, hk, rfl⟩ := List.getElem_of_mem he
      have hk' : k < tr.length := by simpa using hk
      rw [List.getElem_map, hxk k hk', kappaAt_prod, one_mul]
      exact (sector_monotone T tr hpos k hk').2.2
    have hprod_anti : ∀ a b : Nat, a ≤ b → ((tr.take b).map (factor T)).prod ≤ ((tr.take a).map (factor T)).prod := by
      intro a b hab
      induction b, hab using Nat.le_induction with
      | base => exact le_rfl
      | succ b _ ihb =>
        by_cases hb : b < tr.length
        · exact ((sector_monotone T tr hpos b hb).2.1).trans ihb
        · rw [List.take_of_length_le (by omega : tr.length ≤ b + 1)]
          rw [List.take_of_length_le (by omega : tr.length ≤ b)] at ihb
          exact ihb
    have hmono : (tr.map (·.e)).Pairwise fun p q => x q ≤ x p := by
      rw [List.pairwise_iff_getElem]
      intro i j hi hj hij
      have hi' : i < tr.length := by simpa using hi
      have hj' : j < tr.length := by simpa using hj
      rw [List.getElem_map, List.getElem_map, hxk i hi', hxk j hj', kappaAt_prod, kappaAt_prod, one_mul, one_mul]
      exact hprod_anti i j hij.le
    refine ⟨hord, hσ, hS, hfull, hchain, hcomp.symm, hxk, hx0, hmono, ?_⟩
    simpa [Scalar.one_real] using htrop

/-- **`u_trop · v_trop` of the sampler is the greedy vertex of the `F`-polytope of the table flags** -/
theorem uv_trop (T : STable ℝ) (top : List (TEdge β)) (mm : Finset ℕ → Bool) (hm : SpanLike mm)
    (hL : ∀ m, m < 2 ^ T.numEdges → T.loops m = loopsOf top (Mask.edges T.numEdges m).toFinset)
    (hM : ∀ m, m < 2 ^ T.numEdges → T.mms m = mm (Mask.edges T.numEdges m).toFinset)
    (hspan : T.mms (Mask.full T.numEdges) = true)
    (xs : List ℝ) (r : PermResult ℝ) (h : permutahedral T xs = some r)
    (hpos : ∀ s ∈ permTrace T xs T.numEdges (Mask.full T.numEdges) 0, ∀ xi, s.xi = some xi → 0 < xi ∧ xi ≤ 1 ∧ 0 < T.omega s.rest) :
    r.uTrPre * r.vTrPre = tropPow (zF (loopsOf top) mm) (fun e => r.xPre.getD e 0) r.order := by
  obtain ⟨hord, hσ, _, hfull, hchain, hcomp, hxk, _, _, huv⟩ := run_facts T xs r h hpos
  have h1 := tropReplay_fst T top hL (fun e => r.xPre.getD e 0) _ 1 1 1 _ hfull hchain hcomp hxk
  have h2 := tropReplay_snd T mm hm hM (fun e => r.xPre.getD e 0) _ 1 1 1 _ hfull hchain hcomp hxk hspan
  rw [one_mul] at h1
  rw [hord, tropPow_split (loopsOf_nullity top) hm _ _ hσ, ← h1, ← h2, ← huv]

/-- **C07, second tropical value: the maximum over the generalised permutahedron.** Every exponent vector `a` that satisfies the
inequalities `Σ_{e∈γ} a_e ≥ L(γ) + [γ mass-momentum spanning]` on the graphs `γ` left along the removal order, with total `L + 1`, has
`∏ x^a ≤ u_trop · v_trop` (the reported pre-rescaling values). -/
theorem F_polytope_max (T : STable ℝ) (top : List (TEdge β)) (mm : Finset ℕ → Bool) (hm : SpanLike mm)
    (hL : ∀ m, m < 2 ^ T.numEdges → T.loops m = loopsOf top (Mask.edges T.numEdges m).toFinset)
    (hM : ∀ m, m < 2 ^ T.numEdges → T.mms m = mm (Mask.edges T.numEdges m).toFinset)
    (hspan : T.mms (Mask.full T.numEdges) = true)
    (xs : List ℝ) (r : PermResult ℝ) (h : permutahedral T xs = some r)
    (hpos : ∀ s ∈ permTrace T xs T.numEdges (Mask.full T.numEdges) 0, ∀ xi, s.xi = some xi → 0 < xi ∧ xi ≤ 1 ∧ 0 < T.omega s.rest)
    (a : ℕ → ℕ)
    (hdom : ∀ k, zF (loopsOf top) mm (r.order.drop k).toFinset ≤ ((r.order.drop k).map a).sum)
    (htot : (r.order.map a).sum = zF (loopsOf top) mm r.order.toFinset) :
    (r.order.map fun e => (r.xPre.getD e 0) ^ a e).prod ≤ r.uTrPre * r.vTrPre := by
  rw [uv_trop T top mm hm hL hM hspan xs r h hpos]
  obtain ⟨hord, _, _, _, _, _, _, hx0, hmono, _⟩ := run_facts T xs r h hpos
  rw [← hord] at hx0 hmono
  exact polytope_max (zF_zero (loopsOf_nullity top) hm) (zF_mono (loopsOf_nullity top) hm) _ r.order hx0 hmono a hdom htot

/-- **every mass term of `F` is at most `u_trop · v_trop`** on the sampler: `x_{e₀} ∏_{e∈C} x_e`, `C` the complement of a spanning
forest, `e₀` an edge every mass-momentum spanning subgraph contains -/
theorem mass_terms_le (T : STable ℝ) (top : List (TEdge β)) (mm : Finset ℕ → Bool) (hm : SpanLike mm)
    (hL : ∀ m, m < 2 ^ T.numEdges → T.loops m = loopsOf top (Mask.edges T.numEdges m).toFinset)
    (hM : ∀ m, m < 2 ^ T.numEdges → T.mms m = mm (Mask.edges T.numEdges m).toFinset)
    (hspan : T.mms (Mask.full T.numEdges) = true)
    (xs : List ℝ) (r : PermResult ℝ) (h : permutahedral T xs = some r)
    (hpos : ∀ s ∈ permTrace T xs T.numEdges (Mask.full T.numEdges) 0, ∀ xi, s.xi = some xi → 0 < xi ∧ xi ≤ 1 ∧ 0 < T.omega s.rest)
    (C : Finset ℕ) (hC : Cotree (loopsOf top) (Finset.range T.numEdges) C) (e0 : ℕ) (he0 : e0 < T.numEdges)
    (hmass : ∀ A, mm A = true → e0 ∈ A) :
    (r.xPre.getD e0 0) * ∏ e ∈ C, r.xPre.getD e 0 ≤ r.uTrPre * r.vTrPre := by
  rw [uv_trop T top mm hm hL hM hspan xs r h hpos]
  obtain ⟨hord, hσ, hS, hfull, _, hcomp, _, hx0, hmono, _⟩ := run_facts T xs r h hpos
  rw [← hord] at hx0 hmono hσ hS hcomp
  have hfullmm : mm r.order.toFinset = true := by rw [← hcomp, ← hM _ hfull]; exact hspan
  exact mass_term_le (loopsOf_nullity top) hm _ r.order hσ hx0 hmono C (hS ▸ hC) e0
    (List.mem_toFinset.mp (hS ▸ Finset.mem_range.mpr he0)) hmass hfullmm

end link2

/-! ### the premises hold for the table the model builds from a graph -/
section model
variable {α : Type} [Scalar α]

/-- the spanning flag as a function of the edge SET -/
noncomputable def mmOf (G : TGraph α) (A : Finset ℕ) : Bool :=
  isMMSpanning G.topology G.numMassive G.externals ((A.filter (· < G.topology.length)).sort (· ≤ ·))

theorem edges_sorted (n : Nat) (m : Mask) : (Mask.edges n m).Pairwise (· ≤ ·) := by
  unfold Mask.edges
  exact (List.pairwise_lt_range.imp (fun h => Nat.le_of_lt h)).filter _

theorem sort_edges (n : Nat) (m : Mask) : ((Mask.edges n m).toFinset.filter (· < n)).sort (· ≤ ·) = Mask.edges n m := by
  rw [Finset.filter_true_of_mem]
  · exact (List.toFinset_sort (r := (· ≤ ·)) (Mask.edges_nodup n m)).mpr (edges_sorted n m)
  · intro x hx
    exact (Mask.mem_edges.mp (List.mem_toFinset.mp hx)).1

/-- on the edge set of a mask `mmOf` is the stored flag -/
theorem mmOf_edges (G : TGraph α) (D : Nat) (m : Mask) :
    mmOf G (Mask.edges G.topology.length m).toFinset = (preEntry G D m).1 := by
  unfold mmOf
  rw [sort_edges, (C03.preEntry_flags G D m).2]

theorem mmOf_spanLike (G : TGraph α)
    (hnm : G.numMassive = ((List.range G.topology.length).filter (isMassive G.topology)).length) : SpanLike (mmOf G) := by
  refine ⟨?_, ?_⟩
  · unfold mmOf
    rw [Finset.filter_empty, Finset.sort_empty]
    exact C03.spanning_nil _ _ _
  · intro A e hA
    by_cases he : e < G.topology.length
    · unfold mmOf at hA ⊢
      rw [C03.spanning_iff] at hA ⊢
      set s' := (A.filter (· < G.topology.length)).sort (· ≤ ·) with hs'
      set s := ((insert e A).filter (· < G.topology.length)).sort (· ≤ ·) with hs
      have hnd' : s'.Nodup := Finset.sort_nodup _ _
      have hnd : s.Nodup := Finset.sort_nodup _ _
      have hsub : ∀ x ∈ s', x ∈ s := by
        intro x hx
        rw [hs', Finset.mem_sort, Finset.mem_filter] at hx
        rw [hs, Finset.mem_sort, Finset.mem_filter]
        exact ⟨Finset.mem_insert_of_mem hx.1, hx.2⟩
      have hvalid : ∀ x ∈ s, x ∈ List.range G.topology.length := by
        intro x hx
        rw [hs, Finset.mem_sort, Finset.mem_filter] at hx
        exact List.mem_range.mpr hx.2
      refine ⟨?_, C01.momentum_spanning_mono G.topology G.externals s' s hnd' hnd hsub hA.2⟩
      apply le_antisymm
      · rw [hnm]
        exact C01.filter_length_mono _ _ _ hnd hvalid
      · rw [← hA.1]
        exact C01.filter_length_mono _ _ _ hnd' hsub
    · unfold mmOf at hA ⊢
      rw [Finset.filter_insert, if_neg he]
      exact hA

/-- a massive edge lies in every mass-momentum spanning subgraph: the premise `hmass` of `mass_terms_le` -/
theorem mmOf_contains_massive (G : TGraph α)
    (hnm : G.numMassive = ((List.range G.topology.length).filter (isMassive G.topology)).length)
    (e0 : ℕ) (he0 : e0 < G.topology.length) (hmassive : isMassive G.topology e0 = true) (A : Finset ℕ)
    (hA : mmOf G A = true) : e0 ∈ A := by
  unfold mmOf at hA
  rw [C03.spanning_iff] at hA
  by_contra hne
  set s' := (A.filter (· < G.topology.length)).sort (· ≤ ·) with hs'
  have hnd' : s'.Nodup := Finset.sort_nodup _ _
  have hsub : (s'.filter (isMassive G.topology)).Subperm (((List.range G.topology.length).filter (isMassive G.topology)).erase e0) := by
    apply List.subperm_of_subset (hnd'.filter _)
    intro x hx
    rw [List.mem_filter] at hx
    rw [hs', Finset.mem_sort, Finset.mem_filter] at hx
    rw [(List.nodup_range.filter _).mem_erase_iff, List.mem_filter, List.mem_range]
    exact ⟨fun hxe => hne (hxe ▸ hx.1.1), hx.1.2, hx.2⟩
  have hlen := hsub.length_le
  have hmem : e0 ∈ (List.range G.topology.length).filter (isMassive G.topology) := by
    rw [List.mem_filter, List.mem_range]; exact ⟨he0, hmassive⟩
  rw [List.length_erase_of_mem hmem, hA.1, hnm] at hlen
  have : 0 < ((List.range G.topology.length).filter (isMassive G.topology)).length := List.length_pos_of_mem hmem
  omega

/-- **the premises of `uv_trop`, `F_polytope_max`, `mass_terms_le`, `uTrop_is_largest_monomial` hold for every sampling table whose flags
are those of `preEntry`** (what `generate_from_tropical` stores; C03 ties them to the code) -/
theorem premises_of_preEntry (T : STable ℝ) (G : TGraph ℝ) (D : Nat) (hn : T.numEdges = G.topology.length)
    (hnm : G.numMassive = ((List.range G.topology.length).filter (isMassive G.topology)).length)
    (hl : ∀ m, m < 2 ^ T.numEdges → T.loops m = (preEntry G D m).2.1)
    (hs : ∀ m, m < 2 ^ T.numEdges → T.mms m = (preEntry G D m).1) :
    SpanLike (mmOf G) ∧
      (∀ m, m < 2 ^ T.numEdges → T.loops m = loopsOf G.topology (Mask.edges T.numEdges m).toFinset) ∧
      (∀ m, m < 2 ^ T.numEdges → T.mms m = mmOf G (Mask.edges T.numEdges m).toFinset) := by
  refine ⟨mmOf_spanLike G hnm, ?_, ?_⟩
  · intro m hm
    rw [hl m hm, hn, preEntry_loops]
  · intro m hm
    rw [hs m hm, hn, mmOf_edges G D m]

end model

end Momtrop.C07
