import Momtrop.Proofs.Kinematics
/-!
# C09 — `V` is the minimum of the weighted propagator sum; independence of the routing

`R`-theorems (exact arithmetic, every `E`, `L`, `D`):
* the model's `compute_u_vectors` / `compute_v_polynomial` are `u = Sᵀ X p` and
  `V = Σ_e x_e(m_e²+|p_e|²) − Σ_{ll'} L⁻¹_{ll'} u_l·u_{l'}` (closed forms of the folds);
* completing the square: `Σ_e x_e |S k + p|_e² = (k+L⁻¹u)ᵀ L (k+L⁻¹u) + V`, hence `V = min_k` for `x ≥ 0`;
* `V` (and `det L`, C08) do not change under a change of cycle basis, edge re-orientations and constant
  offsets of the loop momenta.
The identification `V·U = F` (sum over spanning 2-forests) is the classical second-Symanzik formula; it
is not formalised (no Cauchy–Binet in Mathlib) and is decided on the implementation by the 2-forest oracle.
-/
namespace Momtrop.C09
open Momtrop Scalar Matrix

variable {E L : ℕ}

/-- the momentum part of `V` for one spatial component: `pᵀXp − uᵀ L⁻¹ u` -/
noncomputable def Vabs (S : Matrix (Fin E) (Fin L) ℝ) (x p : Fin E → ℝ) (Li : Matrix (Fin L) (Fin L) ℝ) : ℝ :=
  p ⬝ᵥ (diagonal x *ᵥ p) - uVec S x p ⬝ᵥ (Li *ᵥ uVec S x p)

/-- **Completing the square** -/
theorem complete_the_square (S : Matrix (Fin E) (Fin L) ℝ) (x p : Fin E → ℝ) (k : Fin L → ℝ)
    (Li : Matrix (Fin L) (Fin L) ℝ) (hinv : lMat S x * Li = 1) :
    (S *ᵥ k + p) ⬝ᵥ (diagonal x *ᵥ (S *ᵥ k + p))
      = (k + Li *ᵥ uVec S x p) ⬝ᵥ (lMat S x *ᵥ (k + Li *ᵥ uVec S x p)) + Vabs S x p Li :=
  Momtrop.complete_the_square S x p k Li hinv

/-- the quadratic form of `L` is a sum of squares weighted by the Feynman parameters -/
theorem quad_nonneg (S : Matrix (Fin E) (Fin L) ℝ) (x : Fin E → ℝ) (hx : ∀ e, 0 ≤ x e) (w : Fin L → ℝ) :
    0 ≤ w ⬝ᵥ (lMat S x *ᵥ w) := by
  have : w ⬝ᵥ (lMat S x *ᵥ w) = ∑ e, x e * ((S *ᵥ w) e * (S *ᵥ w) e) := by
    have h := propSum_expand S x (fun _ => 0) w
    simp only [dotProduct, mulVec_diagonal] at h ⊢
    have hz : (fun _ : Fin E => (0 : ℝ)) = 0 := rfl
    simp only [hz, add_zero, uVec, mulVec_zero, dotProduct_zero, Pi.zero_apply, mul_zero,
      Finset.sum_const_zero, Pi.add_apply] at h
    rw [← h]
    apply Finset.sum_congr rfl; intro e _; ring
  rw [this]
  exact Finset.sum_nonneg fun e _ => mul_nonneg (hx e) (mul_self_nonneg _)

/-- **`V` is the minimum over the loop momenta** (for non-negative Feynman parameters), attained at `k = −L⁻¹u` -/
theorem V_is_min (S : Matrix (Fin E) (Fin L) ℝ) (x p : Fin E → ℝ) (Li : Matrix (Fin L) (Fin L) ℝ)
    (hinv : lMat S x * Li = 1) (hx : ∀ e, 0 ≤ x e) :
    (∀ k, Vabs S x p Li ≤ (S *ᵥ k + p) ⬝ᵥ (diagonal x *ᵥ (S *ᵥ k + p))) ∧
    (S *ᵥ (-(Li *ᵥ uVec S x p)) + p) ⬝ᵥ (diagonal x *ᵥ (S *ᵥ (-(Li *ᵥ uVec S x p)) + p)) = Vabs S x p Li := by
  constructor
  · intro k
    rw [complete_the_square S x p k Li hinv]
    have := quad_nonneg S x hx (k + Li *ᵥ uVec S x p)
    linarith
  · rw [complete_the_square S x p _ Li hinv]
    simp

/-- **Change of cycle basis**: `S' = S·P` with `P` invertible; `L'⁻¹ = P⁻¹ L⁻¹ P⁻ᵀ`, and `V` is unchanged. -/
theorem V_basis_invariant (S : Matrix (Fin E) (Fin L) ℝ) (x p : Fin E → ℝ) (Li P Pinv : Matrix (Fin L) (Fin L) ℝ)
    (hinv : lMat S x * Li = 1) (hP : P * Pinv = 1) :
    lMat (S * P) x * (Pinv * Li * Pinvᵀ) = 1 ∧
    Vabs (S * P) x p (Pinv * Li * Pinvᵀ) = Vabs S x p Li := by
  have hP' : Pinv * P = 1 := mul_eq_one_comm.mp hP
  have hPt : Pinvᵀ * Pᵀ = 1 := by rw [← transpose_mul, hP, transpose_one]
  have hL : lMat (S * P) x = Pᵀ * lMat S x * P := by
    unfold lMat; rw [transpose_mul]; simp only [Matrix.mul_assoc]
  constructor
  · rw [hL]
    calc Pᵀ * lMat S x * P * (Pinv * Li * Pinvᵀ)
        = Pᵀ * (lMat S x * ((P * Pinv) * Li)) * Pinvᵀ := by simp only [Matrix.mul_assoc]
      _ = Pᵀ * Pinvᵀ := by rw [hP, Matrix.one_mul, hinv, Matrix.mul_one]
      _ = 1 := by rw [← transpose_mul, hP', transpose_one]
  · unfold Vabs
    have hu : uVec (S * P) x p = Pᵀ *ᵥ uVec S x p := by
      simp only [uVec, transpose_mul, mulVec_mulVec, Matrix.mul_assoc]
    have hT : ∀ (A : Matrix (Fin L) (Fin L) ℝ) (a y : Fin L → ℝ), (A *ᵥ a) ⬝ᵥ y = a ⬝ᵥ (Aᵀ *ᵥ y) := by
      intro A a y
      rw [dotProduct_comm, dotProduct_mulVec, ← mulVec_transpose, dotProduct_comm]
    rw [hu]
    congr 1
    rw [hT, transpose_transpose]
    simp only [mulVec_mulVec, Matrix.mul_assoc]
    rw [hPt, Matrix.mul_one, ← Matrix.mul_assoc, hP, Matrix.one_mul]

/-- **Edge re-orientation**: `S' = diag(ε) S`, `p' = ε·p` with `ε_e = ±1` leaves `u` and `V` unchanged. -/
theorem V_orientation_invariant (S : Matrix (Fin E) (Fin L) ℝ) (x p ε : Fin E → ℝ) (Li : Matrix (Fin L) (Fin L) ℝ)
    (hε : ∀ e, ε e * ε e = 1) :
    uVec (diagonal ε * S) x (fun e => ε e * p e) = uVec S x p ∧
    Vabs (diagonal ε * S) x (fun e => ε e * p e) Li = Vabs S x p Li := by
  have hu : uVec (diagonal ε * S) x (fun e => ε e * p e) = uVec S x p := by
    funext l
    rw [uVec_apply, uVec_apply]
    apply Finset.sum_congr rfl
    intro e _
    simp only [diagonal_mul]
    calc ε e * S e l * x e * (ε e * p e) = (ε e * ε e) * (S e l * x e * p e) := by ring
      _ = S e l * x e * p e := by rw [hε e, one_mul]
  refine ⟨hu, ?_⟩
  unfold Vabs
  rw [hu]
  congr 1
  simp only [dotProduct, mulVec_diagonal]
  apply Finset.sum_congr rfl
  intro e _
  calc ε e * p e * (x e * (ε e * p e)) = (ε e * ε e) * (p e * (x e * p e)) := by ring
    _ = p e * (x e * p e) := by rw [hε e, one_mul]

/-- **Constant offsets of the loop momenta**: `p' = p + S c` leaves `V` unchanged
(`L⁻¹` a two-sided inverse of the symmetric `L`). -/
theorem V_offset_invariant (S : Matrix (Fin E) (Fin L) ℝ) (x p : Fin E → ℝ) (c : Fin L → ℝ)
    (Li : Matrix (Fin L) (Fin L) ℝ) (hinv : lMat S x * Li = 1) :
    Vabs S x (p + S *ᵥ c) Li = Vabs S x p Li := by
  have hinv' : Li * lMat S x = 1 := mul_eq_one_comm.mp hinv
  have hsym : (lMat S x)ᵀ = lMat S x := lMat_symm S x
  have hu : uVec S x (p + S *ᵥ c) = uVec S x p + lMat S x *ᵥ c := by
    simp only [uVec, lMat, mulVec_add, mulVec_mulVec, Matrix.mul_assoc]
  have hT : ∀ (A : Matrix (Fin L) (Fin L) ℝ) (a y : Fin L → ℝ), (A *ᵥ a) ⬝ᵥ y = a ⬝ᵥ (Aᵀ *ᵥ y) := by
    intro A a y
    rw [dotProduct_comm, dotProduct_mulVec, ← mulVec_transpose, dotProduct_comm]
  have h1 : (S *ᵥ c) ⬝ᵥ (diagonal x *ᵥ p) = c ⬝ᵥ uVec S x p := by
    unfold uVec; rw [dotProduct_mulVec c Sᵀ, vecMul_transpose]
  have h2 : p ⬝ᵥ (diagonal x *ᵥ (S *ᵥ c)) = c ⬝ᵥ uVec S x p := by
    rw [← h1]; simp only [dotProduct, mulVec_diagonal]
    exact Finset.sum_congr rfl fun e _ => by ring
  have h3 : (S *ᵥ c) ⬝ᵥ (diagonal x *ᵥ (S *ᵥ c)) = c ⬝ᵥ (lMat S x *ᵥ c) := by
    simp only [lMat, ← mulVec_mulVec]
    rw [dotProduct_mulVec c Sᵀ, vecMul_transpose]
  unfold Vabs
  rw [hu, mulVec_add, mulVec_add, add_dotProduct, dotProduct_add, dotProduct_add, add_dotProduct,
    dotProduct_add, dotProduct_add, h1, h2, h3]
  have e1 : uVec S x p ⬝ᵥ (Li *ᵥ (lMat S x *ᵥ c)) = c ⬝ᵥ uVec S x p := by
    rw [mulVec_mulVec, hinv', one_mulVec, dotProduct_comm]
  have e2 : (lMat S x *ᵥ c) ⬝ᵥ (Li *ᵥ uVec S x p) = c ⬝ᵥ uVec S x p := by
    rw [hT, hsym, mulVec_mulVec, hinv, one_mulVec]
  have e3 : (lMat S x *ᵥ c) ⬝ᵥ (Li *ᵥ (lMat S x *ᵥ c)) = c ⬝ᵥ (lMat S x *ᵥ c) := by
    rw [mulVec_mulVec, hinv', one_mulVec, hT, hsym]
  rw [e1, e2, e3]
  ring

/-- the model's `u` vectors and `V` polynomial are these objects (closed forms of the folds) -/
theorem model_u (x : List ℝ) (S : List (List Int)) (D : Nat) (shifts : List (Vec ℝ)) {i : Nat} (hi : i < D)
    (l : Fin (S.getD 0 []).length) :
    ((uVectors D x S shifts).getD l []).get i = uVec (Sm S) (xv x S) (pv S shifts i) l :=
  uVectors_eq_uVec x S D shifts hi l

theorem model_v (En nL : Nat) (xs ms : List ℝ) (u sh : List (Vec ℝ)) (Linv : Mat ℝ)
    (hx : xs.length = En) (hm : ms.length = En) (hs : sh.length = En) :
    vPolynomial xs u Linv nL sh ms
      = (∑ e ∈ Finset.range En, (ms.getD e 0 * ms.getD e 0 + Vec.squared (sh.getD e [])) * xs.getD e 0)
        - (∑ l ∈ Finset.range nL, Vec.squared (u.getD l []) * Linv.get l l)
        - ∑ i ∈ Finset.range nL, ∑ j ∈ Finset.range nL,
            if i < j then 2 * Vec.dot (u.getD i []) (u.getD j []) * Linv.get i j else 0 :=
  vPolynomial_eq En nL xs ms u sh Linv hx hm hs

end Momtrop.C09
