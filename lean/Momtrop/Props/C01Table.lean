import Momtrop.Props.C01Sector
import Momtrop.Props.C03Step
import Momtrop.Props.C05R
/-!
# C01 — the sector-density theorem on the model's own subgraph table

`C01Sector.tropical_sampling` is stated for an abstract `ω : Mask → ℝ` and abstract step data, with the hypothesis `Consistent`. Here both
are taken from the model of the code: `ω(m)`, the loop number and the spanning flag are the entries `preEntry G D m` that
`generate_from_tropical` stores, the weight of a step is the weight of the removed edge. `consistent_along` proves `Consistent` for EVERY
complete removal order from `C03.genDod_step` (the table's formula for the generalised degree of divergence), given two facts about
graphs that are hypotheses here (`RemovalFacts`: removing an edge lowers the loop number by 0 or 1 and can only lose the spanning
property; checked on the implementation's flags for all subsets of all small multigraphs in the C03 check). `tropical_sampling_table`
is the resulting statement about the table.
-/
open MeasureTheory Set
open scoped ENNReal

namespace Momtrop.C01
open Momtrop Scalar

/-- the table's generalised degree of divergence, loop number and spanning flag of subset `m` -/
noncomputable def omegaT (G : TGraph ℝ) (D : Nat) (m : Mask) : ℝ := (preEntry G D m).2.2
noncomputable def loopsT (G : TGraph ℝ) (D : Nat) (m : Mask) : Nat := (preEntry G D m).2.1
noncomputable def spanT (G : TGraph ℝ) (D : Nat) (m : Mask) : Bool := (preEntry G D m).1
/-- weight of edge `e` -/
noncomputable def weightOf (G : TGraph ℝ) (e : Nat) : ℝ := match G.topology[e]? with | some t => t.weight | none => (0:ℝ)

/-- the two graph facts the sector density rests on (hypotheses; see the file header) -/
structure RemovalFacts (G : TGraph ℝ) (D : Nat) : Prop where
  loops : ∀ g e, e ∈ Mask.edges G.topology.length g →
    loopsT G D g = loopsT G D (Mask.pop g e) ∨ loopsT G D g = loopsT G D (Mask.pop g e) + 1
  span : ∀ g e, e ∈ Mask.edges G.topology.length g → spanT G D (Mask.pop g e) = true → spanT G D g = true

/-- step data of the removals `σ` from `g`, read off the table -/
noncomputable def stepsAlong (G : TGraph ℝ) (D : Nat) : Mask → List Nat → List StepData
  | _, [] => []
  | g, e :: σ => ⟨weightOf G e, decide (loopsT G D g ≠ loopsT G D (Mask.pop g e)), spanT G D g && !spanT G D (Mask.pop g e)⟩
      :: stepsAlong G D (Mask.pop g e) σ

theorem loopsT_zero (G : TGraph ℝ) (D : Nat) : loopsT G D 0 = 0 := by
  unfold loopsT
  rw [(C03.preEntry_flags G D 0).1, Mask.edges_zero, C03.loopNumber_nil]

theorem spanT_zero (G : TGraph ℝ) (D : Nat) : spanT G D 0 = false := by
  unfold spanT
  rw [(C03.preEntry_flags G D 0).2, Mask.edges_zero, C03.spanning_nil]

theorem omegaT_zero (G : TGraph ℝ) (D : Nat) : omegaT G D 0 = 1 := by
  unfold omegaT
  rw [C03.genDod_empty, one_real]

/-- one step of a chain, in the form `Consistent` asks for -/
theorem omegaT_step (G : TGraph ℝ) (D : Nat) (F : RemovalFacts G D) (g : Mask) (e : Nat)
    (he : e ∈ Mask.edges G.topology.length g) (hg : g ≠ 0) (hne : Mask.pop g e ≠ 0) :
    omegaT G D g - omegaT G D (Mask.pop g e)
      = weightOf G e - (D : ℝ) / 2 * (if decide (loopsT G D g ≠ loopsT G D (Mask.pop g e)) then 1 else 0)
        - G.dod * (if (spanT G D g && !spanT G D (Mask.pop g e)) then 1 else 0) :=
  C03.genDod_step_bool G D g e he hg hne (F.loops g e he) (F.span g e he)

/-- the last step: a single remaining edge -/
theorem omegaT_single (G : TGraph ℝ) (D : Nat) (F : RemovalFacts G D) (g : Mask) (e : Nat)
    (he : e ∈ Mask.edges G.topology.length g) (hg : g ≠ 0) (h0 : Mask.pop g e = 0) :
    omegaT G D g - 0
      = weightOf G e - (D : ℝ) / 2 * (if decide (loopsT G D g ≠ loopsT G D (Mask.pop g e)) then 1 else 0)
        - G.dod * (if (spanT G D g && !spanT G D (Mask.pop g e)) then 1 else 0) := by
  have hL := F.loops g e he
  rw [h0, loopsT_zero] at hL ⊢
  rw [spanT_zero]
  have hω := C03.genDod_nonempty G D g hg
  simp only at hω
  have hws := C03.weightSum_pop G.topology G.topology.length g e he
  rw [h0, Mask.edges_zero] at hws
  have hnil : weightSum G.topology ([] : List Nat) = (0:ℝ) := by
    rw [C03.weightSum_real]; simp
  rw [hnil, add_zero] at hws
  have hws' : weightSum G.topology (Mask.edges G.topology.length g) = weightOf G e := by
    rw [hws]; unfold weightOf
    cases G.topology[e]? <;> rfl
  unfold omegaT
  rw [hω, hws', ← (C03.preEntry_flags G D g).1, ← (C03.preEntry_flags G D g).2]
  simp only [ofInt_real]
  have hl : loopsT G D g = (preEntry G D g).2.1 := rfl
  have hs : spanT G D g = (preEntry G D g).1 := rfl
  rw [hl] at hL
  rw [hl, hs]
  generalize (preEntry G D g).2.1 = l at hL ⊢
  generalize (preEntry G D g).1 = b
  generalize weightOf G e = w
  rcases hL with h | h
  · subst h; cases b <;> simp
  · subst h; cases b <;> simp <;> ring

/-- **`Consistent` holds along every complete removal order of every non-empty subset.** The list of `ω`'s is
`ω(g), ω(g∖s_1), …, ω(single last edge)`; the step data are those of the table. -/
theorem consistent_along (G : TGraph ℝ) (D : Nat) (F : RemovalFacts G D) :
    ∀ (σ : List Nat) (g : Mask), g < 2 ^ G.topology.length → g ≠ 0 → σ.Perm (Mask.edges G.topology.length g) →
      Consistent ((D : ℝ) / 2) G.dod (omegaT G D g :: (omegasAlong (omegaT G D) g σ).dropLast) (stepsAlong G D g σ) := by
  intro σ
  induction σ with
  | nil =>
    intro g hg h0 hp
    exact absurd (List.Perm.nil_eq hp).symm (Mask.edges_ne_nil hg h0)
  | cons e τ ih =>
    intro g hg h0 hp
    have he : e ∈ Mask.edges G.topology.length g := hp.mem_iff.mp List.mem_cons_self
    have hlt : Mask.pop g e < 2 ^ G.topology.length := Mask.pop_lt hg (Mask.mem_edges.mp he).1
    have hτ : τ.Perm (Mask.edges G.topology.length (Mask.pop g e)) := by
      rw [C04.edges_pop_erase _ g e he]
      have := hp.erase e
      simpa using this
    cases τ with
    | nil =>
      have hz : Mask.pop g e = 0 := by
        by_contra hne
        exact Mask.edges_ne_nil hlt hne (List.Perm.nil_eq hτ).symm
      simp only [omegasAlong, stepsAlong, List.dropLast_singleton, Consistent, List.headD_nil, and_true]
      exact omegaT_single G D F g e he h0 hz
    | cons e' τ' =>
      have hne : Mask.pop g e ≠ 0 := by
        intro hz
        rw [hz, Mask.edges_zero] at hτ
        exact (List.cons_ne_nil e' τ') (List.Perm.eq_nil hτ)
      have ihh := ih (Mask.pop g e) hlt hne hτ
      have hdl : (omegasAlong (omegaT G D) g (e :: e' :: τ')).dropLast
          = omegaT G D (Mask.pop g e) :: (omegasAlong (omegaT G D) (Mask.pop g e) (e' :: τ')).dropLast := by
        simp only [omegasAlong]
        rw [List.dropLast_cons_of_ne_nil (by simp)]
      rw [hdl]
      simp only [stepsAlong]
      refine ⟨?_, ihh⟩
      simp only [List.headD_cons]
      exact omegaT_step G D F g e he h0 hne

/-- the `ω`'s that enter the powers of sector `σ` of the full subset `g`, and their step data -/
noncomputable def sectorSteps (G : TGraph ℝ) (D : Nat) (g : Mask) : List Nat → List StepData
  | [] => []
  | s :: rest => stepsAlong G D (Mask.pop g s) rest

theorem sector_consistent (G : TGraph ℝ) (D : Nat) (F : RemovalFacts G D) (g : Mask) (hg : g < 2 ^ G.topology.length)
    (σ : List Nat) (hp : σ.Perm (Mask.edges G.topology.length g)) :
    Consistent ((D : ℝ) / 2) G.dod (sectorOmegas (omegaT G D) g σ) (sectorSteps G D g σ) := by
  cases σ with
  | nil => simp [sectorOmegas, omegasAlong, sectorSteps, Consistent]
  | cons s rest =>
    have hs : s ∈ Mask.edges G.topology.length g := hp.mem_iff.mp List.mem_cons_self
    have hlt : Mask.pop g s < 2 ^ G.topology.length := Mask.pop_lt hg (Mask.mem_edges.mp hs).1
    have hrest : rest.Perm (Mask.edges G.topology.length (Mask.pop g s)) := by
      rw [C04.edges_pop_erase _ g s hs]
      simpa using hp.erase s
    cases rest with
    | nil => simp [sectorOmegas, omegasAlong, sectorSteps, stepsAlong, Consistent]
    | cons e' τ' =>
      have hne : Mask.pop g s ≠ 0 := by
        intro hz
        rw [hz, Mask.edges_zero] at hrest
        exact (List.cons_ne_nil e' τ') (List.Perm.eq_nil hrest)
      have h := consistent_along G D F (e' :: τ') (Mask.pop g s) hlt hne hrest
      have hdl : sectorOmegas (omegaT G D) g (s :: e' :: τ')
          = omegaT G D (Mask.pop g s) :: (omegasAlong (omegaT G D) (Mask.pop g s) (e' :: τ')).dropLast := by
        simp only [sectorOmegas, omegasAlong]
        rw [List.dropLast_cons_of_ne_nil (by simp)]
      rw [hdl]
      exact h

theorem omegasAlong_getLast (omega : Mask → ℝ) : ∀ (σ : List Nat) (g : Mask) (h : omegasAlong omega g σ ≠ []),
    (omegasAlong omega g σ).getLast h = omega (σ.foldl Mask.pop g) := by
  intro σ
  induction σ with
  | nil => intro g h; simp [omegasAlong] at h
  | cons e τ ih =>
    intro g h
    cases τ with
    | nil => simp [omegasAlong]
    | cons e' τ' =>
      have hne : omegasAlong omega (Mask.pop g e) (e' :: τ') ≠ [] := by simp [omegasAlong]
      simp only [omegasAlong, List.foldl_cons] at ih ⊢
      rw [List.getLast_cons (by simpa [omegasAlong] using hne)]
      exact ih (Mask.pop g e) (by simpa [omegasAlong] using hne)

/-- every `ω` that enters a power in a sector is the table entry of a non-empty subset with fewer edges than `g` -/
theorem mem_dropLast_omegasAlong (omega : Mask → ℝ) (n : Nat) : ∀ (σ : List Nat) (g : Mask), g < 2 ^ n → σ.Perm (Mask.edges n g) →
    ∀ x ∈ (omegasAlong omega g σ).dropLast, ∃ m, m ≠ 0 ∧ m < 2 ^ n ∧ card n m < card n g ∧ x = omega m := by
  intro σ
  induction σ with
  | nil => intro g _ _ x hx; simp [omegasAlong] at hx
  | cons e τ ih =>
    intro g hg hp x hx
    have he : e ∈ Mask.edges n g := hp.mem_iff.mp List.mem_cons_self
    have hlt : Mask.pop g e < 2 ^ n := Mask.pop_lt hg (Mask.mem_edges.mp he).1
    have hτ : τ.Perm (Mask.edges n (Mask.pop g e)) := by
      rw [C04.edges_pop_erase _ g e he]
      simpa using hp.erase e
    have hcard := C05.card_lt_of_pop (n := n) he
    cases τ with
    | nil => simp [omegasAlong] at hx
    | cons e' τ' =>
      have hne : Mask.pop g e ≠ 0 := by
        intro hz
        rw [hz, Mask.edges_zero] at hτ
        exact (List.cons_ne_nil e' τ') (List.Perm.eq_nil hτ)
      simp only [omegasAlong] at hx
      rw [List.dropLast_cons_of_ne_nil (by simp)] at hx
      rcases List.mem_cons.mp hx with rfl | hx'
      · exact ⟨Mask.pop g e, hne, hlt, hcard, rfl⟩
      · obtain ⟨m, h1, h2, h3, h4⟩ := ih (Mask.pop g e) hlt hτ x (by simpa [omegasAlong] using hx')
        exact ⟨m, h1, h2, by omega, h4⟩

/-- **Tropical sampling on the model's table.** `G` with its table `preEntry G D ·` accepted (every `J ≠ 0`, `J(g) > 0`, every non-empty
subset with fewer edges than `g` has `ω > 0`) and the two graph facts: the expectation of ANY family of test functions of the Feynman
parameters over the sampler's edge choices (probabilities `C04.orderProb` from the table's `J` and `ω`) and uniform numbers equals the sum
over the sectors of their integrals against `x^{ν−1} / (U_tr^{D/2} V_tr^{dod}) / J(g)`, with the step weights, loop drops and spanning losses
read off the table. -/
theorem tropical_sampling_table (G : TGraph ℝ) (D : Nat) (F : RemovalFacts G D) (g : Mask) (hg : g < 2 ^ G.topology.length)
    (hJ : ∀ h, h < 2 ^ G.topology.length → Jval (omegaT G D) G.topology.length h ≠ 0)
    (hJg : 0 < Jval (omegaT G D) G.topology.length g)
    (hω : ∀ m, m ≠ 0 → m < 2 ^ G.topology.length → card G.topology.length m < card G.topology.length g → 0 < omegaT G D m)
    (f : List Nat → List ℝ → ℝ≥0∞) :
    ((C04.orderingsAux (card G.topology.length g) (Mask.edges G.topology.length g)).map fun σ =>
        ENNReal.ofReal (C04.orderProb (omegaT G D) G.topology.length g σ) * chainInt (sectorOmegas (omegaT G D) g σ) 1 (f σ)).sum
      = ((C04.orderingsAux (card G.topology.length g) (Mask.edges G.topology.length g)).map fun σ =>
          nested (sectorOmegas (omegaT G D) g σ) 1 fun ys =>
            ENNReal.ofReal (weightProd (sectorSteps G D g σ) ys
              / ((uTrop (sectorSteps G D g σ) ys) ^ ((D : ℝ) / 2) * (vTrop (sectorSteps G D g σ) ys) ^ G.dod)
              / Jval (omegaT G D) G.topology.length g) * f σ ys).sum := by
  apply tropical_sampling (omegaT G D) G.topology.length hJ g hg hJg ((D : ℝ) / 2) G.dod (sectorSteps G D g) f
  · intro σ hσ h
    rw [omegasAlong_getLast, C04.complete_order_exhausts G.topology.length g hg σ hσ, omegaT_zero]
  · intro σ hσ x hx
    have hp := C04.orderingsAux_perm (card G.topology.length g) (Mask.edges G.topology.length g) σ rfl hσ
    obtain ⟨m, h1, h2, h3, rfl⟩ := mem_dropLast_omegasAlong (omegaT G D) G.topology.length σ g hg hp x hx
    exact hω m h1 h2 h3
  · intro σ hσ
    exact sector_consistent G D F g hg σ
      (C04.orderingsAux_perm (card G.topology.length g) (Mask.edges G.topology.length g) σ rfl hσ)

end Momtrop.C01
