import Momtrop.Props.C07
import Momtrop.Props.C14
import Mathlib.Algebra.BigOperators.Group.List.Basic
import Mathlib.Algebra.Order.BigOperators.GroupWithZero.List
import Mathlib.Analysis.SpecialFunctions.Pow.Real
/-!
# C07, sector formula in closed form

The removal loop is replayed as a *trace* `(s_k, g_k, ξ_k)` (removed edge, remaining graph, the number drawn
after the removal). `permLoop_trace` (law-free, every scalar type): the parameters written by the loop are the
replay of that trace, `κ₁ = κ₀`, `κ_{k+1} = κ_k · ξ_k^(1/ω(g_k))`, the `k`-th removed edge receives `κ_k`, and the
trace is a chain `g_k = g_{k-1} ∖ s_k` with `s_k ∈ g_{k-1}`, so the removed edges are pairwise distinct and every
edge of the graph is written exactly once. `sector_formula` (exact arithmetic): the Feynman parameter of `s_k`
before the common rescaling is `∏_{j<k} ξ_j^(1/ω(g_j))`.
-/
namespace Momtrop.C07
open Momtrop Scalar

section S
variable {α : Type} [Scalar α]

/-- one record of the removal loop: removed edge, remaining graph, the `ξ` drawn after it (`none` after the last) -/
structure Step (α : Type) where
  e : Nat
  rest : Mask
  xi : Option α

/-- the trace of the removal loop (same recursion as `permLoop`, recording instead of computing) -/
def permTrace (T : STable α) (xs : List α) : Nat → Mask → Nat → List (Step α)
  | 0, _, _ => []
  | fuel + 1, g, cnt =>
    if Mask.isEmpty g then [] else
    match chooseEdge T xs g cnt with
    | none => []
    | some (e, g', cnt') =>
      if Mask.isEmpty g' then [⟨e, g', none⟩] else
      match xs[cnt']? with
      | none => []
      | some xi => ⟨e, g', some xi⟩ :: permTrace T xs fuel g' (cnt' + 1)

/-- `κ` after a step: multiplied by `ξ^(1/ω(remaining graph))` -/
def nextKappa (T : STable α) (κ : α) (s : Step α) : α :=
  match s.xi with
  | some xi => κ * powf xi (inv (T.omega s.rest))
  | none => κ

/-- replay of a trace: the removed edge receives the current `κ` -/
def replay (T : STable α) : α → List α → List (Step α) → List α
  | _, x, [] => x
  | κ, x, s :: rest => replay T (nextKappa T κ s) (x.set s.e κ) rest

/-- the trace is a chain of removals starting at `g` -/
def Chain (n : Nat) : Mask → List (Step α) → Prop
  | _, [] => True
  | g, s :: rest => s.e ∈ Mask.edges n g ∧ s.rest = Mask.pop g s.e ∧ Chain n s.rest rest

theorem chooseEdge_mem (T : STable α) (xs : List α) (g : Mask) (cnt : Nat)
    (e : Nat) (g' : Mask) (cnt' : Nat) (h : chooseEdge T xs g cnt = some (e, g', cnt')) :
    e ∈ Mask.edges T.numEdges g ∧ g' = Mask.pop g e := by
  unfold chooseEdge at h
  by_cases h1 : Mask.hasOneEdge g = true
  · simp only [h1, if_true] at h
    cases hh : (Mask.edges T.numEdges g).head? with
    | none => simp [hh] at h
    | some e0 =>
      simp only [hh, Option.some.injEq, Prod.mk.injEq] at h
      obtain ⟨rfl, rfl, rfl⟩ := h
      exact ⟨List.mem_of_head? hh, rfl⟩
  · simp only [h1, Bool.false_eq_true, if_false] at h
    cases hx : xs[cnt]? with
    | none => simp [hx] at h
    | some u =>
      simp only [hx] at h
      cases hs : sampleEdge T u g with
      | none => simp [hs] at h
      | some r =>
        obtain ⟨e2, g2⟩ := r
        simp only [hs, Option.map_some, Option.some.injEq, Prod.mk.injEq] at h
        obtain ⟨rfl, rfl, rfl⟩ := h
        exact C06.sampleEdge_sound T u g e2 g2 hs

/-- **The loop is the replay of its trace** (every scalar type, every table, every point): the written
parameters, the removal order, and the chain structure of the trace. -/
theorem permLoop_trace (T : STable α) (xs : List α) :
    ∀ (fuel : Nat) (g : Mask) (st st' : PState α), permLoop T xs fuel g st = some st' →
      st'.x = replay T st.kappa st.x (permTrace T xs fuel g st.cnt) ∧
      st'.order = st.order ++ (permTrace T xs fuel g st.cnt).map (·.e) ∧
      Chain T.numEdges g (permTrace T xs fuel g st.cnt) := by
  intro fuel
  induction fuel with
  | zero =>
    intro g st st' h
    simp only [permLoop, Option.some.injEq] at h
    subst h
    simp [permTrace, replay, Chain]
  | succ fuel ih =>
    intro g st st' h
    unfold permLoop at h
    unfold permTrace
    by_cases hg : Mask.isEmpty g = true
    · simp only [hg, if_true, Option.some.injEq] at h
      subst h
      simp [hg, replay, Chain]
    · simp only [hg, Bool.false_eq_true, if_false] at h ⊢
      cases hc : chooseEdge T xs g st.cnt with
      | none => simp [hc] at h
      | some r =>
        obtain ⟨e, g', cnt⟩ := r
        simp only [hc] at h ⊢
        obtain ⟨hmem, hpop⟩ := chooseEdge_mem T xs g st.cnt e g' cnt hc
        by_cases hz : Mask.isEmpty g' = true
        · simp only [hz, if_true, Option.some.injEq] at h ⊢
          subst h
          simp [replay, Chain, hmem, hpop]
        · simp only [hz, Bool.false_eq_true, if_false] at h ⊢
          cases hx : xs[cnt]? with
          | none => simp [hx] at h
          | some xi =>
            simp only [hx] at h ⊢
            obtain ⟨h1, h2, h3⟩ := ih g' _ st' h
            simp only at h1 h2 h3
            refine ⟨?_, ?_, ?_⟩
            · rw [h1]; simp [replay, nextKappa]
            · rw [h2]; simp
            · exact ⟨hmem, hpop, h3⟩

/-- in a chain every later removed edge lies in the remaining graph of every earlier step -/
theorem chain_mem {n : Nat} : ∀ (g : Mask) (tr : List (Step α)), Chain n g tr → ∀ s ∈ tr, s.e ∈ Mask.edges n g := by
  intro g tr
  induction tr generalizing g with
  | nil => intro _ s hs; cases hs
  | cons a rest ih =>
    intro hch s hs
    obtain ⟨h1, h2, h3⟩ := hch
    rcases List.mem_cons.mp hs with rfl | hs
    · exact h1
    · have := ih a.rest h3 s hs
      rw [h2, Mask.edges_pop n g a.e (Mask.mem_edges.mp h1).2] at this
      exact (List.mem_filter.mp this).1

/-- **the removed edges of a chain are pairwise distinct** -/
theorem chain_nodup {n : Nat} : ∀ (g : Mask) (tr : List (Step α)), Chain n g tr → (tr.map (·.e)).Nodup := by
  intro g tr
  induction tr generalizing g with
  | nil => intro _; simp
  | cons a rest ih =>
    intro hch
    obtain ⟨h1, h2, h3⟩ := hch
    rw [List.map_cons, List.nodup_cons]
    refine ⟨?_, ih a.rest h3⟩
    intro hmem
    obtain ⟨s, hs, hse⟩ := List.mem_map.mp hmem
    have := chain_mem a.rest rest h3 s hs
    rw [h2, Mask.edges_pop n g a.e (Mask.mem_edges.mp h1).2] at this
    have := (List.mem_filter.mp this).2
    simp [hse] at this

/-- `κ` in force when step `k` is executed -/
def kappaAt (T : STable α) (κ : α) (tr : List (Step α)) (k : Nat) : α := (tr.take k).foldl (nextKappa T) κ

theorem replay_length (T : STable α) : ∀ (tr : List (Step α)) (κ : α) (x : List α), (replay T κ x tr).length = x.length := by
  intro tr
  induction tr with
  | nil => intro κ x; rfl
  | cons s rest ih => intro κ x; simp [replay, ih]

/-- an index not removed by the trace keeps its value -/
theorem replay_get_other (T : STable α) : ∀ (tr : List (Step α)) (κ : α) (x : List α) (i : Nat),
    i ∉ tr.map (·.e) → (replay T κ x tr)[i]? = x[i]? := by
  intro tr
  induction tr with
  | nil => intro κ x i _; rfl
  | cons s rest ih =>
    intro κ x i hi
    simp only [List.map_cons, List.mem_cons, not_or] at hi
    simp only [replay]
    rw [ih _ _ i hi.2, List.getElem?_set_ne (fun h => hi.1 h.symm)]

/-- **the `k`-th removed edge holds `κ_k` at the end** (distinct edges, in range) -/
theorem replay_get (T : STable α) : ∀ (tr : List (Step α)) (κ : α) (x : List α),
    (tr.map (·.e)).Nodup → (∀ s ∈ tr, s.e < x.length) →
    ∀ (k : Nat) (hk : k < tr.length), (replay T κ x tr)[(tr[k]).e]? = some (kappaAt T κ tr k) := by
  intro tr
  induction tr with
  | nil => intro κ x _ _ k hk; simp at hk
  | cons s rest ih =>
    intro κ x hnd hlt k hk
    rw [List.map_cons, List.nodup_cons] at hnd
    cases k with
    | zero =>
      simp only [List.getElem_cons_zero, replay, kappaAt, List.take_zero, List.foldl_nil]
      rw [replay_get_other T rest _ _ s.e hnd.1]
      exact List.getElem?_set_self (hlt s List.mem_cons_self)
    | succ k =>
      simp only [List.getElem_cons_succ, replay, kappaAt, List.take_succ_cons, List.foldl_cons]
      have hk' : k < rest.length := by simpa using hk
      exact ih _ _ hnd.2 (fun t ht => by rw [List.length_set]; exact hlt t (List.mem_cons_of_mem _ ht)) k hk'

/-- replay of the tropical bookkeeping: `u_trop` is multiplied by the current `κ` exactly at the removals that lower the loop
number, `v_trop` is set to the current `κ` exactly at the removals that lose mass-momentum spanning -/
def tropReplay (T : STable α) : α → α → α → Mask → List (Step α) → α × α
  | _, u, v, _, [] => (u, v)
  | κ, u, v, g, s :: rest =>
    tropReplay T (nextKappa T κ s) (if T.loops s.rest < T.loops g then u * κ else u)
      (if T.mms g && !T.mms s.rest then κ else v) s.rest rest

/-- **`u_trop`, `v_trop` of the loop are the replay of its trace** (every scalar type). -/
theorem permLoop_trop (T : STable α) (xs : List α) :
    ∀ (fuel : Nat) (g : Mask) (st st' : PState α), permLoop T xs fuel g st = some st' →
      (st'.uTr, st'.vTr) = tropReplay T st.kappa st.uTr st.vTr g (permTrace T xs fuel g st.cnt) := by
  intro fuel
  induction fuel with
  | zero =>
    intro g st st' h
    simp only [permLoop, Option.some.injEq] at h
    subst h
    simp [permTrace, tropReplay]
  | succ fuel ih =>
    intro g st st' h
    unfold permLoop at h
    unfold permTrace
    by_cases hg : Mask.isEmpty g = true
    · simp only [hg, if_true, Option.some.injEq] at h
      subst h
      simp [hg, tropReplay]
    · simp only [hg, Bool.false_eq_true, if_false] at h ⊢
      cases hc : chooseEdge T xs g st.cnt with
      | none => simp [hc] at h
      | some r =>
        obtain ⟨e, g', cnt⟩ := r
        simp only [hc] at h ⊢
        by_cases hz : Mask.isEmpty g' = true
        · simp only [hz, if_true, Option.some.injEq] at h ⊢
          subst h
          simp [tropReplay]
        · simp only [hz, Bool.false_eq_true, if_false] at h ⊢
          cases hx : xs[cnt]? with
          | none => simp [hx] at h
          | some xi =>
            simp only [hx] at h ⊢
            have := ih g' _ st' h
            simp only at this
            rw [this]
            simp [tropReplay, nextKappa]

end S

section R

/-- the factor contributed by a step: `ξ^(1/ω(g))` -/
noncomputable def factor (T : STable ℝ) (s : Step ℝ) : ℝ :=
  match s.xi with
  | some xi => xi ^ (T.omega s.rest)⁻¹
  | none => 1

theorem kappaAt_prod (T : STable ℝ) (κ : ℝ) (tr : List (Step ℝ)) (k : Nat) :
    kappaAt T κ tr k = κ * ((tr.take k).map (factor T)).prod := by
  unfold kappaAt
  generalize tr.take k = l
  induction l generalizing κ with
  | nil => simp
  | cons s rest ih =>
    rw [List.foldl_cons, ih, List.map_cons, List.prod_cons, ← mul_assoc]
    congr 1
    unfold nextKappa factor
    cases s.xi with
    | none => simp
    | some xi => simp only [powf_real, inv_real]

/-- **Sector formula** (exact arithmetic). If `permatuhedral_sampling` succeeds with trace
`(s_k, g_k, ξ_k)` (removal order `s_1,…,s_E`, `g_k` the graph left after `k` removals, `ξ_k` the number drawn
after the `k`-th removal), then the pre-rescaling Feynman parameter of `s_k` is `∏_{j<k} ξ_j^(1/ω(g_j))`,
the removal order lists pairwise distinct edges, and the used parameters are these times one common factor. -/
theorem sector_formula (T : STable ℝ) (xs : List ℝ) (r : PermResult ℝ) (h : permutahedral T xs = some r) :
    let tr := permTrace T xs T.numEdges (Mask.full T.numEdges) 0
    r.order = tr.map (·.e) ∧ r.order.Nodup ∧ Chain T.numEdges (Mask.full T.numEdges) tr ∧
    ∀ (k : Nat) (hk : k < tr.length),
      r.xPre[(tr[k]).e]? = some (((tr.take k).map (factor T)).prod) ∧
      r.x[(tr[k]).e]? = some (((tr.take k).map (factor T)).prod * r.scaling) := by
  intro tr
  unfold permutahedral at h
  simp only at h
  split at h
  · cases h
  next st hp =>
    simp only [Option.some.injEq] at h
    subst h
    obtain ⟨h1, h2, h3⟩ := permLoop_trace T xs T.numEdges (Mask.full T.numEdges) _ st hp
    simp only [List.nil_append] at h1 h2 h3
    have hnd := chain_nodup (Mask.full T.numEdges) tr h3
    refine ⟨h2, by rw [h2]; exact hnd, h3, ?_⟩
    intro k hk
    have hlt : ∀ s ∈ tr, s.e < (List.replicate T.numEdges (0 : ℝ)).length := by
      intro s hs
      have := chain_mem (Mask.full T.numEdges) tr h3 s hs
      rw [Mask.edges_full] at this
      simpa using this
    have hget := replay_get T tr (1 : ℝ) (List.replicate T.numEdges (0 : ℝ)) hnd hlt k hk
    rw [kappaAt_prod, one_mul] at hget
    have h1' : st.x = replay T 1 (List.replicate T.numEdges 0) tr := h1
    simp only
    rw [h1']
    refine ⟨hget, ?_⟩
    rw [List.getElem?_map, hget]
    rfl

/-- every factor `ξ^(1/ω)` lies in `(0,1]` when `ξ ∈ (0,1]` and `ω > 0` (what the sampler guarantees: `ξ` is a uniform number and every
remaining graph of an accepted table has positive generalised degree of divergence, C05) -/
theorem factor_mem (T : STable ℝ) (s : Step ℝ)
    (h : ∀ xi, s.xi = some xi → 0 < xi ∧ xi ≤ 1 ∧ 0 < T.omega s.rest) : 0 < factor T s ∧ factor T s ≤ 1 := by
  unfold factor
  cases hx : s.xi with
  | none => simp
  | some xi =>
    obtain ⟨h0, h1, hw⟩ := h xi hx
    refine ⟨Real.rpow_pos_of_pos h0 _, Real.rpow_le_one h0.le h1 (inv_pos.mpr hw).le⟩

/-- **The parameters decrease along the removal order**: `x_{s_{k+1}} = x_{s_k}·ξ_k^(1/ω(g_k)) ≤ x_{s_k}`, all positive — the
ordering on which the greedy (largest-monomial) reading of `u_trop`, `v_trop` rests. -/
theorem sector_monotone (T : STable ℝ) (tr : List (Step ℝ))
    (h : ∀ s ∈ tr, ∀ xi, s.xi = some xi → 0 < xi ∧ xi ≤ 1 ∧ 0 < T.omega s.rest) (k : Nat) (hk : k < tr.length) :
    0 < ((tr.take (k + 1)).map (factor T)).prod ∧
      ((tr.take (k + 1)).map (factor T)).prod ≤ ((tr.take k).map (factor T)).prod ∧
      0 < ((tr.take k).map (factor T)).prod := by
  have hpos : ∀ n, 0 < ((tr.take n).map (factor T)).prod := by
    intro n
    apply List.prod_pos
    intro a ha
    obtain ⟨s, hs, rfl⟩ := List.mem_map.mp ha
    exact (factor_mem T s (h s (List.mem_of_mem_take hs))).1
  refine ⟨hpos _, ?_, hpos _⟩
  rw [List.take_succ, List.getElem?_eq_getElem hk, Option.toList_some, List.map_append, List.prod_append]
  simp only [List.map_cons, List.map_nil, List.prod_cons, List.prod_nil, mul_one]
  have hf := (factor_mem T tr[k] (h _ (List.getElem_mem hk))).2
  exact mul_le_of_le_one_right (hpos k).le hf

end R
end Momtrop.C07
