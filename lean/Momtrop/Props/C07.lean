import Momtrop.Model.Sampling
import Momtrop.Proofs.RealInst
/-!
# C07 — Feynman parameters follow the sector formula and the tropical normalisation

* `S`: the rescaling multiplies every parameter by one common factor and the returned tropical values
  are `one`; one removal step of the loop (which parameter is written, how `κ`, `u_trop`, `v_trop` move).
* `R`: the common rescaling makes `U_tr^{D/2}·V_tr^{dod} = 1` (tropical polynomials are homogeneous of
  degree `L` and `1`).
That the logged `u_trop`/`v_trop` are the *maximal* monomials of `U` and `F/U` rests on the optimality
of the greedy algorithm on the cographic matroid (classical, not formalised); it is decided on the
implementation by the brute-force oracle.
-/
namespace Momtrop.C07
open Momtrop Scalar

section S
variable {α : Type} [Scalar α]

/-- the result of `permatuhedral_sampling`: all Feynman parameters are the pre-rescaling ones times
one common factor, and the returned `u_trop`, `v_trop` are `one` -/
theorem rescaling_common (T : STable α) (xs : List α) (r : PermResult α) (h : permutahedral T xs = some r) :
    r.x = r.xPre.map (· * r.scaling) ∧ r.scaling = scalingOf T r.uTrPre r.vTrPre ∧ r.uTr = one ∧ r.vTr = one := by
  unfold permutahedral at h
  simp only at h
  split at h
  · cases h
  · simp only [Option.some.injEq] at h
    subst h
    exact ⟨rfl, rfl, rfl, rfl⟩

/-- the rescaling factor: `target^(1/(D/2·L + dod))` with `target = U_tr^(-D/2) · (U_tr/(U_tr·V_tr))^dod` -/
theorem scaling_def (T : STable α) (uTr vTr : α) :
    scalingOf T uTr vTr = powf (powf uTr T.negHalfD * powf (uTr / (uTr * vTr)) T.dod) (inv T.scaleDen) := rfl

/-- **One removal step** (`sampling.rs:185-209`) when another edge remains: the removed edge receives the
current `κ`; `v_trop` becomes `κ` exactly when mass-momentum spanning is lost, `u_trop` is multiplied by
`κ` exactly when the loop number drops; then `κ ← κ · ξ^(1/ω(g'))` with the *remaining* graph `g'`. -/
theorem removal_step (T : STable α) (xs : List α) (fuel : Nat) (g : Mask) (st : PState α)
    (e : Nat) (g' : Mask) (cnt : Nat) (xi : α)
    (hg : Mask.isEmpty g = false) (hc : chooseEdge T xs g st.cnt = some (e, g', cnt))
    (hg' : Mask.isEmpty g' = false) (hxi : xs[cnt]? = some xi) :
    permLoop T xs (fuel + 1) g st =
      permLoop T xs fuel g'
        { kappa := st.kappa * powf xi (inv (T.omega g')),
          x := st.x.set e st.kappa,
          uTr := if T.loops g' < T.loops g then st.uTr * st.kappa else st.uTr,
          vTr := if T.mms g && !T.mms g' then st.kappa else st.vTr,
          cnt := cnt + 1, order := st.order ++ [e] } := by
  rw [permLoop]
  simp only [hg, Bool.false_eq_true, if_false, hc, hg', hxi]

/-- the last removal consumes no `ξ` -/
theorem last_step (T : STable α) (xs : List α) (fuel : Nat) (g : Mask) (st : PState α)
    (e : Nat) (g' : Mask) (cnt : Nat)
    (hg : Mask.isEmpty g = false) (hc : chooseEdge T xs g st.cnt = some (e, g', cnt))
    (hg' : Mask.isEmpty g' = true) :
    permLoop T xs (fuel + 1) g st =
      some { st with x := st.x.set e st.kappa,
                     uTr := if T.loops g' < T.loops g then st.uTr * st.kappa else st.uTr,
                     vTr := if T.mms g && !T.mms g' then st.kappa else st.vTr,
                     cnt := cnt, order := st.order ++ [e] } := by
  rw [permLoop]
  simp only [hg, Bool.false_eq_true, if_false, hc, hg', if_true]

end S

section R

/-- **The rescaling normalises the tropical polynomials** (exact arithmetic). `U_tr` is homogeneous of
degree `L` and `V_tr` of degree `1` in the Feynman parameters, so after multiplying every parameter by
`s = scalingOf …` they become `s^L·U_tr` and `s·V_tr`, and `(s^L U_tr)^{D/2} (s V_tr)^{dod} = 1`.
Hypotheses: the table constants are coherent (`negHalfD = −halfD`, `scaleDen = halfD·L + dod`, exact in
`f64` for the first, up to rounding for the second) and `halfD·L + dod ≠ 0`. -/
theorem rescaling_normalises (T : STable ℝ) (uTr vTr : ℝ) (loops : ℕ)
    (hneg : T.negHalfD = -T.halfD) (hden : T.scaleDen = T.halfD * loops + T.dod)
    (hu : 0 < uTr) (hv : 0 < vTr) (hne : T.halfD * loops + T.dod ≠ 0) :
    (scalingOf T uTr vTr ^ loops * uTr) ^ T.halfD * (scalingOf T uTr vTr * vTr) ^ T.dod = 1 := by
  set s := scalingOf T uTr vTr with hsdef
  have hs : 0 < s := by
    rw [hsdef, scaling_def]
    simp only [powf_real, inv_real]
    positivity
  have hsL : (s ^ loops : ℝ) = s ^ ((loops : ℝ)) := (Real.rpow_natCast s loops).symm
  rw [Real.mul_rpow (by positivity) hu.le, Real.mul_rpow hs.le hv.le, hsL, ← Real.rpow_mul hs.le]
  have key : s ^ ((loops : ℝ) * T.halfD) * s ^ T.dod = uTr ^ (-T.halfD) * (uTr / (uTr * vTr)) ^ T.dod := by
    rw [← Real.rpow_add hs, hsdef, scaling_def]
    simp only [powf_real, inv_real, hneg, hden]
    rw [← Real.rpow_mul (by positivity)]
    have : (T.halfD * (loops : ℝ) + T.dod)⁻¹ * ((loops : ℝ) * T.halfD + T.dod) = 1 := by
      field_simp
    rw [this, Real.rpow_one]
  have e1 : uTr / (uTr * vTr) = vTr⁻¹ := by field_simp
  calc s ^ ((loops : ℝ) * T.halfD) * uTr ^ T.halfD * (s ^ T.dod * vTr ^ T.dod)
      = (s ^ ((loops : ℝ) * T.halfD) * s ^ T.dod) * (uTr ^ T.halfD * vTr ^ T.dod) := by ring
    _ = uTr ^ (-T.halfD) * (vTr⁻¹) ^ T.dod * (uTr ^ T.halfD * vTr ^ T.dod) := by rw [key, e1]
    _ = 1 := by
      rw [Real.rpow_neg hu.le, Real.inv_rpow hv.le]
      have := (Real.rpow_pos_of_pos hu T.halfD).ne'
      have := (Real.rpow_pos_of_pos hv T.dod).ne'
      field_simp

end R
end Momtrop.C07
