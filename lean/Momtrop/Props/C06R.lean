import Momtrop.Props.C06
import Momtrop.Proofs.RealInst
/-!
# C06 in exact arithmetic: the selected edge is the one whose probability interval contains `u`
-/
namespace Momtrop.C06
open Momtrop Scalar

theorem cumAfter_real (T : STable ℝ) (g : Mask) (pre : List Nat) (c : ℝ) :
    cumAfter T g pre c = c + (pre.map (edgeProb T g)).sum := by
  unfold cumAfter
  induction pre generalizing c with
  | nil => simp
  | cons a as ih => simp [List.foldl_cons, ih, add_assoc]

/-- **Inversion of the edge distribution** (exact arithmetic, non-negative probabilities): if `u` lies in
the interval `(c_{k-1}, c_k]` of edge `e` — an interval of length `p_e` — then `e` is selected. -/
theorem sampleEdge_interval (T : STable ℝ) (u : ℝ) (g : Mask) (pre : List Nat) (e : Nat) (post : List Nat)
    (hes : Mask.edges T.numEdges g = pre ++ e :: post)
    (hp : ∀ f ∈ Mask.edges T.numEdges g, 0 ≤ edgeProb T g f)
    (hlo : (pre.map (edgeProb T g)).sum < u) (hhi : u ≤ (pre.map (edgeProb T g)).sum + edgeProb T g e) :
    sampleEdge T u g = some (e, Mask.pop g e) := by
  unfold sampleEdge
  rw [hes]
  apply scan_hit
  · intro pre' e' post' hpre
    rw [Bool.eq_false_iff]
    intro hge
    rw [geB_real, cumAfter_real, zero_real, zero_add] at hge
    have hsub : ((pre' ++ [e']).map (edgeProb T g)).sum ≤ (pre.map (edgeProb T g)).sum := by
      rw [hpre]
      simp only [List.map_append, List.map_cons, List.sum_append, List.sum_cons, List.map_nil, List.sum_nil]
      have : 0 ≤ (post'.map (edgeProb T g)).sum := by
        apply List.sum_nonneg
        intro y hy
        obtain ⟨f, hf, rfl⟩ := List.mem_map.mp hy
        exact hp f (by rw [hes, hpre]; simp [hf])
      linarith
    linarith
  · rw [geB_real, cumAfter_real, zero_real, zero_add]
    simp only [List.map_append, List.map_cons, List.map_nil, List.sum_append, List.sum_cons, List.sum_nil]
    linarith

/-- the interval of edge `e` has length `p_e` -/
theorem interval_length (T : STable ℝ) (g : Mask) (pre : List Nat) (e : Nat) :
    cumAfter T g (pre ++ [e]) 0 - cumAfter T g pre 0 = edgeProb T g e := by
  rw [cumAfter_append_singleton]; ring

/-- **No fallback in exact arithmetic**: when the probabilities are non-negative and sum to one, for
`0 < u ≤ 1` the selected edge's running sum really reaches `u` (the rounding-shortfall fallback of the
fixed code is never needed). -/
theorem sampleEdge_total_real (T : STable ℝ) (u : ℝ) (g : Mask)
    (hsum : ((Mask.edges T.numEdges g).map (edgeProb T g)).sum = 1) (hu1 : u ≤ 1) :
    ∃ e g', sampleEdge T u g = some (e, g') ∧
      ∃ pre post, Mask.edges T.numEdges g = pre ++ e :: post ∧ u ≤ (pre.map (edgeProb T g)).sum + edgeProb T g e := by
  have hne : Mask.edges T.numEdges g ≠ [] := by
    intro h; rw [h] at hsum; simp at hsum
  have htot := sampleEdge_total T u g hne (by rw [leB_real]; exact hu1)
  cases hs : sampleEdge T u g with
  | none => rw [hs] at htot; simp at htot
  | some r =>
    obtain ⟨e, g'⟩ := r
    obtain ⟨pre, post, hes, _, hor⟩ := sampleEdge_first T u g e g' hs
    refine ⟨e, g', rfl, pre, post, hes, ?_⟩
    rcases hor with hge | ⟨hpost, _⟩
    · rw [geB_real, cumAfter_real, zero_real, zero_add] at hge
      simpa [List.sum_append] using hge
    · subst hpost
      have : (pre.map (edgeProb T g)).sum + edgeProb T g e = 1 := by
        rw [← hsum, hes]; simp [List.sum_append]
      linarith

end Momtrop.C06
