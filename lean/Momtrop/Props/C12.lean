import Momtrop.Model.Gamma
/-!
# C12 — the Gamma quantile: failures are errors, not values; exits; residual on convergence

Law-free (`S`) theorems about the model of `inverse_gamma_lr(_impl)` **after fix `b2abcbe`**, for every
scalar type (hence IEEE `f64`) and every implementation `ext` of the three `statrs` functions.
The accuracy clause (|P(a,λ) − p| ≤ 2e-8 on the whole domain) is numerical analysis of IEEE code and of
`statrs`; it is decided by the mpmath oracle, not proved. Core Lean only.
-/
namespace Momtrop.C12
open Momtrop Scalar
variable {φ : Type} [Scalar φ]

/-- **`Ok` implies finite and positive** (under the scalar's own comparisons: `|r| < ∞` and `0 < r`; for
IEEE numbers this excludes NaN, ±∞, ±0 and negatives). -/
theorem wrapper_ok_pos_finite (ext : GammaExt φ) (a p : φ) (n : Nat) (tol r : φ)
    (h : invGammaLr ext a p n tol = some (some r)) :
    isFiniteS r = true ∧ gtB r (lit 0x0000000000000000) = true := by
  unfold invGammaLr at h
  cases hi : invGammaImpl ext a p n tol with
  | none => simp [hi] at h
  | some v =>
    obtain ⟨r', e⟩ := v
    simp only [hi] at h
    by_cases hc : (isFiniteS r' && gtB r' (lit 0x0000000000000000)) = true
    · simp only [hc, if_true, Option.some.injEq] at h
      subst h
      simpa [Bool.and_eq_true] using hc
    · simp [hc] at h

/-- anything else the iteration returns (NaN, ±∞, zero, negative) is reported as `GammaError` -/
theorem wrapper_err_otherwise (ext : GammaExt φ) (a p : φ) (n : Nat) (tol r : φ) (e : GExit)
    (hi : invGammaImpl ext a p n tol = some (r, e))
    (hbad : (isFiniteS r && gtB r (lit 0x0000000000000000)) = false) :
    invGammaLr ext a p n tol = some none := by
  unfold invGammaLr
  simp [hi, hbad]

/-- the wrapper never invents a value: an `Ok` result is exactly what `inverse_gamma_lr_impl` returned -/
theorem wrapper_ok_is_impl (ext : GammaExt φ) (a p : φ) (n : Nat) (tol r : φ)
    (h : invGammaLr ext a p n tol = some (some r)) : ∃ e, invGammaImpl ext a p n tol = some (r, e) := by
  unfold invGammaLr at h
  cases hi : invGammaImpl ext a p n tol with
  | none => simp [hi] at h
  | some v =>
    obtain ⟨r', e⟩ := v
    simp only [hi] at h
    split at h
    · simp only [Option.some.injEq] at h; subst h; exact ⟨e, rfl⟩
    · simp at h

/-- **The iteration makes at most `max_n_iter` steps and ends in one of two ways**: `converged k` with
`k < max_n_iter` or `exhausted`. -/
theorem schroeder_exit (ext : GammaExt φ) (a p q gA te : φ) :
    ∀ (fuel k : Nat) (x r : φ) (e : GExit), schroeder ext a p q gA te fuel k x = some (r, e) →
      e = .exhausted ∨ ∃ j, e = .converged j ∧ k ≤ j ∧ j < k + fuel := by
  intro fuel
  induction fuel with
  | zero => intro k x r e h; simp [schroeder] at h; exact Or.inl h.2.symm
  | succ fuel ih =>
    intro k x r e h
    rw [schroeder] at h
    simp only at h
    split at h
    · cases h
    · rename_i err herr
      split at h
      · simp only [Option.some.injEq, Prod.mk.injEq] at h
        exact Or.inr ⟨k, h.2.symm, Nat.le_refl _, by omega⟩
      · rcases ih _ _ _ _ h with h1 | ⟨j, hj, h2, h3⟩
        · exact Or.inl h1
        · exact Or.inr ⟨j, hj, by omega, by omega⟩

/-- **Residual on convergence**: when the iteration reports `converged`, the returned point `x` satisfies
`|err(x)| < tol·ε` where `err(x) = lr(a,x) − p` for `p ≤ 1/2` and `−(ur(a,x) − q)` otherwise — i.e. the
regularised incomplete gamma function *as computed by `statrs`* is within `tol·ε` of the target. -/
theorem converged_residual (ext : GammaExt φ) (a p q gA te : φ) :
    ∀ (fuel k : Nat) (x r : φ) (j : Nat), schroeder ext a p q gA te fuel k x = some (r, .converged j) →
      ∃ err, (if leB p (lit 0x3FE0000000000000) then (ext.lr a r).map fun v => v - p
              else (ext.ur a r).map fun v => -(v - q)) = some err ∧ ltB (Scalar.abs err) te = true := by
  intro fuel
  induction fuel with
  | zero => intro k x r j h; simp [schroeder] at h
  | succ fuel ih =>
    intro k x r j h
    rw [schroeder] at h
    simp only at h
    split at h
    · cases h
    · rename_i err herr
      split at h
      · rename_i hlt
        simp only [Option.some.injEq, Prod.mk.injEq] at h
        obtain ⟨hr, _⟩ := h
        rw [← hr]
        exact ⟨err, herr, hlt⟩
      · exact ih _ _ _ _ h

/-- every way `inverse_gamma_lr_impl` can return: three early exits or the two exits of the iteration -/
theorem exit_total (ext : GammaExt φ) (a p : φ) (n : Nat) (tol r : φ) (e : GExit)
    (h : invGammaImpl ext a p n tol = some (r, e)) :
    e = .nearOne ∨ e = .tinyB ∨ e = .largeA ∨ e = .exhausted ∨ ∃ j, e = .converged j ∧ j < n := by
  unfold invGammaImpl at h
  split at h
  · rename_i v e' hs
    simp only [Option.some.injEq, Prod.mk.injEq] at h
    obtain ⟨_, rfl⟩ := h
    -- the only early exits `startValue` produces
    unfold startValue at hs
    simp only at hs
    repeat' split at hs
    all_goals (first | (simp only [Prod.mk.injEq, Option.some.injEq] at hs; obtain ⟨_, rfl⟩ := hs; simp) | simp at hs)
  · rename_i x0 hs
    rcases schroeder_exit ext a p _ _ _ n 0 x0 r e h with h1 | ⟨j, hj, _, h3⟩
    · exact Or.inr (Or.inr (Or.inr (Or.inl h1)))
    · exact Or.inr (Or.inr (Or.inr (Or.inr ⟨j, hj, by omega⟩)))

end Momtrop.C12
