import Momtrop.Proofs.Components
import Momtrop.Proofs.LoopNumber
import Momtrop.Model.Table
/-!
# C03 — the subgraph table holds loop number, spanning flag and degree of divergence

Law-free (`S`) theorems about `fromGraph`, `preEntry`, `isMMSpanning`, `numVariables` and the
component search, for every multigraph (any number of edges, self-loops, parallel edges, arbitrary
vertex labels and externals).
-/
set_option linter.unusedSectionVars false
set_option linter.unusedVariables false

namespace Momtrop.C03
open Momtrop Scalar
variable {α : Type} [Scalar α]

/-- what `from_graph` reports: the input edges and externals unchanged, the count of massive edges,
the loop number of the whole edge list, `dod = Σ w − (L·D)/2`. -/
theorem fromGraph_fields (G : InGraph α) (D : Nat) :
    (fromGraph G D).topology = G.edges ∧ (fromGraph G D).externals = G.externals ∧
    (fromGraph G D).numMassive = (G.edges.filter (·.massive)).length ∧
    (fromGraph G D).numLoops = loopNumber G.edges (List.range G.edges.length) ∧
    (fromGraph G D).dod = weightSum G.edges (List.range G.edges.length)
        - (ofInt (loopNumber G.edges (List.range G.edges.length)) * ofInt D) / ofInt 2 :=
  ⟨rfl, rfl, rfl, rfl, rfl⟩

/-- the empty subset gets generalised degree of divergence `1` -/
theorem genDod_empty (G : TGraph α) (D : Nat) : (preEntry G D 0).2.2 = one := by
  simp [preEntry, Mask.isEmpty]

/-- a non-empty subset gets `Σ w − L(s)·D/2`, minus the whole graph's `dod` exactly when it is
mass-momentum spanning -/
theorem genDod_nonempty (G : TGraph α) (D : Nat) (s : Mask) (hs : s ≠ 0) :
    let es := Mask.edges G.topology.length s
    (preEntry G D s).2.2 =
      if isMMSpanning G.topology G.numMassive G.externals es
      then weightSum G.topology es - ofInt (loopNumber G.topology es) * ofInt D / ofInt 2 - G.dod
      else weightSum G.topology es - ofInt (loopNumber G.topology es) * ofInt D / ofInt 2 := by
  have : Mask.isEmpty s = false := by simpa [Mask.isEmpty] using hs
  simp [preEntry, this]

/-- loop number and spanning flag stored for subset `s` are those of its edge list -/
theorem preEntry_flags (G : TGraph α) (D : Nat) (s : Mask) :
    (preEntry G D s).2.1 = loopNumber G.topology (Mask.edges G.topology.length s) ∧
    (preEntry G D s).1 = isMMSpanning G.topology G.numMassive G.externals (Mask.edges G.topology.length s) :=
  ⟨rfl, rfl⟩

/-- hypercube dimension `2E − 1 + D·L + (D·L mod 2)` -/
theorem numVariables_eq (T : Table α) :
    numVariables T = 2 * T.graph.topology.length - 1
      + loopNumber T.graph.topology (List.range T.graph.topology.length) * T.dimension
      + (loopNumber T.graph.topology (List.range T.graph.topology.length) * T.dimension) % 2 := rfl

/-- **Spanning flag**: contains every massive edge (as many massive edges as the graph has) and some
returned component touches every external vertex. -/
theorem spanning_iff (top : List (TEdge α)) (nm : Nat) (ext s : List Nat) :
    isMMSpanning top nm ext s = true ↔
      (s.filter (isMassive top)).length = nm ∧
      ∃ c ∈ components top s, ∀ v ∈ ext, ∃ i ∈ Mask.edges top.length c, containsVertex top i v = true := by
  simp [isMMSpanning]

/-- the empty subset is never spanning -/
theorem spanning_nil (top : List (TEdge α)) (nm : Nat) (ext : List Nat) :
    isMMSpanning top nm ext [] = false := by
  simp [isMMSpanning, components, componentLists, compsLoop]

/-- the loop number of the empty subset is zero -/
theorem loopNumber_nil (top : List (TEdge α)) : loopNumber top [] = 0 := by
  simp [loopNumber, components, componentLists, compsLoop]

/-- **One component search is exact** (`preprocessing.rs:104-133`): started from `seed ∈ s` it returns
exactly the edges of `s` joined to `seed` by a chain of edges sharing end points. -/
theorem component_search_exact (top : List (TEdge α)) (s : List Nat) (hs : s.Nodup) (seed : Nat)
    (hseed : seed ∈ s) (f : Nat) :
    f ∈ closure top s (s.length + 1) [seed] ↔ EdgeConn top s seed f :=
  closure_eq_conn top s hs seed hseed f

/-- the first component returned is the connectivity class of the first edge -/
theorem first_component (top : List (TEdge α)) (e : Nat) (es : List Nat) (hs : (e :: es).Nodup) :
    (componentLists top (e :: es)).head? = some (closure top (e :: es) ((e :: es).length + 1) [e]) := by
  simp [componentLists, compsLoop]

/-- **Connected components are exactly the connectivity classes.** For a duplicate-free edge list `s`:
every returned component is the full class (under "chain of edges sharing end points inside `s`") of one
of its edges, different components are disjoint, every edge of `s` lies in one. -/
theorem components_are_classes (top : List (TEdge α)) (s : List Nat) (hs : s.Nodup) :
    (∀ c ∈ componentLists top s, ∃ seed ∈ s, ∀ f, f ∈ c ↔ EdgeConn top s seed f) ∧
    List.Pairwise (fun c1 c2 : List Nat => ∀ e, e ∈ c1 → e ∉ c2) (componentLists top s) ∧
    (∀ e ∈ s, ∃ c ∈ componentLists top s, e ∈ c) :=
  componentLists_spec top s hs

/-- two edges of `s` are in the same component iff they are connected inside `s` -/
theorem same_component_iff (top : List (TEdge α)) (s : List Nat) (hs : s.Nodup) (e f : Nat) (he : e ∈ s) :
    (∃ c ∈ componentLists top s, e ∈ c ∧ f ∈ c) ↔ EdgeConn top s e f :=
  Momtrop.same_component_iff top s hs e f he

/-- the returned `TropicalSubGraphId`s have exactly the bits of the component's edges -/
theorem component_mask_bits (c : List Nat) (e : Nat) : Mask.hasEdge (Mask.ofList c) e = decide (e ∈ c) :=
  Mask.hasEdge_ofList c e

/-- **Loop number = cyclomatic number**: `loops + (touched vertices) = edges + components`, for every
duplicate-free list of valid edge ids — self-loops, parallel edges and disconnected subsets included. -/
theorem loopNumber_is_cyclomatic (top : List (TEdge α)) (s : List Nat) (hs : s.Nodup)
    (hvalid : ∀ e ∈ s, e < top.length) :
    loopNumber top s + (verts top s).card = s.length + (componentLists top s).length :=
  loopNumber_cyclomatic top s hs hvalid

/-- the edge list of a subset id is duplicate-free and valid, so the theorems above apply to every table entry -/
theorem subset_edges_ok (top : List (TEdge α)) (i : Mask) :
    (Mask.edges top.length i).Nodup ∧ ∀ e ∈ Mask.edges top.length i, e < top.length :=
  ⟨Mask.edges_nodup _ _, fun _ he => (Mask.mem_edges.mp he).1⟩

end Momtrop.C03
