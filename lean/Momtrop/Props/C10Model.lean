import Momtrop.Props.C10
/-!
# C10, end to end on the model's own functions (exact arithmetic)

`model_identity`: feed the model's `lMatrix`, `decompose` (through `C15.result`), `uVectors`, `vPolynomial` and
`loopMomenta` with arbitrary well-formed lists; then the weighted propagator sum at the returned momenta equals
`v·(1 + |q|²/(2λ))`. Every `E`, `L`, `D`.
-/
namespace Momtrop.C10
open Momtrop Scalar Matrix

section
variable (x : List ℝ) (S : List (List Int)) (D : Nat) (shifts : List (Vec ℝ)) (masses : List ℝ) (q : List (Vec ℝ)) (lam : ℝ)

/-- number of loops / edges read off the signature -/
abbrev nL := (S.getD 0 []).length

theorem add_length' (D : Nat) (v w : Vec ℝ) : (Vec.add D v w).length = D := by simp [Vec.add]

theorem uVectors_length {l : Nat} (hl : l < (S.getD 0 []).length) :
    ((uVectors D x S shifts).getD l []).length = D := by
  unfold uVectors
  simp only
  rw [List.getD_eq_getElem?_getD, List.getElem?_map, List.getElem?_range hl]
  simp only [Option.map_some, Option.getD_some]
  generalize List.range S.length = es
  induction es using List.reverseRecOn with
  | nil => simp [Vec.zeros]
  | append_singleton es e _ => rw [List.foldl_append, List.foldl_cons, List.foldl_nil]; exact add_length' D _ _

theorem uVectors_len : (uVectors D x S shifts).length = (S.getD 0 []).length := by
  unfold uVectors; simp

end

/-- sum over a symmetric matrix: diagonal plus twice the strictly upper part -/
theorem sym_double_sum (n : Nat) (a : Nat → Nat → ℝ) (hs : ∀ i j, i < n → j < n → a i j = a j i) :
    ∑ i ∈ Finset.range n, ∑ j ∈ Finset.range n, a i j
      = ∑ i ∈ Finset.range n, a i i + ∑ i ∈ Finset.range n, ∑ j ∈ Finset.range n, if i < j then 2 * a i j else 0 := by
  induction n with
  | zero => simp
  | succ n ih =>
    have ih' := ih (fun i j hi hj => hs i j (by omega) (by omega))
    -- split off the last row and the last column
    have e1 : ∑ i ∈ Finset.range (n + 1), ∑ j ∈ Finset.range (n + 1), a i j
        = (∑ i ∈ Finset.range n, ∑ j ∈ Finset.range n, a i j) + (∑ i ∈ Finset.range n, a i n)
          + (∑ j ∈ Finset.range n, a n j) + a n n := by
      rw [Finset.sum_range_succ]
      simp only [Finset.sum_range_succ, Finset.sum_add_distrib]
      ring
    have e2 : ∑ i ∈ Finset.range (n + 1), ∑ j ∈ Finset.range (n + 1), (if i < j then 2 * a i j else 0)
        = (∑ i ∈ Finset.range n, ∑ j ∈ Finset.range n, if i < j then 2 * a i j else 0)
          + ∑ i ∈ Finset.range n, 2 * a i n := by
      rw [Finset.sum_range_succ]
      simp only [Finset.sum_range_succ, Finset.sum_add_distrib, lt_irrefl, if_false, add_zero]
      have h1 : ∑ j ∈ Finset.range n, (if n < j then 2 * a n j else 0) = 0 := by
        apply Finset.sum_eq_zero; intro j hj
        have : ¬ n < j := by have := Finset.mem_range.mp hj; omega
        simp [this]
      have h2 : ∑ i ∈ Finset.range n, (if i < n then 2 * a i n else 0) = ∑ i ∈ Finset.range n, 2 * a i n := by
        apply Finset.sum_congr rfl; intro i hi
        simp [Finset.mem_range.mp hi]
      rw [h1, h2]; ring
    have e3 : ∑ j ∈ Finset.range n, a n j = ∑ i ∈ Finset.range n, a i n := by
      apply Finset.sum_congr rfl; intro j hj
      exact hs n j (by omega) (by have := Finset.mem_range.mp hj; omega)
    rw [e1, e2, Finset.sum_range_succ, ih', e3, ← Finset.mul_sum]
    ring

end Momtrop.C10

namespace Momtrop.C10
open Momtrop Scalar Matrix

/-- the inverse returned by the matrix routine is a symmetric matrix -/
theorem inverse_symm (A : Mat ℝ) (n : Nat) {i j : Nat} (hi : i < n) (hj : j < n) :
    (C15.result A n).inverse.get i j = (C15.result A n).inverse.get j i := by
  have h := C15.M_result_inverse A n
  have ht : (M n (C15.result A n).inverse)ᵀ = M n (C15.result A n).inverse := by
    rw [h, transpose_mul, transpose_transpose]
  have := congrFun (congrFun ht ⟨j, hj⟩) ⟨i, hi⟩
  simpa [M_apply] using this

theorem lMatrix_symmOn' (x : List ℝ) (S : List (List Int)) : SymmOn (lMatrix x S) (S.getD 0 []).length := by
  intro i j hi hj
  rw [lMatrix_get x S hi hj, lMatrix_get x S hj hi]
  apply Finset.sum_congr rfl; intro e _; ring

theorem sum3_rotate {A B C : Type} [Fintype A] [Fintype B] [Fintype C] (f : A → B → C → ℝ) :
    ∑ a, ∑ b, ∑ c, f a b c = ∑ c, ∑ a, ∑ b, f a b c := by
  have : ∀ a, ∑ b, ∑ c, f a b c = ∑ c, ∑ b, f a b c := fun a => Finset.sum_comm
  simp only [this]
  exact Finset.sum_comm

/-- **The momentum identity on the model's own functions.** For well-formed lists (`E` edges, `L` loops,
`D`-component vectors) and an `L` matrix with positive Cholesky pivots, feeding `lMatrix → decompose → uVectors →
vPolynomial → loopMomenta` gives momenta at which `Σ_e x_e(|q_e|²+m_e²) = v·(1+|q|²/(2λ))`. -/
theorem model_identity (x : List ℝ) (S : List (List Int)) (D : Nat) (shifts : List (Vec ℝ)) (masses : List ℝ)
    (q : List (Vec ℝ)) (lam : ℝ)
    (hx : x.length = S.length) (hm : masses.length = S.length) (hs : shifts.length = S.length)
    (hsD : ∀ e, e < S.length → (shifts.getD e []).length = D)
    (hq : q.length = (S.getD 0 []).length)
    (hp : PivotsPos (lMatrix x S) (S.getD 0 []).length) (hlam : 0 < lam)
    (hv0 : 0 ≤ vPolynomial x (uVectors D x S shifts) (C15.result (lMatrix x S) (S.getD 0 []).length).inverse
              (S.getD 0 []).length shifts masses) :
    let nL := (S.getD 0 []).length
    let dec := C15.result (lMatrix x S) nL
    let u := uVectors D x S shifts
    let v := vPolynomial x u dec.inverse nL shifts masses
    let k := loopMomenta D v lam dec.qTInv nL q dec.inverse u
    ∑ e : Fin S.length, x.getD e 0 *
        ((∑ i : Fin D, (∑ l : Fin nL, (sigGet S e l : ℝ) * (k.getD l []).get i + (shifts.getD e []).get i) ^ 2)
          + masses.getD e 0 ^ 2)
      = v * (1 + (∑ i : Fin D, ∑ l : Fin nL, (q.getD l []).get i ^ 2) / (2 * lam)) := by
  intro nL dec u v k
  have hsym := lMatrix_symmOn' x S
  set Li : Matrix (Fin nL) (Fin nL) ℝ := M nL dec.inverse with hLi
  set Qti : Matrix (Fin nL) (Fin nL) ℝ := M nL dec.qTInv with hQti
  have hML : M nL (lMatrix x S) = lMat (Sm S) (xv x S) := M_lMatrix x S
  have hinv : lMat (Sm S) (xv x S) * Li = 1 := by
    rw [← hML]; exact mul_eq_one_comm.mp (C15.inverse_correct _ _ hp hsym).1
  have hQ : Qtiᵀ * lMat (Sm S) (xv x S) * Qti = 1 := by
    rw [← hML]; exact qTInv_whitens _ _ hp hsym
  let m : Fin S.length → ℝ := fun e => masses.getD e 0
  let p : Fin D → Fin S.length → ℝ := fun i => pv S shifts i
  let qf : Fin D → Fin nL → ℝ := fun i l => (q.getD l []).get i
  let U : Fin D → Fin nL → ℝ := fun i => uVec (Sm S) (xv x S) (p i)
  have hu : ∀ (i : Fin D) (l : Fin nL), (u.getD l []).get i = U i l :=
    fun i l => uVectors_eq_uVec x S D shifts i.2 l
  have hulen : u.length = nL := uVectors_len x S D shifts
  have huD : ∀ l, l < nL → (u.getD l []).length = D := fun l hl => uVectors_length x S D shifts hl
  -- the loop momenta as vectors over the loops
  have hk : ∀ (i : Fin D), (fun l : Fin nL => (k.getD l []).get i)
      = Real.sqrt (v / lam / 2) • (Qti *ᵥ qf i) - Li *ᵥ uVec (Sm S) (xv x S) (p i) := by
    intro i
    funext l
    rw [loopMomenta_get D nL v lam dec.qTInv dec.inverse q u hq hulen l.2 i.2, Finset.sum_sub_distrib]
    simp only [Pi.sub_apply, Pi.smul_apply, smul_eq_mul, mulVec, dotProduct]
    rw [Finset.sum_range (fun l' => (q.getD l' []).get i * (Real.sqrt (v / lam / 2) * dec.qTInv.get l l')),
      Finset.sum_range (fun l' => (u.getD l' []).get i * dec.inverse.get l l'), Finset.mul_sum]
    congr 1
    · apply Finset.sum_congr rfl; intro l' _
      simp only [hQti, M_apply, qf]; ring
    · apply Finset.sum_congr rfl; intro l' _
      rw [hu i l']; simp only [hLi, M_apply]; ring
  -- dot products of the u vectors as sums over the components
  have hdot : ∀ (l l' : Fin nL), Vec.dot (u.getD l []) (u.getD l' []) = ∑ i : Fin D, U i l * U i l' := by
    intro l l'
    rw [dot_eq_sum _ _ (by rw [huD l l.2, huD l' l'.2]), huD l l.2, Finset.sum_range]
    apply Finset.sum_congr rfl; intro i _
    rw [hu i l, hu i l']
  -- V in closed form
  have hv : v = (∑ e, xv x S e * (m e * m e)) + ∑ i : Fin D, C09.Vabs (Sm S) (xv x S) (p i) Li := by
    show vPolynomial x u dec.inverse nL shifts masses = _
    rw [vPolynomial_eq S.length nL x masses u shifts dec.inverse hx hm hs]
    have hA : (∑ l ∈ Finset.range nL, Vec.squared (u.getD l []) * dec.inverse.get l l)
        + (∑ i ∈ Finset.range nL, ∑ j ∈ Finset.range nL,
            if i < j then 2 * Vec.dot (u.getD i []) (u.getD j []) * dec.inverse.get i j else 0)
        = ∑ l ∈ Finset.range nL, ∑ l' ∈ Finset.range nL, Vec.dot (u.getD l []) (u.getD l' []) * dec.inverse.get l l' := by
      rw [sym_double_sum nL (fun l l' => Vec.dot (u.getD l []) (u.getD l' []) * dec.inverse.get l l')]
      · congr 1
        · apply Finset.sum_congr rfl; intro l _; rw [C20.squared_eq_dot]
        · apply Finset.sum_congr rfl; intro i _
          apply Finset.sum_congr rfl; intro j _
          split <;> ring
      · intro i j hi hj
        rw [inverse_symm _ _ hi hj, C20.dot_comm (fun a b => mul_comm a b)]
    have hB : ∑ l ∈ Finset.range nL, ∑ l' ∈ Finset.range nL, Vec.dot (u.getD l []) (u.getD l' []) * dec.inverse.get l l'
        = ∑ i : Fin D, U i ⬝ᵥ (Li *ᵥ U i) := by
      have h1 : ∑ l ∈ Finset.range nL, ∑ l' ∈ Finset.range nL, Vec.dot (u.getD l []) (u.getD l' []) * dec.inverse.get l l'
          = ∑ l : Fin nL, ∑ l' : Fin nL, ∑ i : Fin D, U i l * (Li l l' * U i l') := by
        rw [Finset.sum_range (fun l => ∑ l' ∈ Finset.range nL, Vec.dot (u.getD l []) (u.getD l' []) * dec.inverse.get l l')]
        apply Finset.sum_congr rfl; intro l _
        rw [Finset.sum_range (fun l' => Vec.dot (u.getD (l : ℕ) []) (u.getD l' []) * dec.inverse.get l l')]
        apply Finset.sum_congr rfl; intro l' _
        rw [hdot l l', Finset.sum_mul]
        apply Finset.sum_congr rfl; intro i _
        simp only [hLi, M_apply]; ring
      rw [h1, sum3_rotate]
      apply Finset.sum_congr rfl; intro i _
      simp only [dotProduct, mulVec, Finset.mul_sum]
    have hC : (∑ e ∈ Finset.range S.length, (masses.getD e 0 * masses.getD e 0 + Vec.squared (shifts.getD e [])) * x.getD e 0)
        = (∑ e, xv x S e * (m e * m e)) + ∑ i : Fin D, p i ⬝ᵥ (diagonal (xv x S) *ᵥ p i) := by
      rw [Finset.sum_range (fun e => (masses.getD e 0 * masses.getD e 0 + Vec.squared (shifts.getD e [])) * x.getD e 0)]
      simp only [dotProduct, mulVec_diagonal]
      rw [Finset.sum_comm, ← Finset.sum_add_distrib]
      apply Finset.sum_congr rfl; intro e _
      rw [squared_eq_sum, hsD e e.2, Finset.sum_range]
      simp only [xv, m, p, pv, add_mul, Finset.sum_mul]
      congr 1
      · ring
      · apply Finset.sum_congr rfl; intro i _; ring
    unfold C09.Vabs
    rw [Finset.sum_sub_distrib, ← hB, ← hA, hC]
    ring
  -- assemble
  have key := propSum_total D (Sm S) (xv x S) m p qf v lam Li Qti hinv hQ hlam hv0 hv
  simp only [← hk] at key
  have hR : (∑ i : Fin D, ∑ l : Fin nL, (q.getD l []).get i ^ 2) = ∑ i : Fin D, qf i ⬝ᵥ qf i := by
    apply Finset.sum_congr rfl; intro i _
    simp only [dotProduct, qf]
    apply Finset.sum_congr rfl; intro l _; ring
  rw [hR, ← key]
  -- left-hand side: distribute and swap the sums over edges and components
  have hL : ∀ e : Fin S.length, x.getD e 0 *
        ((∑ i : Fin D, (∑ l : Fin nL, (sigGet S e l : ℝ) * (k.getD l []).get i + (shifts.getD e []).get i) ^ 2)
          + masses.getD e 0 ^ 2)
      = (∑ i : Fin D, (∑ l : Fin nL, Sm S e l * (k.getD l []).get i + p i e)
            * (xv x S e * (∑ l : Fin nL, Sm S e l * (k.getD l []).get i + p i e)))
        + xv x S e * (m e * m e) := by
    intro e
    show x.getD e 0 * ((∑ i : Fin D, (∑ l : Fin nL, (sigGet S e l : ℝ) * (k.getD l []).get i + (shifts.getD e []).get i) ^ 2)
          + masses.getD e 0 ^ 2)
      = (∑ i : Fin D, (∑ l : Fin nL, (sigGet S e l : ℝ) * (k.getD l []).get i + (shifts.getD e []).get i)
            * (x.getD e 0 * (∑ l : Fin nL, (sigGet S e l : ℝ) * (k.getD l []).get i + (shifts.getD e []).get i)))
        + x.getD e 0 * (masses.getD e 0 * masses.getD e 0)
    rw [mul_add, Finset.mul_sum]
    congr 1
    · apply Finset.sum_congr rfl; intro i _
      generalize (∑ l : Fin nL, (sigGet S e l : ℝ) * (k.getD l []).get i + (shifts.getD e []).get i) = a
      ring
    · ring
  simp only [hL, Finset.sum_add_distrib]
  congr 1
  rw [Finset.sum_comm]
  apply Finset.sum_congr rfl; intro i _
  simp only [dotProduct, mulVec_diagonal]
  simp only [mulVec, dotProduct, Pi.add_apply]
  rfl

end Momtrop.C10
