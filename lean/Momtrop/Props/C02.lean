import Momtrop.Proofs.RealInst
import Mathlib.Algebra.Order.BigOperators.Group.Finset
/-!
# C02 — sample weights are bounded by graph- and kinematics-only constants

`R`-theorems. The bounds follow from three identities that are cited rather than formalised here
(`U = Σ_T m_T` over spanning trees, `F = Σ c_F m_F` over 2-forests and mass terms, and the tropical
values being the *largest* monomials — C07/C08/C09); given those, everything else is proved:
a positive polynomial lies between its largest monomial and the number of monomials times it, and the
ratio `(U_tr/U)^{D/2} (V_tr/V)^{dod}` lies in an interval that depends only on `N_T`, `c_min`, `C_sum`.
-/
namespace Momtrop.C02
open Momtrop

variable {ι : Type} [Fintype ι]

/-- a sum of non-negative terms lies between its largest term and (number of terms)·(largest term) -/
theorem sum_between_max (m : ι → ℝ) (Mx : ℝ) (hnn : ∀ i, 0 ≤ m i) (hle : ∀ i, m i ≤ Mx) (hatt : ∃ i, m i = Mx) :
    Mx ≤ ∑ i, m i ∧ ∑ i, m i ≤ Fintype.card ι * Mx := by
  constructor
  · obtain ⟨i, hi⟩ := hatt
    rw [← hi]
    exact Finset.single_le_sum (fun j _ => hnn j) (Finset.mem_univ i)
  · calc ∑ i, m i ≤ ∑ _i : ι, Mx := Finset.sum_le_sum fun i _ => hle i
      _ = Fintype.card ι * Mx := by simp [Finset.card_univ]

/-- with positive coefficients `c_i ≥ c_min`: `c_min·max ≤ Σ c_i m_i ≤ (Σ c_i)·max` -/
theorem weighted_between_max (c m : ι → ℝ) (cmin Mx : ℝ) (hc : ∀ i, cmin ≤ c i) (hcmin : 0 ≤ cmin)
    (hnn : ∀ i, 0 ≤ m i) (hle : ∀ i, m i ≤ Mx) (hatt : ∃ i, m i = Mx) :
    cmin * Mx ≤ ∑ i, c i * m i ∧ ∑ i, c i * m i ≤ (∑ i, c i) * Mx := by
  constructor
  · obtain ⟨i, hi⟩ := hatt
    calc cmin * Mx = cmin * m i := by rw [hi]
      _ ≤ c i * m i := mul_le_mul_of_nonneg_right (hc i) (hnn i)
      _ ≤ ∑ j, c j * m j :=
        Finset.single_le_sum (f := fun j => c j * m j)
          (fun j _ => mul_nonneg (le_trans hcmin (hc j)) (hnn j)) (Finset.mem_univ i)
  · rw [Finset.sum_mul]
    exact Finset.sum_le_sum fun i _ => mul_le_mul_of_nonneg_left (hle i) (le_trans hcmin (hc i))

/-- **The weight ratio is bounded by graph/kinematics constants** (conditional on the polynomial bounds):
`N^{-D/2} C^{-dod} ≤ (U_tr/U)^{D/2} (V_tr/V)^{dod} ≤ (N/c_min)^{dod}`. -/
theorem ratio_bounds (U Utr V Vtr N cmin Csum halfD dod : ℝ)
    (hUt : 0 < Utr) (hVt : 0 < Vtr) (hN : 1 ≤ N) (hcmin : 0 < cmin) (hC : 0 < Csum)
    (hhalf : 0 ≤ halfD) (hdod : 0 ≤ dod)
    (hU1 : Utr ≤ U) (hU2 : U ≤ N * Utr) (hV1 : cmin / N * Vtr ≤ V) (hV2 : V ≤ Csum * Vtr) :
    N ^ (-halfD) * Csum ^ (-dod) ≤ (Utr / U) ^ halfD * (Vtr / V) ^ dod ∧
    (Utr / U) ^ halfD * (Vtr / V) ^ dod ≤ (N / cmin) ^ dod := by
  have hN0 : 0 < N := lt_of_lt_of_le one_pos hN
  have hU : 0 < U := lt_of_lt_of_le hUt hU1
  have hV : 0 < V := lt_of_lt_of_le (by positivity) hV1
  have a1 : 1 / N ≤ Utr / U := by
    rw [div_le_div_iff₀ hN0 hU]; linarith
  have a2 : Utr / U ≤ 1 := by rw [div_le_one hU]; exact hU1
  have b1 : 1 / Csum ≤ Vtr / V := by
    rw [div_le_div_iff₀ hC hV]; linarith
  have b2 : Vtr / V ≤ N / cmin := by
    rw [div_le_div_iff₀ hV hcmin]
    have := mul_le_mul_of_nonneg_left hV1 hN0.le
    have h3 : N * (cmin / N * Vtr) = cmin * Vtr := by field_simp
    rw [h3] at this
    linarith
  have hN' : N ^ (-halfD) = (1 / N) ^ halfD := by
    rw [Real.rpow_neg hN0.le, one_div, Real.inv_rpow hN0.le]
  have hC' : Csum ^ (-dod) = (1 / Csum) ^ dod := by
    rw [Real.rpow_neg hC.le, one_div, Real.inv_rpow hC.le]
  constructor
  · rw [hN', hC']
    apply mul_le_mul
    · exact Real.rpow_le_rpow (by positivity) a1 hhalf
    · exact Real.rpow_le_rpow (by positivity) b1 hdod
    · positivity
    · positivity
  · calc (Utr / U) ^ halfD * (Vtr / V) ^ dod ≤ 1 * (N / cmin) ^ dod := by
          apply mul_le_mul
          · exact Real.rpow_le_one (by positivity) a2 hhalf
          · exact Real.rpow_le_rpow (by positivity) b2 hdod
          · positivity
          · norm_num
      _ = (N / cmin) ^ dod := one_mul _

/-- non-vacuity: the hypotheses are satisfiable (massive bubble-like numbers) -/
example : ∃ U Utr V Vtr N cmin Csum : ℝ, 0 < Utr ∧ 0 < Vtr ∧ 1 ≤ N ∧ 0 < cmin ∧ 0 < Csum ∧
    Utr ≤ U ∧ U ≤ N * Utr ∧ cmin / N * Vtr ≤ V ∧ V ≤ Csum * Vtr :=
  ⟨3, 2, 5, 4, 2, 1, 3, by norm_num, by norm_num, by norm_num, by norm_num, by norm_num, by norm_num,
    by norm_num, by norm_num, by norm_num⟩

end Momtrop.C02
