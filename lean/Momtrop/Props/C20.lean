import Momtrop.Model.Vector
/-!
# C20 — Vector primitives implement their componentwise definitions

All theorems are law-free (`S`): they hold for every `Scalar α`, in particular for the `Float`
instance that the correspondence check ties to Rust's `f64`. Core Lean only.
-/
namespace Momtrop.C20
open Momtrop Scalar
variable {α : Type} [Scalar α]

theorem getD_map_range (D : Nat) (f : Nat → α) {i : Nat} (h : i < D) :
    ((List.range D).map f).getD i zero = f i := by
  simp [List.getD_eq_getElem?_getD, h]

/-- `&v + &w` is componentwise `v[i] + w[i]`, and has exactly `D` components. -/
theorem add_get (D : Nat) (v w : Vec α) {i : Nat} (h : i < D) :
    (Vec.add D v w).get i = v.get i + w.get i := by
  unfold Vec.add Vec.get; exact getD_map_range D _ h
theorem add_length (D : Nat) (v w : Vec α) : (Vec.add D v w).length = D := by simp [Vec.add]

/-- `&v - &w` is componentwise `v[i] - w[i]`. -/
theorem sub_get (D : Nat) (v w : Vec α) {i : Nat} (h : i < D) :
    (Vec.sub D v w).get i = v.get i - w.get i := by
  unfold Vec.sub Vec.get; exact getD_map_range D _ h
theorem sub_length (D : Nat) (v w : Vec α) : (Vec.sub D v w).length = D := by simp [Vec.sub]

/-- `v += w` is componentwise `v[i] + w[i]`. -/
theorem addAssign_get (D : Nat) (v w : Vec α) {i : Nat} (h : i < D) :
    (Vec.addAssign D v w).get i = v.get i + w.get i := by
  unfold Vec.addAssign Vec.get; exact getD_map_range D _ h

/-- `&v * s` (by value and by reference) is componentwise `v[i] * s`, of the same length. -/
theorem smul_get (v : Vec α) (s : α) {i : Nat} (h : i < v.length) :
    (Vec.smul v s).get i = v.get i * s := by
  unfold Vec.smul Vec.get
  simp [List.getD_eq_getElem?_getD, h]
theorem smul_length (v : Vec α) (s : α) : (Vec.smul v s).length = v.length := by simp [Vec.smul]

/-- `new` / `new_from_num`: `D` zeros. -/
theorem zeros_get (D i : Nat) : (Vec.zeros D : Vec α).get i = zero := by
  unfold Vec.zeros Vec.get
  by_cases h : i < D <;> simp [List.getD_eq_getElem?_getD, h]
theorem zeros_length (D : Nat) : (Vec.zeros D : Vec α).length = D := by simp [Vec.zeros]

theorem foldl_zip_self (v : List α) (init : α) :
    (v.zip v).foldl (fun acc p => acc + p.1 * p.2) init = v.foldl (fun acc x => acc + x * x) init := by
  induction v generalizing init with
  | nil => rfl
  | cons x xs ih => simp [List.zip_cons_cons, List.foldl_cons, ih]

/-- `squared(v) = dot(v, v)` — literally the same fold, hence bit-identical for every scalar. -/
theorem squared_eq_dot (v : Vec α) : Vec.squared v = Vec.dot v v := by
  unfold Vec.squared Vec.dot; exact (foldl_zip_self v zero).symm

/-- `dot` accumulates from index 0: `dot (x :: xs) (y :: ys)` first adds `x*y` to zero. -/
theorem dot_cons (x y : α) (xs ys : Vec α) :
    Vec.dot (x :: xs) (y :: ys) = (xs.zip ys).foldl (fun acc p => acc + p.1 * p.2) (zero + x * y) := by
  simp [Vec.dot, List.zip_cons_cons, List.foldl_cons]

/-- `dot` as an index loop from 0, starting at `zero`. -/
theorem dot_eq_range_fold (v w : Vec α) (h : v.length = w.length) :
    Vec.dot v w = (List.range v.length).foldl (fun acc i => acc + v.get i * w.get i) zero := by
  unfold Vec.dot
  suffices H : ∀ (init : α), (v.zip w).foldl (fun acc p => acc + p.1 * p.2) init
      = (List.range v.length).foldl (fun acc i => acc + v.get i * w.get i) init from H zero
  induction v generalizing w with
  | nil => intro init; simp
  | cons x xs ih =>
    intro init
    cases w with
    | nil => simp at h
    | cons y ys =>
      simp only [List.length_cons, Nat.add_right_cancel_iff] at h
      rw [List.zip_cons_cons, List.foldl_cons, ih ys h, List.length_cons, List.range_succ_eq_map,
        List.foldl_cons, List.foldl_map]
      simp [Vec.get]

theorem foldl_zip_comm (hc : ∀ a b : α, a * b = b * a) (v w : List α) (init : α) :
    (v.zip w).foldl (fun acc p => acc + p.1 * p.2) init
      = (w.zip v).foldl (fun acc p => acc + p.1 * p.2) init := by
  induction v generalizing w init with
  | nil => simp
  | cons x xs ih =>
    cases w with
    | nil => simp
    | cons y ys => simp [List.zip_cons_cons, List.foldl_cons, ih, hc x y]

/-- `dot` is symmetric for every scalar whose multiplication commutes (true of IEEE `*`). -/
theorem dot_comm (hc : ∀ a b : α, a * b = b * a) (v w : Vec α) : Vec.dot v w = Vec.dot w v := by
  unfold Vec.dot; exact foldl_zip_comm hc v w zero

end Momtrop.C20
