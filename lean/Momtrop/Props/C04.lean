import Momtrop.Proofs.JFun
import Momtrop.Proofs.RealInst
/-!
# C04 — the J function obeys its recursion; I_tr and the cached normalisation follow

* `S` (law-free, every scalar type — hence the IEEE computation with its summation order):
  memoisation soundness (`memo_sound`, `table_j`), `J(∅)=1`, the recursion (`J_rec`).
* `R` (exact arithmetic): the edge probabilities sum to one, the closed form of the cached factor.
-/
namespace Momtrop.C04
open Momtrop Scalar

section S
variable {α : Type} [Scalar α]

theorem full_lt (n : Nat) : Mask.full n < 2 ^ n := by
  unfold Mask.full; rw [Nat.one_shiftLeft]
  have : 0 < 2 ^ n := Nat.pos_of_ne_zero (by intro h; simp at h)
  exact Nat.sub_lt this (by omega)

theorem sub_full {n : Nat} {h : Mask} (hh : h < 2 ^ n) : Sub h (Mask.full n) := by
  intro e he
  rw [Mask.hasEdge_iff] at he ⊢
  unfold Mask.full
  rw [Nat.one_shiftLeft, Nat.testBit_two_pow_sub_one]
  have hge := Nat.ge_two_pow_of_testBit he
  simp only [decide_eq_true_eq]
  apply Nat.lt_of_not_le
  intro hcon
  have : 2 ^ n ≤ 2 ^ e := Nat.pow_le_pow_right (by omega) hcon
  exact absurd (Nat.lt_of_lt_of_le hh (Nat.le_trans this hge)) (Nat.lt_irrefl _)

theorem card_full (n : Nat) : card n (Mask.full n) = n := by
  unfold card; rw [Mask.edges_full]; simp

/-- **Memoisation soundness.** After the top-level call of `recursive_fill_j_function` on the full
graph, *every* subset id holds exactly the value of the direct recursion `J(∅)=1`,
`J(g)=Σ_{e∈g} J(g∖e)/ω(g∖e)` (same summation order, so bit-identical for floats). -/
theorem memo_sound (omega : Mask → α) (n : Nat) (g : Mask) (hg : g < 2 ^ n) :
    (fillJ omega n n (Mask.full n) (List.replicate (2 ^ n) none)).2.getD g none
      = some (Jval omega n g) := by
  have post := fillJ_spec omega n n (Mask.full n) _ (full_lt n) (by rw [card_full])
    (inv_replicate omega n)
  have hs : ((fillJ omega n n (Mask.full n) (List.replicate (2 ^ n) none)).2.getD (Mask.full n) none).isSome = true := by
    rw [post.stored]; rfl
  have := post.inv.closed (Mask.full n) g (full_lt n) hs (sub_full hg)
  cases hv : (fillJ omega n n (Mask.full n) (List.replicate (2 ^ n) none)).2.getD g none with
  | none => rw [hv] at this; simp at this
  | some j => rw [post.inv.ok g j hv]

/-- `J(∅) = 1` -/
theorem J_empty (omega : Mask → α) (n : Nat) : Jval omega n 0 = one := Jval_zero omega n

/-- the recursion, in the implementation's summation order -/
theorem J_rec (omega : Mask → α) (n : Nat) (g : Mask) (hg : g < 2 ^ n) (h0 : g ≠ 0) :
    Jval omega n g = sumIter ((Mask.edges n g).map fun e => Jval omega n (Mask.pop g e) / omega (Mask.pop g e)) := by
  have hp := card_pos hg h0
  obtain ⟨c, hc⟩ : ∃ c, card n g = c + 1 := ⟨card n g - 1, by omega⟩
  unfold Jval
  rw [hc, jSpec_succ omega n c g h0]
  congr 1
  apply List.map_congr_left
  intro e he
  have := Mask.card_pop n g e he
  have h2 : card n (Mask.pop g e) = c := by unfold card at *; omega
  unfold jTerm; rw [h2]

/-- the table built by `generate_from_tropical` stores `J` of every subset -/
theorem table_j (Γ : α → α) (G : TGraph α) (D : Nat) (T : Table α) (h : generateTable Γ G D = .ok T)
    (g : Mask) (hg : g < 2 ^ G.topology.length) :
    ∃ e, T.entries[g]? = some e ∧
      e.j = Jval (omegaOf ((List.range (2 ^ G.topology.length)).map (preEntry G D))) G.topology.length g := by
  unfold generateTable at h
  cases hf : (List.range (2 ^ G.topology.length)).find? (isBad G D) with
  | some j => simp [hf] at h
  | none =>
    simp only [hf, Except.ok.injEq] at h
    subst h
    simp only [List.getElem?_map, List.getElem?_range hg, Option.map_some]
    refine ⟨_, rfl, ?_⟩
    simp only
    rw [memo_sound _ _ g hg]
    rfl

end S

section R

theorem sum_map_div (l : List Nat) (f : Nat → ℝ) (c : ℝ) :
    (l.map fun e => f e / c).sum = (l.map f).sum / c := by
  induction l with
  | nil => simp
  | cons x xs ih => simp [ih, add_div]

/-- **The edge probabilities `J(g∖e)/(J(g) ω(g∖e))` sum to one** (exact arithmetic). -/
theorem edge_probs_sum_one (omega : Mask → ℝ) (n : Nat) (g : Mask) (hg : g < 2 ^ n) (h0 : g ≠ 0)
    (hJ : Jval omega n g ≠ 0) :
    ((Mask.edges n g).map fun e => Jval omega n (Mask.pop g e) / Jval omega n g / omega (Mask.pop g e)).sum = 1 := by
  have hrec := J_rec omega n g hg h0
  rw [sumIter_eq] at hrec
  have : ((Mask.edges n g).map fun e => Jval omega n (Mask.pop g e) / Jval omega n g / omega (Mask.pop g e))
      = (Mask.edges n g).map fun e => (Jval omega n (Mask.pop g e) / omega (Mask.pop g e)) / Jval omega n g := by
    apply List.map_congr_left; intro e _; rw [div_right_comm]
  rw [this, sum_map_div, ← hrec, div_self hJ]

/-- **The cached normalisation** is `I_tr · Γ(dod) / Π_e Γ(w_e) · π^{D·L/2}`. -/
theorem cachedFactor_eq (Γ : ℝ → ℝ) (G : TGraph ℝ) (D : Nat) (iTr : ℝ) :
    cachedFactor Γ G D iTr
      = iTr * (Γ G.dod / (G.topology.map fun e => Γ e.weight).prod) * Real.pi ^ (((D * G.numLoops : Nat) : ℝ) / 2) := by
  unfold cachedFactor
  simp only [prodIter_eq, powf_real, pi_real, ofInt_real]
  norm_num

end R
end Momtrop.C04
