import Momtrop.Props.C01Table
import Momtrop.Proofs.LoopStep
/-!
# The spanning flag can only be lost when an edge is removed

`spanT_mono`: for the table of a graph whose `numMassive` field is the number of its massive edges (what `from_graph` computes), a subset
that is mass-momentum spanning stays so when an edge is ADDED; equivalently removing an edge never gains the flag. This discharges the
second of the two `RemovalFacts`. The first ("a removal lowers the loop number by 0 or 1") is `loopsT_step`, from
`Momtrop.loopNumber_erase` (`Proofs/LoopStep.lean`: counting of connectivity classes on both sides of the removal with the cyclomatic
identity). `removalFacts` has no graph hypothesis left beyond `numMassive` being the count `from_graph` computes, and
`tropical_sampling_model` is `tropical_sampling_table` without the `RemovalFacts` premise.
-/
namespace Momtrop.C01
open Momtrop

theorem edgeConn_mono {α : Type} (top : List (TEdge α)) (s' s : List Nat) (hsub : ∀ e ∈ s', e ∈ s) (a b : Nat)
    (h : EdgeConn top s' a b) : EdgeConn top s a b := by
  unfold EdgeConn at *
  have hm : ∀ x y, AdjIn top s' x y → AdjIn top s x y := fun x y hxy => ⟨hsub x hxy.1, hsub y hxy.2.1, hxy.2.2⟩
  exact Relation.ReflTransGen.mono hm a b h

/-- momentum spanning is monotone in the subset -/
theorem momentum_spanning_mono {α : Type} (top : List (TEdge α)) (ext s' s : List Nat) (hs' : s'.Nodup) (hs : s.Nodup)
    (hsub : ∀ e ∈ s', e ∈ s)
    (h : ∃ c ∈ components top s', ∀ v ∈ ext, ∃ i ∈ Mask.edges top.length c, containsVertex top i v = true) :
    ∃ c ∈ components top s, ∀ v ∈ ext, ∃ i ∈ Mask.edges top.length c, containsVertex top i v = true := by
  obtain ⟨c', hc', hv⟩ := h
  unfold components at hc' ⊢
  obtain ⟨cl', hcl', rfl⟩ := List.mem_map.mp hc'
  obtain ⟨h1', _, _⟩ := componentLists_spec top s' hs'
  obtain ⟨h1, _, h3⟩ := componentLists_spec top s hs
  obtain ⟨seed, hseed, hclass'⟩ := h1' cl' hcl'
  obtain ⟨cl, hcl, hseedcl⟩ := h3 seed (hsub seed hseed)
  obtain ⟨sd2, _, hclass⟩ := h1 cl hcl
  refine ⟨Mask.ofList cl, List.mem_map.mpr ⟨cl, hcl, rfl⟩, ?_⟩
  intro v hvext
  obtain ⟨i, hi, hcv⟩ := hv v hvext
  obtain ⟨hin, hicl'⟩ := Mask.mem_edges_ofList.mp hi
  refine ⟨i, Mask.mem_edges_ofList.mpr ⟨hin, ?_⟩, hcv⟩
  have h1c : EdgeConn top s seed i := edgeConn_mono top s' s hsub seed i ((hclass' i).mp hicl')
  have h2c : EdgeConn top s sd2 seed := (hclass seed).mp hseedcl
  exact (hclass i).mpr (h2c.trans h1c)

theorem filter_length_mono (p : Nat → Bool) (s' s : List Nat) (hs' : s'.Nodup) (hsub : ∀ e ∈ s', e ∈ s) :
    (s'.filter p).length ≤ (s.filter p).length := by
  apply List.Subperm.length_le
  apply List.subperm_of_subset (hs'.filter _)
  intro x hx
  rw [List.mem_filter] at hx ⊢
  exact ⟨hsub x hx.1, hx.2⟩

/-- **the spanning flag is monotone** -/
theorem spanT_mono (G : TGraph ℝ) (D : Nat)
    (hnm : G.numMassive = ((List.range G.topology.length).filter (isMassive G.topology)).length)
    (g : Mask) (e : Nat) (he : e ∈ Mask.edges G.topology.length g) (h : spanT G D (Mask.pop g e) = true) :
    spanT G D g = true := by
  unfold spanT at *
  rw [(C03.preEntry_flags G D _).2] at h ⊢
  rw [C03.spanning_iff] at h ⊢
  have hsub : ∀ x ∈ Mask.edges G.topology.length (Mask.pop g e), x ∈ Mask.edges G.topology.length g := by
    intro x hx
    rw [C04.edges_pop_erase _ g e he] at hx
    exact List.mem_of_mem_erase hx
  refine ⟨?_, momentum_spanning_mono G.topology G.externals _ _ (Mask.edges_nodup _ _) (Mask.edges_nodup _ _) hsub h.2⟩
  apply le_antisymm
  · rw [hnm]
    apply filter_length_mono _ _ _ (Mask.edges_nodup _ _)
    intro x hx
    exact List.mem_range.mpr (Mask.mem_edges.mp hx).1
  · rw [← h.1]
    exact filter_length_mono _ _ _ (Mask.edges_nodup _ _) hsub

/-- with the spanning fact proved, only the loop-number fact remains a hypothesis -/
theorem removalFacts_of_loops (G : TGraph ℝ) (D : Nat)
    (hnm : G.numMassive = ((List.range G.topology.length).filter (isMassive G.topology)).length)
    (hloops : ∀ g e, e ∈ Mask.edges G.topology.length g →
      loopsT G D g = loopsT G D (Mask.pop g e) ∨ loopsT G D g = loopsT G D (Mask.pop g e) + 1) :
    RemovalFacts G D :=
  ⟨hloops, fun g e he h => spanT_mono G D hnm g e he h⟩

/-- **a removal lowers the table's loop number by 0 or 1** -/
theorem loopsT_step (G : TGraph ℝ) (D : Nat) (g : Mask) (e : Nat) (he : e ∈ Mask.edges G.topology.length g) :
    loopsT G D g = loopsT G D (Mask.pop g e) ∨ loopsT G D g = loopsT G D (Mask.pop g e) + 1 := by
  unfold loopsT
  rw [(C03.preEntry_flags G D _).1, (C03.preEntry_flags G D _).1, C04.edges_pop_erase _ g e he]
  exact loopNumber_erase G.topology _ (Mask.edges_nodup _ _) (fun x hx => (Mask.mem_edges.mp hx).1) e he

/-- both removal facts hold for every table `from_graph` can build -/
theorem removalFacts (G : TGraph ℝ) (D : Nat)
    (hnm : G.numMassive = ((List.range G.topology.length).filter (isMassive G.topology)).length) : RemovalFacts G D :=
  removalFacts_of_loops G D hnm (fun g e he => loopsT_step G D g e he)

/-- counting massive edges by index is counting them in the list -/
theorem massive_count {α : Type} (top : List (TEdge α)) :
    ((List.range top.length).filter (isMassive top)).length = (top.filter (·.massive)).length := by
  induction top using List.reverseRecOn with
  | nil => simp
  | append_singleton l a ih =>
    rw [List.length_append, List.length_singleton, List.range_succ, List.filter_append, List.filter_append,
      List.length_append, List.length_append, ← ih]
    congr 1
    · congr 1
      apply List.filter_congr
      intro x hx
      have hx' : x < l.length := List.mem_range.mp hx
      unfold isMassive
      rw [List.getElem?_append_left hx']
    · have : isMassive (l ++ [a]) l.length = a.massive := by
        unfold isMassive
        simp
      simp only [List.filter_cons, List.filter_nil, this]
      split <;> rfl

/-- `from_graph` stores the count the monotonicity theorem asks for -/
theorem fromGraph_numMassive (Gin : InGraph ℝ) (D : Nat) :
    (fromGraph Gin D).numMassive
      = ((List.range (fromGraph Gin D).topology.length).filter (isMassive (fromGraph Gin D).topology)).length :=
  (massive_count Gin.edges).symm

/-- both removal facts hold for the table of every input graph -/
theorem removalFacts_fromGraph (Gin : InGraph ℝ) (D : Nat) : RemovalFacts (fromGraph Gin D) D :=
  removalFacts _ D (fromGraph_numMassive Gin D)

open scoped ENNReal in
/-- **Tropical sampling on the model's table, no graph fact assumed.** -/
theorem tropical_sampling_model (G : TGraph ℝ) (D : Nat)
    (hnm : G.numMassive = ((List.range G.topology.length).filter (isMassive G.topology)).length)
    (g : Mask) (hg : g < 2 ^ G.topology.length)
    (hJ : ∀ h, h < 2 ^ G.topology.length → Jval (omegaT G D) G.topology.length h ≠ 0)
    (hJg : 0 < Jval (omegaT G D) G.topology.length g)
    (hω : ∀ m, m ≠ 0 → m < 2 ^ G.topology.length → card G.topology.length m < card G.topology.length g → 0 < omegaT G D m)
    (f : List Nat → List ℝ → ℝ≥0∞) :
    ((C04.orderingsAux (card G.topology.length g) (Mask.edges G.topology.length g)).map fun σ =>
        ENNReal.ofReal (C04.orderProb (omegaT G D) G.topology.length g σ) * chainInt (sectorOmegas (omegaT G D) g σ) 1 (f σ)).sum
      = ((C04.orderingsAux (card G.topology.length g) (Mask.edges G.topology.length g)).map fun σ =>
          nested (sectorOmegas (omegaT G D) g σ) 1 fun ys =>
            ENNReal.ofReal (weightProd (sectorSteps G D g σ) ys
              / ((uTrop (sectorSteps G D g σ) ys) ^ ((D : ℝ) / 2) * (vTrop (sectorSteps G D g σ) ys) ^ G.dod)
              / Jval (omegaT G D) G.topology.length g) * f σ ys).sum :=
  tropical_sampling_table G D (removalFacts G D hnm) g hg hJ hJg hω f

end Momtrop.C01
