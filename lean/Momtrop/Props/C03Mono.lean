import Momtrop.Props.C01Table
/-!
# The spanning flag can only be lost when an edge is removed

`spanT_mono`: for the table of a graph whose `numMassive` field is the number of its massive edges (what `from_graph` computes), a subset
that is mass-momentum spanning stays so when an edge is ADDED; equivalently removing an edge never gains the flag. This discharges the
second of the two `RemovalFacts`; `removalFacts_of_loops` leaves only "a removal lowers the loop number by 0 or 1" as a hypothesis.
-/
namespace Momtrop.C01
open Momtrop

theorem edgeConn_mono {α : Type} (top : List (TEdge α)) (s' s : List Nat) (hsub : ∀ e ∈ s', e ∈ s) (a b : Nat)
    (h : EdgeConn top s' a b) : EdgeConn top s a b := by
  unfold EdgeConn at *
  have hm : ∀ x y, AdjIn top s' x y → AdjIn top s x y := fun x y hxy => ⟨hsub x hxy.1, hsub y hxy.2.1, hxy.2.2⟩
  exact Relation.ReflTransGen.mono hm a b h

/-- momentum spanning is monotone in the subset -/
theorem momentum_spanning_mono {α : Type} (top : List (TEdge α)) (ext s' s : List Nat) (hs' : s'.Nodup) (hs : s.Nodup)
    (hsub : ∀ e ∈ s', e ∈ s)
    (h : ∃ c ∈ components top s', ∀ v ∈ ext, ∃ i ∈ Mask.edges top.length c, containsVertex top i v = true) :
    ∃ c ∈ components top s, ∀ v ∈ ext, ∃ i ∈ Mask.edges top.length c, containsVertex top i v = true := by
  obtain ⟨c', hc', hv⟩ := h
  unfold components at hc' ⊢
  obtain ⟨cl', hcl', rfl⟩ := List.mem_map.mp hc'
  obtain ⟨h1', _, _⟩ := componentLists_spec top s' hs'
  obtain ⟨h1, _, h3⟩ := componentLists_spec top s hs
  obtain ⟨seed, hseed, hclass'⟩ := h1' cl' hcl'
  obtain ⟨cl, hcl, hseedcl⟩ := h3 seed (hsub seed hseed)
  obtain ⟨sd2, _, hclass⟩ := h1 cl hcl
  refine ⟨Mask.ofList cl, List.mem_map.mpr ⟨cl, hcl, rfl⟩, ?_⟩
  intro v hvext
  obtain ⟨i, hi, hcv⟩ := hv v hvext
  obtain ⟨hin, hicl'⟩ := Mask.mem_edges_ofList.mp hi
  refine ⟨i, Mask.mem_edges_ofList.mpr ⟨hin, ?_⟩, hcv⟩
  have h1c : EdgeConn top s seed i := edgeConn_mono top s' s hsub seed i ((hclass' i).mp hicl')
  have h2c : EdgeConn top s sd2 seed := (hclass seed).mp hseedcl
  exact (hclass i).mpr (h2c.trans h1c)

theorem filter_length_mono (p : Nat → Bool) (s' s : List Nat) (hs' : s'.Nodup) (hsub : ∀ e ∈ s', e ∈ s) :
    (s'.filter p).length ≤ (s.filter p).length := by
  apply List.Subperm.length_le
  apply List.subperm_of_subset (hs'.filter _)
  intro x hx
  rw [List.mem_filter] at hx ⊢
  exact ⟨hsub x hx.1, hx.2⟩

/-- **the spanning flag is monotone** -/
theorem spanT_mono (G : TGraph ℝ) (D : Nat)
    (hnm : G.numMassive = ((List.range G.topology.length).filter (isMassive G.topology)).length)
    (g : Mask) (e : Nat) (he : e ∈ Mask.edges G.topology.length g) (h : spanT G D (Mask.pop g e) = true) :
    spanT G D g = true := by
  unfold spanT at *
  rw [(C03.preEntry_flags G D _).2] at h ⊢
  rw [C03.spanning_iff] at h ⊢
  have hsub : ∀ x ∈ Mask.edges G.topology.length (Mask.pop g e), x ∈ Mask.edges G.topology.length g := by
    intro x hx
    rw [C04.edges_pop_erase _ g e he] at hx
    exact List.mem_of_mem_erase hx
  refine ⟨?_, momentum_spanning_mono G.topology G.externals _ _ (Mask.edges_nodup _ _) (Mask.edges_nodup _ _) hsub h.2⟩
  apply le_antisymm
  · rw [hnm]
    apply filter_length_mono _ _ _ (Mask.edges_nodup _ _)
    intro x hx
    exact List.mem_range.mpr (Mask.mem_edges.mp hx).1
  · rw [← h.1]
    exact filter_length_mono _ _ _ (Mask.edges_nodup _ _) hsub

/-- with the spanning fact proved, only the loop-number fact remains a hypothesis -/
theorem removalFacts_of_loops (G : TGraph ℝ) (D : Nat)
    (hnm : G.numMassive = ((List.range G.topology.length).filter (isMassive G.topology)).length)
    (hloops : ∀ g e, e ∈ Mask.edges G.topology.length g →
      loopsT G D g = loopsT G D (Mask.pop g e) ∨ loopsT G D g = loopsT G D (Mask.pop g e) + 1) :
    RemovalFacts G D :=
  ⟨hloops, fun g e he h => spanT_mono G D hnm g e he h⟩

end Momtrop.C01
