import Momtrop.Model.Sample
import Momtrop.Props.C07
/-!
# C11 — jacobian = normalisation × U^(−D/2) × V^(−dod) in the rescaled gauge
-/
namespace Momtrop.C11
open Momtrop Scalar

section S
variable {α : Type} [Scalar α]

/-- **What an `Ok` sample returns** (`sampling.rs:113-145`): `u_trop = v_trop = one`, `u` is the determinant
of the `L` matrix decomposition, and `jacobian = (u_trop/u)^{halfD} · (v_trop/v)^{dod} · cached` in this
operation order, with `halfD = from_f64(D as f64 / 2.0)` (no integer division) — for every scalar type. -/
theorem jacobian_def (draw : α → α → Option α) (T : STable α) (D : Nat) (xs : List α)
    (S : List (List Int)) (ed : List (Option α × Vec α)) (st : Settings α) (res : SampleResult α)
    (h : sampleCore draw T D xs S ed st = some (.ok res)) :
    res.uTrop = one ∧ res.vTrop = one ∧
    res.jacobian = powf (res.uTrop / res.u) T.halfD * powf (res.vTrop / res.v) T.dod * T.cached ∧
    ∃ pr dec, permutahedral T xs = some pr ∧
      decompose (S.getD 0 []).length (lMatrix pr.x S) st.stability = .ok dec ∧ res.u = dec.determinant := by
  unfold sampleCore at h
  by_cases hx : xs.isEmpty = true
  · simp only [hx, if_true] at h; cases h
  · simp only [hx, Bool.false_eq_true, if_false] at h
    cases hpr : permutahedral T xs with
    | none => simp only [hpr] at h; cases h
    | some pr =>
      simp only [hpr] at h
      obtain ⟨_, _, hu1, hv1⟩ := C07.rescaling_common T xs pr hpr
      cases hdec : decompose (S.getD 0 []).length (lMatrix pr.x S) st.stability with
      | error e => simp only [hdec] at h; cases h
      | ok dec =>
        simp only [hdec] at h
        cases hp : xs[pr.reads]? with
        | none => simp only [hp] at h; cases h
        | some p =>
          simp only [hp] at h
          cases hl : draw T.dod p with
          | none => simp only [hl] at h; cases h
          | some lam =>
            simp only [hl] at h
            cases hq : qVectors xs (pr.reads + 1) T.dimension T.numLoops with
            | none => simp only [hq] at h; cases h
            | some q =>
              simp only [hq, Option.some.injEq, Except.ok.injEq] at h
              rw [← h]
              exact ⟨hu1, hv1, rfl, pr, dec, rfl, hdec, rfl⟩

end S

section R

/-- in exact arithmetic, with `u_trop = v_trop = 1`: `jacobian = cached · u^{−D/2} · v^{−dod}` for `u, v > 0` -/
theorem jacobian_rescaled_gauge (halfD dod cached u v : ℝ) (hu : 0 < u) (hv : 0 < v) :
    powf ((one : ℝ) / u) halfD * powf ((one : ℝ) / v) dod * cached = cached * u ^ (-halfD) * v ^ (-dod) := by
  simp only [powf_real, one_real, one_div]
  rw [Real.inv_rpow hu.le, Real.inv_rpow hv.le, Real.rpow_neg hu.le, Real.rpow_neg hv.le]
  ring

/-- **Gauge invariance.** Let `U`, `V` be the Symanzik values at parameters `x` and `U_tr`, `V_tr` the
tropical ones; under the common rescaling `x ↦ s·x` they become `s^L U`, `s V`, `s^L U_tr`, `s V_tr`
(homogeneity). If `s` normalises the tropical values (`rescaling_normalises`), the weight computed in
the rescaled gauge equals `(U_tr/U)^{D/2} (V_tr/V)^{dod}` at the unrescaled parameters. -/
theorem gauge_invariant (halfD dod s U V Utr Vtr : ℝ) (L : ℕ)
    (hs : 0 < s) (hU : 0 < U) (hV : 0 < V) (hUt : 0 < Utr) (hVt : 0 < Vtr)
    (hnorm : (s ^ L * Utr) ^ halfD * (s * Vtr) ^ dod = 1) :
    ((1 : ℝ) / (s ^ L * U)) ^ halfD * ((1 : ℝ) / (s * V)) ^ dod = (Utr / U) ^ halfD * (Vtr / V) ^ dod := by
  have hsL : 0 < s ^ L := pow_pos hs L
  have hA : 0 < (s ^ L * Utr) ^ halfD := Real.rpow_pos_of_pos (by positivity) _
  have hB : 0 < (s * Vtr) ^ dod := Real.rpow_pos_of_pos (by positivity) _
  have e1 : ((1 : ℝ) / (s ^ L * U)) ^ halfD = (Utr / U) ^ halfD / (s ^ L * Utr) ^ halfD := by
    rw [← Real.div_rpow (by positivity) (by positivity)]
    congr 1; field_simp
  have e2 : ((1 : ℝ) / (s * V)) ^ dod = (Vtr / V) ^ dod / (s * Vtr) ^ dod := by
    rw [← Real.div_rpow (by positivity) (by positivity)]
    congr 1; field_simp
  rw [e1, e2]
  calc (Utr / U) ^ halfD / (s ^ L * Utr) ^ halfD * ((Vtr / V) ^ dod / (s * Vtr) ^ dod)
      = (Utr / U) ^ halfD * (Vtr / V) ^ dod / ((s ^ L * Utr) ^ halfD * (s * Vtr) ^ dod) := by
        field_simp
    _ = (Utr / U) ^ halfD * (Vtr / V) ^ dod := by rw [hnorm, div_one]

end R
end Momtrop.C11
