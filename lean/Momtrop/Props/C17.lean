import Momtrop.Model.Sample
import Momtrop.Props.C16
/-!
# C17 — sampling is a pure function of its arguments

Law-free (`S`) theorems. In the model `sample` is a function of (table, signature, point, edge data,
settings); the sampler is an immutable value. The content is therefore: (i) which *settings* can
influence which outputs, (ii) the RNG entry point is `sample` on exactly `dimension` draws, (iii) an
API whose operations never change the state returns, for every history and interleaving, what a fresh
call returns. That the real `&self` methods cannot change the state is Rust's aliasing rule plus the
absence of interior mutability (source audit and `Send + Sync` assertion in the harness, not Lean).
-/
namespace Momtrop.C17
open Momtrop Scalar
variable {α : Type} [Scalar α]

/-- `print_debug_info` does not enter the computation at all -/
theorem debug_irrelevant (draw : α → α → Option α) (T : STable α) (D : Nat) (xs : List α)
    (S : List (List Int)) (ed : List (Option α × Vec α)) (st : Settings α) (b : Bool) :
    sampleCore draw T D xs S ed { st with debug := b } = sampleCore draw T D xs S ed st := rfl

/-- forget the metadata of a result -/
def stripMeta (r : Option (Except SampleErr (SampleResult α))) : Option (Except SampleErr (SampleResult α)) :=
  r.map fun e => e.map fun res => { res with metadata := none }

/-- `return_metadata` only decides whether the metadata is attached: all numerical outputs, the error
status and the number of coordinates read are the same -/
theorem meta_irrelevant (draw : α → α → Option α) (T : STable α) (D : Nat) (xs : List α)
    (S : List (List Int)) (ed : List (Option α × Vec α)) (st : Settings α) (b : Bool) :
    stripMeta (sampleCore draw T D xs S ed { st with returnMeta := b })
      = stripMeta (sampleCore draw T D xs S ed st) := by
  unfold sampleCore stripMeta
  by_cases hx : xs.isEmpty = true
  · simp only [hx, if_true]
  · simp only [hx, Bool.false_eq_true, if_false]
    cases hpr : permutahedral T xs with
    | none => rfl
    | some pr =>
      simp only
      cases hdec : decompose (S.getD 0 []).length (lMatrix pr.x S) st.stability with
      | error e => rfl
      | ok dec =>
        simp only
        cases hp : xs[pr.reads]? with
        | none => rfl
        | some p =>
          simp only
          cases hl : draw T.dod p with
          | none => rfl
          | some lam =>
            simp only
            cases hq : qVectors xs (pr.reads + 1) T.dimension T.numLoops with
            | none => rfl
            | some q => rfl

/-- `matrix_stability_test` can only turn an `Ok` into an error: whenever a sample is `Ok` with the test
on, the same sample is returned with the test off -/
theorem stability_only_rejects (draw : α → α → Option α) (T : STable α) (D : Nat) (xs : List α)
    (S : List (List Int)) (ed : List (Option α × Vec α)) (st : Settings α) (t : α) (res : SampleResult α)
    (h : sampleCore draw T D xs S ed { st with stability := some t } = some (.ok res)) :
    sampleCore draw T D xs S ed { st with stability := none } = some (.ok res) := by
  unfold sampleCore at h ⊢
  by_cases hx : xs.isEmpty = true
  · simp only [hx, if_true] at h; cases h
  · simp only [hx, Bool.false_eq_true, if_false] at h ⊢
    cases hpr : permutahedral T xs with
    | none => simp only [hpr] at h; cases h
    | some pr =>
      simp only [hpr] at h ⊢
      cases hdec : decompose (S.getD 0 []).length (lMatrix pr.x S) (some t) with
      | error e => simp only [hdec] at h; cases h
      | ok dec =>
        simp only [hdec] at h
        rw [C16.ok_same_without_test _ _ t dec hdec]
        exact h

/-- `generate_sample_from_rng`: draw exactly `dimension` numbers, then `sample` on them -/
def sampleFromRng (draw : α → α → Option α) (T : STable α) (D : Nat) (dimension : Nat) (rng : Nat → α)
    (S : List (List Int)) (ed : List (Option α × Vec α)) (st : Settings α) :=
  sampleCore draw T D ((List.range dimension).map rng) S ed st

theorem fromRng_draws (dimension : Nat) (rng : Nat → α) : ((List.range dimension).map rng).length = dimension := by
  simp

/-- **Histories and interleavings.** An API whose operations leave the state unchanged (`step s op = (s, f s op)`)
answers every operation of every history exactly as a fresh call on the initial state would. -/
def runHistory {σ ι ο : Type} (f : σ → ι → ο) (s : σ) : List ι → σ × List ο
  | [] => (s, [])
  | op :: ops => let r := runHistory f s ops; (r.1, f s op :: r.2)

theorem history_irrelevant {σ ι ο : Type} (f : σ → ι → ο) (s : σ) (ops : List ι) :
    (runHistory f s ops).1 = s ∧ (runHistory f s ops).2 = ops.map (f s) := by
  induction ops with
  | nil => exact ⟨rfl, rfl⟩
  | cons op ops ih => exact ⟨ih.1, by simp [runHistory, ih.2]⟩

/-- in particular the answer to `op` does not depend on what was asked before or after it, nor by whom:
any interleaving `h₁ ++ op :: h₂` of several clients' histories gives `f s op` at that position -/
theorem interleaving_irrelevant {σ ι ο : Type} (f : σ → ι → ο) (s : σ) (h₁ h₂ : List ι) (op : ι) :
    (runHistory f s (h₁ ++ op :: h₂)).2[h₁.length]? = some (f s op) := by
  rw [(history_irrelevant f s _).2]
  simp

end Momtrop.C17
