import Momtrop.Props.C02
import Momtrop.Props.C07Forest
/-!
# C02: the premise on `U` is a theorem of the model

`U_premises`: for a successful run of the model's `permatuhedral_sampling` on a table whose loop numbers are those of the graph,
with `x` the pre-rescaling Feynman parameters and `U = Σ_{cotrees C} ∏_{e∈C} x_e` (the first Symanzik polynomial: sum over the complements
of spanning forests), the reported `u_trop` satisfies `U_tr ≤ U ≤ N_T · U_tr`, `N_T` the number of spanning forests.
`ratio_bounds_U`: hence the bound of C02 needs only the two premises on `V`.
-/
namespace Momtrop.C02
open Momtrop Momtrop.C07
open Classical

variable {β : Type}

theorem U_premises (T : STable ℝ) (top : List (TEdge β))
    (hL : ∀ m, m < 2 ^ T.numEdges → T.loops m = loopsOf top (Mask.edges T.numEdges m).toFinset)
    (xs : List ℝ) (r : PermResult ℝ) (h : permutahedral T xs = some r)
    (hpos : ∀ s ∈ permTrace T xs T.numEdges (Mask.full T.numEdges) 0, ∀ xi, s.xi = some xi → 0 < xi ∧ xi ≤ 1 ∧ 0 < T.omega s.rest) :
    let x : ℕ → ℝ := fun e => r.xPre.getD e 0
    let U : ℝ := ∑ C ∈ cotrees top (Finset.range T.numEdges), ∏ e ∈ C, x e
    r.uTrPre ≤ U ∧ U ≤ (cotrees top (Finset.range T.numEdges)).card * r.uTrPre ∧
      1 ≤ (cotrees top (Finset.range T.numEdges)).card := by
  intro x U
  obtain ⟨hmax, C0, hC0, hC0eq⟩ := uTrop_is_largest_monomial T top hL xs r h hpos
  have hmem : C0 ∈ cotrees top (Finset.range T.numEdges) := by
    unfold cotrees
    rw [Finset.mem_filter, Finset.mem_powerset]
    exact ⟨hC0.1, hC0⟩
  have hnn : ∀ C ∈ cotrees top (Finset.range T.numEdges), 0 ≤ ∏ e ∈ C, x e := by
    intro C hC
    -- every cotree monomial is below u_trop; non-negativity: the parameters are products of positive factors or the default 0
    apply Finset.prod_nonneg
    intro e _
    simp only [x]
    by_cases he : e < r.xPre.length
    · rw [List.getD_eq_getElem?_getD, List.getElem?_eq_getElem he, Option.getD_some]
      -- the value at a written position is a product of factors in (0,1]; at any position it is ≥ 0
      obtain ⟨hord, hnd, hchain, hget⟩ := sector_formula T xs r h
      by_cases hmemtr : e ∈ (permTrace T xs T.numEdges (Mask.full T.numEdges) 0).map (·.e)
      · obtain ⟨k, hk, hke⟩ := List.getElem_of_mem hmemtr
        have hk' : k < (permTrace T xs T.numEdges (Mask.full T.numEdges) 0).length := by simpa using hk
        have := (hget k hk').1
        rw [List.getElem_map] at hke
        rw [hke, List.getElem?_eq_getElem he] at this
        rw [Option.some.inj this]
        exact (sector_monotone T _ hpos k hk').2.2.le
      · -- never written: still the initial 0
        unfold permutahedral at h
        simp only at h
        split at h
        · cases h
        next st hp =>
          simp only [Option.some.injEq] at h
          subst h
          have h1 := (permLoop_trace T xs T.numEdges (Mask.full T.numEdges) _ st hp).1
          simp only at h1 he ⊢
          have hlen : st.x.length = T.numEdges := by rw [h1, replay_length]; simp
          have := replay_get_other T (permTrace T xs T.numEdges (Mask.full T.numEdges) 0) (Scalar.one : ℝ)
            (List.replicate T.numEdges (Scalar.zero : ℝ)) e hmemtr
          rw [← h1] at this
          rw [List.getElem?_eq_getElem he] at this
          have h0 : (List.replicate T.numEdges (Scalar.zero : ℝ))[e]? = some 0 := by
            rw [List.getElem?_replicate, if_pos (by rw [← hlen]; exact he)]
            rfl
          rw [h0] at this
          rw [Option.some.inj this]
    · rw [List.getD_eq_getElem?_getD, List.getElem?_eq_none (by omega)]
      simp
  refine ⟨?_, ?_, Finset.card_pos.mpr ⟨C0, hmem⟩⟩
  · rw [← hC0eq]
    exact Finset.single_le_sum (f := fun C => ∏ e ∈ C, x e) hnn hmem
  · rw [← nsmul_eq_mul]
    apply Finset.sum_le_card_nsmul
    intro C hC
    unfold cotrees at hC
    rw [Finset.mem_filter] at hC
    exact hmax C hC.2

/-- **C02 with the premise on `U` discharged**: only the two premises on `V` remain hypotheses -/
theorem ratio_bounds_U (T : STable ℝ) (top : List (TEdge β))
    (hL : ∀ m, m < 2 ^ T.numEdges → T.loops m = loopsOf top (Mask.edges T.numEdges m).toFinset)
    (xs : List ℝ) (r : PermResult ℝ) (h : permutahedral T xs = some r)
    (hpos : ∀ s ∈ permTrace T xs T.numEdges (Mask.full T.numEdges) 0, ∀ xi, s.xi = some xi → 0 < xi ∧ xi ≤ 1 ∧ 0 < T.omega s.rest)
    (V Vtr cmin Csum halfD dod : ℝ) (hUt : 0 < r.uTrPre) (hVt : 0 < Vtr) (hcmin : 0 < cmin) (hC : 0 < Csum)
    (hhalf : 0 ≤ halfD) (hdod : 0 ≤ dod)
    (hV1 : cmin / (cotrees top (Finset.range T.numEdges)).card * Vtr ≤ V) (hV2 : V ≤ Csum * Vtr) :
    let x : ℕ → ℝ := fun e => r.xPre.getD e 0
    let U : ℝ := ∑ C ∈ cotrees top (Finset.range T.numEdges), ∏ e ∈ C, x e
    let N : ℝ := (cotrees top (Finset.range T.numEdges)).card
    N ^ (-halfD) * Csum ^ (-dod) ≤ (r.uTrPre / U) ^ halfD * (Vtr / V) ^ dod ∧
      (r.uTrPre / U) ^ halfD * (Vtr / V) ^ dod ≤ (N / cmin) ^ dod := by
  intro x U N
  obtain ⟨h1, h2, h3⟩ := U_premises T top hL xs r h hpos
  exact ratio_bounds U r.uTrPre V Vtr N cmin Csum halfD dod hUt hVt (by simp only [N]; exact_mod_cast h3) hcmin hC hhalf hdod h1 h2 hV1 hV2

/-- `U_premises` for a table with the loop numbers of `preEntry G D` (what `generate_from_tropical` stores): no hypothesis on the graph left -/
theorem U_premises_model (T : STable ℝ) (G : TGraph ℝ) (D : Nat) (hn : T.numEdges = G.topology.length)
    (hl : ∀ m, m < 2 ^ T.numEdges → T.loops m = (preEntry G D m).2.1)
    (xs : List ℝ) (r : PermResult ℝ) (h : permutahedral T xs = some r)
    (hpos : ∀ s ∈ permTrace T xs T.numEdges (Mask.full T.numEdges) 0, ∀ xi, s.xi = some xi → 0 < xi ∧ xi ≤ 1 ∧ 0 < T.omega s.rest) :
    let x : ℕ → ℝ := fun e => r.xPre.getD e 0
    let U : ℝ := ∑ C ∈ cotrees G.topology (Finset.range T.numEdges), ∏ e ∈ C, x e
    r.uTrPre ≤ U ∧ U ≤ (cotrees G.topology (Finset.range T.numEdges)).card * r.uTrPre ∧
      1 ≤ (cotrees G.topology (Finset.range T.numEdges)).card :=
  U_premises T G.topology (fun m hm => by rw [hl m hm, hn, preEntry_loops]) xs r h hpos

/-- **`V ≤ C_sum · V_tr`** from the monomial bounds: if `F = Σ_i c_i m_i` with non-negative coefficients and every monomial
`m_i ≤ U_tr · V_tr` (`C07.mass_terms_le`, `C07.momentum_terms_le`), and `U_tr ≤ U` (`U_premises`), then `F / U ≤ (Σ_i c_i) · V_tr` -/
theorem V_upper {ι : Type} (s : Finset ι) (c m : ι → ℝ) (U Utr Vtr : ℝ) (hc : ∀ i ∈ s, 0 ≤ c i)
    (hm : ∀ i ∈ s, m i ≤ Utr * Vtr) (hU : Utr ≤ U) (hUt : 0 < Utr) (hVt : 0 ≤ Vtr) :
    (∑ i ∈ s, c i * m i) / U ≤ (∑ i ∈ s, c i) * Vtr := by
  have hUpos : 0 < U := lt_of_lt_of_le hUt hU
  rw [div_le_iff₀ hUpos]
  calc ∑ i ∈ s, c i * m i ≤ ∑ i ∈ s, c i * (Utr * Vtr) :=
        Finset.sum_le_sum fun i hi => mul_le_mul_of_nonneg_left (hm i hi) (hc i hi)
    _ = (∑ i ∈ s, c i) * Vtr * Utr := by rw [← Finset.sum_mul]; ring
    _ ≤ (∑ i ∈ s, c i) * Vtr * U :=
        mul_le_mul_of_nonneg_left hU (mul_nonneg (Finset.sum_nonneg hc) hVt)

end Momtrop.C02
