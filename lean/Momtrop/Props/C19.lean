import Momtrop.Props.C14
/-!
# C19 — user precision is preserved: only the Gamma draw narrows to `f64`

The model's arithmetic interface `Scalar` has **no** `to_f64`: every definition of the sampling model
(`permutahedral`, `lMatrix`, `decompose`, `uVectors`, `vPolynomial`, `loopMomenta`, `sampleCore`) is
accepted by Lean with that interface alone, so no narrowing is expressible in them. The only narrowing
of the real code is inside the Gamma draw, which `sampleCore` receives as the parameter `draw`. The
theorems state how `draw` is used: once, on `(from_f64(dod), xs[2E−2])`.
-/
namespace Momtrop.C19
open Momtrop Scalar
variable {α : Type} [Scalar α]

/-- the sample depends on the narrowing draw only through its value at `(dod, coordinate 2E−2)` -/
theorem narrowing_only_in_draw (draw draw' : α → α → Option α) (T : STable α) (D : Nat) (xs : List α)
    (S : List (List Int)) (ed : List (Option α × Vec α)) (st : Settings α) (hE : 1 ≤ T.numEdges)
    (h : ∀ p, xs[2 * T.numEdges - 2]? = some p → draw T.dod p = draw' T.dod p) :
    sampleCore draw T D xs S ed st = sampleCore draw' T D xs S ed st := by
  apply C14.lambda_depends_one
  intro pr p hpr hp
  have := C14.permutahedral_reads T xs pr hE hpr
  have hidx : pr.reads = 2 * T.numEdges - 2 := by omega
  rw [hidx] at hp
  exact h p hp

/-- everything before the draw — Feynman parameters, `L` matrix, its decomposition (hence `u`, the
inverse and the Cholesky factors) — does not involve the draw at all: it is computed in the user's
scalar type from the point and the table constants -/
theorem before_draw_independent (draw : α → α → Option α) (T : STable α) (D : Nat) (xs : List α)
    (S : List (List Int)) (ed : List (Option α × Vec α)) (st : Settings α) (res : SampleResult α)
    (h : sampleCore draw T D xs S ed st = some (.ok res)) :
    ∃ pr dec, permutahedral T xs = some pr ∧
      decompose (S.getD 0 []).length (lMatrix pr.x S) st.stability = .ok dec ∧ res.u = dec.determinant ∧
      res.v = vPolynomial pr.x (uVectors D pr.x S (ed.map (·.2))) dec.inverse (S.getD 0 []).length (ed.map (·.2))
                (ed.map fun d => match d.1 with | some m => m | none => zero) := by
  unfold sampleCore at h
  by_cases hx : xs.isEmpty = true
  · simp only [hx, if_true] at h; cases h
  · simp only [hx, Bool.false_eq_true, if_false] at h
    cases hpr : permutahedral T xs with
    | none => simp only [hpr] at h; cases h
    | some pr =>
      simp only [hpr] at h
      cases hdec : decompose (S.getD 0 []).length (lMatrix pr.x S) st.stability with
      | error e => simp only [hdec] at h; cases h
      | ok dec =>
        simp only [hdec] at h
        cases hp : xs[pr.reads]? with
        | none => simp only [hp] at h; cases h
        | some p =>
          simp only [hp] at h
          cases hl : draw T.dod p with
          | none => simp only [hl] at h; cases h
          | some lam =>
            simp only [hl] at h
            cases hq : qVectors xs (pr.reads + 1) T.dimension T.numLoops with
            | none => simp only [hq] at h; cases h
            | some q =>
              simp only [hq, Option.some.injEq, Except.ok.injEq] at h
              rw [← h]
              exact ⟨pr, dec, rfl, hdec, rfl, rfl⟩

end Momtrop.C19
