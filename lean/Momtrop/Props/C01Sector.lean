import Momtrop.Props.C01
import Momtrop.Props.C04R
/-!
# C01 — the law of the Feynman parameters inside one sector (Borinsky's sector density, as a theorem)

Inside a sector (a fixed removal order `s_1,…,s_E`) the sampler sets `y_0 = 1` and `y_k = y_{k-1}·ξ_k^{1/ω_k}` for `k = 1..n`
(`n = E−1`, `ω_k = ω(g_k)` the generalised degree of divergence of what is left after `k` removals, `y_k` the Feynman parameter
of `s_{k+1}` relative to that of `s_1`: `C07.sector_formula`). `xi_power_law` is ONE such step. Here the steps are chained:

* `chain_law`        : for every test function `f`, the integral of `f(y_1,…,y_n)` over the uniform `ξ ∈ (0,1)ⁿ` equals the iterated
                       integral over the ordered region `c > y_1 > y_2 > … > y_n > 0` of `f` times `dens`, the product of the
                       conditional densities `ω_k y_k^{ω_k−1} / y_{k−1}^{ω_k}`;
* `dens_closed`      : that product telescopes (Abel summation) to `(Π ω_k) · c^{−ω_1} · Π_k y_k^{ω_k − ω_{k+1} − 1}` (`ω_{n+1} = 0`);
* `dens_tropical`    : with `ω_k − ω_{k+1} = ν_k − (D/2)·dL_k − dod·dS_k` (the definition of the generalised degree of divergence:
                       weight of the removed edge, minus `D/2` if the removal lowers the loop number, minus `dod` if it loses
                       mass-momentum spanning) the density is
                       `(Π ω_k) · Π y_k^{ν_k−1} · (Π y_k^{dL_k})^{−D/2} · (Π y_k^{dS_k})^{−dod}`
                       `= (Π ω_k) · Π x_e^{ν_e−1} / (U_tr^{D/2} · V_tr^{dod})` — `C07.permLoop_trop` identifies the two products with
                       the reported tropical polynomials.

Multiplied by the probability of the sector, `Π 1/ω_k / J(G)` (`C04.orderProb_eq`), the factor `Π ω_k` cancels: the sampler's density
is `x^{ν−1} / (U_tr^{D/2} V_tr^{dod}) / I_tr` in every sector — `sector_density_times_prob`.
No multi-dimensional change of variables is needed: the statement is about iterated integrals and follows from the one-dimensional
`xi_power_law` by induction on the number of steps.
-/
open MeasureTheory Set
open scoped ENNReal

namespace Momtrop.C01

/-- the sampler's chain, integrated over the uniform numbers: `y_k = y_{k-1} ξ_k^{1/ω_k}`, started at `c` -/
noncomputable def chainInt : List ℝ → ℝ → (List ℝ → ℝ≥0∞) → ℝ≥0∞
  | [], _, f => f []
  | ω :: ωs, c, f => ∫⁻ ξ in Ioo (0:ℝ) 1, chainInt ωs (c * ξ ^ (1 / ω)) fun ys => f ((c * ξ ^ (1 / ω)) :: ys)

/-- iterated Lebesgue integral over the ordered region `c > y_1 > … > y_n > 0` (`ωs` only fixes the number of variables) -/
noncomputable def nested : List ℝ → ℝ → (List ℝ → ℝ≥0∞) → ℝ≥0∞
  | [], _, g => g []
  | _ :: ωs, c, g => ∫⁻ y in Ioo (0:ℝ) c, nested ωs y fun ys => g (y :: ys)

/-- product of the conditional densities `ω_k y_k^{ω_k−1} / y_{k−1}^{ω_k}` (`y_0 = c`) -/
noncomputable def dens : List ℝ → ℝ → List ℝ → ℝ
  | ω :: ωs, c, y :: ys => ω * y ^ (ω - 1) / c ^ ω * dens ωs y ys
  | _, _, _ => 1

theorem nested_const_mul (r : ℝ≥0∞) (hr : r ≠ ∞) :
    ∀ (ωs : List ℝ) (c : ℝ) (g : List ℝ → ℝ≥0∞), nested ωs c (fun ys => r * g ys) = r * nested ωs c g := by
  intro ωs
  induction ωs with
  | nil => intro c g; rfl
  | cons ω ωs ih =>
    intro c g
    simp only [nested]
    rw [← lintegral_const_mul' r _ hr]
    apply lintegral_congr; intro y
    exact ih y _

theorem nested_congr : ∀ (ωs : List ℝ) (c : ℝ) (g g' : List ℝ → ℝ≥0∞), (∀ ys, g ys = g' ys) → nested ωs c g = nested ωs c g' := by
  intro ωs c g g' h
  have : g = g' := funext h
  rw [this]

/-- **Law of the chain.** -/
theorem chain_law : ∀ (ωs : List ℝ), (∀ ω ∈ ωs, 0 < ω) → ∀ (c : ℝ), 0 < c → ∀ f : List ℝ → ℝ≥0∞,
    chainInt ωs c f = nested ωs c fun ys => ENNReal.ofReal (dens ωs c ys) * f ys := by
  intro ωs
  induction ωs with
  | nil => intro _ c _ f; simp [chainInt, nested, dens]
  | cons ω ωs ih =>
    intro hω c hc f
    have hω0 : 0 < ω := hω ω List.mem_cons_self
    have hωs : ∀ w ∈ ωs, 0 < w := fun w hw => hω w (List.mem_cons_of_mem _ hw)
    simp only [chainInt, nested]
    rw [xi_power_law c ω hc hω0 fun y => chainInt ωs y fun ys => f (y :: ys)]
    apply setLIntegral_congr_fun measurableSet_Ioo
    intro y hy
    have hy0 : 0 < y := hy.1
    simp only
    rw [ih hωs y hy0, ← nested_const_mul _ ENNReal.ofReal_ne_top]
    apply nested_congr
    intro ys
    simp only [dens]
    have hnn : 0 ≤ ω * y ^ (ω - 1) / c ^ ω := by
      have := Real.rpow_pos_of_pos hy0 (ω - 1)
      have := Real.rpow_pos_of_pos hc ω
      positivity
    rw [ENNReal.ofReal_mul hnn, mul_assoc]

/-! ### closed form of the density -/

/-- `Π ω_k` -/
noncomputable def omegaProd (ωs : List ℝ) : ℝ := ωs.prod

/-- `Π_k y_k^{ω_k − ω_{k+1} − 1}` with `ω_{n+1} = 0` -/
noncomputable def abelProd : List ℝ → List ℝ → ℝ
  | ω :: ωs, y :: ys => y ^ (ω - ωs.headD 0 - 1) * abelProd ωs ys
  | _, _ => 1

/-- **Abel summation of the exponents.** -/
theorem dens_closed : ∀ (ωs ys : List ℝ) (c : ℝ), ωs.length = ys.length → 0 < c → (∀ y ∈ ys, 0 < y) →
    dens ωs c ys = omegaProd ωs * c ^ (-(ωs.headD 0)) * abelProd ωs ys := by
  intro ωs
  induction ωs with
  | nil => intro ys c h _ _; cases ys <;> simp [dens, omegaProd, abelProd]
  | cons ω ωs ih =>
    intro ys c hlen hc hy
    cases ys with
    | nil => simp at hlen
    | cons y ys =>
      have hy0 : 0 < y := hy y List.mem_cons_self
      have hys : ∀ z ∈ ys, 0 < z := fun z hz => hy z (List.mem_cons_of_mem _ hz)
      simp only [dens, abelProd, omegaProd, List.prod_cons, List.headD_cons]
      rw [ih ys y (by simpa using hlen) hy0 hys]
      simp only [omegaProd]
      have e1 : y ^ (ω - ωs.headD 0 - 1) = y ^ (ω - 1) * y ^ (-(ωs.headD 0)) := by
        rw [← Real.rpow_add hy0]; congr 1; ring
      have e2 : c ^ (-ω) = (c ^ ω)⁻¹ := Real.rpow_neg hc.le ω
      rw [e1, e2]
      field_simp

/-- one removal step as the sampler's table sees it: the weight `ν` of the edge whose parameter `y` is, whether removing it
lowers the loop number (`dL`) and whether it loses mass-momentum spanning (`dS`) -/
structure StepData where
  nu : ℝ
  dL : Bool
  dS : Bool

/-- `Π y_k^{ν_k − 1}` -/
noncomputable def weightProd : List StepData → List ℝ → ℝ
  | s :: ss, y :: ys => y ^ (s.nu - 1) * weightProd ss ys
  | _, _ => 1

/-- `U_tr` in the sector: the product of the parameters of the removals that lower the loop number (`C07.permLoop_trop`) -/
noncomputable def uTrop : List StepData → List ℝ → ℝ
  | s :: ss, y :: ys => (if s.dL then y else 1) * uTrop ss ys
  | _, _ => 1

/-- `V_tr` in the sector: the parameter of the removal that loses mass-momentum spanning -/
noncomputable def vTrop : List StepData → List ℝ → ℝ
  | s :: ss, y :: ys => (if s.dS then y else 1) * vTrop ss ys
  | _, _ => 1

theorem uTrop_pos : ∀ (ss : List StepData) (ys : List ℝ), (∀ y ∈ ys, 0 < y) → 0 < uTrop ss ys := by
  intro ss
  induction ss with
  | nil => intro ys _; simp [uTrop]
  | cons s ss ih =>
    intro ys hy
    cases ys with
    | nil => simp [uTrop]
    | cons y ys =>
      simp only [uTrop]
      have := ih ys fun z hz => hy z (List.mem_cons_of_mem _ hz)
      have hy0 := hy y List.mem_cons_self
      split <;> positivity

theorem vTrop_pos : ∀ (ss : List StepData) (ys : List ℝ), (∀ y ∈ ys, 0 < y) → 0 < vTrop ss ys := by
  intro ss
  induction ss with
  | nil => intro ys _; simp [vTrop]
  | cons s ss ih =>
    intro ys hy
    cases ys with
    | nil => simp [vTrop]
    | cons y ys =>
      simp only [vTrop]
      have := ih ys fun z hz => hy z (List.mem_cons_of_mem _ hz)
      have hy0 := hy y List.mem_cons_self
      split <;> positivity

/-- the generalised degrees of divergence along the sector are those of the table: `ω_k − ω_{k+1} = ν_k − (D/2)·dL_k − dod·dS_k` -/
def Consistent (halfD dod : ℝ) : List ℝ → List StepData → Prop
  | ω :: ωs, s :: ss => ω - ωs.headD 0 = s.nu - halfD * (if s.dL then 1 else 0) - dod * (if s.dS then 1 else 0)
      ∧ Consistent halfD dod ωs ss
  | [], [] => True
  | _, _ => False

/-- **The sector density in tropical form.** -/
theorem abel_tropical (halfD dod : ℝ) : ∀ (ωs : List ℝ) (ss : List StepData) (ys : List ℝ),
    Consistent halfD dod ωs ss → ωs.length = ys.length → (∀ y ∈ ys, 0 < y) →
    abelProd ωs ys = weightProd ss ys * (uTrop ss ys) ^ (-halfD) * (vTrop ss ys) ^ (-dod) := by
  intro ωs
  induction ωs with
  | nil =>
    intro ss ys _ hlen _
    cases ys with
    | nil => cases ss <;> simp [abelProd, weightProd, uTrop, vTrop]
    | cons y ys => simp at hlen
  | cons ω ωs ih =>
    intro ss ys hc hlen hy
    cases ss with
    | nil => simp [Consistent] at hc
    | cons s ss =>
      cases ys with
      | nil => simp at hlen
      | cons y ys =>
        obtain ⟨h1, h2⟩ := hc
        have hy0 : 0 < y := hy y List.mem_cons_self
        have hys : ∀ z ∈ ys, 0 < z := fun z hz => hy z (List.mem_cons_of_mem _ hz)
        have hU := uTrop_pos ss ys hys
        have hV := vTrop_pos ss ys hys
        simp only [abelProd, weightProd, uTrop, vTrop]
        rw [ih ss ys h2 (by simpa using hlen) hys, h1]
        have hu : ((if s.dL then y else 1) * uTrop ss ys) ^ (-halfD)
            = y ^ (-(halfD * (if s.dL then 1 else 0))) * uTrop ss ys ^ (-halfD) := by
          cases s.dL
          · simp
          · simp only [if_true, mul_one]
            rw [Real.mul_rpow hy0.le hU.le]
        have hv : ((if s.dS then y else 1) * vTrop ss ys) ^ (-dod)
            = y ^ (-(dod * (if s.dS then 1 else 0))) * vTrop ss ys ^ (-dod) := by
          cases s.dS
          · simp
          · simp only [if_true, mul_one]
            rw [Real.mul_rpow hy0.le hV.le]
        rw [hu, hv]
        have e : y ^ (s.nu - halfD * (if s.dL then 1 else 0) - dod * (if s.dS then 1 else 0) - 1)
            = y ^ (s.nu - 1) * y ^ (-(halfD * (if s.dL then 1 else 0))) * y ^ (-(dod * (if s.dS then 1 else 0))) := by
          rw [← Real.rpow_add hy0, ← Real.rpow_add hy0]; congr 1; ring
        rw [e]
        ring

/-- **Borinsky's sector density.** In a sector whose table data are consistent, started at `y_0 = 1`:
`dens = (Π ω_k) · Π y_k^{ν_k−1} / (U_tr^{D/2} · V_tr^{dod})`. -/
theorem dens_tropical (halfD dod : ℝ) (ωs : List ℝ) (ss : List StepData) (ys : List ℝ)
    (hc : Consistent halfD dod ωs ss) (hlen : ωs.length = ys.length) (hy : ∀ y ∈ ys, 0 < y) :
    dens ωs 1 ys = omegaProd ωs * (weightProd ss ys / ((uTrop ss ys) ^ halfD * (vTrop ss ys) ^ dod)) := by
  rw [dens_closed ωs ys 1 hlen one_pos hy, abel_tropical halfD dod ωs ss ys hc hlen hy]
  have hU := uTrop_pos ss ys hy
  have hV := vTrop_pos ss ys hy
  rw [Real.one_rpow, Real.rpow_neg hU.le, Real.rpow_neg hV.le]
  field_simp

/-- **Sector probability × sector density.** The probability of the sector is `(Π 1/ω_k) / J` (`C04.orderProb_eq` for a complete
order, `J = J(G)`; the first removal contributes `1/ω(g_1)`, …); multiplied with the density the `ω`'s cancel:
`x^{ν−1} / (U_tr^{D/2} V_tr^{dod}) / J`, the same expression in every sector. -/
theorem sector_density_times_prob (halfD dod J : ℝ) (ωs : List ℝ) (ss : List StepData) (ys : List ℝ)
    (hω : ∀ ω ∈ ωs, 0 < ω) (hc : Consistent halfD dod ωs ss) (hlen : ωs.length = ys.length) (hy : ∀ y ∈ ys, 0 < y) :
    (ωs.map fun ω => 1 / ω).prod / J * dens ωs 1 ys
      = weightProd ss ys / ((uTrop ss ys) ^ halfD * (vTrop ss ys) ^ dod) / J := by
  rw [dens_tropical halfD dod ωs ss ys hc hlen hy]
  have hprod : (ωs.map fun ω => 1 / ω).prod * omegaProd ωs = 1 := by
    unfold omegaProd
    clear hc hlen
    induction ωs with
    | nil => simp
    | cons ω ωs ih =>
      have h0 : ω ≠ 0 := (hω ω List.mem_cons_self).ne'
      have := ih fun w hw => hω w (List.mem_cons_of_mem _ hw)
      simp only [List.map_cons, List.prod_cons]
      calc 1 / ω * (List.map (fun ω => 1 / ω) ωs).prod * (ω * ωs.prod)
          = (1 / ω * ω) * ((List.map (fun ω => 1 / ω) ωs).prod * ωs.prod) := by ring
        _ = 1 := by rw [this]; field_simp
  calc (ωs.map fun ω => 1 / ω).prod / J * (omegaProd ωs * (weightProd ss ys / ((uTrop ss ys) ^ halfD * (vTrop ss ys) ^ dod)))
      = ((ωs.map fun ω => 1 / ω).prod * omegaProd ωs) * (weightProd ss ys / ((uTrop ss ys) ^ halfD * (vTrop ss ys) ^ dod)) / J := by ring
    _ = _ := by rw [hprod, one_mul]

/-- congruence of the iterated integral on the region it integrates over: positive entries, one per step -/
theorem nested_congr_pos : ∀ (ωs : List ℝ) (c : ℝ) (g g' : List ℝ → ℝ≥0∞),
    (∀ ys : List ℝ, ys.length = ωs.length → (∀ y ∈ ys, 0 < y) → g ys = g' ys) → nested ωs c g = nested ωs c g' := by
  intro ωs
  induction ωs with
  | nil => intro c g g' h; simpa [nested] using h [] rfl (by simp)
  | cons ω ωs ih =>
    intro c g g' h
    simp only [nested]
    apply setLIntegral_congr_fun measurableSet_Ioo
    intro y hy
    apply ih
    intro ys hlen hpos
    apply h (y :: ys) (by simp [hlen])
    intro z hz
    rcases List.mem_cons.mp hz with rfl | hz
    · exact hy.1
    · exact hpos z hz

/-- **Contribution of one sector to the expectation of any function of the Feynman parameters.** Probability of the sector
(`(Π 1/ω_k)/J`, `C04.orderProb_eq`) times the integral over the uniform numbers drawn inside it (`chainInt`) equals the integral of the
function over the sector's region `1 > y_1 > … > y_n > 0` against the density `x^{ν−1} / (U_tr^{D/2} V_tr^{dod}) / J` — the SAME expression
in every sector (`J = I_tr` up to the normalisation constants): summing over the `E!` sectors gives the tropical-sampling theorem. -/
theorem sector_expectation (halfD dod J : ℝ) (hJ : 0 < J) (ωs : List ℝ) (ss : List StepData)
    (hω : ∀ ω ∈ ωs, 0 < ω) (hc : Consistent halfD dod ωs ss) (f : List ℝ → ℝ≥0∞) :
    ENNReal.ofReal ((ωs.map fun ω => 1 / ω).prod / J) * chainInt ωs 1 f
      = nested ωs 1 fun ys =>
          ENNReal.ofReal (weightProd ss ys / ((uTrop ss ys) ^ halfD * (vTrop ss ys) ^ dod) / J) * f ys := by
  rw [chain_law ωs hω 1 one_pos f, ← nested_const_mul _ ENNReal.ofReal_ne_top]
  apply nested_congr_pos
  intro ys hlen hpos
  have hP : 0 ≤ (ωs.map fun ω => 1 / ω).prod / J := by
    apply div_nonneg _ hJ.le
    apply List.prod_nonneg
    intro a ha
    obtain ⟨ω, hω', rfl⟩ := List.mem_map.mp ha
    exact (one_div_pos.mpr (hω ω hω')).le
  rw [← mul_assoc, ← ENNReal.ofReal_mul hP, sector_density_times_prob halfD dod J ωs ss ys hω hc hlen.symm hpos]

/-! ### all sectors together -/

/-- the generalised degrees of divergence met along a removal order: `ω(g∖s_1), ω(g∖{s_1,s_2}), …` (the last one is `ω(∅)`) -/
noncomputable def omegasAlong (omega : Mask → ℝ) : Mask → List Nat → List ℝ
  | _, [] => []
  | g, e :: σ => omega (Mask.pop g e) :: omegasAlong omega (Mask.pop g e) σ

theorem orderWeight_eq_prod (omega : Mask → ℝ) : ∀ (σ : List Nat) (g : Mask),
    C04.orderWeight omega g σ = ((omegasAlong omega g σ).map fun ω => 1 / ω).prod := by
  intro σ
  induction σ with
  | nil => intro g; simp [C04.orderWeight, omegasAlong]
  | cons e σ ih => intro g; simp only [C04.orderWeight, omegasAlong, List.map_cons, List.prod_cons, ih]

/-- the `ω`'s that enter the sampler's powers: all but the last (`ω(∅) = 1` is never used as an exponent) -/
noncomputable def sectorOmegas (omega : Mask → ℝ) (g : Mask) (σ : List Nat) : List ℝ := (omegasAlong omega g σ).dropLast

theorem prod_dropLast_of_last_one (l : List ℝ) (h : l ≠ []) (hlast : l.getLast h = 1) :
    (l.map fun ω => 1 / ω).prod = (l.dropLast.map fun ω => 1 / ω).prod := by
  conv_lhs => rw [← List.dropLast_append_getLast h]
  simp [hlast]

/-- **Tropical sampling, all sectors.** For an accepted table (`J ≠ 0` everywhere, `ω(∅) = 1`, the `ω`'s along every complete removal
order positive and consistent with the step data of that order), and for ANY family of test functions `f σ` of the Feynman parameters
of sector `σ`: the expectation over the sampler's choices — the sum over all `E!` complete orders of (probability of the order,
`C04.orderProb`) × (integral over the uniform numbers drawn inside it) — equals the sum over the sectors of the integral of `f σ` over
the sector's region against ONE density, `x^{ν−1} / (U_tr^{D/2} V_tr^{dod}) / J(G)`. -/
theorem tropical_sampling (omega : Mask → ℝ) (n : Nat) (hJ : ∀ h, h < 2 ^ n → Jval omega n h ≠ 0)
    (g : Mask) (hg : g < 2 ^ n) (hJg : 0 < Jval omega n g) (halfD dod : ℝ)
    (ss : List Nat → List StepData) (f : List Nat → List ℝ → ℝ≥0∞)
    (hlast : ∀ σ ∈ C04.orderingsAux (card n g) (Mask.edges n g), ∀ h : omegasAlong omega g σ ≠ [],
      (omegasAlong omega g σ).getLast h = 1)
    (hpos : ∀ σ ∈ C04.orderingsAux (card n g) (Mask.edges n g), ∀ ω ∈ sectorOmegas omega g σ, 0 < ω)
    (hcons : ∀ σ ∈ C04.orderingsAux (card n g) (Mask.edges n g), Consistent halfD dod (sectorOmegas omega g σ) (ss σ)) :
    ((C04.orderingsAux (card n g) (Mask.edges n g)).map fun σ =>
        ENNReal.ofReal (C04.orderProb omega n g σ) * chainInt (sectorOmegas omega g σ) 1 (f σ)).sum
      = ((C04.orderingsAux (card n g) (Mask.edges n g)).map fun σ =>
          nested (sectorOmegas omega g σ) 1 fun ys =>
            ENNReal.ofReal (weightProd (ss σ) ys / ((uTrop (ss σ) ys) ^ halfD * (vTrop (ss σ) ys) ^ dod) / Jval omega n g) * f σ ys).sum := by
  congr 1
  apply List.map_congr_left
  intro σ hσ
  have hlt : ∀ e ∈ σ, e < n := fun e he =>
    (Mask.mem_edges.mp ((C04.orderingsAux_perm (card n g) (Mask.edges n g) σ rfl hσ).mem_iff.mp he)).1
  have hP : C04.orderProb omega n g σ = ((sectorOmegas omega g σ).map fun ω => 1 / ω).prod / Jval omega n g := by
    rw [C04.orderProb_eq omega n hJ σ g hg hlt, C04.complete_order_exhausts n g hg σ hσ, C04.J_empty, Scalar.one_real, mul_one,
      orderWeight_eq_prod]
    by_cases hne : omegasAlong omega g σ = []
    · simp [sectorOmegas, hne]
    · rw [prod_dropLast_of_last_one _ hne (hlast σ hσ hne)]; rfl
  rw [hP]
  exact sector_expectation halfD dod (Jval omega n g) hJg (sectorOmegas omega g σ) (ss σ) (hpos σ hσ) (hcons σ hσ) (f σ)

/-- non-vacuity: the massless bubble in `D = 3` with weights `ν = (1, 3/4)` (`dod = 1/4`), order `(s_1, s_2)`: one step,
`ω_1 = ω({s_2}) = ν_2 − dod = 1/2` (the single edge still connects the two external vertices: momentum spanning, no loop);
removing it loses the spanning property and no loop: `dL = false`, `dS = true` -/
example : Consistent (3/2) (1/4) [1/2] [⟨3/4, false, true⟩] := by
  simp [Consistent]; norm_num

end Momtrop.C01
