import Momtrop.Props.C07Major
/-!
# The momentum terms of `F` are at most `u_trop · v_trop`

A momentum term of the second Symanzik polynomial is `∏_{e∈C'} x_e` for the complement `C'` of a spanning 2-forest whose two trees
separate the external vertices (for generic external momenta exactly those have a non-zero coefficient). In the model's terms:
`loops(S ∖ C') = 0`, `|C'| = loops(S) + 1`, and two external vertices are not joined inside `S ∖ C'` (`Split`).

`momentum_term_le`: every such monomial satisfies the inequalities of the `F`-polytope along the removal order
(`|C' ∩ γ| ≥ loops(γ) + [γ mass-momentum spanning]`): if it were tight on a spanning `γ`, `γ ∖ C'` would be a maximal forest of `γ`, every
removed edge of `γ` would have its end points joined inside `γ ∖ C'` (`loopNumber_drop_iff`), so the external vertices - joined inside `γ` -
would be joined inside `γ ∖ C' ⊆ S ∖ C'`. Hence `∏_{e∈C'} x_e ≤ u_trop · v_trop` (`polytope_max`).
Together with `mass_terms_le` this bounds EVERY monomial of `F` by `u_trop · v_trop`; `uv_attained_massive`: when the edge at which
spanning is lost is massive, `u_trop · v_trop` is itself a mass term of `F`.
-/
namespace Momtrop.C07
open Momtrop
open Classical

section vconn
variable {α : Type}

/-- two vertices are joined inside the edge list `γ` -/
def VConn (top : List (TEdge α)) (γ : List ℕ) (v w : ℕ) : Prop :=
  v = w ∨ ∃ h1 ∈ γ, ∃ h2 ∈ γ, v ∈ endSet top h1 ∧ w ∈ endSet top h2 ∧ EdgeConn top γ h1 h2

variable {top : List (TEdge α)} {γ : List ℕ}

theorem VConn.symm {v w : ℕ} (h : VConn top γ v w) : VConn top γ w v := by
  rcases h with rfl | ⟨h1, hh1, h2, hh2, a, b, c⟩
  · exact Or.inl rfl
  · exact Or.inr ⟨h2, hh2, h1, hh1, b, a, c.symm⟩

theorem VConn.trans {u v w : ℕ} (h1 : VConn top γ u v) (h2 : VConn top γ v w) : VConn top γ u w := by
  rcases h1 with rfl | ⟨a1, ha1, a2, ha2, hu, hv, hc1⟩
  · exact h2
  · rcases h2 with rfl | ⟨b1, hb1, b2, hb2, hv', hw, hc2⟩
    · exact Or.inr ⟨a1, ha1, a2, ha2, hu, hv, hc1⟩
    · have hadj : EdgeConn top γ a2 b1 :=
        Relation.ReflTransGen.single ⟨ha2, hb1, (adj_iff_share top a2 b1).mpr ⟨v, hv, hv'⟩⟩
      exact Or.inr ⟨a1, ha1, b2, hb2, hu, hw, (hc1.trans hadj).trans hc2⟩

theorem VConn.mono {γ' : List ℕ} (hsub : ∀ x ∈ γ, x ∈ γ') {v w : ℕ} (h : VConn top γ v w) : VConn top γ' v w := by
  rcases h with rfl | ⟨h1, hh1, h2, hh2, a, b, c⟩
  · exact Or.inl rfl
  · exact Or.inr ⟨h1, hsub _ hh1, h2, hsub _ hh2, a, b, edgeConn_subset hsub c⟩

theorem vconn_edge {h : ℕ} (hh : h ∈ γ) {a b : ℕ} (ha : a ∈ endSet top h) (hb : b ∈ endSet top h) : VConn top γ a b :=
  Or.inr ⟨h, hh, h, hh, ha, hb, Relation.ReflTransGen.refl⟩

/-- an edge that closes a cycle with `γ` has its end points joined inside `γ` -/
theorem cyc_vconn (f : ℕ) (h : Cyc top γ f) : ∀ a ∈ endSet top f, ∀ b ∈ endSet top f, VConn top γ a b := by
  intro a ha b hb
  rcases h with h | ⟨v1, hv1, v2, hv2, hne, h1, hh1, h2, hh2, hvh1, hvh2, hconn⟩
  · obtain ⟨c, hc⟩ := Finset.card_eq_one.mp h
    rw [hc, Finset.mem_singleton] at ha hb
    exact Or.inl (ha.trans hb.symm)
  · have hpair : endSet top f = {v1, v2} := by
      symm
      apply Finset.eq_of_subset_of_card_le
      · intro v hv
        rcases Finset.mem_insert.mp hv with rfl | hv
        · exact hv1
        · rw [Finset.mem_singleton] at hv; subst hv; exact hv2
      · rw [Finset.card_pair hne]; exact endSet_card_le top f
    have h12 : VConn top γ v1 v2 := Or.inr ⟨h1, hh1, h2, hh2, hvh1, hvh2, hconn⟩
    rw [hpair, Finset.mem_insert, Finset.mem_singleton] at ha hb
    rcases ha with rfl | rfl <;> rcases hb with rfl | rfl
    · exact Or.inl rfl
    · exact h12
    · exact h12.symm
    · exact Or.inl rfl

/-- if every edge of `γ` has its end points joined inside `γ'`, then vertices joined inside `γ` are joined inside `γ'` -/
theorem conn_transfer {γ' : List ℕ} (hP : ∀ h ∈ γ, ∀ a ∈ endSet top h, ∀ b ∈ endSet top h, VConn top γ' a b)
    {i j : ℕ} (hi : i ∈ γ) (hc : EdgeConn top γ i j) :
    ∀ a ∈ endSet top i, ∀ b ∈ endSet top j, VConn top γ' a b := by
  induction hc with
  | refl => exact hP i hi
  | @tail k j _ hstep ih =>
    intro a ha b hb
    obtain ⟨v, hvk, hvj⟩ := (adj_iff_share top k j).mp hstep.2.2
    exact (ih a ha v hvk).trans (hP j hstep.2.1 v hvj b hb)

end vconn

section momentum
variable {α : Type}

/-- two external vertices are not joined inside `B` -/
def Split (top : List (TEdge α)) (ext : List ℕ) (B : Finset ℕ) : Prop :=
  ∃ v ∈ ext, ∃ w ∈ ext, ¬ VConn top B.toList v w

/-- a tight maximal forest keeps the connectivity: the end points of a removed edge are joined inside what is left -/
theorem removed_edge_joined (top : List (TEdge α)) (B : Finset ℕ) (hB : ∀ x ∈ B, x < top.length) (f : ℕ) (hf : f < top.length)
    (hfB : f ∉ B) (hne : loopsOf top (insert f B) ≠ loopsOf top B) :
    ∀ a ∈ endSet top f, ∀ b ∈ endSet top f, VConn top B.toList a b := by
  set s := ((insert f B).filter (· < top.length)).sort (· ≤ ·) with hs
  have hnd : s.Nodup := Finset.sort_nodup _ _
  have hvalid : ∀ x ∈ s, x < top.length := by
    intro x hx; rw [hs, Finset.mem_sort, Finset.mem_filter] at hx; exact hx.2
  have hmem : f ∈ s := by rw [hs, Finset.mem_sort, Finset.mem_filter]; exact ⟨Finset.mem_insert_self _ _, hf⟩
  have h1 : loopNumber top (s.erase f) = loopsOf top B := loopsOf_insert_erase top B f hfB
  have hstep := loopNumber_erase top s hnd hvalid f hmem
  have hdrop : loopNumber top s = loopNumber top (s.erase f) + 1 := by
    have : loopsOf top (insert f B) = loopNumber top s := rfl
    rw [this] at hne
    omega
  have hcyc := (loopNumber_drop_iff top s hnd hvalid f hmem).mp hdrop
  have hsub : ∀ x ∈ s.erase f, x ∈ B.toList := by
    intro x hx
    rw [hnd.mem_erase_iff, hs, Finset.mem_sort, Finset.mem_filter, Finset.mem_insert] at hx
    rw [Finset.mem_toList]
    rcases hx.2.1 with h | h
    · exact absurd h hx.1
    · exact h
  intro a ha b hb
  exact (cyc_vconn f hcyc a ha b hb).mono hsub

theorem inter_ge_of_forest {r : Finset ℕ → ℕ} (h : NullityLike r) (S C : Finset ℕ) (hz : r (S \ C) = 0) (A : Finset ℕ)
    (hA : A ⊆ S) : r A ≤ (A ∩ C).card := by
  have h0 : r (A \ C) = 0 := by
    have := r_mono h (Finset.sdiff_subset_sdiff hA (le_refl C))
    rw [hz] at this
    omega
  have hd : Disjoint (A \ C) (A ∩ C) := by
    rw [Finset.disjoint_left]
    intro y hy hy'
    exact (Finset.mem_sdiff.mp hy).2 (Finset.mem_inter.mp hy').2
  have := (union_bounds h (A \ C) (A ∩ C) hd).2
  rw [Finset.sdiff_union_inter, h0] at this
  omega

/-- **every momentum term of `F` is at most `u_trop · v_trop`** -/
theorem momentum_term_le (top : List (TEdge α)) (ext : List ℕ) (mm : Finset ℕ → Bool) (hm : SpanLike mm)
    (hconn : ∀ A, mm A = true → ∀ v ∈ ext, ∀ w ∈ ext, VConn top A.toList v w)
    (x : ℕ → ℝ) (σ : List ℕ) (hσ : σ.Nodup) (hvalid : ∀ e ∈ σ, e < top.length)
    (hpos : ∀ e ∈ σ, 0 < x e) (hsorted : σ.Pairwise fun p q => x q ≤ x p)
    (C : Finset ℕ) (hCS : C ⊆ σ.toFinset) (hz : loopsOf top (σ.toFinset \ C) = 0)
    (hcard : C.card = loopsOf top σ.toFinset + 1) (hsplit : Split top ext (σ.toFinset \ C))
    (hfull : mm σ.toFinset = true) :
    ∏ e ∈ C, x e ≤ tropPow (zF (loopsOf top) mm) x σ := by
  have hN := loopsOf_nullity top
  let a : ℕ → ℕ := fun e => if e ∈ C then 1 else 0
  have hsum : ∀ τ : List ℕ, τ.Nodup → (τ.map a).sum = (τ.toFinset ∩ C).card := by
    intro τ hτ
    simp only [a]
    rw [sum_indicator (· ∈ C) τ hτ, Finset.filter_mem_eq_inter]
  have hdom : ∀ k, zF (loopsOf top) mm (σ.drop k).toFinset ≤ ((σ.drop k).map a).sum := by
    intro k
    have hnd : (σ.drop k).Nodup := hσ.sublist (List.drop_sublist k σ)
    have hsub : (σ.drop k).toFinset ⊆ σ.toFinset := by
      intro y hy
      rw [List.mem_toFinset] at hy ⊢
      exact List.mem_of_mem_drop hy
    rw [hsum _ hnd]
    set A := (σ.drop k).toFinset with hAdef
    have h1 := inter_ge_of_forest hN σ.toFinset C hz A hsub
    unfold zF
    by_cases hmk : mm A = true
    · rw [if_pos hmk]
      by_contra hlt
      have htight : (A ∩ C).card = loopsOf top A := by omega
      -- A ∖ C is a maximal forest of A
      have hAC : A \ (A ∩ C) = A \ C := by
        ext y; simp only [Finset.mem_sdiff, Finset.mem_inter]; tauto
      have hz' : loopsOf top (A \ C) = 0 := by
        have := r_mono hN (Finset.sdiff_subset_sdiff hsub (le_refl C))
        rw [hz] at this; omega
      have hcot : Cotree (loopsOf top) A (A ∩ C) := ⟨Finset.inter_subset_left, by rw [hAC]; exact hz', htight⟩
      have hmax := ((cotree_iff_maximal_forest hN A (A ∩ C)).mp hcot).2.2
      have hAvalid : ∀ y ∈ A, y < top.length := fun y hy => hvalid y (List.mem_toFinset.mp (hsub hy))
      -- every edge of A has its end points joined inside A ∖ C
      have hP : ∀ h ∈ A.toList, ∀ p ∈ endSet top h, ∀ q ∈ endSet top h, VConn top (A \ C).toList p q := by
        intro h hh p hp q hq
        rw [Finset.mem_toList] at hh
        by_cases hhC : h ∈ C
        · have hne := hmax h (Finset.mem_inter.mpr ⟨hh, hhC⟩)
          rw [hAC] at hne
          exact removed_edge_joined top (A \ C) (fun y hy => hAvalid y (Finset.mem_sdiff.mp hy).1) h (hAvalid h hh)
            (fun hmem => (Finset.mem_sdiff.mp hmem).2 hhC) (by rw [hz']; exact hne) p hp q hq
        · exact vconn_edge (Finset.mem_toList.mpr (Finset.mem_sdiff.mpr ⟨hh, hhC⟩)) hp hq
      obtain ⟨v, hv, w, hw, hnot⟩ := hsplit
      apply hnot
      have hvw := hconn A hmk v hv w hw
      have hmono : ∀ y ∈ (A \ C).toList, y ∈ (σ.toFinset \ C).toList := by
        intro y hy
        rw [Finset.mem_toList] at hy ⊢
        exact Finset.sdiff_subset_sdiff hsub (le_refl C) hy
      rcases hvw with rfl | ⟨h1', hh1, h2', hh2, hvh, hwh, hc⟩
      · exact Or.inl rfl
      · exact (conn_transfer hP hh1 hc v hvh w hwh).mono hmono
    · rw [if_neg hmk]; omega
  have htot : (σ.map a).sum = zF (loopsOf top) mm σ.toFinset := by
    rw [hsum σ hσ, Finset.inter_eq_right.mpr hCS, hcard]
    unfold zF
    rw [if_pos hfull]
  have := polytope_max (zF_zero hN hm) (zF_mono hN hm) x σ hpos hsorted a hdom htot
  refine le_trans (le_of_eq ?_) this
  rw [← List.prod_toFinset _ hσ]
  have : ∀ e, x e ^ a e = if e ∈ C then x e else 1 := by
    intro e; simp only [a]; split <;> simp
  simp only [this]
  rw [Finset.prod_ite_mem, Finset.inter_eq_right.mpr hCS]

/-- **shape of `u_trop · v_trop`**: it is `x_{e*} · ∏_{e∈C} x_e` for a cotree `C` (the greedy one) and the edge `e*` at whose removal
the spanning flag is lost. When `e*` is massive this is a mass term of `F` - the bound of `mass_term_le` is attained. -/
theorem uv_decomposition {r : Finset ℕ → ℕ} {mm : Finset ℕ → Bool} (h : NullityLike r) (hm : SpanLike mm) (x : ℕ → ℝ) :
    ∀ σ : List ℕ, σ.Nodup → mm σ.toFinset = true →
      ∃ k, ∃ hk : k < σ.length, mm (σ.drop k).toFinset = true ∧ mm (σ.drop (k + 1)).toFinset = false ∧
        tropPow (zF r mm) x σ = x σ[k] * ∏ e ∈ greedySet r σ, x e ∧ Cotree r σ.toFinset (greedySet r σ) := by
  intro σ hσ hfull
  have hv : ∃ k, ∃ hk : k < σ.length, mm (σ.drop k).toFinset = true ∧ mm (σ.drop (k + 1)).toFinset = false ∧
      tropPow (mInd mm) x σ = x σ[k] := by
    clear hσ
    induction σ with
    | nil => simp [hm.empty] at hfull
    | cons e rest ih =>
      by_cases hr : mm rest.toFinset = true
      · obtain ⟨k, hk, h1, h2, h3⟩ := ih hr
        refine ⟨k + 1, by simpa using hk, by simpa using h1, by simpa using h2, ?_⟩
        rw [tropPow, h3]
        rw [List.toFinset_cons] at hfull
        simp [mInd, hfull, hr]
      · have hr' : mm rest.toFinset = false := by simpa using hr
        refine ⟨0, by simp, by simpa using hfull, by simpa using hr', ?_⟩
        rw [tropPow, vPow_of_not hm x rest hr']
        rw [List.toFinset_cons] at hfull
        simp [mInd, hfull, hr']
  obtain ⟨k, hk, h1, h2, h3⟩ := hv
  refine ⟨k, hk, h1, h2, ?_, greedySet_cotree h σ hσ⟩
  rw [tropPow_split h hm x σ hσ, h3, greedyProd_eq x σ hσ, mul_comm]

end momentum

/-! ### the premise `hconn` for the model's flag, and the statements on the sampler -/
section model2
variable {α : Type} [Scalar α]

theorem containsVertex_iff (top : List (TEdge α)) (i v : ℕ) : containsVertex top i v = true ↔ v ∈ endSet top i := by
  unfold containsVertex endSet
  simp only [Bool.or_eq_true, beq_iff_eq, Finset.mem_insert, Finset.mem_singleton]
  constructor
  · rintro (h | h)
    · exact Or.inl h.symm
    · exact Or.inr h.symm
  · rintro (h | h)
    · exact Or.inl h.symm
    · exact Or.inr h.symm

/-- in a mass-momentum spanning subgraph any two external vertices are joined -/
theorem mmOf_conn (G : TGraph α) (A : Finset ℕ) (hA : mmOf G A = true) :
    ∀ v ∈ G.externals, ∀ w ∈ G.externals, VConn G.topology A.toList v w := by
  unfold mmOf at hA
  rw [C03.spanning_iff] at hA
  set s := (A.filter (· < G.topology.length)).sort (· ≤ ·) with hs
  have hnd : s.Nodup := Finset.sort_nodup _ _
  obtain ⟨_, c, hc, hall⟩ := hA
  unfold components at hc
  obtain ⟨cl, hcl, rfl⟩ := List.mem_map.mp hc
  obtain ⟨h1, _, _⟩ := componentLists_spec G.topology s hnd
  obtain ⟨seed, hseed, hclass⟩ := h1 cl hcl
  have hsub : ∀ y ∈ s, y ∈ A.toList := by
    intro y hy
    rw [hs, Finset.mem_sort, Finset.mem_filter] at hy
    exact Finset.mem_toList.mpr hy.1
  intro v hv w hw
  obtain ⟨iv, hiv, hcv⟩ := hall v hv
  obtain ⟨iw, hiw, hcw⟩ := hall w hw
  have hiv' := (hclass iv).mp (Mask.mem_edges_ofList.mp hiv).2
  have hiw' := (hclass iw).mp (Mask.mem_edges_ofList.mp hiw).2
  have : VConn G.topology s v w :=
    Or.inr ⟨iv, edgeConn_mem hseed hiv', iw, edgeConn_mem hseed hiw', (containsVertex_iff _ _ _).mp hcv,
      (containsVertex_iff _ _ _).mp hcw, hiv'.symm.trans hiw'⟩
  exact this.mono hsub

variable {β : Type}

/-- **every momentum term of `F` is at most `u_trop · v_trop`, on the sampler**: `C'` the complement of a spanning 2-forest
(`loops = 0`, one more edge than a cotree) that separates two external vertices -/
theorem momentum_terms_le (T : STable ℝ) (top : List (TEdge β)) (ext : List ℕ) (mm : Finset ℕ → Bool) (hm : SpanLike mm)
    (hconn : ∀ A, mm A = true → ∀ v ∈ ext, ∀ w ∈ ext, VConn top A.toList v w)
    (hn : T.numEdges = top.length)
    (hL : ∀ m, m < 2 ^ T.numEdges → T.loops m = loopsOf top (Mask.edges T.numEdges m).toFinset)
    (hM : ∀ m, m < 2 ^ T.numEdges → T.mms m = mm (Mask.edges T.numEdges m).toFinset)
    (hspan : T.mms (Mask.full T.numEdges) = true)
    (xs : List ℝ) (r : PermResult ℝ) (h : permutahedral T xs = some r)
    (hpos : ∀ s ∈ permTrace T xs T.numEdges (Mask.full T.numEdges) 0, ∀ xi, s.xi = some xi → 0 < xi ∧ xi ≤ 1 ∧ 0 < T.omega s.rest)
    (C : Finset ℕ) (hCS : C ⊆ Finset.range T.numEdges) (hz : loopsOf top (Finset.range T.numEdges \ C) = 0)
    (hcard : C.card = loopsOf top (Finset.range T.numEdges) + 1) (hsplit : Split top ext (Finset.range T.numEdges \ C)) :
    ∏ e ∈ C, r.xPre.getD e 0 ≤ r.uTrPre * r.vTrPre := by
  rw [uv_trop T top mm hm hL hM hspan xs r h hpos]
  obtain ⟨hord, hσ, hS, hfull, _, hcomp, _, hx0, hmono, _⟩ := run_facts T xs r h hpos
  rw [← hord] at hx0 hmono hσ hS hcomp
  have hfullmm : mm r.order.toFinset = true := by rw [← hcomp, ← hM _ hfull]; exact hspan
  have hvalid : ∀ e ∈ r.order, e < top.length := by
    intro e he
    have := List.mem_toFinset.mpr he
    rw [hS, Finset.mem_range, hn] at this
    exact this
  exact momentum_term_le top ext mm hm hconn _ r.order hσ hvalid hx0 hmono C (hS ▸ hCS) (hS ▸ hz) (hS ▸ hcard) (hS ▸ hsplit) hfullmm

end model2

end Momtrop.C07
