import Momtrop.Props.C10Model
import Mathlib.MeasureTheory.Measure.Lebesgue.Basic
import Mathlib.MeasureTheory.Group.LIntegral
import Mathlib.MeasureTheory.Measure.Haar.Unique
import Mathlib.Analysis.SpecialFunctions.Exp
import Mathlib.LinearAlgebra.Matrix.NonsingularInverse
/-!
# C10, the distributional form: covariance `(V/2λ)·L⁻¹`, centre `−L⁻¹u`

`momenta_law`: for every measurable `f ≥ 0`, if the Gaussian vector `q` of one component carries the standard Gaussian
weight `exp(−|q|²/2)` then `k = c·Q⁻ᵀq − L⁻¹u` (the map `compute_loop_momenta` applies, `momenta_eq`) carries the weight
`√(det L)/c^L · exp(−(k+L⁻¹u)ᵀ L (k+L⁻¹u)/(2c²))`: a Gaussian with centre `−L⁻¹u` and covariance `c²·L⁻¹`, `c² = V/(2λ)`.
Hypotheses: `Q⁻¹LQ⁻ᵀ = 1` (proved for the routine's factors: `qTInv_whitens`), `L` symmetric (`lMatrix_symm`), `c > 0`.
Proof: Lebesgue measure under an invertible matrix (Mathlib) + translation invariance.
-/
open MeasureTheory Real Matrix
open scoped ENNReal

namespace Momtrop.C10
variable {L : ℕ}

theorem meas_quad (M : Matrix (Fin L) (Fin L) ℝ) (b : Fin L → ℝ) :
    Measurable fun k : Fin L → ℝ => (M *ᵥ (k - b)) ⬝ᵥ (M *ᵥ (k - b)) := by
  apply Continuous.measurable
  unfold dotProduct mulVec dotProduct
  fun_prop

/-- affine image of the standard Gaussian weight -/
theorem gaussian_affine (A : Matrix (Fin L) (Fin L) ℝ) (hA : A.det ≠ 0) (b : Fin L → ℝ)
    (f : (Fin L → ℝ) → ℝ≥0∞) (hf : Measurable f) :
    ∫⁻ q, f (A *ᵥ q + b) * ENNReal.ofReal (exp (-(q ⬝ᵥ q) / 2))
      = ENNReal.ofReal |A.det⁻¹| *
        ∫⁻ k, f k * ENNReal.ofReal (exp (-((A⁻¹ *ᵥ (k - b)) ⬝ᵥ (A⁻¹ *ᵥ (k - b))) / 2)) := by
  have hAu : IsUnit A.det := isUnit_iff_ne_zero.mpr hA
  set G : (Fin L → ℝ) → ℝ≥0∞ := fun k => f (k + b) * ENNReal.ofReal (exp (-((A⁻¹ *ᵥ k) ⬝ᵥ (A⁻¹ *ᵥ k)) / 2)) with hG
  have hGm : Measurable G := by
    have h1 : Measurable fun k : Fin L → ℝ => f (k + b) := hf.comp (by fun_prop)
    have h2 := meas_quad A⁻¹ (0 : Fin L → ℝ)
    simp only [sub_zero] at h2
    rw [hG]
    fun_prop
  have h1 : ∫⁻ q, f (A *ᵥ q + b) * ENNReal.ofReal (exp (-(q ⬝ᵥ q) / 2)) = ∫⁻ q, G (toLin' A q) := by
    apply lintegral_congr; intro q
    simp only [hG, toLin'_apply, mulVec_mulVec, nonsing_inv_mul _ hAu, one_mulVec]
  have hAm : Measurable (toLin' A) := (LinearMap.continuous_of_finiteDimensional (toLin' A)).measurable
  rw [h1, ← lintegral_map hGm hAm, Real.map_matrix_volume_pi_eq_smul_volume_pi hA, lintegral_smul_measure]
  congr 1
  rw [← lintegral_sub_right_eq_self G b]
  apply lintegral_congr; intro k
  simp only [hG, sub_add_cancel]

end Momtrop.C10

namespace Momtrop.C10
variable {L : ℕ}

theorem quad_of_whitening (Lm Qti : Matrix (Fin L) (Fin L) ℝ) (c : ℝ) (hc : c ≠ 0)
    (hQ : Qtiᵀ * Lm * Qti = 1) (hsym : Lmᵀ = Lm) (v : Fin L → ℝ) :
    (c • Qti).det ≠ 0 ∧
    ((c • Qti)⁻¹ *ᵥ v) ⬝ᵥ ((c • Qti)⁻¹ *ᵥ v) = (v ⬝ᵥ (Lm *ᵥ v)) / c ^ 2 := by
  have hQ' : Qti * (Qtiᵀ * Lm) = 1 := mul_eq_one_comm.mp hQ
  set B : Matrix (Fin L) (Fin L) ℝ := c⁻¹ • (Qtiᵀ * Lm) with hB
  have hBA : B * (c • Qti) = 1 := by
    rw [hB, smul_mul_smul_comm, inv_mul_cancel₀ hc, one_smul, hQ]
  have hdet : (c • Qti).det ≠ 0 := by
    intro h0
    have := congrArg Matrix.det hBA
    rw [det_mul, h0, mul_zero, det_one] at this
    exact zero_ne_one this
  have hinv : (c • Qti)⁻¹ = B := inv_eq_left_inv hBA
  refine ⟨hdet, ?_⟩
  rw [hinv]
  have hBB : Bᵀ * B = (c ^ 2)⁻¹ • Lm := by
    rw [hB, transpose_smul, transpose_mul, transpose_transpose, hsym, smul_mul_smul_comm, Matrix.mul_assoc, hQ', Matrix.mul_one]
    congr 1
    field_simp
  calc (B *ᵥ v) ⬝ᵥ (B *ᵥ v) = v ⬝ᵥ ((Bᵀ * B) *ᵥ v) := by
        rw [← mulVec_mulVec, dotProduct_mulVec, ← mulVec_transpose, dotProduct_comm]
    _ = (v ⬝ᵥ (Lm *ᵥ v)) / c ^ 2 := by
        rw [hBB, smul_mulVec, dotProduct_smul, smul_eq_mul]
        field_simp

end Momtrop.C10

namespace Momtrop.C10
variable {L : ℕ}

/-- **Law of the loop momenta** (one component): if `q` has the standard Gaussian weight then
`k = c·Q⁻ᵀq − L⁻¹u` has the Gaussian weight with centre `−L⁻¹u` and covariance `c²·L⁻¹`, normalised by
`√(det L)/c^L`. -/
theorem momenta_law (Lm Qti Li : Matrix (Fin L) (Fin L) ℝ) (c : ℝ) (hc : 0 < c)
    (hQ : Qtiᵀ * Lm * Qti = 1) (hsym : Lmᵀ = Lm) (u : Fin L → ℝ)
    (f : (Fin L → ℝ) → ℝ≥0∞) (hf : Measurable f) :
    ∫⁻ q, f (c • (Qti *ᵥ q) - Li *ᵥ u) * ENNReal.ofReal (exp (-(q ⬝ᵥ q) / 2))
      = ENNReal.ofReal (√(Lm.det) / c ^ L) *
        ∫⁻ k, f k * ENNReal.ofReal (exp (-((k + Li *ᵥ u) ⬝ᵥ (Lm *ᵥ (k + Li *ᵥ u))) / (2 * c ^ 2))) := by
  obtain ⟨hdet, _⟩ := quad_of_whitening Lm Qti c hc.ne' hQ hsym 0
  have h := gaussian_affine (c • Qti) hdet (-(Li *ᵥ u)) f hf
  have e1 : ∀ q : Fin L → ℝ, (c • Qti) *ᵥ q + -(Li *ᵥ u) = c • (Qti *ᵥ q) - Li *ᵥ u := by
    intro q; rw [smul_mulVec, sub_eq_add_neg]
  simp only [e1] at h
  rw [h]
  have hdetsq : (c • Qti).det ^ 2 * Lm.det = c ^ (2 * L) := by
    have h1 : Qti.det * Lm.det * Qti.det = 1 := by
      have := congrArg Matrix.det hQ
      rwa [det_mul, det_mul, det_transpose, det_one] at this
    rw [det_smul, Fintype.card_fin]
    calc (c ^ L * Qti.det) ^ 2 * Lm.det = c ^ (2 * L) * (Qti.det * Lm.det * Qti.det) := by ring
      _ = c ^ (2 * L) := by rw [h1, mul_one]
  have hcL : 0 < c ^ L := pow_pos hc L
  have hLpos : 0 < Lm.det := by
    have h2 : 0 < (c • Qti).det ^ 2 := by positivity
    have h3 : 0 < c ^ (2 * L) := pow_pos hc _
    by_contra hneg
    have : (c • Qti).det ^ 2 * Lm.det ≤ 0 := mul_nonpos_of_nonneg_of_nonpos h2.le (not_lt.mp hneg)
    linarith
  have hconst : |(c • Qti).det⁻¹| = √(Lm.det) / c ^ L := by
    have hsq : (|(c • Qti).det⁻¹|) ^ 2 = (√(Lm.det) / c ^ L) ^ 2 := by
      rw [sq_abs, div_pow, sq_sqrt hLpos.le, inv_pow]
      have : (c ^ L) ^ 2 = c ^ (2 * L) := by rw [← pow_mul, mul_comm]
      rw [this, ← hdetsq]
      field_simp
    exact (sq_eq_sq₀ (abs_nonneg _) (by positivity)).mp hsq
  rw [hconst]
  congr 1
  apply lintegral_congr; intro k
  have hq := (quad_of_whitening Lm Qti c hc.ne' hQ hsym (k - -(Li *ᵥ u))).2
  rw [hq, sub_neg_eq_add]
  congr 3
  field_simp

end Momtrop.C10

namespace Momtrop.C10
/-- non-vacuity of `momenta_law`: its hypotheses are met, e.g. by `L = Q⁻ᵀ = 1` in two loops with `c = 3` -/
example : ((1 : Matrix (Fin 2) (Fin 2) ℝ)ᵀ * 1 * 1 = 1) ∧ ((1 : Matrix (Fin 2) (Fin 2) ℝ)ᵀ = 1) ∧ (0 : ℝ) < 3 := by
  refine ⟨by simp, by simp, by norm_num⟩
end Momtrop.C10
