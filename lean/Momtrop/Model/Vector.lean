import Momtrop.Model.Scalar
/-!
# `Vector<T, D>` (`/repo/src/vector.rs`): a `D`-component array; modelled as a list of length `D`.
-/
namespace Momtrop
open Scalar

abbrev Vec (α : Type) := List α

section
variable {α : Type} [Scalar α]

/-- `Index`: total accessor (`zero` outside; the code panics there) -/
def Vec.get (v : Vec α) (i : Nat) : α := v.getD i zero
/-- `new` / `new_from_num`: the zero vector -/
def Vec.zeros (D : Nat) : Vec α := List.replicate D zero
/-- `&v + &w`: `array::from_fn(|i| self[i] + rhs[i])` -/
def Vec.add (D : Nat) (v w : Vec α) : Vec α := (List.range D).map fun i => v.get i + w.get i
/-- `&v - &w` -/
def Vec.sub (D : Nat) (v w : Vec α) : Vec α := (List.range D).map fun i => v.get i - w.get i
/-- `&v * s` and `&v * &s`: `elem * rhs` -/
def Vec.smul (v : Vec α) (s : α) : Vec α := v.map fun e => e * s
/-- `v += w`: `self[i] += rhs[i]` for `i in 0..D` -/
def Vec.addAssign (D : Nat) (v w : Vec α) : Vec α := (List.range D).map fun i => v.get i + w.get i
/-- `squared`: fold from zero of `acc + x*x` -/
def Vec.squared (v : Vec α) : α := v.foldl (fun acc x => acc + x * x) zero
/-- `dot`: fold from zero over the zipped elements of `acc + l*r` -/
def Vec.dot (v w : Vec α) : α := (v.zip w).foldl (fun acc p => acc + p.1 * p.2) zero

end
end Momtrop
