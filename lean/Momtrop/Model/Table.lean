import Momtrop.Model.Graph
/-!
# Subgraph table (`/repo/src/preprocessing.rs:216-242, 322-505`)
-/
namespace Momtrop
open Scalar

/-- `TropicalSubgraphTableEntry` -/
structure Entry (α : Type) where
  loopNumber : Nat
  mms : Bool
  j : α
  dod : α

/-- `TropicalSubgraphTable` -/
structure Table (α : Type) where
  entries : List (Entry α)
  dimension : Nat
  graph : TGraph α
  cached : α

section
variable {α : Type} [Scalar α]

/-- What the first loop of `generate_from_tropical` computes for subgraph id `i`
(`preprocessing.rs:396-418`): spanning flag, loop number, generalised degree of divergence. -/
def preEntry (G : TGraph α) (D : Nat) (i : Mask) : Bool × Nat × α :=
  let n := G.topology.length
  let es := Mask.edges n i
  let mms := isMMSpanning G.topology G.numMassive G.externals es
  let ws := weightSum G.topology es
  let L := loopNumber G.topology es
  let gd : α :=
    if !Mask.isEmpty i then
      if mms then ws - ofInt L * ofInt D / ofInt 2 - G.dod
      else ws - ofInt L * ofInt D / ofInt 2
    else one
  (mms, L, gd)

/-- The rejection test of `preprocessing.rs:420`. -/
def isBad (G : TGraph α) (D : Nat) (i : Mask) : Bool :=
  leB (preEntry G D i).2.2 (zero : α) && !Mask.isEmpty i && !(i == Mask.full G.topology.length)

/-- generalised dod as a function of the id (from a list of pre-entries) -/
def omegaOf (pre : List (Bool × Nat × α)) (g : Mask) : α :=
  match pre[g]? with
  | some p => p.2.2
  | none => one

/-- `recursive_fill_j_function` with its memo table, as written (`preprocessing.rs:216-242`).
Fuel = number of edges of the subgraph (each call removes one edge). -/
def fillJ (omega : Mask → α) (n : Nat) : Nat → Mask → List (Option α) → α × List (Option α)
  | 0, _, memo => (one, memo.set 0 (some one))
  | fuel + 1, g, memo =>
    if Mask.isEmpty g then (one, memo.set g (some one))
    else match memo.getD g none with
      | some j => (j, memo)
      | none =>
        let step := fun (acc : α × List (Option α)) (e : Nat) =>
          let r := fillJ omega n fuel (Mask.pop g e) acc.2
          (acc.1 + r.1 / omega (Mask.pop g e), r.2)
        let res := (Mask.edges n g).foldl step (-(zero : α), memo)
        (res.1, res.2.set g (some res.1))

/-- The recursion the memoised fill implements: `J(∅)=1`, `J(g)=Σ_{e∈g} J(g∖e)/ω(g∖e)`,
summed in edge order with `Iterator::sum`. -/
def jSpec (omega : Mask → α) (n : Nat) : Nat → Mask → α
  | 0, _ => one
  | fuel + 1, g =>
    if Mask.isEmpty g then one
    else sumIter ((Mask.edges n g).map fun e => jSpec omega n fuel (Mask.pop g e) / omega (Mask.pop g e))

/-- `cached_factor` (`preprocessing.rs:433-450`); `Γ` is `statrs::function::gamma::gamma`. -/
def cachedFactor (Γ : α → α) (G : TGraph α) (D : Nat) (iTr : α) : α :=
  let gammaOmega := Γ G.dod
  let denom := prodIter (G.topology.map fun e => Γ e.weight)
  let gammaRatio := gammaOmega / denom
  let piFactor := powf (pi : α) (ofInt (D * G.numLoops) / ofInt 2)
  iTr * gammaRatio * piFactor

/-- `generate_from_tropical`: `error i` = `Err` raised at subgraph `i` (the first bad one in id
order); otherwise the table. -/
def generateTable (Γ : α → α) (G : TGraph α) (D : Nat) : Except Mask (Table α) :=
  let n := G.topology.length
  let size := 2 ^ n
  match (List.range size).find? (isBad G D) with
  | some i => .error i
  | none =>
    let pre := (List.range size).map (preEntry G D)
    let omega := omegaOf pre
    let memo := (fillJ omega n n (Mask.full n) (List.replicate size none)).2
    let entries := (List.range size).map fun i =>
      let p := (preEntry G D i)
      ({ loopNumber := p.2.1, mms := p.1, j := (memo.getD i none).getD zero, dod := p.2.2 } : Entry α)
    let iTr := match entries.getLast? with | some e => e.j | none => zero
    .ok { entries := entries, dimension := D, graph := G, cached := cachedFactor Γ G D iTr }

/-- `build_sampler` up to the (stored, unused here) loop signature. -/
def buildTable (Γ : α → α) (G : InGraph α) (D : Nat) : Except Mask (Table α) :=
  generateTable Γ (fromGraph G D) D

/-- `get_num_variables` -/
def numVariables (T : Table α) : Nat :=
  let n := T.graph.topology.length
  let L := loopNumber T.graph.topology (List.range n)
  let ng := L * T.dimension
  2 * n - 1 + ng + ng % 2

end
end Momtrop
