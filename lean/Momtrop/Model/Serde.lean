/-!
# Serde model (`#[derive(Serialize, Deserialize)]` on the five sampler structs)

Derive semantics for a self-describing format: a struct is a map holding **all** of its fields, in
declaration order, each under its own name; `Vec` is a sequence; numbers are exact (`f64` as its
bit pattern — the property quantifies over formats that preserve `f64` exactly).
-/
namespace Momtrop.Serde

inductive Val where
  | bool (b : Bool)
  | nat (n : Nat)
  | int (i : Int)
  | f64 (bits : UInt64)
  | seq (l : List Val)
  | map (l : List (String × Val))

structure SerEdge where
  edgeId : Nat
  left : Nat
  right : Nat
  weight : UInt64
  isMassive : Bool

structure SerGraph where
  dod : UInt64
  topology : List SerEdge
  numMassive : Nat
  externals : List Nat
  numLoops : Nat

structure SerEntry where
  loopNumber : Nat
  mms : Bool
  j : UInt64
  dod : UInt64

structure SerTable where
  table : List SerEntry
  dimension : Nat
  graph : SerGraph
  cached : UInt64

structure SerGen where
  signature : List (List Int)
  table : SerTable

/-! field names and types, in declaration order — compared with the schema regenerated from the source -/
def edgeFields : List (String × String) :=
  [("edge_id", "u8"), ("left", "u8"), ("right", "u8"), ("weight", "f64"), ("is_massive", "bool")]
def graphFields : List (String × String) :=
  [("dod", "f64"), ("topology", "Vec<TropicalEdge>"), ("num_massive_edges", "usize"),
   ("external_vertices", "Vec<u8>"), ("num_loops", "usize")]
def entryFields : List (String × String) :=
  [("loop_number", "u8"), ("mass_momentum_spanning", "bool"), ("j_function", "f64"), ("generalized_dod", "f64")]
def tableFields : List (String × String) :=
  [("table", "Vec<TropicalSubgraphTableEntry>"), ("dimension", "usize"), ("tropical_graph", "TropicalGraph"),
   ("cached_factor", "f64")]
def genFields : List (String × String) :=
  [("loop_signature", "Vec<Vec<isize>>"), ("table", "TropicalSubgraphTable")]

def modelSchema : List (String × List (String × String)) :=
  [("SampleGenerator", genFields), ("TropicalSubgraphTable", tableFields),
   ("TropicalSubgraphTableEntry", entryFields), ("TropicalGraph", graphFields), ("TropicalEdge", edgeFields)]

/-- a struct as a map: the field names zipped with the encoded field values -/
def struct (fields : List (String × String)) (vals : List Val) : Val :=
  Val.map ((fields.map (·.1)).zip vals)

def encEdge (e : SerEdge) : Val :=
  struct edgeFields [.nat e.edgeId, .nat e.left, .nat e.right, .f64 e.weight, .bool e.isMassive]
def encGraph (g : SerGraph) : Val :=
  struct graphFields [.f64 g.dod, .seq (g.topology.map encEdge), .nat g.numMassive,
    .seq (g.externals.map Val.nat), .nat g.numLoops]
def encEntry (e : SerEntry) : Val :=
  struct entryFields [.nat e.loopNumber, .bool e.mms, .f64 e.j, .f64 e.dod]
def encTable (t : SerTable) : Val :=
  struct tableFields [.seq (t.table.map encEntry), .nat t.dimension, encGraph t.graph, .f64 t.cached]
def encGen (g : SerGen) : Val :=
  struct genFields [.seq (g.signature.map fun r => .seq (r.map Val.int)), encTable g.table]

def decNat : Val → Option Nat | .nat n => some n | _ => none
def decInt : Val → Option Int | .int i => some i | _ => none
def decSeq (f : Val → Option α) : Val → Option (List α) | .seq l => l.mapM f | _ => none

def decEdge : Val → Option SerEdge
  | .map [("edge_id", .nat a), ("left", .nat b), ("right", .nat c), ("weight", .f64 w), ("is_massive", .bool m)] =>
    some ⟨a, b, c, w, m⟩
  | _ => none
def decGraph : Val → Option SerGraph
  | .map [("dod", .f64 d), ("topology", top), ("num_massive_edges", .nat nm), ("external_vertices", ext),
          ("num_loops", .nat nl)] => do
    let t ← decSeq decEdge top
    let e ← decSeq decNat ext
    some ⟨d, t, nm, e, nl⟩
  | _ => none
def decEntry : Val → Option SerEntry
  | .map [("loop_number", .nat l), ("mass_momentum_spanning", .bool m), ("j_function", .f64 j),
          ("generalized_dod", .f64 d)] => some ⟨l, m, j, d⟩
  | _ => none
def decTable : Val → Option SerTable
  | .map [("table", tab), ("dimension", .nat dim), ("tropical_graph", g), ("cached_factor", .f64 c)] => do
    let t ← decSeq decEntry tab
    let gr ← decGraph g
    some ⟨t, dim, gr, c⟩
  | _ => none
def decGen : Val → Option SerGen
  | .map [("loop_signature", sig), ("table", tab)] => do
    let s ← decSeq (decSeq decInt) sig
    let t ← decTable tab
    some ⟨s, t⟩
  | _ => none

end Momtrop.Serde
