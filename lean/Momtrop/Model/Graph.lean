import Momtrop.Model.Scalar
import Momtrop.Model.Mask
/-!
# Graph preprocessing (`/repo/src/preprocessing.rs:11-213`)

`TropicalGraph`, connected components by edge-adjacency search, loop number, mass-momentum
spanning. Hash sets of the implementation are modelled as duplicate-free lists: the code uses them
only for membership, insertion and cardinality (theorem `components` does not depend on any
iteration order because none is ever observed: the resulting sets are turned into bit masks).
-/
namespace Momtrop
open Scalar

/-- `TropicalEdge` (`edge_id` is the position in the list) -/
structure TEdge (α : Type) where
  left : Nat
  right : Nat
  weight : α
  massive : Bool

/-- `TropicalGraph` -/
structure TGraph (α : Type) where
  dod : α
  topology : List (TEdge α)
  numMassive : Nat
  externals : List Nat
  numLoops : Nat

/-- The input `Graph` of `lib.rs:70-81`. -/
structure InGraph (α : Type) where
  edges : List (TEdge α)
  externals : List Nat

section
variable {α : Type}

/-- End points of edge `e` (`(0,0)` outside the list; the code would panic there). -/
def endsOf (top : List (TEdge α)) (e : Nat) : Nat × Nat :=
  match top[e]? with
  | some t => (t.left, t.right)
  | none => (0, 0)

/-- `TropicalEdge::contains_vertex` -/
def containsVertex (top : List (TEdge α)) (e v : Nat) : Bool :=
  (endsOf top e).1 == v || (endsOf top e).2 == v

/-- `are_neighbours(e, f)` (`preprocessing.rs:210-213`) -/
def adj (top : List (TEdge α)) (e f : Nat) : Bool :=
  containsVertex top e (endsOf top f).1 || containsVertex top e (endsOf top f).2

/-- One search round at the level of sets: every edge of `s` adjacent to a member of `comp`
(`preprocessing.rs:116-130`; `comp ⊆ grow comp` because every edge is its own neighbour). -/
def grow (top : List (TEdge α)) (s comp : List Nat) : List Nat :=
  s.filter fun f => comp.any fun e => adj top e f

/-- Iterate until the component stops growing (`preprocessing.rs:110-133`). -/
def closure (top : List (TEdge α)) (s : List Nat) : Nat → List Nat → List Nat
  | 0, comp => comp
  | fuel + 1, comp =>
    let next := grow top s comp
    if next.length = comp.length then comp else closure top s fuel next

/-- Outer loop: seed = first edge of `s` not yet visited (`preprocessing.rs:104-108,134-143`). -/
def compsLoop (top : List (TEdge α)) (s : List Nat) : Nat → List Nat → List (List Nat)
  | 0, _ => []
  | fuel + 1, visited =>
    match s.find? (fun e => !visited.contains e) with
    | none => []
    | some seed =>
      let c := closure top s (s.length + 1) [seed]
      c :: compsLoop top s fuel (visited ++ c)

/-- `get_connected_components`, as edge lists in discovery order. -/
def componentLists (top : List (TEdge α)) (s : List Nat) : List (List Nat) :=
  compsLoop top s s.length []

/-- `get_connected_components`: bit masks in discovery order. -/
def components (top : List (TEdge α)) (s : List Nat) : List Mask :=
  (componentLists top s).map Mask.ofList

/-- distinct end points of the edges in `c` -/
def vertexSet (top : List (TEdge α)) (c : List Nat) : List Nat :=
  (c.flatMap fun e => [(endsOf top e).1, (endsOf top e).2]).eraseDups

/-- `get_loop_number_of_connected_component`: `1 + edges - vertices` -/
def loopNumberComp (top : List (TEdge α)) (c : Mask) : Nat :=
  let es := Mask.edges top.length c
  1 + es.length - (vertexSet top es).length

/-- `get_loop_number` -/
def loopNumber (top : List (TEdge α)) (s : List Nat) : Nat :=
  ((components top s).map (loopNumberComp top)).sum

/-- is edge `e` massive -/
def isMassive (top : List (TEdge α)) (e : Nat) : Bool :=
  match top[e]? with
  | some t => t.massive
  | none => false

/-- `is_mass_momentum_spanning` (`preprocessing.rs:71-90`) -/
def isMMSpanning (top : List (TEdge α)) (numMassive : Nat) (externals : List Nat)
    (s : List Nat) : Bool :=
  let isMassSpanning := (s.filter (isMassive top)).length == numMassive
  let isMomentumSpanning := (components top s).any fun c =>
    externals.all fun v => (Mask.edges top.length c).any fun i => containsVertex top i v
  isMassSpanning && isMomentumSpanning

end

section
variable {α : Type} [Scalar α]

/-- `compute_weight_sum`: `Iterator::sum` of the weights in list order -/
def weightSum (top : List (TEdge α)) (s : List Nat) : α :=
  sumIter (s.map fun i => match top[i]? with | some t => t.weight | none => zero)

/-- `TropicalGraph::from_graph` (`preprocessing.rs:21-61`) -/
def fromGraph (G : InGraph α) (D : Nat) : TGraph α :=
  let top := G.edges
  let all := List.range top.length
  let ws := weightSum top all
  let L := loopNumber top all
  { dod := ws - (ofInt L * ofInt D) / ofInt 2
    topology := top
    numMassive := (top.filter (·.massive)).length
    externals := G.externals
    numLoops := L }

end
end Momtrop
