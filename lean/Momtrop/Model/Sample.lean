import Momtrop.Model.Sampling
import Momtrop.Model.Matrix
import Momtrop.Model.Vector
/-!
# `sample` (`/repo/src/sampling.rs:13-146, 269-431`)
-/
namespace Momtrop
open Scalar

section
variable {α : Type} [Scalar α]

/-- `box_muller` (`sampling.rs:13-17`) -/
def boxMuller (x1 x2 : α) : α × α :=
  let r := sqrt (-(ofInt 2 : α) * ln x1)
  let theta := (ofInt 2 : α) * pi * x2
  (cos theta * r, sin theta * r)

/-- signature entry `s_{e,l}` (0 outside) -/
def sigGet (S : List (List Int)) (e l : Nat) : Int := (S.getD e []).getD l 0

/-- `compute_l_matrix` (`sampling.rs:271-296`): only `i ≤ j` is accumulated, the lower triangle
receives the same additions in the same order. -/
def lMatrix (x : List α) (S : List (List Int)) : Mat α :=
  let nE := S.length
  let nL := (S.getD 0 []).length
  let upper := fun (i j : Nat) =>
    sumFrom zero ((List.range nE).map fun e => ofInt (sigGet S e i * sigGet S e j) * x.getD e zero)
  Mat.ofFn nL fun i j => if i ≤ j then upper i j else upper j i

/-- The lazily evaluated stream of Gaussians: pair `k` is read from `xs[base+2k], xs[base+2k+1]`. -/
def gaussianAt (xs : List α) (base n : Nat) : Option α :=
  match xs[base + 2 * (n / 2)]?, xs[base + 2 * (n / 2) + 1]? with
  | some a, some b => some (if n % 2 = 0 then (boxMuller a b).1 else (boxMuller a b).2)
  | _, _ => none

/-- `sample_q_vectors` (`sampling.rs:300-329`): `L` vectors of `D` components, reading
`D·L + (D·L mod 2)` coordinates starting at `base`. `none` = out-of-range read. -/
def qVectors (xs : List α) (base D L : Nat) : Option (List (Vec α)) :=
  (List.range L).mapM fun l => (List.range D).mapM fun i => gaussianAt xs base (l * D + i)

def qReads (D L : Nat) : Nat := D * L + (D * L) % 2

/-- `compute_u_vectors` (`sampling.rs:333-353`) -/
def uVectors (D : Nat) (x : List α) (S : List (List Int)) (shifts : List (Vec α)) : List (Vec α) :=
  let nL := (S.getD 0 []).length
  let nE := S.length
  (List.range nL).map fun l =>
    (List.range nE).foldl (fun acc e =>
      Vec.add D acc (Vec.smul (shifts.getD e []) (ofInt (sigGet S e l) * x.getD e zero))) (Vec.zeros D)

/-- `compute_v_polynomial` (`sampling.rs:357-384`) -/
def vPolynomial (x : List α) (u : List (Vec α)) (Linv : Mat α) (nL : Nat)
    (shifts : List (Vec α)) (masses : List α) : α :=
  let terms := (x.zip (masses.zip shifts)).map fun p => (p.2.1 * p.2.1 + Vec.squared p.2.2) * p.1
  let r0 := sumFrom zero terms
  let r1 := subFold r0 ((List.range nL).map fun l => Vec.squared (u.getD l []) * Linv.get l l)
  subFold r1 ((List.range nL).flatMap fun i =>
    ((List.range nL).filter (fun j => i < j)).map fun j =>
      (ofInt 2 : α) * Vec.dot (u.getD i []) (u.getD j []) * Linv.get i j)

/-- `compute_loop_momenta` (`sampling.rs:388-412`) -/
def loopMomenta (D : Nat) (v lam : α) (qTInv : Mat α) (nL : Nat) (q : List (Vec α))
    (Linv : Mat α) (u : List (Vec α)) : List (Vec α) :=
  let pref := sqrt (v / lam / ofInt 2)
  (List.range nL).map fun l =>
    ((q.zip u).zipIdx).foldl (fun acc (p : (Vec α × Vec α) × Nat) =>
      let qPart := Vec.smul p.1.1 (pref * qTInv.get l p.2)
      let uPart := Vec.smul p.1.2 (Linv.get l p.2)
      Vec.sub D (Vec.add D acc qPart) uPart) (Vec.zeros D)

/-- `compute_only_shift` (`sampling.rs:414-431`) -/
def onlyShift (D : Nat) (Linv : Mat α) (nL : Nat) (u : List (Vec α)) : List (Vec α) :=
  (List.range nL).map fun l =>
    (u.zipIdx).foldl (fun acc (p : Vec α × Nat) =>
      Vec.add D acc (Vec.smul p.1 (Linv.get l p.2))) (Vec.zeros D)

inductive SampleErr where
  | matrix (e : MatErr)
  | gamma
  deriving DecidableEq, Repr

/-- `Metadata` -/
structure Meta (α : Type) where
  qVectors : List (Vec α)
  lambda : α
  lMatrix : Mat α
  decomp : Decomp α
  uVectors : List (Vec α)
  shift : List (Vec α)

/-- `TropicalSampleResult` plus the number of coordinates read. -/
structure SampleResult (α : Type) where
  loopMomenta : List (Vec α)
  uTrop : α
  vTrop : α
  u : α
  v : α
  jacobian : α
  metadata : Option (Meta α)
  reads : Nat

/-- `TropicalSamplingSettings`, tolerance converted with `from_f64`. -/
structure Settings (α : Type) where
  stability : Option α
  debug : Bool
  returnMeta : Bool

/-- `sample` (`sampling.rs:25-146`). `draw a p` is the Gamma quantile
`inverse_gamma_lr(a, p, 50, 5.0)` — the only place where the code narrows to `f64`; `none` from
`draw` = `GammaError`. Outer `none` = panic (out-of-range read, `sample_edge` panic). -/
def sampleCore (draw : α → α → Option α) (T : STable α) (D : Nat) (xs : List α)
    (S : List (List Int)) (edgeData : List (Option α × Vec α)) (st : Settings α) :
    Option (Except SampleErr (SampleResult α)) :=
  if xs.isEmpty then none else
  match permutahedral T xs with
  | none => none
  | some pr =>
    let L := lMatrix pr.x S
    let nL := (S.getD 0 []).length
    match decompose nL L st.stability with
    | .error e => some (.error (.matrix e))
    | .ok dec =>
      match xs[pr.reads]? with
      | none => none
      | some p =>
        match draw T.dod p with
        | none => some (.error .gamma)
        | some lam =>
          let masses := edgeData.map fun d => match d.1 with | some m => m | none => zero
          let shifts := edgeData.map fun d => d.2
          match qVectors xs (pr.reads + 1) T.dimension T.numLoops with
          | none => none
          | some q =>
            let u := uVectors D pr.x S shifts
            let v := vPolynomial pr.x u dec.inverse nL shifts masses
            let k := loopMomenta D v lam dec.qTInv nL q dec.inverse u
            let jac := powf (pr.uTr / dec.determinant) T.halfD * powf (pr.vTr / v) T.dod * T.cached
            let md : Option (Meta α) :=
              if st.returnMeta then
                some { qVectors := q, lambda := lam, lMatrix := L, decomp := dec, uVectors := u,
                       shift := onlyShift D dec.inverse nL u }
              else none
            some (.ok { loopMomenta := k, uTrop := pr.uTr, vTrop := pr.vTr, u := dec.determinant,
                        v := v, jacobian := jac, metadata := md,
                        reads := pr.reads + 1 + qReads T.dimension T.numLoops })

end
end Momtrop
