import Momtrop.Model.Table
/-!
# Sector sampling (`/repo/src/preprocessing.rs:460-483`, `/repo/src/sampling.rs:148-267`)

The sampling code reads the `f64` table through `from_f64`; the model works with the table
already converted to the user's scalar (`STable α`), which is the same thing because `from_f64`
is a function of its argument.
-/
namespace Momtrop
open Scalar

/-- The sampler's view of one table entry, converted with `from_f64`. -/
structure SEntry (α : Type) where
  loops : Nat
  mms : Bool
  j : α
  omega : α

/-- The sampler's view of `TropicalSubgraphTable`, all `f64` constants converted with `from_f64`. -/
structure STable (α : Type) where
  numEdges : Nat
  entries : List (SEntry α)
  dimension : Nat
  /-- `tropical_graph.num_loops` -/
  numLoops : Nat
  /-- `from_f64(tropical_graph.dod)` -/
  dod : α
  /-- `from_f64(dimension as f64 / 2.0)` -/
  halfD : α
  /-- `from_f64(-(dimension as f64 / 2.0))` -/
  negHalfD : α
  /-- `from_f64(dimension as f64 / 2.0 * loop_number as f64 + dod)` with `loop_number` of the last entry -/
  scaleDen : α
  /-- `from_f64(cached_factor)` -/
  cached : α

section
variable {α : Type} [Scalar α]

def STable.entry (T : STable α) (g : Mask) : SEntry α :=
  match T.entries[g]? with
  | some e => e
  | none => { loops := 0, mms := false, j := zero, omega := one }

def STable.j (T : STable α) (g : Mask) : α := (T.entry g).j
def STable.omega (T : STable α) (g : Mask) : α := (T.entry g).omega
def STable.loops (T : STable α) (g : Mask) : Nat := (T.entry g).loops
def STable.mms (T : STable α) (g : Mask) : Bool := (T.entry g).mms

/-- probability of removing `e` from `g`: `J(g∖e) / J(g) / ω(g∖e)` in this order -/
def edgeProb (T : STable α) (g : Mask) (e : Nat) : α :=
  T.j (Mask.pop g e) / T.j g / T.omega (Mask.pop g e)

/-- The cumulative scan of `sample_edge`; `last` is the most recent edge that was passed over. -/
def scanEdges (T : STable α) (u : α) (g : Mask) :
    List Nat → α → Option (Nat × Mask) → Option (Nat × Mask)
  | [], _, last => if leB u (one : α) then last else none
  | e :: es, cum, _ =>
    let cum' := cum + edgeProb T g e
    if geB cum' u then some (e, Mask.pop g e) else scanEdges T u g es cum' (some (e, Mask.pop g e))

/-- `sample_edge` (`preprocessing.rs:462-…`): first edge in index order at which the running sum
reaches `u`; if rounding leaves the total below `u ≤ 1` the last edge is returned; `none` = panic. -/
def sampleEdge (T : STable α) (u : α) (g : Mask) : Option (Nat × Mask) :=
  scanEdges T u g (Mask.edges T.numEdges g) zero none

/-- State of the removal loop. -/
structure PState (α : Type) where
  kappa : α
  x : List α
  uTr : α
  vTr : α
  cnt : Nat
  /-- removal order (model-only bookkeeping) -/
  order : List Nat

/-- Choice of the next edge: the single-edge shortcut consumes no number (`sampling.rs:174-183`). -/
def chooseEdge (T : STable α) (xs : List α) (g : Mask) (cnt : Nat) : Option (Nat × Mask × Nat) :=
  if Mask.hasOneEdge g then
    match (Mask.edges T.numEdges g).head? with
    | some e => some (e, Mask.pop g e, cnt)
    | none => none
  else match xs[cnt]? with
    | none => none
    | some u => (sampleEdge T u g).map fun r => (r.1, r.2, cnt + 1)

/-- The `while` loop of `permatuhedral_sampling` (`sampling.rs:172-210`); fuel = number of edges.
`none` = a panic (out-of-range read or `sample_edge` panic). -/
def permLoop (T : STable α) (xs : List α) : Nat → Mask → PState α → Option (PState α)
  | 0, _, st => some st
  | fuel + 1, g, st =>
    if Mask.isEmpty g then some st else
    match chooseEdge T xs g st.cnt with
    | none => none
    | some (e, g', cnt) =>
      let x := st.x.set e st.kappa
      let vTr := if T.mms g && !T.mms g' then st.kappa else st.vTr
      let uTr := if T.loops g' < T.loops g then st.uTr * st.kappa else st.uTr
      if Mask.isEmpty g' then
        some { st with x := x, uTr := uTr, vTr := vTr, cnt := cnt, order := st.order ++ [e] }
      else match xs[cnt]? with
        | none => none
        | some xi =>
          permLoop T xs fuel g'
            { kappa := st.kappa * powf xi (inv (T.omega g')), x := x, uTr := uTr, vTr := vTr,
              cnt := cnt + 1, order := st.order ++ [e] }

/-- Result of `permatuhedral_sampling` with the quantities the debug log exposes. -/
structure PermResult (α : Type) where
  /-- Feynman parameters after the rescaling (what the rest of `sample` uses) -/
  x : List α
  /-- Feynman parameters before the rescaling -/
  xPre : List α
  /-- `u_trop`, `v_trop` before they are reset to one -/
  uTrPre : α
  vTrPre : α
  scaling : α
  /-- the returned `u_trop`, `v_trop` (always `one`) -/
  uTr : α
  vTr : α
  /-- number of coordinates read -/
  reads : Nat
  order : List Nat

/-- the common rescaling factor (`sampling.rs:212-227`) -/
def scalingOf (T : STable α) (uTr vTr : α) : α :=
  let xiTrop := uTr * vTr
  let target := powf uTr T.negHalfD * powf (uTr / xiTrop) T.dod
  powf target (inv T.scaleDen)

/-- `permatuhedral_sampling` -/
def permutahedral (T : STable α) (xs : List α) : Option (PermResult α) :=
  let st0 : PState α :=
    { kappa := one, x := List.replicate T.numEdges zero, uTr := one, vTr := one, cnt := 0, order := [] }
  match permLoop T xs T.numEdges (Mask.full T.numEdges) st0 with
  | none => none
  | some st =>
    let s := scalingOf T st.uTr st.vTr
    some { x := st.x.map (· * s), xPre := st.x, uTrPre := st.uTr, vTrPre := st.vTr, scaling := s,
           uTr := one, vTr := one, reads := st.cnt, order := st.order }

end
end Momtrop
