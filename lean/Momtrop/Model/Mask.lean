/-!
# Subgraph ids (`TropicalSubGraphId`, `/repo/src/preprocessing.rs:260-320`)

Bit `e` of the id is set iff edge `e` belongs to the subgraph. Ids are unbounded `Nat`s in the model
(`usize` in the code; the overflow at 64 edges is the known finding of C05 and is not modelled).
-/
namespace Momtrop
abbrev Mask := Nat
namespace Mask

/-- `TropicalSubGraphId::new`: `(1 << num_edges) - 1` -/
def full (n : Nat) : Mask := (1 <<< n) - 1
/-- `pop_edge`: `id ^ (1 << edge_id)` -/
def pop (g : Mask) (e : Nat) : Mask := g ^^^ (1 <<< e)
/-- `has_edge`: `id & (1 << edge_id) != 0` -/
def hasEdge (g : Mask) (e : Nat) : Bool := g &&& (1 <<< e) != 0
/-- `contains_edges`: `(0..num_edges).filter(has_edge)` -/
def edges (n : Nat) (g : Mask) : List Nat := (List.range n).filter fun e => hasEdge g e
/-- `is_empty` -/
def isEmpty (g : Mask) : Bool := g == 0
/-- `usize::count_ones` -/
def popcount : Nat → Nat
  | 0 => 0
  | n + 1 => (n + 1) % 2 + popcount ((n + 1) / 2)
decreasing_by omega
/-- `has_one_edge` -/
def hasOneEdge (g : Mask) : Bool := popcount g == 1
/-- `from_edge_list`: `id |= 1 << e` for every listed edge -/
def ofList (l : List Nat) : Mask := l.foldl (fun id e => id ||| (1 <<< e)) 0

end Mask
end Momtrop
