import Momtrop.Model.Scalar
/-!
# Gamma quantile (`/repo/src/gamma.rs`) and the `statrs` 0.16.1 functions it calls

`inverse_gamma_lr_impl` works in `f64`; it is modelled over an arbitrary `Scalar φ` (instantiated at
`Float` for execution). Float literals are written as their binary64 bit patterns (`lit`).
`none` = a panic (`statrs`' `gamma_lr`/`gamma_ur` panic outside `(0,∞)`).
File generated from `tools/gen_gamma_model.py` (literal → bit pattern substitution only).
-/
namespace Momtrop
open Scalar

section
variable {φ : Type} [Scalar φ]

/-- a binary64 literal -/
def lit (b : UInt64) : φ := ofF64 b
def isNaN (x : φ) : Bool := !(beq x x)
def posInf : φ := (one : φ) / zero
def isFiniteS (x : φ) : Bool := ltB (Scalar.abs x) (posInf : φ)
def isInfS (x : φ) : Bool := beq (Scalar.abs x) (posInf : φ)
/-- `f64::max` -/
def fmax (x y : φ) : φ := if isNaN y then x else if isNaN x then y else if ltB x y then y else x

/-! ## statrs::function::gamma -/

def gammaDk : List φ := [(lit 0x3EFA109C2231ECD3 /- 2.48574089138753565546e-5 -/), (lit 0x3FF0D2A1BF6524BB /- 1.05142378581721974210 -/), (lit 0xC00BA7ABF7E16B28 /- -3.45687097222016235469 -/),
  (lit 0x40120C925DE05F43 /- 4.51227709466894823700 -/), (lit 0xC007DCE1A4639489 /- -2.98285225323576655721 -/), (lit 0x3FF0E700A97D3899 /- 1.05639711577126713077 -/), (lit 0xBFC903CF5EC71B4C /- -1.95428773191645869583e-1 -/),
  (lit 0x3F9181E3E5002551 /- 1.70970543404441224307e-2 -/), (lit 0xBF42BDA9FC284BE3 /- -5.71926117404305781283e-4 -/), (lit 0x3ED36FB6C5EDE4EB /- 4.63399473359905636708e-6 -/), (lit 0xBE275D3B35ECD3F3 /- -2.71994908488607703910e-9 -/)]
def gammaR : φ := (lit 0x4025CD0FC71D6063 /- 10.900511 -/)
def constE : φ := (lit 0x4005BF0A8B145769 /- 2.718281828459045 -/)
def lnPi : φ := (lit 0x3FF250D048E7A1BD /- 1.1447298858494001741434273513530587116472948129153 -/)
def ln2SqrtEOverPi : φ := (lit 0x3FE3DD72B6129832 /- 0.6207822376352452223455184457816472122518527279025978 -/)
def twoSqrtEOverPi : φ := (lit 0x3FFDC420AF97465B /- 1.8603827342052657173362492472666631120594218414085755 -/)

/-- the Lanczos sum: fold over `GAMMA_DK[1..]` with its index -/
def lanczosSum (den : Nat → φ) : φ :=
  ((gammaDk (φ := φ)).zipIdx.drop 1).foldl (fun s (t : φ × Nat) => s + t.1 / den t.2) ((gammaDk (φ := φ)).getD 0 zero)

/-- `statrs::function::gamma::gamma` -/
def statrsGamma (x : φ) : φ :=
  if ltB x (lit 0x3FE0000000000000 /- 0.5 -/) then
    let s := lanczosSum fun k => (ofInt k : φ) - x
    (pi : φ) / (sin (pi * x) * s * twoSqrtEOverPi * powf (((lit 0x3FE0000000000000 /- 0.5 -/) - x + gammaR) / constE) ((lit 0x3FE0000000000000 /- 0.5 -/) - x))
  else
    let s := lanczosSum fun k => x + (ofInt k : φ) - (lit 0x3FF0000000000000 /- 1.0 -/)
    s * twoSqrtEOverPi * powf ((x - (lit 0x3FE0000000000000 /- 0.5 -/) + gammaR) / constE) (x - (lit 0x3FE0000000000000 /- 0.5 -/))

/-- `statrs::function::gamma::ln_gamma` -/
def statrsLnGamma (x : φ) : φ :=
  if ltB x (lit 0x3FE0000000000000 /- 0.5 -/) then
    let s := lanczosSum fun k => (ofInt k : φ) - x
    lnPi - ln (sin (pi * x)) - ln s - ln2SqrtEOverPi - ((lit 0x3FE0000000000000 /- 0.5 -/) - x) * ln (((lit 0x3FE0000000000000 /- 0.5 -/) - x + gammaR) / constE)
  else
    let s := lanczosSum fun k => x + (ofInt k : φ) - (lit 0x3FF0000000000000 /- 1.0 -/)
    ln s + ln2SqrtEOverPi + (x - (lit 0x3FE0000000000000 /- 0.5 -/)) * ln ((x - (lit 0x3FE0000000000000 /- 0.5 -/) + gammaR) / constE)

/-- `prec::almost_eq(a, 0.0, DEFAULT_F64_ACC)` -/
def almostZero (a : φ) : Bool :=
  if isInfS a then false else ltB (Scalar.abs (a - (lit 0x0000000000000000 /- 0.0 -/))) (lit 0x3CD4000000000000 /- 0.0000000000000011102230246251565 -/)

def epsS : φ := (lit 0x3CD203AF9EE75616 /- 0.000000000000001 -/)
def bigS : φ := (lit 0x4330000000000000 /- 4503599627370496.0 -/)
def bigInvS : φ := (lit 0x3CB0000000000000 /- 2.22044604925031308085e-16 -/)
def axMin : φ := (lit 0xC0862E42FEFA39EF /- -709.78271289338399 -/)

/-- the series loop of `checked_gamma_lr` (`x <= 1 || x <= a`) -/
def lrSeries (x : φ) : Nat → φ → φ → φ → φ
  | 0, _, _, ans2 => ans2
  | fuel + 1, r2, c2, ans2 =>
    let r2' := r2 + (lit 0x3FF0000000000000 /- 1.0 -/)
    let c2' := c2 * (x / r2')
    let ans2' := ans2 + c2'
    if leB (c2' / ans2') epsS then ans2' else lrSeries x fuel r2' c2' ans2'

/-- the continued-fraction loop of `checked_gamma_lr` -/
def lrFraction : Nat → (y z : φ) → (c : Nat) → (p3 q3 p2 q2 ans : φ) → φ
  | 0, _, _, _, _, _, _, _, ans => ans
  | fuel + 1, y, z, c, p3, q3, p2, q2, ans =>
    let y := y + (lit 0x3FF0000000000000 /- 1.0 -/)
    let z := z + (lit 0x4000000000000000 /- 2.0 -/)
    let c := c + 1
    let yc := y * (ofInt c : φ)
    let p := p2 * z - p3 * yc
    let q := q2 * z - q3 * yc
    let p3 := p2; let p2 := p; let q3 := q2; let q2 := q
    let sc := gtB (Scalar.abs p) bigS
    let p3 := if sc then p3 * bigInvS else p3
    let p2 := if sc then p2 * bigInvS else p2
    let q3 := if sc then q3 * bigInvS else q3
    let q2 := if sc then q2 * bigInvS else q2
    if !(beq q (lit 0x0000000000000000 /- 0.0 -/)) then
      let nextans := p / q
      let error := Scalar.abs ((ans - nextans) / nextans)
      if leB error epsS then nextans else lrFraction fuel y z c p3 q3 p2 q2 nextans
    else lrFraction fuel y z c p3 q3 p2 q2 ans

def loopFuel : Nat := 100000

/-- `statrs::function::gamma::gamma_lr` (`none` = the `unwrap` panic on an argument outside `(0,∞)`) -/
def statrsGammaLr (a x : φ) : Option φ :=
  if isNaN a || isNaN x then some ((lit 0x0000000000000000 /- 0.0 -/) / (lit 0x0000000000000000 /- 0.0 -/))
  else if leB a (lit 0x0000000000000000 /- 0.0 -/) || beq a posInf then none
  else if leB x (lit 0x0000000000000000 /- 0.0 -/) || beq x posInf then none
  else if almostZero a then some (lit 0x3FF0000000000000 /- 1.0 -/)
  else if almostZero x then some (lit 0x0000000000000000 /- 0.0 -/)
  else
    let ax := a * ln x - x - statrsLnGamma a
    if ltB ax axMin then (if ltB a x then some (lit 0x3FF0000000000000 /- 1.0 -/) else some (lit 0x0000000000000000 /- 0.0 -/))
    else if leB x (lit 0x3FF0000000000000 /- 1.0 -/) || leB x a then
      let ans2 := lrSeries x loopFuel a (lit 0x3FF0000000000000 /- 1.0 -/) (lit 0x3FF0000000000000 /- 1.0 -/)
      some (exp ax * ans2 / a)
    else
      let y := (lit 0x3FF0000000000000 /- 1.0 -/) - a
      let z := x + y + (lit 0x3FF0000000000000 /- 1.0 -/)
      let p2 := x + (lit 0x3FF0000000000000 /- 1.0 -/)
      let q2 := z * x
      let ans := lrFraction loopFuel y z 0 (lit 0x3FF0000000000000 /- 1.0 -/) x p2 q2 (p2 / q2)
      some ((lit 0x3FF0000000000000 /- 1.0 -/) - exp ax * ans)

/-- `is_zero` = `ulps_eq!(x, 0.0, max_ulps = 0)`: `|x| <= f64::EPSILON` -/
def isZeroUlps (x : φ) : Bool := leB (Scalar.abs (x - (lit 0x0000000000000000 /- 0.0 -/))) (lit 0x3CB0000000000000 /- 2.220446049250313e-16 -/)

/-- the continued-fraction loop of `checked_gamma_ur` -/
def urFraction : Nat → (y z c pkm2 qkm2 pkm1 qkm1 ans : φ) → φ
  | 0, _, _, _, _, _, _, _, ans => ans
  | fuel + 1, y, z, c, pkm2, qkm2, pkm1, qkm1, ans =>
    let y := y + (lit 0x3FF0000000000000 /- 1.0 -/)
    let z := z + (lit 0x4000000000000000 /- 2.0 -/)
    let c := c + (lit 0x3FF0000000000000 /- 1.0 -/)
    let yc := y * c
    let pk := pkm1 * z - pkm2 * yc
    let qk := qkm1 * z - qkm2 * yc
    let pkm2 := pkm1; let pkm1 := pk; let qkm2 := qkm1; let qkm1 := qk
    let sc := gtB (Scalar.abs pk) bigS
    let pkm2 := if sc then pkm2 * bigInvS else pkm2
    let pkm1 := if sc then pkm1 * bigInvS else pkm1
    let qkm2 := if sc then qkm2 * bigInvS else qkm2
    let qkm1 := if sc then qkm1 * bigInvS else qkm1
    if !(isZeroUlps qk) then
      let r := pk / qk
      let t := Scalar.abs ((ans - r) / r)
      if leB t epsS then r else urFraction fuel y z c pkm2 qkm2 pkm1 qkm1 r
    else urFraction fuel y z c pkm2 qkm2 pkm1 qkm1 ans

/-- `statrs::function::gamma::gamma_ur` -/
def statrsGammaUr (a x : φ) : Option φ :=
  if isNaN a || isNaN x then some ((lit 0x0000000000000000 /- 0.0 -/) / (lit 0x0000000000000000 /- 0.0 -/))
  else if leB a (lit 0x0000000000000000 /- 0.0 -/) || beq a posInf then none
  else if leB x (lit 0x0000000000000000 /- 0.0 -/) || beq x posInf then none
  else if ltB x (lit 0x3FF0000000000000 /- 1.0 -/) || leB x a then (statrsGammaLr a x).map fun v => (lit 0x3FF0000000000000 /- 1.0 -/) - v
  else
    let ax := a * ln x - x - statrsLnGamma a
    if ltB ax axMin then (if ltB a x then some (lit 0x0000000000000000 /- 0.0 -/) else some (lit 0x3FF0000000000000 /- 1.0 -/))
    else
      let ax := exp ax
      let y := (lit 0x3FF0000000000000 /- 1.0 -/) - a
      let z := x + y + (lit 0x3FF0000000000000 /- 1.0 -/)
      let pkm1 := x + (lit 0x3FF0000000000000 /- 1.0 -/)
      let qkm1 := z * x
      let ans := urFraction loopFuel y z (lit 0x0000000000000000 /- 0.0 -/) (lit 0x3FF0000000000000 /- 1.0 -/) x pkm1 qkm1 (pkm1 / qkm1)
      some (ans * ax)

/-! ## gamma.rs -/

/-- the external functions `inverse_gamma_lr_impl` calls -/
structure GammaExt (φ : Type) where
  gamma : φ → φ
  lr : φ → φ → Option φ
  ur : φ → φ → Option φ

def statrsExt : GammaExt φ := { gamma := statrsGamma, lr := statrsGammaLr, ur := statrsGammaUr }

/-- how `inverse_gamma_lr_impl` returned -/
inductive GExit where
  | nearOne
  | tinyB
  | largeA
  | converged (iterations : Nat)
  | exhausted
  deriving Repr, DecidableEq

/-- the five-term expansion used for very small `b` (`gamma.rs:72-86` and `:144-158`) -/
def tailExpansion (a y : φ) : φ :=
  let c1 := (a - (lit 0x3FF0000000000000 /- 1.0 -/)) * ln y
  let c2 := (a - (lit 0x3FF0000000000000 /- 1.0 -/)) * ((lit 0x3FF0000000000000 /- 1.0 -/) + c1)
  let c3 := (a - (lit 0x3FF0000000000000 /- 1.0 -/)) * ((lit 0xBFE0000000000000 /- -0.5 -/) * c1 * c1 + (a - (lit 0x4000000000000000 /- 2.0 -/)) * c1 + ((lit 0x4008000000000000 /- 3.0 -/) * a - (lit 0x4014000000000000 /- 5.0 -/)) * (lit 0x3FE0000000000000 /- 0.5 -/))
  let c4 := (a - (lit 0x3FF0000000000000 /- 1.0 -/))
    * ((lit 0x3FF0000000000000 /- 1.0 -/) / (lit 0x4008000000000000 /- 3.0 -/) * c1 * c1 * c1 - ((lit 0x4008000000000000 /- 3.0 -/) * a - (lit 0x4014000000000000 /- 5.0 -/)) * (lit 0x3FE0000000000000 /- 0.5 -/) * c1 * c1
        + (a * a - (lit 0x4018000000000000 /- 6.0 -/) * a + (lit 0x401C000000000000 /- 7.0 -/)) * c1
        + ((lit 0x4026000000000000 /- 11.0 -/) * a * a - (lit 0x4047000000000000 /- 46.0 -/) * a + (lit 0x4047800000000000 /- 47.0 -/)) / (lit 0x4018000000000000 /- 6.0 -/))
  let c5 := (a - (lit 0x3FF0000000000000 /- 1.0 -/))
    * ((lit 0xBFD0000000000000 /- -0.25 -/) * c1 * c1 * c1 * c1
        + ((lit 0x4026000000000000 /- 11.0 -/) * a - (lit 0x401C000000000000 /- 7.0 -/)) / (lit 0x4018000000000000 /- 6.0 -/) * c1 * c1 * c1
        + ((lit 0xC008000000000000 /- -3.0 -/) * a * a - (lit 0x402A000000000000 /- 13.0 -/)) * c1 * c1
        + ((lit 0x4000000000000000 /- 2.0 -/) * a * a * a - (lit 0x4039000000000000 /- 25.0 -/) * a * a + (lit 0x4052000000000000 /- 72.0 -/) * a - (lit 0x404E800000000000 /- 61.0 -/)) * (lit 0x3FE0000000000000 /- 0.5 -/) * c1
        + ((lit 0x4039000000000000 /- 25.0 -/) * a * a * a - (lit 0x4068600000000000 /- 195.0 -/) * a * a + (lit 0x407DD00000000000 /- 477.0 -/) * a - (lit 0x4077B00000000000 /- 379.0 -/)) / (lit 0x4028000000000000 /- 12.0 -/))
  y + c1 + c2 / y + c3 / (y * y) + c4 / (y * y * y) + c5 / (y * y * y * y)

/-- starting value: `(x0, none)` or `(value, some exit)` for an early return (`gamma.rs:36-167`) -/
def startValue (ext : GammaExt φ) (a p : φ) : φ × Option GExit :=
  let q := (lit 0x3FF0000000000000 /- 1.0 -/) - p
  if leB ((lit 0x3FF0000000000000 /- 1.0 -/) - (lit 0x3E45798EE2308C3A /- 1.0e-8 -/)) a && leB a ((lit 0x3FF0000000000000 /- 1.0 -/) + (lit 0x3E45798EE2308C3A /- 1.0e-8 -/)) then (-(ln q), some .nearOne) else
  let gammaA := ext.gamma a
  let b := q * gammaA
  let c : φ := (lit 0x3FE2788CFC6FB619 /- 0.5772156649015329 -/)
  if ltB a (lit 0x3FF0000000000000 /- 1.0 -/) then
    if gtB b (lit 0x3FE3333333333333 /- 0.6 -/) || (geB b (lit 0x3FDCCCCCCCCCCCCD /- 0.45 -/) && geB a (lit 0x3FD3333333333333 /- 0.3 -/)) then
      let u := if gtB (b * q) (lit 0x3E7AD7F29ABCAF48 /- 10e-8 -/) then powf (p * ext.gamma (a + (lit 0x3FF0000000000000 /- 1.0 -/))) ((lit 0x3FF0000000000000 /- 1.0 -/) / a) else exp (-q / a - c)
      (u / ((lit 0x3FF0000000000000 /- 1.0 -/) - u / (a + (lit 0x3FF0000000000000 /- 1.0 -/))), none)
    else if ltB a (lit 0x3FD3333333333333 /- 0.3 -/) && (leB (lit 0x3FD6666666666666 /- 0.35 -/) b && leB b (lit 0x3FE3333333333333 /- 0.6 -/)) then
      let t := exp (-c - b)
      let u := t * exp t
      (t * exp u, none)
    else if (leB (lit 0x3FC3333333333333 /- 0.15 -/) b && leB b (lit 0x3FD6666666666666 /- 0.35 -/)) || ((leB (lit 0x3FC3333333333333 /- 0.15 -/) b && ltB b (lit 0x3FDCCCCCCCCCCCCD /- 0.45 -/)) && geB a (lit 0x3FD3333333333333 /- 0.3 -/)) then
      let y := -(ln b)
      let u := y - ((lit 0x3FF0000000000000 /- 1.0 -/) - a) * ln y
      (y - ((lit 0x3FF0000000000000 /- 1.0 -/) - a) * ln y - ln ((lit 0x3FF0000000000000 /- 1.0 -/) + ((lit 0x3FF0000000000000 /- 1.0 -/) - a) / ((lit 0x3FF0000000000000 /- 1.0 -/) + u)), none)
    else if ltB (lit 0x3F847AE147AE147B /- 0.01 -/) b && ltB b (lit 0x3FC3333333333333 /- 0.15 -/) then
      let y := -(ln b)
      let u := y - ((lit 0x3FF0000000000000 /- 1.0 -/) - a) * ln y
      (y - ((lit 0x3FF0000000000000 /- 1.0 -/) - a) * ln u
        - ln ((u * u + (lit 0x4000000000000000 /- 2.0 -/) * ((lit 0x4008000000000000 /- 3.0 -/) - a) * u + ((lit 0x4000000000000000 /- 2.0 -/) - a) * ((lit 0x4008000000000000 /- 3.0 -/) - a)) / (u * u + ((lit 0x4014000000000000 /- 5.0 -/) - a) * u + (lit 0x4000000000000000 /- 2.0 -/))), none)
    else if leB b (lit 0x3F847AE147AE147B /- 0.01 -/) then
      let y := -(ln b)
      let x0 := tailExpansion a y
      if leB b (lit 0x3A1FB0F6BE506019 /- 1.0e-28 -/) then (x0, some .tinyB) else (x0, none)
    else ((lit 0x3FE0000000000000 /- 0.5 -/), none)
  else
    let lo := ltB p (lit 0x3FE0000000000000 /- 0.5 -/)
    let pref : φ := if lo then (lit 0xBFF0000000000000 /- -1.0 -/) else (lit 0x3FF0000000000000 /- 1.0 -/)
    let tau := if lo then p else q
    let t := sqrt ((lit 0xC000000000000000 /- -2.0 -/) * ln tau)
    let t2 := t * t
    let t3 := t2 * t
    let t4 := t3 * t
    let numerator := (lit 0x400A7D75797930DD /- 3.31125922108741 -/) + (lit 0x402752C6AD199457 /- 11.6616720288968 -/) * t + (lit 0x4011223942E712DF /- 4.28342155967104 -/) * t2 + (lit 0x3FCB5803BF955B59 /- 0.213623493715853 -/) * t3
    let denominator := (lit 0x3FF0000000000000 /- 1.0 -/) + (lit 0x401A7130C88A5C3F /- 6.61053765625462 -/) * t + (lit 0x4019A0AE95000DDE /- 6.40691597760039 -/) * t2 + (lit 0x3FF460D978EDD1E0 /- 1.27364489782223 -/) * t3
      + (lit 0x3FA27DF0239B16DF /- 3.611708101884203e-2 -/) * t4
    let s := pref * (t - numerator / denominator)
    let s2 := s * s
    let s3 := s * s2
    let s4 := s * s3
    let s5 := s * s4
    let aSqrt := sqrt a
    let w := a + s * aSqrt + (s2 - (lit 0x3FF0000000000000 /- 1.0 -/)) / (lit 0x4008000000000000 /- 3.0 -/) + (s3 - (lit 0x401C000000000000 /- 7.0 -/) * s) / ((lit 0x4042000000000000 /- 36.0 -/) * aSqrt)
      - ((lit 0x4008000000000000 /- 3.0 -/) * s4 + (lit 0x401C000000000000 /- 7.0 -/) * s2 - (lit 0x4030000000000000 /- 16.0 -/)) / ((lit 0x4089500000000000 /- 810.0 -/) * a)
      + ((lit 0x4022000000000000 /- 9.0 -/) * s5 + (lit 0x4070000000000000 /- 256.0 -/) * s3 - (lit 0x407B100000000000 /- 433.0 -/) * s) / ((lit 0x40E2FC0000000000 /- 38880.0 -/) * a * aSqrt)
    if geB a (lit 0x407F400000000000 /- 500.0 -/) && ltB (Scalar.abs ((lit 0x3FF0000000000000 /- 1.0 -/) - w / a)) (lit 0x3EB0C6F7A0B5ED8D /- 1.0e-6 -/) then (w, some .largeA)
    else if gtB p (lit 0x3FE0000000000000 /- 0.5 -/) then
      if ltB w ((lit 0x4008000000000000 /- 3.0 -/) * a) then (w, none)
      else
        let d := fmax (lit 0x4000000000000000 /- 2.0 -/) (a * (a - (lit 0x3FF0000000000000 /- 1.0 -/)))
        if gtB b (powf (lit 0x4024000000000000 /- 10.0 -/) (-d)) then
          let u := -(ln b) + (a - (lit 0x3FF0000000000000 /- 1.0 -/)) * ln w - ln ((lit 0x3FF0000000000000 /- 1.0 -/) + ((lit 0x3FF0000000000000 /- 1.0 -/) - a) / ((lit 0x3FF0000000000000 /- 1.0 -/) + w))
          (-(ln b) + (a - (lit 0x3FF0000000000000 /- 1.0 -/)) * ln u - ln ((lit 0x3FF0000000000000 /- 1.0 -/) + ((lit 0x3FF0000000000000 /- 1.0 -/) - a) / ((lit 0x3FF0000000000000 /- 1.0 -/) + u)), none)
        else (tailExpansion a (-(ln b)), none)
    else
      let v := ln (p * ext.gamma (a + (lit 0x3FF0000000000000 /- 1.0 -/)))
      (exp ((v + w) / a), none)

/-- the Schröder iteration (`gamma.rs:169-200`); `none` = a panic inside `gamma_lr`/`gamma_ur` -/
def schroeder (ext : GammaExt φ) (a p q gammaA tolEps : φ) : Nat → Nat → φ → Option (φ × GExit)
  | 0, _, xn => some (xn, .exhausted)
  | fuel + 1, k, xn =>
    let r := powf xn (a - (lit 0x3FF0000000000000 /- 1.0 -/)) * exp (-xn) / gammaA
    let xn := if leB xn (lit 0x0000000000000000 /- 0.0 -/) then (lit 0x3C9CD2B297D889BC /- 1.0e-16 -/) else xn
    let errO : Option φ :=
      if leB p (lit 0x3FE0000000000000 /- 0.5 -/) then (ext.lr a xn).map fun v => v - p
      else (ext.ur a xn).map fun v => -(v - q)
    match errO with
    | none => none
    | some err =>
      if ltB (Scalar.abs err) tolEps then some (xn, .converged k)
      else
        let tn := err / r
        let wn := (a - (lit 0x3FF0000000000000 /- 1.0 -/) - xn) / (lit 0x4000000000000000 /- 2.0 -/)
        let hn := if leB (Scalar.abs tn) (lit 0x3FB999999999999A /- 0.1 -/) && leB (Scalar.abs (wn * tn)) (lit 0x3FB999999999999A /- 0.1 -/) then tn + wn * tn * tn else tn
        schroeder ext a p q gammaA tolEps fuel (k + 1) (xn - hn)

/-- `inverse_gamma_lr_impl` -/
def invGammaImpl (ext : GammaExt φ) (a p : φ) (maxIter : Nat) (tol : φ) : Option (φ × GExit) :=
  match startValue ext a p with
  | (v, some e) => some (v, e)
  | (x0, none) =>
    schroeder ext a p ((lit 0x3FF0000000000000 /- 1.0 -/) - p) (ext.gamma a) (tol * (lit 0x3CB0000000000000 /- 2.220446049250313e-16 -/)) maxIter 0 x0

/-- `inverse_gamma_lr` for `T = f64` **after fix `b2abcbe`**: an error unless the quantile is finite and
positive. Outer `none` = panic, inner `none` = `GammaError`. -/
def invGammaLr (ext : GammaExt φ) (a p : φ) (maxIter : Nat) (tol : φ) : Option (Option φ) :=
  match invGammaImpl ext a p maxIter tol with
  | none => none
  | some (r, _) => if isFiniteS r && gtB r (lit 0x0000000000000000 /- 0.0 -/) then some (some r) else some none

end
end Momtrop
