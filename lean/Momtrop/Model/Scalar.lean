/-!
# `Scalar`: the arithmetic interface of the model

Mirrors `trait MomTropFloat` (`/repo/src/float.rs:10-66`) method by method and carries **no laws**.
The model is generic over it; it is instantiated at `Float` in the driver (correspondence with the
Rust `f64` instance, `float.rs:68-124`) and at `ℝ` in the proof files.

The class has **no** `to_f64`: the only narrowing in the code is inside the Gamma draw
(`gamma.rs:11-29`), which the sampling model takes as a parameter (property C19).
-/
namespace Momtrop

class Scalar (α : Type) extends Add α, Sub α, Mul α, Div α, Neg α, LT α, LE α where
  zero : α
  one : α
  pi : α
  sqrt : α → α
  ln : α → α
  exp : α → α
  cos : α → α
  sin : α → α
  abs : α → α
  inv : α → α
  powf : α → α → α
  /-- `from_isize` -/
  ofInt : Int → α
  /-- `from_f64`; the argument is the IEEE-754 binary64 bit pattern -/
  ofF64 : UInt64 → α
  decLe : (a b : α) → Decidable (a ≤ b)
  decLt : (a b : α) → Decidable (a < b)
  /-- `PartialEq::eq` -/
  beq : α → α → Bool

namespace Scalar
variable {α : Type} [Scalar α]

instance (a b : α) : Decidable (a ≤ b) := Scalar.decLe a b
instance (a b : α) : Decidable (a < b) := Scalar.decLt a b

/-- Rust `a >= b` on a `PartialOrd` float type. -/
@[inline] def geB (a b : α) : Bool := decide (b ≤ a)
/-- Rust `a > b`. -/
@[inline] def gtB (a b : α) : Bool := decide (b < a)
/-- Rust `a <= b`. -/
@[inline] def leB (a b : α) : Bool := decide (a ≤ b)
/-- Rust `a < b`. -/
@[inline] def ltB (a b : α) : Bool := decide (a < b)

/-- `acc += t` for each `t` in order, starting from `init` (explicit folds in the code). -/
def sumFrom (init : α) (l : List α) : α := l.foldl (· + ·) init
/-- `acc -= t` for each `t` in order. -/
def subFold (init : α) (l : List α) : α := l.foldl (· - ·) init
/-- `acc *= t` for each `t` in order. -/
def mulFold (init : α) (l : List α) : α := l.foldl (· * ·) init
/-- `Iterator::sum::<f64>()`: in the pinned toolchain the fold starts from `-0.0`. -/
def sumIter (l : List α) : α := l.foldl (· + ·) (-(zero : α))
/-- `Iterator::product::<f64>()`: starts from `1.0`. -/
def prodIter (l : List α) : α := l.foldl (· * ·) (one : α)

end Scalar
end Momtrop
