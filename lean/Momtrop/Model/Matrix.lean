import Momtrop.Model.Scalar
/-!
# Matrix routine (`/repo/src/matrix.rs`)

Square matrices are lists of rows with a total accessor (`zero` outside); every matrix-valued
function is `Mat.ofFn n f` over previously materialised data, and every accumulation is a left
fold in the implementation's order.
-/
namespace Momtrop
open Scalar

abbrev Mat (α : Type) := List (List α)

section
variable {α : Type} [Scalar α]

def Mat.get (M : Mat α) (i j : Nat) : α := (M.getD i []).getD j zero
def Mat.ofFn (n : Nat) (f : Nat → Nat → α) : Mat α :=
  (List.range n).map fun i => (List.range n).map fun j => f i j
def Mat.zeros (n : Nat) : Mat α := Mat.ofFn n fun _ _ => zero
def Mat.flat (M : Mat α) : List α := M.flatten

/-- `&a * &b` (`matrix.rs:38-54`): `result[(r,c)] += a[(r,k)] * b[(k,c)]`, `k` ascending, from zero -/
def Mat.mul (n : Nat) (A B : Mat α) : Mat α :=
  Mat.ofFn n fun r c => sumFrom zero ((List.range n).map fun k => A.get r k * B.get k c)
/-- `&a + &b`, `&a - &b` (`matrix.rs:72-102`) -/
def Mat.add (n : Nat) (A B : Mat α) : Mat α := Mat.ofFn n fun r c => A.get r c + B.get r c
def Mat.sub (n : Nat) (A B : Mat α) : Mat α := Mat.ofFn n fun r c => A.get r c - B.get r c
/-- `new_identity` -/
def Mat.identity (n : Nat) : Mat α := Mat.ofFn n fun r c => if r = c then one else zero

/-- `l21_norm` (`matrix.rs:266-278`): sum over columns of the Euclidean norm of the column -/
def Mat.l21 (n : Nat) (M : Mat α) : α :=
  sumFrom zero ((List.range n).map fun j =>
    sqrt (sumFrom zero ((List.range n).map fun i => M.get i j * M.get i j)))

/-- entry `(j,k)` of `q` read from the already computed columns (`cols[k][j]`) -/
def qEntry (cols : List (List α)) (j k : Nat) : α := (cols.getD k []).getD j zero

/-- column `i` of the Cholesky factor from the columns `< i` (`matrix.rs:135-151`) -/
def newCol (A : Mat α) (n : Nat) (cols : List (List α)) (i : Nat) : List α :=
  let d := sqrt (subFold (A.get i i) ((List.range i).map fun k => qEntry cols i k * qEntry cols i k))
  (List.range n).map fun j =>
    if j < i then zero
    else if j = i then d
    else subFold (A.get i j) ((List.range i).map fun k => qEntry cols i k * qEntry cols j k) / d

def cholCols (A : Mat α) (n : Nat) : Nat → List (List α)
  | 0 => []
  | i + 1 => cholCols A n i ++ [newCol A n (cholCols A n i) i]

/-- the lower-triangular factor `q` of `matrix.rs` -/
def cholQ (A : Mat α) (n : Nat) : Mat α :=
  let cols := cholCols A n n
  Mat.ofFn n fun i j => qEntry cols i j

/-- `det_q`: `one *= q_ii` in order (`matrix.rs:155-162`) -/
def detQ (n : Nat) (Q : Mat α) : α := mulFold one ((List.range n).map fun i => Q.get i i)

/-- `inverse_diagonal_entries` -/
def invDiag (n : Nat) (Q : Mat α) : List α := (List.range n).map fun i => inv (Q.get i i)

/-- `n_matrix`: strictly lower part, `inv_diag[row] * q[(row,col)]` (`matrix.rs:172-178`) -/
def nMatrix (n : Nat) (Q : Mat α) : Mat α :=
  let d := invDiag n Q
  Mat.ofFn n fun r c => if c < r then d.getD r zero * Q.get r c else zero

/-- element `k` of `powers_of_n`: `N^(k+1)` built as `last_power * first_power`
(`matrix.rs:183-194`): `N`, `N·N`, `(N·N)·N`, … -/
def powerN (n : Nat) (N : Mat α) : Nat → Mat α
  | 0 => N
  | k + 1 => Mat.mul n (powerN n N k) N

/-- number of matrices in `powers_of_n`: one push plus `1..dim-1` iterations -/
def numPowers (n : Nat) : Nat := max (n - 1) 1

/-- `n_sum`: alternating fold over `powers_of_n` from the zero matrix, `0 - N + N² - …`
(`matrix.rs:196-206`) -/
def nSum (n : Nat) (N : Mat α) (m : Nat) : Mat α :=
  (List.range m).foldl (fun acc i =>
    if i % 2 = 0 then Mat.sub n acc (powerN n N i) else Mat.add n acc (powerN n N i)) (Mat.zeros n)

/-- `inverse_q` (`matrix.rs:208-214`) -/
def inverseQ (n : Nat) (S : Mat α) (d : List α) : Mat α :=
  Mat.ofFn n fun r c => (if r = c then S.get r c + one else S.get r c) * d.getD c zero

def Mat.transpose (n : Nat) (M : Mat α) : Mat α := Mat.ofFn n fun r c => M.get c r

/-- `DecompositionResult` -/
structure Decomp (α : Type) where
  determinant : α
  inverse : Mat α
  qT : Mat α
  qTInv : Mat α

inductive MatErr where
  | zeroDet
  | unstable
  deriving DecidableEq, Repr

/-- `decompose_for_tropical` (`matrix.rs:123-256`); `tol = some t` is
`matrix_stability_test = Some(t)` already converted with `from_f64`. -/
def decompose (n : Nat) (A : Mat α) (tol : Option α) : Except MatErr (Decomp α) :=
  let Q := cholQ A n
  let dq := detQ n Q
  let det := dq * dq
  if beq dq zero || beq det zero then .error .zeroDet else
  let d := invDiag n Q
  let N := nMatrix n Q
  let S := nSum n N (numPowers n)
  let iq := inverseQ n S d
  let qTInv := Mat.transpose n iq
  let qT := Mat.transpose n Q
  let inverse := Mat.mul n qTInv iq
  let res : Decomp α := { determinant := det, inverse := inverse, qT := qT, qTInv := qTInv }
  match tol with
  | none => .ok res
  | some t =>
    let approxId := Mat.mul n inverse A
    let zeroM := Mat.sub n approxId (Mat.identity n)
    let err := Mat.l21 n zeroM
    if leB err t then .ok res else .error .unstable

end
end Momtrop
