/-!
# Schema-generic model of serde's derive semantics

The schema (struct names, ordered fields, field types) is *data*: it is regenerated from `/repo/src` on every run
(`Momtrop/Generated/SerdeSchema.lean`). `enc`/`dec` implement what `#[derive(Serialize, Deserialize)]` does for a
self-describing format: a struct becomes the map of all its fields by name in declaration order, a `Vec` a sequence, numbers
and booleans themselves (`f64` as its bit pattern: the format "preserves f64 exactly"). The round-trip theorem (Props/C18G)
is proved for EVERY schema, so it applies to whatever the source says now. Core Lean only.
-/
namespace Momtrop.SerdeG

/-- field types the derive semantics is modelled for -/
inductive Ty where
  | nat | int | f64 | bool
  | seq (t : Ty)
  | struct (name : String)
  /-- anything the translator does not recognise -/
  | other (descr : String)
deriving DecidableEq, Repr

abbrev Fields := List (String × Ty)
abbrev Schema := List (String × Fields)

def lookup (S : Schema) (n : String) : Option Fields :=
  match S with
  | [] => none
  | (m, fs) :: rest => if m = n then some fs else lookup rest n

mutual
/-- an in-memory value -/
inductive Data where
  | nat (n : Nat) | int (i : Int) | f64 (bits : Nat) | bool (b : Bool)
  | seq (l : DataList)
  | record (l : DataList)
inductive DataList where
  | nil
  | cons (d : Data) (t : DataList)
end

mutual
/-- the self-describing data model of the format -/
inductive Val where
  | nat (n : Nat) | int (i : Int) | f64 (bits : Nat) | bool (b : Bool)
  | seq (l : ValList)
  | map (l : FieldVals)
  | bad
inductive ValList where
  | nil
  | cons (v : Val) (t : ValList)
inductive FieldVals where
  | nil
  | cons (k : String) (v : Val) (t : FieldVals)
end

mutual
/-- is `d` a value of type `ty` under schema `S`? -/
def hasTy (S : Schema) : Ty → Data → Bool
  | .nat, .nat _ => true
  | .int, .int _ => true
  | .f64, .f64 _ => true
  | .bool, .bool _ => true
  | .seq t, .seq l => hasTyList S t l
  | .struct name, .record l =>
    match lookup S name with
    | some fs => hasTyFields S fs l
    | none => false
  | _, _ => false
def hasTyList (S : Schema) : Ty → DataList → Bool
  | _, .nil => true
  | t, .cons d rest => hasTy S t d && hasTyList S t rest
def hasTyFields (S : Schema) : Fields → DataList → Bool
  | [], .nil => true
  | (_, t) :: fs, .cons d rest => hasTy S t d && hasTyFields S fs rest
  | _, _ => false
end

mutual
/-- derive(Serialize) -/
def enc (S : Schema) : Ty → Data → Val
  | .nat, .nat n => .nat n
  | .int, .int i => .int i
  | .f64, .f64 b => .f64 b
  | .bool, .bool b => .bool b
  | .seq t, .seq l => .seq (encList S t l)
  | .struct name, .record l =>
    match lookup S name with
    | some fs => .map (encFields S fs l)
    | none => .bad
  | _, _ => .bad
def encList (S : Schema) : Ty → DataList → ValList
  | _, .nil => .nil
  | t, .cons d rest => .cons (enc S t d) (encList S t rest)
def encFields (S : Schema) : Fields → DataList → FieldVals
  | (k, t) :: fs, .cons d rest => .cons k (enc S t d) (encFields S fs rest)
  | _, _ => .nil
end

mutual
/-- derive(Deserialize): every declared field must be present, by name, in declaration order -/
def dec (S : Schema) : Ty → Val → Option Data
  | .nat, .nat n => some (.nat n)
  | .int, .int i => some (.int i)
  | .f64, .f64 b => some (.f64 b)
  | .bool, .bool b => some (.bool b)
  | .seq t, .seq l => (decList S t l).map Data.seq
  | .struct name, .map l =>
    match lookup S name with
    | some fs => (decFields S fs l).map Data.record
    | none => none
  | _, _ => none
def decList (S : Schema) : Ty → ValList → Option DataList
  | _, .nil => some .nil
  | t, .cons v rest =>
    match dec S t v, decList S t rest with
    | some d, some ds => some (.cons d ds)
    | _, _ => none
def decFields (S : Schema) : Fields → FieldVals → Option DataList
  | [], .nil => some .nil
  | (k, t) :: fs, .cons k' v rest =>
    if k = k' then
      match dec S t v, decFields S fs rest with
      | some d, some ds => some (.cons d ds)
      | _, _ => none
    else none
  | _, _ => none
end

/-- a type the model covers, with resolvable struct references -/
def tyOk (S : Schema) : Ty → Bool
  | .nat | .int | .f64 | .bool => true
  | .seq t => tyOk S t
  | .struct name => (lookup S name).isSome
  | .other _ => false

/-- every field of every struct has a modelled type -/
def schemaOk (S : Schema) : Bool :=
  S.all fun s => s.2.all fun f => tyOk S f.2

end Momtrop.SerdeG
