import Momtrop.Proofs.Decomp
import Mathlib.Analysis.Matrix.PosDef
/-!
# Positive definite ⇒ all Cholesky pivots positive (so `PivotsPos` is exactly the property's hypothesis)
-/
namespace Momtrop
open Scalar Matrix

/-- `chol_row_dot` needs only the pivot of the smaller index to be positive -/
theorem chol_row_dot' (A : Mat ℝ) (n : Nat) {i j : Nat} (hij : i ≤ j) (hj : j < n) (hpos : 0 < piv A n i) :
    ∑ k ∈ Finset.range (i + 1), q A n i k * q A n j k = A.get i j := by
  have hi : i < n := lt_of_le_of_lt hij hj
  rw [Finset.sum_range_succ]
  have hqii : q A n i i ≠ 0 := by
    rw [q_diag A n hi]; exact (Real.sqrt_pos.mpr hpos).ne'
  rcases Nat.eq_or_lt_of_le hij with rfl | hlt
  · rw [q_diag A n hi, Real.mul_self_sqrt hpos.le]; unfold piv; ring
  · rw [q_lower A n hlt hj]; field_simp; ring

/-- sums of products of factor entries over columns `< k` stop at `min(i,j)` -/
theorem sum_lt_eq (A : Mat ℝ) (n : Nat) {i j k : Nat} (hij : i ≤ j) (hik : i < k) (hk : k ≤ n) :
    ∑ c ∈ Finset.range k, q A n i c * q A n j c = ∑ c ∈ Finset.range (i + 1), q A n i c * q A n j c := by
  symm
  apply Finset.sum_subset
  · intro c hc; simp only [Finset.mem_range] at hc ⊢; omega
  · intro c hc hc'
    simp only [Finset.mem_range] at hc hc'
    rw [q_upper A n (by omega : i < c) (by omega)]; ring

theorem pivotsPos_of_posDef (A : Mat ℝ) (n : Nat) (hpd : (M n A).PosDef) : PivotsPos A n := by
  have hsym : SymmOn A n := by
    intro i j hi hj
    have := congrFun (congrFun hpd.1 ⟨i, hi⟩) ⟨j, hj⟩
    simpa [M_apply, Matrix.conjTranspose_apply] using this.symm
  intro k
  induction k using Nat.strong_induction_on with
  | _ k ih =>
    intro hk
    -- leading block of size k+1
    let ι : Fin (k + 1) → Fin n := fun i => ⟨i, by have := i.2; omega⟩
    have hι : Function.Injective ι := by
      intro a b h; apply Fin.ext; simpa [ι] using congrArg Fin.val h
    have hB : ((M n A).submatrix ι ι).PosDef := hpd.submatrix hι
    have hdet : 0 < ((M n A).submatrix ι ι).det := Matrix.PosDef.det_pos hB
    -- the factorisation  B = R * Dg * Rᵀ
    let R : Matrix (Fin (k + 1)) (Fin (k + 1)) ℝ :=
      fun i c => if (c : ℕ) < k then q A n i c else if i = c then 1 else 0
    let Dg : Matrix (Fin (k + 1)) (Fin (k + 1)) ℝ := diagonal fun c => if (c : ℕ) < k then 1 else piv A n k
    have hfact : (M n A).submatrix ι ι = R * Dg * Rᵀ := by
      ext i j
      have hRD : ∀ (a c : Fin (k + 1)), (R * Dg) a c = R a c * (if (c : ℕ) < k then 1 else piv A n k) := by
        intro a c; simp only [Dg, mul_diagonal]
      rw [submatrix_apply, M_apply, mul_apply]
      simp only [hRD, transpose_apply]
      rw [Fin.sum_univ_castSucc]
      simp only [ι, Fin.val_castSucc, Fin.val_last]
      have hlast : ∀ (a : Fin (k + 1)), R a (Fin.last k) = if a = Fin.last k then 1 else 0 := by
        intro a; simp [R]
      have hcast : ∀ (a : Fin (k + 1)) (c : Fin k), R a (Fin.castSucc c) = q A n a c := by
        intro a c; simp [R]
      simp only [hlast, hcast, Fin.is_lt, if_true, lt_irrefl, if_false, mul_one]
      rw [Finset.sum_fin_eq_sum_range]
      have hsum : ∑ c ∈ Finset.range k, (if h : c < k then q A n i c * q A n j c else 0)
          = ∑ c ∈ Finset.range k, q A n i c * q A n j c := by
        apply Finset.sum_congr rfl; intro c hc
        simp only [Finset.mem_range] at hc; simp [hc]
      rw [hsum]
      have hi := i.2; have hj := j.2
      by_cases hik : (i : ℕ) = k
      · by_cases hjk : (j : ℕ) = k
        · -- (k,k): definition of the pivot
          have e1 : i = Fin.last k := Fin.ext hik
          have e2 : j = Fin.last k := Fin.ext hjk
          subst e1; subst e2
          simp only [if_true, Fin.val_last, mul_one]
          unfold piv; ring
        · have hjlt : (j : ℕ) < k := by omega
          have e1 : i = Fin.last k := Fin.ext hik
          have hne : j ≠ Fin.last k := fun h => hjk (by rw [h]; rfl)
          subst e1
          simp only [if_true, hne, if_false, mul_zero, add_zero, Fin.val_last]
          rw [hsym k j hk (by omega)]
          have := chol_row_dot' A n (Nat.le_of_lt hjlt) hk (ih j hjlt (by omega))
          rw [← this, ← sum_lt_eq A n (Nat.le_of_lt hjlt) hjlt (by omega)]
          apply Finset.sum_congr rfl; intro c _; ring
      · have hilt : (i : ℕ) < k := by omega
        have hne : i ≠ Fin.last k := fun h => hik (by rw [h]; rfl)
        simp only [hne, if_false, zero_mul, add_zero]
        rcases le_total (i : ℕ) j with hle | hle
        · rw [sum_lt_eq A n hle hilt (by omega)]
          exact (chol_row_dot' A n hle (by omega) (ih i hilt (by omega))).symm
        · have hjlt : (j : ℕ) < k := by omega
          rw [hsym i j (by omega) (by omega), ← chol_row_dot' A n hle (by omega) (ih j hjlt (by omega)),
            ← sum_lt_eq A n hle hjlt (by omega)]
          apply Finset.sum_congr rfl; intro c _; ring
    -- determinants
    have hRtri : R.IsLowerTriangular := by
      intro i c hic
      have hic' : (i : ℕ) < c := hic
      simp only [R]
      by_cases hck : (c : ℕ) < k
      · simp only [hck, if_true]
        exact q_upper A n hic' (by omega)
      · have : i ≠ c := fun h => by rw [h] at hic'; exact lt_irrefl _ hic'
        simp [hck, this]
    have hdetR : R.det = ∏ c : Fin (k + 1), R c c := det_of_isLowerTriangular R hRtri
    have hdiag_pos : 0 < ∏ c : Fin (k + 1), R c c := by
      apply Finset.prod_pos
      intro c _
      simp only [R]
      by_cases hck : (c : ℕ) < k
      · simp only [hck, if_true]
        rw [q_diag A n (by omega)]
        exact Real.sqrt_pos.mpr (ih c hck (by omega))
      · simp [hck]
    have hdetD : Dg.det = piv A n k := by
      simp only [Dg, det_diagonal]
      rw [Fin.prod_univ_castSucc]
      simp
    rw [hfact, det_mul, det_mul, det_transpose, hdetR, hdetD] at hdet
    have hsq : 0 < (∏ c : Fin (k + 1), R c c) * (∏ c : Fin (k + 1), R c c) := mul_pos hdiag_pos hdiag_pos
    by_contra hneg
    have hle : piv A n k ≤ 0 := not_lt.mp hneg
    have : (∏ c : Fin (k + 1), R c c) * piv A n k * (∏ c : Fin (k + 1), R c c) ≤ 0 := by
      have : (∏ c : Fin (k + 1), R c c) * piv A n k * (∏ c : Fin (k + 1), R c c)
          = ((∏ c : Fin (k + 1), R c c) * (∏ c : Fin (k + 1), R c c)) * piv A n k := by ring
      rw [this]
      exact mul_nonpos_of_nonneg_of_nonpos hsq.le hle
    linarith

end Momtrop
