import Momtrop.Proofs.Chol
import Mathlib.Algebra.Ring.GeomSum
import Mathlib.LinearAlgebra.Matrix.NonsingularInverse
/-!
# Bridge between the list-of-rows model matrices and Mathlib's `Matrix (Fin n) (Fin n) ℝ`
-/
namespace Momtrop
open Scalar

theorem Mat.ofFn_get (n : Nat) (f : Nat → Nat → ℝ) {i j : Nat} (hi : i < n) (hj : j < n) :
    (Mat.ofFn n f).get i j = f i j := by
  unfold Mat.ofFn Mat.get
  simp [List.getD_eq_getElem?_getD, hi, hj]

/-- the Mathlib view of a model matrix -/
noncomputable def M (n : Nat) (A : Mat ℝ) : Matrix (Fin n) (Fin n) ℝ := toMatrix n A.get

theorem M_apply (n : Nat) (A : Mat ℝ) (i j : Fin n) : M n A i j = A.get i j := rfl

@[simp] theorem M_ofFn_apply (n : Nat) (f : Nat → Nat → ℝ) (i j : Fin n) :
    M n (Mat.ofFn n f) i j = f i j := by
  rw [M_apply, Mat.ofFn_get n f i.2 j.2]

theorem M_mul (n : Nat) (A B : Mat ℝ) : M n (Mat.mul n A B) = M n A * M n B := by
  ext i j
  unfold Mat.mul
  rw [M_ofFn_apply, sumFrom_eq, list_sum_range_eq, Matrix.mul_apply,
    Finset.sum_range (fun k => A.get i k * B.get k j)]
  simp [M_apply]

theorem M_add (n : Nat) (A B : Mat ℝ) : M n (Mat.add n A B) = M n A + M n B := by
  ext i j; unfold Mat.add; rw [M_ofFn_apply]; rfl

theorem M_sub (n : Nat) (A B : Mat ℝ) : M n (Mat.sub n A B) = M n A - M n B := by
  ext i j; unfold Mat.sub; rw [M_ofFn_apply]; rfl

theorem M_transpose (n : Nat) (A : Mat ℝ) : M n (Mat.transpose n A) = (M n A).transpose := by
  ext i j; unfold Mat.transpose; rw [M_ofFn_apply]; rfl

theorem M_identity (n : Nat) : M n (Mat.identity n : Mat ℝ) = 1 := by
  ext i j
  unfold Mat.identity
  rw [M_ofFn_apply, Matrix.one_apply]
  simp [Fin.ext_iff]

theorem M_zeros (n : Nat) : M n (Mat.zeros n : Mat ℝ) = 0 := by
  ext i j; unfold Mat.zeros; rw [M_ofFn_apply]; rfl

end Momtrop
