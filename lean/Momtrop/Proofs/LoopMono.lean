import Momtrop.Proofs.LoopStep
/-!
# When does a removal lower the loop number, and why that is monotone

`loopNumber_drop_iff`: removing `e` from `s` lowers `get_loop_number` by one exactly when `e` closes a cycle with the rest (`Cyc`: it is a
self-loop, or its two end points are joined inside `s.erase e`). `Cyc` is visibly monotone in the rest, hence `bridge_mono`: an edge whose
removal does not lower the loop number of `s₁` does not lower that of any `s₂ ⊆ s₁` either (supermodularity of the cyclomatic number).
`loopNumber_perm`: the loop number depends only on the SET of edges.
-/
namespace Momtrop
open Classical
variable {α : Type}

/-- `e` closes a cycle with `s'`: it is a self-loop, or its two end points are joined inside `s'` -/
def Cyc (top : List (TEdge α)) (s' : List Nat) (e : Nat) : Prop :=
  (endSet top e).card = 1 ∨
  ∃ v1 ∈ endSet top e, ∃ v2 ∈ endSet top e, v1 ≠ v2 ∧
    ∃ h1 ∈ s', ∃ h2 ∈ s', v1 ∈ endSet top h1 ∧ v2 ∈ endSet top h2 ∧ EdgeConn top s' h1 h2

theorem Cyc.mono {top : List (TEdge α)} {s'' s' : List Nat} {e : Nat} (hsub : ∀ x ∈ s'', x ∈ s') (h : Cyc top s'' e) :
    Cyc top s' e := by
  rcases h with h | ⟨v1, hv1, v2, hv2, hne, h1, hh1, h2, hh2, a, b, c⟩
  · exact Or.inl h
  · exact Or.inr ⟨v1, hv1, v2, hv2, hne, h1, hsub h1 hh1, h2, hsub h2 hh2, a, b, edgeConn_subset hsub c⟩

theorem endSet_card_pos (top : List (TEdge α)) (e : Nat) : 0 < (endSet top e).card := by
  apply Finset.card_pos.mpr
  unfold endSet
  exact Finset.insert_nonempty _ _

/-- a cycle through `e`: at most one of "new end point" / "touching class" -/
theorem cyc_le (top : List (TEdge α)) (s' : List Nat) (e : Nat) (h : Cyc top s' e) :
    (endSet top e \ verts top s').card + (clsA top s' e).card ≤ 1 := by
  have hsplit := Finset.card_sdiff_add_card_inter (endSet top e) (verts top s')
  have hA := clsA_card_le top s' e
  rcases h with h | ⟨v1, hv1, v2, hv2, hne, h1, hh1, h2, hh2, hvh1, hvh2, hconn⟩
  · omega
  · -- the end points are exactly v1, v2
    have hpair : endSet top e = {v1, v2} := by
      symm
      apply Finset.eq_of_subset_of_card_le
      · intro v hv
        rcases Finset.mem_insert.mp hv with rfl | hv
        · exact hv1
        · rw [Finset.mem_singleton] at hv; subst hv; exact hv2
      · rw [Finset.card_pair hne]; exact endSet_card_le top e
    have hnew : endSet top e \ verts top s' = ∅ := by
      rw [Finset.sdiff_eq_empty_iff_subset, hpair]
      intro v hv
      unfold verts
      rcases Finset.mem_insert.mp hv with rfl | hv
      · exact Finset.mem_biUnion.mpr ⟨h1, List.mem_toFinset.mpr hh1, hvh1⟩
      · rw [Finset.mem_singleton] at hv; subst hv
        exact Finset.mem_biUnion.mpr ⟨h2, List.mem_toFinset.mpr hh2, hvh2⟩
    have hsub : clsA top s' e ⊆ {cls top s' h1} := by
      intro c hc
      simp only [clsA, Finset.mem_image, Finset.mem_filter, List.mem_toFinset] at hc
      obtain ⟨f, ⟨hf, h, hfh, hh, hhe⟩, rfl⟩ := hc
      rw [Finset.mem_singleton]
      obtain ⟨v, hvh, hve⟩ := (adj_iff_share top h e).mp hhe
      rw [hpair] at hve
      have hh1c : EdgeConn top s' h h1 := by
        rcases Finset.mem_insert.mp hve with rfl | hve
        · exact Relation.ReflTransGen.single ⟨hh, hh1, (adj_iff_share top h h1).mpr ⟨v, hvh, hvh1⟩⟩
        · rw [Finset.mem_singleton] at hve; subst hve
          exact (Relation.ReflTransGen.single ⟨hh, hh2, (adj_iff_share top h h2).mpr ⟨v, hvh, hvh2⟩⟩ :
            EdgeConn top s' h h2).trans hconn.symm
      exact cls_eq_of_conn (hfh.trans hh1c)
    have := Finset.card_le_card hsub
    rw [Finset.card_singleton] at this
    rw [hnew, Finset.card_empty]
    omega

/-- no cycle through `e`: both end points are new or sit in different classes -/
theorem nocyc_ge (top : List (TEdge α)) (s' : List Nat) (e : Nat) (h : ¬ Cyc top s' e) :
    2 ≤ (endSet top e \ verts top s').card + (clsA top s' e).card := by
  have hsplit := Finset.card_sdiff_add_card_inter (endSet top e) (verts top s')
  have hle2 := endSet_card_le top e
  have hpos := endSet_card_pos top e
  have hcard : (endSet top e).card = 2 := by
    have : (endSet top e).card ≠ 1 := fun h1 => h (Or.inl h1)
    omega
  have hex : ∀ v ∈ endSet top e ∩ verts top s', ∃ h, h ∈ s' ∧ v ∈ endSet top h := by
    intro v hv
    rw [Finset.mem_inter] at hv
    obtain ⟨h, hh, hvh⟩ := Finset.mem_biUnion.mp hv.2
    exact ⟨h, List.mem_toFinset.mp hh, hvh⟩
  let ψ : Nat → Finset Nat := fun v =>
    if hv : v ∈ endSet top e ∩ verts top s' then cls top s' (Classical.choose (hex v hv)) else ∅
  have hψ : ∀ v (hv : v ∈ endSet top e ∩ verts top s'), ∃ h, h ∈ s' ∧ v ∈ endSet top h ∧ ψ v = cls top s' h := by
    intro v hv
    refine ⟨Classical.choose (hex v hv), (Classical.choose_spec (hex v hv)).1, (Classical.choose_spec (hex v hv)).2, ?_⟩
    simp only [ψ, dif_pos hv]
  have hge : (endSet top e ∩ verts top s').card ≤ (clsA top s' e).card := by
    apply Finset.card_le_card_of_injOn ψ
    · intro v hv
      have hv : v ∈ endSet top e ∩ verts top s' := Finset.mem_coe.mp hv
      obtain ⟨h', hh, hvh, hψv⟩ := hψ v hv
      rw [Finset.mem_coe, hψv]
      simp only [clsA, Finset.mem_image, Finset.mem_filter, List.mem_toFinset]
      exact ⟨h', ⟨hh, h', Relation.ReflTransGen.refl, hh,
        (adj_iff_share top h' e).mpr ⟨v, hvh, (Finset.mem_inter.mp hv).1⟩⟩, rfl⟩
    · intro v1 hv1 v2 hv2 heq
      have hv1 : v1 ∈ endSet top e ∩ verts top s' := Finset.mem_coe.mp hv1
      have hv2 : v2 ∈ endSet top e ∩ verts top s' := Finset.mem_coe.mp hv2
      by_contra hne
      obtain ⟨h1, hh1, hvh1, e1⟩ := hψ v1 hv1
      obtain ⟨h2, hh2, hvh2, e2⟩ := hψ v2 hv2
      rw [e1, e2] at heq
      have : h2 ∈ cls top s' h1 := by rw [heq]; exact self_mem_cls hh2
      exact h (Or.inr ⟨v1, (Finset.mem_inter.mp hv1).1, v2, (Finset.mem_inter.mp hv2).1, hne, h1, hh1, h2, hh2, hvh1, hvh2,
        (mem_cls.mp this).2⟩)
  omega

/-- **A removal lowers the loop number exactly when the removed edge closes a cycle with the rest.** -/
theorem loopNumber_drop_iff (top : List (TEdge α)) (s : List Nat) (hs : s.Nodup) (hvalid : ∀ x ∈ s, x < top.length)
    (e : Nat) (he : e ∈ s) :
    loopNumber top s = loopNumber top (s.erase e) + 1 ↔ Cyc top (s.erase e) e := by
  have h1 := loopNumber_erase_eq top s hs hvalid e he
  have h2 := step_bounds top (s.erase e) e
  constructor
  · intro h
    by_contra hc
    have := nocyc_ge top (s.erase e) e hc
    omega
  · intro h
    have := cyc_le top (s.erase e) e h
    omega

/-- **Supermodularity**: an edge whose removal does not lower the loop number of `s₁` does not lower that of a subset `s₂` -/
theorem bridge_mono (top : List (TEdge α)) (s1 s2 : List Nat) (hs1 : s1.Nodup) (hs2 : s2.Nodup)
    (hvalid : ∀ x ∈ s1, x < top.length) (hsub : ∀ x ∈ s2, x ∈ s1) (e : Nat) (he : e ∈ s2)
    (h : loopNumber top s1 = loopNumber top (s1.erase e)) : loopNumber top s2 = loopNumber top (s2.erase e) := by
  have hvalid2 : ∀ x ∈ s2, x < top.length := fun x hx => hvalid x (hsub x hx)
  rcases loopNumber_erase top s2 hs2 hvalid2 e he with h2 | h2
  · exact h2
  · exfalso
    have hc := (loopNumber_drop_iff top s2 hs2 hvalid2 e he).mp h2
    have hsub' : ∀ x ∈ s2.erase e, x ∈ s1.erase e := by
      intro x hx
      rw [hs2.mem_erase_iff] at hx
      rw [hs1.mem_erase_iff]
      exact ⟨hx.1, hsub x hx.2⟩
    have := (loopNumber_drop_iff top s1 hs1 hvalid e (hsub e he)).mpr (hc.mono hsub')
    omega

theorem cls_congr (top : List (TEdge α)) (s1 s2 : List Nat) (h : ∀ x, x ∈ s1 ↔ x ∈ s2) (f : Nat) :
    cls top s1 f = cls top s2 f := by
  ext x
  rw [mem_cls, mem_cls, h x]
  exact ⟨fun ⟨a, b⟩ => ⟨a, edgeConn_subset (fun y hy => (h y).mp hy) b⟩,
    fun ⟨a, b⟩ => ⟨a, edgeConn_subset (fun y hy => (h y).mpr hy) b⟩⟩

/-- the loop number depends only on the set of edges -/
theorem loopNumber_perm (top : List (TEdge α)) (s1 s2 : List Nat) (hs1 : s1.Nodup) (hs2 : s2.Nodup)
    (hvalid : ∀ x ∈ s1, x < top.length) (h : ∀ x, x ∈ s1 ↔ x ∈ s2) : loopNumber top s1 = loopNumber top s2 := by
  have c1 := loopNumber_cyclomatic top s1 hs1 hvalid
  have c2 := loopNumber_cyclomatic top s2 hs2 (fun x hx => hvalid x ((h x).mpr hx))
  rw [componentLists_length top s1 hs1] at c1
  rw [componentLists_length top s2 hs2] at c2
  have hv := verts_perm top h
  have hl : s1.length = s2.length := ((List.perm_ext_iff_of_nodup hs1 hs2).mpr h).length_eq
  have hc : classes top s1 = classes top s2 := by
    unfold classes
    have : s1.toFinset = s2.toFinset := by ext x; simp [h x]
    rw [this]
    apply Finset.image_congr
    intro f _
    exact cls_congr top s1 s2 h f
  rw [hv, hl, hc] at c1
  omega

end Momtrop
