import Momtrop.Model.Sample
import Momtrop.Proofs.MatBridge
import Momtrop.Props.C20
/-!
# The kinematic part of `sample` in exact arithmetic: `L` matrix, `u` vectors, `V`, loop momenta
-/
namespace Momtrop
open Scalar Matrix

/-! ## abstract linear algebra (completing the square) -/
section Abstract
variable {E L : ℕ}

/-- the `L` matrix as `Sᵀ · diag(x) · S` -/
noncomputable def lMat (S : Matrix (Fin E) (Fin L) ℝ) (x : Fin E → ℝ) : Matrix (Fin L) (Fin L) ℝ :=
  Sᵀ * diagonal x * S

/-- one spatial component of the `u` vectors -/
noncomputable def uVec (S : Matrix (Fin E) (Fin L) ℝ) (x : Fin E → ℝ) (p : Fin E → ℝ) : Fin L → ℝ :=
  Sᵀ *ᵥ (diagonal x *ᵥ p)

theorem lMat_apply (S : Matrix (Fin E) (Fin L) ℝ) (x : Fin E → ℝ) (i j : Fin L) :
    lMat S x i j = ∑ e, x e * S e i * S e j := by
  simp only [lMat, mul_apply, transpose_apply, diagonal_apply, mul_ite, mul_zero,
    Finset.sum_ite_eq', Finset.mem_univ, if_true]
  exact Finset.sum_congr rfl fun e _ => by ring

theorem lMat_symm (S : Matrix (Fin E) (Fin L) ℝ) (x : Fin E → ℝ) : (lMat S x)ᵀ = lMat S x := by
  ext i j; simp only [transpose_apply, lMat_apply]; exact Finset.sum_congr rfl fun e _ => by ring

theorem uVec_apply (S : Matrix (Fin E) (Fin L) ℝ) (x p : Fin E → ℝ) (l : Fin L) :
    uVec S x p l = ∑ e, S e l * x e * p e := by
  simp only [uVec, mulVec, dotProduct, transpose_apply, diagonal_apply, ite_mul, zero_mul,
    Finset.sum_ite_eq, Finset.mem_univ, if_true]
  exact Finset.sum_congr rfl fun e _ => by ring

/-- expansion of the weighted propagator sum (one spatial component) -/
theorem propSum_expand (S : Matrix (Fin E) (Fin L) ℝ) (x p : Fin E → ℝ) (k : Fin L → ℝ) :
    (S *ᵥ k + p) ⬝ᵥ (diagonal x *ᵥ (S *ᵥ k + p))
      = k ⬝ᵥ (lMat S x *ᵥ k) + 2 * (k ⬝ᵥ uVec S x p) + p ⬝ᵥ (diagonal x *ᵥ p) := by
  have h1 : (S *ᵥ k) ⬝ᵥ (diagonal x *ᵥ (S *ᵥ k)) = k ⬝ᵥ (lMat S x *ᵥ k) := by
    simp only [lMat, ← mulVec_mulVec]
    rw [dotProduct_mulVec k Sᵀ, vecMul_transpose]
  have h2 : (S *ᵥ k) ⬝ᵥ (diagonal x *ᵥ p) = k ⬝ᵥ uVec S x p := by
    simp only [uVec]
    rw [dotProduct_mulVec k Sᵀ, vecMul_transpose]
  have h3 : p ⬝ᵥ (diagonal x *ᵥ (S *ᵥ k)) = k ⬝ᵥ uVec S x p := by
    rw [← h2]
    simp only [dotProduct, mulVec_diagonal]
    exact Finset.sum_congr rfl fun e _ => by ring
  rw [mulVec_add, add_dotProduct, dotProduct_add, dotProduct_add, h1, h2, h3]
  ring

/-- **Completing the square**: with `Li` a right inverse of the `L` matrix -/
theorem complete_the_square (S : Matrix (Fin E) (Fin L) ℝ) (x p : Fin E → ℝ) (k : Fin L → ℝ)
    (Li : Matrix (Fin L) (Fin L) ℝ) (hinv : lMat S x * Li = 1) :
    (S *ᵥ k + p) ⬝ᵥ (diagonal x *ᵥ (S *ᵥ k + p))
      = (k + Li *ᵥ uVec S x p) ⬝ᵥ (lMat S x *ᵥ (k + Li *ᵥ uVec S x p))
        + (p ⬝ᵥ (diagonal x *ᵥ p) - uVec S x p ⬝ᵥ (Li *ᵥ uVec S x p)) := by
  rw [propSum_expand]
  set u := uVec S x p
  set M := lMat S x
  set w := Li *ᵥ u
  have hMw : M *ᵥ w = u := by simp only [w]; rw [mulVec_mulVec, hinv, one_mulVec]
  have hsymM : Mᵀ = M := lMat_symm S x
  have hwMk : w ⬝ᵥ (M *ᵥ k) = k ⬝ᵥ u := by
    rw [dotProduct_mulVec, ← mulVec_transpose, hsymM, hMw, dotProduct_comm]
  have hwu : w ⬝ᵥ u = u ⬝ᵥ w := dotProduct_comm _ _
  rw [mulVec_add, add_dotProduct, dotProduct_add, dotProduct_add, hMw, hwMk, hwu]
  ring

/-- at `k = c·Q⁻ᵀ q − L⁻¹ u` with `Q⁻¹ L Q⁻ᵀ = 1`: the quadratic form is `c²·|q|²` -/
theorem quadratic_at_sample (Lm Qti : Matrix (Fin L) (Fin L) ℝ) (q : Fin L → ℝ) (c : ℝ)
    (h : Qtiᵀ * Lm * Qti = 1) :
    (c • (Qti *ᵥ q)) ⬝ᵥ (Lm *ᵥ (c • (Qti *ᵥ q))) = c ^ 2 * (q ⬝ᵥ q) := by
  rw [mulVec_smul, smul_dotProduct, dotProduct_smul, smul_eq_mul, smul_eq_mul]
  have hT : ∀ (A : Matrix (Fin L) (Fin L) ℝ) (a y : Fin L → ℝ), (A *ᵥ a) ⬝ᵥ y = a ⬝ᵥ (Aᵀ *ᵥ y) := by
    intro A a y
    rw [dotProduct_comm, dotProduct_mulVec, ← mulVec_transpose, dotProduct_comm]
  have : (Qti *ᵥ q) ⬝ᵥ (Lm *ᵥ (Qti *ᵥ q)) = q ⬝ᵥ q := by
    rw [hT, mulVec_mulVec, mulVec_mulVec, h, one_mulVec]
  rw [this]; ring

end Abstract

/-! ## the model's functions as these matrices -/
section Concrete
variable (x : List ℝ) (S : List (List Int))

/-- signature as a real matrix (`E × L`) -/
noncomputable def Sm : Matrix (Fin S.length) (Fin (S.getD 0 []).length) ℝ := fun e l => (sigGet S e l : ℝ)
/-- Feynman parameters as a vector -/
noncomputable def xv : Fin S.length → ℝ := fun e => x.getD e 0

theorem upper_eq (i j : Nat) :
    sumFrom (zero : ℝ) ((List.range S.length).map fun e => ofInt (sigGet S e i * sigGet S e j) * x.getD e zero)
      = ∑ e ∈ Finset.range S.length, x.getD e 0 * (sigGet S e i : ℝ) * (sigGet S e j : ℝ) := by
  rw [sumFrom_eq, list_sum_range_eq, zero_real, zero_add]
  apply Finset.sum_congr rfl
  intro e _
  simp only [ofInt_real, zero_real]
  push_cast; ring

/-- **`L_ij = Σ_e x_e s_ei s_ej`** -/
theorem lMatrix_get {i j : Nat} (hi : i < (S.getD 0 []).length) (hj : j < (S.getD 0 []).length) :
    (lMatrix x S).get i j = ∑ e ∈ Finset.range S.length, x.getD e 0 * (sigGet S e i : ℝ) * (sigGet S e j : ℝ) := by
  unfold lMatrix
  simp only
  rw [Mat.ofFn_get _ _ hi hj]
  by_cases h : i ≤ j
  · simp only [h, if_true]; exact upper_eq x S i j
  · simp only [h, if_false]
    rw [upper_eq x S j i]
    apply Finset.sum_congr rfl; intro e _; ring

theorem M_lMatrix : M (S.getD 0 []).length (lMatrix x S) = lMat (Sm S) (xv x S) := by
  ext i j
  rw [M_apply, lMatrix_get x S i.2 j.2, lMat_apply, Finset.sum_range]
  rfl

/-! ### vectors -/

theorem smul_get_real (v : Vec ℝ) (s : ℝ) (i : Nat) : (Vec.smul v s).get i = v.get i * s := by
  unfold Vec.smul Vec.get
  by_cases h : i < v.length
  · simp [List.getD_eq_getElem?_getD, h]
  · simp [List.getD_eq_getElem?_getD, h]

theorem zeros_get_real (D i : Nat) : (Vec.zeros D : Vec ℝ).get i = 0 := C20.zeros_get D i

/-- component `i` of a sum of vectors accumulated with `&acc + &v` from the zero vector -/
theorem fold_add_get (D : Nat) (f : Nat → Vec ℝ) (n : Nat) {i : Nat} (hi : i < D) :
    ((List.range n).foldl (fun acc e => Vec.add D acc (f e)) (Vec.zeros D)).get i
      = ∑ e ∈ Finset.range n, (f e).get i := by
  induction n with
  | zero => simp [zeros_get_real]
  | succ n ih =>
    rw [List.range_succ, List.foldl_append, List.foldl_cons, List.foldl_nil, C20.add_get D _ _ hi, ih,
      Finset.sum_range_succ]

/-- shifts, one spatial component, as a vector over the edges -/
noncomputable def pv (S : List (List Int)) (shifts : List (Vec ℝ)) (i : Nat) : Fin S.length → ℝ :=
  fun e => (shifts.getD e []).get i

/-- **`u_l = Σ_e s_el x_e p_e`** (component `i`) -/
theorem uVectors_get (D : Nat) (shifts : List (Vec ℝ)) {l i : Nat} (hl : l < (S.getD 0 []).length) (hi : i < D) :
    ((uVectors D x S shifts).getD l []).get i
      = ∑ e ∈ Finset.range S.length, (sigGet S e l : ℝ) * x.getD e 0 * (shifts.getD e []).get i := by
  unfold uVectors
  simp only
  rw [List.getD_eq_getElem?_getD, List.getElem?_map, List.getElem?_range hl]
  simp only [Option.map_some, Option.getD_some]
  rw [fold_add_get D _ _ hi]
  apply Finset.sum_congr rfl
  intro e _
  rw [smul_get_real]
  simp only [ofInt_real, zero_real]
  ring

theorem uVectors_eq_uVec (D : Nat) (shifts : List (Vec ℝ)) {i : Nat} (hi : i < D)
    (l : Fin (S.getD 0 []).length) :
    ((uVectors D x S shifts).getD l []).get i = uVec (Sm S) (xv x S) (pv S shifts i) l := by
  rw [uVectors_get x S D shifts l.2 hi, uVec_apply, Finset.sum_range]
  rfl

/-! ### sums -/

theorem foldl_add_range (f : Nat → ℝ) (n : Nat) (a : ℝ) :
    (List.range n).foldl (fun acc i => acc + f i) a = a + ∑ i ∈ Finset.range n, f i := by
  induction n with
  | zero => simp
  | succ n ih => rw [List.range_succ, List.foldl_append, List.foldl_cons, List.foldl_nil, ih, Finset.sum_range_succ]; ring

theorem dot_eq_sum (v w : Vec ℝ) (h : v.length = w.length) :
    Vec.dot v w = ∑ i ∈ Finset.range v.length, v.get i * w.get i := by
  rw [C20.dot_eq_range_fold v w h, foldl_add_range]; simp

theorem squared_eq_sum (v : Vec ℝ) : Vec.squared v = ∑ i ∈ Finset.range v.length, v.get i * v.get i := by
  rw [C20.squared_eq_dot, dot_eq_sum v v rfl]

theorem zip3_eq_range (E : Nat) (a b : List ℝ) (c : List (Vec ℝ)) (ha : a.length = E) (hb : b.length = E)
    (hc : c.length = E) :
    a.zip (b.zip c) = (List.range E).map fun e => (a.getD e 0, (b.getD e 0, c.getD e [])) := by
  apply List.ext_getElem
  · simp [ha, hb, hc]
  · intro i h1 h2
    have hi : i < E := by simpa using h2
    simp [List.getD_eq_getElem?_getD, ha, hb, hc, hi]

theorem sum_flatMap' {β : Type} (l : List β) (f : β → List ℝ) :
    (l.flatMap f).sum = (l.map fun a => (f a).sum).sum := by
  induction l with
  | nil => simp
  | cons a as ih => simp [List.flatMap_cons, List.sum_append, ih]

theorem sum_flatMap_pairs (n : Nat) (t : Nat → Nat → ℝ) :
    ((List.range n).flatMap fun i => ((List.range n).filter (fun j => i < j)).map fun j => t i j).sum
      = ∑ i ∈ Finset.range n, ∑ j ∈ Finset.range n, if i < j then t i j else 0 := by
  rw [sum_flatMap', list_sum_range_eq]
  apply Finset.sum_congr rfl
  intro i _
  rw [← list_sum_range_eq]
  induction (List.range n) with
  | nil => simp
  | cons j js ih =>
    by_cases h : i < j <;> simp [List.filter_cons, h, ih]

/-- **The `V` polynomial** (`compute_v_polynomial`) in exact arithmetic:
`Σ_e x_e (m_e² + |p_e|²) − Σ_l |u_l|² L⁻¹_ll − Σ_{i<j} 2 (u_i·u_j) L⁻¹_ij`. -/
theorem vPolynomial_eq (E nL : Nat) (xs ms : List ℝ) (u sh : List (Vec ℝ)) (Linv : Mat ℝ)
    (hx : xs.length = E) (hm : ms.length = E) (hs : sh.length = E) :
    vPolynomial xs u Linv nL sh ms
      = (∑ e ∈ Finset.range E, (ms.getD e 0 * ms.getD e 0 + Vec.squared (sh.getD e [])) * xs.getD e 0)
        - (∑ l ∈ Finset.range nL, Vec.squared (u.getD l []) * Linv.get l l)
        - ∑ i ∈ Finset.range nL, ∑ j ∈ Finset.range nL,
            if i < j then 2 * Vec.dot (u.getD i []) (u.getD j []) * Linv.get i j else 0 := by
  unfold vPolynomial
  simp only
  rw [subFold_eq, subFold_eq, sumFrom_eq, zip3_eq_range E xs ms sh hx hm hs, List.map_map,
    list_sum_range_eq, list_sum_range_eq, sum_flatMap_pairs]
  simp only [zero_real, zero_add, ofInt_real, Function.comp]
  push_cast
  ring

/-! ### loop momenta -/

theorem fold_addsub_get (D : Nat) (f g : Nat → Vec ℝ) (n : Nat) {i : Nat} (hi : i < D) :
    ((List.range n).foldl (fun acc e => Vec.sub D (Vec.add D acc (f e)) (g e)) (Vec.zeros D)).get i
      = ∑ e ∈ Finset.range n, ((f e).get i - (g e).get i) := by
  induction n with
  | zero => simp [zeros_get_real]
  | succ n ih =>
    rw [List.range_succ, List.foldl_append, List.foldl_cons, List.foldl_nil, C20.sub_get D _ _ hi,
      C20.add_get D _ _ hi, ih, Finset.sum_range_succ]
    ring

theorem zip_zipIdx_eq_range (n : Nat) (q u : List (Vec ℝ)) (hq : q.length = n) (hu : u.length = n) :
    (q.zip u).zipIdx = (List.range n).map fun l => ((q.getD l [], u.getD l []), l) := by
  apply List.ext_getElem
  · simp [hq, hu]
  · intro i h1 h2
    have hi : i < n := by simpa using h2
    simp [List.getD_eq_getElem?_getD, hq, hu, hi]

/-- **Loop momenta** (`compute_loop_momenta`), component `i` of loop `l`:
`k_l = Σ_{l'} ( q_{l'}·(c·Q⁻ᵀ_{l l'}) − u_{l'}·L⁻¹_{l l'} )`, `c = sqrt(v/λ/2)`. -/
theorem loopMomenta_get (D nL : Nat) (v lam : ℝ) (qTInv Linv : Mat ℝ) (q u : List (Vec ℝ))
    (hq : q.length = nL) (hu : u.length = nL) {l i : Nat} (hl : l < nL) (hi : i < D) :
    ((loopMomenta D v lam qTInv nL q Linv u).getD l []).get i
      = ∑ l' ∈ Finset.range nL, ((q.getD l' []).get i * (Real.sqrt (v / lam / 2) * qTInv.get l l')
          - (u.getD l' []).get i * Linv.get l l') := by
  unfold loopMomenta
  simp only
  rw [List.getD_eq_getElem?_getD, List.getElem?_map, List.getElem?_range hl]
  simp only [Option.map_some, Option.getD_some]
  rw [zip_zipIdx_eq_range nL q u hq hu, List.foldl_map]
  rw [fold_addsub_get D (fun l' => Vec.smul (q.getD l' []) (sqrt (v / lam / ofInt 2) * qTInv.get l l'))
      (fun l' => Vec.smul (u.getD l' []) (Linv.get l l')) nL hi]
  apply Finset.sum_congr rfl
  intro l' _
  rw [smul_get_real, smul_get_real]
  simp only [sqrt_real, ofInt_real]
  norm_num

/-- `Metadata.shift` (`compute_only_shift`): `(L⁻¹ u)_l`, component `i` -/
theorem onlyShift_get (D nL : Nat) (Linv : Mat ℝ) (u : List (Vec ℝ)) (hu : u.length = nL)
    {l i : Nat} (hl : l < nL) (hi : i < D) :
    ((onlyShift D Linv nL u).getD l []).get i = ∑ l' ∈ Finset.range nL, (u.getD l' []).get i * Linv.get l l' := by
  unfold onlyShift
  rw [List.getD_eq_getElem?_getD, List.getElem?_map, List.getElem?_range hl]
  simp only [Option.map_some, Option.getD_some]
  have hz : u.zipIdx = (List.range nL).map fun l' => (u.getD l' [], l') := by
    apply List.ext_getElem
    · simp [hu]
    · intro j h1 h2
      have hj : j < nL := by simpa using h2
      simp [List.getD_eq_getElem?_getD, hu, hj]
  rw [hz, List.foldl_map, fold_add_get D (fun l' => Vec.smul (u.getD l' []) (Linv.get l l')) nL hi]
  apply Finset.sum_congr rfl
  intro l' _
  rw [smul_get_real]

end Concrete
end Momtrop
