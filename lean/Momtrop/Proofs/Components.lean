import Momtrop.Model.Graph
import Mathlib.Logic.Relation
import Mathlib.Data.List.Sublists
import Mathlib.Data.List.Basic
/-!
# The edge-adjacency search (`get_connected_components`): invariants of one component search
-/
namespace Momtrop
variable {α : Type}

theorem adj_refl (top : List (TEdge α)) (e : Nat) : adj top e e = true := by
  simp [adj, containsVertex]

/-- adjacency inside the subgraph `s` -/
def AdjIn (top : List (TEdge α)) (s : List Nat) (e f : Nat) : Prop := e ∈ s ∧ f ∈ s ∧ adj top e f = true

/-- `e` and `f` are connected by a chain of pairwise adjacent edges of `s` -/
def EdgeConn (top : List (TEdge α)) (s : List Nat) (e f : Nat) : Prop :=
  Relation.ReflTransGen (AdjIn top s) e f

theorem mem_grow {top : List (TEdge α)} {s comp : List Nat} {f : Nat} :
    f ∈ grow top s comp ↔ f ∈ s ∧ ∃ e ∈ comp, adj top e f = true := by
  simp [grow]

theorem subset_grow {top : List (TEdge α)} {s comp : List Nat} (h : ∀ e ∈ comp, e ∈ s) :
    ∀ e ∈ comp, e ∈ grow top s comp := by
  intro e he
  exact mem_grow.mpr ⟨h e he, e, he, adj_refl top e⟩

/-- invariant of the search: members of `s`, all reachable from the seed -/
structure SearchInv (top : List (TEdge α)) (s : List Nat) (seed : Nat) (comp : List Nat) : Prop where
  sub : ∀ e ∈ comp, e ∈ s
  reach : ∀ e ∈ comp, EdgeConn top s seed e

theorem SearchInv.grow {top : List (TEdge α)} {s : List Nat} {seed : Nat} {comp : List Nat}
    (h : SearchInv top s seed comp) : SearchInv top s seed (grow top s comp) where
  sub := fun e he => (mem_grow.mp he).1
  reach := fun f hf => by
    obtain ⟨hfs, e, he, hadj⟩ := mem_grow.mp hf
    exact (h.reach e he).tail ⟨h.sub e he, hfs, hadj⟩

theorem closure_inv (top : List (TEdge α)) (s : List Nat) (seed : Nat) :
    ∀ fuel comp, SearchInv top s seed comp → SearchInv top s seed (closure top s fuel comp) := by
  intro fuel
  induction fuel with
  | zero => intro comp h; exact h
  | succ fuel ih =>
    intro comp h
    unfold closure
    simp only
    split
    · exact h
    · exact ih _ h.grow

theorem closure_mono (top : List (TEdge α)) (s : List Nat) :
    ∀ fuel comp, (∀ e ∈ comp, e ∈ s) → ∀ e ∈ comp, e ∈ closure top s fuel comp := by
  intro fuel
  induction fuel with
  | zero => intro comp _ e he; exact he
  | succ fuel ih =>
    intro comp hs e he
    unfold closure
    simp only
    split
    · exact he
    · exact ih _ (fun e he => (mem_grow.mp he).1) e (subset_grow hs e he)

/-- with enough fuel the result is closed under adjacency in `s` -/
theorem closure_closed (top : List (TEdge α)) (s : List Nat) (hs : s.Nodup) :
    ∀ fuel comp, comp.Nodup → (∀ e ∈ comp, e ∈ s) → s.length < fuel + comp.length →
      ∀ e ∈ closure top s fuel comp, ∀ f ∈ s, adj top e f = true → f ∈ closure top s fuel comp := by
  intro fuel
  induction fuel with
  | zero =>
    intro comp hnd hsub hlen
    have : comp.length ≤ s.length := List.Subperm.length_le (List.subperm_of_subset hnd hsub)
    omega
  | succ fuel ih =>
    intro comp hnd hsub hlen e he f hf hadj
    unfold closure at he ⊢
    simp only at he ⊢
    have hgn : (grow top s comp).Nodup := hs.filter _
    have hcg : comp.length ≤ (grow top s comp).length :=
      List.Subperm.length_le (List.subperm_of_subset hnd (subset_grow hsub))
    split at he
    · next heq =>
      rw [if_pos heq]
      have hperm : comp.Perm (grow top s comp) :=
        (List.subperm_of_subset hnd (subset_grow hsub)).perm_of_length_le (by omega)
      have : f ∈ grow top s comp := mem_grow.mpr ⟨hf, e, he, hadj⟩
      exact hperm.mem_iff.mpr this
    · next hne =>
      rw [if_neg hne]
      have hlt : comp.length < (grow top s comp).length := lt_of_le_of_ne hcg (Ne.symm hne)
      exact ih _ hgn (fun e he => (mem_grow.mp he).1) (by omega) e he f hf hadj

theorem closure_nodup (top : List (TEdge α)) (s : List Nat) (hs : s.Nodup) :
    ∀ fuel comp, comp.Nodup → (closure top s fuel comp).Nodup := by
  intro fuel
  induction fuel with
  | zero => intro comp h; exact h
  | succ fuel ih =>
    intro comp h
    unfold closure
    simp only
    split
    · exact h
    · exact ih _ (hs.filter _)

/-- **One component search is exact**: the set found from `seed ∈ s` (fuel `|s|+1`, as the model
uses) is precisely the set of edges of `s` connected to `seed` by chains of adjacent edges. -/
theorem closure_eq_conn (top : List (TEdge α)) (s : List Nat) (hs : s.Nodup) (seed : Nat) (hseed : seed ∈ s)
    (f : Nat) : f ∈ closure top s (s.length + 1) [seed] ↔ EdgeConn top s seed f := by
  have hinv : SearchInv top s seed [seed] :=
    ⟨fun e he => by simp at he; subst he; exact hseed,
     fun e he => by simp at he; subst he; exact Relation.ReflTransGen.refl⟩
  constructor
  · intro hf
    exact (closure_inv top s seed _ _ hinv).reach f hf
  · intro hconn
    have hclosed := closure_closed top s hs (s.length + 1) [seed] (by simp)
      (fun e he => by simp at he; subst he; exact hseed) (by simp only [List.length_singleton]; omega)
    have hseedmem : seed ∈ closure top s (s.length + 1) [seed] :=
      closure_mono top s _ _ (fun e he => by simp at he; subst he; exact hseed) seed (by simp)
    induction hconn with
    | refl => exact hseedmem
    | tail _ hstep ih => exact hclosed _ ih _ hstep.2.1 hstep.2.2

end Momtrop
