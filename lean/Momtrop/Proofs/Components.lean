import Momtrop.Model.Graph
import Mathlib.Logic.Relation
import Mathlib.Data.List.Sublists
import Mathlib.Data.List.Basic
/-!
# The edge-adjacency search (`get_connected_components`): invariants of one component search
-/
namespace Momtrop
variable {α : Type}

theorem adj_refl (top : List (TEdge α)) (e : Nat) : adj top e e = true := by
  simp [adj, containsVertex]

/-- adjacency inside the subgraph `s` -/
def AdjIn (top : List (TEdge α)) (s : List Nat) (e f : Nat) : Prop := e ∈ s ∧ f ∈ s ∧ adj top e f = true

/-- `e` and `f` are connected by a chain of pairwise adjacent edges of `s` -/
def EdgeConn (top : List (TEdge α)) (s : List Nat) (e f : Nat) : Prop :=
  Relation.ReflTransGen (AdjIn top s) e f

theorem mem_grow {top : List (TEdge α)} {s comp : List Nat} {f : Nat} :
    f ∈ grow top s comp ↔ f ∈ s ∧ ∃ e ∈ comp, adj top e f = true := by
  simp [grow]

theorem subset_grow {top : List (TEdge α)} {s comp : List Nat} (h : ∀ e ∈ comp, e ∈ s) :
    ∀ e ∈ comp, e ∈ grow top s comp := by
  intro e he
  exact mem_grow.mpr ⟨h e he, e, he, adj_refl top e⟩

/-- invariant of the search: members of `s`, all reachable from the seed -/
structure SearchInv (top : List (TEdge α)) (s : List Nat) (seed : Nat) (comp : List Nat) : Prop where
  sub : ∀ e ∈ comp, e ∈ s
  reach : ∀ e ∈ comp, EdgeConn top s seed e

theorem SearchInv.grow {top : List (TEdge α)} {s : List Nat} {seed : Nat} {comp : List Nat}
    (h : SearchInv top s seed comp) : SearchInv top s seed (grow top s comp) where
  sub := fun e he => (mem_grow.mp he).1
  reach := fun f hf => by
    obtain ⟨hfs, e, he, hadj⟩ := mem_grow.mp hf
    exact (h.reach e he).tail ⟨h.sub e he, hfs, hadj⟩

theorem closure_inv (top : List (TEdge α)) (s : List Nat) (seed : Nat) :
    ∀ fuel comp, SearchInv top s seed comp → SearchInv top s seed (closure top s fuel comp) := by
  intro fuel
  induction fuel with
  | zero => intro comp h; exact h
  | succ fuel ih =>
    intro comp h
    unfold closure
    simp only
    split
    · exact h
    · exact ih _ h.grow

theorem closure_mono (top : List (TEdge α)) (s : List Nat) :
    ∀ fuel comp, (∀ e ∈ comp, e ∈ s) → ∀ e ∈ comp, e ∈ closure top s fuel comp := by
  intro fuel
  induction fuel with
  | zero => intro comp _ e he; exact he
  | succ fuel ih =>
    intro comp hs e he
    unfold closure
    simp only
    split
    · exact he
    · exact ih _ (fun e he => (mem_grow.mp he).1) e (subset_grow hs e he)

/-- with enough fuel the result is closed under adjacency in `s` -/
theorem closure_closed (top : List (TEdge α)) (s : List Nat) (hs : s.Nodup) :
    ∀ fuel comp, comp.Nodup → (∀ e ∈ comp, e ∈ s) → s.length < fuel + comp.length →
      ∀ e ∈ closure top s fuel comp, ∀ f ∈ s, adj top e f = true → f ∈ closure top s fuel comp := by
  intro fuel
  induction fuel with
  | zero =>
    intro comp hnd hsub hlen
    have : comp.length ≤ s.length := List.Subperm.length_le (List.subperm_of_subset hnd hsub)
    omega
  | succ fuel ih =>
    intro comp hnd hsub hlen e he f hf hadj
    unfold closure at he ⊢
    simp only at he ⊢
    have hgn : (grow top s comp).Nodup := hs.filter _
    have hcg : comp.length ≤ (grow top s comp).length :=
      List.Subperm.length_le (List.subperm_of_subset hnd (subset_grow hsub))
    split at he
    · next heq =>
      rw [if_pos heq]
      have hperm : comp.Perm (grow top s comp) :=
        (List.subperm_of_subset hnd (subset_grow hsub)).perm_of_length_le (by omega)
      have : f ∈ grow top s comp := mem_grow.mpr ⟨hf, e, he, hadj⟩
      exact hperm.mem_iff.mpr this
    · next hne =>
      rw [if_neg hne]
      have hlt : comp.length < (grow top s comp).length := lt_of_le_of_ne hcg (Ne.symm hne)
      exact ih _ hgn (fun e he => (mem_grow.mp he).1) (by omega) e he f hf hadj

theorem closure_nodup (top : List (TEdge α)) (s : List Nat) (hs : s.Nodup) :
    ∀ fuel comp, comp.Nodup → (closure top s fuel comp).Nodup := by
  intro fuel
  induction fuel with
  | zero => intro comp h; exact h
  | succ fuel ih =>
    intro comp h
    unfold closure
    simp only
    split
    · exact h
    · exact ih _ (hs.filter _)

/-- **One component search is exact**: the set found from `seed ∈ s` (fuel `|s|+1`, as the model
uses) is precisely the set of edges of `s` connected to `seed` by chains of adjacent edges. -/
theorem closure_eq_conn (top : List (TEdge α)) (s : List Nat) (hs : s.Nodup) (seed : Nat) (hseed : seed ∈ s)
    (f : Nat) : f ∈ closure top s (s.length + 1) [seed] ↔ EdgeConn top s seed f := by
  have hinv : SearchInv top s seed [seed] :=
    ⟨fun e he => by simp at he; subst he; exact hseed,
     fun e he => by simp at he; subst he; exact Relation.ReflTransGen.refl⟩
  constructor
  · intro hf
    exact (closure_inv top s seed _ _ hinv).reach f hf
  · intro hconn
    have hclosed := closure_closed top s hs (s.length + 1) [seed] (by simp)
      (fun e he => by simp at he; subst he; exact hseed) (by simp only [List.length_singleton]; omega)
    have hseedmem : seed ∈ closure top s (s.length + 1) [seed] :=
      closure_mono top s _ _ (fun e he => by simp at he; subst he; exact hseed) seed (by simp)
    induction hconn with
    | refl => exact hseedmem
    | tail _ hstep ih => exact hclosed _ ih _ hstep.2.1 hstep.2.2

end Momtrop

namespace Momtrop
variable {α : Type}

theorem adj_symm (top : List (TEdge α)) (e f : Nat) : adj top e f = adj top f e := by
  unfold adj containsVertex
  generalize (endsOf top e).1 = a
  generalize (endsOf top e).2 = b
  generalize (endsOf top f).1 = c
  generalize (endsOf top f).2 = d
  rw [Bool.eq_iff_iff]
  simp only [Bool.or_eq_true, beq_iff_eq]
  constructor <;> (intro h; rcases h with (h | h) | (h | h) <;> simp [h])

theorem AdjIn.symm {top : List (TEdge α)} {s : List Nat} {e f : Nat} (h : AdjIn top s e f) : AdjIn top s f e :=
  ⟨h.2.1, h.1, by rw [adj_symm]; exact h.2.2⟩

theorem EdgeConn.symm {top : List (TEdge α)} {s : List Nat} {e f : Nat} (h : EdgeConn top s e f) :
    EdgeConn top s f e := by
  induction h with
  | refl => exact Relation.ReflTransGen.refl
  | tail _ hstep ih => exact Relation.ReflTransGen.head hstep.symm ih

theorem EdgeConn.trans {top : List (TEdge α)} {s : List Nat} {e f g : Nat} (h1 : EdgeConn top s e f)
    (h2 : EdgeConn top s f g) : EdgeConn top s e g := Relation.ReflTransGen.trans h1 h2

/-- a set of edges of `s` that is closed under connectivity -/
def ConnClosed (top : List (TEdge α)) (s vis : List Nat) : Prop :=
  ∀ e ∈ vis, e ∈ s ∧ ∀ f, EdgeConn top s e f → f ∈ vis

theorem connClosed_nil (top : List (TEdge α)) (s : List Nat) : ConnClosed top s [] := by
  intro e he; simp at he

/-- What the outer loop guarantees for every component it returns and about coverage. -/
theorem compsLoop_spec (top : List (TEdge α)) (s : List Nat) (hs : s.Nodup) :
    ∀ (fuel : Nat) (vis : List Nat), ConnClosed top s vis →
      (∀ c ∈ compsLoop top s fuel vis, ∃ seed, seed ∈ s ∧ seed ∉ vis ∧ ∀ f, f ∈ c ↔ EdgeConn top s seed f) ∧
      List.Pairwise (fun c1 c2 : List Nat => ∀ e, e ∈ c1 → e ∉ c2) (compsLoop top s fuel vis) ∧
      ((s.filter fun e => !vis.contains e).length ≤ fuel →
        ∀ e ∈ s, e ∉ vis → ∃ c ∈ compsLoop top s fuel vis, e ∈ c) := by
  intro fuel
  induction fuel with
  | zero =>
    intro vis _
    refine ⟨by intro c hc; simp [compsLoop] at hc, by simp [compsLoop], ?_⟩
    intro hlen e he hev
    have : e ∈ s.filter fun e => !vis.contains e := by
      rw [List.mem_filter]; exact ⟨he, by simpa using hev⟩
    have := List.length_pos_of_mem this
    omega
  | succ fuel ih =>
    intro vis hvis
    cases hf : s.find? (fun e => !vis.contains e) with
    | none =>
      have hall : ∀ e ∈ s, e ∈ vis := by
        intro e he
        have := List.find?_eq_none.mp hf e he
        simpa using this
      have hunf : compsLoop top s (fuel + 1) vis = [] := by simp only [compsLoop, hf]
      rw [hunf]
      refine ⟨by intro c hc; simp at hc, List.Pairwise.nil, ?_⟩
      intro _ e he hev
      exact absurd (hall e he) hev
    | some seed =>
      have hseed_s : seed ∈ s := List.mem_of_find?_eq_some hf
      have hseed_v : seed ∉ vis := by
        have := List.find?_some hf
        simpa using this
      set c := closure top s (s.length + 1) [seed] with hc
      have hclass : ∀ f, f ∈ c ↔ EdgeConn top s seed f := fun f => closure_eq_conn top s hs seed hseed_s f
      -- the new visited set is closed
      have hvis' : ConnClosed top s (vis ++ c) := by
        intro e he
        rcases List.mem_append.mp he with h | h
        · exact ⟨(hvis e h).1, fun f hf' => List.mem_append.mpr (Or.inl ((hvis e h).2 f hf'))⟩
        · have hce := (hclass e).mp h
          refine ⟨(closure_inv top s seed _ _ ⟨fun x hx => by simp at hx; subst hx; exact hseed_s,
              fun x hx => by simp at hx; subst hx; exact Relation.ReflTransGen.refl⟩).sub e h, ?_⟩
          intro f hf'
          exact List.mem_append.mpr (Or.inr ((hclass f).mpr (hce.trans hf')))
      -- the class of the seed does not meet the visited set
      have hdisj : ∀ f, f ∈ c → f ∉ vis := by
        intro f hfc hfv
        exact hseed_v ((hvis f hfv).2 seed ((hclass f).mp hfc).symm)
      obtain ⟨ih1, ih2, ih3⟩ := ih (vis ++ c) hvis'
      have hunf : compsLoop top s (fuel + 1) vis = c :: compsLoop top s fuel (vis ++ c) := by
        simp only [compsLoop, hf]; rfl
      rw [hunf]
      refine ⟨?_, ?_, ?_⟩
      · intro c' hc'
        rcases List.mem_cons.mp hc' with rfl | h
        · exact ⟨seed, hseed_s, hseed_v, hclass⟩
        · obtain ⟨sd, h1, h2, h3⟩ := ih1 c' h
          exact ⟨sd, h1, fun hv => h2 (List.mem_append.mpr (Or.inl hv)), h3⟩
      · rw [List.pairwise_cons]
        refine ⟨?_, ih2⟩
        intro c' hc' e hec hec'
        obtain ⟨sd, _, h2, h3⟩ := ih1 c' hc'
        -- e ∈ c (class of seed) and e ∈ c' (class of sd): then sd ∈ class of seed ⊆ vis ++ c
        have : EdgeConn top s seed sd := ((hclass e).mp hec).trans ((h3 e).mp hec').symm
        exact h2 (List.mem_append.mpr (Or.inr ((hclass sd).mpr this)))
      · intro hlen e he hev
        by_cases hec : e ∈ c
        · exact ⟨c, List.mem_cons_self, hec⟩
        · have hev' : e ∉ vis ++ c := by
            intro h; rcases List.mem_append.mp h with h | h
            · exact hev h
            · exact hec h
          -- the number of unvisited edges strictly decreases: the seed was unvisited and is now visited
          have hlt : (s.filter fun e => !(vis ++ c).contains e).length < (s.filter fun e => !vis.contains e).length := by
            have hsub : ∀ x, x ∈ s.filter (fun e => !(vis ++ c).contains e) → x ∈ s.filter (fun e => !vis.contains e) := by
              intro x hx
              rw [List.mem_filter] at hx ⊢
              refine ⟨hx.1, ?_⟩
              have : x ∉ vis ++ c := by simpa using hx.2
              have : x ∉ vis := fun h => this (List.mem_append.mpr (Or.inl h))
              simpa using this
            have hnd1 : (s.filter fun e => !(vis ++ c).contains e).Nodup := hs.filter _
            have hseed_in : seed ∈ s.filter (fun e => !vis.contains e) := by
              rw [List.mem_filter]; exact ⟨hseed_s, by simpa using hseed_v⟩
            have hseed_out : seed ∉ s.filter (fun e => !(vis ++ c).contains e) := by
              rw [List.mem_filter]
              have : seed ∈ vis ++ c := List.mem_append.mpr (Or.inr ((hclass seed).mpr Relation.ReflTransGen.refl))
              simp [this]
            have hsp : (seed :: s.filter (fun e => !(vis ++ c).contains e)).Subperm (s.filter fun e => !vis.contains e) := by
              apply List.subperm_of_subset (List.nodup_cons.mpr ⟨hseed_out, hnd1⟩)
              intro x hx
              rcases List.mem_cons.mp hx with rfl | h
              · exact hseed_in
              · exact hsub x h
            have := hsp.length_le
            simp only [List.length_cons] at this
            omega
          obtain ⟨c', hc', hec'⟩ := ih3 (by omega) e he hev'
          exact ⟨c', List.mem_cons_of_mem _ hc', hec'⟩

/-- **The connected components are exactly the connectivity classes of `s`**: every returned component is
the full class of an edge of `s`, different components are disjoint, and every edge of `s` is in one. -/
theorem componentLists_spec (top : List (TEdge α)) (s : List Nat) (hs : s.Nodup) :
    (∀ c ∈ componentLists top s, ∃ seed ∈ s, ∀ f, f ∈ c ↔ EdgeConn top s seed f) ∧
    List.Pairwise (fun c1 c2 : List Nat => ∀ e, e ∈ c1 → e ∉ c2) (componentLists top s) ∧
    (∀ e ∈ s, ∃ c ∈ componentLists top s, e ∈ c) := by
  obtain ⟨h1, h2, h3⟩ := compsLoop_spec top s hs s.length [] (connClosed_nil top s)
  refine ⟨?_, h2, ?_⟩
  · intro c hc
    obtain ⟨sd, hsd, _, hcl⟩ := h1 c hc
    exact ⟨sd, hsd, hcl⟩
  · intro e he
    exact h3 (by simpa using List.length_filter_le _ s) e he (by simp)

/-- two edges of `s` lie in the same returned component iff they are connected inside `s` -/
theorem same_component_iff (top : List (TEdge α)) (s : List Nat) (hs : s.Nodup) (e f : Nat) (he : e ∈ s) :
    (∃ c ∈ componentLists top s, e ∈ c ∧ f ∈ c) ↔ EdgeConn top s e f := by
  obtain ⟨h1, _, h3⟩ := componentLists_spec top s hs
  constructor
  · rintro ⟨c, hc, hec, hfc⟩
    obtain ⟨sd, _, hcl⟩ := h1 c hc
    exact ((hcl e).mp hec).symm.trans ((hcl f).mp hfc)
  · intro hconn
    obtain ⟨c, hc, hec⟩ := h3 e he
    obtain ⟨sd, _, hcl⟩ := h1 c hc
    exact ⟨c, hc, hec, (hcl f).mpr (((hcl e).mp hec).trans hconn)⟩

end Momtrop
