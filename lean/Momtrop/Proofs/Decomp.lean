import Momtrop.Proofs.MatBridge
/-!
# `decompose_for_tropical` in exact arithmetic: `Q⁻¹` by the nilpotent series, `L⁻¹ = Q⁻ᵀQ⁻¹`
-/
namespace Momtrop
open Scalar

theorem list_prod_range_eq (f : Nat → ℝ) (n : Nat) :
    ((List.range n).map f).prod = ∏ k ∈ Finset.range n, f k := by
  induction n with
  | zero => simp
  | succ n ih => rw [List.range_succ, List.map_append, List.prod_append, Finset.prod_range_succ, ih]; simp

section
variable (A : Mat ℝ) (n : Nat)

theorem cholQ_get {i j : Nat} (hi : i < n) (hj : j < n) : (cholQ A n).get i j = q A n i j := by
  unfold cholQ; exact Mat.ofFn_get n _ hi hj

/-- the Cholesky factor as a Mathlib matrix -/
noncomputable def QM : Matrix (Fin n) (Fin n) ℝ := M n (cholQ A n)

theorem QM_apply (i j : Fin n) : QM A n i j = q A n i j := by
  unfold QM; rw [M_apply, cholQ_get A n i.2 j.2]

theorem QM_eq_toMatrix : QM A n = toMatrix n (q A n) := by
  ext i j; rw [QM_apply]; rfl

theorem detQ_eq : detQ n (cholQ A n) = ∏ k : Fin n, q A n k k := by
  unfold detQ
  rw [mulFold_eq, list_prod_range_eq, Finset.prod_range]
  simp only [one_real, one_mul]
  exact Finset.prod_congr rfl fun k _ => cholQ_get A n k.2 k.2

theorem invDiag_getD {r : Nat} (hr : r < n) :
    (invDiag n (cholQ A n)).getD r zero = (q A n r r)⁻¹ := by
  unfold invDiag
  rw [zero_real, getD_map_range n _ hr, inv_real, cholQ_get A n hr hr]

/-- the matrix `N` with `Q = D (1 + N)` -/
noncomputable def NM : Matrix (Fin n) (Fin n) ℝ := M n (nMatrix n (cholQ A n))

theorem NM_apply (i j : Fin n) :
    NM A n i j = if (j : Nat) < i then (q A n i i)⁻¹ * q A n i j else 0 := by
  unfold NM nMatrix
  rw [M_ofFn_apply]
  by_cases h : (j : Nat) < i
  · simp only [h, if_true]; rw [invDiag_getD A n i.2, cholQ_get A n i.2 j.2]
  · simp [h]

theorem NM_strict (i j : Fin n) (h : i ≤ j) : NM A n i j = 0 := by
  rw [NM_apply]; have : ¬ (j : Nat) < i := by simpa using h
  simp [this]

end

/-- powers of a strictly lower triangular matrix move away from the diagonal -/
theorem strictLower_pow {n : Nat} (N : Matrix (Fin n) (Fin n) ℝ) (h : ∀ i j, i ≤ j → N i j = 0) (k : Nat) :
    ∀ i j : Fin n, (i : Nat) < j + k → (N ^ k) i j = 0 := by
  induction k with
  | zero =>
    intro i j hij
    have : i ≠ j := by intro e; subst e; omega
    simp [Matrix.one_apply_ne this]
  | succ k ih =>
    intro i j hij
    rw [pow_succ, Matrix.mul_apply]
    apply Finset.sum_eq_zero
    intro l _
    by_cases hl : l ≤ j
    · rw [h l j hl, mul_zero]
    · have : (j : Nat) < l := by simpa using hl
      rw [ih i l (by omega), zero_mul]

theorem strictLower_pow_eq_zero {n : Nat} (N : Matrix (Fin n) (Fin n) ℝ) (h : ∀ i j, i ≤ j → N i j = 0)
    {k : Nat} (hk : n ≤ k) : N ^ k = 0 := by
  ext i j
  rw [strictLower_pow N h k i j (by have := i.2; omega)]; rfl

section
variable (A : Mat ℝ) (n : Nat)

theorem M_powerN (N : Mat ℝ) (k : Nat) : M n (powerN n N k) = (M n N) ^ (k + 1) := by
  induction k with
  | zero => simp [powerN]
  | succ k ih => rw [powerN, M_mul, ih, ← pow_succ]

theorem M_nSum (N : Mat ℝ) (m : Nat) :
    M n (nSum n N m) = ∑ i ∈ Finset.range m, (-(M n N)) ^ (i + 1) := by
  unfold nSum
  induction m with
  | zero => simp [M_zeros]
  | succ m ih =>
    rw [List.range_succ, List.foldl_append, List.foldl_cons, List.foldl_nil, Finset.sum_range_succ, ← ih]
    by_cases hm : m % 2 = 0
    · simp only [hm, if_true]
      rw [M_sub, M_powerN, neg_pow, Odd.neg_one_pow (by exact Nat.odd_iff.mpr (by omega))]
      simp [sub_eq_add_neg]
    · simp only [hm, if_false]
      rw [M_add, M_powerN, neg_pow, Even.neg_one_pow (by exact Nat.even_iff.mpr (by omega))]
      simp

/-- the computed `inverse_q` as a Mathlib matrix -/
noncomputable def IQ : Matrix (Fin n) (Fin n) ℝ :=
  M n (inverseQ n (nSum n (nMatrix n (cholQ A n)) (numPowers n)) (invDiag n (cholQ A n)))

theorem IQ_eq :
    IQ A n = (1 + ∑ i ∈ Finset.range (numPowers n), (-(NM A n)) ^ (i + 1))
      * Matrix.diagonal fun k : Fin n => (q A n k k)⁻¹ := by
  have hS : (∑ i ∈ Finset.range (numPowers n), (-(NM A n)) ^ (i + 1))
      = M n (nSum n (nMatrix n (cholQ A n)) (numPowers n)) := (M_nSum n _ _).symm
  ext i j
  unfold IQ inverseQ
  rw [M_ofFn_apply, Matrix.mul_diagonal, invDiag_getD A n j.2, Matrix.add_apply, hS, Matrix.one_apply,
    M_apply]
  by_cases h : i = j
  · subst h; simp [add_comm]
  · have : (i : Nat) ≠ j := fun e => h (Fin.ext e)
    simp [h, this]

theorem QM_factor (hp : PivotsPos A n) :
    QM A n = (Matrix.diagonal fun k : Fin n => q A n k k) * (1 + NM A n) := by
  ext i j
  rw [Matrix.diagonal_mul, Matrix.add_apply, Matrix.one_apply, NM_apply, QM_apply]
  have hne : q A n i i ≠ 0 := (q_diag_pos A n hp i.2).ne'
  rcases lt_trichotomy (i : Nat) j with h | h | h
  · have h1 : i ≠ j := fun e => by subst e; omega
    have h2 : ¬ (j : Nat) < i := by omega
    simp [h1, h2, q_upper A n h j.2]
  · have h1 : i = j := Fin.ext h
    subst h1; simp
  · have h1 : i ≠ j := fun e => by subst e; omega
    simp only [h1, if_false, h, if_true, zero_add]
    field_simp

theorem numPowers_succ_ge : n ≤ numPowers n + 1 := by unfold numPowers; omega

/-- `inverse_q · q = 1` -/
theorem IQ_mul_QM (hp : PivotsPos A n) : IQ A n * QM A n = 1 := by
  rw [IQ_eq, QM_factor A n hp]
  have hD : (Matrix.diagonal fun k : Fin n => (q A n k k)⁻¹) * (Matrix.diagonal fun k : Fin n => q A n k k) = 1 := by
    rw [Matrix.diagonal_mul_diagonal, ← Matrix.diagonal_one]
    congr 1; funext k
    exact inv_mul_cancel₀ (q_diag_pos A n hp k.2).ne'
  have hS : (1 + ∑ i ∈ Finset.range (numPowers n), (-(NM A n)) ^ (i + 1))
      = ∑ i ∈ Finset.range (numPowers n + 1), (-(NM A n)) ^ i := by
    rw [Finset.sum_range_succ', pow_zero, add_comm]
  calc _ = (1 + ∑ i ∈ Finset.range (numPowers n), (-(NM A n)) ^ (i + 1))
            * ((Matrix.diagonal fun k : Fin n => (q A n k k)⁻¹) * (Matrix.diagonal fun k : Fin n => q A n k k))
            * (1 + NM A n) := by simp only [Matrix.mul_assoc]
    _ = (∑ i ∈ Finset.range (numPowers n + 1), (-(NM A n)) ^ i) * (1 - -(NM A n)) := by
        rw [hD, Matrix.mul_one, hS, sub_neg_eq_add]
    _ = 1 - (-(NM A n)) ^ (numPowers n + 1) := geom_sum_mul_neg _ _
    _ = 1 := by
        rw [neg_pow, strictLower_pow_eq_zero (NM A n) (NM_strict A n) (numPowers_succ_ge n)]; simp

theorem QM_mul_IQ (hp : PivotsPos A n) : QM A n * IQ A n = 1 :=
  mul_eq_one_comm.mp (IQ_mul_QM A n hp)

theorem QM_mul_transpose (hp : PivotsPos A n) (hs : SymmOn A n) :
    QM A n * (QM A n).transpose = M n A := by
  rw [QM_eq_toMatrix]; exact chol_mul_transpose A n hp hs

end
end Momtrop
