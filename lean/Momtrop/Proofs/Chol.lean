import Momtrop.Model.Matrix
import Momtrop.Proofs.RealInst
import Mathlib.LinearAlgebra.Matrix.Block
import Mathlib.Data.List.GetD
/-!
# Cholesky factor of the model (`cholCols`, `cholQ`) in exact arithmetic, for every dimension `n`
-/
namespace Momtrop
open Scalar

theorem cholCols_length (A : Mat ℝ) (n m : Nat) : (cholCols A n m).length = m := by
  induction m with
  | zero => rfl
  | succ m ih => simp [cholCols, ih]

theorem cholCols_getD_stable (A : Mat ℝ) (n : Nat) {k m : Nat} (h : k < m) :
    (cholCols A n m).getD k [] = newCol A n (cholCols A n k) k := by
  induction m with
  | zero => omega
  | succ m ih =>
    rcases Nat.lt_succ_iff_lt_or_eq.mp h with h' | rfl
    · simp only [cholCols]
      rw [List.getD_append _ _ _ _ (by rw [cholCols_length]; exact h')]
      exact ih h'
    · simp only [cholCols]
      rw [List.getD_append_right _ _ _ _ (by rw [cholCols_length])]
      simp [cholCols_length]

/-- the final factor entry -/
noncomputable def q (A : Mat ℝ) (n j k : Nat) : ℝ := qEntry (cholCols A n n) j k

theorem qEntry_stage (A : Mat ℝ) (n : Nat) {k m : Nat} (h : k < m) (j : Nat) :
    qEntry (cholCols A n m) j k = (newCol A n (cholCols A n k) k).getD j 0 := by
  unfold qEntry; rw [cholCols_getD_stable A n h]; rfl

theorem qEntry_eq_q (A : Mat ℝ) (n : Nat) {k m : Nat} (h : k < m) (hm : m ≤ n) (j : Nat) :
    qEntry (cholCols A n m) j k = q A n j k := by
  unfold q; rw [qEntry_stage A n h, qEntry_stage A n (lt_of_lt_of_le h hm)]

theorem list_sum_range_eq (f : Nat → ℝ) (n : Nat) :
    ((List.range n).map f).sum = ∑ k ∈ Finset.range n, f k := by
  induction n with
  | zero => simp
  | succ n ih => rw [List.sum_range_succ, Finset.sum_range_succ, ih]

theorem getD_map_range (n : Nat) (f : Nat → ℝ) {j : Nat} (hj : j < n) :
    ((List.range n).map f).getD j 0 = f j := by
  rw [List.getD_eq_getElem _ _ (by simpa using hj)]; simp

/-- inner sums of stage `k` read final entries -/
theorem stage_sum (A : Mat ℝ) (n : Nat) {k : Nat} (hk : k ≤ n) (a b : Nat) :
    ((List.range k).map fun c => qEntry (cholCols A n k) a c * qEntry (cholCols A n k) b c).sum
      = ∑ c ∈ Finset.range k, q A n a c * q A n b c := by
  rw [← list_sum_range_eq]
  congr 1
  apply List.map_congr_left
  intro c hc
  have hc' : c < k := List.mem_range.mp hc
  rw [qEntry_eq_q A n hc' hk, qEntry_eq_q A n hc' hk]

/-- the pivot (argument of the square root) of column `k` -/
noncomputable def piv (A : Mat ℝ) (n k : Nat) : ℝ :=
  A.get k k - ∑ c ∈ Finset.range k, q A n k c * q A n k c

theorem q_upper (A : Mat ℝ) (n : Nat) {j k : Nat} (hjk : j < k) (hk : k < n) : q A n j k = 0 := by
  unfold q
  rw [qEntry_stage A n hk]
  unfold newCol
  rw [getD_map_range n _ (lt_trans hjk hk)]
  simp [hjk]

theorem q_diag (A : Mat ℝ) (n : Nat) {k : Nat} (hk : k < n) : q A n k k = Real.sqrt (piv A n k) := by
  unfold q
  rw [qEntry_stage A n hk]
  unfold newCol
  rw [getD_map_range n _ hk]
  simp only [lt_irrefl, if_false, if_true]
  rw [subFold_eq, stage_sum A n hk.le]
  rfl

theorem q_lower (A : Mat ℝ) (n : Nat) {j k : Nat} (hkj : k < j) (hj : j < n) :
    q A n j k = (A.get k j - ∑ c ∈ Finset.range k, q A n k c * q A n j c) / q A n k k := by
  have hk : k < n := lt_trans hkj hj
  rw [q_diag A n hk]
  unfold q
  rw [qEntry_stage A n hk]
  unfold newCol
  rw [getD_map_range n _ hj]
  have h1 : ¬ j < k := by omega
  have h2 : ¬ j = k := by omega
  simp only [h1, h2, if_false]
  rw [subFold_eq, subFold_eq, stage_sum A n hk.le, stage_sum A n hk.le]
  rfl

/-- pivots positive: the explicit hypothesis under which Cholesky succeeds -/
def PivotsPos (A : Mat ℝ) (n : Nat) : Prop := ∀ k, k < n → 0 < piv A n k

/-- symmetric on the index range -/
def SymmOn (A : Mat ℝ) (n : Nat) : Prop := ∀ i j, i < n → j < n → A.get i j = A.get j i

theorem q_diag_pos (A : Mat ℝ) (n : Nat) (hp : PivotsPos A n) {k : Nat} (hk : k < n) : 0 < q A n k k := by
  rw [q_diag A n hk]; exact Real.sqrt_pos.mpr (hp k hk)

/-- (Q Qᵀ)_{ij} = A_{ij} on and above the diagonal. -/
theorem chol_row_dot (A : Mat ℝ) (n : Nat) (hp : PivotsPos A n) {i j : Nat} (hij : i ≤ j) (hj : j < n) :
    ∑ k ∈ Finset.range n, q A n i k * q A n j k = A.get i j := by
  have hi : i < n := lt_of_le_of_lt hij hj
  have hsplit : ∑ k ∈ Finset.range n, q A n i k * q A n j k
      = ∑ k ∈ Finset.range (i+1), q A n i k * q A n j k := by
    symm
    apply Finset.sum_subset
    · intro k hk; simp only [Finset.mem_range] at hk ⊢; omega
    · intro k hk hk'
      simp only [Finset.mem_range] at hk hk'
      rw [q_upper A n (by omega : i < k) hk]; ring
  rw [hsplit, Finset.sum_range_succ]
  have hpos := hp i hi
  have hqii : q A n i i ≠ 0 := by
    rw [q_diag A n hi]; exact (Real.sqrt_pos.mpr hpos).ne'
  rcases Nat.eq_or_lt_of_le hij with rfl | hlt
  · rw [q_diag A n hi, Real.mul_self_sqrt hpos.le]; unfold piv; ring
  · rw [q_lower A n hlt hj]; field_simp; ring

/-- view a model matrix (total accessor) as a Mathlib matrix -/
noncomputable def toMatrix (n : Nat) (f : Nat → Nat → ℝ) : Matrix (Fin n) (Fin n) ℝ :=
  Matrix.of fun i j => f i j

theorem chol_mul_transpose (A : Mat ℝ) (n : Nat) (hp : PivotsPos A n) (hsym : SymmOn A n) :
    toMatrix n (q A n) * (toMatrix n (q A n)).transpose = toMatrix n A.get := by
  ext i j
  simp only [Matrix.mul_apply, Matrix.transpose_apply, toMatrix, Matrix.of_apply]
  rw [← Finset.sum_range (fun k => q A n i k * q A n j k)]
  rcases le_total (i : Nat) j with h | h
  · exact chol_row_dot A n hp h j.2
  · rw [hsym i j i.2 j.2, ← chol_row_dot A n hp h i.2]
    exact Finset.sum_congr rfl fun k _ => mul_comm _ _

theorem q_lowerTriangular (A : Mat ℝ) (n : Nat) : (toMatrix n (q A n)).IsLowerTriangular := by
  intro i j hij
  simp only [toMatrix, Matrix.of_apply]
  exact q_upper A n (by simpa using hij) j.2

/-- determinant = (product of the Cholesky diagonal)^2  (`matrix.rs:154-165`) -/
theorem det_eq_sq_prod_diag (A : Mat ℝ) (n : Nat) (hp : PivotsPos A n) (hsym : SymmOn A n) :
    (toMatrix n A.get).det = (∏ k : Fin n, q A n k k) * (∏ k : Fin n, q A n k k) := by
  rw [← chol_mul_transpose A n hp hsym, Matrix.det_mul, Matrix.det_transpose,
    Matrix.det_of_isLowerTriangular _ (q_lowerTriangular A n)]
  simp [toMatrix]

end Momtrop
