import Momtrop.Proofs.LoopNumber
/-!
# Removing an edge lowers the loop number by 0 or 1

`loopNumber_erase`: for a duplicate-free list `s` of valid edge ids and `e ∈ s`,
`loopNumber top s = loopNumber top (s.erase e)` or `= loopNumber top (s.erase e) + 1`.

The proof counts connectivity classes. With `s' = s.erase e`, the classes of `s'` that touch `e` (the set `A`) merge with `{e}` into one
class of `s`, the others (`B`) are unchanged: `#classes s = #B + 1`, `#classes s' = #A + #B`. Every class in `A` owns an end point of `e`
that `s'` touches, different classes own different end points, and an end point of `e` is either touched by `s'` or new in `V(s)`;
with `loopNumber_cyclomatic` on both sides this gives `loops s + (#A + #new) = loops s' + 2` and `1 ≤ #A + #new ≤ 2`.
-/
namespace Momtrop
open Classical
variable {α : Type}

theorem edgeConn_mem {top : List (TEdge α)} {s : List Nat} {f x : Nat} (hf : f ∈ s) (h : EdgeConn top s f x) : x ∈ s := by
  cases h with
  | refl => exact hf
  | tail _ hstep => exact hstep.2.1

theorem edgeConn_subset {top : List (TEdge α)} {s' s : List Nat} (hsub : ∀ x ∈ s', x ∈ s) {a b : Nat}
    (h : EdgeConn top s' a b) : EdgeConn top s a b := by
  unfold EdgeConn at *
  exact Relation.ReflTransGen.mono (fun x y hxy => ⟨hsub x hxy.1, hsub y hxy.2.1, hxy.2.2⟩) a b h

/-- the connectivity class of `f` inside `s` -/
noncomputable def cls (top : List (TEdge α)) (s : List Nat) (f : Nat) : Finset Nat :=
  s.toFinset.filter (fun g => EdgeConn top s f g)

/-- the set of connectivity classes of `s` -/
noncomputable def classes (top : List (TEdge α)) (s : List Nat) : Finset (Finset Nat) := s.toFinset.image (cls top s)

theorem mem_cls {top : List (TEdge α)} {s : List Nat} {f g : Nat} : g ∈ cls top s f ↔ g ∈ s ∧ EdgeConn top s f g := by
  simp [cls]

theorem cls_eq_of_conn {top : List (TEdge α)} {s : List Nat} {f g : Nat} (h : EdgeConn top s f g) : cls top s f = cls top s g := by
  ext x
  rw [mem_cls, mem_cls]
  exact ⟨fun ⟨hx, hc⟩ => ⟨hx, h.symm.trans hc⟩, fun ⟨hx, hc⟩ => ⟨hx, h.trans hc⟩⟩

theorem self_mem_cls {top : List (TEdge α)} {s : List Nat} {f : Nat} (hf : f ∈ s) : f ∈ cls top s f :=
  mem_cls.mpr ⟨hf, Relation.ReflTransGen.refl⟩

/-- the search returns one list per connectivity class -/
theorem componentLists_length (top : List (TEdge α)) (s : List Nat) (hs : s.Nodup) :
    (componentLists top s).length = (classes top s).card := by
  obtain ⟨hclass, hpair, hcover⟩ := componentLists_spec top s hs
  have hEq : ∀ c ∈ componentLists top s, ∃ seed ∈ s, seed ∈ c ∧ c.toFinset = cls top s seed := by
    intro c hc
    obtain ⟨seed, hseed, hcl⟩ := hclass c hc
    refine ⟨seed, hseed, (hcl seed).mpr Relation.ReflTransGen.refl, ?_⟩
    ext x
    rw [List.mem_toFinset, mem_cls, hcl]
    exact ⟨fun h => ⟨edgeConn_mem hseed h, h⟩, fun h => h.2⟩
  have hpair' : List.Pairwise (fun c1 c2 : List Nat => c1 ∈ componentLists top s ∧ c2 ∈ componentLists top s ∧
      ∀ e, e ∈ c1 → e ∉ c2) (componentLists top s) := by
    apply List.Pairwise.imp_of_mem _ hpair
    intro c1 c2 h1 h2 h; exact ⟨h1, h2, h⟩
  have hnd : ((componentLists top s).map List.toFinset).Nodup := by
    unfold List.Nodup
    apply List.Pairwise.map _ _ hpair'
    intro c1 c2 ⟨h1, _, hd⟩ heq
    obtain ⟨seed, _, hsc, _⟩ := hEq c1 h1
    have : seed ∈ c2.toFinset := by rw [← heq]; exact List.mem_toFinset.mpr hsc
    exact hd seed hsc (List.mem_toFinset.mp this)
  rw [← List.length_map (f := List.toFinset), ← List.toFinset_card_of_nodup hnd]
  congr 1
  ext c
  simp only [List.mem_toFinset, List.mem_map, classes, Finset.mem_image]
  constructor
  · rintro ⟨l, hl, rfl⟩
    obtain ⟨seed, hseed, _, h⟩ := hEq l hl
    exact ⟨seed, hseed, h.symm⟩
  · rintro ⟨f, hf, rfl⟩
    obtain ⟨l, hl, hfl⟩ := hcover f hf
    obtain ⟨seed, _, hsl, h⟩ := hEq l hl
    refine ⟨l, hl, ?_⟩
    rw [h]
    have : f ∈ cls top s seed := by rw [← h]; exact List.mem_toFinset.mpr hfl
    exact cls_eq_of_conn (mem_cls.mp this).2

section step
variable (top : List (TEdge α)) (s' s : List Nat) (e : Nat)

/-- `f` is connected inside `s'` to an edge of `s'` adjacent to `e` -/
def Touch (f : Nat) : Prop := ∃ h, EdgeConn top s' f h ∧ h ∈ s' ∧ adj top h e = true

variable {top s' s e}
variable (hs : ∀ x, x ∈ s ↔ x = e ∨ x ∈ s') (he : e ∉ s')
include hs

theorem conn_split {f : Nat} (hf : f ∈ s') {x : Nat} (h : EdgeConn top s f x) :
    (x = e ∧ Touch top s' e f) ∨ (x ∈ s' ∧ (EdgeConn top s' f x ∨ (Touch top s' e f ∧ Touch top s' e x))) := by
  induction h with
  | refl => exact Or.inr ⟨hf, Or.inl Relation.ReflTransGen.refl⟩
  | @tail b c _ hstep ih =>
    obtain ⟨_, hc, hadj⟩ := hstep
    rcases (hs c).mp hc with hce | hc'
    · left
      refine ⟨hce, ?_⟩
      rcases ih with ⟨_, hT⟩ | ⟨hb', hconn | ⟨hT, _⟩⟩
      · exact hT
      · exact ⟨b, hconn, hb', hce ▸ hadj⟩
      · exact hT
    · right
      refine ⟨hc', ?_⟩
      rcases ih with ⟨hbe, hT⟩ | ⟨hb', hconn | ⟨hT, hTb⟩⟩
      · right
        refine ⟨hT, c, Relation.ReflTransGen.refl, hc', ?_⟩
        rw [adj_symm, ← hbe]; exact hadj
      · left
        exact hconn.tail ⟨hb', hc', hadj⟩
      · right
        refine ⟨hT, ?_⟩
        obtain ⟨h, hbh, hh, hhe⟩ := hTb
        have hcb : EdgeConn top s' c b :=
          Relation.ReflTransGen.single ⟨hc', hb', by rw [adj_symm]; exact hadj⟩
        exact ⟨h, hcb.trans hbh, hh, hhe⟩

theorem conn_of_touch {f : Nat} (hT : Touch top s' e f) : EdgeConn top s f e := by
  obtain ⟨h, hfh, hh, hhe⟩ := hT
  have hsub : ∀ x ∈ s', x ∈ s := fun x hx => (hs x).mpr (Or.inr hx)
  exact (edgeConn_subset hsub hfh).tail ⟨hsub h hh, (hs e).mpr (Or.inl rfl), hhe⟩

/-- the merged class of `s`: `e` with every touching edge of `s'` -/
noncomputable def merged (top : List (TEdge α)) (s' : List Nat) (e : Nat) : Finset Nat :=
  insert e (s'.toFinset.filter (Touch top s' e))

theorem cls_notTouch {f : Nat} (hf : f ∈ s') (hT : ¬ Touch top s' e f) : cls top s f = cls top s' f := by
  have hsub : ∀ x ∈ s', x ∈ s := fun x hx => (hs x).mpr (Or.inr hx)
  ext x
  rw [mem_cls, mem_cls]
  constructor
  · rintro ⟨_, hconn⟩
    rcases conn_split hs hf hconn with ⟨_, hT'⟩ | ⟨hx', hc | ⟨hT', _⟩⟩
    · exact absurd hT' hT
    · exact ⟨hx', hc⟩
    · exact absurd hT' hT
  · rintro ⟨hx, hc⟩
    exact ⟨hsub x hx, edgeConn_subset hsub hc⟩

theorem cls_touch {f : Nat} (hf : f ∈ s') (hT : Touch top s' e f) : cls top s f = merged top s' e := by
  have hsub : ∀ x ∈ s', x ∈ s := fun x hx => (hs x).mpr (Or.inr hx)
  ext x
  rw [mem_cls]
  simp only [merged, Finset.mem_insert, Finset.mem_filter, List.mem_toFinset]
  constructor
  · rintro ⟨_, hconn⟩
    rcases conn_split hs hf hconn with ⟨hxe, _⟩ | ⟨hx', hc | ⟨_, hTx⟩⟩
    · exact Or.inl hxe
    · right
      obtain ⟨h, hfh, hh, hhe⟩ := hT
      exact ⟨hx', h, hc.symm.trans hfh, hh, hhe⟩
    · exact Or.inr ⟨hx', hTx⟩
  · rintro (hxe | ⟨hx', hTx⟩)
    · subst hxe
      exact ⟨(hs x).mpr (Or.inl rfl), conn_of_touch hs hT⟩
    · exact ⟨hsub x hx', (conn_of_touch hs hT).trans (conn_of_touch hs hTx).symm⟩

include he in
theorem cls_new : cls top s e = merged top s' e := by
  ext x
  rw [mem_cls]
  simp only [merged, Finset.mem_insert, Finset.mem_filter, List.mem_toFinset]
  constructor
  · rintro ⟨hx, hconn⟩
    rcases (hs x).mp hx with hxe | hx'
    · exact Or.inl hxe
    · right
      refine ⟨hx', ?_⟩
      rcases conn_split hs hx' hconn.symm with ⟨_, hT⟩ | ⟨he', _⟩
      · exact hT
      · exact absurd he' he
  · rintro (hxe | ⟨hx', hTx⟩)
    · subst hxe
      exact ⟨(hs x).mpr (Or.inl rfl), Relation.ReflTransGen.refl⟩
    · exact ⟨(hs x).mpr (Or.inr hx'), (conn_of_touch hs hTx).symm⟩

/-- classes of `s'` that touch `e` / that do not -/
noncomputable def clsA (top : List (TEdge α)) (s' : List Nat) (e : Nat) : Finset (Finset Nat) :=
  (s'.toFinset.filter (Touch top s' e)).image (cls top s')
noncomputable def clsB (top : List (TEdge α)) (s' : List Nat) (e : Nat) : Finset (Finset Nat) :=
  (s'.toFinset.filter (fun f => ¬ Touch top s' e f)).image (cls top s')

include he in
theorem classes_step : classes top s = insert (merged top s' e) (clsB top s' e) := by
  ext c
  simp only [classes, clsB, Finset.mem_image, Finset.mem_insert, Finset.mem_filter, List.mem_toFinset]
  constructor
  · rintro ⟨f, hf, rfl⟩
    rcases (hs f).mp hf with hfe | hf'
    · subst hfe; exact Or.inl (cls_new hs he)
    · by_cases hT : Touch top s' e f
      · exact Or.inl (cls_touch hs hf' hT)
      · exact Or.inr ⟨f, ⟨hf', hT⟩, (cls_notTouch hs hf' hT).symm⟩
  · rintro (rfl | ⟨f, ⟨hf', hT⟩, rfl⟩)
    · exact ⟨e, (hs e).mpr (Or.inl rfl), cls_new hs he⟩
    · exact ⟨f, (hs f).mpr (Or.inr hf'), cls_notTouch hs hf' hT⟩

omit hs

theorem classes_split (top : List (TEdge α)) (s' : List Nat) (e : Nat) :
    classes top s' = clsA top s' e ∪ clsB top s' e := by
  unfold classes clsA clsB
  rw [← Finset.image_union, Finset.filter_union_filter_not_eq]

theorem clsA_disjoint_clsB (top : List (TEdge α)) (s' : List Nat) (e : Nat) : Disjoint (clsA top s' e) (clsB top s' e) := by
  rw [Finset.disjoint_left]
  intro c hA hB
  simp only [clsA, clsB, Finset.mem_image, Finset.mem_filter, List.mem_toFinset] at hA hB
  obtain ⟨f, ⟨hf, hTf⟩, rfl⟩ := hA
  obtain ⟨g, ⟨hg, hTg⟩, hgc⟩ := hB
  have : g ∈ cls top s' f := by rw [← hgc]; exact self_mem_cls hg
  have hfg := (mem_cls.mp this).2
  obtain ⟨h, hfh, hh, hhe⟩ := hTf
  exact hTg ⟨h, hfg.symm.trans hfh, hh, hhe⟩

theorem merged_notMem_clsB (he : e ∉ s') : merged top s' e ∉ clsB top s' e := by
  intro h
  simp only [clsB, Finset.mem_image, Finset.mem_filter, List.mem_toFinset] at h
  obtain ⟨f, _, hfc⟩ := h
  have : e ∈ cls top s' f := by rw [hfc]; simp [merged]
  exact he (mem_cls.mp this).1

/-- every touching class owns an end point of `e` that `s'` touches; different classes own different end points -/
theorem clsA_card_le (top : List (TEdge α)) (s' : List Nat) (e : Nat) :
    (clsA top s' e).card ≤ (endSet top e ∩ verts top s').card := by
  have hex : ∀ c ∈ clsA top s' e, ∃ v, v ∈ endSet top e ∧ ∃ h ∈ c, v ∈ endSet top h := by
    intro c hc
    simp only [clsA, Finset.mem_image, Finset.mem_filter, List.mem_toFinset] at hc
    obtain ⟨f, ⟨hf, h, hfh, hh, hhe⟩, rfl⟩ := hc
    obtain ⟨v, hvh, hve⟩ := (adj_iff_share top h e).mp hhe
    exact ⟨v, hve, h, mem_cls.mpr ⟨hh, hfh⟩, hvh⟩
  let φ : Finset Nat → Nat := fun c => if hc : c ∈ clsA top s' e then Classical.choose (hex c hc) else 0
  have hφ : ∀ c (hc : c ∈ clsA top s' e), φ c ∈ endSet top e ∧ ∃ h ∈ c, φ c ∈ endSet top h := by
    intro c hc
    simp only [φ, dif_pos hc]
    exact Classical.choose_spec (hex c hc)
  have hsubc : ∀ c ∈ clsA top s' e, ∀ h ∈ c, h ∈ s' := by
    intro c hc h hh
    simp only [clsA, Finset.mem_image, Finset.mem_filter, List.mem_toFinset] at hc
    obtain ⟨f, _, rfl⟩ := hc
    exact (mem_cls.mp hh).1
  apply Finset.card_le_card_of_injOn φ
  · intro c hc
    obtain ⟨h1, h, hh, h2⟩ := hφ c hc
    simp only [Finset.coe_inter, Set.mem_inter_iff, Finset.mem_coe]
    refine ⟨h1, ?_⟩
    unfold verts
    exact Finset.mem_biUnion.mpr ⟨h, List.mem_toFinset.mpr (hsubc c hc h hh), h2⟩
  · intro c1 hc1 c2 hc2 heq
    have hc1 : c1 ∈ clsA top s' e := Finset.mem_coe.mp hc1
    have hc2 : c2 ∈ clsA top s' e := Finset.mem_coe.mp hc2
    obtain ⟨_, h1, hh1, hv1⟩ := hφ c1 hc1
    obtain ⟨_, h2, hh2, hv2⟩ := hφ c2 hc2
    rw [heq] at hv1
    have hadj : adj top h1 h2 = true := (adj_iff_share top h1 h2).mpr ⟨_, hv1, hv2⟩
    have hconn : EdgeConn top s' h1 h2 :=
      Relation.ReflTransGen.single ⟨hsubc c1 hc1 h1 hh1, hsubc c2 hc2 h2 hh2, hadj⟩
    have hc1' := hc1
    have hc2' := hc2
    simp only [clsA, Finset.mem_image, Finset.mem_filter, List.mem_toFinset] at hc1' hc2'
    obtain ⟨f1, _, rfl⟩ := hc1'
    obtain ⟨f2, _, rfl⟩ := hc2'
    have e1 := cls_eq_of_conn (mem_cls.mp hh1).2
    have e2 := cls_eq_of_conn (mem_cls.mp hh2).2
    rw [e1, e2]
    exact cls_eq_of_conn hconn

theorem clsA_nonempty (top : List (TEdge α)) (s' : List Nat) (e : Nat)
    (h : (endSet top e ∩ verts top s').Nonempty) : (clsA top s' e).Nonempty := by
  obtain ⟨v, hv⟩ := h
  rw [Finset.mem_inter] at hv
  obtain ⟨hve, hvs⟩ := hv
  unfold verts at hvs
  obtain ⟨h, hh, hvh⟩ := Finset.mem_biUnion.mp hvs
  rw [List.mem_toFinset] at hh
  refine ⟨cls top s' h, ?_⟩
  simp only [clsA, Finset.mem_image, Finset.mem_filter, List.mem_toFinset]
  exact ⟨h, ⟨hh, h, Relation.ReflTransGen.refl, hh, (adj_iff_share top h e).mpr ⟨v, hvh, hve⟩⟩, rfl⟩

end step

/-- the counting identity behind the step: with `s' = s.erase e`, `new` the end points of `e` that `s'` does not touch and `A` the classes of
`s'` that touch `e`: `loops s + #new + #A = loops s' + 2` -/
theorem loopNumber_erase_eq (top : List (TEdge α)) (s : List Nat) (hs : s.Nodup) (hvalid : ∀ x ∈ s, x < top.length)
    (e : Nat) (he : e ∈ s) :
    loopNumber top s + (endSet top e \ verts top (s.erase e)).card + (clsA top (s.erase e) e).card
      = loopNumber top (s.erase e) + 2 := by
  set s' := s.erase e with hs'def
  have hs' : s'.Nodup := hs.erase e
  have hne : e ∉ s' := hs.not_mem_erase
  have hmem : ∀ x, x ∈ s ↔ x = e ∨ x ∈ s' := by
    intro x
    by_cases hx : x = e
    · subst hx; simp [he]
    · simp [hs'def, hx, List.mem_erase_of_ne hx]
  have hvalid' : ∀ x ∈ s', x < top.length := fun x hx => hvalid x ((hmem x).mpr (Or.inr hx))
  have c1 := loopNumber_cyclomatic top s hs hvalid
  have c2 := loopNumber_cyclomatic top s' hs' hvalid'
  rw [componentLists_length top s hs] at c1
  rw [componentLists_length top s' hs'] at c2
  have hlen : s.length = s'.length + 1 := by
    rw [hs'def, List.length_erase_of_mem he]
    have : 0 < s.length := List.length_pos_of_mem he
    omega
  have hC : (classes top s).card = (clsB top s' e).card + 1 := by
    rw [classes_step hmem hne, Finset.card_insert_of_notMem (merged_notMem_clsB hne)]
  have hC' : (classes top s').card = (clsA top s' e).card + (clsB top s' e).card := by
    rw [classes_split top s' e, Finset.card_union_of_disjoint (clsA_disjoint_clsB top s' e)]
  have hV : verts top s = verts top s' ∪ endSet top e := by
    unfold verts
    have : s.toFinset = insert e s'.toFinset := by
      ext x; simp only [List.mem_toFinset, Finset.mem_insert]; exact hmem x
    rw [this, Finset.biUnion_insert, Finset.union_comm]
  have hVcard : (verts top s).card = (verts top s').card + (endSet top e \ verts top s').card := by
    rw [hV, Finset.union_comm, ← Finset.card_sdiff_add_card, Nat.add_comm]
  omega

/-- `1 ≤ #new + #A ≤ 2` -/
theorem step_bounds (top : List (TEdge α)) (s' : List Nat) (e : Nat) :
    1 ≤ (endSet top e \ verts top s').card + (clsA top s' e).card ∧
      (endSet top e \ verts top s').card + (clsA top s' e).card ≤ 2 := by
  have hsplit := Finset.card_sdiff_add_card_inter (endSet top e) (verts top s')
  have hle2 := endSet_card_le top e
  have hpos : 0 < (endSet top e).card := by
    apply Finset.card_pos.mpr
    unfold endSet
    exact Finset.insert_nonempty _ _
  have hA := clsA_card_le top s' e
  have hAne : (endSet top e ∩ verts top s').card ≠ 0 → (clsA top s' e).card ≠ 0 := by
    intro h
    have := clsA_nonempty top s' e (Finset.card_pos.mp (Nat.pos_of_ne_zero h))
    exact (Finset.card_pos.mpr this).ne'
  omega

/-- **Removing an edge lowers the loop number by 0 or 1.** -/
theorem loopNumber_erase (top : List (TEdge α)) (s : List Nat) (hs : s.Nodup) (hvalid : ∀ x ∈ s, x < top.length)
    (e : Nat) (he : e ∈ s) :
    loopNumber top s = loopNumber top (s.erase e) ∨ loopNumber top s = loopNumber top (s.erase e) + 1 := by
  have h1 := loopNumber_erase_eq top s hs hvalid e he
  have h2 := step_bounds top (s.erase e) e
  omega

/-- both cases occur: in the bubble with a tail `0-1, 0-1, 1-2` removing a bubble edge lowers the loop number, removing the tail does not -/
example : let top : List (TEdge Nat) := [⟨0, 1, 1, false⟩, ⟨0, 1, 1, false⟩, ⟨1, 2, 1, false⟩]
    loopNumber top [0, 1, 2] = 1 ∧ loopNumber top ([0, 1, 2].erase 1) = 0 ∧ loopNumber top ([0, 1, 2].erase 2) = 1 := by decide

end Momtrop
