import Momtrop.Model.Mask
/-!
# Bit-mask lemmas (core Lean only)
-/
namespace Momtrop.Mask

theorem hasEdge_iff (g : Mask) (e : Nat) : hasEdge g e = g.testBit e := by
  unfold hasEdge
  rw [Nat.one_shiftLeft]
  by_cases h : g.testBit e
  · have : (g &&& 2 ^ e).testBit e = true := by simp [h]
    have hne : g &&& 2 ^ e ≠ 0 := by
      intro h0; rw [h0] at this; simp at this
    simp [h, hne]
  · have : g &&& 2 ^ e = 0 := by
      apply Nat.eq_of_testBit_eq
      intro i
      simp only [Nat.testBit_and, Nat.zero_testBit, Nat.testBit_two_pow]
      by_cases hi : e = i
      · subst hi; simp [h]
      · simp [hi]
    simp [h, this]

theorem hasEdge_pop (g : Mask) (e f : Nat) :
    hasEdge (pop g e) f = (if e = f then !hasEdge g f else hasEdge g f) := by
  simp only [hasEdge_iff, pop, Nat.one_shiftLeft, Nat.testBit_xor, Nat.testBit_two_pow]
  by_cases h : e = f <;> simp [h]

/-- removing a present edge removes exactly that edge from the edge list -/
theorem edges_pop (n : Nat) (g : Mask) (e : Nat) (he : hasEdge g e = true) :
    edges n (pop g e) = (edges n g).filter (· ≠ e) := by
  unfold edges
  rw [List.filter_filter]
  apply List.filter_congr
  intro f _
  rw [hasEdge_pop]
  by_cases h : e = f
  · subst h; simp [he]
  · have : f ≠ e := fun h' => h h'.symm
    simp [h, this]

theorem edges_full (n : Nat) : edges n (full n) = List.range n := by
  unfold edges full
  rw [Nat.one_shiftLeft]
  apply List.filter_eq_self.mpr
  intro e he
  rw [hasEdge_iff, Nat.testBit_two_pow_sub_one]
  simpa using List.mem_range.mp he

theorem mem_edges {n : Nat} {g : Mask} {e : Nat} : e ∈ edges n g ↔ e < n ∧ hasEdge g e = true := by
  simp [edges]

theorem edges_nodup (n : Nat) (g : Mask) : (edges n g).Nodup :=
  List.Nodup.sublist List.filter_sublist List.nodup_range

theorem edges_zero (n : Nat) : edges n 0 = [] := by
  unfold edges
  apply List.filter_eq_nil_iff.mpr
  intro e _
  simp [hasEdge]

/-- the number of edges drops by exactly one when a present edge is removed -/
theorem card_pop (n : Nat) (g : Mask) (e : Nat) (he : e ∈ edges n g) :
    (edges n (pop g e)).length + 1 = (edges n g).length := by
  rw [edges_pop n g e (mem_edges.mp he).2]
  have hnd := edges_nodup n g
  have h1 : (edges n g).filter (· ≠ e) = (edges n g).erase e := by
    rw [List.Nodup.erase_eq_filter hnd]
    apply List.filter_congr; intro x _
    by_cases hx : x = e <;> simp [hx]
  rw [h1, List.length_erase_of_mem he]
  have : 0 < (edges n g).length := List.length_pos_of_mem he
  omega

theorem pop_lt {n : Nat} {g : Mask} {e : Nat} (hg : g < 2 ^ n) (he : e < n) : pop g e < 2 ^ n := by
  unfold pop
  rw [Nat.one_shiftLeft]
  exact Nat.xor_lt_two_pow hg (Nat.pow_lt_pow_right (by omega) he)

end Momtrop.Mask

namespace Momtrop.Mask
/-- a non-zero id below `2^n` lists at least one edge -/
theorem edges_ne_nil {n : Nat} {g : Mask} (hg : g < 2 ^ n) (h0 : g ≠ 0) : edges n g ≠ [] := by
  obtain ⟨i, hi⟩ := Nat.exists_testBit_of_ne_zero h0
  have hin : i < n := by
    have hge := Nat.ge_two_pow_of_testBit hi
    apply Nat.lt_of_not_le
    intro hcon
    have : 2 ^ n ≤ 2 ^ i := Nat.pow_le_pow_right (by omega) hcon
    exact absurd (Nat.lt_of_lt_of_le hg (Nat.le_trans this hge)) (Nat.lt_irrefl _)
  intro hnil
  have : i ∈ edges n g := mem_edges.mpr ⟨hin, by rw [hasEdge_iff]; exact hi⟩
  rw [hnil] at this; simp at this
end Momtrop.Mask

namespace Momtrop.Mask

theorem popcount_zero : popcount 0 = 0 := by unfold popcount; rfl

theorem popcount_pos (g : Nat) (h : g ≠ 0) : popcount g = g % 2 + popcount (g / 2) := by
  cases g with
  | zero => exact absurd rfl h
  | succ n => rw [popcount]

theorem range_succ_filter (n : Nat) (p : Nat → Bool) :
    ((List.range (n + 1)).filter p).length
      = (if p 0 then 1 else 0) + ((List.range n).filter fun i => p (i + 1)).length := by
  rw [List.range_succ_eq_map, List.filter_cons]
  have : (List.filter p (List.map Nat.succ (List.range n))).length
      = ((List.range n).filter fun i => p (i + 1)).length := by
    rw [List.filter_map, List.length_map]; rfl
  by_cases h0 : p 0 <;> simp [h0, this] <;> omega

/-- `count_ones` of an id below `2^n` is the number of edges it lists -/
theorem popcount_eq_card (n : Nat) : ∀ g : Nat, g < 2 ^ n → popcount g = (edges n g).length := by
  induction n with
  | zero =>
    intro g hg
    have : g = 0 := by simpa using hg
    subst this; simp [popcount_zero, edges]
  | succ n ih =>
    intro g hg
    by_cases h0 : g = 0
    · subst h0; rw [popcount_zero, edges_zero]; rfl
    · rw [popcount_pos g h0]
      have hhalf : g / 2 < 2 ^ n := by
        rw [Nat.pow_succ] at hg; omega
      rw [ih (g / 2) hhalf]
      unfold edges
      rw [range_succ_filter]
      have h1 : (if hasEdge g 0 = true then 1 else 0) = g % 2 := by
        rw [hasEdge_iff, Nat.testBit_zero]
        rcases Nat.mod_two_eq_zero_or_one g with h | h <;> simp [h]
      have h2 : ((List.range n).filter fun i => hasEdge g (i + 1)) = (List.range n).filter fun i => hasEdge (g / 2) i := by
        apply List.filter_congr
        intro i _
        rw [hasEdge_iff, hasEdge_iff, Nat.testBit_succ]
      rw [h1, h2]

theorem hasOneEdge_iff {n : Nat} {g : Mask} (hg : g < 2 ^ n) :
    hasOneEdge g = true ↔ (edges n g).length = 1 := by
  unfold hasOneEdge
  rw [popcount_eq_card n g hg]
  simp

theorem isEmpty_iff_card {n : Nat} {g : Mask} (hg : g < 2 ^ n) : isEmpty g = true ↔ (edges n g).length = 0 := by
  unfold isEmpty
  constructor
  · intro h; have : g = 0 := by simpa using h
    subst this; rw [edges_zero]; rfl
  · intro h
    have hnil : edges n g = [] := List.eq_nil_of_length_eq_zero h
    by_cases h0 : g = 0
    · simp [h0]
    · exact absurd hnil (edges_ne_nil hg h0)

end Momtrop.Mask

namespace Momtrop.Mask

theorem testBit_foldl_or (l : List Nat) (acc i : Nat) :
    (l.foldl (fun id e => id ||| (1 <<< e)) acc).testBit i = (acc.testBit i || decide (i ∈ l)) := by
  induction l generalizing acc with
  | nil => simp
  | cons a as ih =>
    rw [List.foldl_cons, ih, Nat.testBit_or, Nat.one_shiftLeft, Nat.testBit_two_pow]
    by_cases h : a = i
    · subst h; simp
    · have : ¬ i = a := fun h' => h h'.symm
      simp [h, this]

/-- `from_edge_list` builds the id whose set bits are exactly the listed edges -/
theorem hasEdge_ofList (l : List Nat) (e : Nat) : hasEdge (ofList l) e = decide (e ∈ l) := by
  rw [hasEdge_iff]; unfold ofList
  rw [testBit_foldl_or]; simp

theorem mem_edges_ofList {n : Nat} {l : List Nat} {e : Nat} : e ∈ edges n (ofList l) ↔ e < n ∧ e ∈ l := by
  rw [mem_edges, hasEdge_ofList]; simp

end Momtrop.Mask
