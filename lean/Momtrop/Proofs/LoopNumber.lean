import Momtrop.Proofs.Components
import Momtrop.Proofs.MaskLemmas
import Mathlib.Data.Finset.Card
import Mathlib.Data.List.Perm.Lattice
import Mathlib.Algebra.BigOperators.Group.Finset.Basic
/-!
# The loop number of the table is the cyclomatic number `|s| − |V(s)| + #components`
-/
namespace Momtrop
variable {α : Type}

/-- `eraseDups` keeps one copy of every element: its length is the number of distinct elements -/
theorem length_eraseDups (l : List Nat) : l.eraseDups.length = l.toFinset.card := by
  induction h : l.length using Nat.strong_induction_on generalizing l with
  | _ n ih =>
    cases l with
    | nil => simp
    | cons a as =>
      rw [List.eraseDups_cons, List.length_cons]
      have hlen : (as.filter fun b => !b == a).length < n := by
        subst h
        exact Nat.lt_succ_of_le (List.length_filter_le _ _)
      rw [ih _ hlen _ rfl]
      have : (as.filter fun b => !b == a).toFinset = as.toFinset.erase a := by
        ext x; simp [List.mem_filter]; tauto
      rw [this, List.toFinset_cons, Finset.card_insert_eq_ite]
      by_cases ha : a ∈ as.toFinset
      · simp only [ha, if_true]
        rw [Finset.card_erase_of_mem ha]
        have : 0 < as.toFinset.card := Finset.card_pos.mpr ⟨a, ha⟩
        omega
      · simp only [ha, if_false]
        rw [Finset.erase_eq_of_notMem ha]

/-- end points of an edge as a finite set -/
def endSet (top : List (TEdge α)) (e : Nat) : Finset Nat := {(endsOf top e).1, (endsOf top e).2}

/-- the vertices touched by a set of edges -/
def verts (top : List (TEdge α)) (c : List Nat) : Finset Nat := c.toFinset.biUnion (endSet top)

theorem vertexSet_length (top : List (TEdge α)) (c : List Nat) : (vertexSet top c).length = (verts top c).card := by
  unfold vertexSet verts
  rw [length_eraseDups]
  congr 1
  ext v
  simp only [List.mem_toFinset, List.mem_flatMap, Finset.mem_biUnion, endSet, Finset.mem_insert, Finset.mem_singleton]
  constructor
  · rintro ⟨e, he, hv⟩; exact ⟨e, he, by simpa using hv⟩
  · rintro ⟨e, he, hv⟩; exact ⟨e, he, by simpa using hv⟩

theorem endSet_card_le (top : List (TEdge α)) (e : Nat) : (endSet top e).card ≤ 2 := Finset.card_le_two

/-- adjacent edges share an end point -/
theorem adj_iff_share (top : List (TEdge α)) (e f : Nat) :
    adj top e f = true ↔ ∃ v, v ∈ endSet top e ∧ v ∈ endSet top f := by
  unfold adj containsVertex endSet
  simp only [Bool.or_eq_true, beq_iff_eq, Finset.mem_insert, Finset.mem_singleton]
  constructor
  · rintro ((h | h) | (h | h))
    · exact ⟨_, Or.inl rfl, Or.inl h⟩
    · exact ⟨_, Or.inr rfl, Or.inl h⟩
    · exact ⟨_, Or.inl rfl, Or.inr h⟩
    · exact ⟨_, Or.inr rfl, Or.inr h⟩
  · rintro ⟨v, hv1, hv2⟩
    rcases hv1 with rfl | rfl <;> rcases hv2 with h | h <;> simp [h]

theorem verts_mono (top : List (TEdge α)) {c d : List Nat} (h : ∀ e ∈ c, e ∈ d) : verts top c ⊆ verts top d := by
  unfold verts
  apply Finset.biUnion_subset_biUnion_of_subset_left
  intro e he; simp only [List.mem_toFinset] at he ⊢; exact h e he

/-- adding one edge that touches the current vertex set adds at most one vertex -/
theorem verts_cons_card (top : List (TEdge α)) (c : List Nat) (f : Nat)
    (hshare : ∃ v, v ∈ endSet top f ∧ v ∈ verts top c) :
    (verts top (f :: c)).card ≤ (verts top c).card + 1 := by
  obtain ⟨v, hvf, hvc⟩ := hshare
  have hsub : verts top (f :: c) ⊆ verts top c ∪ (endSet top f).erase v := by
    intro w hw
    unfold verts at hw
    simp only [List.toFinset_cons, Finset.biUnion_insert, Finset.mem_union] at hw
    rcases hw with hw | hw
    · by_cases hwv : w = v
      · subst hwv; exact Finset.mem_union_left _ hvc
      · exact Finset.mem_union_right _ (Finset.mem_erase.mpr ⟨hwv, hw⟩)
    · exact Finset.mem_union_left _ hw
  calc (verts top (f :: c)).card ≤ (verts top c ∪ (endSet top f).erase v).card := Finset.card_le_card hsub
    _ ≤ (verts top c).card + ((endSet top f).erase v).card := Finset.card_union_le _ _
    _ ≤ (verts top c).card + 1 := by
        have h1 : ((endSet top f).erase v).card = (endSet top f).card - 1 := Finset.card_erase_of_mem hvf
        have h2 := endSet_card_le top f
        omega

/-- adding a list of edges each of which touches the vertex set of `c` adds at most one vertex per edge -/
theorem verts_append_card (top : List (TEdge α)) (c : List Nat) :
    ∀ (news : List Nat), (∀ f ∈ news, ∃ v, v ∈ endSet top f ∧ v ∈ verts top c) →
      (verts top (news ++ c)).card ≤ (verts top c).card + news.length := by
  intro news
  induction news with
  | nil => intro _; simp
  | cons f fs ih =>
    intro h
    have h1 := ih (fun g hg => h g (List.mem_cons_of_mem _ hg))
    have h2 : ∃ v, v ∈ endSet top f ∧ v ∈ verts top (fs ++ c) := by
      obtain ⟨v, hv1, hv2⟩ := h f List.mem_cons_self
      exact ⟨v, hv1, verts_mono top (fun e he => List.mem_append.mpr (Or.inr he)) hv2⟩
    have h3 := verts_cons_card top (fs ++ c) f h2
    simp only [List.cons_append, List.length_cons]
    omega

theorem verts_perm (top : List (TEdge α)) {c d : List Nat} (h : ∀ e, e ∈ c ↔ e ∈ d) : verts top c = verts top d := by
  unfold verts
  congr 1
  ext e; simp [h e]

/-- **Tree bound**: the set found by one component search has at most `edges + 1` vertices -/
theorem closure_verts_le (top : List (TEdge α)) (s : List Nat) (hs : s.Nodup) :
    ∀ (fuel : Nat) (comp : List Nat), comp.Nodup → (∀ e ∈ comp, e ∈ s) → comp ≠ [] →
      (verts top comp).card ≤ comp.length + 1 →
      (verts top (closure top s fuel comp)).card ≤ (closure top s fuel comp).length + 1 := by
  intro fuel
  induction fuel with
  | zero => intro comp _ _ _ h; exact h
  | succ fuel ih =>
    intro comp hnd hsub hne hcard
    unfold closure
    simp only
    split
    · exact hcard
    · have hgn : (grow top s comp).Nodup := hs.filter _
      have hcg : ∀ e ∈ comp, e ∈ grow top s comp := subset_grow hsub
      apply ih _ hgn (fun e he => (mem_grow.mp he).1)
      · intro h0
        obtain ⟨e, he⟩ := List.exists_mem_of_ne_nil comp hne
        have := hcg e he; rw [h0] at this; simp at this
      · -- new edges: those of grow not in comp
        set news := (grow top s comp).filter (fun f => !comp.contains f) with hnews
        have hmem : ∀ e, e ∈ grow top s comp ↔ e ∈ news ++ comp := by
          intro e
          simp only [hnews, List.mem_append, List.mem_filter]
          constructor
          · intro h
            by_cases hc : e ∈ comp
            · exact Or.inr hc
            · exact Or.inl ⟨h, by simpa using hc⟩
          · rintro (⟨h, _⟩ | h)
            · exact h
            · exact hcg e h
        have hlen : (grow top s comp).length = news.length + comp.length := by
          have hnd2 : (news ++ comp).Nodup := by
            rw [List.nodup_append]
            refine ⟨hgn.filter _, hnd, ?_⟩
            intro a ha b hb hab
            subst hab
            simp only [hnews, List.mem_filter] at ha
            have : a ∉ comp := by simpa using ha.2
            exact this hb
          have := (List.perm_ext_iff_of_nodup hgn hnd2).mpr hmem
          rw [this.length_eq, List.length_append]
        rw [verts_perm top hmem, hlen]
        have hshare : ∀ f ∈ news, ∃ v, v ∈ endSet top f ∧ v ∈ verts top comp := by
          intro f hf
          simp only [hnews, List.mem_filter] at hf
          obtain ⟨_, e, he, hadj⟩ := mem_grow.mp hf.1
          obtain ⟨v, hve, hvf⟩ := (adj_iff_share top e f).mp hadj
          refine ⟨v, hvf, ?_⟩
          unfold verts
          exact Finset.mem_biUnion.mpr ⟨e, by simpa using he, hve⟩
        have := verts_append_card top comp news hshare
        omega

end Momtrop

namespace Momtrop
variable {α : Type}

theorem verts_append (top : List (TEdge α)) (c d : List Nat) : verts top (c ++ d) = verts top c ∪ verts top d := by
  unfold verts
  rw [List.toFinset_append, Finset.union_biUnion]

theorem sum_tree (cs : List (List Nat)) (V : List Nat → Nat) (h : ∀ c ∈ cs, V c ≤ c.length + 1) :
    (cs.map fun c => 1 + c.length - V c).sum + (cs.map V).sum = cs.length + (cs.map List.length).sum := by
  induction cs with
  | nil => simp
  | cons c cs ih =>
    have h1 := h c List.mem_cons_self
    have h2 := ih (fun d hd => h d (List.mem_cons_of_mem _ hd))
    simp only [List.map_cons, List.sum_cons, List.length_cons]
    omega

/-- vertex sets of the pieces of a vertex-disjoint family add up -/
theorem verts_flatten_card (top : List (TEdge α)) (cs : List (List Nat))
    (hdis : List.Pairwise (fun c1 c2 => Disjoint (verts top c1) (verts top c2)) cs) :
    (verts top cs.flatten).card = (cs.map fun c => (verts top c).card).sum := by
  induction cs with
  | nil => simp [verts]
  | cons c cs ih =>
    rw [List.pairwise_cons] at hdis
    rw [List.flatten_cons, verts_append, List.map_cons, List.sum_cons, ← ih hdis.2]
    apply Finset.card_union_of_disjoint
    -- verts of the flattened rest is the union of the pieces, each disjoint from verts c
    rw [Finset.disjoint_left]
    intro v hv hv'
    unfold verts at hv'
    obtain ⟨e, he, hve⟩ := Finset.mem_biUnion.mp hv'
    simp only [List.mem_toFinset, List.mem_flatten] at he
    obtain ⟨d, hd, hed⟩ := he
    have := hdis.1 d hd
    rw [Finset.disjoint_left] at this
    exact this hv (Finset.mem_biUnion.mpr ⟨e, by simpa using hed, hve⟩)

/-- **Cyclomatic number.** For a duplicate-free edge list `s` of valid edge ids, the loop number computed by
`get_loop_number` satisfies `loops + |V(s)| = |s| + #components` (edges − touched vertices + components). -/
theorem loopNumber_cyclomatic (top : List (TEdge α)) (s : List Nat) (hs : s.Nodup)
    (hvalid : ∀ e ∈ s, e < top.length) :
    loopNumber top s + (verts top s).card = s.length + (componentLists top s).length := by
  obtain ⟨hclass, hpair, hcover⟩ := componentLists_spec top s hs
  set cs := componentLists top s with hcs
  -- facts about every component
  have hfacts : ∀ c ∈ cs, c.Nodup ∧ (∀ e ∈ c, e ∈ s) ∧ (verts top c).card ≤ c.length + 1 ∧
      loopNumberComp top (Mask.ofList c) = 1 + c.length - (verts top c).card := by
    intro c hc
    obtain ⟨seed, hseed, hcl⟩ := hclass c hc
    -- c is the closure from its seed: recover nodup / subset / tree bound through membership
    have hsub : ∀ e ∈ c, e ∈ s := by
      intro e he
      have hconn := (hcl e).mp he
      cases hconn with
      | refl => exact hseed
      | tail _ hstep => exact hstep.2.1
    -- every component list produced by compsLoop is a closure, hence duplicate-free with the tree bound
    have hclos : ∃ sd, sd ∈ s ∧ c = closure top s (s.length + 1) [sd] := by
      have : ∀ (fuel : Nat) (vis : List Nat), c ∈ compsLoop top s fuel vis →
          ∃ sd, sd ∈ s ∧ c = closure top s (s.length + 1) [sd] := by
        intro fuel
        induction fuel with
        | zero => intro vis h; simp [compsLoop] at h
        | succ fuel ih =>
          intro vis h
          cases hf : s.find? (fun e => !vis.contains e) with
          | none => simp only [compsLoop, hf] at h; simp at h
          | some sd =>
            simp only [compsLoop, hf] at h
            rcases List.mem_cons.mp h with rfl | h'
            · exact ⟨sd, List.mem_of_find?_eq_some hf, rfl⟩
            · exact ih _ h'
      exact this s.length [] hc
    obtain ⟨sd, hsd, rfl⟩ := hclos
    have hnd : (closure top s (s.length + 1) [sd]).Nodup := closure_nodup top s hs _ _ (by simp)
    have hbase : (verts top [sd]).card ≤ [sd].length + 1 := by
      have : verts top [sd] = endSet top sd := by simp [verts]
      rw [this]; exact endSet_card_le top sd
    have htree := closure_verts_le top s hs (s.length + 1) [sd] (by simp)
      (fun e he => by simp at he; subst he; exact hsd) (by simp) hbase
    refine ⟨hnd, hsub, htree, ?_⟩
    -- the mask lists exactly the component's edges
    have hmem : ∀ e, e ∈ Mask.edges top.length (Mask.ofList (closure top s (s.length + 1) [sd]))
        ↔ e ∈ closure top s (s.length + 1) [sd] := by
      intro e
      rw [Mask.mem_edges_ofList]
      exact ⟨fun h => h.2, fun h => ⟨hvalid e (hsub e h), h⟩⟩
    have hperm := (List.perm_ext_iff_of_nodup (Mask.edges_nodup top.length _) hnd).mpr hmem
    unfold loopNumberComp
    simp only
    rw [vertexSet_length, verts_perm top hmem, hperm.length_eq]
  -- the loop number is the sum over the components
  have hloop : loopNumber top s = (cs.map fun c => 1 + c.length - (verts top c).card).sum := by
    unfold loopNumber components
    rw [List.map_map]
    congr 1
    apply List.map_congr_left
    intro c hc
    exact (hfacts c hc).2.2.2
  -- the component lists partition s
  have hflat_nd : cs.flatten.Nodup := by
    rw [List.nodup_flatten]
    refine ⟨fun c hc => (hfacts c hc).1, ?_⟩
    apply List.Pairwise.imp _ hpair
    intro c1 c2 h
    intro e he1 he2
    exact h e he1 he2
  have hflat_mem : ∀ e, e ∈ cs.flatten ↔ e ∈ s := by
    intro e
    rw [List.mem_flatten]
    constructor
    · rintro ⟨c, hc, he⟩; exact (hfacts c hc).2.1 e he
    · intro he; obtain ⟨c, hc, hec⟩ := hcover e he; exact ⟨c, hc, hec⟩
  have hlen : (cs.map List.length).sum = s.length := by
    rw [← List.length_flatten]
    exact ((List.perm_ext_iff_of_nodup hflat_nd hs).mpr hflat_mem).length_eq
  -- vertex sets of different components are disjoint
  have hvdis : List.Pairwise (fun c1 c2 => Disjoint (verts top c1) (verts top c2)) cs := by
    have hpair' : List.Pairwise (fun c1 c2 : List Nat => c1 ∈ cs ∧ c2 ∈ cs ∧ ∀ e, e ∈ c1 → e ∉ c2) cs := by
      apply List.Pairwise.imp_of_mem _ hpair
      intro c1 c2 h1 h2 h; exact ⟨h1, h2, h⟩
    apply List.Pairwise.imp _ hpair'
    intro c1 c2 ⟨h1, h2, hd⟩
    rw [Finset.disjoint_left]
    intro v hv1 hv2
    unfold verts at hv1 hv2
    obtain ⟨e1, he1, hve1⟩ := Finset.mem_biUnion.mp hv1
    obtain ⟨e2, he2, hve2⟩ := Finset.mem_biUnion.mp hv2
    simp only [List.mem_toFinset] at he1 he2
    have hadj : adj top e1 e2 = true := (adj_iff_share top e1 e2).mpr ⟨v, hve1, hve2⟩
    obtain ⟨sd, _, hcl⟩ := hclass c1 h1
    have hconn : EdgeConn top s sd e2 :=
      ((hcl e1).mp he1).tail ⟨(hfacts c1 h1).2.1 e1 he1, (hfacts c2 h2).2.1 e2 he2, hadj⟩
    exact hd e2 ((hcl e2).mpr hconn) he2
  have hverts : (verts top s).card = (cs.map fun c => (verts top c).card).sum := by
    rw [← verts_flatten_card top cs hvdis, verts_perm top hflat_mem]
  rw [hloop, hverts, ← hlen, Nat.add_comm (cs.map List.length).sum]
  exact sum_tree cs (fun c => (verts top c).card) (fun c hc => (hfacts c hc).2.2.1)

end Momtrop
