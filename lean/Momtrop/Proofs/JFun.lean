import Momtrop.Model.Table
import Momtrop.Proofs.MaskLemmas
/-!
# The memoised J recursion equals the direct recursion (law-free, core Lean only)
-/
namespace Momtrop
open Scalar
variable {α : Type} [Scalar α]

/-- number of edges of a subgraph id -/
def card (n : Nat) (g : Mask) : Nat := (Mask.edges n g).length

theorem isEmpty_iff (g : Mask) : Mask.isEmpty g = true ↔ g = 0 := by simp [Mask.isEmpty]

theorem card_zero (n : Nat) : card n 0 = 0 := by simp [card, Mask.edges_zero]

/-- the term of the recursion contributed by edge `e` -/
def jTerm (omega : Mask → α) (n : Nat) (fuel : Nat) (g : Mask) (e : Nat) : α :=
  jSpec omega n fuel (Mask.pop g e) / omega (Mask.pop g e)

theorem jSpec_succ (omega : Mask → α) (n fuel : Nat) (g : Mask) (hg : g ≠ 0) :
    jSpec omega n (fuel + 1) g = sumIter ((Mask.edges n g).map (jTerm omega n fuel g)) := by
  have : Mask.isEmpty g = false := by simpa [Mask.isEmpty] using hg
  simp only [jSpec, this, Bool.false_eq_true, if_false]
  rfl

theorem jSpec_zero_mask (omega : Mask → α) (n fuel : Nat) : jSpec omega n fuel 0 = one := by
  cases fuel <;> simp [jSpec, Mask.isEmpty]

theorem card_pos {n : Nat} {g : Mask} (hg : g < 2 ^ n) (h0 : g ≠ 0) : 0 < card n g := by
  unfold card
  exact List.length_pos_iff.mpr (Mask.edges_ne_nil hg h0)

/-- enough fuel: the value no longer depends on it -/
theorem jSpec_fuel (omega : Mask → α) (n : Nat) :
    ∀ (f : Nat) (g : Mask), g < 2 ^ n → card n g ≤ f → jSpec omega n f g = jSpec omega n (card n g) g := by
  intro f
  induction f with
  | zero =>
    intro g _ h
    have : card n g = 0 := by omega
    rw [this]
  | succ f ih =>
    intro g hlt h
    by_cases hg : g = 0
    · subst hg; rw [jSpec_zero_mask, jSpec_zero_mask]
    · have hp := card_pos hlt hg
      obtain ⟨c, hc⟩ : ∃ c, card n g = c + 1 := ⟨card n g - 1, by omega⟩
      rw [hc, jSpec_succ omega n f g hg, jSpec_succ omega n c g hg]
      congr 1
      apply List.map_congr_left
      intro e he
      unfold jTerm
      have hcard := Mask.card_pop n g e he
      have hlt' : Mask.pop g e < 2 ^ n := Mask.pop_lt hlt (Mask.mem_edges.mp he).1
      have h1 : card n (Mask.pop g e) ≤ f := by unfold card at *; omega
      have h2 : card n (Mask.pop g e) = c := by unfold card at *; omega
      rw [ih _ hlt' h1, h2]

/-! ### the memo table -/

/-- the value the recursion assigns to `g` -/
def Jval (omega : Mask → α) (n : Nat) (g : Mask) : α := jSpec omega n (card n g) g

/-- `h ⊆ g` as edge sets -/
def Sub (h g : Mask) : Prop := ∀ e, Mask.hasEdge h e = true → Mask.hasEdge g e = true

theorem Sub.refl (g : Mask) : Sub g g := fun _ h => h

theorem sub_zero {h : Mask} (hs : Sub h 0) : h = 0 := by
  apply Nat.eq_of_testBit_eq
  intro i
  have := hs i
  rw [Mask.hasEdge_iff, Mask.hasEdge_iff] at this
  cases hb : Nat.testBit h i with
  | false => simp
  | true => have := this hb; simp at this

/-- a proper subset misses some edge of `g`, and is then a subset of `g` without that edge -/
theorem sub_proper {n : Nat} {h g : Mask} (hg : g < 2 ^ n) (hs : Sub h g) (hne : h ≠ g) :
    ∃ e, e ∈ Mask.edges n g ∧ Sub h (Mask.pop g e) := by
  obtain ⟨i, hi⟩ := Nat.exists_testBit_ne_of_ne hne
  have hgi : Nat.testBit g i = true := by
    cases hb : Nat.testBit h i with
    | true =>
      have := hs i (by rw [Mask.hasEdge_iff]; exact hb)
      rw [Mask.hasEdge_iff] at this
      rw [hb, this] at hi; exact absurd rfl hi
    | false =>
      cases hc : Nat.testBit g i with
      | true => rfl
      | false => rw [hb, hc] at hi; exact absurd rfl hi
  have hhi : Nat.testBit h i = false := by
    cases hb : Nat.testBit h i with
    | false => rfl
    | true => rw [hb, hgi] at hi; exact absurd rfl hi
  have hin : i < n := by
    have hge := Nat.ge_two_pow_of_testBit hgi
    apply Nat.lt_of_not_le
    intro hcon
    have : 2 ^ n ≤ 2 ^ i := Nat.pow_le_pow_right (by omega) hcon
    exact absurd (Nat.lt_of_lt_of_le hg (Nat.le_trans this hge)) (Nat.lt_irrefl _)
  refine ⟨i, Mask.mem_edges.mpr ⟨hin, by rw [Mask.hasEdge_iff]; exact hgi⟩, ?_⟩
  intro f hf
  rw [Mask.hasEdge_pop]
  by_cases hif : i = f
  · subst hif; rw [Mask.hasEdge_iff] at hf; rw [hhi] at hf; exact absurd hf (by simp)
  · simp only [hif, if_false]; exact hs f hf

structure MemoInv (omega : Mask → α) (n : Nat) (memo : List (Option α)) : Prop where
  len : memo.length = 2 ^ n
  /-- every stored value is the recursion's value -/
  ok : ∀ g j, memo.getD g none = some j → j = Jval omega n g
  /-- a stored subgraph has all its subgraphs stored -/
  closed : ∀ g h, g < 2 ^ n → (memo.getD g none).isSome = true → Sub h g → (memo.getD h none).isSome = true

omit [Scalar α] in
theorem getD_set (memo : List (Option α)) (g h : Nat) (v : Option α) (hg : g < memo.length) :
    (memo.set g v).getD h none = if h = g then v else memo.getD h none := by
  simp only [List.getD_eq_getElem?_getD, List.getElem?_set]
  by_cases hh : g = h
  · subst hh; simp [hg]
  · have : ¬ h = g := fun e => hh e.symm
    simp [hh, this]

theorem sub_lt {n : Nat} {h g : Mask} (hg : g < 2 ^ n) (hs : Sub h g) : h < 2 ^ n := by
  apply Nat.lt_pow_two_of_testBit
  intro i hi
  cases hb : Nat.testBit h i with
  | false => rfl
  | true =>
    have := hs i (by rw [Mask.hasEdge_iff]; exact hb)
    rw [Mask.hasEdge_iff] at this
    have hge := Nat.ge_two_pow_of_testBit this
    have : 2 ^ n ≤ 2 ^ i := Nat.pow_le_pow_right (by omega) hi
    exact absurd (Nat.lt_of_lt_of_le hg (Nat.le_trans this hge)) (Nat.lt_irrefl _)

omit [Scalar α] in
theorem foldl_congr_mem {β : Type} (f g : α → β → α) (l : List β) (a : α)
    (h : ∀ acc e, e ∈ l → f acc e = g acc e) : l.foldl f a = l.foldl g a := by
  induction l generalizing a with
  | nil => rfl
  | cons x xs ih =>
    simp only [List.foldl_cons]
    rw [h a x (by simp)]
    exact ih _ (fun acc e he => h acc e (by simp [he]))

/-- What one call of the memoised fill guarantees. -/
structure FillPost (omega : Mask → α) (n : Nat) (g : Mask) (memo : List (Option α))
    (r : α × List (Option α)) : Prop where
  val : r.1 = Jval omega n g
  inv : MemoInv omega n r.2
  stored : r.2.getD g none = some (Jval omega n g)
  mono : ∀ h, (memo.getD h none).isSome = true → (r.2.getD h none).isSome = true

theorem Jval_zero (omega : Mask → α) (n : Nat) : Jval omega n 0 = one := by
  unfold Jval; exact jSpec_zero_mask omega n _

theorem inv_set (omega : Mask → α) (n : Nat) (memo : List (Option α)) (hinv : MemoInv omega n memo)
    (g : Mask) (hg : g < 2 ^ n)
    (hsubs : ∀ h, Sub h g → h ≠ g → (memo.getD h none).isSome = true) :
    MemoInv omega n (memo.set g (some (Jval omega n g))) := by
  have hlen : g < memo.length := by rw [hinv.len]; exact hg
  refine ⟨by simp [hinv.len], ?_, ?_⟩
  · intro k j hk
    rw [getD_set memo g k _ hlen] at hk
    by_cases hkg : k = g
    · subst hkg; simp at hk; exact hk.symm
    · simp only [hkg, if_false] at hk; exact hinv.ok k j hk
  · intro k h hk hks hsub
    rw [getD_set memo g h _ hlen]
    by_cases hhg : h = g
    · simp [hhg]
    · simp only [hhg, if_false]
      rw [getD_set memo g k _ hlen] at hks
      by_cases hkg : k = g
      · subst hkg; exact hsubs h hsub hhg
      · simp only [hkg, if_false] at hks
        exact hinv.closed k h hk hks hsub

/-- **Memoisation soundness** (`recursive_fill_j_function`): a call returns the value of the direct
recursion, keeps every stored value correct, stores `g` and — by closure — all its subgraphs. -/
theorem fillJ_spec (omega : Mask → α) (n : Nat) :
    ∀ (fuel : Nat) (g : Mask) (memo : List (Option α)), g < 2 ^ n → card n g ≤ fuel →
      MemoInv omega n memo → FillPost omega n g memo (fillJ omega n fuel g memo) := by
  intro fuel
  induction fuel with
  | zero =>
    intro g memo hg hc hinv
    have hg0 : g = 0 := by
      apply Classical.byContradiction
      intro h0
      have := card_pos hg h0
      omega
    subst hg0
    have hlen : 0 < memo.length := by rw [hinv.len]; exact hg
    have hset := inv_set omega n memo hinv 0 hg (fun h hs hne => absurd (sub_zero hs) hne)
    rw [Jval_zero] at hset
    have hf : fillJ omega n 0 0 memo = (one, memo.set 0 (some one)) := by simp only [fillJ]
    rw [hf]
    refine ⟨(Jval_zero omega n).symm, hset, ?_, ?_⟩
    · show (memo.set 0 (some one)).getD 0 none = some (Jval omega n 0)
      rw [Jval_zero, getD_set memo 0 0 _ hlen, if_pos rfl]
    · intro h hh
      show ((memo.set 0 (some one)).getD h none).isSome = true
      rw [getD_set memo 0 h _ hlen]
      by_cases h0 : h = 0
      · rw [if_pos h0]; rfl
      · rw [if_neg h0]; exact hh
  | succ fuel ih =>
    intro g memo hg hc hinv
    have hlen : g < memo.length := by rw [hinv.len]; exact hg
    by_cases hg0 : g = 0
    · subst hg0
      have hset := inv_set omega n memo hinv 0 hg (fun h hs hne => absurd (sub_zero hs) hne)
      rw [Jval_zero] at hset
      have hf : fillJ omega n (fuel + 1) 0 memo = (one, memo.set 0 (some one)) := by
        simp only [fillJ, Mask.isEmpty, beq_self_eq_true, if_true]
      rw [hf]
      refine ⟨(Jval_zero omega n).symm, hset, ?_, ?_⟩
      · show (memo.set 0 (some one)).getD 0 none = some (Jval omega n 0)
        rw [Jval_zero, getD_set memo 0 0 _ hlen, if_pos rfl]
      · intro h hh
        show ((memo.set 0 (some one)).getD h none).isSome = true
        rw [getD_set memo 0 h _ hlen]
        by_cases h0 : h = 0
        · rw [if_pos h0]; rfl
        · rw [if_neg h0]; exact hh
    · have hemp : Mask.isEmpty g = false := by simpa [Mask.isEmpty] using hg0
      cases hm : memo.getD g none with
      | some j =>
        have hj := hinv.ok g j hm
        have : fillJ omega n (fuel + 1) g memo = (j, memo) := by
          simp only [fillJ, hemp, Bool.false_eq_true, if_false, hm]
        rw [this]
        exact ⟨hj, hinv, by rw [hm, hj], fun h hh => hh⟩
      | none =>
        -- the fold over the edges of g
        let step := fun (acc : α × List (Option α)) (e : Nat) =>
          let r := fillJ omega n fuel (Mask.pop g e) acc.2
          (acc.1 + r.1 / omega (Mask.pop g e), r.2)
        have hfold : ∀ (es : List Nat) (a : α) (m : List (Option α)),
            (∀ e, e ∈ es → e ∈ Mask.edges n g) → MemoInv omega n m →
            let res := es.foldl step (a, m)
            res.1 = es.foldl (fun acc e => acc + Jval omega n (Mask.pop g e) / omega (Mask.pop g e)) a ∧
            MemoInv omega n res.2 ∧
            (∀ h, (m.getD h none).isSome = true → (res.2.getD h none).isSome = true) ∧
            (∀ e, e ∈ es → (res.2.getD (Mask.pop g e) none).isSome = true) := by
          intro es
          induction es with
          | nil => intro a m _ hm'; exact ⟨rfl, hm', fun h hh => hh, fun e he => by simp at he⟩
          | cons e es ihes =>
            intro a m hmem hm'
            have he : e ∈ Mask.edges n g := hmem e (by simp)
            have hpl : Mask.pop g e < 2 ^ n := Mask.pop_lt hg (Mask.mem_edges.mp he).1
            have hcp : card n (Mask.pop g e) ≤ fuel := by
              have := Mask.card_pop n g e he; unfold card at *; omega
            have post := ih (Mask.pop g e) m hpl hcp hm'
            have := ihes (a + (fillJ omega n fuel (Mask.pop g e) m).1 / omega (Mask.pop g e))
              (fillJ omega n fuel (Mask.pop g e) m).2 (fun x hx => hmem x (by simp [hx])) post.inv
            simp only [List.foldl_cons]
            obtain ⟨h1, h2, h3, h4⟩ := this
            refine ⟨?_, h2, fun h hh => h3 h (post.mono h hh), ?_⟩
            · show (es.foldl step (step (a, m) e)).1 = _
              have hstep : step (a, m) e = (a + (fillJ omega n fuel (Mask.pop g e) m).1 / omega (Mask.pop g e),
                  (fillJ omega n fuel (Mask.pop g e) m).2) := rfl
              rw [hstep, h1, post.val]
            · intro x hx
              rcases List.mem_cons.mp hx with rfl | hx'
              · have hs : ((fillJ omega n fuel (Mask.pop g x) m).2.getD (Mask.pop g x) none).isSome = true := by
                  rw [post.stored]; rfl
                exact h3 _ hs
              · exact h4 x hx'
        have hres := hfold (Mask.edges n g) (-(zero : α)) memo (fun e he => he) hinv
        simp only at hres
        obtain ⟨hv, hi, hmono, hstored⟩ := hres
        have hJ : (Mask.edges n g).foldl (fun acc e => acc + Jval omega n (Mask.pop g e) / omega (Mask.pop g e)) (-(zero : α))
            = Jval omega n g := by
          have hp := card_pos hg hg0
          obtain ⟨c, hcc⟩ : ∃ c, card n g = c + 1 := ⟨card n g - 1, by omega⟩
          unfold Jval
          rw [hcc, jSpec_succ omega n c g hg0, sumIter, List.foldl_map]
          apply foldl_congr_mem
          intro acc e he
          have := Mask.card_pop n g e he
          have h2 : card n (Mask.pop g e) = c := by unfold card at *; omega
          unfold jTerm; rw [h2]
        have hfill : fillJ omega n (fuel + 1) g memo =
            (((Mask.edges n g).foldl step (-(zero : α), memo)).1,
             ((Mask.edges n g).foldl step (-(zero : α), memo)).2.set g
               (some ((Mask.edges n g).foldl step (-(zero : α), memo)).1)) := by
          simp only [fillJ, hemp, Bool.false_eq_true, if_false, hm]
          rfl
        rw [hfill, hv, hJ]
        have hlen' : g < ((Mask.edges n g).foldl step (-(zero : α), memo)).2.length := by rw [hi.len]; exact hg
        have hsubs : ∀ h, Sub h g → h ≠ g →
            ((((Mask.edges n g).foldl step (-(zero : α), memo)).2).getD h none).isSome = true := by
          intro h hs hne
          obtain ⟨e, he, hse⟩ := sub_proper hg hs hne
          have hpl : Mask.pop g e < 2 ^ n := Mask.pop_lt hg (Mask.mem_edges.mp he).1
          exact hi.closed (Mask.pop g e) h hpl (hstored e he) hse
        refine ⟨rfl, inv_set omega n _ hi g hg hsubs, ?_, ?_⟩
        · show (List.set _ g _).getD g none = _
          rw [getD_set _ g g _ hlen', if_pos rfl]
        · intro h hh
          show ((List.set _ g _).getD h none).isSome = true
          rw [getD_set _ g h _ hlen']
          by_cases hhg : h = g
          · rw [if_pos hhg]; rfl
          · rw [if_neg hhg]; exact hmono h hh

/-- the all-`none` table satisfies the invariant -/
theorem inv_replicate (omega : Mask → α) (n : Nat) : MemoInv omega n (List.replicate (2 ^ n) none) := by
  refine ⟨by simp, ?_, ?_⟩
  · intro g j h
    simp [List.getD_eq_getElem?_getD, List.getElem?_replicate] at h
    split at h <;> simp at h
  · intro g h _ hs _
    simp [List.getD_eq_getElem?_getD, List.getElem?_replicate] at hs
    split at hs <;> simp at hs
