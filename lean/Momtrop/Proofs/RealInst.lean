import Momtrop.Model.Scalar
import Mathlib.Analysis.SpecialFunctions.Pow.Real
import Mathlib.Analysis.SpecialFunctions.Trigonometric.Basic
/-!
# The reference instantiation `Scalar ℝ` (exact arithmetic)

`R`-theorems are statements about the model instantiated here. `ofF64` is the exact real value of
the binary64 bit pattern (NaN/∞ patterns are mapped to the value their fields would have as finite
numbers; theorems that care exclude them by hypothesis).
-/
namespace Momtrop

/-- exact value of a binary64 bit pattern, read as sign / biased exponent / mantissa -/
noncomputable def f64ToReal (b : UInt64) : ℝ :=
  let n : ℕ := b.toNat
  let s : ℕ := n / 2 ^ 63
  let e : ℕ := (n / 2 ^ 52) % 2 ^ 11
  let m : ℕ := n % 2 ^ 52
  let mag : ℝ := if e = 0 then (m : ℝ) * (2 : ℝ) ^ (-1074 : ℤ)
                 else ((2 ^ 52 + m : ℕ) : ℝ) * (2 : ℝ) ^ ((e : ℤ) - 1075)
  if s = 0 then mag else -mag

noncomputable instance instScalarReal : Scalar ℝ where
  zero := 0
  one := 1
  pi := Real.pi
  sqrt := Real.sqrt
  ln := Real.log
  exp := Real.exp
  cos := Real.cos
  sin := Real.sin
  abs := fun x => |x|
  inv := fun x => x⁻¹
  powf := fun x y => x ^ y
  ofInt := fun n => (n : ℝ)
  ofF64 := f64ToReal
  decLe := fun _ _ => Classical.dec _
  decLt := fun _ _ => Classical.dec _
  beq := fun a b => @decide (a = b) (Classical.dec _)

namespace Scalar
@[simp] theorem zero_real : (Scalar.zero : ℝ) = 0 := rfl
@[simp] theorem one_real : (Scalar.one : ℝ) = 1 := rfl
@[simp] theorem pi_real : (Scalar.pi : ℝ) = Real.pi := rfl
@[simp] theorem sqrt_real (x : ℝ) : Scalar.sqrt x = Real.sqrt x := rfl
@[simp] theorem ln_real (x : ℝ) : Scalar.ln x = Real.log x := rfl
@[simp] theorem exp_real (x : ℝ) : Scalar.exp x = Real.exp x := rfl
@[simp] theorem cos_real (x : ℝ) : Scalar.cos x = Real.cos x := rfl
@[simp] theorem sin_real (x : ℝ) : Scalar.sin x = Real.sin x := rfl
@[simp] theorem abs_real (x : ℝ) : Scalar.abs x = |x| := rfl
@[simp] theorem inv_real (x : ℝ) : Scalar.inv x = x⁻¹ := rfl
@[simp] theorem powf_real (x y : ℝ) : Scalar.powf x y = x ^ y := rfl
@[simp] theorem ofInt_real (n : Int) : (Scalar.ofInt n : ℝ) = (n : ℝ) := rfl
@[simp] theorem beq_real (a b : ℝ) : Scalar.beq a b = true ↔ a = b := by
  simp [Scalar.beq]
@[simp] theorem geB_real (a b : ℝ) : geB a b = true ↔ b ≤ a := by simp [geB]
@[simp] theorem gtB_real (a b : ℝ) : gtB a b = true ↔ b < a := by simp [gtB]
@[simp] theorem leB_real (a b : ℝ) : leB a b = true ↔ a ≤ b := by simp [leB]
@[simp] theorem ltB_real (a b : ℝ) : ltB a b = true ↔ a < b := by simp [ltB]

theorem subFold_eq (init : ℝ) (l : List ℝ) : subFold init l = init - l.sum := by
  unfold subFold
  induction l generalizing init with
  | nil => simp
  | cons x xs ih => simp [List.foldl_cons, ih, sub_sub]

theorem sumFrom_eq (init : ℝ) (l : List ℝ) : sumFrom init l = init + l.sum := by
  unfold sumFrom
  induction l generalizing init with
  | nil => simp
  | cons x xs ih => simp [List.foldl_cons, ih, add_assoc]

theorem sumIter_eq (l : List ℝ) : sumIter l = l.sum := by
  unfold sumIter
  have : ∀ init : ℝ, l.foldl (· + ·) init = init + l.sum := by
    intro init
    induction l generalizing init with
    | nil => simp
    | cons x xs ih => simp [List.foldl_cons, ih, add_assoc]
  rw [this]; simp

theorem mulFold_eq (init : ℝ) (l : List ℝ) : mulFold init l = init * l.prod := by
  unfold mulFold
  induction l generalizing init with
  | nil => simp
  | cons x xs ih => simp [List.foldl_cons, ih, mul_assoc]

theorem prodIter_eq (l : List ℝ) : prodIter l = l.prod := by
  unfold prodIter
  have := mulFold_eq 1 l
  unfold mulFold at this
  simpa using this

end Scalar
end Momtrop
