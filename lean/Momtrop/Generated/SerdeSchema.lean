import Momtrop.Model.SerdeG
/-! GENERATED on every run by /verif/mtv/serde_schema.py from /repo/src/lib.rs and /repo/src/preprocessing.rs — do not edit. -/
namespace Momtrop.Generated

/-- (struct, [(field, type, [serde attributes])]) in source order -/
def serdeSchema : List (String × List (String × String × List String)) := [
  ("SampleGenerator", [("loop_signature", "Vec<Vec<isize>>", []), ("table", "TropicalSubgraphTable", [])]),
  ("TropicalSubgraphTable", [("table", "Vec<TropicalSubgraphTableEntry>", []), ("dimension", "usize", []), ("tropical_graph", "TropicalGraph", []), ("cached_factor", "f64", [])]),
  ("TropicalSubgraphTableEntry", [("loop_number", "u8", []), ("mass_momentum_spanning", "bool", []), ("j_function", "f64", []), ("generalized_dod", "f64", [])]),
  ("TropicalGraph", [("dod", "f64", []), ("topology", "Vec<TropicalEdge>", []), ("num_massive_edges", "usize", []), ("external_vertices", "Vec<u8>", []), ("num_loops", "usize", [])]),
  ("TropicalEdge", [("edge_id", "u8", []), ("left", "u8", []), ("right", "u8", []), ("weight", "f64", []), ("is_massive", "bool", [])])]

/-- struct-level serde attributes, manual Serialize/Deserialize impls and any other serde attribute in the crate -/
def serdeCustomisations : List String := []

/-- structs deriving both Serialize and Deserialize -/
def serdeBoth : List String := ["SampleGenerator", "TropicalSubgraphTable", "TropicalSubgraphTableEntry", "TropicalGraph", "TropicalEdge"]

/-- the same schema with parsed field types: the argument of the schema-generic round-trip theorem (Props/C18G) -/
def typedSchema : Momtrop.SerdeG.Schema := [
  ("SampleGenerator", [("loop_signature", (.seq (.seq .int))), ("table", (.struct "TropicalSubgraphTable"))]),
  ("TropicalSubgraphTable", [("table", (.seq (.struct "TropicalSubgraphTableEntry"))), ("dimension", .nat), ("tropical_graph", (.struct "TropicalGraph")), ("cached_factor", .f64)]),
  ("TropicalSubgraphTableEntry", [("loop_number", .nat), ("mass_momentum_spanning", .bool), ("j_function", .f64), ("generalized_dod", .f64)]),
  ("TropicalGraph", [("dod", .f64), ("topology", (.seq (.struct "TropicalEdge"))), ("num_massive_edges", .nat), ("external_vertices", (.seq .nat)), ("num_loops", .nat)]),
  ("TropicalEdge", [("edge_id", .nat), ("left", .nat), ("right", .nat), ("weight", .f64), ("is_massive", .bool)])]

/-- every serde attribute on a field of these structs -/
def fieldAttrs : List String := []

end Momtrop.Generated
