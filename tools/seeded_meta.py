#!/usr/bin/env python3
"""Write seeded/<id>/meta.json (which property, what the change is and needs, what was run) and, with --run, apply every seeded
change to /repo in turn (git apply ... checkout), run the property's quick check and record the outcome in seeded/RESULTS.json."""
import json, os, subprocess, sys

SEEDED = "/verif/seeded"
DESC = {
 "C01-1": ("compute_l_matrix drops the sign of s_ei*s_ej (adds x_e for every edge on both loops)", "two or more loops and a routing with a mixed-sign signature row such as [1,-1]"),
 "C01-2": ("u_trop is overwritten by the last loop-breaking parameter instead of multiplied", "three or more loops (for one and two loops the first factor is exactly 1)"),
 "C02-1": ("u_trop / v_trop updates fused into if/else-if (v_trop branch first)", ">=2 loops, mixed massive/massless edges, a sector where a massive loop edge is removed after a massless one"),
 "C02-2": ("get_connected_components restarts from the first edge outside the just-finished component (visited set removed)", "a subgraph with >=3 components whose first and third differ in loop number (>=6 vertices in the demo); rare sectors"),
 "C03-1": ("mass-spanning counted inside the component that touches the externals", "a massive edge in another component than the externals (disconnected subset, mixed masses)"),
 "C03-2": ("get_loop_number returns 0 for subsets with <=1 edge", "a self-loop edge"),
 "C04-1": ("pi^(D L/2) uses 1+E-V of the full edge set instead of num_loops", "an accepted graph whose full edge set is disconnected"),
 "C04-2": ("thread-local per-topology cache that keeps the memoised J values", "two builds of the same topology (endpoints, masses, externals) with other weights or D on one thread"),
 "C05-1": ("divergence check skipped for loop-less subgraphs", "a divergent proper subgraph that is a forest and mass-momentum spanning (IR-type)"),
 "C05-2": ("thread-local loop-number cache keyed by (edge count, subset mask) only", "two different graphs with the same number of edges built on one thread"),
 "C06-1": ("fall-through to the last edge only when 1 - cum_sum <= f64::EPSILON", "a subgraph whose rounded cumulative sum ends >2 ulp below 1 and u in the top few 2^-53 of [0,1)"),
 "C06-2": ("strict comparison u < cum_sum in the scan", "u bit-equal to an interior cumulative sum (exactly representable probabilities)"),
 "C07-1": ("u_trop / v_trop updates fused into if/else-if (u_trop branch first)", ">=2 loops, mixed masses, massless loop edge removed before a massive loop edge"),
 "C07-2": ("integer division D/2 in the exponent of u_trop in the rescaling target", "odd D and >=2 loops"),
 "C08-1": ("Cholesky skips entries whose input element is exactly zero (ignores fill-in)", ">=3 loops, two basis cycles sharing no edge, an earlier-indexed cycle touching both"),
 "C08-2": ("compute_l_matrix uses only the signs of the signature entries", "a signature entry of magnitude >=2 (unimodular change of basis)"),
 "C09-1": ("cross terms of V over adjacent loop pairs only (tuple_windows)", ">=3 loops with u_0.u_2 (L^-1)_02 != 0"),
 "C09-2": ("u vectors accumulate |s_el| x_e p_e (sign lost)", "a -1 signature entry on an edge with non-zero shift"),
 "C10-1": ("q_transposed_inverse returned without the transposition (inverse unchanged)", ">=2 loops with non-diagonal L"),
 "C10-2": ("shift term skipped when ANY u_l is zero", ">=2 loops, one u_l exactly zero and another not"),
 "C11-1": ("integer division D/2 in the rescaling target", "odd D and >=2 loops"),
 "C11-2": ("Gamma of integer arguments 1..20 computed as x! instead of (x-1)!", "an integer propagator power or dod >= 2"),
 "C12-1": ("early return of the unrefined start value already for a >= 50", "a in [50,100] and p within ~3e-6 of P(a,a)"),
 "C12-2": ("wrapper accepts res >= 0.0 (so -0.0) as a value", "a within 1e-8 of 1 and p below 2^-53"),
 "C13-1": ("spare Gaussian kept between loop vectors is never cleared", "D odd and L >= 3"),
 "C13-2": ("radius argument clamped to f64::EPSILON", "a tail coordinate below 2^-52"),
 "C14-1": ("get_num_variables rounds up with (n|1)+1", "D*L even"),
 "C14-2": ("carry of the second Box-Muller value never cleared", "D odd and L >= 3"),
 "C15-1": ("nilpotent series capped at the small-vector inline capacity", "dimension 7 or 8"),
 "C15-2": ("Cholesky skips entries whose input element is exactly zero", "a zero off-diagonal entry whose row and column couple to an earlier index"),
 "C16-1": ("l21_norm computes the Frobenius norm", "stability test on, dim >= 2, tolerance between the two norms"),
 "C16-2": ("ZeroDet checked per pivot only", "pivot product (or its square) underflowing to zero"),
 "C17-1": ("weight sum iterates a HashSet of edge indices", ">=3 pairwise different non-dyadic weights; differs between sampler instances/processes"),
 "C17-2": ("thread-local memo of the last Gamma inversion with an epsilon key", "two consecutive same-thread samples whose lambda coordinates differ by < 2.2e-16"),
 "C18-1": ("cached_factor skipped on serialisation and recomputed on load with integer division", "a round trip and D*L odd"),
 "C18-2": ("loop signature serialised as unsigned bytes", "a negative signature entry"),
 "C19-1": ("rescaling factor computed through to_f64/from_f64", "a non-f64 scalar type"),
 "C19-2": ("sample_edge accumulates and compares in f64", "a non-f64 scalar type and u within an f64 ulp of a boundary"),
 "C20-1": ("Vector::squared accumulates in blocks of four", "D >= 4 and components where regrouping changes a rounding"),
 "C20-2": ("from_isize goes through i32", "|value| >= 2^31"),
 "C03-r3-1": ("is_mass_momentum_spanning counts massive edges inside the component that touches the externals", "a subset whose massive edge lies in another component than the externals"),
 "C03-r3-2": ("get_loop_number returns 0 for subsets with <=1 edge", "a self-loop edge (only the singleton {self-loop} entry is wrong)"),
 "C03-r3-3": ("get_num_variables pads by D mod 2 instead of D*L mod 2", "odd D together with an even loop count"),
 "C04-r3-1": ("2^E scratch table kept in a thread_local between builds (stale J entries survive)", "two build_sampler calls on one thread, the second with the same number of edges"),
 "C04-r3-2": ("Gamma of integer arguments by a factorial table with off-by-one (n! instead of (n-1)!)", "an integer propagator power or dod >= 2"),
 "C04-r3-3": ("J recursion term replaced by 0 when |omega(g\\e)| < f64::EPSILON", "an accepted graph with a proper subgraph of 0 < omega < 2.2e-16"),
 "C05-r3-1": ("divergence check only on connected subsets", "a divergent disconnected proper subset whose components are each convergent (massive edge away from the externals)"),
 "C05-r3-2": ("process-wide cache of (loop number, spanning flag) keyed by end points and externals only", "two builds with identical topology and a different mass pattern in one process"),
 "C05-r3-3": ("vertex set of a component kept in a u128 bit mask", "a vertex label >= 128"),
 "C06-r3-1": ("thread-local cache of the running sums keyed by (num_edges, subgraph id)", "two samplers with the same edge count and other weights on one thread"),
 "C06-r3-2": ("strict comparison u < C_e in the scan", "u bit-equal to a rounded running sum"),
 "C06-r3-3": ("fall-through returns the highest edge of the FULL graph", "a subgraph without the highest edge, a final running sum below 1 and u in the gap"),
 "C07-r3-1": ("v_trop / u_trop updates fused into if/else-if", "a massive edge removed while still on a cycle (both conditions at once)"),
 "C07-r3-2": ("rescaling exponent cached in a process-wide OnceLock", "two samplers with different D/2 L + dod in one process"),
 "C07-r3-3": ("u_trop update moved behind the early-termination break", "the last remaining edge is a self-loop"),
 "C09-r3-1": ("cross terms of V over adjacent loop pairs only (tuple_windows)", ">=3 loops with u_0.u_2 (L^-1)_02 != 0"),
 "C09-r3-2": ("edges with zero shift skipped in sum_e x_e(m_e^2+p_e^2)", "a massive edge with exactly zero shift"),
 "C09-r3-3": ("L matrix built from 'edge carries both loops' (sign of s_ei s_ej lost)", ">=2 loops and an edge with opposite-sign signature entries"),
 "C10-r3-1": ("skip(l) in compute_loop_momenta also drops the l'<l part of L^-1 u", ">=2 loops and non-zero u_l' for some l' < l"),
 "C10-r3-2": ("nilpotent series factorised as (I-N)(I+N^2), exact only up to dimension 4", "five or more loops with N^4 != 0"),
 "C10-r3-3": ("metadata path applies Q^-1 instead of Q^-T to the Gaussian vectors", "return_metadata = true and >=2 loops with non-diagonal L"),
 "C12-r3-1": ("wrapper accepts res == 0.0 / -0.0 (De Morgan slip)", "a within 1e-8 of 1 and p <= 2^-54"),
 "C12-r3-2": ("un-iterated estimate returned for a >= 50 (instead of 500)", "a in [50,100] and quantile within 1e-6 relative of a"),
 "C12-r3-3": ("closed-form lambda = -ln(x) for dod within 1e-8 of 1 (wrong tail)", "a sampler whose dod is 1"),
 "C14-r3-1": ("get_num_variables pads by D mod 2 instead of D*L mod 2", "odd D and even L"),
 "C14-r3-2": ("Box-Muller redraws from the mimic RNG when the radial uniform is exactly 0", "an exactly zero radial coordinate"),
 "C14-r3-3": ("mimic RNG wraps its index + per-loop spare Gaussian", ">=2 loops in odd D (over-read silently wrapped to the start of the point)"),
 "C17-r3-1": ("weight sum iterates an ahash HashSet of edge indices", ">=3 edges with not-all-equal non-dyadic weights; differs between instances/processes"),
 "C17-r3-2": ("return_metadata selects another (differently rounded) formula for the loop momenta", "return_metadata = true, >=2 loops, non-zero shifts"),
 "C17-r3-3": ("thread-local memo of the last Gamma inversion keyed by the uniform only", "two samplers with different dod on one thread, consecutive calls with the bit-identical lambda coordinate"),
 "C01-r4-1": ("cross terms of V over adjacent loop pairs only (tuple_windows)", ">=3 loops, non-zero shifts, non-tridiagonal L^-1"),
 "C01-r4-2": ("last remaining edge handled by an early break (v_trop/u_trop updates skipped)", "a last edge that is still mass-momentum spanning or carries a loop"),
 "C01-r4-3": ("skip(l) in compute_loop_momenta drops the l'<l part of the shift", ">=2 loops, non-zero shifts, non-diagonal L^-1 (jacobian unchanged)"),
 "C02-r4-1": ("compute_l_matrix adds plain x_e for every non-zero signature pair (sign lost)", ">=2 loops and a routing row with mixed signs"),
 "C02-r4-2": ("single-edge branch sets the last parameter and breaks (skips the v_trop transition)", "externals joined directly by a propagator that is removed last"),
 "C02-r4-3": ("is_mass_momentum_spanning returns is_mass_spanning at once when the graph has massive edges", "a partially massive graph, sector removing the massless momentum-spanning edges before the last massive one"),
 "C08-r4-1": ("compute_l_matrix treats signature entries as signs (+x_e if s_i == s_j else -x_e)", "a signature entry of magnitude >= 2"),
 "C08-r4-2": ("Cholesky skips entries whose input element is exactly zero (fill-in lost)", ">=3 loops, two basis loops sharing no edge, an EARLIER loop overlapping both"),
 "C08-r4-3": ("thread-local cache of s_ei*s_ej keyed by (signature pointer, E, L)", "sample, drop the sampler, build another of the same shape at the freed address"),
 "C11-r4-1": ("v_trop / u_trop updates fused into if/else-if", "a massive propagator, L>=2, a massless line cut before the first massive one"),
 "C11-r4-2": ("prod Gamma(w_e) through a memo keyed by `weight as u64`", "two unequal weights with the same integer part"),
 "C11-r4-3": ("rescaling exponent cached in a thread_local keyed by the ADDRESS of the table", "two samplers with different weight sums used one after the other at the same address"),
 "C13-r4-1": ("radial coordinate clamped to max(x, f64::EPSILON) before ln", "a radial coordinate below 2.2e-16"),
 "C13-r4-2": ("Box-Muller pairs restarted per loop vector + get_num_variables adjusted", "odd D together with L >= 2"),
 "C13-r4-3": ("Gaussians distributed with stride num_loops (gaussians[i*L+l])", "L >= 2 and D >= 2"),
 "C15-r4-1": ("nilpotent series capped at the small-vector inline capacity", "dimension 7 or 8 with N^6 != 0"),
 "C15-r4-2": ("Cholesky skips entries whose input element is exactly zero (fill-in lost)", "dimension >= 3, an exact zero at (i,j) and an earlier row coupled to both"),
 "C15-r4-3": ("ZeroDet when determinant <= f64::EPSILON (absolute threshold)", "a well-conditioned SPD matrix with determinant <= 2.2e-16"),
 "C16-r4-1": ("l21_norm skips columns whose norm is not > 0 (NaN columns dropped)", "stability test on and a decomposition containing NaN"),
 "C16-r4-2": ("one-loop samples run the decomposition with matrix_stability_test = None", "one-loop graph, test enabled, an extreme point or tol below ~2e-16"),
 "C16-r4-3": ("per-pivot zero check replaces the pivot-product check", "non-zero pivots whose product (or its square) underflows"),
 "C18-r4-1": ("cached_factor not serialised, recomputed on load with another association", "non-integer weights whose Gamma product rounds differently"),
 "C18-r4-2": ("num_loops not serialised, restored with the connected-component helper", "a disconnected accepted graph"),
 "C18-r4-3": ("skip_serializing_if = Vec::is_empty on external_vertices", "a struct-as-sequence format and a vacuum graph (no externals)"),
 "C19-r4-1": ("sample_edge accumulates in f64 and compares with uniform.to_f64()", "a non-f64 scalar and a uniform within f64 resolution of a cumulative boundary"),
 "C19-r4-2": ("Vector::dot accumulates through to_f64/from_f64", "a non-f64 scalar, >=2 loops, non-zero shifts on two loops"),
 "C19-r4-3": ("2*PI() replaced by from_f64(TAU) in box_muller (no to_f64 call)", "a scalar type whose PI is more accurate than f64"),
 "C20-r4-1": ("from_isize goes through i32", "|value| >= 2^31"),
 "C20-r4-2": ("Vector::dot accumulates in blocks of four", "D >= 4"),
 "C20-r4-3": ("hypot-style rescaling in Vector::squared for extreme magnitudes", "largest |component| outside [1e-120, 1e120]"),
 "C03-r5-1": ("from_graph computes num_loops with Euler's formula for a connected graph (1+E-V)", "an input graph with more than one component"),
 "C03-r5-2": ("get_loop_number returns 0 for subsets with < 2 edges", "a self-loop edge"),
 "C03-r5-3": ("a generalised dod below f64::EPSILON is stored as 0.0", "a true generalised dod with 0 < |omega| < 2.2e-16 (e.g. an edge weight 1e-17)"),
 "C04-r5-1": ("recursion divisor omega(g\\e).max(f64::EPSILON)", "a proper subgraph with 0 < omega < 2.2e-16"),
 "C04-r5-2": ("Gamma(weight) of integer weights 1..20 as n! instead of (n-1)!", "an integer weight >= 2"),
 "C04-r5-3": ("pi^(D L/2) takes L = 1+E-V of the full graph", "an accepted graph whose full graph is disconnected"),
 "C05-r5-1": ("vertex table [false; u8::MAX] has 255 slots", "vertex label 255"),
 "C05-r5-2": ("get_loop_number returns 0 for subsets with < 2 edges", "a graph whose only divergent subgraph is a self-loop"),
 "C05-r5-3": ("divergence check only for subgraphs with loops", "a mass-momentum spanning forest with omega <= 0 (raised powers or low D)"),
 "C06-r5-1": ("fall-through only when 1 - cum_sum <= f64::EPSILON, else panic", "rounded cumulative sum >= 3 half-ulps below 1 and u in the gap"),
 "C06-r5-2": ("strict comparison cum_sum > u", "u bit-equal to a running sum"),
 "C06-r5-3": ("fall-through pops the top edge of the FULL graph (XOR toggles it back in)", "top edge already removed, then the rounding gap of the remaining subgraph"),
 "C07-r5-1": ("is_mass_momentum_spanning looks at the first component only", "a disconnected subgraph whose externals sit on another component than its lowest edge"),
 "C07-r5-2": ("last edge handled up front (no v_trop/u_trop update for it)", "two-point graph / last edge mass-momentum spanning on its own"),
 "C07-r5-3": ("xi clamped to max(xi, f64::EPSILON)", "a xi coordinate below 2^-52"),
 "C09-r5-1": ("masses collected with filter_map and padded (packed to the front)", "a massless edge listed before a massive one"),
 "C09-r5-2": ("v clamped from below to 1e-10 * sum_e x_e(m_e^2+p_e^2)", "cancellation ratio of V above 1e10 (large loop-momentum offsets)"),
 "C09-r5-3": ("break instead of continue on a zero signature entry in compute_l_matrix", ">=3 loops and a signature row with a zero between two non-zero entries"),
 "C10-r5-1": ("(I+N)^-1 as (I-N)(I+N^2)", ">= 5 loops with coupled consecutive loops"),
 "C10-r5-2": ("shift[l] subtracted inside the fold over l' (num_loops times)", ">=2 loops and non-zero u"),
 "C10-r5-3": ("precedence slip: mass^2 + shift^2 * x_e", "a massive propagator"),
 "C12-r5-1": ("iterate guard x_n < 0 instead of <= 0 (statrs panics on gamma_lr(a,0))", "a < 1 and a starting value of exactly 0 (p = 0 or underflow)"),
 "C12-r5-2": ("un-iterated estimate returned for a >= 50", "a in [50,100], p within ~5e-6 of the point where w = a"),
 "C12-r5-3": ("wrapper accepts every finite result", "small shape and p in the thin band where the 50th iterate is negative; or a~1, p=0"),
 "C14-r5-1": ("get_num_variables computes the loop number as 1+E-V", "a disconnected graph"),
 "C14-r5-2": ("a xi of exactly zero is drawn again", "an exactly zero xi coordinate"),
 "C14-r5-3": ("offset = dimension instead of += when cutting the Gaussian buffer", ">= 3 loops"),
 "C17-r5-1": ("subgraph weights summed in ahash iteration order (two cooperating sites)", "unequal weights whose sum is order dependent; differs between builds/processes"),
 "C17-r5-2": ("return_metadata selects another order of operations for the loop momenta", "return_metadata, >=2 loops, non-zero shifts"),
 "C17-r5-3": ("generate_sample_from_rng redraws when the generator returns exactly 0.0", "an RNG draw that is exactly 0.0"),
 "C13-r5-1": ("per-loop Box-Muller blocks of D + D%2 uniforms + get_num_variables adjusted", "odd D and L >= 2"),
 "C13-r5-2": ("'exact quarter turn' table in box_muller with one wrong sign", "an angle coordinate exactly 0.75 whose sine is used"),
 "C13-r5-3": ("Gaussians scattered loop-minor (res[index % L][index / L])", "L >= 2 and D >= 2"),
 "C16-r5-1": ("stability test multiplies self * inverse instead of inverse * self (transposed residual)", "dimension >= 2, tolerance between the two L21 norms"),
 "C16-r5-2": ("Unstable returned only when print_debug_info is off", "stability test on AND print_debug_info = true"),
 "C16-r5-3": ("determinant == 0 check only when the stability test is off", "stability test on and a determinant that underflows"),
 "C20-r5-1": ("Vector::squared sums in blocks of four", "D >= 4"),
 "C20-r5-2": ("Vector::dot starts the accumulator from the first product", "all products -0.0 (sign of zero differs)"),
 "C20-r5-3": ("f64::inv returns +-f64::MAX when 1/x is infinite", "x = +-0.0 or a subnormal below 5.56e-309"),
 "C19-r5-1": ("sample_edge accumulates in f64 and compares with uniform.to_f64()", "a non-f64 scalar and a coordinate within one f64 ulp of a cumulative boundary"),
 "C19-r5-2": ("from_f64(omega).inv() becomes from_f64(omega.recip()) (exponent formed in f64; no to_f64)", "a higher-precision scalar and an omega that is not a power of two"),
 "C19-r5-3": ("stability-test residual accumulated in f64 from to_f64 narrowings", "matrix_stability_test = Some(tol) with a higher-precision scalar"),
 "C15-r5-1": ("(I+N)^-1 as a product with floor(log2 dim) factors", "dimension 3, 5, 6 or 7"),
 "C15-r5-2": ("ZeroDet when determinant < f64::EPSILON", "a well-conditioned SPD matrix with determinant below 2.2e-16"),
 "C15-r5-3": ("Cholesky pivots clamped from below to |a_ii| sqrt(eps)", "condition number between ~1e8 and 1e10"),
 "C02-r5-1": ("early-exit break moved before the u_trop update of the last edge", "a self-loop removed last"),
 "C02-r5-2": ("compute_v_polynomial returns early when sum |u_l|^2 < f64::EPSILON (absolute threshold)", "soft kinematics of order 1e-10 (well conditioned)"),
 "C02-r5-3": ("f64::powf fast path for integral |p| <= 4 computes p = +-4 as a cube", "dod == 4.0 exactly (or D = 8)"),
 "C08-r5-1": ("all-zero signature rows filtered BEFORE enumerate (x_vec index shifted)", "a bridge/tree edge listed before a loop edge"),
 "C08-r5-2": ("L assembled from the first two non-zero entries of each signature row", ">=3 loops and an edge carrying >=3 loop momenta"),
 "C08-r5-3": ("Cholesky pivots clamped to at least f64::EPSILON", ">=2 loops and a legitimate pivot below 2.2e-16 (small radial coordinate)"),
 "C18-r5-1": ("whole-valued floats written as i64 in human-readable formats (saturating cast)", "a human-readable format and a table value >= 2^63"),
 "C18-r5-2": ("serde(default, skip_serializing_if = Vec::is_empty) on external_vertices", "vacuum graph and a struct-as-sequence format"),
 "C18-r5-3": ("table serialised column-wise with spanning flags packed 64 per u64, accumulator never reset", ">= 8 edges with edges 6 and 7 not interchangeable"),
 "C11-r5-1": ("u_trop update guarded by !graph_without_edge.is_empty()", "a self-loop removed last"),
 "C11-r5-2": ("integer fast path of f64::powf ignores the sign of the exponent", "even D and >=2 loops (u_trop^(-D/2) in the rescaling target)"),
 "C11-r5-3": ("Gamma(n) as n! for integer 1 <= n <= 20 in cached_factor", "an integer propagator power or dod >= 2"),
 "C01-r5-1": ("extra ZeroDet guard |det L| <= eps (trace/dim)^dim", ">=2 loops and strongly hierarchical (accurate) points"),
 "C01-r5-2": ("cross terms of u^T L^-1 u lose their factor 2", "two loops both with non-zero u vectors (momentum through a shared edge)"),
 "C01-r5-3": ("a~1 shortcut window of the inverse incomplete gamma widened from 1e-8 to 1e-3", "dod within 1 +- 1e-3 but not 1"),
}


def main():
    run = "--run" in sys.argv
    names = sorted(n for n in os.listdir(SEEDED) if os.path.isdir(os.path.join(SEEDED, n)))
    only = [a for a in sys.argv[1:] if not a.startswith("--")]
    if only:
        names = [n for n in names if n in only or any(n.startswith(o) for o in only if o.endswith("-"))]
    seed_args = "".join(f" {a}" for a in sys.argv[1:] if a.startswith("--seed="))
    results = {}
    resfile = os.path.join(SEEDED, "RESULTS.json" if not seed_args else "RESULTS_seed" + seed_args.split("=")[1] + ".json")
    if os.path.exists(resfile):
        results = json.load(open(resfile))
    for n in names:
        d = os.path.join(SEEDED, n)
        prop = n.split("-")[0]
        conf = json.load(open(os.path.join(d, "confirm.json"))) if os.path.exists(os.path.join(d, "confirm.json")) else None
        what, needs = DESC.get(n, ("", ""))
        if run:
            if subprocess.run("git -C /repo status --short | grep -q .", shell=True).returncode == 0:
                print("repo dirty, abort"); sys.exit(2)
            subprocess.run(f"git -C /repo apply {d}/patch.diff", shell=True, check=True)
            try:
                p = subprocess.run(f"cd /verif && ./check {prop} --skip-lean" + seed_args.replace("=", " "), shell=True, stdout=subprocess.PIPE, stderr=subprocess.STDOUT)
                out = p.stdout.decode()
                viol = [l for l in out.splitlines() if l.startswith("VIOLATION")]
                results[n] = {"check": prop, "rc": p.returncode, "violation_line": viol[0] if viol else None,
                              "failing_input_found": bool(viol) and "no-failing-input-found" not in viol[0], "summary": out.strip().splitlines()[-1]}
            finally:
                subprocess.run("git -C /repo checkout -- .", shell=True, check=True)
                subprocess.run("git -C /verif checkout -- lean/Momtrop/Generated/SerdeSchema.lean", shell=True)
            print(n, results[n]["rc"], results[n]["summary"][-120:], flush=True)
        meta = {"breaks_property": prop, "change": what, "needs_to_manifest": needs, "origin": "fresh sub-agent given only the property text and a scratch worktree",
                "confirmed_by_me": conf, "what_i_ran": "tools/confirm_seeded.py (scratch worktree: suite with patch, demo with patch, demo without) and tools/seeded_meta.py --run (git -C /repo apply; ./check; git checkout)",
                "check_result": results.get(n)}
        if not seed_args:
            json.dump(meta, open(os.path.join(d, "meta.json"), "w"), indent=1)
    json.dump(results, open(resfile, "w"), indent=1)


if __name__ == "__main__":
    main()
