#!/usr/bin/env python3
"""Write seeded/<id>/meta.json (which property, what the change is and needs, what was run) and, with --run, apply every seeded
change to /repo in turn (git apply ... checkout), run the property's quick check and record the outcome in seeded/RESULTS.json."""
import json, os, subprocess, sys

SEEDED = "/verif/seeded"
DESC = {
 "C01-1": ("compute_l_matrix drops the sign of s_ei*s_ej (adds x_e for every edge on both loops)", "two or more loops and a routing with a mixed-sign signature row such as [1,-1]"),
 "C01-2": ("u_trop is overwritten by the last loop-breaking parameter instead of multiplied", "three or more loops (for one and two loops the first factor is exactly 1)"),
 "C02-1": ("u_trop / v_trop updates fused into if/else-if (v_trop branch first)", ">=2 loops, mixed massive/massless edges, a sector where a massive loop edge is removed after a massless one"),
 "C02-2": ("get_connected_components restarts from the first edge outside the just-finished component (visited set removed)", "a subgraph with >=3 components whose first and third differ in loop number (>=6 vertices in the demo); rare sectors"),
 "C03-1": ("mass-spanning counted inside the component that touches the externals", "a massive edge in another component than the externals (disconnected subset, mixed masses)"),
 "C03-2": ("get_loop_number returns 0 for subsets with <=1 edge", "a self-loop edge"),
 "C04-1": ("pi^(D L/2) uses 1+E-V of the full edge set instead of num_loops", "an accepted graph whose full edge set is disconnected"),
 "C04-2": ("thread-local per-topology cache that keeps the memoised J values", "two builds of the same topology (endpoints, masses, externals) with other weights or D on one thread"),
 "C05-1": ("divergence check skipped for loop-less subgraphs", "a divergent proper subgraph that is a forest and mass-momentum spanning (IR-type)"),
 "C05-2": ("thread-local loop-number cache keyed by (edge count, subset mask) only", "two different graphs with the same number of edges built on one thread"),
 "C06-1": ("fall-through to the last edge only when 1 - cum_sum <= f64::EPSILON", "a subgraph whose rounded cumulative sum ends >2 ulp below 1 and u in the top few 2^-53 of [0,1)"),
 "C06-2": ("strict comparison u < cum_sum in the scan", "u bit-equal to an interior cumulative sum (exactly representable probabilities)"),
 "C07-1": ("u_trop / v_trop updates fused into if/else-if (u_trop branch first)", ">=2 loops, mixed masses, massless loop edge removed before a massive loop edge"),
 "C07-2": ("integer division D/2 in the exponent of u_trop in the rescaling target", "odd D and >=2 loops"),
 "C08-1": ("Cholesky skips entries whose input element is exactly zero (ignores fill-in)", ">=3 loops, two basis cycles sharing no edge, an earlier-indexed cycle touching both"),
 "C08-2": ("compute_l_matrix uses only the signs of the signature entries", "a signature entry of magnitude >=2 (unimodular change of basis)"),
 "C09-1": ("cross terms of V over adjacent loop pairs only (tuple_windows)", ">=3 loops with u_0.u_2 (L^-1)_02 != 0"),
 "C09-2": ("u vectors accumulate |s_el| x_e p_e (sign lost)", "a -1 signature entry on an edge with non-zero shift"),
 "C10-1": ("q_transposed_inverse returned without the transposition (inverse unchanged)", ">=2 loops with non-diagonal L"),
 "C10-2": ("shift term skipped when ANY u_l is zero", ">=2 loops, one u_l exactly zero and another not"),
 "C11-1": ("integer division D/2 in the rescaling target", "odd D and >=2 loops"),
 "C11-2": ("Gamma of integer arguments 1..20 computed as x! instead of (x-1)!", "an integer propagator power or dod >= 2"),
 "C12-1": ("early return of the unrefined start value already for a >= 50", "a in [50,100] and p within ~3e-6 of P(a,a)"),
 "C12-2": ("wrapper accepts res >= 0.0 (so -0.0) as a value", "a within 1e-8 of 1 and p below 2^-53"),
 "C13-1": ("spare Gaussian kept between loop vectors is never cleared", "D odd and L >= 3"),
 "C13-2": ("radius argument clamped to f64::EPSILON", "a tail coordinate below 2^-52"),
 "C14-1": ("get_num_variables rounds up with (n|1)+1", "D*L even"),
 "C14-2": ("carry of the second Box-Muller value never cleared", "D odd and L >= 3"),
 "C15-1": ("nilpotent series capped at the small-vector inline capacity", "dimension 7 or 8"),
 "C15-2": ("Cholesky skips entries whose input element is exactly zero", "a zero off-diagonal entry whose row and column couple to an earlier index"),
 "C16-1": ("l21_norm computes the Frobenius norm", "stability test on, dim >= 2, tolerance between the two norms"),
 "C16-2": ("ZeroDet checked per pivot only", "pivot product (or its square) underflowing to zero"),
 "C17-1": ("weight sum iterates a HashSet of edge indices", ">=3 pairwise different non-dyadic weights; differs between sampler instances/processes"),
 "C17-2": ("thread-local memo of the last Gamma inversion with an epsilon key", "two consecutive same-thread samples whose lambda coordinates differ by < 2.2e-16"),
 "C18-1": ("cached_factor skipped on serialisation and recomputed on load with integer division", "a round trip and D*L odd"),
 "C18-2": ("loop signature serialised as unsigned bytes", "a negative signature entry"),
 "C19-1": ("rescaling factor computed through to_f64/from_f64", "a non-f64 scalar type"),
 "C19-2": ("sample_edge accumulates and compares in f64", "a non-f64 scalar type and u within an f64 ulp of a boundary"),
 "C20-1": ("Vector::squared accumulates in blocks of four", "D >= 4 and components where regrouping changes a rounding"),
 "C20-2": ("from_isize goes through i32", "|value| >= 2^31"),
}


def main():
    run = "--run" in sys.argv
    names = sorted(n for n in os.listdir(SEEDED) if os.path.isdir(os.path.join(SEEDED, n)))
    results = {}
    if os.path.exists(os.path.join(SEEDED, "RESULTS.json")):
        results = json.load(open(os.path.join(SEEDED, "RESULTS.json")))
    for n in names:
        d = os.path.join(SEEDED, n)
        prop = n.split("-")[0]
        conf = json.load(open(os.path.join(d, "confirm.json"))) if os.path.exists(os.path.join(d, "confirm.json")) else None
        what, needs = DESC.get(n, ("", ""))
        if run:
            if subprocess.run("git -C /repo status --short | grep -q .", shell=True).returncode == 0:
                print("repo dirty, abort"); sys.exit(2)
            subprocess.run(f"git -C /repo apply {d}/patch.diff", shell=True, check=True)
            try:
                p = subprocess.run(f"cd /verif && ./check {prop} --skip-lean", shell=True, stdout=subprocess.PIPE, stderr=subprocess.STDOUT)
                out = p.stdout.decode()
                viol = [l for l in out.splitlines() if l.startswith("VIOLATION")]
                results[n] = {"check": prop, "rc": p.returncode, "violation_line": viol[0] if viol else None,
                              "failing_input_found": bool(viol) and "no-failing-input-found" not in viol[0], "summary": out.strip().splitlines()[-1]}
            finally:
                subprocess.run("git -C /repo checkout -- .", shell=True, check=True)
            print(n, results[n]["rc"], results[n]["summary"][-120:], flush=True)
        meta = {"breaks_property": prop, "change": what, "needs_to_manifest": needs, "origin": "fresh sub-agent given only the property text and a scratch worktree",
                "confirmed_by_me": conf, "what_i_ran": "tools/confirm_seeded.py (scratch worktree: suite with patch, demo with patch, demo without) and tools/seeded_meta.py --run (git -C /repo apply; ./check; git checkout)",
                "check_result": results.get(n)}
        json.dump(meta, open(os.path.join(d, "meta.json"), "w"), indent=1)
    json.dump(results, open(os.path.join(SEEDED, "RESULTS.json"), "w"), indent=1)


if __name__ == "__main__":
    main()
