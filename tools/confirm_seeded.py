#!/usr/bin/env python3
"""Confirm every seeded change in a scratch worktree (never in /repo): with the patch applied the crate builds and the existing
suite passes, the demonstration fails; without the patch the demonstration passes. Writes seeded/<id>/confirm.json."""
import json, os, subprocess, sys, shutil, time
from concurrent.futures import ThreadPoolExecutor

SEEDED = "/verif/seeded"
ENV = dict(os.environ, CARGO_NET_OFFLINE="true")


def sh(cmd, cwd, timeout=1800):
    p = subprocess.run(cmd, cwd=cwd, shell=True, stdout=subprocess.PIPE, stderr=subprocess.STDOUT, env=ENV, timeout=timeout)
    return p.returncode, p.stdout.decode(errors="replace")


def confirm(name, slot):
    d = os.path.join(SEEDED, name)
    out = os.path.join(d, "confirm.json")
    if os.path.exists(out):
        return name, json.load(open(out))
    wt = f"/tmp/cs/wt{slot}"
    tgt = f"/tmp/cs/target{slot}"
    sh(f"git -C /repo worktree remove --force {wt}", "/", 60)
    rc, o = sh(f"git -C /repo worktree add --detach {wt} HEAD", "/")
    res = {"commit": sh("git -C /repo rev-parse --short HEAD", "/")[1].strip()}
    try:
        rc, o = sh(f"git apply {d}/patch.diff", wt)
        res["patch_applies"] = rc == 0
        if rc != 0:
            res["error"] = o[-500:]; return name, res
        rc, o = sh(f"CARGO_TARGET_DIR={tgt} cargo test --offline --no-fail-fast 2>&1 | grep -E '^test result|FAILED|panicked|error' | head -20", wt)
        res["suite_with_patch"] = o.strip().splitlines()
        res["suite_passes_with_patch"] = ("FAILED" not in o) and ("error" not in o.lower() or "0 failed" in o) and "test result: ok" in o
        demo = os.path.join(d, "demo.rs")
        if os.path.exists(demo):
            shutil.copy(demo, os.path.join(wt, "tests", "demo_seeded.rs"))
            rc, o = sh(f"CARGO_TARGET_DIR={tgt} cargo test --offline --test demo_seeded 2>&1 | tail -15", wt)
            res["demo_fails_with_patch"] = "test result: FAILED" in o or "panicked" in o
            res["demo_with_patch_tail"] = o.strip().splitlines()[-6:]
            sh("git checkout -- src", wt)
            rc, o = sh(f"CARGO_TARGET_DIR={tgt} cargo test --offline --test demo_seeded 2>&1 | tail -8", wt)
            res["demo_passes_without_patch"] = "test result: ok" in o and "FAILED" not in o
            res["demo_without_patch_tail"] = o.strip().splitlines()[-3:]
    finally:
        sh(f"git -C /repo worktree remove --force {wt}", "/", 60)
    json.dump(res, open(out, "w"), indent=1)
    return name, res


def main():
    os.makedirs("/tmp/cs", exist_ok=True)
    names = sorted(n for n in os.listdir(SEEDED) if os.path.isdir(os.path.join(SEEDED, n)))
    if len(sys.argv) > 1:
        names = [n for n in names if n in sys.argv[1:]]
    nslots = 4
    import queue
    slots = queue.Queue()
    for i in range(nslots):
        slots.put(i)
    def work(n):
        s = slots.get()
        try:
            return confirm(n, s)
        finally:
            slots.put(s)
    with ThreadPoolExecutor(nslots) as ex:
        for name, res in ex.map(work, names):
            ok = res.get("patch_applies") and res.get("suite_passes_with_patch") and res.get("demo_fails_with_patch") and res.get("demo_passes_without_patch")
            print(name, "CONFIRMED" if ok else "PROBLEM", {k: res.get(k) for k in ("patch_applies", "suite_passes_with_patch", "demo_fails_with_patch", "demo_passes_without_patch")}, flush=True)
    for i in range(nslots):
        shutil.rmtree(f"/tmp/cs/target{i}", ignore_errors=True)


if __name__ == "__main__":
    main()
