#!/bin/bash
# robustness: every quick check under several seeds on the unchanged tree (development aid)
cd /verif
for seed in "$@"; do
  for i in 01 02 03 04 05 06 07 08 09 10 11 12 13 14 15 16 17 18 19 20; do
    out=$(VERIF_SEED=$seed ./check C$i --skip-lean 2>&1 | tail -1)
    echo "seed=$seed $out"
    if echo "$out" | grep -q "rc=1"; then cp work/replay/C${i}_quick_${seed}.json /tmp/sweep_C${i}_${seed}.json 2>/dev/null; fi
  done
done
