#!/bin/bash
cd /verif
for i in 20 13 15 16 03 05 06 04 14 18 17 11 07 12 19 08 09 10 02 01; do
  s=$(date +%s); out=$(./check C$i --tier thorough 2>&1 | tail -1); e=$(date +%s)
  echo "$((e-s))s $out"
done
