#!/usr/bin/env python3
"""Writes lean/Momtrop/Model/Gamma.lean from the template below: every ⟪float literal⟫ is replaced by its binary64 bit
pattern (`lit 0x… /- literal -/`), so that the model carries exactly the constants of gamma.rs / statrs 0.16.1.
Run by hand when the template changes; the output is committed (it is the hand-written model, not a translation)."""
import re, struct, sys, os

T = r'''import Momtrop.Model.Scalar
/-!
# Gamma quantile (`/repo/src/gamma.rs`) and the `statrs` 0.16.1 functions it calls

`inverse_gamma_lr_impl` works in `f64`; it is modelled over an arbitrary `Scalar φ` (instantiated at
`Float` for execution). Float literals are written as their binary64 bit patterns (`lit`).
`none` = a panic (`statrs`' `gamma_lr`/`gamma_ur` panic outside `(0,∞)`).
File generated from `tools/gen_gamma_model.py` (literal → bit pattern substitution only).
-/
namespace Momtrop
open Scalar

section
variable {φ : Type} [Scalar φ]

/-- a binary64 literal -/
def lit (b : UInt64) : φ := ofF64 b
def isNaN (x : φ) : Bool := !(beq x x)
def posInf : φ := (one : φ) / zero
def isFiniteS (x : φ) : Bool := ltB (Scalar.abs x) (posInf : φ)
def isInfS (x : φ) : Bool := beq (Scalar.abs x) (posInf : φ)
/-- `f64::max` -/
def fmax (x y : φ) : φ := if isNaN y then x else if isNaN x then y else if ltB x y then y else x

/-! ## statrs::function::gamma -/

def gammaDk : List φ := [⟪2.48574089138753565546e-5⟫, ⟪1.05142378581721974210⟫, ⟪-3.45687097222016235469⟫,
  ⟪4.51227709466894823700⟫, ⟪-2.98285225323576655721⟫, ⟪1.05639711577126713077⟫, ⟪-1.95428773191645869583e-1⟫,
  ⟪1.70970543404441224307e-2⟫, ⟪-5.71926117404305781283e-4⟫, ⟪4.63399473359905636708e-6⟫, ⟪-2.71994908488607703910e-9⟫]
def gammaR : φ := ⟪10.900511⟫
def constE : φ := ⟪2.718281828459045⟫
def lnPi : φ := ⟪1.1447298858494001741434273513530587116472948129153⟫
def ln2SqrtEOverPi : φ := ⟪0.6207822376352452223455184457816472122518527279025978⟫
def twoSqrtEOverPi : φ := ⟪1.8603827342052657173362492472666631120594218414085755⟫

/-- the Lanczos sum: fold over `GAMMA_DK[1..]` with its index -/
def lanczosSum (den : Nat → φ) : φ :=
  ((gammaDk (φ := φ)).zipIdx.drop 1).foldl (fun s (t : φ × Nat) => s + t.1 / den t.2) ((gammaDk (φ := φ)).getD 0 zero)

/-- `statrs::function::gamma::gamma` -/
def statrsGamma (x : φ) : φ :=
  if ltB x ⟪0.5⟫ then
    let s := lanczosSum fun k => (ofInt k : φ) - x
    (pi : φ) / (sin (pi * x) * s * twoSqrtEOverPi * powf ((⟪0.5⟫ - x + gammaR) / constE) (⟪0.5⟫ - x))
  else
    let s := lanczosSum fun k => x + (ofInt k : φ) - ⟪1.0⟫
    s * twoSqrtEOverPi * powf ((x - ⟪0.5⟫ + gammaR) / constE) (x - ⟪0.5⟫)

/-- `statrs::function::gamma::ln_gamma` -/
def statrsLnGamma (x : φ) : φ :=
  if ltB x ⟪0.5⟫ then
    let s := lanczosSum fun k => (ofInt k : φ) - x
    lnPi - ln (sin (pi * x)) - ln s - ln2SqrtEOverPi - (⟪0.5⟫ - x) * ln ((⟪0.5⟫ - x + gammaR) / constE)
  else
    let s := lanczosSum fun k => x + (ofInt k : φ) - ⟪1.0⟫
    ln s + ln2SqrtEOverPi + (x - ⟪0.5⟫) * ln ((x - ⟪0.5⟫ + gammaR) / constE)

/-- `prec::almost_eq(a, 0.0, DEFAULT_F64_ACC)` -/
def almostZero (a : φ) : Bool :=
  if isInfS a then false else ltB (Scalar.abs (a - ⟪0.0⟫)) ⟪0.0000000000000011102230246251565⟫

def epsS : φ := ⟪0.000000000000001⟫
def bigS : φ := ⟪4503599627370496.0⟫
def bigInvS : φ := ⟪2.22044604925031308085e-16⟫
def axMin : φ := ⟪-709.78271289338399⟫

/-- the series loop of `checked_gamma_lr` (`x <= 1 || x <= a`) -/
def lrSeries (x : φ) : Nat → φ → φ → φ → φ
  | 0, _, _, ans2 => ans2
  | fuel + 1, r2, c2, ans2 =>
    let r2' := r2 + ⟪1.0⟫
    let c2' := c2 * (x / r2')
    let ans2' := ans2 + c2'
    if leB (c2' / ans2') epsS then ans2' else lrSeries x fuel r2' c2' ans2'

/-- the continued-fraction loop of `checked_gamma_lr` -/
def lrFraction : Nat → (y z : φ) → (c : Nat) → (p3 q3 p2 q2 ans : φ) → φ
  | 0, _, _, _, _, _, _, _, ans => ans
  | fuel + 1, y, z, c, p3, q3, p2, q2, ans =>
    let y := y + ⟪1.0⟫
    let z := z + ⟪2.0⟫
    let c := c + 1
    let yc := y * (ofInt c : φ)
    let p := p2 * z - p3 * yc
    let q := q2 * z - q3 * yc
    let p3 := p2; let p2 := p; let q3 := q2; let q2 := q
    let sc := gtB (Scalar.abs p) bigS
    let p3 := if sc then p3 * bigInvS else p3
    let p2 := if sc then p2 * bigInvS else p2
    let q3 := if sc then q3 * bigInvS else q3
    let q2 := if sc then q2 * bigInvS else q2
    if !(beq q ⟪0.0⟫) then
      let nextans := p / q
      let error := Scalar.abs ((ans - nextans) / nextans)
      if leB error epsS then nextans else lrFraction fuel y z c p3 q3 p2 q2 nextans
    else lrFraction fuel y z c p3 q3 p2 q2 ans

def loopFuel : Nat := 100000

/-- `statrs::function::gamma::gamma_lr` (`none` = the `unwrap` panic on an argument outside `(0,∞)`) -/
def statrsGammaLr (a x : φ) : Option φ :=
  if isNaN a || isNaN x then some (⟪0.0⟫ / ⟪0.0⟫)
  else if leB a ⟪0.0⟫ || beq a posInf then none
  else if leB x ⟪0.0⟫ || beq x posInf then none
  else if almostZero a then some ⟪1.0⟫
  else if almostZero x then some ⟪0.0⟫
  else
    let ax := a * ln x - x - statrsLnGamma a
    if ltB ax axMin then (if ltB a x then some ⟪1.0⟫ else some ⟪0.0⟫)
    else if leB x ⟪1.0⟫ || leB x a then
      let ans2 := lrSeries x loopFuel a ⟪1.0⟫ ⟪1.0⟫
      some (exp ax * ans2 / a)
    else
      let y := ⟪1.0⟫ - a
      let z := x + y + ⟪1.0⟫
      let p2 := x + ⟪1.0⟫
      let q2 := z * x
      let ans := lrFraction loopFuel y z 0 ⟪1.0⟫ x p2 q2 (p2 / q2)
      some (⟪1.0⟫ - exp ax * ans)

/-- `is_zero` = `ulps_eq!(x, 0.0, max_ulps = 0)`: `|x| <= f64::EPSILON` -/
def isZeroUlps (x : φ) : Bool := leB (Scalar.abs (x - ⟪0.0⟫)) ⟪2.220446049250313e-16⟫

/-- the continued-fraction loop of `checked_gamma_ur` -/
def urFraction : Nat → (y z c pkm2 qkm2 pkm1 qkm1 ans : φ) → φ
  | 0, _, _, _, _, _, _, _, ans => ans
  | fuel + 1, y, z, c, pkm2, qkm2, pkm1, qkm1, ans =>
    let y := y + ⟪1.0⟫
    let z := z + ⟪2.0⟫
    let c := c + ⟪1.0⟫
    let yc := y * c
    let pk := pkm1 * z - pkm2 * yc
    let qk := qkm1 * z - qkm2 * yc
    let pkm2 := pkm1; let pkm1 := pk; let qkm2 := qkm1; let qkm1 := qk
    let sc := gtB (Scalar.abs pk) bigS
    let pkm2 := if sc then pkm2 * bigInvS else pkm2
    let pkm1 := if sc then pkm1 * bigInvS else pkm1
    let qkm2 := if sc then qkm2 * bigInvS else qkm2
    let qkm1 := if sc then qkm1 * bigInvS else qkm1
    if !(isZeroUlps qk) then
      let r := pk / qk
      let t := Scalar.abs ((ans - r) / r)
      if leB t epsS then r else urFraction fuel y z c pkm2 qkm2 pkm1 qkm1 r
    else urFraction fuel y z c pkm2 qkm2 pkm1 qkm1 ans

/-- `statrs::function::gamma::gamma_ur` -/
def statrsGammaUr (a x : φ) : Option φ :=
  if isNaN a || isNaN x then some (⟪0.0⟫ / ⟪0.0⟫)
  else if leB a ⟪0.0⟫ || beq a posInf then none
  else if leB x ⟪0.0⟫ || beq x posInf then none
  else if ltB x ⟪1.0⟫ || leB x a then (statrsGammaLr a x).map fun v => ⟪1.0⟫ - v
  else
    let ax := a * ln x - x - statrsLnGamma a
    if ltB ax axMin then (if ltB a x then some ⟪0.0⟫ else some ⟪1.0⟫)
    else
      let ax := exp ax
      let y := ⟪1.0⟫ - a
      let z := x + y + ⟪1.0⟫
      let pkm1 := x + ⟪1.0⟫
      let qkm1 := z * x
      let ans := urFraction loopFuel y z ⟪0.0⟫ ⟪1.0⟫ x pkm1 qkm1 (pkm1 / qkm1)
      some (ans * ax)

/-! ## gamma.rs -/

/-- the external functions `inverse_gamma_lr_impl` calls -/
structure GammaExt (φ : Type) where
  gamma : φ → φ
  lr : φ → φ → Option φ
  ur : φ → φ → Option φ

def statrsExt : GammaExt φ := { gamma := statrsGamma, lr := statrsGammaLr, ur := statrsGammaUr }

/-- how `inverse_gamma_lr_impl` returned -/
inductive GExit where
  | nearOne
  | tinyB
  | largeA
  | converged (iterations : Nat)
  | exhausted
  deriving Repr, DecidableEq

/-- the five-term expansion used for very small `b` (`gamma.rs:72-86` and `:144-158`) -/
def tailExpansion (a y : φ) : φ :=
  let c1 := (a - ⟪1.0⟫) * ln y
  let c2 := (a - ⟪1.0⟫) * (⟪1.0⟫ + c1)
  let c3 := (a - ⟪1.0⟫) * (⟪-0.5⟫ * c1 * c1 + (a - ⟪2.0⟫) * c1 + (⟪3.0⟫ * a - ⟪5.0⟫) * ⟪0.5⟫)
  let c4 := (a - ⟪1.0⟫)
    * (⟪1.0⟫ / ⟪3.0⟫ * c1 * c1 * c1 - (⟪3.0⟫ * a - ⟪5.0⟫) * ⟪0.5⟫ * c1 * c1
        + (a * a - ⟪6.0⟫ * a + ⟪7.0⟫) * c1
        + (⟪11.0⟫ * a * a - ⟪46.0⟫ * a + ⟪47.0⟫) / ⟪6.0⟫)
  let c5 := (a - ⟪1.0⟫)
    * (⟪-0.25⟫ * c1 * c1 * c1 * c1
        + (⟪11.0⟫ * a - ⟪7.0⟫) / ⟪6.0⟫ * c1 * c1 * c1
        + (⟪-3.0⟫ * a * a - ⟪13.0⟫) * c1 * c1
        + (⟪2.0⟫ * a * a * a - ⟪25.0⟫ * a * a + ⟪72.0⟫ * a - ⟪61.0⟫) * ⟪0.5⟫ * c1
        + (⟪25.0⟫ * a * a * a - ⟪195.0⟫ * a * a + ⟪477.0⟫ * a - ⟪379.0⟫) / ⟪12.0⟫)
  y + c1 + c2 / y + c3 / (y * y) + c4 / (y * y * y) + c5 / (y * y * y * y)

/-- starting value: `(x0, none)` or `(value, some exit)` for an early return (`gamma.rs:36-167`) -/
def startValue (ext : GammaExt φ) (a p : φ) : φ × Option GExit :=
  let q := ⟪1.0⟫ - p
  if leB (⟪1.0⟫ - ⟪1.0e-8⟫) a && leB a (⟪1.0⟫ + ⟪1.0e-8⟫) then (-(ln q), some .nearOne) else
  let gammaA := ext.gamma a
  let b := q * gammaA
  let c : φ := ⟪0.5772156649015329⟫
  if ltB a ⟪1.0⟫ then
    if gtB b ⟪0.6⟫ || (geB b ⟪0.45⟫ && geB a ⟪0.3⟫) then
      let u := if gtB (b * q) ⟪10e-8⟫ then powf (p * ext.gamma (a + ⟪1.0⟫)) (⟪1.0⟫ / a) else exp (-q / a - c)
      (u / (⟪1.0⟫ - u / (a + ⟪1.0⟫)), none)
    else if ltB a ⟪0.3⟫ && (leB ⟪0.35⟫ b && leB b ⟪0.6⟫) then
      let t := exp (-c - b)
      let u := t * exp t
      (t * exp u, none)
    else if (leB ⟪0.15⟫ b && leB b ⟪0.35⟫) || ((leB ⟪0.15⟫ b && ltB b ⟪0.45⟫) && geB a ⟪0.3⟫) then
      let y := -(ln b)
      let u := y - (⟪1.0⟫ - a) * ln y
      (y - (⟪1.0⟫ - a) * ln y - ln (⟪1.0⟫ + (⟪1.0⟫ - a) / (⟪1.0⟫ + u)), none)
    else if ltB ⟪0.01⟫ b && ltB b ⟪0.15⟫ then
      let y := -(ln b)
      let u := y - (⟪1.0⟫ - a) * ln y
      (y - (⟪1.0⟫ - a) * ln u
        - ln ((u * u + ⟪2.0⟫ * (⟪3.0⟫ - a) * u + (⟪2.0⟫ - a) * (⟪3.0⟫ - a)) / (u * u + (⟪5.0⟫ - a) * u + ⟪2.0⟫)), none)
    else if leB b ⟪0.01⟫ then
      let y := -(ln b)
      let x0 := tailExpansion a y
      if leB b ⟪1.0e-28⟫ then (x0, some .tinyB) else (x0, none)
    else (⟪0.5⟫, none)
  else
    let lo := ltB p ⟪0.5⟫
    let pref : φ := if lo then ⟪-1.0⟫ else ⟪1.0⟫
    let tau := if lo then p else q
    let t := sqrt (⟪-2.0⟫ * ln tau)
    let t2 := t * t
    let t3 := t2 * t
    let t4 := t3 * t
    let numerator := ⟪3.31125922108741⟫ + ⟪11.6616720288968⟫ * t + ⟪4.28342155967104⟫ * t2 + ⟪0.213623493715853⟫ * t3
    let denominator := ⟪1.0⟫ + ⟪6.61053765625462⟫ * t + ⟪6.40691597760039⟫ * t2 + ⟪1.27364489782223⟫ * t3
      + ⟪3.611708101884203e-2⟫ * t4
    let s := pref * (t - numerator / denominator)
    let s2 := s * s
    let s3 := s * s2
    let s4 := s * s3
    let s5 := s * s4
    let aSqrt := sqrt a
    let w := a + s * aSqrt + (s2 - ⟪1.0⟫) / ⟪3.0⟫ + (s3 - ⟪7.0⟫ * s) / (⟪36.0⟫ * aSqrt)
      - (⟪3.0⟫ * s4 + ⟪7.0⟫ * s2 - ⟪16.0⟫) / (⟪810.0⟫ * a)
      + (⟪9.0⟫ * s5 + ⟪256.0⟫ * s3 - ⟪433.0⟫ * s) / (⟪38880.0⟫ * a * aSqrt)
    if geB a ⟪500.0⟫ && ltB (Scalar.abs (⟪1.0⟫ - w / a)) ⟪1.0e-6⟫ then (w, some .largeA)
    else if gtB p ⟪0.5⟫ then
      if ltB w (⟪3.0⟫ * a) then (w, none)
      else
        let d := fmax ⟪2.0⟫ (a * (a - ⟪1.0⟫))
        if gtB b (powf ⟪10.0⟫ (-d)) then
          let u := -(ln b) + (a - ⟪1.0⟫) * ln w - ln (⟪1.0⟫ + (⟪1.0⟫ - a) / (⟪1.0⟫ + w))
          (-(ln b) + (a - ⟪1.0⟫) * ln u - ln (⟪1.0⟫ + (⟪1.0⟫ - a) / (⟪1.0⟫ + u)), none)
        else (tailExpansion a (-(ln b)), none)
    else
      let v := ln (p * ext.gamma (a + ⟪1.0⟫))
      (exp ((v + w) / a), none)

/-- the Schröder iteration (`gamma.rs:169-200`); `none` = a panic inside `gamma_lr`/`gamma_ur` -/
def schroeder (ext : GammaExt φ) (a p q gammaA tolEps : φ) : Nat → Nat → φ → Option (φ × GExit)
  | 0, _, xn => some (xn, .exhausted)
  | fuel + 1, k, xn =>
    let r := powf xn (a - ⟪1.0⟫) * exp (-xn) / gammaA
    let xn := if leB xn ⟪0.0⟫ then ⟪1.0e-16⟫ else xn
    let errO : Option φ :=
      if leB p ⟪0.5⟫ then (ext.lr a xn).map fun v => v - p
      else (ext.ur a xn).map fun v => -(v - q)
    match errO with
    | none => none
    | some err =>
      if ltB (Scalar.abs err) tolEps then some (xn, .converged k)
      else
        let tn := err / r
        let wn := (a - ⟪1.0⟫ - xn) / ⟪2.0⟫
        let hn := if leB (Scalar.abs tn) ⟪0.1⟫ && leB (Scalar.abs (wn * tn)) ⟪0.1⟫ then tn + wn * tn * tn else tn
        schroeder ext a p q gammaA tolEps fuel (k + 1) (xn - hn)

/-- `inverse_gamma_lr_impl` -/
def invGammaImpl (ext : GammaExt φ) (a p : φ) (maxIter : Nat) (tol : φ) : Option (φ × GExit) :=
  match startValue ext a p with
  | (v, some e) => some (v, e)
  | (x0, none) =>
    schroeder ext a p (⟪1.0⟫ - p) (ext.gamma a) (tol * ⟪2.220446049250313e-16⟫) maxIter 0 x0

/-- `inverse_gamma_lr` for `T = f64` **after fix `b2abcbe`**: an error unless the quantile is finite and
positive. Outer `none` = panic, inner `none` = `GammaError`. -/
def invGammaLr (ext : GammaExt φ) (a p : φ) (maxIter : Nat) (tol : φ) : Option (Option φ) :=
  match invGammaImpl ext a p maxIter tol with
  | none => none
  | some (r, _) => if isFiniteS r && gtB r ⟪0.0⟫ then some (some r) else some none

end
end Momtrop
'''

def bits(lit):
    return struct.unpack("<Q", struct.pack("<d", float(lit)))[0]

out = re.sub(r"⟪([^⟫]+)⟫", lambda m: f"(lit 0x{bits(m.group(1)):016X} /- {m.group(1)} -/)", T)
path = os.path.join(os.path.dirname(os.path.dirname(os.path.abspath(__file__))), "lean", "Momtrop", "Model", "Gamma.lean")
open(path, "w").write(out)
print("wrote", path)
