#!/usr/bin/env python3
"""Apply every behaviour-preserving change under /verif/benign/<id>/patch.diff to /repo in turn, run ALL quick checks
(--skip-lean) and record which ones raise an alarm (they should not). Results: benign/RESULTS.json."""
import json, os, subprocess, sys

B = "/verif/benign"
IDS = [f"C{i:02d}" for i in range(1, 21)]


def main():
    names = sorted(n for n in os.listdir(B) if os.path.isdir(os.path.join(B, n)))
    only = [a for a in sys.argv[1:] if not a.startswith("--")]
    if only:
        names = [n for n in names if n in only]
    results = json.load(open(os.path.join(B, "RESULTS.json"))) if os.path.exists(os.path.join(B, "RESULTS.json")) else {}
    for n in names:
        if subprocess.run("git -C /repo status --short | grep -q .", shell=True).returncode == 0:
            print("repo dirty, abort"); sys.exit(2)
        if subprocess.run(f"git -C /repo apply {B}/{n}/patch.diff", shell=True).returncode != 0:
            results[n] = {"error": "patch does not apply"}; print(n, "patch does not apply"); continue
        alarms = {}
        try:
            for pid in IDS:
                p = subprocess.run(f"cd /verif && ./check {pid} --skip-lean", shell=True, stdout=subprocess.PIPE, stderr=subprocess.STDOUT)
                out = p.stdout.decode()
                if p.returncode != 0:
                    alarms[pid] = [l for l in out.splitlines() if l.startswith("VIOLATION") or "quick:" in l][-2:]
        finally:
            subprocess.run("git -C /repo checkout -- .", shell=True, check=True)
            subprocess.run("git -C /verif checkout -- lean/Momtrop/Generated/SerdeSchema.lean", shell=True)
        results[n] = {"alarms": alarms}
        print(n, "ALARMS " + json.dumps(alarms) if alarms else "quiet", flush=True)
        json.dump(results, open(os.path.join(B, "RESULTS.json"), "w"), indent=1)


if __name__ == "__main__":
    main()
