#!/bin/bash
# usage: tools_collect_benign.sh A  -- behaviour-preserving changes (/tmp/wt/benign<part>) go to /verif/benign/<part>k/
p=$1
for k in 1 2 3 4 5; do
  if [ -f /tmp/wt/benign$p/benign$k.patch ]; then
    d=/verif/benign/$p$k; mkdir -p $d
    cp /tmp/wt/benign$p/benign$k.patch $d/patch.diff
    [ -f /tmp/wt/benign$p/REPORT.md ] && cp /tmp/wt/benign$p/REPORT.md $d/REPORT.md
    [ -f /tmp/wt/benign$p/diff_test.rs ] && cp /tmp/wt/benign$p/diff_test.rs $d/diff_test.rs
  fi
done
git -C /repo worktree remove --force /tmp/wt/benign$p
ls /verif/benign
