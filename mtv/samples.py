"""Sample-level cases: accepted connected graphs with a loop signature, kinematics and x-space points; running them
through the real code (`sample` op) and the modular model operations."""
import math
from fractions import Fraction
from . import gen, graphs, kin, oracle
from .core import f2b, b2f, run_harness, run_driver
from .cmp import cmp_bits_list, bits_close


def dy(rng, lo=-5, hi=5, den=8):
    return Fraction(rng.randint(lo * den, hi * den), den)


def make_graph_case(rng, max_e, max_loops, tries=60, catalogue_bias=0.5, names=None, mass_mode=None, ext_modes=None, dims=None):
    for _ in range(tries):
        if names:
            name = rng.choice(names); edges = list(gen.CATALOGUE[name])
        elif rng.random() < catalogue_bias:
            name = rng.choice([k for k, v in gen.CATALOGUE.items() if len(v) <= max_e and k not in ("two_bubbles",)])
            edges = list(gen.CATALOGUE[name])
        else:
            name = "random_connected"; edges = gen.random_connected(rng, max_e, max_v=5)
        if name != "random_connected" and rng.random() < 0.5 and gen.face_basis(name, edges) is None:
            rng.shuffle(edges)      # the position of an edge in the list matters to index-ordered searches (components, sample_edge)
        edges, _, _ = gen.relabel(rng, edges)
        n = len(edges)
        L = oracle.subset_info(edges, [False] * n, [], (1 << n) - 1)[0]
        if not (1 <= L <= max_loops):
            continue
        D = rng.choice(dims) if dims else rng.randint(1, 6)
        c = graphs.make_case(rng, edges, D, want=True, ext_mode=rng.choice(ext_modes or ["all", "subset", "two", "all"]), tries=30, mass_mode=mass_mode)
        verts = set(v for e in edges for v in e)
        next_on_graph = len(set(v for v in c["ext"] if v in verts))
        if next_on_graph == 1 or any(v not in verts for v in c["ext"]):
            continue    # a single external leg cannot carry momentum: no generic kinematics exists (see DESIGN.md, C07)
        if next_on_graph < 2 and not any(c["massive"]):
            continue
        if c["accepted"] and c["dod"] > Fraction(1, 20) and c["loops"] == L:
            c["name"] = name
            return c
    return None


def make_special_case(rng, kind):
    """accepted graphs outside the main family: 'vacuum' (no external vertex, all edges massive) and 'disconnected'
    (two components: one carrying the externals, the other a massive vacuum bubble)"""
    for _ in range(60):
        D = rng.randint(1, 6)
        if kind == "huge_j":
            # one-loop polygon with two tiny propagator powers: J ~ 1/(tiny omegas) exceeds 2^63 (whole-valued, beyond every integer type)
            k = rng.randint(3, 5)
            edges = [(i, (i + 1) % k) for i in range(k)]
            edges, mp, _ = gen.relabel(rng, edges)
            D = 3
            weights = [rng.uniform(0.9, 1.4) for _ in range(k)]
            for i in rng.sample(range(k), 2):
                weights[i] = 10.0 ** rng.uniform(-12, -10)
            massive = [False] * k; ext = list(mp)
            dod, Lf, table = oracle.table_oracle(edges, weights, massive, ext, D)
            if not oracle.divergent_subsets(table) and dod > Fraction(1, 20):
                return dict(edges=edges, weights=weights, massive=massive, ext=ext, D=D, accepted=True, table=table, dod=dod, loops=Lf,
                            name="huge_j:polygon")
            continue
        if kind.startswith("integer_dod"):
            # overall degree of divergence an exact small integer (and weights that are multiples of 1/8): exponents like dod = 4.0,
            # D/2 = 2.0 hit every "integral exponent" path exactly
            name = rng.choice(["bubble", "triangle", "box", "sunrise", "double_triangle", "banana4", "kite"])
            edges, mp, _ = gen.relabel(rng, list(gen.CATALOGUE[name]))
            n = len(edges)
            D = rng.choice([2, 3, 4, 4, 6, 6])
            massive = [rng.random() < 0.4 for _ in range(n)]
            ext = list(mp)
            L = oracle.subset_info(edges, massive, ext, (1 << n) - 1)[0]
            k = int(kind.split(":")[1]) if ":" in kind else rng.choice([1, 2, 3, 4, 4, 4, 5, 6, 8])
            units = int((Fraction(L * D, 2) + k) * 8)
            if units < n:
                continue
            parts = [1] * n
            for _ in range(units - n):
                parts[rng.randrange(n)] += 1
            weights = [p / 8.0 for p in parts]
            dod, Lf, table = oracle.table_oracle(edges, weights, massive, ext, D)
            if dod == k and not oracle.divergent_subsets(table):
                return dict(edges=edges, weights=weights, massive=massive, ext=ext, D=D, accepted=True, table=table, dod=dod, loops=Lf,
                            name="integer_dod:" + name)
            continue
        if kind == "unit_j":
            # propagator powers of exactly 2 (and 4): J of the two-edge subgraph {a, b} is 1/2 + 1/2 = 1.0 exactly, the value J has for
            # a single edge
            name = rng.choice(["triangle", "box", "bubble_leg", "kite", "double_triangle"])
            edges, mp, _ = gen.relabel(rng, list(gen.CATALOGUE[name]))
            n = len(edges)
            D = rng.choice([4, 6, 6])
            massive = [rng.random() < 0.3 for _ in range(n)]
            ext = list(mp)
            weights = [rng.choice([2.0, 2.0, 4.0, 1.5, 2.5]) for _ in range(n)]
            i, j = rng.sample(range(n), 2)
            weights[i] = weights[j] = 2.0
            dod, Lf, table = oracle.table_oracle(edges, weights, massive, ext, D)
            if not oracle.divergent_subsets(table) and dod > Fraction(1, 20):
                return dict(edges=edges, weights=weights, massive=massive, ext=ext, D=D, accepted=True, table=table, dod=dod, loops=Lf,
                            name="unit_j:" + name)
            continue
        if kind in ("repeated_weights", "weights_equal_dod"):
            # exact coincidences among the propagator powers: the same power at NON-adjacent edge positions (first and last included) with
            # another one in between / two or more powers bit-equal to the overall degree of divergence (Gamma factors that "cancel")
            name = rng.choice(["triangle", "box", "sunrise", "double_triangle", "banana4", "bubble_leg"])
            edges, mp, _ = gen.relabel(rng, list(gen.CATALOGUE[name]))
            n = len(edges)
            D = rng.choice([3, 4, 4, 6]) if kind == "weights_equal_dod" else rng.randint(2, 4)
            massive = [rng.random() < 0.5 for _ in range(n)]
            ext = list(mp)
            L = oracle.subset_info(edges, massive, ext, (1 << n) - 1)[0]
            if kind == "repeated_weights":
                a, b = rng.choice([(1.5, 0.7), (0.9, 1.3), (2.5, 0.6), (0.35, 1.75), (1.25, 3.0)])
                sc = max(1.0, (L * D / 2.0 + 0.3) / (a * ((n + 1) // 2) + b * (n // 2)))
                sc = math.ceil(sc * 4) / 4.0
                weights = [(a if i % 2 == 0 else b) * sc for i in range(n)]
                if n % 2 == 0:
                    weights[-1] = weights[0]          # first == last with others in between
            else:
                # t = dod for the first k edges: k t + s - L D / 2 = t  =>  t = (L D / 2 - s) / (k - 1)
                k = rng.choice([2, 2, 3]) if n >= 3 else 2
                if n - k < 1:
                    continue
                s_rest = [rng.choice([0.25, 0.5, 0.75, 1.0]) for _ in range(n - k)]
                t = Fraction(L * D, 2) - Fraction(sum(s_rest))
                t = t / (k - 1)
                if t <= 0 or float(t) != t:
                    continue
                order = list(range(n)); rng.shuffle(order)
                weights = [0.0] * n
                for j, i in enumerate(order):
                    weights[i] = float(t) if j < k else s_rest[j - k]
            dod, Lf, table = oracle.table_oracle(edges, weights, massive, ext, D)
            if kind == "weights_equal_dod" and sum(1 for w in weights if Fraction(w) == dod) < 2:
                continue
            if not oracle.divergent_subsets(table) and dod > Fraction(1, 20):
                return dict(edges=edges, weights=weights, massive=massive, ext=ext, D=D, accepted=True, table=table, dod=dod, loops=Lf,
                            name=kind + ":" + name)
            continue
        if kind == "vacuum_massless":
            # no external vertex and no edge flagged massive: every non-empty subset is mass-momentum spanning, the empty one is not
            name = rng.choice(["bubble", "sunrise", "triangle", "box"])
            edges, mp, _ = gen.relabel(rng, list(gen.CATALOGUE[name]))
            n = len(edges)
            D = rng.randint(2, 4)
            massive, ext = [False] * n, []
            L = oracle.subset_info(edges, massive, ext, (1 << n) - 1)[0]
            weights = [(L * D / 2.0 + rng.uniform(0.2, 0.6)) / n * rng.uniform(0.9, 1.1) for _ in range(n)]
            dod, Lf, table = oracle.table_oracle(edges, weights, massive, ext, D)
            if not oracle.divergent_subsets(table) and dod > Fraction(1, 20):
                return dict(edges=edges, weights=weights, massive=massive, ext=ext, D=D, accepted=True, table=table, dod=dod, loops=Lf,
                            name="vacuum_massless:" + name)
            continue
        if kind == "inf_factor":
            # J of the full graph overflows (two propagator powers ~1e-154): cached_factor = +inf, every sample has jacobian = inf.
            # A format that "preserves f64 exactly" must carry that through (JSON cannot: skipped there)
            edges, mp, _ = gen.relabel(rng, [(0, 1), (1, 2), (2, 0)])
            D, massive, ext = 3, [True] * 3, list(mp)
            weights = [1.6, 10.0 ** -rng.uniform(153.5, 154.5), 10.0 ** -rng.uniform(154, 155)]
            dod, Lf, table = oracle.table_oracle(edges, weights, massive, ext, D)
            if not oracle.divergent_subsets(table):
                return dict(edges=edges, weights=weights, massive=massive, ext=ext, D=D, accepted=True, table=table, dod=dod, loops=Lf,
                            name="inf_factor:triangle")
            return None
        if kind == "eight":
            name = rng.choice(["ladder3", "hexagon_doubled_plus"])
            edges = list(gen.CATALOGUE["ladder3"]) if name == "ladder3" else list(gen.CATALOGUE["hexagon_doubled"]) + [(0, 3)]
            c = graphs.make_case(rng, gen.relabel(rng, edges)[0], rng.randint(2, 4), want=True, ext_mode=rng.choice(["all", "subset"]), tries=30,
                                 mass_mode=rng.choice(["none", "some"]))
            if c["accepted"] and c["dod"] > Fraction(1, 20):
                c["name"] = "eight:" + name
                return c
            continue
        if kind in ("vacuum", "single_edge"):
            name = "tadpole" if kind == "single_edge" else rng.choice(["bubble", "sunrise", "tadpole_pair", "triangle_tadpole", "tadpole"])
            edges = list(gen.CATALOGUE[name]); massive = [True] * len(edges); ext = []
        elif kind == "vacuum_mixed":
            # no external vertex, some but not all edges flagged massive: a subset is mass-momentum spanning iff it holds every
            # massive edge, whatever vertices it touches
            name = rng.choice(["bubble", "sunrise", "triangle", "box", "kite", "double_triangle"])
            edges = list(gen.CATALOGUE[name]); ext = []
            massive = [False] * len(edges)
            for i in rng.sample(range(len(edges)), rng.randint(1, len(edges) - 1)):
                massive[i] = True
        else:
            name = rng.choice(["two_bubbles", "triangle_x_bubble", "bubble_x_tadpole"])
            edges = {"two_bubbles": [(0, 1), (0, 1), (2, 3), (2, 3)], "triangle_x_bubble": [(0, 1), (1, 2), (2, 0), (3, 4), (3, 4)],
                     "bubble_x_tadpole": [(0, 1), (0, 1), (2, 2)]}[name]
            n1 = {"two_bubbles": 2, "triangle_x_bubble": 3, "bubble_x_tadpole": 2}[name]
            massive = [rng.random() < 0.5 for _ in range(n1)] + [True] * (len(edges) - n1)
            ext = sorted(set(v for e in edges[:n1] for v in e))
        edges, mp, _ = gen.relabel(rng, edges)
        ext = [mp[v] for v in ext]
        n = len(edges)
        L = oracle.subset_info(edges, massive, ext, (1 << n) - 1)[0]
        weights = [gen.weight_choice(rng, rng.choice(["twelfths", "random"])) for _ in range(n)]
        tot = sum(weights); target = L * D / 2.0 + rng.uniform(0.2, 1.5)
        weights = [w * target / tot for w in weights]
        dod, Lf, table = oracle.table_oracle(edges, weights, massive, ext, D)
        if not oracle.divergent_subsets(table) and dod > Fraction(1, 20):
            return dict(edges=edges, weights=weights, massive=massive, ext=ext, D=D, accepted=True, table=table, dod=dod, loops=Lf,
                        name=kind + ":" + name)
    return None


def make_kinematics(rng, case, scale=1, decouple=False, plane=None):
    """external momenta (exactly conserved, dyadic), masses, a spanning tree with its fundamental signature and the
    tree routing of the external momenta"""
    edges, D = case["edges"], case["D"]
    S, tree = kin.fundamental_signature(rng, edges)
    verts = set(v for e in edges for v in e)
    ext = sorted(set(v for v in case["ext"] if v in verts))      # a vertex listed twice (two legs) is one external vertex
    ext_mom = {}
    if len(ext) >= 2:
        tot = [Fraction(0)] * D
        for v in ext[:-1]:
            pv = [dy(rng) for _ in range(D)]
            ext_mom[v] = pv; tot = [a + b for a, b in zip(tot, pv)]
        ext_mom[ext[-1]] = [-t for t in tot]
    elif len(ext) == 1:
        ext_mom[ext[0]] = [Fraction(0)] * D
    plane = D >= 2 and (rng.random() < 0.1 if plane is None else plane)
    if plane:
        # all external momenta (and, in make_routing, all offsets) in the hyperplane orthogonal to the first axis: every shift has an
        # exactly zero first component
        ext_mom = {v: [Fraction(0)] + list(p[1:]) for v, p in ext_mom.items()}
    # overall scale of all dimensionful quantities (a power of two: exact); every property is homogeneous in it
    sc = Fraction(scale)
    ext_mom = {v: [t * sc for t in p] for v, p in ext_mom.items()}
    shifts = kin.route_externals(edges, tree, ext_mom, D)
    masses = [Fraction(rng.randint(1, 12), 4) * sc if m else Fraction(0) for m in case["massive"]]
    if decouple:
        # the is_massive flags of the graph steer the importance sampling only; the integrand's masses are whatever edge_data says:
        # masses on edges that are not flagged, and flagged edges without a mass
        masses = [(Fraction(rng.randint(1, 12), 4) * sc if rng.random() < 0.4 else Fraction(0)) if rng.random() < 0.5 else m0 for m0 in masses]
    if decouple and not ext_mom and all(m0 == 0 for m0 in masses):
        masses[rng.randrange(len(masses))] = Fraction(rng.randint(1, 12), 4) * sc      # a vacuum graph needs some scale for V != 0
    # only m^2 enters every property: a mass may be passed with a negative sign
    masses = [(-m0 if (m0 != 0 and rng.random() < 0.15) else m0) for m0 in masses]
    return dict(S=S, tree=tree, ext_mom=ext_mom, masses=masses, shifts=shifts, plane=plane)


def make_routing(rng, case, variant="random", kinem=None):
    """a loop-momentum routing of the given kinematics: cycle basis (unimodular change of the fundamental one), edge
    orientations, constant offsets of the loop momenta"""
    kinem = kinem or make_kinematics(rng, case)
    edges, D = case["edges"], case["D"]
    n = len(edges)
    S, tree, ext_mom, masses, shifts = kinem["S"], kinem["tree"], kinem["ext_mom"], kinem["masses"], kinem["shifts"]
    L = len(S[0])
    P = [[1 if i == j else 0 for j in range(L)] for i in range(L)]
    flips = [1] * n
    offsets = [[Fraction(0)] * D for _ in range(L)]
    face = gen.face_basis(case.get("name", ""), edges) if variant == "face" else None
    if face is not None:
        S = face
        perm = list(range(L)); rng.shuffle(perm)
        P = [[(rng.choice([1, -1]) if perm[j] == i else 0) for j in range(L)] for i in range(L)]
        flips = [rng.choice([1, 1, -1]) for _ in range(n)]
        if rng.random() < 0.5:
            offsets = [[dy(rng, -3, 3) for _ in range(D)] for _ in range(L)]
    elif variant == "permuted":
        perm = list(range(L)); rng.shuffle(perm)
        P = [[(rng.choice([1, -1]) if perm[j] == i else 0) for j in range(L)] for i in range(L)]
        if rng.random() < 0.5:
            offsets = [[dy(rng, -3, 3) for _ in range(D)] for _ in range(L)]
    elif variant != "fundamental":
        P = kin.unimodular(rng, L, steps=(rng.randint(2 * L, 5 * L) if variant == "big" else None), big=(variant == "big" or rng.random() < 0.5))
        flips = [rng.choice([1, 1, -1]) for _ in range(n)]
        if rng.random() < 0.7:
            offsets = [[dy(rng, -3, 3) for _ in range(D)] for _ in range(L)]
    if any(any(c != 0 for c in o) for o in offsets):
        if kinem.get("plane"):
            offsets = [[Fraction(0)] + o[1:] for o in offsets]
        elif rng.random() < 0.1:
            # offsets far larger than the physical scales: V is then a small difference of large numbers (cancellation ratio ~1e10)
            big = Fraction(2) ** rng.randint(14, 18)
            offsets = [[c * big for c in o] for o in offsets]
    S2 = kin.mat_mul_int(S, P)
    sh = [[shifts[e][i] + sum(S2[e][l] * offsets[l][i] for l in range(L)) for i in range(D)] for e in range(n)]
    S3 = [[flips[e] * S2[e][l] for l in range(L)] for e in range(n)]
    sh = [[flips[e] * x for x in sh[e]] for e in range(n)]
    nonfund = any(P[i][j] != (1 if i == j else 0) for i in range(L) for j in range(L)) or any(f < 0 for f in flips)
    return dict(sig=S3, ext_mom=ext_mom, masses=masses, shifts=sh, L=L, nonfundamental=nonfund,
                has_offsets=any(any(c != 0 for c in o) for o in offsets), P=P, flips=flips, tree=tree, decoupled=bool(kinem.get("decoupled")),
                max_sig=max(abs(v) for r in S3 for v in r))


def point(rng, dim, kind="uniform", n_edges=None):
    """x-space point. Layout for E edges: u_0, xi_0, u_1, xi_1, ..., (2E-2 numbers), lambda coordinate, then (radius, angle) pairs."""
    xs = [rng.random() for _ in range(dim)]
    E = n_edges
    xi_slots = list(range(1, 2 * E - 2, 2)) if E and E >= 2 else []
    if kind == "tiny_xi" and xi_slots:
        # legal coordinates far below 2^-52 (a clamp to f64::EPSILON, a guard against 'singular' input, ... would change the parameters)
        for i in rng.sample(xi_slots, min(len(xi_slots), rng.randint(1, 2))):
            xs[i] = 10.0 ** -rng.uniform(17, 300) if rng.random() < 0.8 else 5e-324
    elif kind == "small_xi" and xi_slots:
        # parameters 1e-8 .. 1e-13 of the preceding ones: their squares are below an f64 ulp of the products they are compared with,
        # their first powers are not
        for i in rng.sample(xi_slots, min(len(xi_slots), rng.randint(1, 2))):
            xs[i] = 10.0 ** -rng.uniform(8, 13)
    elif kind == "zero_last_xi" and xi_slots:
        # only the LAST removed edge gets the parameter 0 (legal point; L usually stays positive definite: the edge just drops out)
        xs = [min(max(x, 5e-324), 1 - 2.0 ** -53) for x in xs]
        xs[xi_slots[-1]] = 0.0
        return xs
    elif kind == "zero_xi" and xi_slots:
        i = rng.choice(xi_slots)
        xs = [min(max(x, 5e-324), 1 - 2.0 ** -53) for x in xs]
        xs[i] = 0.0
        return xs
    elif kind == "angles" and E:
        for i in range(2 * E - 1, dim):
            if (i - (2 * E - 1)) % 2 == 1 and rng.random() < 0.7:
                xs[i] = rng.choice([0.0, 0.25, 0.5, 0.75, 0.125, 0.375, 1.0, 1.0])
        # (an angle coordinate may be exactly 1: cos(2 pi) = 1; the property restricts only the radius coordinate to (0,1))
        xs = [x if (i >= 2 * E - 1 and (i - (2 * E - 1)) % 2 == 1 and x == 1.0) else min(max(x, 0.0), 1 - 2.0 ** -53) for i, x in enumerate(xs)]
        return xs
    if kind == "corner":
        for i in range(dim):
            c = rng.random()
            if c < 0.3:
                xs[i] = 2.0 ** -rng.randint(20, 40)
            elif c < 0.5:
                xs[i] = 1 - 2.0 ** -rng.randint(20, 53)
    elif kind == "edge1":
        i = rng.randrange(dim); xs[i] = 1 - 2.0 ** -53
    xs = [min(max(x, 5e-324), 1 - 2.0 ** -53) for x in xs]
    return xs


def sample_request(case, routing, table, xs, tol=None, debug=True, meta=True):
    D = case["D"]
    ed = [[f2b(float(m)) if (case["massive"][e] and not routing.get("decoupled")) or m != 0 else None, [f2b(float(c)) for c in routing["shifts"][e]]]
          for e, m in enumerate(routing["masses"])]
    r = {"op": "sample", "D": D, "table": table, "sig": routing["sig"], "x": [f2b(x) for x in xs], "edge_data": ed,
         "debug": debug, "meta": meta}
    if len(case["edges"]) <= 8 and "weights" in case:
        # the implementation builds the sampler through the public API (Graph::build_sampler with this signature); the model is
        # evaluated on the table and signature of the request. Glue in build_sampler is thereby part of every sample-level check
        r["api_graph"] = {"edges": [[a, b, f2b(w), bool(m)] for (a, b), w, m in zip(case["edges"], case["weights"], case["massive"])],
                          "ext": list(case["ext"])}
    if tol is not None:
        r["tol"] = f2b(tol)
    return r


def build_tables(cases):
    reqs = [graphs.request(c) for c in cases]
    return run_harness(reqs)


import os as _os, re as _re
_STATEFUL = _re.compile(r"\b(static\s+mut|thread_local!|lazy_static!|OnceCell|OnceLock|RefCell|Cell<|Mutex|RwLock|Atomic[A-Z]\w*|unsafe)\b")


def purity_audit(ctx):
    """The model of `sample` is a pure function of its arguments; every sample-level correspondence rests on the code being one too. Global
    state, interior mutability or `unsafe` anywhere in /repo/src (outside comments) is reported once per run as a broken tie."""
    if getattr(ctx, "_purity_audited", False):
        return
    ctx._purity_audited = True
    hits = []
    for root, _, files in _os.walk("/repo/src"):
        for f in files:
            if f.endswith(".rs"):
                for i, line in enumerate(open(_os.path.join(root, f), errors="replace"), 1):
                    m = _STATEFUL.search(line.split("//")[0])
                    if m:
                        hits.append(f"{_os.path.join(root, f)}:{i}: {m.group(0)}")
    ctx.extra["purity_audit_hits"] = hits
    if hits:
        ctx.mismatch("source audit: global state / interior mutability / unsafe in /repo/src - the pure model of `sample` no longer describes the code "
                     "(results may depend on the call history, the thread or the process)", None, hits[:10], None)


def generate(ctx, n_graphs, pts, max_e=6, max_loops=3, kinds=("uniform", "uniform", "corner", "edge1"), variant="random",
             routings_per_graph=1, names=None, mass_mode=None, special=(), ext_modes=None, scales=(1,), decouple=0.0, dims=None, plane=None):
    """returns list of dict(case, routing, table, xs, req, kind); `special` = kinds of make_special_case to append"""
    purity_audit(ctx)
    global _CTX
    _CTX = ctx
    rng = ctx.rng
    cases = []
    while len(cases) < n_graphs:
        c = make_graph_case(rng, max_e, max_loops, names=names, mass_mode=mass_mode, ext_modes=ext_modes, dims=dims)
        if c is not None:
            cases.append(c)
    for kind in special:
        c = make_special_case(rng, kind)
        if c is not None:
            cases.append(c)
    built = build_tables(cases)
    out = []
    for c, b in zip(cases, built):
        if b.get("status") != "ok":
            ctx.count("sample.graph_rejected_by_impl")
            nE = len(c["edges"])
            margin = min([abs(c["table"][m][2]) for m in range(1, (1 << nE) - 1)] or [Fraction(1)])
            if c.get("accepted") and margin > Fraction(1, 10 ** 9):
                ctx.extra.setdefault("_rejected_cases", []).append(c)
                # the tie between the exact subgraph table and the code is broken: nothing can be sampled for this graph
                ctx.mismatch("build_sampler rejects (or panics on) a graph whose exact subgraph table has no divergent proper subset "
                             "(smallest |omega| %.3e)" % float(margin), graphs.request(c), {"status": b.get("status"), "msg": str(b.get("msg"))[:200]},
                             {"status": "ok"})
            continue
        dec = rng.random() < decouple or str(c.get("name", "")).startswith("vacuum_massless")
        # upstream tie: the combinatorial part of the implementation's table (loop number and spanning flag of EVERY subset, the empty
        # one included) is the exact oracle's; the sampling model is evaluated on the implementation's table
        ent = b["table"]["entries"]
        wrong = [m for m in range(len(ent)) if m < len(c["table"]) and (ent[m][0] != c["table"][m][0] or bool(ent[m][1]) != bool(c["table"][m][1]))]
        if wrong:
            m0 = wrong[0]
            ctx.mismatch(f"subgraph table of the implementation vs the exact oracle: subset {m0:#b} has (loops, spanning) = ({ent[m0][0]}, {bool(ent[m0][1])}), "
                         f"the definition gives ({c['table'][m0][0]}, {bool(c['table'][m0][1])}); {len(wrong)} subsets differ", graphs.request(c),
                         {"subset": m0, "loops": ent[m0][0], "spanning": bool(ent[m0][1])}, {"subset": m0, "loops": c["table"][m0][0], "spanning": bool(c["table"][m0][1])})
        kinem = make_kinematics(rng, c, scale=rng.choice(scales), decouple=dec, plane=plane)
        kinem["decoupled"] = dec
        routings = [make_routing(rng, c, "fundamental" if (k == 0 and routings_per_graph > 1) else
                                 ("face" if variant == "random" and gen.face_basis(c.get("name", ""), c["edges"]) is not None and rng.random() < 0.7 else variant), kinem)
                    for k in range(routings_per_graph)]
        for i in range(pts):
            kind = kinds[i % len(kinds)]
            xs = point(rng, b["numVars"], kind, n_edges=len(c["edges"]))
            for k, routing in enumerate(routings):
                out.append(dict(case=c, routing=routing, table=b["table"], built=b, xs=xs, kind=kind, group=(id(c), i),
                                routing_index=k, req=sample_request(c, routing, b["table"], xs)))
    return out


def big_dimension_cases(rng):
    """D = 260 (beyond one byte; D is an unbounded const generic) and D = 13 (D L = 13: odd and beyond the usual range): one-loop graphs"""
    out = []
    for D, edges, weights, massive in ((260, [(0, 1), (0, 1)], [66.0, 66.0], [False, False]), (260, [(0, 1), (0, 1)], [70.0, 70.25], [True, True]),
                                       (13, [(0, 1), (0, 1)], [3.5, 3.75], [True, False]), (13, [(0, 1), (1, 2), (2, 0)], [2.5, 2.25, 2.5], [False, True, False])):
        edges2, mp, _ = gen.relabel(rng, edges)
        ext = list(mp)
        dod, Lf, table = oracle.table_oracle(edges2, weights, massive, ext, D)
        if not oracle.divergent_subsets(table) and dod > 0:
            out.append(dict(edges=edges2, weights=weights, massive=massive, ext=ext, D=D, accepted=True, table=table, dod=dod, loops=Lf, name=f"big_dimension:D={D}"))
    return out


def samples_for_cases(ctx, cases, pts, kinds=("uniform",)):
    """samples for given (already constructed) graph cases; cases the implementation rejects are dropped silently"""
    global _CTX
    _CTX = ctx
    rng = ctx.rng
    out = []
    for c, b in zip(cases, build_tables(cases)):
        if b.get("status") != "ok":
            continue
        kinem = make_kinematics(rng, c)
        routing = make_routing(rng, c, "random", kinem)
        for i in range(pts):
            kind = kinds[i % len(kinds)]
            xs = point(rng, b["numVars"], kind, n_edges=len(c["edges"]))
            out.append(dict(case=c, routing=routing, table=b["table"], built=b, xs=xs, kind=kind, group=(id(c), i), routing_index=0,
                            req=sample_request(c, routing, b["table"], xs)))
    return out


_CTX = None      # the check context of the last generate()/samples_for_cases() call: lets run() report refused builds


def run(samples):
    res = run_harness([s["req"] for s in samples])
    seen = set()
    for s, r in zip(samples, res):
        s["impl"] = r
        # the table of this graph was built (hook path) and the signature is a cycle basis of it: the public path must build it too
        if r.get("status") == "builderr" and _CTX is not None and s.get("case", {}).get("accepted", True):
            key = (id(s["case"]), str(s["req"].get("sig")))
            if key not in seen:
                seen.add(key)
                _CTX.violation("build_sampler refuses an accepted graph with a valid loop signature (cycle basis): " + str(r.get("msg"))[:160],
                               small_req(s), expected="a sampler", observed=str(r.get("msg"))[:200])
    # once per check: a few of the samples through the crate as a default-feature user builds it (no `log`, debug assertions on), with
    # print_debug_info off and on - code that exists only in that build or only behind the debug flag belongs to every property
    if _CTX is not None and not _CTX.extra.get("_nolog_done") and len(samples) >= 4:
        _CTX.extra["_nolog_done"] = True
        from . import sample_checks as SC
        SC.nolog_agreement(_CTX, samples[:: max(1, len(samples) // 12)], k=12)
    return samples


def small_req(s):
    """request with the (large) table replaced by the graph description, for replay files"""
    c = s["case"]
    r = dict(s["req"])
    r["table"] = "<table of graph>"
    r["graph"] = {k: c[k] for k in ("edges", "weights", "massive", "ext", "D")}
    return r


def feynman_from_log(a):
    lg = a.get("log", {})
    return lg.get("momtrop_feynman_parameter"), lg.get("momtrop_feynman_parameter_no_rescaling"), \
        lg.get("momtrop_u_trop_no_rescaling"), lg.get("momtrop_v_trop_no_rescaling")
