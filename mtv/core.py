"""Shared plumbing: float<->bits, running the Rust harness and the Lean driver on request lines."""
import json, os, struct, subprocess, sys, time, math

VERIF = os.path.dirname(os.path.dirname(os.path.abspath(__file__)))
HARNESS_DIR = os.path.join(VERIF, "harness")
LEAN_DIR = os.path.join(VERIF, "lean")
HARNESS_BIN = os.path.join(HARNESS_DIR, "target", "release", "mtv-harness")
DRIVER_BIN = os.path.join(LEAN_DIR, ".lake", "build", "bin", "driver")
NOLOG_DIR = os.path.join(VERIF, "harness_nolog")
NOLOG_BIN = os.path.join(NOLOG_DIR, "target", "release", "mtv-harness-nolog")
MEM_LIMIT_KB = 8_000_000


def f2b(x: float) -> int:
    return struct.unpack("<Q", struct.pack("<d", x))[0]


def b2f(b: int) -> float:
    return struct.unpack("<d", struct.pack("<Q", b))[0]


def ulp_diff(a: int, b: int) -> float:
    """distance in units in the last place between two bit patterns (inf if incomparable)"""
    fa, fb = b2f(a), b2f(b)
    if math.isnan(fa) or math.isnan(fb):
        return 0 if (math.isnan(fa) and math.isnan(fb)) else math.inf
    if fa == fb:
        # +0.0 and -0.0 compare equal but are different results (1/x, sign of a sum): half a unit, so that "bit for bit"
        # (ulps=0) comparisons see the difference and tolerant ones do not
        return 0 if a == b or fa != 0 else 0.5
    def key(bits):
        return bits if bits < (1 << 63) else (1 << 63) - bits
    return abs(key(a) - key(b))


def _run(cmd, lines, what, timeout, tagged=False):
    data = ("\n".join(json.dumps(l, separators=(",", ":")) for l in lines) + "\n").encode()
    shell = f"ulimit -v {MEM_LIMIT_KB}; exec {cmd}"
    p = subprocess.run(["bash", "-c", shell], input=data, stdout=subprocess.PIPE, stderr=subprocess.PIPE,
                       timeout=timeout)
    out = p.stdout.decode(errors="replace").splitlines()
    if tagged:
        out = [l[6:] for l in out if l.startswith("@@ANS ")]
    res = []
    for l in out:
        try:
            res.append(json.loads(l))
        except Exception:
            res.append({"error": "unparsable: " + l[:200]})
    if len(res) != len(lines):
        # a hard crash (abort, OOM): report which request killed the process
        res.append({"error": f"{what} died (rc={p.returncode}) after {len(res)} of {len(lines)} answers: "
                             + p.stderr.decode()[-300:]})
        while len(res) < len(lines):
            res.append({"error": f"{what} died before answering"})
    return res


MACHINERY_ERRORS = []      # (what, request, message) of every answer that is a machinery failure, not an outcome of the library


def _note_errors(what, reqs, res):
    for r, a in zip(reqs, res):
        if isinstance(a, dict) and "error" in a and "status" not in a:
            MACHINERY_ERRORS.append((what, r, str(a["error"])[:300]))
    return res


def run_harness(reqs, timeout=1800):
    return _note_errors("harness", reqs, _run(HARNESS_BIN, reqs, "harness", timeout, tagged=True))


def build_nolog(timeout=3600):
    """the second harness: /repo built with its DEFAULT features (no `log`, no hooks), public API only"""
    import shutil
    lock_src, lock_dst = "/repo/Cargo.lock", os.path.join(NOLOG_DIR, "Cargo.lock")
    if not os.path.exists(lock_dst) and os.path.exists(lock_src):
        shutil.copy(lock_src, lock_dst)
    env = dict(os.environ, CARGO_NET_OFFLINE="true")
    p = subprocess.run(["cargo", "build", "--release", "--offline"], cwd=NOLOG_DIR, stdout=subprocess.PIPE, stderr=subprocess.STDOUT,
                       timeout=timeout, env=env)
    return p.returncode == 0, p.stdout.decode()[-3000:]


def run_nolog(reqs, timeout=1800):
    """rebuilds (incrementally) against /repo's working tree, then runs the requests; None if the default-feature build fails"""
    ok, out = build_nolog()
    if not ok:
        return None, out
    return _run(NOLOG_BIN, reqs, "nolog harness", timeout, tagged=True), ""


def run_driver(reqs, timeout=1800):
    return _run(DRIVER_BIN, reqs, "driver", timeout)
