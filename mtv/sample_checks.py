"""Shared pieces of the sample-level property checks (C07-C11, C13, C01, C02): modular correspondences and exact oracles."""
import math
from fractions import Fraction
from . import samples as S, kin, oracle, exact as X
from .core import f2b, b2f, run_driver
from .cmp import cmp_bits_list, bits_close

EPS = Fraction(1, 2 ** 53)


def fr_list(bits):
    return [Fraction(b2f(b)) for b in bits]


def finite(bits_nested):
    from .cmp import flat
    return all(X.is_finite_bits(b) for b in flat(bits_nested))


def exact_L(x, sig):
    L = len(sig[0])
    return [[sum((x[e] * sig[e][i] * sig[e][j] for e in range(len(sig))), Fraction(0)) for j in range(L)] for i in range(L)]


def exact_quantities(s, x):
    """exact L, L^-1, u vectors, V, cond(L), kappa_V at the Feynman parameters x for sample s"""
    r, c = s["routing"], s["case"]
    D = c["D"]
    sig = r["sig"]
    n, nl = len(sig), len(sig[0])
    Lm = exact_L(x, sig)
    Li = X.inverse(Lm)
    if Li is None:
        return None
    p = r["shifts"]; m = r["masses"]
    u = [[sum((x[e] * sig[e][l] * p[e][i] for e in range(n)), Fraction(0)) for i in range(D)] for l in range(nl)]
    a = sum((x[e] * (m[e] * m[e] + sum(pc * pc for pc in p[e])) for e in range(n)), Fraction(0))
    b = sum((Li[i][j] * sum(u[i][k] * u[j][k] for k in range(D)) for i in range(nl) for j in range(nl)), Fraction(0))
    V = a - b
    cond = X.norm_inf(Lm) * X.norm_inf(Li)
    kappa = (a + abs(b)) / abs(V) if V != 0 else None
    # condition number of the symmetrically scaled matrix D^-1 L D^-1, D = powers of two next to sqrt(L_ii): what the relative
    # accuracy of a Cholesky determinant depends on (rounding of L_ij is bounded by eps sqrt(L_ii L_jj), Cauchy-Schwarz)
    import math
    d = []
    for i in range(nl):
        lii = Lm[i][i]
        ex2 = (lii.numerator.bit_length() - lii.denominator.bit_length()) // 2 if lii > 0 else 0
        d.append(Fraction(2) ** ex2)
    Ls = [[Lm[i][j] / (d[i] * d[j]) for j in range(nl)] for i in range(nl)]
    Lsi = [[Li[i][j] * d[i] * d[j] for j in range(nl)] for i in range(nl)]
    cond_s = X.norm_inf(Ls) * X.norm_inf(Lsi)
    return dict(L=Lm, Linv=Li, u=u, V=V, cond=cond, cond_s=cond_s, kappa=kappa, a=a, det=X.det(Lm))


def tol_cond(nl, cond, kappa=1):
    return 100 * nl * nl * EPS * cond * kappa


# ------------------------------------------------------------------------------------------------
# modular correspondences: each model mechanism is fed the implementation's own upstream values
# ------------------------------------------------------------------------------------------------

def corr_perm(ctx, ss):
    reqs = [{"op": "perm", "table": s["table"], "x": s["req"]["x"]} for s in ss]
    ms = run_driver(reqs)
    for s, m in zip(ss, ms):
        a = s["impl"]
        s["model_perm"] = m
        if "error" in m:
            ctx.mismatch("permutahedral model", S.small_req(s), a, m, "driver error"); continue
        if a.get("status") == "panic":
            if m.get("status") != "panic":
                ctx.mismatch("permutahedral model vs permatuhedral_sampling (panic)", S.small_req(s), {"status": "panic", "msg": a.get("msg")}, {"status": m.get("status")})
            continue
        if m.get("status") != "ok":
            ctx.mismatch("permutahedral model vs permatuhedral_sampling", S.small_req(s), {"status": a.get("status")}, m, "model panics, implementation does not"); continue
        x, xpre, utr, vtr = S.feynman_from_log(a)
        if x is None:
            continue
        for name, va, vm in (("feynman parameters before rescaling", xpre, m["xPre"]), ("feynman parameters", x, m["x"]),
                             ("u_trop before rescaling", [utr], [m["uTrPre"]]), ("v_trop before rescaling", [vtr], [m["vTrPre"]])):
            d = cmp_bits_list(ctx, va, vm, ulps=4, rel=1e-13)
            if d:
                ctx.mismatch(f"permutahedral model vs debug log: {name}", S.small_req(s), {"log": a.get("log")}, m, d); break


def corr_matrix(ctx, ss):
    """lMatrix on the implementation's x; decompose on the implementation's L"""
    idx = [i for i, s in enumerate(ss) if s["impl"].get("status") == "ok" and s["impl"].get("meta")]
    reqs = []
    for i in idx:
        s = ss[i]; a = s["impl"]
        reqs.append({"op": "lmat", "x": a["log"]["momtrop_feynman_parameter"], "sig": s["routing"]["sig"]})
        r = {"op": "decomp", "n": s["routing"]["L"], "a": a["meta"]["l"]}
        if "tol" in s["req"]:
            r["tol"] = s["req"]["tol"]
        reqs.append(r)
    ms = run_driver(reqs)
    for k, i in enumerate(idx):
        s = ss[i]; a = s["impl"]; ml, md = ms[2 * k], ms[2 * k + 1]
        d = cmp_bits_list(ctx, a["meta"]["l"], ml.get("l", []), ulps=4)
        if d:
            ctx.mismatch("lMatrix model (on the implementation's Feynman parameters) vs Metadata.l_matrix", S.small_req(s), {"l": a["meta"]["l"]}, ml, d)
        s["model_decomp"] = md
        da = a["meta"]["decomp"]
        if md.get("status") != "ok":
            ctx.mismatch("decompose model (on the implementation's L matrix) vs Metadata.decompoisiton_result", S.small_req(s), da, md, "status"); continue
        for key in ("det", "inv", "qt", "qti"):
            va, vm = ([da[key]], [md[key]]) if key == "det" else (da[key], md[key])
            scale = max([abs(b2f(b)) for b in va if X.is_finite_bits(b)] or [1.0])
            dd = cmp_bits_list(ctx, va, vm, ulps=4, absol=1e-13 * scale)
            if dd:
                ctx.mismatch(f"decompose model (on the implementation's L matrix) vs Metadata.decompoisiton_result.{key}", S.small_req(s), da, md, dd); break
        if a["u"] != da["det"]:
            ctx.mismatch("returned u is not the determinant in the metadata", S.small_req(s), a["u"], da["det"])


def corr_uv(ctx, ss):
    idx = [i for i, s in enumerate(ss) if s["impl"].get("status") == "ok" and s["impl"].get("meta")]
    reqs = []
    for i in idx:
        s = ss[i]; a = s["impl"]; D = s["case"]["D"]
        x = a["log"]["momtrop_feynman_parameter"]
        shifts = [ed[1] for ed in s["req"]["edge_data"]]
        masses = [ed[0] if ed[0] is not None else f2b(0.0) for ed in s["req"]["edge_data"]]
        reqs.append({"op": "uvec", "D": D, "x": x, "sig": s["routing"]["sig"], "shifts": shifts})
        reqs.append({"op": "vpoly", "D": D, "x": x, "u": a["meta"]["u"], "shifts": shifts, "masses": masses,
                     "nL": s["routing"]["L"], "linv": a["meta"]["decomp"]["inv"]})
    ms = run_driver(reqs)
    for k, i in enumerate(idx):
        s = ss[i]; a = s["impl"]; mu, mv = ms[2 * k], ms[2 * k + 1]
        d = cmp_bits_list(ctx, a["meta"]["u"], mu.get("u", []), ulps=4)
        if d:
            ctx.mismatch("uVectors model vs Metadata.u_vectors", S.small_req(s), {"u": a["meta"]["u"]}, mu, d)
        if "v" not in mv:
            ctx.mismatch("vPolynomial model", S.small_req(s), None, mv, "driver error"); continue
        # v suffers cancellation: scale the tolerance by the size of the terms
        terms = abs(b2f(a["v"])) + 1e-300
        d = cmp_bits_list(ctx, [a["v"]], [mv["v"]], ulps=16, rel=1e-12)
        if d:
            ctx.mismatch("vPolynomial model (on the implementation's x, u, L^-1) vs returned v", S.small_req(s), {"v": a["v"]}, mv, d)


def corr_momenta(ctx, ss):
    idx = [i for i, s in enumerate(ss) if s["impl"].get("status") == "ok" and s["impl"].get("meta")]
    reqs = []
    for i in idx:
        s = ss[i]; a = s["impl"]; md = a["meta"]
        reqs.append({"op": "momenta", "D": s["case"]["D"], "nL": s["routing"]["L"], "v": a["v"], "lambda": md["lambda"],
                     "qti": md["decomp"]["qti"], "linv": md["decomp"]["inv"], "q": md["q"], "u": md["u"]})
    ms = run_driver(reqs)
    for i, m in zip(idx, ms):
        s = ss[i]; a = s["impl"]
        for key, va in (("k", a["k"]), ("shift", a["meta"]["shift"])):
            d = cmp_bits_list(ctx, va, m.get(key, []), ulps=8, rel=1e-13)
            if d:
                ctx.mismatch(f"loopMomenta/onlyShift model (on the implementation's metadata) vs {'loop_momenta' if key == 'k' else 'Metadata.shift'}",
                             S.small_req(s), {key: va}, m, d); break


def corr_qvec(ctx, ss):
    idx = [i for i, s in enumerate(ss) if s["impl"].get("status") == "ok" and s["impl"].get("meta")]
    reqs = []
    for i in idx:
        s = ss[i]; n = len(s["case"]["edges"])
        reqs.append({"op": "qvec", "x": s["req"]["x"][2 * n - 1:], "D": s["case"]["D"], "L": s["routing"]["L"]})
    ms = run_driver(reqs)
    for i, m in zip(idx, ms):
        s = ss[i]; a = s["impl"]
        if m.get("status") != "ok":
            ctx.mismatch("qVectors model vs Metadata.q_vectors", S.small_req(s), a["meta"]["q"], m, "model panics"); continue
        d = cmp_bits_list(ctx, a["meta"]["q"], m["q"], ulps=0)
        if d:
            ctx.mismatch("qVectors model vs Metadata.q_vectors (bit-exact expected)", S.small_req(s), {"q": a["meta"]["q"]}, m, d)


def corr_sample(ctx, ss, fields=("k", "uTrop", "vTrop", "u", "v", "jac")):
    """the whole sample, with the Gamma draw supplied by the implementation's lambda"""
    reqs = []
    for s in ss:
        a = s["impl"]
        r = dict(s["req"]); r["op"] = "sample"
        lam = a.get("meta", {}).get("lambda") if a.get("meta") else None
        r["lambda"] = lam
        reqs.append(r)
    ms = run_driver(reqs)
    for s, m in zip(ss, ms):
        a = s["impl"]
        s["model_sample"] = m
        if "error" in m:
            ctx.mismatch("sampleCore model", S.small_req(s), a, m, "driver error"); continue
        sa, sm = a.get("status"), m.get("status")
        if sa == "gammaerr" and sm in ("gammaerr", "ok"):
            continue
        if sa != sm:
            ctx.mismatch("sampleCore model vs sample (status)", S.small_req(s), {"status": sa, "msg": a.get("msg")}, {"status": sm}); continue
        if sa != "ok":
            continue
        for f in fields:
            va, vm = a[f], m[f]
            if not isinstance(va, list):
                va, vm = [va], [vm]
            d = cmp_bits_list(ctx, va, vm, ulps=16, rel=1e-12)
            if d:
                ctx.mismatch(f"sampleCore model vs sample: {f}", S.small_req(s), {f: a[f]}, {f: m[f]}, d); break
        if a.get("dimension") != m.get("reads"):
            ctx.mismatch("number of coordinates read by the model vs get_dimension()", S.small_req(s), a.get("dimension"), m.get("reads"))


def short_dyadic(v):
    """exactly representable 'small' constant: an integer multiple of 2^-12 below 2^28 (2, 0.5, 5.0, D/2, ...)"""
    import math
    return math.isfinite(v) and abs(v) < 2.0 ** 28 and (v * 4096.0) == math.floor(v * 4096.0)


def foreign_widenings(t, s):
    """values passed to from_f64 by the generic code that do not come from the table, the settings or the Gamma draw
    ('computed ... from the user's inputs and from f64 constants of the table')"""
    import math
    tb = s["table"]
    T = set()
    for e in tb["entries"]:
        T.add(b2f(e[2])); T.add(b2f(e[3]))
    for key in ("dod", "cached"):
        if key in s["built"]:
            T.add(b2f(s["built"][key]))
    if t.get("lambda") is not None:
        T.add(b2f(t["lambda"]))
    if "tol" in s["req"]:
        T.add(b2f(s["req"]["tol"]))
    bad = []
    for b in t.get("widened_values", []):
        v = b2f(b)
        if v in T or short_dyadic(v) or not math.isfinite(v):
            continue
        # short number + table constant (e.g. D/2 * L + dod)
        if any(math.isfinite(c) and short_dyadic(round((v - c) * 4096.0) / 4096.0) and abs((v - c) - round((v - c) * 4096.0) / 4096.0) <= 8 * abs(v) * 2.0 ** -52
               for c in T):
            continue
        bad.append(v)
    return bad


def _flat(v):
    """flattened bit patterns, every NaN the same (sign and payload of a NaN are not results)"""
    if isinstance(v, (list, tuple)):
        return [y for x in v for y in _flat(x)]
    try:
        f = b2f(v)
        return ["nan"] if f != f else [v]
    except Exception:
        return [v]


def generic_scalar_guard(ctx, ss, k=6, tol=None):
    """the real generic code instantiated with the tracking scalar on a few of the samples: exactly the three narrowings of the Gamma
    draw (shape, coordinate 2E-2, tolerance), none while the Feynman parameters are computed, and no f64 constant widened into the
    user's type that is not a table constant / setting / Gamma variate / exactly representable short number. A change that is
    invisible at T = f64 (arithmetic moved into f64 and converted back, 2*PI() replaced by an f64 constant, ...) shows here."""
    from .core import run_harness
    sel = [s for s in ss if s.get("impl", {}).get("status") == "ok"][:k]
    reqs = []
    for i, s in enumerate(sel):
        r = dict(s["req"], op="sample_track", debug=False, meta=True)
        r.pop("api_graph", None)
        if tol is not None and i % 2:
            r["tol"] = f2b(tol)
        reqs.append(r)
    for s, r, t in zip(sel, reqs, run_harness(reqs)):
        ctx.count("generic_scalar_guard")
        if "error" in t or t.get("status") != "ok":
            continue
        n = len(s["case"]["edges"])
        nar = [x["deps"] for x in t["narrowings"]]
        small = S.small_req(dict(s, req=r))
        if nar != [[], [2 * n - 2], []] or t.get("perm_narrowings") != 0:
            ctx.violation(f"generic code: values of the user's scalar type are narrowed to f64 outside the Gamma draw: narrowings {nar} "
                          f"(+{t.get('perm_narrowings')} while computing the Feynman parameters)", small, expected=[[], [2 * n - 2], []], observed=nar)
            continue
        bad = foreign_widenings(t, dict(s, req=r))
        if bad:
            ctx.violation(f"generic code: f64 values that are neither table constants, settings, the Gamma variate nor exactly representable short "
                          f"numbers are widened into the user's scalar type: {bad[:4]}", small, observed=bad)
        # the tracking scalar does f64 arithmetic with the same std functions: the generic code instantiated with it must return the
        # very bits the f64 instantiation returns (a provided trait method that f64 overrides, a fast path for f64 only, ... shows here)
        a = s["impl"]
        pairs = [(f, a.get(f), t.get(f)) for f in ("u", "v", "jac", "k")]
        if a.get("meta"):
            pairs += [("q_vectors", a["meta"].get("q"), t.get("q")), ("lambda", a["meta"].get("lambda"), t.get("lambda"))]
        for f, va, vt in pairs:
            if va is None or vt is None:
                continue
            ctx.count("generic_scalar_guard.value_fields")
            if _flat(va) != _flat(vt):
                ctx.violation(f"generic code: {f} computed with a user scalar type that wraps f64 arithmetic differs from the f64 result "
                              f"(the generic path and the f64 path are not the same computation)", small, expected={f: va}, observed={f: vt})
                break



def returned_finite(ctx, s, named_bits, exact_mags, what="sample"):
    """`named_bits`: name -> bit pattern(s) returned by the implementation; `exact_mags`: name -> exact magnitude (Fraction) of the
    quantity. A value that is an ordinary number in exact arithmetic (1e-250 < |.| < 1e250) must come back finite; False = do not
    go on with this sample (a violation has been recorded, or the value is legitimately out of range)."""
    lo, hi = Fraction(1, 10 ** 250), Fraction(10 ** 250)
    for name, bits in named_bits.items():
        if finite([bits] if isinstance(bits, str) else bits):
            continue
        mag = exact_mags.get(name)
        if mag is not None and lo < abs(mag) < hi:
            ctx.violation(f"{what}: returned {name} is not a finite number although its exact value is {float(mag):.6e} (well-conditioned point)",
                          S.small_req(s), expected=float(mag), observed=bits if isinstance(bits, str) else "non-finite")
        else:
            ctx.count(f"nonfinite_{name}_out_of_f64_range_skipped")
        return False
    return True


def _log10(fr):
    fr = abs(fr)
    return (math.log10(fr.numerator) - math.log10(fr.denominator)) if fr > 0 else -1e9


def nonfinite_verdict(ctx, s, fields=("u", "v", "jac")):
    """call when a returned value is not finite and the sample would be skipped: if the exact quantities at the implementation's
    own Feynman parameters are ordinary numbers at a well-conditioned point, the non-finite value is a violation, not a skip"""
    a = s["impl"]
    xb = (a.get("log") or {}).get("momtrop_feynman_parameter")
    if not xb or not finite(xb):
        return
    x = fr_list(xb)
    if any(t <= 0 for t in x):
        return
    ex = exact_quantities(s, x)
    if ex is None or ex["det"] <= 0 or ex["V"] <= 0 or ex["kappa"] is None:
        return
    nl = s["routing"]["L"]
    if tol_cond(nl, min(ex["cond"], ex["cond_s"]), ex["kappa"]) > Fraction(1, 1000):
        return
    mags = {"u": ex["det"], "v": ex["V"]}
    for f in fields:
        if f in ("u", "v") and not finite([a[f]]):
            returned_finite(ctx, s, {f: a[f]}, mags)
            return
    if "jac" in fields and not finite([a["jac"]]) and "built" in s and finite([s["built"]["cached"]]) and b2f(s["built"]["cached"]) != 0:
        D = s["case"]["D"]
        dod = b2f(s["built"]["dod"])
        lj = math.log10(abs(b2f(s["built"]["cached"]))) - D / 2.0 * _log10(ex["det"]) - dod * _log10(ex["V"])
        if abs(lj) < 250:
            ctx.violation(f"returned jacobian is not a finite number although normalisation U^(-D/2) V^(-dod) ~ 1e{lj:.0f} at a well-conditioned point",
                          S.small_req(s), expected=f"~1e{lj:.0f}", observed=a["jac"])
        else:
            ctx.count("nonfinite_jacobian_out_of_f64_range")


def nolog_agreement(ctx, ss, k=12):
    """The crate as a default-feature user builds it (no `log` feature: the library's `#[cfg(not(feature = "log"))]` branches, plain
    println! debugging, exist only there). The same requests through the public API of that build, with print_debug_info off and on:
    both must equal the result of the instrumented build bit for bit."""
    from .core import run_nolog
    sel = [s for s in ss if s.get("impl", {}).get("status") in ("ok", "zerodet", "unstable", "gammaerr") and s["req"].get("api_graph")
           and 1 <= s["req"].get("D", 0) <= 6][:k]          # (the default-feature harness is instantiated for D = 1..6)
    if not sel:
        return
    reqs = []
    for s in sel:
        base = {kk: s["req"][kk] for kk in ("D", "sig", "x", "edge_data", "api_graph") if kk in s["req"]}
        if "tol" in s["req"]:
            base["tol"] = s["req"]["tol"]
        for dbg in (False, True):
            reqs.append(dict(base, op="sample", debug=dbg, meta=True))
    res, err = run_nolog(reqs)
    if res is None:
        ctx.mismatch("the crate does not build with its default features (no `log`)", None, err[-800:], None); return
    fields = ("status", "k", "uTrop", "vTrop", "u", "v", "jac")
    for i, s in enumerate(sel):
        a = s["impl"]
        for dbg, b in ((False, res[2 * i]), (True, res[2 * i + 1])):
            ctx.count("default_feature_build_compared")
            small = dict(S.small_req(s), debug=dbg, build="default features")
            if b.get("status") == "panic":
                ctx.violation(f"default-feature build: sample panicked (print_debug_info={dbg}): {str(b.get('msg'))[:150]}", small, observed=b); break
            if "error" in b:
                ctx.mismatch("default-feature harness", small, b, None, "machinery error"); break
            if any(a.get(f) != b.get(f) for f in fields):
                diff = [f for f in fields if a.get(f) != b.get(f)]
                ctx.violation(f"default-feature build (no `log`), print_debug_info={dbg}: {diff} differ from the result of the same call in the "
                              f"instrumented build", small, expected={f: a.get(f) for f in diff}, observed={f: b.get(f) for f in diff}); break


def divergent_probe(ctx):
    """graphs with a proper subgraph whose generalised degree of divergence is EXACTLY zero (logarithmic divergence; every other subset is
    convergent): no sampler may be built for them - a sampler that exists returns unbounded weights (infinite J, infinite or NaN jacobian)"""
    from .core import run_harness
    from . import graphs as G_
    probes = []
    # D=4: a unit-weight bubble inside a triangle (the bubble does not touch the third external vertex: not spanning, omega = 2 - 4/2 = 0)
    probes.append(([(0, 1), (0, 1), (1, 2), (2, 0)], [1.0, 1.0, 2.0, 2.0], [False] * 4, [0, 1, 2], 4))
    # D=2: a unit-weight tadpole on a massive bubble (omega = 1 - 2/2 = 0)
    probes.append(([(0, 0), (0, 1), (0, 1)], [1.0, 1.5, 1.5], [False, True, True], [0, 1], 2))
    # D=3: weights 0.75 + 0.75 on a bubble inside a box
    probes.append(([(0, 1), (0, 1), (1, 2), (2, 3), (3, 0)], [0.75, 0.75, 1.0, 1.0, 1.0], [False] * 5, [0, 1, 2, 3], 3))
    reqs, kept = [], []
    for edges, w, massive, ext, D in probes:
        dod, Lf, table = oracle.table_oracle(edges, w, massive, ext, D)
        n = len(edges)
        oms = [t[2] for t in table[1:(1 << n) - 1]]
        if min(oms) != 0 or dod <= 0:
            continue            # (the probe must be exactly logarithmic, nothing worse)
        c = dict(edges=edges, weights=w, massive=massive, ext=ext, D=D)
        reqs.append(G_.request(c)); kept.append(c)
    for c, a in zip(kept, run_harness(reqs)):
        ctx.count("log_divergent_probe")
        if a.get("status") == "ok":
            ctx.violation("a sampler is built for a graph with a logarithmically divergent proper subgraph (generalised degree of divergence exactly 0): "
                          "J of that subgraph is infinite and the sample weights are unbounded", G_.request(c), expected="rejected", observed="accepted")


def normalisation_oracle(ctx, ss, limit=60):
    """the stored normalisation I_tr Gamma(dod)/prod Gamma(w_e) pi^(D L/2) of every distinct graph among the samples against 40-digit
    arithmetic on the exact table (the sample-level correspondences take the table - this factor included - from the implementation)"""
    from .props.c04 import cached_oracle
    seen = set()
    for s in ss:
        c = s["case"]
        if id(c) in seen or "table" not in c or "built" not in s or len(seen) >= limit:
            continue
        seen.add(id(c))
        n = len(c["edges"])
        dodf = float(c["dod"])
        if n > 9 or dodf > 170 or max(c["weights"]) > 170 or not finite([s["built"]["cached"]]):
            continue
        pole = abs(dodf - round(dodf)) if dodf < 0.5 else 1.0
        if dodf < 0.5 and pole < 1e-6:
            continue
        Jx = oracle.j_exact(c["table"], n)
        cx = cached_oracle(c, Jx[-1])
        wsum = float(sum(abs(w) for w in c["weights"])) + c["loops"] * c["D"]
        omin = float(min(abs(c["table"][mk][2]) for mk in range((1 << n) - 1)))
        tol = 1e-11 + 1e-12 * n * n * (1 + wsum / omin) + 4e-16 * wsum * (1.0 / min(pole, 1.0) + 10.0 + abs(dodf)) \
            + sum(4e-16 * (1.0 / min(w, 1.0) + 10.0) for w in c["weights"])
        ctx.count("normalisation_oracle")
        got = b2f(s["built"]["cached"])
        if not abs(got - cx) <= tol * abs(cx):
            ctx.violation(f"normalisation of the sampler (jacobian = normalisation x U^(-D/2) V^(-dod)): stored {got!r}, "
                          f"I_tr Gamma(dod)/prod Gamma(w) pi^(DL/2) = {cx!r} (weights {c['weights']}, D={c['D']})", S.small_req(s), expected=cx, observed=got)


def rng_entry_agreement(ctx, ss, k=8):
    """`generate_sample_from_rng` with a scripted generator against `generate_sample_from_x_space_point` on the same numbers: exactly
    get_dimension() numbers are drawn (no more, none redrawn) and the outcome - value or error - is the same; also with the stability
    test on (tolerance 0: most points fail) and with surplus entries in edge_data"""
    from .core import run_harness
    NUM = ("status", "k", "uTrop", "vTrop", "u", "v", "jac")
    sel = [s for s in ss if s.get("impl", {}).get("status") == "ok" and s["case"]["D"] <= 6][:k]
    reqs, info = [], []
    rng = ctx.rng
    for i, s in enumerate(sel):
        dim = len(s["req"]["x"])
        nE = len(s["case"]["edges"])
        for variant in ("plain", "tol0", "surplus_edge_data", "zero_radius", "zero_xi", "zero_choice", "zero_lambda"):
            ks = [rng.getrandbits(53) | 1 for _ in range(dim)]
            # a generator may deliver an exact 0.0 (53 zero bits): the rng entry point hands it on as it is
            zpos = {"zero_radius": 2 * nE - 1, "zero_xi": 1, "zero_choice": 0, "zero_lambda": 2 * nE - 2}.get(variant)
            if zpos is not None:
                if zpos >= dim or (variant in ("zero_xi", "zero_choice") and nE < 2):
                    continue
                ks[zpos] = 0
            base = dict(s["req"]); base.pop("api_graph", None); base.pop("tol", None)
            if variant == "tol0":
                base["tol"] = f2b(0.0)
            if variant == "surplus_edge_data":
                D = s["case"]["D"]
                base["edge_data"] = list(base["edge_data"]) + [[None, [f2b(0.5)] * D], [f2b(1.0), [f2b(-1.0)] * D]]
            rr = dict(base, op="rng", k=ks + [rng.getrandbits(53) for _ in range(6)]); del rr["x"]
            reqs.append(rr); reqs.append(dict(base, x=[f2b(kk * 2.0 ** -53) for kk in ks])); info.append((s, dim, variant))
    res = run_harness(reqs)
    for i, (s, dim, variant) in enumerate(info):
        a, b = res[2 * i], res[2 * i + 1]
        ctx.count("rng_entry." + variant); ctx.count(f"rng_entry.status.{b.get('status')}")
        small = dict(S.small_req(s), variant=variant, entry="generate_sample_from_rng")
        if a.get("status") == "panic" and b.get("status") != "panic":
            ctx.violation(f"generate_sample_from_rng panicked ({variant}) where the x-space entry point returns {b.get('status')}", small, observed=a); continue
        if a.get("status") != "panic" and (a.get("draws") != dim or a.get("other_rng_calls")):
            ctx.violation(f"generate_sample_from_rng ({variant}) draws {a.get('draws')} numbers (+{a.get('other_rng_calls')} other RNG calls), get_dimension() is {dim}",
                          small, expected=dim, observed=a.get("draws")); continue
        if {f: a.get(f) for f in NUM} != {f: b.get(f) for f in NUM}:
            ctx.violation(f"generate_sample_from_rng ({variant}) returns {a.get('status')}, generate_sample_from_x_space_point on the drawn numbers {b.get('status')}"
                          f"{'' if a.get('status') != b.get('status') else ' with different values'}", small,
                          expected={f: b.get(f) for f in ("status", "u", "v", "jac")}, observed={f: a.get(f) for f in ("status", "u", "v", "jac")})
