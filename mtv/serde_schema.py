"""Translator: re-reads /repo/src on every run and extracts, for every struct deriving Serialize/Deserialize, the ordered field
list with types and every #[serde(..)] attribute; emits Momtrop/Generated/SerdeSchema.lean (checked against the model by a
kernel-checked theorem) and returns the schema for the dynamic comparison with the real serialisation."""
import os, re
from .core import LEAN_DIR

SRC = ["/repo/src/lib.rs", "/repo/src/preprocessing.rs"]


def extract():
    structs = {}
    for path in SRC:
        src = open(path, errors="replace").read()
        # strip line comments but keep doc attributes out of the way
        lines = [l for l in src.splitlines()]
        i = 0
        while i < len(lines):
            l = lines[i].strip()
            if l.startswith("#[derive(") and "Serialize" in l:
                derives = l
                attrs = []
                j = i + 1
                while j < len(lines) and (lines[j].strip().startswith("#[") or lines[j].strip().startswith("///") or lines[j].strip().startswith("//")):
                    if lines[j].strip().startswith("#[serde"):
                        attrs.append(lines[j].strip())
                    j += 1
                m = re.match(r"\s*(pub(\([a-z]+\))?\s+)?struct\s+(\w+)", lines[j]) if j < len(lines) else None
                if m:
                    name = m.group(3)
                    fields = []
                    k = j + 1
                    pending = []
                    depth = 1 if "{" in lines[j] else 0
                    while k < len(lines) and depth > 0:
                        t = lines[k].strip()
                        if t.startswith("#[serde") or t.startswith("#[cfg"):
                            pending.append(t)
                        elif t.startswith("}"):
                            depth -= 1
                        else:
                            fm = re.match(r"(pub(\([a-z]+\))?\s+)?(\w+)\s*:\s*(.+?),?\s*$", t)
                            if fm and not t.startswith("//"):
                                fields.append({"name": fm.group(3), "type": fm.group(4).rstrip(","), "attrs": pending})
                                pending = []
                        k += 1
                    structs[name] = {"file": os.path.basename(path), "derives": derives, "attrs": attrs, "fields": fields,
                                     "serialize": "Serialize" in derives, "deserialize": "Deserialize" in derives}
                    i = k
                    continue
            i += 1
    # manual impls of Serialize/Deserialize would bypass the derive semantics
    manual = []
    for root, _, files in os.walk("/repo/src"):
        for f in files:
            if f.endswith(".rs"):
                txt = open(os.path.join(root, f), errors="replace").read()
                for m in re.finditer(r"impl[^{\n]*\b(Serialize|Deserialize)\b[^{\n]*for\s+(\w+)", txt):
                    manual.append(f"{f}: impl {m.group(1)} for {m.group(2)}")
                for m in re.finditer(r"#\[serde\(([^\]]*)\)\]", txt):
                    manual.append(f"{f}: serde attribute ({m.group(1)})")
    return structs, manual


def lean_str(s):
    return '"' + s.replace("\\", "\\\\").replace('"', '\\"') + '"'


def lean_ty(t, structs):
    """Rust field type -> Momtrop.SerdeG.Ty (what the schema-generic round-trip theorem covers)"""
    t = t.replace(" ", "")
    m = re.fullmatch(r"Vec<(.+)>", t)
    if m:
        return f"(.seq {lean_ty(m.group(1), structs)})"
    if t in ("u8", "u16", "u32", "u64", "usize"):
        return ".nat"
    if t in ("i8", "i16", "i32", "i64", "isize"):
        return ".int"
    if t == "f64":
        return ".f64"
    if t == "bool":
        return ".bool"
    if t in structs:
        return f"(.struct {lean_str(t)})"
    return f"(.other {lean_str(t)})"


def emit_lean(structs, manual):
    order = ["SampleGenerator", "TropicalSubgraphTable", "TropicalSubgraphTableEntry", "TropicalGraph", "TropicalEdge"]
    names = [n for n in order if n in structs] + sorted(n for n in structs if n not in order)
    out = ["import Momtrop.Model.SerdeG",
           "/-! GENERATED on every run by /verif/mtv/serde_schema.py from /repo/src/lib.rs and /repo/src/preprocessing.rs — do not edit. -/",
           "namespace Momtrop.Generated", "",
           "/-- (struct, [(field, type, [serde attributes])]) in source order -/",
           "def serdeSchema : List (String × List (String × String × List String)) := ["]
    rows = []
    for n in names:
        fs = ", ".join(f"({lean_str(f['name'])}, {lean_str(f['type'])}, [{', '.join(lean_str(a) for a in f['attrs'])}])" for f in structs[n]["fields"])
        rows.append(f"  ({lean_str(n)}, [{fs}])")
    out.append(",\n".join(rows) + "]")
    out += ["", "/-- struct-level serde attributes, manual Serialize/Deserialize impls and any other serde attribute in the crate -/",
            "def serdeCustomisations : List String := [" + ", ".join(lean_str(m) for m in manual + [f"{n}: {a}" for n in names for a in structs[n]["attrs"]]) + "]",
            "", "/-- structs deriving both Serialize and Deserialize -/",
            "def serdeBoth : List String := [" + ", ".join(lean_str(n) for n in names if structs[n]["serialize"] and structs[n]["deserialize"]) + "]",
            "", "/-- the same schema with parsed field types: the argument of the schema-generic round-trip theorem (Props/C18G) -/",
            "def typedSchema : Momtrop.SerdeG.Schema := [",
            ",\n".join("  (" + lean_str(n) + ", [" + ", ".join(f"({lean_str(f['name'])}, {lean_ty(f['type'], structs)})" for f in structs[n]["fields"]) + "])"
                       for n in names if structs[n]["serialize"] and structs[n]["deserialize"]) + "]",
            "", "/-- every serde attribute on a field of these structs -/",
            "def fieldAttrs : List String := [" + ", ".join(lean_str(a) for n in names for f in structs[n]["fields"] for a in f["attrs"]) + "]",
            "", "end Momtrop.Generated", ""]
    path = os.path.join(LEAN_DIR, "Momtrop", "Generated", "SerdeSchema.lean")
    os.makedirs(os.path.dirname(path), exist_ok=True)
    new = "\n".join(out)
    old = open(path).read() if os.path.exists(path) else None
    if old != new:
        open(path, "w").write(new)
    return path


def regenerate():
    structs, manual = extract()
    emit_lean(structs, manual)
    return structs, manual
