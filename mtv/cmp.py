"""Comparison policies for correspondence and oracle checks."""
import math
from .core import b2f, f2b, ulp_diff


def flat(x):
    if isinstance(x, list):
        out = []
        for y in x:
            out += flat(y)
        return out
    return [x]


def bits_close(a, b, ulps=0, rel=0.0, absol=0.0):
    """a, b bit patterns. equal NaN-ness, or within `ulps` units in the last place, or within rel/abs tolerance"""
    d = ulp_diff(a, b)
    if d <= ulps:
        return True
    if rel == 0.0 and absol == 0.0:
        return False
    fa, fb = b2f(a), b2f(b)
    if math.isnan(fa) or math.isnan(fb) or math.isinf(fa) or math.isinf(fb):
        return False
    return abs(fa - fb) <= max(rel * max(abs(fa), abs(fb)), absol)


def cmp_bits_list(ctx, la, lb, ulps=0, rel=0.0, absol=0.0):
    """compare two (nested) lists of bit patterns; returns None if ok else a description"""
    fa, fb = flat(la), flat(lb)
    if len(fa) != len(fb):
        return f"length {len(fa)} vs {len(fb)}"
    for i, (a, b) in enumerate(zip(fa, fb)):
        if a == b:
            ctx.float_cmp["bit_equal"] += 1
            continue
        if not bits_close(a, b, ulps, rel, absol):
            return f"index {i}: {b2f(a)!r} ({a}) vs {b2f(b)!r} ({b}), {ulp_diff(a, b)} ulp"
        ctx.float_cmp["within_tol"] += 1
    return None


def cmp_record(ctx, what, req, impl, model, policy):
    """policy: field -> 'exact' | ('ulp', n) | ('rel', tol[, abs]) ; fields absent in both are skipped.
    Registers a correspondence mismatch and returns False on the first disagreement."""
    if "error" in impl or "error" in model:
        ctx.mismatch(what, req, impl, model, "machinery error")
        return False
    if impl.get("status") != model.get("status"):
        ctx.mismatch(what, req, impl, model, f"status {impl.get('status')} vs {model.get('status')}")
        return False
    for field, pol in policy.items():
        a, b = impl.get(field), model.get(field)
        if a is None and b is None:
            continue
        if a is None or b is None:
            ctx.mismatch(what, req, impl, model, f"field {field} missing on one side")
            return False
        if pol == "exact":
            if a != b:
                ctx.mismatch(what, req, impl, model, f"field {field}: {a} vs {b}")
                return False
        else:
            kind = pol[0]
            if kind == "ulp":
                d = cmp_bits_list(ctx, a, b, ulps=pol[1])
            else:
                d = cmp_bits_list(ctx, a, b, ulps=4, rel=pol[1], absol=pol[2] if len(pol) > 2 else 0.0)
            if d:
                ctx.mismatch(what, req, impl, model, f"field {field}: {d}")
                return False
    return True
