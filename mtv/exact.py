"""Exact rational linear algebra for the oracles (independent of both the model and the code)."""
from fractions import Fraction
import math
from .core import b2f

EPS = Fraction(1, 2 ** 53)


def fr(x):
    """exact value of a float / bit pattern holder"""
    return Fraction(x)


def fr_bits(b):
    return Fraction(b2f(b))


def is_finite_bits(b):
    f = b2f(b)
    return not (math.isnan(f) or math.isinf(f))


def mat_from_bits(n, bits):
    return [[Fraction(b2f(bits[i * n + j])) for j in range(n)] for i in range(n)]


def matmul(A, B):
    n, m, p = len(A), len(B), len(B[0]) if B else 0
    return [[sum((A[i][k] * B[k][j] for k in range(m)), Fraction(0)) for j in range(p)] for i in range(n)]


def transpose(A):
    return [list(r) for r in zip(*A)] if A else []


def identity(n):
    return [[Fraction(1 if i == j else 0) for j in range(n)] for i in range(n)]


def det(A):
    n = len(A)
    M = [list(r) for r in A]
    d = Fraction(1)
    for c in range(n):
        p = next((r for r in range(c, n) if M[r][c] != 0), None)
        if p is None:
            return Fraction(0)
        if p != c:
            M[c], M[p] = M[p], M[c]
            d = -d
        d *= M[c][c]
        inv = 1 / M[c][c]
        for r in range(c + 1, n):
            if M[r][c] != 0:
                f = M[r][c] * inv
                for k in range(c, n):
                    M[r][k] -= f * M[c][k]
    return d


def inverse(A):
    n = len(A)
    M = [list(r) + [Fraction(1 if i == j else 0) for j in range(n)] for i, r in enumerate(A)]
    for c in range(n):
        p = next((r for r in range(c, n) if M[r][c] != 0), None)
        if p is None:
            return None
        M[c], M[p] = M[p], M[c]
        inv = 1 / M[c][c]
        M[c] = [x * inv for x in M[c]]
        for r in range(n):
            if r != c and M[r][c] != 0:
                f = M[r][c]
                M[r] = [x - f * y for x, y in zip(M[r], M[c])]
    return [r[n:] for r in M]


def norm_inf(A):
    return max((sum(abs(x) for x in r) for r in A), default=Fraction(0))


def max_abs(A):
    return max((abs(x) for r in A for x in r), default=Fraction(0))


def sub(A, B):
    return [[a - b for a, b in zip(ra, rb)] for ra, rb in zip(A, B)]


def cond_inf(A):
    Ai = inverse(A)
    if Ai is None:
        return None
    return norm_inf(A) * norm_inf(Ai)


def leading_minors_positive(A):
    return all(det([r[:k] for r in A[:k]]) > 0 for k in range(1, len(A) + 1))


def sqrt_fraction_upper(x, digits=40):
    """an upper bound of sqrt(x) as Fraction, relative accuracy 10^-digits"""
    if x <= 0:
        return Fraction(0)
    from mpmath import mp, mpf
    mp.dps = digits + 10
    v = mp.sqrt(mpf(x.numerator) / mpf(x.denominator))
    return Fraction(str(v)) * (1 + Fraction(1, 10 ** digits))


def l21(A):
    """exact-ish L_{2,1} norm (sum over columns of Euclidean norms), as a slight upper bound"""
    n = len(A)
    return sum((sqrt_fraction_upper(sum((A[i][j] ** 2 for i in range(n)), Fraction(0))) for j in range(n)), Fraction(0))
