"""Independent exact oracles for the graph-level quantities (union-find, Fractions, mpmath)."""
from fractions import Fraction
from itertools import permutations
from .core import b2f


class UF:
    def __init__(self):
        self.p = {}

    def find(self, x):
        self.p.setdefault(x, x)
        while self.p[x] != x:
            self.p[x] = self.p[self.p[x]]
            x = self.p[x]
        return x

    def union(self, a, b):
        self.p[self.find(a)] = self.find(b)


def subset_info(edges, massive, ext, mask):
    """cyclomatic number, components (as frozensets of edge ids), spanning flag of the edge subset `mask`"""
    ids = [e for e in range(len(edges)) if mask >> e & 1]
    uf = UF()
    for e in ids:
        uf.union(edges[e][0], edges[e][1])
    verts = set()
    for e in ids:
        verts.update(edges[e])
    comps = {}
    for e in ids:
        comps.setdefault(uf.find(edges[e][0]), set()).add(e)
    loops = len(ids) - len(verts) + len(comps)
    mass_spanning = all((mask >> e & 1) for e in range(len(edges)) if massive[e])
    mom_spanning = False
    for root, ces in comps.items():
        cverts = set()
        for e in ces:
            cverts.update(edges[e])
        if all(v in cverts for v in ext):
            mom_spanning = True
    return loops, [frozenset(c) for c in comps.values()], (mass_spanning and mom_spanning)


def table_oracle(edges, weights, massive, ext, D):
    """exact table: weights are the f64 values (converted exactly)"""
    n = len(edges)
    w = [Fraction(x) for x in weights]
    full = (1 << n) - 1
    Lfull, _, _ = subset_info(edges, massive, ext, full)
    dod = sum(w, Fraction(0)) - Fraction(Lfull * D, 2)
    out = []
    for mask in range(1 << n):
        loops, comps, sp = subset_info(edges, massive, ext, mask)
        if mask == 0:
            om = Fraction(1)
        else:
            om = sum((w[e] for e in range(n) if mask >> e & 1), Fraction(0)) - Fraction(loops * D, 2) - (dod if sp else 0)
        out.append((loops, sp, om, comps))
    return dod, Lfull, out


def divergent_subsets(table):
    n_sub = len(table)
    return [m for m in range(1, n_sub - 1) if table[m][2] <= 0]


def j_exact(table, n):
    J = [None] * (1 << n)
    J[0] = Fraction(1)
    for mask in sorted(range(1, 1 << n), key=lambda m: bin(m).count("1")):
        s = Fraction(0)
        for e in range(n):
            if mask >> e & 1:
                sub = mask ^ (1 << e)
                if table[sub][2] == 0:
                    return None
                s += J[sub] / table[sub][2]
        J[mask] = s
    return J


def j_orderings(table, n):
    """J(full) as the explicit sum over all n! removal orders"""
    full = (1 << n) - 1
    total = Fraction(0)
    for order in permutations(range(n)):
        g, prod = full, Fraction(1)
        for e in order:
            g ^= 1 << e
            prod /= table[g][2]
        total += prod
    return total


def spanning_trees_count_and_U(edges, x):
    """(number of spanning trees, U = sum over spanning trees of prod of x_e for e not in the tree); edges of a connected graph"""
    from itertools import combinations
    n = len(edges)
    verts = set(v for e in edges for v in e)
    k = len(verts) - 1
    count, U = 0, Fraction(0)
    for T in combinations(range(n), k):
        uf = UF(); ok = True
        for e in T:
            a, b = edges[e]
            if uf.find(a) == uf.find(b):
                ok = False; break
            uf.union(a, b)
        if ok:
            count += 1
            p = Fraction(1)
            for e in range(n):
                if e not in T:
                    p *= x[e]
            U += p
    return count, U
