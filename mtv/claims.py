"""Per-property claims registered in MANIFEST.json."""
PROPS = {}  # id -> dict(text, note, technique, design_ref, category)


def reg(pid, text, note, technique, design_ref, category="proof"):
    PROPS[pid] = dict(text=text, note=note, technique=technique, design_ref=design_ref, category=category)


HOOK_COMMITS = ["f8dcf9d"]
FIX_COMMITS = ["46483d2", "9f39851", "641a06a", "b2abcbe"]
NOTES = ("Technique family: machine-checked proof in Lean 4 of a hand-written model, tied to /repo on every run by a "
         "differential correspondence check (model at Float vs real code) and exact-arithmetic oracles; see DESIGN.md. "
         "Four genuine defects were repaired with `fix:` commits in /repo (known_findings.json, section fixed).")
NOT_YET = {}

reg("C20",
    "Law-free Lean theorems (every Scalar type, hence IEEE f64): Vector add/sub/scale/+= are componentwise, "
    "squared = dot(v,v) literally, dot is the left fold from index 0 and symmetric when * commutes, constructors are "
    "all-zero/of length D; all for every D. The Float instantiation of the same definitions is compared bit-for-bit "
    "with momtrop::vector::Vector and impl MomTropFloat for f64 on D=1..8 incl. special values.",
    "Float (Lean runtime + libm) is assumed to be IEEE binary64 like Rust's f64; agreement is measured by the correspondence.",
    "Lean 4 theorems over a law-free Scalar class + bit-exact differential correspondence",
    "DESIGN.md §3 C20")

reg("C15",
    "Lean theorems at the reference instantiation alpha:=R, for EVERY dimension n and every symmetric positive-definite "
    "matrix (Mathlib Matrix.PosDef; pivotsPos_of_posDef proves that PosDef gives positive Cholesky pivots via the leading-block "
    "factorisation R diag(1..1,piv) R^T), the model of "
    "decompose_for_tropical returns Ok with q_transposed^T q_transposed = A (upper triangular, positive diagonal), "
    "q_transposed_inverse q_transposed = 1 (nilpotent-series inverse proved via N^n=0 and the geometric sum), "
    "inverse = A^-1 and determinant = det A; also Ok with the stability test for every tol >= 0. The model at Float "
    "is compared with the real routine (n=1..8, five SPD families, exact cond <= 1e10) and the real outputs are "
    "checked against exact rational linear algebra with the property's tolerance 100 n^2 eps cond.",
    "Rounding error is measured, not proved; Float assumed IEEE.",
    "Lean 4 proof (Mathlib matrices) of the exact-arithmetic model + differential correspondence + exact rational oracle",
    "DESIGN.md §3 C15")

reg("C16",
    "Law-free Lean theorems (every Scalar type, hence IEEE f64 incl. NaN/underflow): Ok implies neither the pivot "
    "product nor the determinant compares equal to zero; a zero pivot product or zero determinant yields ZeroDet for "
    "any tolerance; with Some(tol) an Ok result satisfies residual <= tol under the scalar's own comparison (so a NaN "
    "residual is never Ok); the test never changes the returned record; sample returns the MatrixError whenever the "
    "routine fails and an Ok sample satisfies the residual bound. Correspondence on definite / zero-pivot / indefinite "
    "/ NaN / ill-conditioned / underflowing matrices x 8 tolerances; exact-rational residual oracle on the real code; the same matrices through the public API of a debug build (debug assertions, overflow checks); rng entry point under the stability test.",
    "NaN clause: ok_no_nan is proved under the explicit law class NaNLaws (NaN propagates through + - * sqrt, NaN<=t false), shown consistent by a model; that Float/f64 satisfy it is IEEE-754 (assumed). Theorems describe the code after fix commits 9f39851, 641a06a.",
    "Lean 4 law-free theorems + differential correspondence + exact rational oracle",
    "DESIGN.md §3 C16")

reg("C03",
    "Law-free Lean theorems for every multigraph: what from_graph reports (edges, externals, massive count, loop number, dod "
    "formula), generalized_dod = 1 for the empty set and sum w - L(s) D/2 [- dod iff spanning] otherwise, the spanning flag "
    "iff all massive edges are present and some returned component touches every external, the dimension formula, and "
    "exactness of one component search (the set found from a seed is exactly the class of edges chained to it by shared "
    "end points; Mathlib ReflTransGen); the returned components are exactly the connectivity classes (each the full class of "
    "a seed, pairwise disjoint, covering the subset) and the loop number is the cyclomatic number: loops + touched vertices = "
    "edges + components, for every duplicate-free list of valid edge ids (tree bound by induction over the search rounds). "
    "Correspondence: every multigraph with <=3/4 edges on 4 vertex slots, all subsets; union-find/Fraction oracle; at alpha:=R genDod_step (C03Step.lean): omega(g) - omega(g minus e) = w_e - (loop drop) D/2 - dod (spanning lost), the premise of the sector density; "
    "monotonicity along a removal (LoopStep.lean, C03Mono.lean): removing an edge lowers the loop number by 0 or 1 (loopNumber_erase: connectivity classes counted on both sides, "
    "componentLists_length: the search returns one list per class) and never gains the spanning flag (spanT_mono), for the table of every input graph (removalFacts_fromGraph); "
    "also chains of 10..12 edges, 17 components, >= 64 externals, signatures of any shape through the public getters, bit-exact table vs the model.",
    "Hash sets modelled as duplicate-free lists (only membership/cardinality is used); f64 rounding of generalized_dod measured against exact rationals.",
    "Lean 4 law-free theorems + exhaustive small-graph correspondence + union-find/Fraction oracle",
    "DESIGN.md §3 C03")

reg("C04",
    "Law-free Lean theorem of memoisation soundness: after recursive_fill_j_function on the full graph every subset id holds "
    "exactly the value of the direct recursion J(0)=1, J(g)=sum_e J(g-e)/omega(g-e) in the code's summation order (invariant: "
    "stored values correct, stored sets downward closed), for every E and every scalar type; table_j lifts it to the built "
    "table. At alpha:=R: edge probabilities sum to one; closed form of the cached factor. Correspondence: model fillJ on the "
    "implementation's own dods vs j_function (4 ulp), cachedFactor with statrs Gamma values; oracle: exact Fraction recursion, "
    "explicit sum over all E! orderings, mpmath normalisation.",
    "statrs::gamma is external (values supplied by the harness). The E!-orderings identity is a theorem at alpha:=R (J_eq_sum_orderings with orderings = all permutations, each once) and also checked by the oracle.",
    "Lean 4 invariant proof of the memoised recursion + differential correspondence + exact rational oracle",
    "DESIGN.md §3 C04")

reg("C05",
    "Law-free Lean theorems: the build returns Err iff some subset id has (omega <= 0, non-empty, not the full graph) under the "
    "scalar's own comparison, the reported subset is the first such in id order, and an Ok table has 2^E entries holding exactly "
    "the computed flags and degrees with no divergent proper subset; the model has no input besides the graph (determinism). "
    "Correspondence on Ok/Err incl. near-threshold weights; exact rational iff outside the 1e-9 band; J finite>0; rebuilt in the "
    "same and in a fresh process; E=63/64 panic is the open known finding.",
    "No-panic clause only explored for E<=8 plus the E=63/64 probe; J positivity of accepted tables is a theorem at alpha:=R (table_j_pos) and an oracle check on f64.",
    "Lean 4 law-free theorems + differential correspondence + exact rational oracle",
    "DESIGN.md §3 C05")

reg("C06",
    "Law-free Lean theorems about the cumulative scan (code after fix 46483d2): a selected edge belongs to the subgraph and the "
    "rest is g without it; it is the FIRST edge in index order whose running sum reaches u (all earlier running sums compare "
    "below u), or the last edge when no running sum reaches u<=1; for every non-empty subgraph and every u<=1 an edge is "
    "selected (no panic) - for every scalar type, hence for IEEE f64 with rounded sums and u one ulp below 1. Correspondence "
    "on every boundary +-1ulp; exact rational oracle on the real code, incl. the whole removal sequence through the public API, double-double coordinates 1e-22 next to a boundary, overflowing J.",
    "Float assumed IEEE; at alpha:=R sampleEdge_interval / sampleEdge_total_real prove that edge e is selected iff u lies in its interval of length p_e and that the fallback is never needed.",
    "Lean 4 law-free theorems + differential correspondence + exact rational oracle",
    "DESIGN.md §3 C06")

reg("C01",
    "PARTIAL: the identity 'mean of jacobian x g(k) over the hypercube = Feynman integral' is not proved as one theorem; every step of its standard "
    "derivation except two is. Proved in Lean (alpha:=R, Mathlib, axioms propext/Classical.choice/Quot.sound only): (a) the algebraic reduction - coordinate groups read "
    "disjointly, edge probabilities sum to one, the rescaling normalises the tropical polynomials, the weighted propagator sum at the returned momenta equals "
    "c^2|q|^2 + (p^T X p - u^T L^-1 u), Jacobian determinant of the momentum map det(cQ^-T)^2 det L = c^(2L), gauge invariance of the weight (`reduction`); "
    "(b) the measure-theoretic steps - Box-Muller theorem and the joint law of all D L Gaussian numbers (C13.boxMuller_law, C13.components_iid: iid N(0,1)), the Gaussian law of the "
    "loop momenta (C10.momenta_law: centre -L^-1 u, covariance (V/2 lambda) L^-1, normalisation sqrt(det L)/c^L), the inverse-CDF lemma for an exact quantile function "
    "(inverse_cdf_law), one step of the sector sample (xi_power_law); (c) Borinsky's sector density as a theorem (C01Sector.lean): chain_law (the E-1 chained steps "
    "y_k = y_(k-1) xi_k^(1/omega_k), as an iterated integral over the ordered region, against the product of the conditional densities), dens_closed (Abel summation), dens_tropical "
    "(= prod omega_k x^(nu-1)/(U_tr^(D/2) V_tr^dod) when omega_k - omega_(k+1) = nu_k - D/2 dL_k - dod dS_k), sector_density_times_prob, sector_expectation, tropical_sampling (for ANY "
    "test functions the expectation over all E! removal orders - probabilities C04.orderProb - and the uniform numbers equals the sum over the sectors of the integrals against "
    "x^(nu-1)/(U_tr^(D/2) V_tr^dod)/I_tr); C01Table.lean: consistent_along and tropical_sampling_table - the same for the MODEL'S OWN TABLE (omega, loop numbers, spanning flags, weights = "
    "preEntry, what generate_from_tropical stores), with 'Consistent' PROVED from C03.genDod_step, C03Mono.spanT_mono (removing an edge never gains the spanning flag) and "
    "loopNumber_erase / loopsT_step (Proofs/LoopStep.lean: a removal lowers the loop number by 0 or 1, by counting connectivity classes on both sides with the cyclomatic identity); "
    "tropical_sampling_model is the statement with NO graph fact assumed (removalFacts_fromGraph: both facts hold for the table of every input graph). "
    "Tie to the code: end-to-end correspondence of `sample` (model vs implementation) on multi-loop/massive/non-trivial routings, normalisation oracle (40 digits), rng-entry agreement; "
    "supporting fixed-seed Monte Carlo against closed forms (tadpole, bubble, two-tadpole product under two routings; mean of jacobian*g = (pi/alpha)^(DL/2) for triangle, sunrise k1+-k2, "
    "double triangle, banana).",
    "Cited, not formalised: Schwinger parametrisation (momentum integral = parametric integral) and that V_tr is the MAXIMAL monomial of F/U (greedy optimality for the second Symanzik polynomial, C07; for U_tr it is proved: C07.uTrop_is_largest_monomial). "
    "Both removal facts (loop number drops by 0 or 1, spanning never gained) are theorems of the model and are also checked on the implementation's flags for every subset of every small "
    "multigraph in the C03 check. Exactness of the Gamma quantile is numerical (C12). Monte Carlo is a statistical supporting test (6 sigma + 0.5%), not a proof.",
    "Lean 4 theorems (partial for the property as a whole) + differential correspondence + exact/40-digit oracles + closed-form Monte Carlo support",
    "DESIGN.md §8.3 C01")

reg("C02",
    "PARTIAL/conditional. Lean (alpha:=R): a sum of non-negative monomials lies between its largest term and card x largest; "
    "with coefficients c_i >= c_min: c_min max <= sum <= (sum c_i) max; and, given U_tr<=U<=N U_tr and (c_min/N)V_tr<=V<=C V_tr, "
    "N^(-D/2) C^(-dod) <= (U_tr/U)^(D/2)(V_tr/V)^dod <= (N/c_min)^dod (monotonicity of rpow; non-vacuity example). The premise on U is now a theorem "
    "(C02U.lean: U_premises - for a successful run of the model's sampler U_tr <= U <= N_T U_tr with U the sum over the complements of spanning forests; ratio_bounds_U "
    "leaves only the two premises on V), from C07.uTrop_is_largest_monomial; V_upper: V <= C_sum V_tr from C07.mass_terms_le + momentum_terms_le for F a non-negative combination of those monomials. "
    "Attainment of u_trop*v_trop by a monomial of F (C07.uv_is_monomial, two different externals) gives the lower premise once F is known to be that combination with coefficients >= c_min "
    "(2-forest formula, C09, cited). On the real code the "
    "bounds and the ratio interval are checked with exact N_T, c_min, C_sum at uniform, corner and rare-sector points (kappa<=1e8).",
    "Conditional on the 2-forest identity and greedy optimality for V (cited); that the cotree sum is the returned u is C08.",
    "Lean 4 conditional theorem + exact rational oracle on the real code",
    "DESIGN.md §3 C02")

reg("C07",
    "Lean: law-free - the rescaling multiplies all parameters by one factor and returns u_trop=v_trop=one; one removal step writes "
    "kappa to the removed edge, updates v_trop iff spanning is lost, u_trop iff the loop number drops, then kappa*=xi^(1/omega(g')) "
    "with the remaining graph; the last removal draws no xi; permLoop_trace: the whole loop is the replay of its trace (s_k,g_k,xi_k), "
    "a chain g_k = g_(k-1) minus s_k with pairwise distinct edges, the k-th removed edge holding kappa_k at the end. alpha:=R - "
    "sector_formula: the pre-rescaling parameter of s_k is prod_(j<k) xi_j^(1/omega(g_j)) and the used one is that times the common "
    "factor; the common rescaling makes (s^L U_tr)^(D/2)(s V_tr)^dod = 1. "
    "u_trop IS the largest monomial of U - proved (C07Greedy.lean, Proofs/LoopMono.lean, no matroid library): a removal lowers get_loop_number exactly when the "
    "removed edge closes a cycle with the rest (loopNumber_drop_iff), hence bridges stay bridges in subsets (bridge_mono); for every set function with these properties "
    "the edges at whose removal the loop number drops form a cotree = complement of a maximal acyclic subset (greedySet_cotree, cotree_iff_maximal_forest) and every other "
    "cotree monomial is <= their product when the parameters do not increase along the removal order (greedy_max, exchange argument); on the sampler: "
    "uTrop_is_largest_monomial (successful run, xi in (0,1], omega > 0, table loop numbers = those of the graph). "
    "Second tropical value (C07Major.lean, C07Forest.lean): u_trop*v_trop of the sampler is the greedy vertex of the generalised permutahedron with z = loops + [mass-momentum spanning] "
    "(uv_trop; majorization + polytope_max: every exponent vector satisfying the polytope inequalities along the removal order has monomial <= u_trop*v_trop), and EVERY monomial of F "
    "satisfies them: mass terms x_e0 prod_C x (mass_terms_le) and momentum terms = complements of spanning 2-forests separating two externals (momentum_terms_le, via loopNumber_drop_iff "
    "and a connectivity-transfer argument); attained when spanning is lost at a massive edge (uv_decomposition); all premises hold for tables with the flags of preEntry (premises_of_preEntry). "
    "Attainment (C07Attain.lean): uv_is_monomial - for every graph with two different external vertices u_trop*v_trop = x_e* prod_(greedy cotree) x and either e* is massive (mass term) or "
    "greedy cotree + e* is the complement of a spanning 2-forest separating two externals (momentum term; forest_conn, split_persist, uv_attained_momentum): v_trop is EXACTLY the largest monomial of F/U. "
    "A supporting definition audit on every sampled graph compares the index sets the theorems are stated with (cotrees; mass terms and 2-forest complements separating two externals) "
    "with the oracle's enumeration of spanning trees and of F's monomials for generic momenta. Both tropical values are decided on the real code by brute force over all spanning trees / F monomials (exact), "
    "together with the sector formula (mpmath) and the normalisation.",
    "That the mass terms and the 2-forests with separated externals are exactly F's monomials for generic kinematics is the 2-forest formula (C09, cited); graphs with fewer than two different external vertices have no generic kinematics (DESIGN 8.2); powf accuracy measured.",
    "Lean 4 theorems (law-free + real) + differential correspondence on the debug log + brute-force exact oracle",
    "DESIGN.md §3 C07")

reg("C08",
    "Lean: law-free - Metadata.l_matrix is symmetric bit for bit. alpha:=R, every L and E - L_ij = sum_e x_e s_ei s_ej; the returned "
    "u is det(S^T X S) (via the C15 proof, pivots positive); det L is invariant under every unimodular change of cycle basis and "
    "edge re-orientation (L' = P^T L P, integer P with det +-1). det L = spanning-tree sum is the matrix-tree theorem (not in "
    "Mathlib, cited): decided on the real code by the exact spanning-tree oracle for fundamental, unimodularly transformed "
    "(|entries|>=2) and sparse face bases with condition-scaled tolerance.",
    "Matrix-tree theorem cited; rounding measured with tolerance 100 L^2 eps cond(L).",
    "Lean 4 theorems (Mathlib matrices) + differential correspondence + exact spanning-tree oracle",
    "DESIGN.md §3 C08")

reg("C09",
    "Lean (alpha:=R, every E, L, D): closed forms of compute_u_vectors and compute_v_polynomial (the folds as sums); completing the "
    "square sum_e x_e (Sk+p)_e^2 = (k+L^-1u)^T L (k+L^-1u) + V, hence V = min_k for x>=0, attained at -L^-1u; V is invariant under a "
    "change of cycle basis (P invertible), edge re-orientations and constant loop-momentum offsets. V U = F (2-forest sum) is the "
    "second Symanzik formula (cited): decided on the real code by the exact 2-forest oracle with exactly conserved dyadic momenta, "
    "three routings per point, tolerance scaled by exact cond(L) kappa_V.",
    "2-forest formula cited; rounding measured.",
    "Lean 4 theorems (Mathlib matrices) + differential correspondence + exact 2-forest oracle",
    "DESIGN.md §3 C09")

reg("C10",
    "Lean (alpha:=R, every L, E, D): closed form of compute_loop_momenta and compute_only_shift (index order of Q^-T, sign of the "
    "shift); the matrix routine's q_transposed_inverse satisfies Q^-1 L Q^-T = 1; at k = c Q^-T q - L^-1 u the weighted propagator "
    "sum of one component is c^2|q|^2 + (p^T X p - u^T L^-1 u), and summed over D components plus masses equals v(1+|q|^2/2 lambda). "
    "End to end (model_identity): for arbitrary well-formed lists, the model's own chain lMatrix -> decompose -> uVectors -> "
    "vPolynomial -> loopMomenta returns momenta at which sum_e x_e(|q_e|^2+m_e^2) = v(1+|q|^2/2 lambda) whenever the pivots are positive. "
    "Distributional form (momenta_law, Mathlib measure theory): if q carries the standard Gaussian weight then k = c Q^-T q - L^-1 u carries "
    "sqrt(det L)/c^L exp(-(k+L^-1u)^T L (k+L^-1u)/(2c^2)), i.e. centre -L^-1u and covariance c^2 L^-1 with c^2 = V/(2 lambda). "
    "On the real code the scalar identity is evaluated exactly at the returned momenta (incl. loops with u_l = 0, sparse bases).",
    "Rounding measured with condition-scaled tolerance; links between the abstract matrices and the model lists proved by the closed forms.",
    "Lean 4 theorems (Mathlib matrices) + differential correspondence + exact oracle",
    "DESIGN.md §3 C10")

reg("C11",
    "Lean: law-free - an Ok sample returns u_trop=v_trop=one, u = determinant of the decomposition of its L matrix and jacobian = "
    "(u_trop/u)^halfD (v_trop/v)^dod cached in this order with halfD = from_f64(D/2.0). alpha:=R - jacobian = cached u^(-D/2) v^(-dod); "
    "gauge invariance: if s normalises the tropical values then the weight in the rescaled gauge equals (U_tr/U)^(D/2)(V_tr/V)^dod "
    "at the unrescaled parameters. Real code: jacobian recomputed from returned fields (mpmath) and gauge-invariantly from exact "
    "Symanzik polynomials at the logged unrescaled parameters with the oracle's own normalisation, D odd and even.",
    "Homogeneity of U, V, U_tr, V_tr is used as hypothesis (from C08/C09 closed forms).",
    "Lean 4 theorems + differential correspondence + exact/mpmath oracle",
    "DESIGN.md §3 C11")

reg("C12",
    "PARTIAL on accuracy. Lean, law-free, for every scalar type and every implementation of the statrs functions: Ok implies the "
    "value is finite and >0 under the scalar's comparisons (after fix b2abcbe), anything else is GammaError, Ok is exactly the "
    "implementation's value; the iteration makes at most max_n_iter steps and every return is one of five exits; on `converged` "
    "the computed residual is < tol*eps; alpha:=R - monotone_up_to_tol: for any strictly increasing F and any lam with |F(lam p)-p| <= t, "
    "p1+2t < p2 forces lam p1 < lam p2 (the 'hence monotone' implication of the property). The 2e-8 accuracy over the whole domain is numerical analysis (not provable here): decided "
    "by mpmath on 1.2e4/3e5 pairs incl. all branch boundaries. The model contains a Lean port of statrs 0.16.1 gamma/ln_gamma/"
    "gamma_lr/gamma_ur and reproduces the real function bit for bit (value and exit).",
    "statrs modelled (ported), not verified; accuracy clause oracle-only.",
    "Lean 4 law-free theorems + bit-exact differential correspondence + mpmath oracle",
    "DESIGN.md §3 C12")

reg("C13",
    "Lean: law-free, every D, L - Gaussian number n=l*D+i is the cosine (n even) / sine (n odd) branch of pair floor(n/2), read "
    "from coordinates base+2 floor(n/2) and +1; exactly L vectors of D components; D L + (D L mod 2) reads. alpha:=R - z1^2+z2^2 = "
    "-2 ln a and the polar form; boxMuller_law(_model): the Box-Muller theorem itself (Mathlib measure theory) - for every measurable "
    "f >= 0 the integral of f(boxMuller(a,b)) over the open unit square equals the integral of f against (2 pi)^-1 exp(-(z1^2+z2^2)/2), "
    "i.e. the two values of one pair are independent standard normals for a uniform pair; C13Joint.lean: as measures, map bm (uniform on the square) "
    "= N(0,1) x N(0,1) (Mathlib gaussianReal), joint_law for n pairs on disjoint coordinates = product measure, map_sel (any injective "
    "selection of components of independent pairs is iid) and components_iid: the first m <= 2n Gaussian numbers in the model's own "
    "numbering (gaussianAt_of_pairs) have joint law N(0,1)^m - every D L, odd ones included (last sine dropped). Bit-exact correspondence for all "
    "D=1..6 x L=1..5 incl. a down to 2^-1074; mpmath definition oracle.",
    "The uniformity/independence of the input coordinates is the hypothesis (the caller's RNG); rounding.",
    "Lean 4 theorems + bit-exact differential correspondence + mpmath oracle",
    "DESIGN.md §3 C13")

reg("C14",
    "Lean, law-free (every scalar type and table, whatever the values): the removal loop reads exactly 2k-2 coordinates for k edges; "
    "permatuhedral_sampling reads 2E-2; an Ok sample has read exactly 2E-2+1+DL+(DL mod 2) = get_dimension() coordinates; the "
    "sample depends on the Gamma draw only through its value at (dod, coordinate 2E-2); a Gaussian component reads only its pair. "
    "Real generic code run with a dependency-tracking scalar (data deps, comparison log, narrowing log), single-coordinate "
    "perturbation on the f64 code, truncated points.",
    "'every coordinate influences' is existential: decided by perturbation on the real code.",
    "Lean 4 non-interference theorems + tracking-scalar instantiation of the real generic code",
    "DESIGN.md §3 C14")

reg("C17",
    "Lean, law-free: print_debug_info does not enter the computation (definitional); return_metadata only attaches metadata; "
    "matrix_stability_test can only turn Ok into an error; the RNG entry point is sample on exactly `dimension` draws; an API whose "
    "operations leave the state unchanged answers every operation of every history and interleaving as a fresh call. That &self "
    "methods cannot change the sampler is Rust's aliasing rule + source audit (no statics/interior mutability/unsafe) + Send+Sync. "
    "Real code: same request twice in one process, reverse order in another process, consecutive near-equal lambda coordinates, "
    "8/16 threads on a shared sampler, all 8 settings combinations, counting replay RNG, repeated builds; the default-feature build (no `log`: println! debugging) with print_debug_info off/on against the instrumented build; rng entry vs x-space entry on scripted numbers.",
    "Schedules are sampled; the all-interleavings guarantee rests on Rust's type system and the audit.",
    "Lean 4 theorems + bit-exact replay across histories, processes and threads + source audit",
    "DESIGN.md §3 C17")

reg("C18",
    "TRANSLATOR + proof: the serde schema (structs, ordered fields with parsed types, every serde attribute, manual impls) is regenerated "
    "from /repo/src on every run into Lean as DATA. dec_enc: for EVERY schema, type and well-typed value the derive round trip "
    "(struct = map of all fields by name in order, Vec = sequence, f64 = its bits) is the identity; generated_schema_ok (kernel `decide` "
    "on the regenerated schema): only modelled field types, resolvable struct references, no serde attribute, no manual impl, root struct "
    "present; hence roundtrip_generated / observation_after_roundtrip for the source as it is now (a reordered, renamed or added plain "
    "field keeps everything true; skip/with/default/skip_serializing_if/manual impl/unmodelled type breaks the obligation); "
    "default_inhabits: non-vacuity. Real round trips through serde_json text, serde_json::Value, ciborium and the harness's own value-tree "
    "format with structs as maps and as sequences, on samplers with negative / |.|>=2 signature entries, odd/even D L, vacuum, disconnected, "
    "8-edge graphs and table values beyond 2^63; 40/400 samples compared bit for bit; serialised key tree vs schema.",
    "serde derive semantics is the model assumption; the regex translator is in the trusted base.",
    "translator-regenerated Lean schema + Lean round-trip theorem + real round trips",
    "DESIGN.md §3 C18", category="proof")

reg("C19",
    "Lean: the model's arithmetic interface has no to_f64, so every sampling definition is accepted without any narrowing; the "
    "Gamma draw is a parameter and the sample depends on it only through its value at (dod, coordinate 2E-2); u, v and the "
    "decomposition are computed before/independently of the draw. Real generic code: (i) logging scalar - exactly three narrowings "
    "(shape, coordinate 2E-2, tolerance) with debug off, none while computing Feynman parameters; (ii) double-double scalar - L, u, "
    "inverse, u-vectors, v agree with exact rationals of the double-double Feynman parameters to 1e-24 cond; (iii) double-double POINTS with non-zero low parts: parameter ratios follow xi^(1/omega) to 1e-26; the matrix routine alone in double-double against exact rationals.",
    "ln/cos/sin/exp of the harness's double-double type go through f64 (its powf, sqrt and arithmetic are full precision), so Gaussian components are f64-accurate.",
    "Lean 4 theorems (interface without narrowing) + user-scalar instantiations of the real generic code",
    "DESIGN.md §3 C19")
