"""Per-property claims registered in MANIFEST.json."""
PROPS = {}  # id -> dict(text, note, technique, design_ref, category)


def reg(pid, text, note, technique, design_ref, category="proof"):
    PROPS[pid] = dict(text=text, note=note, technique=technique, design_ref=design_ref, category=category)


HOOK_COMMITS = ["f8dcf9d"]
FIX_COMMITS = ["46483d2", "9f39851", "641a06a", "b2abcbe"]
NOTES = ("Technique family: machine-checked proof in Lean 4 of a hand-written model, tied to /repo on every run by a "
         "differential correspondence check (model at Float vs real code) and exact-arithmetic oracles; see DESIGN.md. "
         "Four genuine defects were repaired with `fix:` commits in /repo (known_findings.json, section fixed).")
NOT_YET = {}

reg("C20",
    "Law-free Lean theorems (every Scalar type, hence IEEE f64): Vector add/sub/scale/+= are componentwise, "
    "squared = dot(v,v) literally, dot is the left fold from index 0 and symmetric when * commutes, constructors are "
    "all-zero/of length D; all for every D. The Float instantiation of the same definitions is compared bit-for-bit "
    "with momtrop::vector::Vector and impl MomTropFloat for f64 on D=1..8 incl. special values.",
    "Float (Lean runtime + libm) is assumed to be IEEE binary64 like Rust's f64; agreement is measured by the correspondence.",
    "Lean 4 theorems over a law-free Scalar class + bit-exact differential correspondence",
    "DESIGN.md §3 C20")

reg("C15",
    "Lean theorems at the reference instantiation alpha:=R, for EVERY dimension n: under the explicit hypothesis "
    "PivotsPos (all Cholesky pivots positive; non-vacuity example proved) and symmetry, the model of "
    "decompose_for_tropical returns Ok with q_transposed^T q_transposed = A (upper triangular, positive diagonal), "
    "q_transposed_inverse q_transposed = 1 (nilpotent-series inverse proved via N^n=0 and the geometric sum), "
    "inverse = A^-1 and determinant = det A; also Ok with the stability test for every tol >= 0. The model at Float "
    "is compared with the real routine (n=1..8, five SPD families, exact cond <= 1e10) and the real outputs are "
    "checked against exact rational linear algebra with the property's tolerance 100 n^2 eps cond.",
    "Rounding error is measured, not proved; PosDef => PivotsPos is classical and not formalised; Float assumed IEEE.",
    "Lean 4 proof (Mathlib matrices) of the exact-arithmetic model + differential correspondence + exact rational oracle",
    "DESIGN.md §3 C15")

reg("C16",
    "Law-free Lean theorems (every Scalar type, hence IEEE f64 incl. NaN/underflow): Ok implies neither the pivot "
    "product nor the determinant compares equal to zero; a zero pivot product or zero determinant yields ZeroDet for "
    "any tolerance; with Some(tol) an Ok result satisfies residual <= tol under the scalar's own comparison (so a NaN "
    "residual is never Ok); the test never changes the returned record; sample returns the MatrixError whenever the "
    "routine fails and an Ok sample satisfies the residual bound. Correspondence on definite / zero-pivot / indefinite "
    "/ NaN / ill-conditioned / underflowing matrices x 8 tolerances; exact-rational residual oracle on the real code.",
    "NaN propagation through + - * sqrt is IEEE behaviour of Float/f64 (assumed); theorems describe the code after fix commits 9f39851, 641a06a.",
    "Lean 4 law-free theorems + differential correspondence + exact rational oracle",
    "DESIGN.md §3 C16")

reg("C03",
    "Law-free Lean theorems for every multigraph: what from_graph reports (edges, externals, massive count, loop number, dod "
    "formula), generalized_dod = 1 for the empty set and sum w - L(s) D/2 [- dod iff spanning] otherwise, the spanning flag "
    "iff all massive edges are present and some returned component touches every external, the dimension formula, and "
    "exactness of one component search (the set found from a seed is exactly the class of edges chained to it by shared "
    "end points; Mathlib ReflTransGen). The partition of a subset into components by the outer loop and the vertex-count "
    "identity are covered by the exhaustive correspondence (every multigraph with <=3/4 edges on 4 vertex slots, all subsets) "
    "and the union-find oracle, not yet by a theorem: level is partial for those clauses.",
    "Hash sets modelled as duplicate-free lists (only membership/cardinality is used); f64 rounding of generalized_dod measured against exact rationals.",
    "Lean 4 law-free theorems + exhaustive small-graph correspondence + union-find/Fraction oracle",
    "DESIGN.md §3 C03")

reg("C04",
    "Law-free Lean theorem of memoisation soundness: after recursive_fill_j_function on the full graph every subset id holds "
    "exactly the value of the direct recursion J(0)=1, J(g)=sum_e J(g-e)/omega(g-e) in the code's summation order (invariant: "
    "stored values correct, stored sets downward closed), for every E and every scalar type; table_j lifts it to the built "
    "table. At alpha:=R: edge probabilities sum to one; closed form of the cached factor. Correspondence: model fillJ on the "
    "implementation's own dods vs j_function (4 ulp), cachedFactor with statrs Gamma values; oracle: exact Fraction recursion, "
    "explicit sum over all E! orderings, mpmath normalisation.",
    "statrs::gamma is external (values supplied by the harness); the E!-orderings identity is checked by the oracle, not yet a theorem.",
    "Lean 4 invariant proof of the memoised recursion + differential correspondence + exact rational oracle",
    "DESIGN.md §3 C04")

reg("C05",
    "Law-free Lean theorems: the build returns Err iff some subset id has (omega <= 0, non-empty, not the full graph) under the "
    "scalar's own comparison, the reported subset is the first such in id order, and an Ok table has 2^E entries holding exactly "
    "the computed flags and degrees with no divergent proper subset; the model has no input besides the graph (determinism). "
    "Correspondence on Ok/Err incl. near-threshold weights; exact rational iff outside the 1e-9 band; J finite>0; rebuilt in the "
    "same and in a fresh process; E=63/64 panic is the open known finding.",
    "No-panic clause only explored for E<=8 plus the E=63/64 probe; J positivity is an oracle check, not yet a theorem.",
    "Lean 4 law-free theorems + differential correspondence + exact rational oracle",
    "DESIGN.md §3 C05")

reg("C06",
    "Law-free Lean theorems about the cumulative scan (code after fix 46483d2): a selected edge belongs to the subgraph and the "
    "rest is g without it; it is the FIRST edge in index order whose running sum reaches u (all earlier running sums compare "
    "below u), or the last edge when no running sum reaches u<=1; for every non-empty subgraph and every u<=1 an edge is "
    "selected (no panic) - for every scalar type, hence for IEEE f64 with rounded sums and u one ulp below 1. Correspondence "
    "on every boundary +-1ulp; exact rational oracle on the real code.",
    "Float assumed IEEE; the exact-arithmetic interval statement (probability p_e per edge) is checked by the oracle.",
    "Lean 4 law-free theorems + differential correspondence + exact rational oracle",
    "DESIGN.md §3 C06")
