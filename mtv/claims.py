"""Per-property claims registered in MANIFEST.json."""
PROPS = {}  # id -> dict(text, note, technique, design_ref, category)


def reg(pid, text, note, technique, design_ref, category="proof"):
    PROPS[pid] = dict(text=text, note=note, technique=technique, design_ref=design_ref, category=category)


HOOK_COMMITS = ["f8dcf9d"]
NOTES = ("Technique family: machine-checked proof in Lean 4 of a hand-written model, tied to /repo on every run by a "
         "differential correspondence check (model at Float vs real code) and exact-arithmetic oracles; see DESIGN.md. "
         "Four genuine defects were repaired with `fix:` commits in /repo (known_findings.json, section fixed).")
NOT_YET = {}

reg("C20",
    "Law-free Lean theorems (every Scalar type, hence IEEE f64): Vector add/sub/scale/+= are componentwise, "
    "squared = dot(v,v) literally, dot is the left fold from index 0 and symmetric when * commutes, constructors are "
    "all-zero/of length D; all for every D. The Float instantiation of the same definitions is compared bit-for-bit "
    "with momtrop::vector::Vector and impl MomTropFloat for f64 on D=1..8 incl. special values.",
    "Float (Lean runtime + libm) is assumed to be IEEE binary64 like Rust's f64; agreement is measured by the correspondence.",
    "Lean 4 theorems over a law-free Scalar class + bit-exact differential correspondence",
    "DESIGN.md §3 C20")
