"""Per-property claims registered in MANIFEST.json."""
PROPS = {}  # id -> dict(text, note, technique, design_ref, category)


def reg(pid, text, note, technique, design_ref, category="proof"):
    PROPS[pid] = dict(text=text, note=note, technique=technique, design_ref=design_ref, category=category)


HOOK_COMMITS = ["f8dcf9d"]
FIX_COMMITS = ["46483d2", "9f39851", "641a06a", "b2abcbe"]
NOTES = ("Technique family: machine-checked proof in Lean 4 of a hand-written model, tied to /repo on every run by a "
         "differential correspondence check (model at Float vs real code) and exact-arithmetic oracles; see DESIGN.md. "
         "Four genuine defects were repaired with `fix:` commits in /repo (known_findings.json, section fixed).")
NOT_YET = {}

reg("C20",
    "Law-free Lean theorems (every Scalar type, hence IEEE f64): Vector add/sub/scale/+= are componentwise, "
    "squared = dot(v,v) literally, dot is the left fold from index 0 and symmetric when * commutes, constructors are "
    "all-zero/of length D; all for every D. The Float instantiation of the same definitions is compared bit-for-bit "
    "with momtrop::vector::Vector and impl MomTropFloat for f64 on D=1..8 incl. special values.",
    "Float (Lean runtime + libm) is assumed to be IEEE binary64 like Rust's f64; agreement is measured by the correspondence.",
    "Lean 4 theorems over a law-free Scalar class + bit-exact differential correspondence",
    "DESIGN.md §3 C20")

reg("C15",
    "Lean theorems at the reference instantiation alpha:=R, for EVERY dimension n: under the explicit hypothesis "
    "PivotsPos (all Cholesky pivots positive; non-vacuity example proved) and symmetry, the model of "
    "decompose_for_tropical returns Ok with q_transposed^T q_transposed = A (upper triangular, positive diagonal), "
    "q_transposed_inverse q_transposed = 1 (nilpotent-series inverse proved via N^n=0 and the geometric sum), "
    "inverse = A^-1 and determinant = det A; also Ok with the stability test for every tol >= 0. The model at Float "
    "is compared with the real routine (n=1..8, five SPD families, exact cond <= 1e10) and the real outputs are "
    "checked against exact rational linear algebra with the property's tolerance 100 n^2 eps cond.",
    "Rounding error is measured, not proved; PosDef => PivotsPos is classical and not formalised; Float assumed IEEE.",
    "Lean 4 proof (Mathlib matrices) of the exact-arithmetic model + differential correspondence + exact rational oracle",
    "DESIGN.md §3 C15")

reg("C16",
    "Law-free Lean theorems (every Scalar type, hence IEEE f64 incl. NaN/underflow): Ok implies neither the pivot "
    "product nor the determinant compares equal to zero; a zero pivot product or zero determinant yields ZeroDet for "
    "any tolerance; with Some(tol) an Ok result satisfies residual <= tol under the scalar's own comparison (so a NaN "
    "residual is never Ok); the test never changes the returned record; sample returns the MatrixError whenever the "
    "routine fails and an Ok sample satisfies the residual bound. Correspondence on definite / zero-pivot / indefinite "
    "/ NaN / ill-conditioned / underflowing matrices x 8 tolerances; exact-rational residual oracle on the real code.",
    "NaN propagation through + - * sqrt is IEEE behaviour of Float/f64 (assumed); theorems describe the code after fix commits 9f39851, 641a06a.",
    "Lean 4 law-free theorems + differential correspondence + exact rational oracle",
    "DESIGN.md §3 C16")
