"""Input generators. All randomness comes from the `random.Random` handed in (seeded from VERIF_SEED)."""
import math
from fractions import Fraction
from .core import f2b, b2f

# ------------------------------------------------------------------------------------------------
# matrices
# ------------------------------------------------------------------------------------------------

def symmetrize(A):
    n = len(A)
    for i in range(n):
        for j in range(i):
            A[i][j] = A[j][i]
    return A


def spd_random(rng, n, ridge=None):
    B = [[rng.gauss(0, 1) for _ in range(n)] for _ in range(n)]
    ridge = 10 ** rng.uniform(-6, 0) if ridge is None else ridge
    A = [[sum(B[k][i] * B[k][j] for k in range(n)) + (ridge if i == j else 0.0) for j in range(n)] for i in range(n)]
    return symmetrize(A)


def spd_graded(rng, n):
    A = spd_random(rng, n, ridge=1.0)
    s = rng.uniform(0.2, 1.2)
    d = [10 ** (-s * k) for k in range(n)]
    return symmetrize([[d[i] * A[i][j] * d[j] for j in range(n)] for i in range(n)])


def spd_hilbert(rng, n):
    sh = rng.randint(0, 3)
    r = rng.uniform(1e-9, 1e-3)
    return symmetrize([[1.0 / (i + j + 1 + sh) + (r if i == j else 0.0) for j in range(n)] for i in range(n)])


def spd_integer(rng, n):
    B = [[rng.randint(-3, 3) for _ in range(n)] for _ in range(n)]
    return [[float(sum(B[k][i] * B[k][j] for k in range(n)) + (1 if i == j else 0)) for j in range(n)] for i in range(n)]


def spd_graph_like(rng, n):
    """L = sum_e x_e s_e s_e^T with s_e in {-1,0,1}^n, as produced by compute_l_matrix"""
    ne = n + rng.randint(1, 4)
    S = [[rng.choice([-1, 0, 1]) for _ in range(n)] for _ in range(ne)]
    for l in range(n):
        S[l % ne][l] = rng.choice([-1, 1])
    x = [10 ** rng.uniform(-3, 1) for _ in range(ne)]
    for l in range(n):  # one private edge per loop keeps L definite
        S.append([1 if k == l else 0 for k in range(n)]); x.append(10 ** rng.uniform(-3, 1))
    return symmetrize([[sum(x[e] * S[e][i] * S[e][j] for e in range(len(S))) for j in range(n)] for i in range(n)])


def spd_near_degenerate(rng, n):
    """B B^T with a unit lower-triangular-like B whose pivots are 1 except one or two of size 2^-13..2^-16: Schur complements
    1e-8..1e-10 of the diagonal entry they are taken from, condition number 1e8..1e10 (still inside the property's range)"""
    B = [[(rng.uniform(-1, 1) if j < i else 0.0) for j in range(n)] for i in range(n)]
    small = set(rng.sample(range(n), 1 if n < 4 else rng.randint(1, 2)))
    for i in range(n):
        B[i][i] = 2.0 ** -rng.randint(13, 16) if (i in small and i > 0) else 1.0
    A = [[sum(B[i][k] * B[j][k] for k in range(n)) for j in range(n)] for i in range(n)]
    return symmetrize(A)


def spd_sparse_pattern(rng, n):
    """diagonally dominant matrices with a random pattern of exact zeros off the diagonal (zeros next to the diagonal, non-zeros
    further out: fill-in in the Cholesky factor, vanishing bands in powers of its strictly lower part)"""
    A = [[0.0] * n for _ in range(n)]
    for i in range(n):
        for j in range(i):
            if rng.random() < 0.45 and not (rng.random() < 0.5 and i - j == 1):
                A[i][j] = A[j][i] = rng.choice([-1, 1]) * rng.uniform(0.2, 1.0)
    for i in range(n):
        A[i][i] = sum(abs(t) for t in A[i]) * rng.uniform(1.05, 1.6) + rng.uniform(0.05, 0.5)
    return A


def spd_weak_coupling(rng, n):
    """diagonal entries of order one; some couplings of order one, others non-zero but 1e-9..1e-12 (absorbed without trace when
    they are squared and subtracted from a diagonal entry, yet they propagate to first order into later rows)"""
    A = [[0.0] * n for _ in range(n)]
    for i in range(n):
        for j in range(i):
            c = rng.random()
            v = rng.choice([-1, 1]) * (rng.uniform(0.2, 0.5) if c < 0.45 else (10.0 ** -rng.uniform(8.5, 12) if c < 0.9 else 0.0))
            A[i][j] = A[j][i] = v
    for i in range(n):
        A[i][i] = rng.choice([1.0, 1.0, 2.0, rng.uniform(0.8, 2.5)]) + sum(abs(t) for k, t in enumerate(A[i]) if k != i)
    return A


def spd_scaled_extreme(rng, n):
    """a well-conditioned matrix times 10^(+-k), k up to 140 (as far as the determinant stays an f64)"""
    A = spd_sparse_pattern(rng, n) if rng.random() < 0.5 else spd_random(rng, n, ridge=1.0)
    kmax = min(140, 280 // n - 3)            # the determinant ~ 10^(k n) has to stay an ordinary f64
    k = rng.randint(min(61, kmax // 2), kmax) * rng.choice([-1, 1])
    sc = 10.0 ** k if rng.random() < 0.5 else 2.0 ** int(k * 3.32)
    return symmetrize([[A[i][j] * sc for j in range(n)] for i in range(n)])


def spd_exact_cholesky(rng, n):
    """A = R^T R with an upper triangular R of small integers and dyadic numbers: every pivot is an exactly representable square, the whole
    decomposition is exact in f64. Pivot coincidences on purpose: products that are exactly 1 (2 x 1/2), first pivot = last pivot with others
    in between, pivots exactly 1 after coupled non-unit ones, constant diagonals"""
    mode = rng.choice(["product_one", "first_eq_last", "unit_after", "constant", "free"])
    diag = [rng.choice([1.0, 2.0, 3.0, 4.0, 0.5, 0.25, 1.5]) for _ in range(n)]
    if mode == "product_one" and n >= 2:
        diag = [rng.choice([2.0, 4.0, 0.5, 0.25]) for _ in range(n)]
        prod = 1.0
        for d in diag[:-1]:
            prod *= d
        diag[-1] = 1.0 / prod
    elif mode == "first_eq_last" and n >= 3:
        diag[-1] = diag[0]
        diag[rng.randrange(1, n - 1)] = diag[0] + 1.0
    elif mode == "unit_after" and n >= 2:
        diag[0] = rng.choice([2.0, 3.0, 4.0]); diag[rng.randrange(1, n)] = 1.0
    elif mode == "constant":
        diag = [rng.choice([1.0, 2.0, 0.5])] * n
    R = [[(diag[i] if i == j else (float(rng.choice([-2, -1, 0, 1, 1, 2])) * rng.choice([1.0, 0.5]) if j > i else 0.0)) for j in range(n)] for i in range(n)]
    return [[sum(R[k][i] * R[k][j] for k in range(n)) for j in range(n)] for i in range(n)]


SPD_FAMILIES = [("exact_cholesky", spd_exact_cholesky), ("weak_coupling", spd_weak_coupling), ("scaled_extreme", spd_scaled_extreme), ("sparse_pattern", spd_sparse_pattern), ("random", spd_random), ("graded", spd_graded), ("hilbert", spd_hilbert), ("integer", spd_integer),
                ("graph", spd_graph_like), ("near_degenerate", spd_near_degenerate)]


def flat_bits(A):
    return [f2b(float(x)) for r in A for x in r]


# ------------------------------------------------------------------------------------------------
# graphs
# ------------------------------------------------------------------------------------------------
CATALOGUE = {
    "tadpole": [(0, 0)],
    "bubble": [(0, 1), (0, 1)],
    "triangle": [(0, 1), (1, 2), (2, 0)],
    "box": [(0, 1), (1, 2), (2, 3), (3, 0)],
    "sunrise": [(0, 1), (0, 1), (0, 1)],
    "banana4": [(0, 1), (0, 1), (0, 1), (0, 1)],
    "double_triangle": [(0, 1), (1, 2), (2, 0), (0, 3), (3, 1)],     # kite: triangle 0-1-2 + path 0-3-1
    "kite": [(0, 1), (1, 2), (2, 3), (3, 0), (0, 2)],
    "bubble_chain": [(0, 1), (0, 1), (1, 2), (1, 2)],
    "triangle_tadpole": [(0, 1), (1, 2), (2, 0), (2, 2)],
    "bubble_leg": [(0, 1), (0, 1), (1, 2)],
    "two_bubbles": [(0, 1), (0, 1), (2, 3), (2, 3)],                    # disconnected
    "mercedes": [(0, 1), (1, 2), (2, 0), (0, 3), (1, 3), (2, 3)],
    "ladder2": [(0, 1), (1, 2), (2, 3), (3, 0), (0, 2), (1, 3)],
    "ladder3": [(0, 1), (1, 2), (2, 3), (3, 4), (4, 5), (5, 0), (1, 4), (2, 5)],
    "tadpole_pair": [(0, 0), (0, 0)],
    "banana5": [(0, 1), (0, 1), (0, 1), (0, 1), (0, 1)],
    "ladder3x": [(0, 1), (1, 2), (2, 3), (4, 5), (5, 6), (6, 7), (0, 4), (1, 5), (2, 6), (3, 7)],   # rails + 4 rungs, 3 loops
    "bubble_chain3": [(0, 1), (0, 1), (1, 2), (1, 2), (2, 3), (2, 3)],
    "hexagon_doubled": [(0, 1), (0, 1), (1, 2), (2, 3), (3, 4), (4, 5), (5, 0)],
    "banana6": [(0, 1)] * 6,
    "pentagon": [(0, 1), (1, 2), (2, 3), (3, 4), (4, 0)],
    "sunrise_tadpole": [(0, 1), (0, 1), (0, 1), (1, 1)],
    "box_doubled": [(0, 1), (0, 1), (1, 2), (2, 3), (3, 0)],
    "banana8": [(0, 1)] * 8,
    "rose3": [(0, 0), (0, 0), (0, 0)],
}


def random_multigraph(rng, max_e, max_v=5):
    ne = rng.randint(1, max_e)
    nv = rng.randint(1, max_v)
    edges = []
    for _ in range(ne):
        if rng.random() < 0.12:
            v = rng.randrange(nv); edges.append((v, v))
        else:
            edges.append((rng.randrange(nv), rng.randrange(nv)))
    return edges


def random_connected(rng, max_e, max_v=5):
    """connected multigraph with at least one loop"""
    for _ in range(200):
        nv = rng.randint(1, max_v)
        tree = [(rng.randrange(i), i) for i in range(1, nv)]
        extra = rng.randint(1, max(1, max_e - len(tree)))
        edges = tree + [((lambda a: (a, a))(rng.randrange(nv)) if rng.random() < 0.1 else (rng.randrange(nv), rng.randrange(nv)))
                        for _ in range(extra)]
        if len(edges) <= max_e:
            rng.shuffle(edges)
            return edges
    return [(0, 1), (0, 1)]


def relabel(rng, edges, extra_vertices=0):
    """map vertex slots to random distinct u8 labels; returns (edges, labels of slots, unused labels)"""
    nv = max(max(e) for e in edges) + 1
    labels = rng.sample(range(256), nv + extra_vertices)
    if nv >= 2 and rng.random() < 0.3:
        # labels that collide modulo 128 / 64 (bit-mask or narrow-integer vertex sets would alias them)
        # labels that collide modulo a power of two (bit-mask / narrow-integer vertex sets with a wrong mask would alias them)
        step = rng.choice([8, 16, 32, 64, 128])
        base = rng.randrange(0, step)
        pool = [base + k * step for k in range(256 // step)]
        rng.shuffle(pool)
        pool = pool[:4]
        for i in range(min(nv, len(pool))):
            if pool[i] not in labels[:i] and pool[i] not in labels[i + 1:]:
                labels[i] = pool[i]
    if rng.random() < 0.15:
        # the ends of the u8 range (255 = MAX_VERTICES - 1, and 0)
        for lab in (255, 0):
            if lab not in labels:
                labels[rng.randrange(nv)] = lab
    return [(labels[a], labels[b]) for a, b in edges], labels[:nv], labels[nv:]


def collision_labelled(rng):
    """small graphs whose vertex labels differ by exactly 8, 16, 32, 64, 128 (every run, every step): a vertex set kept in a bit mask
    with a wrong width or mask aliases them"""
    out = []
    for step in (8, 16, 32, 64, 128):
        for name in ("triangle", "box", "double_triangle"):
            edges = list(CATALOGUE[name])
            nv = max(max(e) for e in edges) + 1
            base = rng.randrange(0, min(step, 256 - step * (1 if step == 128 else 1) - 1))
            labels = [base, base + step]
            while len(labels) < nv:
                cand = rng.randrange(256)
                if cand not in labels:
                    labels.append(cand)
            rng.shuffle(labels)
            out.append((name + f"+labels_differ_by_{step}", [(labels[a], labels[b]) for a, b in edges]))
    return out


def weight_choice(rng, style):
    if style == "twelfths":
        return rng.randint(2, 30) / 12.0
    if style == "unit":
        return rng.choice([1.0, 1.0, 2.0, 1.5, 0.5])
    return rng.uniform(0.15, 2.8)


def graph_request(edges, weights, massive, ext, D):
    return {"op": "graph", "D": D,
            "edges": [[a, b, f2b(w), bool(m)] for (a, b), w, m in zip(edges, weights, massive)],
            "ext": list(ext)}


def face_basis(name, edges):
    """sparse (face) cycle bases for chain-like graphs: consecutive cycles share one edge, non-consecutive ones none"""
    n = len(edges)
    if name in ("sunrise", "banana4", "banana5", "banana6", "banana8"):
        L = n - 1
        S = [[0] * L for _ in range(n)]
        for i in range(L):
            S[i][i] = 1; S[i + 1][i] = -1
        return S
    if name == "ladder3x":
        # faces: rung k (k->k+4 down), bottom rail k, rung k+1 up, top rail k backwards
        S = [[0] * 3 for _ in range(n)]
        for k in range(3):
            S[6 + k][k] = 1          # rung (k, k+4) traversed k -> k+4
            S[3 + k][k] = 1          # bottom rail (k+4, k+5)
            S[6 + k + 1][k] = -1     # rung (k+1, k+5) traversed upwards
            S[k][k] = -1             # top rail (k, k+1) traversed backwards
        return S
    if name == "bubble_chain3":
        S = [[0] * 3 for _ in range(n)]
        for k in range(3):
            S[2 * k][k] = 1; S[2 * k + 1][k] = -1
        return S
    return None
