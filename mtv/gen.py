"""Input generators. All randomness comes from the `random.Random` handed in (seeded from VERIF_SEED)."""
import math
from fractions import Fraction
from .core import f2b, b2f

# ------------------------------------------------------------------------------------------------
# matrices
# ------------------------------------------------------------------------------------------------

def symmetrize(A):
    n = len(A)
    for i in range(n):
        for j in range(i):
            A[i][j] = A[j][i]
    return A


def spd_random(rng, n, ridge=None):
    B = [[rng.gauss(0, 1) for _ in range(n)] for _ in range(n)]
    ridge = 10 ** rng.uniform(-6, 0) if ridge is None else ridge
    A = [[sum(B[k][i] * B[k][j] for k in range(n)) + (ridge if i == j else 0.0) for j in range(n)] for i in range(n)]
    return symmetrize(A)


def spd_graded(rng, n):
    A = spd_random(rng, n, ridge=1.0)
    s = rng.uniform(0.2, 1.2)
    d = [10 ** (-s * k) for k in range(n)]
    return symmetrize([[d[i] * A[i][j] * d[j] for j in range(n)] for i in range(n)])


def spd_hilbert(rng, n):
    sh = rng.randint(0, 3)
    r = rng.uniform(1e-9, 1e-3)
    return symmetrize([[1.0 / (i + j + 1 + sh) + (r if i == j else 0.0) for j in range(n)] for i in range(n)])


def spd_integer(rng, n):
    B = [[rng.randint(-3, 3) for _ in range(n)] for _ in range(n)]
    return [[float(sum(B[k][i] * B[k][j] for k in range(n)) + (1 if i == j else 0)) for j in range(n)] for i in range(n)]


def spd_graph_like(rng, n):
    """L = sum_e x_e s_e s_e^T with s_e in {-1,0,1}^n, as produced by compute_l_matrix"""
    ne = n + rng.randint(1, 4)
    S = [[rng.choice([-1, 0, 1]) for _ in range(n)] for _ in range(ne)]
    for l in range(n):
        S[l % ne][l] = rng.choice([-1, 1])
    x = [10 ** rng.uniform(-3, 1) for _ in range(ne)]
    for l in range(n):  # one private edge per loop keeps L definite
        S.append([1 if k == l else 0 for k in range(n)]); x.append(10 ** rng.uniform(-3, 1))
    return symmetrize([[sum(x[e] * S[e][i] * S[e][j] for e in range(len(S))) for j in range(n)] for i in range(n)])


SPD_FAMILIES = [("random", spd_random), ("graded", spd_graded), ("hilbert", spd_hilbert), ("integer", spd_integer),
                ("graph", spd_graph_like)]


def flat_bits(A):
    return [f2b(float(x)) for r in A for x in r]
