"""C17 — sampling is a pure function of its arguments."""
import os, re
from ..core import f2b, b2f, run_harness, run_driver
from .. import samples as S, sample_checks as SC, graphs, gen

MODULE = "Momtrop.Props.C17"
THEOREMS = ["Momtrop.C17.debug_irrelevant", "Momtrop.C17.meta_irrelevant", "Momtrop.C17.stability_only_rejects", "Momtrop.C17.fromRng_draws", "Momtrop.C17.history_irrelevant", "Momtrop.C17.interleaving_irrelevant"]
RULE = ("accepted connected graphs incl. >=3 pairwise different non-dyadic weights; every request is evaluated (a) in a batch of one process "
        "in one order, (b) in a second process in reverse order, (c) between pairs of requests that differ only in the lambda coordinate "
        "by less than 2^-52 (tails and 1-2^-53 / 1-2^-52), (d) from 8 (quick) / 16 (thorough) threads on one shared sampler, (e) under all 8 "
        "settings combinations, (f) through generate_sample_from_rng with a counting replay RNG, (g) on samplers built again in the same "
        "and in another process. Non-trivial: multi-loop sampler")
ASSUMPTIONS = ["thread schedules are those the OS produces; the guarantee for all interleavings rests on &self + absence of interior mutability (source audit + Send/Sync assertion in the harness)"]

FORBIDDEN = re.compile(r"\b(static\s+mut|thread_local!|lazy_static!|OnceCell|OnceLock|RefCell|Cell<|Mutex|RwLock|Atomic[A-Z]\w*|unsafe)\b")


def source_audit():
    hits = []
    for root, _, files in os.walk("/repo/src"):
        for f in files:
            if f.endswith(".rs"):
                for i, line in enumerate(open(os.path.join(root, f), errors="replace"), 1):
                    code = line.split("//")[0]
                    m = FORBIDDEN.search(code)
                    if m:
                        hits.append(f"{os.path.join(root, f)}:{i}: {m.group(0)}")
    return hits


NUM = ("status", "k", "uTrop", "vTrop", "u", "v", "jac")


def numeric(a):
    return {k: a.get(k) for k in NUM}


def run(ctx):
    rng = ctx.rng
    hits = source_audit()
    ctx.extra["source_audit_hits"] = hits
    if hits:
        ctx.mismatch("source audit: global state / interior mutability / unsafe appeared in /repo/src (the purity argument no longer applies)",
                     None, hits[:10], None)
    ss = S.generate(ctx, 10 if ctx.quick else 60, 3 if ctx.quick else 6, max_e=6, max_loops=3, routings_per_graph=1,
                    kinds=("uniform", "uniform", "corner"))
    # a graph with pairwise different non-dyadic weights, built repeatedly (hash iteration order must not leak into float sums)
    boxes = []
    for k in range(3 if ctx.quick else 10):
        w = [0.1 + 0.1 * i + 0.013 * k for i in range(4)]
        boxes.append(gen.graph_request([(0, 1), (1, 2), (2, 3), (3, 0)], [x + 1.0 for x in w], [False] * 4, [0, 1, 2, 3], 3))
    # hexagon and octagon: subsets of three / four pairwise non-adjacent edges have >= 3 connected components (the ORDER in which components
    # are found must not leak into the float sums of the table either)
    for k in range(2 if ctx.quick else 6):
        for m in (6, 8):
            w = [0.31 + 0.1 * i + 0.013 * k + 0.0007 * i * i for i in range(m)]
            boxes.append(gen.graph_request([(i, (i + 1) % m) for i in range(m)], w, [i % 2 == 0 for i in range(m)], list(range(m)), 3))
    rb = run_harness([b for b in boxes for _ in range(8)])
    rb2 = run_harness(boxes)
    for i, b in enumerate(boxes):
        tabs = [r.get("entries") for r in rb[8 * i: 8 * i + 8]] + [rb2[i].get("entries")]
        ctx.evaluations += 9
        if any(t != tabs[0] for t in tabs):
            ctx.violation("building the same graph several times (same and other process) gives different tables", b,
                          observed="tables differ between builds")
    # near-equal lambda coordinates, consecutive on one thread
    extra = []
    for s in ss[: (6 if ctx.quick else 30)]:
        n = len(s["case"]["edges"])
        for pair in ((1 - 2.0 ** -53, 1 - 2.0 ** -52), (1e-300, 2e-300), (5e-324, 1e-323), (0.37, 0.37 + 2.0 ** -54), (2.0 ** -60, 2.0 ** -61)):
            for val in pair:
                xs = list(s["xs"]); xs[2 * n - 2] = val
                extra.append(dict(s, xs=xs, req=S.sample_request(s["case"], s["routing"], s["table"], xs), kind="lambda_pair"))
    # consecutive calls on DIFFERENT samplers with a bit-identical lambda coordinate (and other shared coordinates)
    cross = []
    for a, b in zip(ss[: (10 if ctx.quick else 40)], ss[3: (13 if ctx.quick else 43)]):
        if a["case"] is b["case"]:
            continue
        lam = rng.choice([0.3, 0.5, 0.9, 1e-3])
        for s2 in (a, b, a):
            n = len(s2["case"]["edges"])
            xs = list(s2["xs"]); xs[2 * n - 2] = lam
            cross.append(dict(s2, xs=xs, req=S.sample_request(s2["case"], s2["routing"], s2["table"], xs), kind="cross_sampler_same_lambda"))
    ss = ss + extra + cross
    reqs = [s["req"] for s in ss]
    fwd = run_harness(reqs + reqs)                 # every request twice in one process (after all the others)
    rev = run_harness(list(reversed(reqs)))        # another process, reverse order
    rev = list(reversed(rev))
    for i, s in enumerate(ss):
        a, a2, b = fwd[i], fwd[len(reqs) + i], rev[i]
        s["impl"] = a
        c = s["case"]
        ctx.case([s["req"]["x"], c["edges"], c["weights"], c["D"], s["routing"]["sig"]], nontrivial=s["routing"]["L"] >= 2,
                 sample={"graph": c["name"], "kind": s["kind"], "status": a.get("status")} if len(ctx.samples) < 3 else None)
        ctx.count(f"kind.{s['kind']}"); ctx.count(f"status.{a.get('status')}")
        if a.get("status") == "panic":
            ctx.violation("sample panicked", S.small_req(s), observed=a); continue
        if a != a2:
            ctx.violation("the same call gives a different result later in the same process (history dependence)", S.small_req(s), expected=numeric(a), observed=numeric(a2))
        elif a != b:
            ctx.violation("the same call gives a different result in another process / after a different call history", S.small_req(s), expected=numeric(a), observed=numeric(b))
    SC.corr_sample(ctx, ss[: (30 if ctx.quick else 200)])
    SC.nolog_agreement(ctx, ss[:: 3], k=20)
    SC.rng_entry_agreement(ctx, ss[:: 4], k=8)     # print_debug_info in the build where it means println!
    # masses supplied on edges that are NOT flagged massive (and flagged edges without one): the two entry points treat edge_data alike
    sd = S.generate(ctx, 4 if ctx.quick else 16, 2, max_e=5, max_loops=3, routings_per_graph=1, kinds=("uniform",), decouple=1.0, mass_mode="some")
    S.run(sd)
    SC.rng_entry_agreement(ctx, sd, k=6 if ctx.quick else 24)
    # settings combinations
    sreqs, sinfo = [], []
    nset = 8 if ctx.quick else 40
    for si in range(nset, min(len(ss), nset + nset // 2)):
        # the same samplers at a point with an exactly zero xi (kappa = 0: the L matrix degenerates, its inversion error is NaN)
        s0 = ss[si]; n0 = len(s0["case"]["edges"])
        if n0 >= 3:
            xs0 = list(s0["xs"]); xs0[rng.choice(range(1, 2 * n0 - 2, 2))] = 0.0
            s1 = dict(s0, xs=xs0, req=S.sample_request(s0["case"], s0["routing"], s0["table"], xs0))
            s1["impl"] = run_harness([s1["req"]])[0]
            ss[si] = s1
    for si in range(nset + nset // 2, min(len(ss), 2 * nset)):
        # a point at which BOTH fallible steps fail: a zero xi (the matrix step fails) and a lambda coordinate of exactly 0 or 1 (the
        # Gamma quantile fails); which error is reported must not depend on print_debug_info / return_metadata
        s0 = ss[si]; n0 = len(s0["case"]["edges"])
        if n0 >= 3:
            xs0 = list(s0["xs"]); xs0[rng.choice(range(1, 2 * n0 - 2, 2))] = 0.0; xs0[2 * n0 - 2] = rng.choice([0.0, 1.0])
            s1 = dict(s0, xs=xs0, req=S.sample_request(s0["case"], s0["routing"], s0["table"], xs0))
            s1["impl"] = run_harness([s1["req"]])[0]
            ss[si] = s1
    for si, s in enumerate(ss[: 2 * nset]):
        for tol in (None, 1e300, 0.0, 1e-17):
            for dbg in (False, True):
                for meta in (False, True):
                    r = dict(s["req"], debug=dbg, meta=meta)
                    if si % 3 == 2:
                        # a point LONGER than get_dimension() (the surplus is ignored - under every combination of the flags)
                        r["x"] = list(r["x"]) + [f2b(0.123), f2b(0.5), f2b(0.77)]
                    if tol is not None:
                        r["tol"] = f2b(tol)
                    sreqs.append(r); sinfo.append((si, tol, dbg, meta))
    sres = run_harness(sreqs)
    first = {}
    for (si, tol, dbg, meta), a in zip(sinfo, sres):
        # for one stability tolerance the four (print_debug_info, return_metadata) combinations must agree among themselves,
        # also when the test rejects the sample
        key = (si, tol)
        if key not in first:
            first[key] = a
        elif (a.get("status"), numeric(a)) != (first[key].get("status"), numeric(first[key])):
            ctx.violation(f"with stability_test={tol} the outcome depends on (print_debug_info={dbg}, return_metadata={meta}): "
                          f"{a.get('status')} vs {first[key].get('status')}", S.small_req(ss[si]), expected=first[key].get("status"), observed=a.get("status"))
    for (si, tol, dbg, meta), a in zip(sinfo, sres):
        ctx.evaluations += 1; ctx.count("settings_combination")
        base = ss[si]["impl"]
        if tol is not None and a.get("status") in ("unstable", "zerodet") and base.get("status") in ("ok", "gammaerr"):
            # (the matrix step comes first: with the test on it may reject a point that would otherwise be returned, or that would fail later)
            ctx.count("stability_test_rejects_a_sample(allowed)"); continue
        if numeric(a) != numeric(base):
            ctx.violation(f"settings (stability_test={tol}, print_debug_info={dbg}, return_metadata={meta}) change the numerical result", S.small_req(ss[si]),
                          expected=numeric(base), observed=numeric(a))
        if (a.get("meta") is not None) != meta and a.get("status") == "ok":
            ctx.violation("metadata presence does not follow return_metadata", S.small_req(ss[si]), observed=meta)
    # an EXACTLY singular L matrix (a signature with a zero column: legal input, reported as ZeroDet): whichever error is reported, it is the
    # same for all four (print_debug_info, return_metadata) combinations of one tolerance
    zreqs, zinfo = [], []
    for si, s in enumerate(ss[: (6 if ctx.quick else 30)]):
        if s["req"].get("sig") and len(s["case"]["edges"]) >= 2:
            for tol in (None, 1e-6, 0.0, 1e300):
                for dbg in (False, True):
                    for meta in (False, True):
                        r = dict(s["req"], sig=[list(row) + [0] for row in s["req"]["sig"]], debug=dbg, meta=meta)
                        r.pop("tol", None)
                        if tol is not None:
                            r["tol"] = f2b(tol)
                        zreqs.append(r); zinfo.append((si, tol, dbg, meta))
    zfirst = {}
    for (si, tol, dbg, meta), a in zip(zinfo, run_harness(zreqs)):
        ctx.evaluations += 1; ctx.count(f"singular_signature.{a.get('status')}")
        if a.get("status") == "panic":
            continue       # (an over-wide signature may be rejected by a panic: the same in every combination is all that is asked here)
        key = (si, tol)
        if key not in zfirst:
            zfirst[key] = a
        elif a.get("status") != zfirst[key].get("status"):
            ctx.violation(f"exactly singular L, stability_test={tol}: the reported outcome depends on (print_debug_info={dbg}, return_metadata={meta}): "
                          f"{a.get('status')} vs {zfirst[key].get('status')}", dict(S.small_req(ss[si]), sig="signature + zero column", tol=tol, debug=dbg, meta=meta),
                          expected=zfirst[key].get("status"), observed=a.get("status"))
    # threads on one shared sampler
    treqs = []
    for s in ss[: (4 if ctx.quick else 16)]:
        pts = [s["req"]["x"]] + [[f2b(rng.random()) for _ in s["req"]["x"]] for _ in range(7)]
        treqs.append({"op": "threads", "D": s["case"]["D"], "table": s["table"], "sig": s["routing"]["sig"], "edge_data": s["req"]["edge_data"],
                      "points": pts, "threads": 8 if ctx.quick else 16, "reps": 60 if ctx.quick else 400, "meta": True})
    for r, a in zip(treqs, run_harness(treqs)):
        ctx.evaluations += a.get("evaluations", 0); ctx.count("threads_runs")
        small = dict(r, table="<table>")
        if a.get("status") != "ok":
            ctx.violation("concurrent sampling panicked", small, observed=a); continue
        if a["thread_mismatches"] or not a["after_equal"] or not a["table_unchanged"]:
            ctx.violation("concurrent sampling on a shared sampler gives results that differ from the single-threaded ones, or modifies the sampler", small,
                          observed={k: a[k] for k in ("thread_mismatches", "after_equal", "table_unchanged")})
    # generate_sample_from_rng = sample on exactly get_dimension() draws
    rreqs, rinfo = [], []
    # samplers with odd D and at least two loops first (D*L even although D is odd), then the rest
    nr = 10 if ctx.quick else 60
    pick = [s for s in ss if s["case"]["D"] % 2 == 1 and s["routing"]["L"] >= 2][: nr // 2]
    pick += [s for s in ss if s not in pick][: nr - len(pick)]
    # samplers whose OVERALL degree of divergence is negative (the full graph is exempt from the divergence check, so they can be built):
    # every sample fails in the Gamma step - after exactly get_dimension() numbers have been drawn, like on the x-space path
    from .. import oracle as O_
    negs = []
    for edges, w, D in (([(0, 1), (1, 2), (2, 0)], [0.6, 0.6, 0.6], 4), ([(0, 1), (0, 1)], [0.7, 0.7], 3), ([(0, 1), (1, 2), (2, 0)], [0.9, 0.8, 0.9], 6)):
        ext = sorted(set(v for e in edges for v in e)); massive = [False] * len(edges)
        dod, Lf, table = O_.table_oracle(edges, w, massive, ext, D)
        if dod < 0 and not O_.divergent_subsets(table):
            negs.append(dict(edges=edges, weights=w, massive=massive, ext=ext, D=D, table=table, dod=dod, loops=Lf, accepted=True, name="negative_dod"))
    pick += S.samples_for_cases(ctx, negs, 1)
    for s in pick:
        dim = len(s["req"]["x"])
        ks = [rng.getrandbits(53) for _ in range(dim)]
        if len(rreqs) % 4 == 2:
            # a generator may return exactly 0.0 (probability 2^-53 per draw): put it where 0.0 is a harmless input (an edge-choice
            # coordinate) and into a Box-Muller angle slot
            ks[0] = 0
            ks[-1] = 0
        xs = [k * 2.0 ** -53 for k in ks]
        base_req = dict(s["req"])
        if len(rreqs) % 6 == 4:
            base_req["tol"] = f2b(0.0)      # error paths (a point rejected by the stability test) draw the same numbers, once
        if len(rreqs) % 10 == 6 and s["routing"]["L"] >= 2:
            # the number of draws is get_dimension(), a function of the GRAPH: a signature with a missing column (accepted by the API) ...
            base_req["sig"] = [row[:-1] for row in base_req["sig"]]
        elif len(rreqs) % 10 == 8:
            # ... or with a surplus column (the sample fails with a matrix error after the numbers have been drawn)
            base_req["sig"] = [row + [0] for row in base_req["sig"]]
        rr = dict(base_req, op="rng", k=ks + [rng.getrandbits(53) for _ in range(4)]); del rr["x"]
        rreqs.append(rr); rreqs.append(dict(base_req, x=[f2b(x) for x in xs])); rinfo.append((s, dim))
    rres = run_harness(rreqs)
    for i, (s, dim) in enumerate(rinfo):
        a, b = rres[2 * i], rres[2 * i + 1]
        ctx.evaluations += 1; ctx.count("rng_entry_point")
        if a.get("status") == "panic":
            ctx.violation("generate_sample_from_rng panicked", S.small_req(s), observed=a); continue
        if a.get("draws") != dim or a.get("other_rng_calls"):
            ctx.violation(f"generate_sample_from_rng draws {a.get('draws')} numbers (+{a.get('other_rng_calls')} other RNG calls), get_dimension() is {dim}", S.small_req(s), expected=dim, observed=a.get("draws"))
        if numeric(a) != numeric(b):
            ctx.violation("generate_sample_from_rng differs from generate_sample_from_x_space_point on the drawn numbers", S.small_req(s), expected=numeric(b), observed=numeric(a))
