"""C10 — loop momenta: Gaussian map with covariance (V/2 lambda) L^-1 and centre -L^-1 u."""
from fractions import Fraction
from ..core import f2b, b2f
from .. import samples as S, sample_checks as SC, kin, exact as X

MODULE = "Momtrop.Props.C10Law"
THEOREMS = ["Momtrop.C10.momenta_eq", "Momtrop.C10.shift_eq", "Momtrop.C10.qTInv_whitens", "Momtrop.C10.propSum_at_sample", "Momtrop.C10.propSum_total", "Momtrop.C10.model_identity", "Momtrop.C10.gaussian_affine", "Momtrop.C10.momenta_law"]
RULE = ("accepted connected graphs with 1..3 (quick) / 1..5 (thorough) loops, D=1..6, masses, shifts with offsets, non-fundamental bases and "
        "sparse face bases; shifts on a subset of loops only (some u_l exactly zero) included; the scalar identity "
        "sum_e x_e(|q_e|^2+m_e^2) = v(1+|q|^2/(2 lambda)) is evaluated exactly at the returned momenta. Non-trivial: L>=2"
        " Also: 5- and 7-loop bananas, low-D tiny-xi points (L entries far outside [1e-50,1e50]), permuted bases with detached loops, vacuum graphs, masses decoupled from the is_massive flags and with negative sign, momenta in a coordinate hyperplane, offsets 1e5 times the physical scale; oracle: the returned Q^-T whitens L (tolerance from the scaled condition number); matrix correspondence; generic-scalar guard.")
ASSUMPTIONS = ["tolerance 100 L^2 eps cond_inf(L) kappa_V (1+|q|^2/2lambda) relative to v(1+|q|^2/2lambda)"]


def run(ctx):
    ss = S.generate(ctx, 12 if ctx.quick else 100, 3 if ctx.quick else 6, max_e=6 if ctx.quick else 8,
                    max_loops=3 if ctx.quick else 5, routings_per_graph=2, scales=(1, 1, 1, Fraction(1, 2 ** 33), 2 ** 30), decouple=0.3, special=("vacuum", "vacuum", "vacuum_massless"))
    ss += S.generate(ctx, 4 if ctx.quick else 25, 2, max_e=10, max_loops=4, routings_per_graph=2,
                     names=["banana4", "ladder3x", "mercedes", "sunrise", "sunrise_tadpole", "bubble_chain3"])
    ss += S.generate(ctx, 2 if ctx.quick else 10, 2, max_e=6, max_loops=5, routings_per_graph=2, names=["banana6"])
    ss += S.generate(ctx, 1 if ctx.quick else 4, 2, max_e=8, max_loops=7, routings_per_graph=2, names=["banana8"], kinds=("uniform",))
    for nm in ("sunrise_tadpole", "bubble_chain3", "triangle_tadpole", "bubble_chain"):      # each of them in every run
        ss += S.generate(ctx, 1 if ctx.quick else 3, 1, max_e=7, max_loops=4, routings_per_graph=10, names=[nm], variant="permuted", kinds=("uniform",))
    # all shifts with an exactly zero first component (momenta and offsets in a coordinate hyperplane), D >= 2
    ss += S.generate(ctx, 5 if ctx.quick else 25, 2, max_e=5, max_loops=3, routings_per_graph=2, kinds=("uniform",), plane=True, dims=[2, 3, 4])
    # extremely small xi: L matrices with entries far outside [1e-50, 1e50] (any magnitude guard must still give the same momenta)
    ss += S.generate(ctx, 6 if ctx.quick else 30, 4, max_e=5, max_loops=3, routings_per_graph=1, kinds=("tiny_xi",),
                     names=["sunrise", "bubble", "double_triangle", "banana4", "triangle"])
    ss += S.generate(ctx, 4 if ctx.quick else 20, 8, max_e=4, max_loops=2, routings_per_graph=1, kinds=("tiny_xi",),
                     names=["sunrise", "bubble_chain"], dims=[1, 2], mass_mode="all")
    # zero shifts on some edges: u_l = 0 for some loops but not others
    for s in list(ss[:: 5]):
        r = dict(s["routing"]); sh = [list(v) for v in r["shifts"]]
        nl = r["L"]
        if nl >= 2:
            keep = s["case"]["edges"] and [e for e in range(len(sh)) if all(r["sig"][e][l] == 0 for l in range(1))]
            for e in range(len(sh)):
                if r["sig"][e][0] != 0:
                    sh[e] = [Fraction(0)] * len(sh[e])
            r["shifts"] = sh; r["ext_mom"] = None
            s2 = dict(s, routing=r, req=S.sample_request(s["case"], r, s["table"], s["xs"]), group=None, special="zero_u0")
            ss.append(s2)
    for kk, s in enumerate(ss):
        if kk % 3 == 1 and s.get("special") is None:
            # every third sample with the matrix stability test on (a generous tolerance: it must not change any returned number)
            s["req"] = S.sample_request(s["case"], s["routing"], s["table"], s["xs"], tol=1e-3)
    S.run(ss)
    SC.corr_momenta(ctx, ss)
    SC.generic_scalar_guard(ctx, ss[:: 7], k=6)
    SC.corr_matrix(ctx, ss)     # the factors Q, Q^-T, L^-1 the momenta are built from: model decomposition on the implementation's L
    for s in ss:
        a, c, r = s["impl"], s["case"], s["routing"]
        nl, D = r["L"], c["D"]
        ctx.case([s["req"]["sig"], s["req"]["x"], s["req"]["edge_data"], c["edges"], c["weights"]], nontrivial=nl >= 2,
                 sample={"graph": c["name"], "edges": c["edges"], "D": D, "sig": r["sig"], "status": a.get("status")} if len(ctx.samples) < 4 and nl >= 2 else None)
        ctx.count(f"L={nl}"); ctx.count(f"D={D}"); ctx.count(f"status.{a.get('status')}")
        if s.get("special"):
            ctx.count("special." + s["special"])
        if a.get("status") == "panic":
            ctx.violation("sample panicked", S.small_req(s), observed=a); continue
        if a.get("status") != "ok":
            continue
        md = a["meta"]
        if not SC.finite([a["k"], a["v"], md["lambda"], md["q"], md["shift"], a["log"]["momtrop_feynman_parameter"]]):
            SC.nonfinite_verdict(ctx, s, fields=("u", "v"))
            ctx.count("nonfinite_skipped"); continue
        x = SC.fr_list(a["log"]["momtrop_feynman_parameter"])
        ex = SC.exact_quantities(s, x)
        # "k + L^-1 u = sqrt(v/2 lambda) Q^-T q with Q Q^T = L": the returned Q^-T whitens L. Accuracy is governed by the condition number
        # of the SCALED matrix (graded L matrices - tiny xi - have astronomically large cond(L) but a modest scaled one)
        if ex is not None and ex["det"] > 0 and SC.finite([md["decomp"]["qti"], md["l"]]):
            tw = 1000 * nl * nl * SC.EPS * ex["cond_s"] * ex["cond_s"]
            if tw <= Fraction(1, 100):
                Qti = X.mat_from_bits(nl, md["decomp"]["qti"])
                Lb = X.mat_from_bits(nl, md["l"])
                W = X.matmul(X.transpose(Qti), X.matmul(Lb, Qti))
                dev = max(abs(W[i][j] - (1 if i == j else 0)) for i in range(nl) for j in range(nl))
                ctx.count("whitening_checked")
                if dev > tw:
                    ctx.violation(f"Q^-T of the sample does not whiten its L matrix: max |Q^-1 L Q^-T - 1| = {float(dev):.3e} (tolerance {float(tw):.1e}, "
                                  f"scaled condition number {float(ex['cond_s']):.2e})", S.small_req(s), expected="identity", observed=float(dev)); continue
        if ex is None or ex["det"] <= 0 or ex["V"] <= 0:
            ctx.count("degenerate_exact_skipped"); continue
        n = len(x)
        k = [[Fraction(b2f(b)) for b in row] for row in a["k"]]
        q = [[Fraction(b2f(b)) for b in row] for row in md["q"]]
        lam, v = Fraction(b2f(md["lambda"])), Fraction(b2f(a["v"]))
        if lam <= 0:
            ctx.count("lambda<=0"); continue
        lhs = Fraction(0)
        for e in range(n):
            qe = [sum(r["sig"][e][l] * k[l][i] for l in range(nl)) + r["shifts"][e][i] for i in range(D)]
            lhs += x[e] * (sum(c2 * c2 for c2 in qe) + r["masses"][e] ** 2)
        q2 = sum(c2 * c2 for row in q for c2 in row)
        rhs = v * (1 + q2 / (2 * lam))
        if rhs == 0:
            ctx.count("v_is_zero_skipped"); continue
        if SC.tol_cond(nl, ex["cond"], ex["kappa"]) > Fraction(1, 1000):
            ctx.count("cancellation_dominates(cond*kappa)_skipped"); continue
        tol = SC.tol_cond(nl, ex["cond"], ex["kappa"]) * (1 + q2 / (2 * lam)) + Fraction(1, 10 ** 13)
        rel = abs(lhs - rhs) / abs(rhs)
        ctx.extra["worst_error_over_tolerance"] = max(ctx.extra.get("worst_error_over_tolerance", 0.0), float(rel / tol))
        if rel > tol:
            ctx.violation(f"sum_e x_e(|q_e|^2+m_e^2) = {float(lhs)!r} at the returned momenta, but v(1+|q|^2/2lambda) = {float(rhs)!r} (rel {float(rel):.2e} > tol {float(tol):.2e})",
                          S.small_req(s), expected=float(rhs), observed=float(lhs)); continue
        # shift = L^-1 u
        sh = [[Fraction(b2f(b)) for b in row] for row in md["shift"]]
        for l in range(nl):
            for i in range(D):
                exv = sum(ex["Linv"][l][m] * ex["u"][m][i] for m in range(nl))
                # u itself is a cancelling sum: scale by the size of its terms
                uabs = [sum(abs(x[e] * r["sig"][e][m] * r["shifts"][e][i]) for e in range(n)) for m in range(nl)]
                # (entries of the computed inverse are accurate relative to the LARGEST entry, not entry by entry)
                linv_max = max(abs(t) for row in ex["Linv"] for t in row)
                scale = linv_max * sum(uabs) + Fraction(1, 10 ** 300)
                if abs(sh[l][i] - exv) > SC.tol_cond(nl, ex["cond"]) * scale:
                    ctx.violation(f"Metadata.shift[{l}][{i}] differs from (L^-1 u)", S.small_req(s), expected=float(exv), observed=float(sh[l][i])); break
