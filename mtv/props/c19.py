"""C19 — user precision is preserved: only the Gamma draw narrows to f64."""
from fractions import Fraction
from ..core import f2b, b2f, run_harness, run_driver
from .. import samples as S, sample_checks as SC, exact as X

MODULE = "Momtrop.Props.C19"
THEOREMS = ["Momtrop.C19.narrowing_only_in_draw", "Momtrop.C19.before_draw_independent"]
RULE = ("the real generic code instantiated with (i) a scalar that logs every to_f64 with the provenance of the narrowed value, debug off: "
        "exactly the three narrowings of the Gamma draw (shape, coordinate 2E-2, tolerance); (ii) a double-double scalar (+ - * / sqrt to "
        "~106 bits): u, L, inverse, u-vectors, v recomputed in exact rationals from the double-double Feynman parameters must agree far "
        "beyond f64 precision. Non-trivial: L>=2")
ASSUMPTIONS = ["a widened f64 value counts as 'of the table' if it is a table entry, dod, cached_factor, a setting, the Gamma variate, an exactly "
               "representable short number (multiple of 2^-12 below 2^28) or such a number plus a table constant",
               "double-double tolerance 1e-24 cond kappa relative (f64 shortcuts give >= 1e-17)"]


def _strip_comments(src):
    import re
    src = re.sub(r"//[^\n]*", lambda m: " " * len(m.group(0)), src)
    return re.sub(r"/\*.*?\*/", lambda m: " " * len(m.group(0)), src, flags=re.S)


def _enclosing(src, idx):
    """headers of the brace blocks enclosing position idx, innermost last (header = text between the previous ; { } and the {)"""
    stack = []
    for i, ch in enumerate(src[:idx]):
        if ch == "{":
            j = max(src.rfind(";", 0, i), src.rfind("{", 0, i), src.rfind("}", 0, i))
            stack.append(" ".join(src[j + 1:i].split()))
        elif ch == "}" and stack:
            stack.pop()
    return stack


def narrowing_sites():
    """source audit, structural: every `.to_f64()` call site outside float.rs is classified by WHERE it stands -
    'draw' (inside gamma.rs::inverse_gamma_lr, the wrapper of the Gamma quantile), 'debug' (inside a block guarded by
    `print_debug_info`), or 'other:<file>:<function>'. Renames and reformatting do not change the classification."""
    import os, re
    sites = []
    for root, _, files in os.walk("/repo/src"):
        for f in sorted(files):
            if not f.endswith(".rs") or f == "float.rs" or "verif" in root:
                continue
            src = _strip_comments(open(os.path.join(root, f), errors="replace").read())
            cut = src.find("#[cfg(test)]")
            body = src if cut < 0 else src[:cut]
            for m in re.finditer(r"\.to_f64\(\)", body):
                heads = _enclosing(body, m.start())
                fns = [re.search(r"\bfn\s+(\w+)", h).group(1) for h in heads if re.search(r"\bfn\s+\w+", h)]
                fn = fns[-1] if fns else "?"
                if any("print_debug_info" in h for h in heads):
                    sites.append("debug")
                elif f == "gamma.rs" and fn == "inverse_gamma_lr":
                    sites.append("draw")
                else:
                    sites.append(f"other:{f}:{fn}")
    return sites


from ..sample_checks import short_dyadic, foreign_widenings


def ddf(p):
    return Fraction(b2f(p[0])) + Fraction(b2f(p[1]))


def run(ctx):
    sites = narrowing_sites()
    ctx.extra["to_f64_call_sites"] = {k: sites.count(k) for k in sorted(set(sites))}
    foreign = sorted(set(x for x in sites if x.startswith("other:")))
    if foreign or sites.count("draw") != 3:
        # the model narrows exactly the three arguments of the draw (C19.narrowing_only_in_draw); anything else is outside it
        ctx.mismatch("source audit: `.to_f64()` call sites outside the Gamma draw wrapper and outside `print_debug_info` blocks "
                     "(or a draw wrapper that does not narrow exactly its three scalar arguments)",
                     None, {k: sites.count(k) for k in sorted(set(sites))}, {"draw": 3, "debug": "any"})
    ss = S.generate(ctx, 14 if ctx.quick else 100, 3 if ctx.quick else 6, max_e=6, max_loops=4, routings_per_graph=1,
                    kinds=("uniform", "tiny_xi", "corner"))
    # weakly coupled loops (the shared propagator has a parameter 1e-9 .. 1e-100 of the others): terms far below an f64 ulp of the
    # quantity they are added to or subtracted from still count in a wider type
    ss += S.generate(ctx, 4 if ctx.quick else 16, 10, max_e=5, max_loops=3, routings_per_graph=1, kinds=("small_xi", "small_xi", "tiny_xi"),
                     names=["sunrise", "double_triangle", "banana4", "sunrise"], variant="fundamental")
    for k, s in enumerate(ss):
        # every other sample runs with the matrix stability test on (a comparison made on the user's type, not a narrowing)
        s["req"] = S.sample_request(s["case"], s["routing"], s["table"], s["xs"], debug=False, meta=True, tol=(1e-6 if k % 2 else None))
    tr = run_harness([dict(s["req"], op="sample_track") for s in ss])
    dd = run_harness([dict(s["req"], op="sample_dd") for s in ss])
    for s, t, d in zip(ss, tr, dd):
        c, r = s["case"], s["routing"]
        n, D, nl = len(c["edges"]), c["D"], r["L"]
        req = S.small_req(s)
        ctx.case([s["req"]["x"], c["edges"], c["weights"], D, r["sig"]], nontrivial=nl >= 2,
                 sample={"graph": c["name"], "E": n, "D": D, "L": nl, "narrowings": t.get("narrowings")} if len(ctx.samples) < 3 else None)
        ctx.count(f"track.{t.get('status')}"); ctx.count(f"dd.{d.get('status')}"); ctx.count(f"L={nl}")
        if "error" in t or "error" in d:
            ctx.mismatch("user-scalar run", req, t, d, "machinery error"); continue
        if t.get("status") == "panic" or d.get("status") == "panic":
            ctx.violation("sample panicked with a user scalar type", req, observed=[t.get("msg"), d.get("msg")]); continue
        if t.get("status") == "ok":
            nar = [x["deps"] for x in t["narrowings"]]
            if nar != [[], [2 * n - 2], []] or t.get("perm_narrowings") != 0:
                ctx.violation(f"values of the user's scalar type are narrowed to f64 outside the Gamma draw: narrowings {nar} (+{t.get('perm_narrowings')} while computing the Feynman parameters); expected [[], [{2*n-2}], []]",
                              req, expected=[[], [2 * n - 2], []], observed=nar); continue
            bad = foreign_widenings(t, s)
            ctx.count("widened_values", len(t.get("widened_values", [])))
            if bad:
                ctx.violation(f"f64 constants that are neither table constants, settings, the Gamma variate nor exactly representable short numbers enter "
                              f"the computation through from_f64 (the user's precision is capped by them): {bad[:4]}", req, observed=bad); continue
            vals = [b2f(x["value"]) for x in t["narrowings"]]
            if vals[0] != b2f(s["built"]["dod"]) or vals[1] != s["xs"][2 * n - 2] or vals[2] != 5.0:
                ctx.violation("the three narrowed values are not (dod, coordinate 2E-2, tolerance 5)", req, observed=vals)
        if d.get("status") != "ok":
            continue
        if not SC.finite([d["x"], d["u"], d["v"], d["l"], d["inv"], d["uvec"]]):
            ctx.count("nonfinite_dd_skipped"); continue
        x = [ddf(p) for p in d["x"]]
        if any(t2 <= 0 for t2 in x):
            continue
        ex = SC.exact_quantities(s, x)
        if ex is None or ex["det"] <= 0 or ex["V"] <= 0:
            ctx.count("degenerate_skipped"); continue
        tol = Fraction(1, 10 ** 24) * nl * nl * ex["cond"]
        worst = Fraction(0)
        lm = [[ddf(d["l"][i * nl + j]) for j in range(nl)] for i in range(nl)]
        inv = [[ddf(d["inv"][i * nl + j]) for j in range(nl)] for i in range(nl)]
        checks = [("l_matrix", X.max_abs(X.sub(lm, ex["L"])) / X.max_abs(ex["L"]), Fraction(1, 10 ** 28) * len(x)),
                  # the determinant of an SPD matrix by Cholesky is accurate relative to the SCALED condition number
                  ("u", abs(ddf(d["u"]) - ex["det"]) / ex["det"], Fraction(1, 10 ** 24) * nl * nl * min(ex["cond"], ex["cond_s"])),
                  ("inverse", X.max_abs(X.sub(inv, ex["Linv"])) / X.max_abs(ex["Linv"]), tol),
                  ("v", abs(ddf(d["v"]) - ex["V"]) / ex["V"], tol * ex["kappa"])]
        uv = [[ddf(p) for p in row] for row in d["uvec"]]
        scale = max([abs(t3) for row in ex["u"] for t3 in row] + [Fraction(1, 10 ** 300)])
        checks.append(("u_vectors", max(abs(uv[l][i] - ex["u"][l][i]) for l in range(nl) for i in range(D)) / scale, Fraction(1, 10 ** 27) * len(x)))
        for name, err, tl in checks:
            worst = max(worst, err / tl)
            if err > tl:
                ctx.violation(f"with a double-double scalar {name} agrees with the exact value only to {float(err):.2e} (tolerance {float(tl):.2e}): precision of the user's type is lost",
                              req, expected=f"<= {float(tl):.2e}", observed=float(err)); break
        ctx.extra["worst_dd_error_over_tolerance"] = max(ctx.extra.get("worst_dd_error_over_tolerance", 0.0), float(worst))

    # ---- a user's point need not consist of f64 values: double-double coordinates with a non-zero low part. The ratio of the Feynman
    # parameters of two consecutively removed edges is xi^(1/omega) for the xi drawn between them (C07), whatever the rescaling: it
    # follows the low part of xi to the precision of the type - in particular for xi strictly between 1 - 2^-53 and 1
    from mpmath import mp, mpf
    mp.dps = 60
    rng = ctx.rng
    lreqs, linfo = [], []
    for s in [s for s in ss if s.get("impl_f64_order") is None][: (24 if ctx.quick else 150)]:
        c = s["case"]; n = len(c["edges"])
        if n < 2:
            continue
        k = rng.randrange(n - 1)                       # the xi drawn after removal k+1
        slot = 2 * k + 1
        hi = list(s["xs"]); lo = [0.0] * len(hi)
        mode = rng.choice(["just_below_one", "just_below_one", "low_part", "low_part_negative"])
        if mode == "just_below_one":
            hi[slot] = 1.0; lo[slot] = -10.0 ** -rng.randint(18, 25)
        else:
            hi[slot] = min(max(hi[slot], 0.05), 0.95)
            lo[slot] = hi[slot] * 2.0 ** -rng.randint(56, 90) * (-1 if mode.endswith("negative") else 1)
        rq = dict(S.sample_request(c, s["routing"], s["table"], hi, debug=False, meta=True), op="sample_dd", x_lo=[f2b(v) for v in lo])
        lreqs.append(rq); linfo.append((s, k, slot, hi, lo, mode))
    # the removal order at these points: the f64 hook on the high parts (xi = 1.0 is a legal f64 coordinate for this purpose)
    # (the order depends on the edge-choice coordinates only: every xi is set to 1/2 so that the parameters are strictly decreasing)
    oreqs = [{"op": "perm", "table": s["table"],
              "x": [f2b(0.5 if (i % 2 == 1 and i < 2 * len(s["case"]["edges"]) - 2) else v) for i, v in enumerate(hi)]} for (s, k, slot, hi, lo, mode) in linfo]
    for rq, d, o, (s, k, slot, hi, lo, mode) in zip(lreqs, run_harness(lreqs), run_harness(oreqs), linfo):
        c = s["case"]; n = len(c["edges"])
        ctx.case(["dd_low_part", rq["x"], rq["x_lo"], c["edges"]], nontrivial=True); ctx.count("dd_low_part." + mode); ctx.count(f"dd_low_part.{d.get('status')}")
        req = dict(S.small_req(s), x=rq["x"], x_lo=rq["x_lo"])
        if d.get("status") == "panic":
            ctx.violation("sample panicked with a double-double point", req, observed=d.get("msg")); continue
        xpre = (o.get("log") or {}).get("momtrop_feynman_parameter_no_rescaling")
        if "x" not in d or not xpre or not SC.finite(d["x"]) or not SC.finite(xpre):
            continue
        xp = [b2f(b) for b in xpre]
        order = sorted(range(n), key=lambda e: (-xp[e], e))
        if len(set(xp)) < n:
            ctx.count("dd_low_part.ties_in_order_skipped"); continue
        removed = 0
        for e in order[: k + 1]:
            removed |= 1 << e
        mask = ((1 << n) - 1) & ~removed
        om = Fraction(b2f(s["table"]["entries"][mask][3]))
        xd = [ddf(p) for p in d["x"]]
        a_, b_ = xd[order[k]], xd[order[k + 1]]
        if a_ <= 0 or b_ <= 0 or om <= 0:
            continue
        xi = Fraction(hi[slot]) + Fraction(lo[slot])
        expv = (mpf(xi.numerator) / mpf(xi.denominator)) ** (mpf(om.denominator) / mpf(om.numerator))
        got = mpf(b_.numerator) / mpf(b_.denominator) / (mpf(a_.numerator) / mpf(a_.denominator))
        err = abs(got / expv - 1)
        # (the harness's double-double exp/ln are good to ~1e-27 relative per operation; ln(xi)/omega amplifies that by |ln xi|/omega. A LOST low
        # part shows at ~1e-17: eight orders of magnitude above this tolerance)
        tolr = mpf(10) ** -25 * (1 + (1 + abs(mp.log(mpf(xi.numerator) / mpf(xi.denominator)))) / mpf(float(om)))
        ctx.extra["worst_dd_low_part_error"] = max(ctx.extra.get("worst_dd_low_part_error", 0.0), float(err))
        if err > tolr:
            ctx.violation(f"double-double point, xi = {hi[slot]!r} + {lo[slot]!r}: the ratio of the Feynman parameters of the edges removed before/after this draw is "
                          f"{mp.nstr(got, 32)}, but xi^(1/omega) = {mp.nstr(expv, 32)} (relative difference {mp.nstr(err, 3)}): the low part of the user's coordinate is lost",
                          req, expected=mp.nstr(expv, 32), observed=mp.nstr(got, 32))

    # ---- the matrix routine itself with the double-double scalar on SPD matrices (weakly coupled, sparse, random, L-like): determinant,
    # inverse and factors keep the precision of the type (errors ~1e-30 cond), also where an f64 computation could drop terms
    from .. import gen
    mreqs, minfo = [], []
    fams = [f for f in gen.SPD_FAMILIES if f[0] in ("weak_coupling", "sparse_pattern", "random", "graph", "integer")]
    for n in range(2, 7):
        for fam, f in fams:
            made = 0
            for _ in range(40):
                if made >= (3 if ctx.quick else 20) * (3 if fam == "weak_coupling" else 1):
                    break
                A = f(rng, n)
                Af = [[Fraction(v) for v in row] for row in A]
                if not X.leading_minors_positive(Af):
                    continue
                cond = X.cond_inf(Af)
                if cond is None or cond > 10 ** 8:
                    continue
                made += 1
                mreqs.append({"op": "decomp_dd", "n": n, "a": gen.flat_bits(A)}); minfo.append((n, fam, Af, cond))
    for rq, d, (n, fam, Af, cond) in zip(mreqs, run_harness(mreqs), minfo):
        ctx.case(["decomp_dd", rq["a"]], nontrivial=n >= 3); ctx.count("decomp_dd." + fam); ctx.count(f"decomp_dd.{d.get('status')}")
        if d.get("status") != "ok":
            ctx.violation(f"decompose_for_tropical with a double-double scalar returned {d.get('status')} for an SPD matrix (cond {float(cond):.1e})", rq, observed=d); continue
        if not SC.finite([d["det"], d["inv"], d["qt"], d["qti"]]):
            ctx.violation("decompose_for_tropical with a double-double scalar returned a non-finite value for an SPD matrix", rq, observed="non-finite"); continue
        tol = Fraction(1, 10 ** 26) * n * n * cond
        inv = [[ddf(d["inv"][i * n + j]) for j in range(n)] for i in range(n)]
        qt = [[ddf(d["qt"][i * n + j]) for j in range(n)] for i in range(n)]
        Ai = X.inverse(Af); dt = X.det(Af)
        errs = [("determinant", abs(ddf(d["det"]) - dt) / dt), ("inverse", X.max_abs(X.sub(inv, Ai)) / X.max_abs(Ai)),
                ("q_transposed^T q_transposed", X.max_abs(X.sub(X.matmul(X.transpose(qt), qt), Af)) / X.max_abs(Af))]
        for name, err in errs:
            ctx.extra["worst_dd_matrix_error_over_tolerance"] = max(ctx.extra.get("worst_dd_matrix_error_over_tolerance", 0.0), float(err / tol))
            if err > tol:
                ctx.violation(f"matrix routine with a double-double scalar ({fam}, n={n}, cond {float(cond):.1e}): {name} is accurate to {float(err):.2e} only "
                              f"(tolerance {float(tol):.2e}): precision of the user's type is lost", rq, expected=f"<= {float(tol):.2e}", observed=float(err)); break
