"""C19 — user precision is preserved: only the Gamma draw narrows to f64."""
from fractions import Fraction
from ..core import f2b, b2f, run_harness, run_driver
from .. import samples as S, sample_checks as SC, exact as X

MODULE = "Momtrop.Props.C19"
THEOREMS = ["Momtrop.C19.narrowing_only_in_draw", "Momtrop.C19.before_draw_independent"]
RULE = ("the real generic code instantiated with (i) a scalar that logs every to_f64 with the provenance of the narrowed value, debug off: "
        "exactly the three narrowings of the Gamma draw (shape, coordinate 2E-2, tolerance); (ii) a double-double scalar (+ - * / sqrt to "
        "~106 bits): u, L, inverse, u-vectors, v recomputed in exact rationals from the double-double Feynman parameters must agree far "
        "beyond f64 precision. Non-trivial: L>=2")
ASSUMPTIONS = ["a widened f64 value counts as 'of the table' if it is a table entry, dod, cached_factor, a setting, the Gamma variate, an exactly "
               "representable short number (multiple of 2^-12 below 2^28) or such a number plus a table constant",
               "double-double tolerance 1e-24 cond kappa relative (f64 shortcuts give >= 1e-17)"]


def _strip_comments(src):
    import re
    src = re.sub(r"//[^\n]*", lambda m: " " * len(m.group(0)), src)
    return re.sub(r"/\*.*?\*/", lambda m: " " * len(m.group(0)), src, flags=re.S)


def _enclosing(src, idx):
    """headers of the brace blocks enclosing position idx, innermost last (header = text between the previous ; { } and the {)"""
    stack = []
    for i, ch in enumerate(src[:idx]):
        if ch == "{":
            j = max(src.rfind(";", 0, i), src.rfind("{", 0, i), src.rfind("}", 0, i))
            stack.append(" ".join(src[j + 1:i].split()))
        elif ch == "}" and stack:
            stack.pop()
    return stack


def narrowing_sites():
    """source audit, structural: every `.to_f64()` call site outside float.rs is classified by WHERE it stands -
    'draw' (inside gamma.rs::inverse_gamma_lr, the wrapper of the Gamma quantile), 'debug' (inside a block guarded by
    `print_debug_info`), or 'other:<file>:<function>'. Renames and reformatting do not change the classification."""
    import os, re
    sites = []
    for root, _, files in os.walk("/repo/src"):
        for f in sorted(files):
            if not f.endswith(".rs") or f == "float.rs" or "verif" in root:
                continue
            src = _strip_comments(open(os.path.join(root, f), errors="replace").read())
            cut = src.find("#[cfg(test)]")
            body = src if cut < 0 else src[:cut]
            for m in re.finditer(r"\.to_f64\(\)", body):
                heads = _enclosing(body, m.start())
                fns = [re.search(r"\bfn\s+(\w+)", h).group(1) for h in heads if re.search(r"\bfn\s+\w+", h)]
                fn = fns[-1] if fns else "?"
                if any("print_debug_info" in h for h in heads):
                    sites.append("debug")
                elif f == "gamma.rs" and fn == "inverse_gamma_lr":
                    sites.append("draw")
                else:
                    sites.append(f"other:{f}:{fn}")
    return sites


from ..sample_checks import short_dyadic, foreign_widenings


def ddf(p):
    return Fraction(b2f(p[0])) + Fraction(b2f(p[1]))


def run(ctx):
    sites = narrowing_sites()
    ctx.extra["to_f64_call_sites"] = {k: sites.count(k) for k in sorted(set(sites))}
    foreign = sorted(set(x for x in sites if x.startswith("other:")))
    if foreign or sites.count("draw") != 3:
        # the model narrows exactly the three arguments of the draw (C19.narrowing_only_in_draw); anything else is outside it
        ctx.mismatch("source audit: `.to_f64()` call sites outside the Gamma draw wrapper and outside `print_debug_info` blocks "
                     "(or a draw wrapper that does not narrow exactly its three scalar arguments)",
                     None, {k: sites.count(k) for k in sorted(set(sites))}, {"draw": 3, "debug": "any"})
    ss = S.generate(ctx, 14 if ctx.quick else 100, 3 if ctx.quick else 6, max_e=6, max_loops=4, routings_per_graph=1,
                    kinds=("uniform", "tiny_xi", "corner"))
    for k, s in enumerate(ss):
        # every other sample runs with the matrix stability test on (a comparison made on the user's type, not a narrowing)
        s["req"] = S.sample_request(s["case"], s["routing"], s["table"], s["xs"], debug=False, meta=True, tol=(1e-6 if k % 2 else None))
    tr = run_harness([dict(s["req"], op="sample_track") for s in ss])
    dd = run_harness([dict(s["req"], op="sample_dd") for s in ss])
    for s, t, d in zip(ss, tr, dd):
        c, r = s["case"], s["routing"]
        n, D, nl = len(c["edges"]), c["D"], r["L"]
        req = S.small_req(s)
        ctx.case([s["req"]["x"], c["edges"], c["weights"], D, r["sig"]], nontrivial=nl >= 2,
                 sample={"graph": c["name"], "E": n, "D": D, "L": nl, "narrowings": t.get("narrowings")} if len(ctx.samples) < 3 else None)
        ctx.count(f"track.{t.get('status')}"); ctx.count(f"dd.{d.get('status')}"); ctx.count(f"L={nl}")
        if "error" in t or "error" in d:
            ctx.mismatch("user-scalar run", req, t, d, "machinery error"); continue
        if t.get("status") == "panic" or d.get("status") == "panic":
            ctx.violation("sample panicked with a user scalar type", req, observed=[t.get("msg"), d.get("msg")]); continue
        if t.get("status") == "ok":
            nar = [x["deps"] for x in t["narrowings"]]
            if nar != [[], [2 * n - 2], []] or t.get("perm_narrowings") != 0:
                ctx.violation(f"values of the user's scalar type are narrowed to f64 outside the Gamma draw: narrowings {nar} (+{t.get('perm_narrowings')} while computing the Feynman parameters); expected [[], [{2*n-2}], []]",
                              req, expected=[[], [2 * n - 2], []], observed=nar); continue
            bad = foreign_widenings(t, s)
            ctx.count("widened_values", len(t.get("widened_values", [])))
            if bad:
                ctx.violation(f"f64 constants that are neither table constants, settings, the Gamma variate nor exactly representable short numbers enter "
                              f"the computation through from_f64 (the user's precision is capped by them): {bad[:4]}", req, observed=bad); continue
            vals = [b2f(x["value"]) for x in t["narrowings"]]
            if vals[0] != b2f(s["built"]["dod"]) or vals[1] != s["xs"][2 * n - 2] or vals[2] != 5.0:
                ctx.violation("the three narrowed values are not (dod, coordinate 2E-2, tolerance 5)", req, observed=vals)
        if d.get("status") != "ok":
            continue
        if not SC.finite([d["x"], d["u"], d["v"], d["l"], d["inv"], d["uvec"]]):
            ctx.count("nonfinite_dd_skipped"); continue
        x = [ddf(p) for p in d["x"]]
        if any(t2 <= 0 for t2 in x):
            continue
        ex = SC.exact_quantities(s, x)
        if ex is None or ex["det"] <= 0 or ex["V"] <= 0:
            ctx.count("degenerate_skipped"); continue
        tol = Fraction(1, 10 ** 24) * nl * nl * ex["cond"]
        worst = Fraction(0)
        lm = [[ddf(d["l"][i * nl + j]) for j in range(nl)] for i in range(nl)]
        inv = [[ddf(d["inv"][i * nl + j]) for j in range(nl)] for i in range(nl)]
        checks = [("l_matrix", X.max_abs(X.sub(lm, ex["L"])) / X.max_abs(ex["L"]), Fraction(1, 10 ** 28) * len(x)),
                  # the determinant of an SPD matrix by Cholesky is accurate relative to the SCALED condition number
                  ("u", abs(ddf(d["u"]) - ex["det"]) / ex["det"], Fraction(1, 10 ** 24) * nl * nl * min(ex["cond"], ex["cond_s"])),
                  ("inverse", X.max_abs(X.sub(inv, ex["Linv"])) / X.max_abs(ex["Linv"]), tol),
                  ("v", abs(ddf(d["v"]) - ex["V"]) / ex["V"], tol * ex["kappa"])]
        uv = [[ddf(p) for p in row] for row in d["uvec"]]
        scale = max([abs(t3) for row in ex["u"] for t3 in row] + [Fraction(1, 10 ** 300)])
        checks.append(("u_vectors", max(abs(uv[l][i] - ex["u"][l][i]) for l in range(nl) for i in range(D)) / scale, Fraction(1, 10 ** 27) * len(x)))
        for name, err, tl in checks:
            worst = max(worst, err / tl)
            if err > tl:
                ctx.violation(f"with a double-double scalar {name} agrees with the exact value only to {float(err):.2e} (tolerance {float(tl):.2e}): precision of the user's type is lost",
                              req, expected=f"<= {float(tl):.2e}", observed=float(err)); break
        ctx.extra["worst_dd_error_over_tolerance"] = max(ctx.extra.get("worst_dd_error_over_tolerance", 0.0), float(worst))
