"""C18 — a serialised sampler restores to one that samples identically."""
from ..core import f2b, b2f, run_harness, run_driver
from .. import samples as S, sample_checks as SC, serde_schema

MODULE = "Momtrop.Props.C18G"
THEOREMS = ["Momtrop.C18G.dec_enc", "Momtrop.C18G.dec_enc_list", "Momtrop.C18G.dec_enc_fields", "Momtrop.C18G.generated_schema_ok", "Momtrop.C18G.roundtrip_generated", "Momtrop.C18G.observation_after_roundtrip", "Momtrop.C18G.default_inhabits"]
RULE = ("the serde schema is re-extracted from /repo/src on every run and checked by a kernel-checked theorem against the model; real round "
        "trips of samplers built through the public API (catalogue/random graphs, D=1..6 with D*L odd and even, signatures with negative "
        "entries and |entries|>=2, vacuum graphs without externals, disconnected graphs, tables with values beyond 2^63, 8-edge graphs) through serde_json (text), serde_json::Value, "
        "ciborium (binary, exact f64) and the harness's own value-tree format with structs as maps and as SEQUENCES, comparing getters, "
        "table, signature and 40 (quick) / 400 (thorough) samples bit for bit. Non-trivial: multi-loop sampler or negative signature entry"
        " Also: ragged signatures, a 16-loop rose, cached_factor = +inf, table values beyond 2^63, vacuum/disconnected/8-edge graphs.")
ASSUMPTIONS = ["serde derive semantics (struct = map of all fields in order) is the model; the real formats are exercised by the round trips"]
TRUSTED_EXTRA = ["translator /verif/mtv/serde_schema.py (regex extraction of struct fields and serde attributes from lib.rs, preprocessing.rs)"]


def prepare(ctx):
    structs, manual = serde_schema.regenerate()
    ctx.extra["schema"] = {k: [f["name"] + ": " + f["type"] for f in v["fields"]] for k, v in structs.items()}
    ctx.extra["serde_customisations"] = manual


def expected_keys(structs):
    def tree(ty):
        ty = ty.strip()
        if ty.startswith("Vec<"):
            return [tree(ty[4:-1])]
        if ty in structs:
            return {f["name"]: tree(f["type"]) for f in structs[ty]["fields"]}
        if ty == "bool":
            return "bool"
        return "number"
    return tree("SampleGenerator")


def same_tree(got, exp):
    """an empty serialised array carries no information about its element type"""
    if isinstance(got, list) and isinstance(exp, list):
        return got == [] or (len(got) == 1 and len(exp) == 1 and same_tree(got[0], exp[0]))
    if isinstance(got, dict) and isinstance(exp, dict):
        return set(got) == set(exp) and all(same_tree(got[k], exp[k]) for k in got)   # field ORDER is checked by schema_matches
    if got is None and exp == "number":
        return True      # serde_json::Value has no non-finite numbers: an infinite f64 appears as null in the KEY tree (not in the round trips)
    return got == exp


def run(ctx):
    rng = ctx.rng
    structs, manual = serde_schema.extract()
    ss = S.generate(ctx, 12 if ctx.quick else 80, 1, max_e=6, max_loops=3, routings_per_graph=1, kinds=("uniform",),
                    special=("vacuum", "disconnected", "huge_j") * (2 if ctx.quick else 8) + ("eight",) * (1 if ctx.quick else 4) + ("inf_factor",))
    reqs, infos = [], []
    npts = 40 if ctx.quick else 400
    for s in ss:
        c, r = s["case"], s["routing"]
        dim = s["built"]["numVars"]
        pts = [[f2b(x) for x in S.point(rng, dim, k)] for k in (["uniform"] * (npts - 4) + ["corner"] * 4)]
        import math
        nonfinite = not math.isfinite(b2f(s["built"]["cached"])) or any(not math.isfinite(b2f(e[2])) or not math.isfinite(b2f(e[3])) for e in s["table"]["entries"])
        for fmt in ("json", "json_value", "cbor", "wire_map", "wire_seq"):
            if nonfinite and fmt.startswith("json"):
                ctx.count("json_skipped(non-finite value: JSON does not preserve it)"); continue
            rq = dict(S.graphs.request(c), op="serde", sig=r["sig"], edge_data=s["req"]["edge_data"], points=pts, format=fmt, meta=True)
            reqs.append(rq); infos.append((s, fmt))
            if fmt in ("cbor", "wire_seq") and r["L"] >= 1 and len(reqs) % 7 == 3:
                # a ragged signature (later rows longer than the first): build_sampler accepts it and reads the first L columns only
                rag = [list(row) + ([rng.choice([-1, 0, 1])] * (1 if i else 0)) for i, row in enumerate(r["sig"])]
                reqs.append(dict(rq, sig=rag)); infos.append((s, fmt + "+ragged_signature"))
    # 16 loops (a rose of 16 massive self-loops, D = 1): loop numbers that do not fit into four bits
    rose = [(0, 0)] * 16
    rb = run_harness([dict(op="graph", D=1, edges=[[0, 0, f2b(0.75), True] for _ in rose], ext=[])])[0]
    if rb.get("status") == "ok":
        c16 = dict(edges=rose, weights=[0.75] * 16, massive=[True] * 16, ext=[], D=1, name="rose16", dod=None, loops=16)
        sig16 = [[1 if i == j else 0 for j in range(16)] for i in range(16)]
        ed16 = [[f2b(1.0 + 0.125 * i), [f2b(0.0)]] for i in range(16)]
        pts16 = [[f2b(x) for x in S.point(rng, rb["numVars"], "uniform")] for _ in range(3)]
        s16 = dict(case=c16, routing=dict(sig=sig16, L=16), built=rb, table=rb["table"], req=dict(edge_data=ed16))
        for fmt in ("cbor", "wire_seq"):
            reqs.append(dict(op="serde", D=1, edges=[[0, 0, f2b(0.75), True] for _ in rose], ext=[], sig=sig16, edge_data=ed16, points=pts16,
                             format=fmt, meta=True)); infos.append((s16, fmt))
    # a dimension far beyond one byte (D is an unbounded const generic): massive bubble in D = 260
    e260 = [[0, 1, f2b(70.0), True], [0, 1, f2b(70.25), True]]
    c260 = dict(edges=[(0, 1), (0, 1)], weights=[70.0, 70.25], massive=[True, True], ext=[0, 1], D=260, name="bubble_D260", dod=None, loops=1)
    sig260 = [[1], [1]]
    ed260 = [[f2b(1.0), [f2b(0.0)] * 260], [f2b(1.5), [f2b(0.25 * ((i % 5) - 2)) for i in range(260)]]]
    pts260 = [[f2b(rng.random()) for _ in range(263)] for _ in range(3)]
    s260 = dict(case=c260, routing=dict(sig=sig260, L=1), req=dict(edge_data=ed260))
    for fmt in ("cbor", "wire_seq", "json"):
        reqs.append(dict(op="serde", D=260, edges=e260, ext=[0, 1], sig=sig260, edge_data=ed260, points=pts260, format=fmt, meta=True)); infos.append((s260, fmt))
    res = run_harness(reqs)
    exp = expected_keys(structs)
    for rq, a, (s, fmt) in zip(reqs, res, infos):
        c, r = s["case"], s["routing"]
        neg = any(v < 0 for row in r["sig"] for v in row)
        ctx.case([rq["edges"], rq["sig"], rq["D"], fmt], nontrivial=(r["L"] >= 2 or neg),
                 sample={"graph": c["name"], "D": c["D"], "L": r["L"], "format": fmt, "bytes": a.get("bytes"), "sig": r["sig"]} if len(ctx.samples) < 3 else None)
        ctx.count(f"format.{fmt}"); ctx.count(f"status.{a.get('status')}"); ctx.count("family." + c["name"].split(":")[0]); ctx.count("DL_odd" if (c["D"] * r["L"]) % 2 else "DL_even")
        if neg:
            ctx.count("negative_signature_entry")
        small = dict(rq, points=f"<{len(rq['points'])} points>")
        if a.get("status") == "panic" or "error" in a:
            ctx.violation(f"serde round trip ({fmt}) failed: {a.get('msg', a.get('error', ''))[:200]}", small, observed=a); continue
        if a.get("status") != "ok":
            continue
        ctx.evaluations += a["points"]
        problems = []
        for k in ("dimension", "dod", "num_edges", "smallest_dod"):
            if a[k][0] != a[k][1]:
                problems.append(f"{k}: {a[k][0]} -> {a[k][1]}")
        for k in ("weights_equal", "table_equal", "signature_equal"):
            if not a[k]:
                problems.append(k + " is false")
        if a["sample_mismatches"]:
            problems.append(f"{len(a['sample_mismatches'])} of {a['points']} samples differ, first: {str(a['first_mismatch'])[:300]}")
        if problems:
            ctx.violation(f"restored sampler ({fmt}) differs from the original: " + "; ".join(problems), small, observed=problems)
        # correspondence between the regenerated schema and what the real serialisation contains
        if not same_tree(a.get("serialized_keys"), exp):
            ctx.mismatch("serialised field tree vs the schema extracted from the source (derive semantics: every field, by name)", small,
                         a.get("serialized_keys"), exp)
