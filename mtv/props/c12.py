"""C12 — Gamma quantile is positive and accurate; failures are errors, not values."""
import math
from ..core import f2b, b2f, run_harness, run_driver
from ..cmp import bits_close
from .. import samples as S, sample_checks as SC

MODULE = "Momtrop.Props.C12Mono"
THEOREMS = ["Momtrop.C12.wrapper_ok_pos_finite", "Momtrop.C12.wrapper_err_otherwise", "Momtrop.C12.wrapper_ok_is_impl", "Momtrop.C12.schroeder_exit", "Momtrop.C12.converged_residual", "Momtrop.C12.exit_total", "Momtrop.C12.monotone_up_to_tol", "Momtrop.C12.cdf_of_quantile_almost_monotone"]
RULE = ("(a,p) pairs: a on a grid over [0.05,100] plus every branch constant of the starting-value selection (0.3, 1 -+ 1e-8, 1, 500 is out of "
        "range) and a within 1e-8 of 1; p in {0, 2^-1074, 2^-54, 1-2^-53, 1-2^-52, uniform, p^8 tails near 0 and 1, values that put "
        "b = (1-p) Gamma(a) on 0.01/0.15/0.35/0.45/0.6, P(a,a) +- k 2.5e-7}; quick 1.2e4 pairs, thorough 3e5. Non-trivial: every pair; "
        "starting-value branch and exit tag histogram reported")
ASSUMPTIONS = ["oracle: mpmath regularised incomplete gamma at 30 digits; 'true quantile >= 1e-13' decided as p >= P(a,1e-13)"]

B_EDGES = [0.01, 0.15, 0.35, 0.45, 0.6, 1e-28]


def P_lower(a, x):
    from mpmath import mp, mpf, gammainc
    mp.dps = 30
    return gammainc(mpf(a), 0, mpf(x), regularized=True)


def pairs(ctx):
    rng = ctx.rng
    n = 12000 if ctx.quick else 300000
    A = [0.05, 0.1, 0.2, 0.29999, 0.3, 0.30001, 0.5, 0.75, 0.999, 1 - 1e-8, 1 - 0.99e-8, 1.0, 1 + 0.99e-8, 1 + 1e-8, 1 + 1.01e-8,
         1.001, 1.5, 2.0, 2.5, 3.0, 5.0, 10.0, 25.0, 50.0, 75.0, 99.9, 100.0,
         # around the a ~ 1 closed form: just outside the 1e-8 window the general branch must be taken
         1 - 2e-8, 1 + 2e-8, 1 - 5e-8, 1 + 5e-8, 1 - 8e-8, 1 + 8e-8, 1 - 1e-7, 1 + 1e-7, 1 - 3e-7, 1 + 1e-6, 1 - 1e-5, 1 + 1e-4, 1 - 1e-3, 1 + 5e-3, 1 - 1e-2,
         0.06, 0.07, 0.15, 0.4, 0.6, 0.9]
    out = []
    fixed_p = [0.0, 5e-324, 2.0 ** -54, 2.0 ** -53, 1e-300, 1e-200, 1e-170, 1e-100, 1e-60, 1e-30, 1e-17, 7e-17, 1e-20, 1e-9, 0.05, 0.125, 0.43, 0.5, 0.5 - 2.0 ** -54, 0.5 + 2.0 ** -53, 1 - 2.0 ** -53, 1 - 2.0 ** -52, 1 - 1e-9]
    for a in A:
        for p in fixed_p:
            out.append((a, p))
        g = math.gamma(a)
        for be in B_EDGES:
            q = be / g
            if 0 < q < 1:
                for d in (-1e-9, 0.0, 1e-9):
                    out.append((a, min(max(1 - q * (1 + d), 0.0), 1 - 2.0 ** -53)))
    while len(out) < n:
        c = rng.random()
        a = rng.choice(A) if c < 0.2 else (rng.uniform(0.05, 1.0) if c < 0.45 else (rng.uniform(1.0, 10.0) if c < 0.7 else rng.uniform(10.0, 100.0)))
        c = rng.random()
        if c < 0.4:
            p = rng.random()
        elif c < 0.6:
            p = rng.random() ** 8
        elif c < 0.8:
            p = 1 - rng.random() ** 8
        elif c < 0.9 and a >= 1:
            p = float(P_lower(a, a)) + rng.randint(-12, 12) * 2.5e-7
        else:
            p = 10 ** rng.uniform(-30, -1)
        p = min(max(p, 0.0), 1 - 2.0 ** -53)
        out.append((a, p))
    return out[:max(n, len(out))]


def run(ctx):
    try:
        from ..gamma_consts import compare
        nsrc, missing, extra = compare()
        ctx.extra["source_constants"] = nsrc
        if missing or extra:
            ctx.mismatch("source audit: float constants of inverse_gamma_lr_impl differ from the constants of the Lean model",
                         None, {"only_in_source": missing}, {"only_in_model": extra})
    except Exception as e:
        ctx.mismatch("source audit of gamma.rs constants failed", None, str(e), None)
    ps = pairs(ctx)
    # points that sit EXACTLY on the seams between the starting-value branches: b = (1-p) Gamma(a), formed as the code forms it
    # (q = 1 - p, b = q * statrs::gamma(a), both rounded), equal bit for bit to 0.45, 0.35, 0.15, 0.01, 0.6 (and one float off)
    seam_a = [0.05, 0.1, 0.2, 0.25, 0.29, 0.3, 0.31, 0.35, 0.4, 0.5, 0.6, 0.7, 0.75, 0.8, 0.9, 0.95, 0.999] + [ctx.rng.uniform(0.05, 0.999) for _ in range(30 if ctx.quick else 300)]
    gs = run_harness([{"op": "statrs", "fn": "gamma", "a": f2b(a)} for a in seam_a])
    nseam = 0
    for a, gres in zip(seam_a, gs):
        if "r" not in gres:
            continue
        g = b2f(gres["r"])
        for be in (0.45, 0.35, 0.15, 0.01, 0.6):
            q0 = be / g
            cands = [q0]
            for _ in range(6):
                cands = [math.nextafter(cands[0], 0.0)] + cands + [math.nextafter(cands[-1], 2.0)]
            for q in cands:
                if not 0 < q < 1:
                    continue
                pcand = 1.0 - q
                if (1.0 - pcand) * g == be and 0 < pcand < 1:
                    ps.append((a, pcand)); nseam += 1
                    ps.append((a, math.nextafter(pcand, 0.0))); ps.append((a, math.nextafter(pcand, 1.0)))
                    break
    ctx.count("exact_seam_points", nseam)
    reqs = [{"op": "gamma", "a": f2b(a), "p": f2b(p)} for a, p in ps]
    impl = run_harness(reqs); model = run_driver(reqs)
    worst = 0.0
    for r, a, m, (av, pv) in zip(reqs, impl, model, ps):
        ctx.case(r, nontrivial=True, sample={"a": av, "p": pv, "impl": a, "exit": m.get("exit")} if len(ctx.samples) < 5 else None)
        tag = (m.get("exit") or "?").split(":")[0]
        ctx.count(f"exit.{tag}"); ctx.count(f"status.{a.get('status')}")
        if tag == "converged":
            ctx.count("iterations<=%d" % (5 * (int(m["exit"].split(":")[1]) // 5 + 1)))
        if "error" in a or "error" in m:
            ctx.mismatch("invGammaLr model vs inverse_gamma_lr", r, a, m, "machinery error"); continue
        if a.get("status") != m.get("status") or (a.get("status") == "ok" and not bits_close(a["r"], m["r"], 4, rel=1e-12)):
            ctx.mismatch("invGammaLr model (incl. statrs port) vs inverse_gamma_lr", r, a, m, f"a={av!r} p={pv!r}")
        # ---- oracle
        if a.get("status") == "panic":
            ctx.violation(f"inverse_gamma_lr panicked for a={av!r}, p={pv!r}: {a.get('msg', '')[:100]}", r, observed=a); continue
        need_value = pv >= float(P_lower(av, 1e-13)) if pv > 0 else False
        if a.get("status") == "ok":
            lam = b2f(a["r"])
            if not (math.isfinite(lam) and lam > 0):
                ctx.violation(f"Ok({lam!r}) is not a finite positive value (a={av!r}, p={pv!r})", r, observed=lam); continue
            if need_value:
                res = abs(float(P_lower(av, lam)) - pv)
                worst = max(worst, res)
                if res > 2e-8:
                    ctx.violation(f"|P(a,lambda)-p| = {res:.3e} > 2e-8 for a={av!r}, p={pv!r}, lambda={lam!r} (exit {m.get('exit')})", r, expected="<= 2e-8", observed=res)
        elif need_value:
            ctx.violation(f"an error is returned although the true quantile is >= 1e-13 (a={av!r}, p={pv!r})", r, expected="a value", observed=a)
    ctx.extra["worst_residual"] = worst
    # lambda of a sample is this function of (dod, coordinate 2E-2)
    ss = S.generate(ctx, 8 if ctx.quick else 40, 3, max_e=5, max_loops=2, routings_per_graph=1, kinds=("uniform", "corner", "edge1"))
    # an exactly zero xi with edges still to remove (one-loop polygons stay non-singular: the sample succeeds): lambda is STILL the
    # quantile at coordinate 2E-2, however many of the preceding coordinates "no longer matter"
    ss += S.generate(ctx, 6 if ctx.quick else 30, 4, max_e=6, max_loops=1, routings_per_graph=1, kinds=("zero_xi",), names=["box", "pentagon", "triangle"],
                     mass_mode="all")
    # graphs whose degree of divergence is exactly 1 (within 1e-8 of 1: the near-one branch), 1/2 and 2
    from .. import graphs as G, oracle as O
    special = []
    for edges, w, massive, ext, D in (([(0, 1), (1, 2), (2, 0)], [1.0, 1.0, 1.0], [False] * 3, [0, 1, 2], 4),
                                      ([(0, 1), (0, 1)], [1.0, 1.0], [True, True], [0, 1], 2),
                                      ([(0, 1), (0, 1)], [1.25, 1.25], [True, True], [0, 1], 3),
                                      ([(0, 1), (1, 2), (2, 0)], [1.0 + 1e-9 / 3] * 3, [False] * 3, [0, 1, 2], 4),
                                      ([(0, 1), (0, 1)], [1.5, 1.5], [True, False], [0, 1], 2),
                                      # JUST OUTSIDE the near-one window of the inversion (1e-8 < |dod - 1| < 1e-6): the ordinary branch, with shape dod
                                      ([(0, 1), (1, 2), (2, 0)], [(2.5 + 4e-7) / 3] * 3, [False] * 3, [0, 1, 2], 3),
                                      ([(0, 1), (1, 2), (2, 0)], [(2.5 - 4e-7) / 3] * 3, [False] * 3, [0, 1, 2], 3),
                                      ([(0, 1), (0, 1)], [1.0 + 4.5e-8, 1.0], [True, True], [0, 1], 2),
                                      ([(0, 1), (0, 1)], [1.0 - 9e-7, 1.0], [True, True], [0, 1], 2),
                                      # small degrees of divergence: the iteration fails (GammaError) on whole windows of p
                                      ([(0, 1), (0, 1)], [0.78, 0.78], [True, True], [0, 1], 3),      # dod 0.06
                                      ([(0, 1), (0, 1)], [0.775, 0.775], [True, True], [0, 1], 3),    # dod 0.05
                                      ([(0, 1), (1, 2), (2, 0)], [0.53, 0.53, 0.53], [True] * 3, [0, 1, 2], 3)):   # dod 0.09
        dod, Lf, table = O.table_oracle(edges, w, massive, ext, D)
        special.append(dict(edges=edges, weights=w, massive=massive, ext=ext, D=D, table=table, dod=dod, loops=Lf, accepted=True, name="special_dod"))
    built = S.build_tables(special)
    for c, b in zip(special, built):
        if b.get("status") != "ok":
            continue
        routing = S.make_routing(ctx.rng, c, "fundamental")
        small_dod = float(c["dod"]) < 0.2
        near_one = abs(float(c["dod"]) - 1) < 1e-6
        for kind in ("uniform", "uniform", "corner", "edge1") + (("lambda_grid",) * 40 + ("lambda_tiny",) * 6 if small_dod else ()) + (("lambda_edge",) * 8 + ("lambda_grid",) * 12 if near_one else ()):
            xs = S.point(ctx.rng, b["numVars"], "uniform" if kind in ("lambda_grid", "lambda_edge", "lambda_tiny") else kind)
            if kind == "lambda_tiny":
                # quantiles in the SUBNORMAL range (dod ~ 0.05..0.09, coordinate ~1e-16): a positive finite lambda, used as it is
                xs[2 * len(c["edges"]) - 2] = ctx.rng.choice([2.0 ** -53, 2.0 ** -52, 3e-16, 1e-15, 2.0 ** -51])
            if kind == "lambda_edge":
                xs[2 * len(c["edges"]) - 2] = ctx.rng.choice([0.0, 5e-324, 2.0 ** -55, 1e-17, 2.0 ** -54, 2.0 ** -53, 1e-300])
            if kind == "lambda_grid":
                xs[2 * len(c["edges"]) - 2] = ctx.rng.choice([ctx.rng.random(), ctx.rng.random() ** 3, 0.125, 0.25, 0.0625, 1e-3, 9.25e-4, 0.5])
            ss.append(dict(case=c, routing=routing, table=b["table"], built=b, xs=xs, kind=kind, group=None,
                           req=S.sample_request(c, routing, b["table"], xs)))
    # a wider scalar type: a lambda coordinate below 1 in double-double that rounds to 1.0 in f64 is narrowed to 1.0 by the draw - no finite
    # quantile exists for it, so the sample must report GammaError (never carry an infinite or NaN lambda as a value)
    ddreq, ddinfo = [], []
    for s in ss:
        nE = len(s["case"]["edges"])
        if s.get("kind") in ("lambda_edge", "lambda_grid") or abs(float(s["case"]["dod"]) - 1) < 1e-6:
            for hi, lo in ((1.0, -2.0 ** -60), (1.0, -1e-30), (1 - 2.0 ** -53, 2.0 ** -56)):
                xs = list(s["xs"]); xs[2 * nE - 2] = hi
                xlo = [0.0] * len(xs); xlo[2 * nE - 2] = lo
                rq = dict(S.sample_request(s["case"], s["routing"], s["table"], xs, debug=False, meta=True), op="sample_dd", x_lo=[f2b(v) for v in xlo])
                rq.pop("api_graph", None)
                ddreq.append(rq); ddinfo.append((s, hi, lo))
            if len(ddreq) > (60 if ctx.quick else 400):
                break
    for rq, d, (s, hi, lo) in zip(ddreq, run_harness(ddreq), ddinfo):
        ctx.evaluations += 1; ctx.count(f"dd_lambda.{d.get('status')}")
        small = dict(S.small_req(s), lambda_coordinate=[hi, lo], scalar="double-double")
        if d.get("status") == "panic":
            ctx.violation("sample panicked with a double-double lambda coordinate next to 1", small, observed=d.get("msg")); continue
        if d.get("status") == "ok" and "lambda" in d:
            lam = b2f(d["lambda"][0])
            if not (math.isfinite(lam) and lam > 0):
                ctx.violation(f"double-double lambda coordinate {hi!r} + {lo!r}: the sample is returned with lambda = {lam!r} (not a finite positive value) instead of GammaError",
                              small, expected="GammaError or a finite lambda > 0", observed=lam)
        if hi == 1.0 and d.get("status") == "ok":
            ctx.violation(f"double-double lambda coordinate 1 - {-lo!r} (narrowed to 1.0 by the draw): a sample is returned although no finite quantile exists", small,
                          expected="gammaerr", observed=d.get("status"))
    S.run(ss)
    # the same points with print_debug_info on: the draw (value or GammaError) does not depend on the debug flag, and debugging code never panics
    dbg_reqs = [dict(s["req"], debug=not s["req"].get("debug", False)) for s in ss]
    for s, d in zip(ss, run_harness(dbg_reqs)):
        a = s["impl"]
        ctx.count("debug_flag_flipped")
        small = dict(S.small_req(s), print_debug_info=not s["req"].get("debug", False))
        if d.get("status") == "panic" and a.get("status") != "panic":
            ctx.violation(f"sample panics when print_debug_info is flipped ({s.get('kind')} point): {str(d.get('msg'))[:140]}", small, observed=d.get("msg")); continue
        la = (a.get("meta") or {}).get("lambda"); ld = (d.get("meta") or {}).get("lambda")
        if a.get("status") != d.get("status") or (a.get("meta") and d.get("meta") and la != ld):
            ctx.violation("status or lambda of the sample depends on print_debug_info", small, expected={"status": a.get("status"), "lambda": la},
                          observed={"status": d.get("status"), "lambda": ld})
    # the lambda a sample USES is the one it reports: model of the momentum formula on the implementation's own inputs (lambda from the metadata)
    SC.corr_momenta(ctx, [s for s in ss if s.get("kind") in ("lambda_tiny", "lambda_grid", "lambda_edge")])
    greqs = []
    for s in ss:
        n = len(s["case"]["edges"])
        greqs.append({"op": "gamma", "a": s["built"]["dod"], "p": f2b(s["xs"][2 * n - 2])})
    for s, g in zip(ss, run_harness(greqs)):
        a = s["impl"]
        ctx.evaluations += 1; ctx.count("sample_lambda")
        if a.get("status") == "ok" and a.get("meta"):
            if g.get("status") != "ok" or g["r"] != a["meta"]["lambda"]:
                ctx.violation("Metadata.lambda differs from inverse_gamma_lr(dod, coordinate 2E-2, 50, 5.0)", S.small_req(s), expected=g, observed=a["meta"]["lambda"])
        elif a.get("status") == "gammaerr" and g.get("status") != "err":
            ctx.violation("sample reports GammaError although inverse_gamma_lr(dod, coordinate 2E-2) succeeds", S.small_req(s), expected=g, observed=a.get("status"))
