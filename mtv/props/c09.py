"""C09 — returned V times U is the second Symanzik polynomial F; u, v, jacobian independent of the routing."""
from fractions import Fraction
from ..core import f2b, b2f
from .. import samples as S, sample_checks as SC, kin, exact as X

MODULE = "Momtrop.Props.C09"
THEOREMS = ["Momtrop.C09.complete_the_square", "Momtrop.C09.quad_nonneg", "Momtrop.C09.V_is_min", "Momtrop.C09.V_basis_invariant", "Momtrop.C09.V_orientation_invariant", "Momtrop.C09.V_offset_invariant", "Momtrop.C09.model_u", "Momtrop.C09.model_v"]
RULE = ("accepted connected graphs with 1..3 (quick) / 1..5 (thorough) loops, masses on random edge subsets, exactly conserved dyadic "
        "external momenta routed through a random spanning tree; each point is sampled under 3 routings of the same kinematics "
        "(fundamental basis; unimodular change of basis incl. entries >=2, edge re-orientations, loop-momentum offsets; sparse face "
        "bases for chain-like graphs). Non-trivial: L>=2, non-fundamental basis or flipped edge, >=1 massive edge or non-zero offsets")
ASSUMPTIONS = ["tolerance 100 L^2 eps cond_inf(L) kappa_V relative, both computed exactly from the implementation's Feynman parameters"]


def run(ctx):
    ss = S.generate(ctx, 12 if ctx.quick else 100, 3 if ctx.quick else 6, max_e=6 if ctx.quick else 8,
                    max_loops=3 if ctx.quick else 5, routings_per_graph=3, scales=(1, 1, 1, Fraction(1, 2 ** 33), 2 ** 30), decouple=0.3, special=("vacuum", "vacuum", "vacuum_massless"))
    ss += S.generate(ctx, 4 if ctx.quick else 25, 2, max_e=10, max_loops=4, routings_per_graph=3,
                     names=["banana4", "ladder3x", "mercedes", "banana5"])
    # seven loops (the matrix routine is specified for dimensions 1..8)
    ss += S.generate(ctx, 1 if ctx.quick else 4, 2, max_e=8, max_loops=7, routings_per_graph=2, names=["banana8"], kinds=("uniform",))
    # ... also with every propagator massive (the mass term dominates V: little cancellation, so that the seven-loop points are not
    # among the ill-conditioned ones that are skipped) while u^T L^-1 u still enters
    ss += S.generate(ctx, 2 if ctx.quick else 6, 4, max_e=8, max_loops=7, routings_per_graph=1, names=["banana8"], kinds=("uniform",),
                     mass_mode="all", ext_modes=["all"])
    # kinematics (momenta and masses) of order 1e+-110: V ~ 1e+-220 is still an ordinary f64, and F is homogeneous of degree two in them
    ss += S.generate(ctx, 6 if ctx.quick else 24, 2, max_e=5, max_loops=2, routings_per_graph=1, kinds=("uniform",), mass_mode="some",
                     scales=(Fraction(10) ** 110, Fraction(1, 10 ** 110), Fraction(10) ** 101))
    # signed permutations of the fundamental loops of 4- and 5-loop bananas: all off-diagonal entries of L are +-x_tree, and with one
    # (or three) reversed loops their SIGNED sum vanishes although none of them does
    ss += S.generate(ctx, 3 if ctx.quick else 12, 1, max_e=6, max_loops=5, routings_per_graph=6, names=["banana5", "banana5", "banana6"],
                     variant="permuted", kinds=("uniform",))
    # every third sample with the matrix stability test on (a generous tolerance: a result that passes it is the same result - whatever the
    # routine does after the test belongs to what is returned)
    for i, s_ in enumerate(ss):
        if i % 3 == 1:
            s_["req"] = S.sample_request(s_["case"], s_["routing"], s_["table"], s_["xs"], tol=1e-3)
    S.run(ss)
    SC.corr_uv(ctx, ss)
    SC.corr_matrix(ctx, ss)     # V is computed from the inverse the matrix routine returns: model decomposition on the implementation's L
    groups = {}
    for s in ss:
        a, c, r = s["impl"], s["case"], s["routing"]
        nl, D = r["L"], c["D"]
        ctx.case([s["req"]["sig"], s["req"]["x"], s["req"]["edge_data"], c["edges"], c["weights"]],
                 nontrivial=(nl >= 2 and r["nonfundamental"] and (any(c["massive"]) or r["has_offsets"])),
                 sample={"graph": c["name"], "edges": c["edges"], "D": D, "sig": r["sig"], "massive": c["massive"], "status": a.get("status")} if len(ctx.samples) < 4 and nl >= 2 else None)
        ctx.count(f"L={nl}"); ctx.count(f"status.{a.get('status')}"); ctx.count("massive" if any(c["massive"]) else "massless")
        ctx.count("offsets" if r["has_offsets"] else "no_offsets")
        if a.get("status") == "panic":
            ctx.violation("sample panicked", S.small_req(s), observed=a); continue
        if a.get("status") != "ok":
            continue
        xb = a["log"]["momtrop_feynman_parameter"]
        if not SC.finite(xb):
            ctx.count("nonfinite_parameters_skipped"); continue
        x = SC.fr_list(xb)
        ex = SC.exact_quantities(s, x)
        if ex is None or ex["det"] <= 0 or ex["V"] <= 0:
            ctx.count("degenerate_exact_skipped"); continue
        tol = SC.tol_cond(nl, ex["cond"], ex["kappa"])
        if tol > Fraction(1, 1000):
            ctx.count("cancellation_dominates(cond*kappa)_skipped"); continue
        if not SC.returned_finite(ctx, s, {"u": a["u"], "v": a["v"]}, {"u": ex["det"], "v": ex["V"]}):
            continue
        # u vectors: sum_e x_e s_el p_e
        um = [[Fraction(b2f(b)) for b in row] for row in a["meta"]["u"]]
        n = len(x)
        for l in range(nl):
            for i in range(D):
                scale = sum(abs(x[e] * r["sig"][e][l] * r["shifts"][e][i]) for e in range(n))
                if abs(um[l][i] - ex["u"][l][i]) > 4 * (n + 2) * SC.EPS * scale:
                    ctx.violation(f"Metadata.u_vectors[{l}][{i}] differs from sum_e x_e s_el p_e", S.small_req(s), expected=float(ex["u"][l][i]), observed=float(um[l][i]))
        sy = kin.symanzik(c["edges"], x, r["ext_mom"], r["masses"], D)
        u, v = Fraction(b2f(a["u"])), Fraction(b2f(a["v"]))
        if sy["F"] == 0:
            ctx.count("F_is_zero_skipped"); continue
        rel = abs(u * v - sy["F"]) / sy["F"]
        ctx.extra["worst_error_over_tolerance"] = max(ctx.extra.get("worst_error_over_tolerance", 0.0), float(rel / tol))
        if ex["kappa"] > 10 ** 8:
            ctx.count("kappa>1e8"); 
        if rel > tol:
            ctx.violation(f"v*u = {float(u*v)!r} differs from the second Symanzik polynomial F = {float(sy['F'])!r} (rel {float(rel):.2e} > tol {float(tol):.2e}; cond {float(ex['cond']):.1e}, kappa {float(ex['kappa']):.1e})",
                          S.small_req(s), expected=float(sy["F"]), observed=float(u * v)); continue
        if SC.finite([a["jac"]]):
            groups.setdefault(s["group"], []).append((s, u, v, Fraction(b2f(a["jac"])), tol))
        else:
            ctx.count("nonfinite_jacobian_not_in_routing_comparison")
    for g, lst in groups.items():
        s0, u0, v0, j0, t0 = lst[0]
        for s1, u1, v1, j1, t1 in lst[1:]:
            t = t0 + t1
            if t > Fraction(1, 10 ** 6):
                ctx.count("routing_pair_too_ill_conditioned_skipped"); continue
            ctx.count("routing_pairs_compared")
            dod = float(s0["case"]["dod"]); D = s0["case"]["D"]
            if abs(u0 - u1) > t * abs(u0) or abs(v0 - v1) > t * abs(v0) or abs(j0 - j1) > (D / 2 + dod + 2) * t * abs(j0) + Fraction(1, 10 ** 12) * abs(j0):
                ctx.violation(f"u, v or jacobian depend on the loop-momentum routing: ({float(u0)!r},{float(v0)!r},{float(j0)!r}) vs ({float(u1)!r},{float(v1)!r},{float(j1)!r})",
                              S.small_req(s1), expected=[float(u0), float(v0), float(j0)], observed=[float(u1), float(v1), float(j1)])
