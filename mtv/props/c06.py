"""C06 — edge selection inverts the tropical edge distribution and is total on [0,1)."""
import math
from fractions import Fraction
from ..core import f2b, b2f, run_harness, run_driver
from ..cmp import cmp_record
from .. import gen, oracle, graphs
from .. import samples as S, sample_checks as SC

MODULE = "Momtrop.Props.C06R"
THEOREMS = ["Momtrop.C06.scan_spec", "Momtrop.C06.sampleEdge_sound", "Momtrop.C06.sampleEdge_first", "Momtrop.C06.sampleEdge_total", "Momtrop.C06.scan_hit", "Momtrop.C06.sampleEdge_interval", "Momtrop.C06.interval_length", "Momtrop.C06.sampleEdge_total_real"]
RULE = ("tables of accepted catalogue/random graphs (E<=6 quick / 8 thorough) plus one-loop n-gons with k/20 weights (whose rounded "
        "cumulative sums often end below 1); every subgraph with >=2 edges (capped per table) x u in {random, every cumulative "
        "boundary c_k and c_k -+ 1ulp, 0, 2^-1074, 1-2^-53, 1-2^-52, exactly representable grid values}; through the hook and, for the "
        "full graph, through the public sampling API (removal order from the logged pre-rescaling parameters). Non-trivial: "
        ">=2 edges with >=2 distinct probabilities or a boundary/near-1 u")
ASSUMPTIONS = ["exact oracle decides the expected edge only when u is farther than 1e-9 from every exact cumulative boundary"]

CORPUS = [  # minimised past failures (run first)
    dict(edges=[(0, 1), (1, 2), (2, 0)], weights=[0.7262273917833723, 0.6769330030402742, 1.2700359983228364],
         massive=[False] * 3, ext=[0, 1, 2], D=3, name="corpus:triangle-u-near-1"),
    dict(edges=[(0, 1), (1, 2), (2, 3), (3, 4), (4, 0)], weights=[1.3, 0.75, 1.45, 0.75, 0.75], massive=[False] * 5,
         ext=[0, 1, 2, 3, 4], D=3, name="corpus:pentagon-4ulp-deficit"),
    dict(edges=[(0, 1), (0, 1)], weights=[1.0, 1.0], massive=[False] * 2, ext=[0, 1], D=3, name="corpus:bubble-exact-half"),
    dict(edges=[(0, 1), (1, 2), (2, 3), (3, 0)], weights=[1.0] * 4, massive=[False] * 4, ext=[0, 1, 2, 3], D=3, name="corpus:box-exact-quarters"),
    # probabilities that underflow to exactly +0.0 (u = 0 must still select the lowest edge of the subgraph)
    dict(edges=[(0, 1), (1, 2), (2, 0)], weights=[1e-305, 1e20, 1e20], massive=[True] * 3, ext=[0, 1, 2], D=3, name="corpus:zero-probability-first-edge"),
    dict(edges=[(0, 1), (1, 2), (2, 3), (3, 0)], weights=[1e15, 1e-150, 1e-150, 1e15], massive=[True] * 4, ext=[0, 1, 2, 3], D=3,
         name="corpus:zero-probability-middle-edges"),
    # J overflows to +inf: every probability is inf/inf = NaN or x/inf = 0 - still "for every u an edge is selected and no panic occurs"
    dict(edges=[(0, 1), (1, 2), (2, 3), (3, 0)], weights=[1e-200, 1e-200, 1.0, 1.0], massive=[True] * 4, ext=[0, 1, 2, 3], D=3,
         name="corpus:overflowing-J"),
    dict(edges=[(0, 1), (1, 2), (2, 0)], weights=[1e-160, 1e-160, 1.6], massive=[True] * 3, ext=[0, 1, 2], D=3, name="corpus:overflowing-J-triangle"),
]


def next_up(x):
    return math.nextafter(x, math.inf)


def next_down(x):
    return math.nextafter(x, -math.inf)


def exact_cums(entries, n, g):
    """exact rational running sums J(g\\e)/J(g)/omega(g\\e) from the implementation's own table values"""
    Jg = Fraction(b2f(entries[g][2]))
    out, c = [], Fraction(0)
    for e in range(n):
        if g >> e & 1:
            s = g ^ (1 << e)
            c += Fraction(b2f(entries[s][2])) / Jg / Fraction(b2f(entries[s][3]))
            out.append((e, c))
    return out


def float_cums(entries, n, g):
    Jg = b2f(entries[g][2])
    out, c = [], 0.0
    for e in range(n):
        if g >> e & 1:
            s = g ^ (1 << e)
            c += b2f(entries[s][2]) / Jg / b2f(entries[s][3])
            out.append(c)
    return out


def run(ctx):
    rng = ctx.rng
    cases = list(CORPUS)
    for _ in range(10 if ctx.quick else 80):
        k = rng.randint(3, 7 if ctx.quick else 8)
        edges = [(i, (i + 1) % k) for i in range(k)]
        w = [rng.randint(10, 40) / 20.0 for _ in range(k)]
        cases.append(dict(edges=edges, weights=w, massive=[False] * k, ext=list(range(k)), D=3, name="ngon"))
    cases += graphs.case_stream(rng, 25 if ctx.quick else 250, max_e=6 if ctx.quick else 8, accepted_fraction=1.0)
    reqs = [gen.graph_request(c["edges"], c["weights"], c["massive"], c["ext"], c["D"]) for c in cases]
    built = run_harness(reqs)
    ereqs, einfo = [], []
    for c, b in zip(cases, built):
        if b.get("status") != "ok":
            ctx.count("table.rejected"); continue
        n = len(c["edges"])
        t = b["table"]
        subs = [g for g in range(1, 1 << n) if bin(g).count("1") >= 2]
        rng.shuffle(subs)
        full = (1 << n) - 1
        chosen = ([full] if n >= 2 else []) + [g for g in subs if g != full][: (6 if ctx.quick else 30)]
        # failing-input search for the rounding-gap branch: every subgraph whose rounded running sums end below 1
        # (all of them are scanned; subgraphs that do not contain the highest edge of the graph first)
        gaps = [g for g in subs if g not in chosen and float_cums(t["entries"], n, g)[-1] < 1.0]
        gaps.sort(key=lambda g: (g >> (n - 1)) & 1)
        gaps = gaps[: (8 if ctx.quick else 40)]
        ctx.count("subgraphs.rounding_gap", len(gaps))
        for g in chosen + gaps:
            fc = float_cums(t["entries"], n, g)
            if g in gaps:
                us = [next_up(fc[-1]), 1 - 2 ** -53, (fc[-1] + 1) / 2]
                fc_b = []
            else:
                us = [rng.random() for _ in range(3)] + [0.0, 5e-324, 1 - 2 ** -53, 1 - 2 ** -52, 0.5, 0.25, 0.75]
                fc_b = fc
            for ck in fc_b:
                if 0 <= ck < 1:
                    us += [ck, next_up(ck), next_down(ck)]
                elif ck >= 1:
                    us += [next_down(1.0)]
            for u in us:
                if not (0 <= u < 1):
                    continue
                ereqs.append({"op": "edge", "table": t, "g": g, "u": f2b(u)})
                einfo.append((c, g, u, fc))
    impl = run_harness(ereqs)
    model = run_driver(ereqs)
    for r, a, m, (c, g, u, fc) in zip(ereqs, impl, model, einfo):
        n = len(c["edges"])
        boundary = any(abs(u - ck) <= 4e-16 for ck in fc) or u >= 1 - 2 ** -52
        probs = set(round(b - a0, 15) for a0, b in zip([0.0] + fc, fc))
        ctx.case([r["table"]["entries"], g, r["u"]], nontrivial=(len(probs) >= 2 or boundary),
                 sample={"graph": c["name"], "edges": c["edges"], "weights": c["weights"], "D": c["D"], "subgraph": g, "u": u, "impl": a} if boundary and len(ctx.samples) < 4 else None)
        ctx.count("u.boundary" if boundary else "u.bulk"); ctx.count(f"subgraph_edges={bin(g).count('1')}")
        small = dict(r, table="<table of %s>" % c["name"], graph={k: c[k] for k in ("edges", "weights", "massive", "ext", "D")})
        if "error" in a or "error" in m:
            ctx.mismatch("sampleEdge model vs sample_edge", small, a, m, "machinery error"); continue
        if a.get("status") != m.get("status") or a.get("edge") != m.get("edge") or a.get("rest") != m.get("rest"):
            ctx.mismatch("sampleEdge model vs sample_edge", small, a, m, f"{a} vs {m}")
        if a.get("status") == "panic":
            ctx.count("impl.panic")
            ctx.violation(f"sample_edge panicked for u={u!r} in [0,1): {a.get('msg', '')[:100]}", small, expected="an edge", observed=a)
            continue
        # exact oracle: first edge in index order whose exact running sum reaches u
        if any(not math.isfinite(b2f(en[2])) or not math.isfinite(b2f(en[3])) for en in r["table"]["entries"]):
            ctx.count("table_with_non_finite_J(exact oracle not applicable)"); continue
        ex = exact_cums(r["table"]["entries"], n, g)
        uu = Fraction(u)
        # (u EXACTLY on an exact boundary is a band case too: the code's running sum is a rounded one and may end one ulp below it;
        # what happens there bit for bit is fixed by the correspondence with the model, which mirrors the code's additions)
        if all(abs(uu - ck) > Fraction(1, 10 ** 9) for _, ck in ex):
            exp = next((e for e, ck in ex if ck >= uu), ex[-1][0])
            if a.get("edge") != exp or a.get("rest") != g ^ (1 << exp):
                ctx.violation(f"edge {a.get('edge')} selected, the exact cumulative distribution gives edge {exp}", small, expected=exp, observed=a)
        else:
            # inside the band: every edge whose probability interval [c_{k-1}, c_k] comes within 1e-9 of u is admissible
            band = Fraction(1, 10 ** 9)
            allowed, prev = set(), Fraction(0)
            for e, ck in ex:
                if prev - band <= uu <= ck + band:
                    allowed.add(e)
                prev = ck
            if uu > ex[-1][1] - band:
                allowed.add(ex[-1][0])
            if a.get("edge") not in allowed:
                ctx.violation(f"edge {a.get('edge')} selected for u on a boundary; admissible edges are {sorted(allowed)}", small, observed=a)

    # ---- through the public sampling API: the whole removal sequence (model of the loop on the implementation's table vs the logged
    # pre-rescaling parameters), points of exactly get_dimension() coordinates; includes graphs that consist of ONE edge
    # ("a single remaining edge is removed without consuming a number")
    ss = S.generate(ctx, 8 if ctx.quick else 60, 3, max_e=5, max_loops=3, routings_per_graph=1, kinds=("uniform", "edge1", "corner"),
                    special=("single_edge", "single_edge", "vacuum", "vacuum") + ("unit_j",) * (6 if ctx.quick else 30))
    S.run(ss)
    # the LAST choice (two edges left) exactly on, and one float next to, the rounded cumulative boundary of that two-edge subgraph: decided by
    # the same table-driven scan as every other choice (a closed form for two edges rounds differently)
    extra = []
    for s in list(ss):
        a, c = s["impl"], s["case"]
        n = len(c["edges"])
        xpre = (a.get("log") or {}).get("momtrop_feynman_parameter_no_rescaling")
        if a.get("status") != "ok" or n < 3 or not xpre or not SC.finite(xpre):
            continue
        xp = [b2f(b) for b in xpre]
        if len(set(xp)) < n:
            continue
        order = sorted(range(n), key=lambda e: -xp[e])
        g2 = (1 << order[-1]) | (1 << order[-2])
        ent = s["table"]["entries"]
        if any(not math.isfinite(b2f(en[2])) or not math.isfinite(b2f(en[3])) for en in ent):
            continue
        fc0 = float_cums(ent, n, g2)[0]
        for u in (fc0, next_up(fc0), next_down(fc0)):
            if 0 <= u < 1:
                xs = list(s["xs"]); xs[2 * (n - 2)] = u
                extra.append(dict(s, xs=xs, kind="last_choice_on_boundary", req=S.sample_request(c, s["routing"], s["table"], xs)))
    # every edge-choice coordinate exactly 0 (a generator of [0,1) delivers it): the first edge of each remaining graph is removed - the base
    # point of each of these was sampled successfully and differs in nothing else
    for s in [s for s in ss if s["impl"].get("status") == "ok" and len(s["case"]["edges"]) >= 2 and s.get("kind") == "uniform"][: (10 if ctx.quick else 60)]:
        n = len(s["case"]["edges"])
        xs = list(s["xs"])
        for k in range(n - 1):
            xs[2 * k] = 0.0
        extra.append(dict(s, xs=xs, kind="zero_choice", req=S.sample_request(s["case"], s["routing"], s["table"], xs)))
    S.run(extra)
    # a WIDER scalar type (double-double) with the first edge-choice coordinate 1e-22 below / above an exact cumulative boundary: the scan
    # compares running sums of J(g\e)/J(g)/omega(g\e) formed in the user's type from the TABLE's numbers, so exact rational arithmetic on the
    # table decides which edge goes first (a normaliser recomputed in the user's type moves every boundary by ~1e-16)
    dreqs, dinfo = [], []
    for s in [s for s in ss if s["impl"].get("status") == "ok" and len(s["case"]["edges"]) >= 2][: (12 if ctx.quick else 80)]:
        c = s["case"]; n = len(c["edges"]); ent = s["table"]["entries"]
        if any(not math.isfinite(b2f(en[2])) or not math.isfinite(b2f(en[3])) or b2f(en[2]) == 0 for en in ent):
            continue
        ex = exact_cums(ent, n, (1 << n) - 1)
        kk = rng.randrange(len(ex) - 1)
        ck = ex[kk][1]
        if not (Fraction(1, 1000) < ck < Fraction(999, 1000)):
            continue
        hi = float(ck); lo = float(ck - Fraction(hi))
        for sign, exp_edge in ((-1, ex[kk][0]), (+1, ex[kk + 1][0])):
            xs = list(s["xs"]); xs[0] = hi
            xlo = [0.0] * len(xs); xlo[0] = lo + sign * 1e-22 * hi
            rq = dict(S.sample_request(c, s["routing"], s["table"], xs, debug=False, meta=False), op="sample_dd", x_lo=[f2b(v) for v in xlo])
            rq.pop("api_graph", None)
            dreqs.append(rq); dinfo.append((s, exp_edge, sign, hi, xlo[0]))
    for rq, d, (s, exp_edge, sign, hi, lo) in zip(dreqs, run_harness(dreqs), dinfo):
        ctx.case(["dd_boundary", rq["x"][0], rq["x_lo"][0], s["case"]["edges"]], nontrivial=True); ctx.count("dd_boundary_probe")
        small = dict(S.small_req(s), x0=[hi, lo], scalar="double-double")
        if d.get("status") == "panic":
            ctx.violation("sample panicked with a double-double point on an edge-choice boundary", small, observed=d.get("msg")); continue
        if "x" not in d or not SC.finite(d["x"]):
            continue
        xd = [Fraction(b2f(p[0])) + Fraction(b2f(p[1])) for p in d["x"]]
        first = max(range(len(xd)), key=lambda e: xd[e])
        if sorted(xd)[-1] == sorted(xd)[-2]:
            continue
        if first != exp_edge:
            ctx.violation(f"double-double coordinate {hi!r} + {lo!r} ({'below' if sign < 0 else 'above'} the exact boundary by 1e-22): edge {first} removed first, the running sums "
                          f"of the table's J(g\\e)/J(g)/omega(g\\e) (exact arithmetic) give edge {exp_edge}", small, expected=exp_edge, observed=first)
    ss += extra
    SC.corr_perm(ctx, ss)
    SC.generic_scalar_guard(ctx, ss[:: 2], k=8)
    # the Monte Carlo entry point hands the drawn numbers - an exact 0.0 at an edge-choice position included - to the same scan
    SC.rng_entry_agreement(ctx, ss[:: 3], k=8)
    for s in ss:
        a, c = s["impl"], s["case"]
        ctx.case(["api", s["req"]["x"], c["edges"], c["weights"], c["D"]], nontrivial=len(c["edges"]) >= 2 or True)
        ctx.count(f"api.E={len(c['edges'])}"); ctx.count(f"api.status.{a.get('status')}")
        if a.get("status") == "panic":
            ctx.violation(f"sample panicked on a point of exactly get_dimension() = {len(s['xs'])} coordinates: {a.get('msg', '')[:120]}",
                          S.small_req(s), observed=a); continue
        # (another removal order is another point of the integrand: a numerical verdict of the matrix step - ZeroDet / Unstable - may differ;
        # what must not happen is that the coordinate value 0 itself is refused)
        if s.get("kind") == "zero_choice" and a.get("status") not in ("ok", "zerodet", "unstable"):
            ctx.violation(f"edge-choice coordinates exactly 0 are legal uniform numbers (the first edge is selected): sample returns {a.get('status')} "
                          f"where the same point with other edge-choice coordinates succeeds", S.small_req(s), expected="ok", observed=a.get("status")); continue
        # exact oracle for the whole removal sequence: coordinate 2k selects the (k+1)-th edge by the exact cumulative distribution of the
        # graph that is left (the last edge needs no coordinate); observed order = decreasing pre-rescaling parameters
        n = len(c["edges"])
        xpre = (a.get("log") or {}).get("momtrop_feynman_parameter_no_rescaling")
        ent = s["table"]["entries"]
        if a.get("status") != "ok" or not xpre or n < 2 or not SC.finite(xpre) or any(not math.isfinite(b2f(en[2])) or not math.isfinite(b2f(en[3])) for en in ent):
            continue
        xp = [b2f(b) for b in xpre]
        if len(set(xp)) < n or min(xp) <= 0:
            ctx.count("api.ties_or_zero_parameters_skipped"); continue
        observed = sorted(range(n), key=lambda e: -xp[e])
        g, expected, clear = (1 << n) - 1, [], True
        for k in range(n - 1):
            uu = Fraction(s["xs"][2 * k])
            ex = exact_cums(ent, n, g)
            if any(abs(uu - ck) <= Fraction(1, 10 ** 9) for _, ck in ex):
                clear = False; break
            e = next((e for e, ck in ex if ck >= uu), ex[-1][0])
            expected.append(e); g ^= 1 << e
        if not clear:
            ctx.count("api.boundary_skipped"); continue
        expected.append(next(e for e in range(n) if g >> e & 1))
        ctx.count("api.removal_sequence_checked")
        if observed != expected:
            ctx.violation(f"removal order {observed} (from the logged parameters); the edge-choice coordinates {[s['xs'][2 * k] for k in range(n - 1)]} select {expected} "
                          f"by the exact cumulative distributions", S.small_req(s), expected=expected, observed=observed)

