"""C05 — build_sampler rejects exactly the graphs with a divergent proper subgraph; deterministic; no panic."""
import math
from fractions import Fraction
from ..core import f2b, b2f, run_harness, run_driver
from ..cmp import cmp_record, bits_close
from .. import gen, oracle, graphs

MODULE = "Momtrop.Props.C05R"
THEOREMS = ["Momtrop.C05.isBad_iff", "Momtrop.C05.build_err_iff", "Momtrop.C05.build_err_first", "Momtrop.C05.build_ok", "Momtrop.C05.build_deterministic", "Momtrop.C05.J_pos", "Momtrop.C05.table_j_pos", "Momtrop.C05.sector_probs_sum_one"]
RULE = ("catalogue + random multigraphs (E<=6 quick / 8 thorough), D=1..6, weights steered to ~50% accepted, plus "
        "near-threshold variants with one subset's exact omega at +-{1e-15,1e-12,1e-6,1e-3}; every graph is built twice in "
        "one process (interleaved with other graphs) and once in a second process; non-trivial as in C03; "
        "distinct = canonical request")
ASSUMPTIONS = ["iff decided only when every proper subset's exact omega is farther than 1e-9 from 0 (as the property states)"]


def big_graph_probe(ctx):
    """documented limit MAX_EDGES=64: parallel edges between two vertices (component search converges in two rounds)"""
    for n in (64, 63):
        r = {"op": "graph", "D": 1, "edges": [[0, 1, f2b(1.0), True] for _ in range(n)], "ext": [0, 1]}
        a = run_harness([r], timeout=300)[0]
        ctx.count(f"maxedges.E={n}.{a.get('status', 'died')}")
        if a.get("status") == "panic" or "error" in a:
            ctx.violation(f"build panics for a graph with {n} edges (documented limit MAX_EDGES = 64): {a.get('msg', a.get('error', ''))[:120]}",
                          r, expected="Ok or Err", observed={k: a[k] for k in a if k in ("status", "msg", "error")},
                          key="C05-panic-table-allocation-E63-64")


def run(ctx):
    rng = ctx.rng
    cases = graphs.case_stream(rng, 70 if ctx.quick else 600, max_e=6 if ctx.quick else 8, accepted_fraction=0.5)
    # vertex labels that differ by exactly a power of two (8..128), in every run
    for nm, edges in gen.collision_labelled(rng):
        for _ in range(2):
            c2 = graphs.make_case(rng, edges, rng.randint(1, 6), want=rng.random() < 0.5)
            if c2 is not None:
                c2 = dict(c2); c2["name"] = nm; cases.append(c2)
    tuned = []
    for c in cases[: (40 if ctx.quick else 300)]:
        for delta in (2.0 ** -60, 1e-17, 1e-15, -1e-15, 1e-12, -1e-12, 1e-6, -1e-6, 1e-3, -1e-3):
            if rng.random() < (0.35 if ctx.quick else 0.6):
                t = graphs.near_threshold(rng, c, delta)
                if t is not None:
                    t["name"] = c["name"] + "+tuned"; tuned.append(t)
    cases += tuned
    # rejected graphs whose divergent subsets are all of one structural kind (disconnected / forests / spanning / single)
    cases += graphs.structured_rejections(rng, 4 if ctx.quick else 25)
    # box / pentagon with two adjacent externals and the massive edge opposite: the divergent subset is disconnected
    for k in (4, 5):
        for D in (3, 4):
            edges = [(i, (i + 1) % k) for i in range(k)]
            massive = [i == 2 for i in range(k)]
            w = [1.0] * k
            dod, Lf, table = oracle.table_oracle(edges, w, massive, [0, 1], D)
            cases.append(dict(edges=edges, weights=w, massive=massive, ext=[0, 1], D=D, table=table, dod=dod, loops=Lf,
                              accepted=not oracle.divergent_subsets(table), name="cycle_massive_opposite"))
    # one huge propagator power next to a small but clearly positive omega elsewhere (a tolerance relative to the weight SUM would
    # reject a convergent graph); thresholds +-5e-9, +-1e-7
    for heavy in (60.0, 150.0, 1000.0, 1e6):
        for delta in (5e-9, -5e-9, 1e-7, -1e-7):
            for edges, ext in (([(0, 1), (1, 2), (2, 0)], [0, 1, 2]), ([(0, 1), (1, 2), (2, 3), (3, 0)], [0, 1, 2, 3])):
                n = len(edges)
                w = [heavy] + [1.0] * (n - 2) + [1.5 - (n - 2) * 1.0 + (n - 3) * 1.0 + delta if n == 3 else 1.0]
                if n == 3:
                    w = [heavy, 1.0, 0.5 + delta]          # subset {e1,e2}: omega = 1.5 + delta - ... (D=3: -1.5 only with a loop)
                massive = [True] + [False] * (n - 1)
                base = dict(edges=edges, weights=w, massive=massive, ext=ext, D=3)
                dod, Lf, table = oracle.table_oracle(edges, w, massive, ext, 3)
                base.update(table=table, dod=dod, loops=Lf, accepted=not oracle.divergent_subsets(table), name="heavy_weight")
                # several tuned variants per (weight, threshold): which subset is tuned is random, and only some choices give a graph whose
                # ONLY near-threshold subset is the tuned one (a deterministic presence in every run instead of one lucky draw)
                ts = [graphs.near_threshold(rng, base, delta) for _ in range(6)]
                for cc in [base] + ts:
                    if cc is not None:
                        cc = dict(cc); cc["name"] = "heavy_weight"; cases.append(cc)
    # ... and directly: a polygon whose massive edge is heavy and whose last edge has the power D/2 - delta, so that the spanning subgraph
    # "everything but the last edge" has omega = +delta exactly (weight sum ~ heavy, omega 2e-9 .. 1e-7: convergent), or -delta (divergent)
    for heavy in (60.0, 150.0, 1000.0, 1e6):
        for delta in (5e-9, 2e-9, 1e-7, -5e-9, -1e-7):
            for k in (3, 4):
                edges = [(i, (i + 1) % k) for i in range(k)]
                w = [heavy] + [1.0] * (k - 2) + [1.5 - delta]
                massive = [True] + [False] * (k - 1)
                dod, Lf, table = oracle.table_oracle(edges, w, massive, list(range(k)), 3)
                cases.append(dict(edges=edges, weights=w, massive=massive, ext=list(range(k)), D=3, table=table, dod=dod, loops=Lf,
                                  accepted=not oracle.divergent_subsets(table), name="heavy_weight_small_omega"))
    # exactly ONE external vertex: subsets that avoid it are not momentum spanning (their omega must not have the whole graph's dod
    # subtracted). Accepted graphs in which such a subset has 0 < omega <= dod (rejection sampling), plus rejected ones
    made = 0
    for _ in range(4000):
        if made >= (12 if ctx.quick else 60):
            break
        name = rng.choice(["triangle", "box", "sunrise", "bubble_leg", "double_triangle", "kite", "bubble_chain"])
        edges, mp, _ = gen.relabel(rng, list(gen.CATALOGUE[name]))
        n = len(edges)
        D = rng.choice([2, 3, 4, 6])
        massive = [False] * n if rng.random() < 0.7 else [rng.random() < 0.3 for _ in range(n)]
        ext = [rng.choice(list(mp))]
        w = [rng.choice([0.5, 0.7, 0.9, 1.1, 1.3, 1.6, 2.0, 2.5]) for _ in range(n)]
        dod, Lf, table = oracle.table_oracle(edges, w, massive, ext, D)
        if dod <= 0 or oracle.divergent_subsets(table):
            continue
        if not any(table[m][2] <= dod and not any(ext[0] in edges[e] for e in range(n) if m >> e & 1)
                   and all(m >> e & 1 for e in range(n) if massive[e]) for m in range(1, (1 << n) - 1)):
            continue
        made += 1
        cases.append(dict(edges=edges, weights=w, massive=massive, ext=ext, D=D, table=table, dod=dod, loops=Lf, accepted=True, name="single_external"))
    # a chain of nine propagators between the two externals with one of them doubled: whether the graph is accepted is decided by subgraphs
    # that contain the whole chain (10 edges, 1024 subsets)
    for wpar in (2.0, 1.0, 1.5, 0.75):
        for pos in (4, 0, 8):
            edges = [(i, i + 1) for i in range(9)] + [(pos, pos + 1)]
            w = [1.0] * 9 + [wpar]
            dod, Lf, table = oracle.table_oracle(edges, w, [False] * 10, [0, 9], 3)
            cases.append(dict(edges=edges, weights=w, massive=[False] * 10, ext=[0, 9], D=3, table=table, dod=dod, loops=Lf,
                              accepted=not oracle.divergent_subsets(table), name="long_chain"))
    # disconnected graphs (loops = E - V + components): accepted ones whose spanning subgraphs would be divergent with one loop fewer, in
    # every run
    from .. import samples as S_
    got = 0
    for _ in range(80):
        if got >= (6 if ctx.quick else 24):
            break
        cc = S_.make_special_case(rng, "disconnected")
        if cc is None:
            continue
        # discriminating: with the loop number of a connected graph (1 + E - V) the overall dod grows by D/2 per extra component and some spanning
        # subset drops to omega <= 0
        nE = len(cc["edges"])
        extra = Fraction(cc["D"], 2)
        if any(t[1] and 0 < t[2] <= extra for t in cc["table"][1:(1 << nE) - 1]):
            cases.append(dict(cc, name="disconnected")); got += 1
    ctx.count("disconnected_cases", got)
    # polygons with 6 and 8 edges, pairwise different non-dyadic weights: subsets with three and four components (a table that depends on the
    # order in which components are found differs between two builds: the determinism pass below builds everything twice)
    for k in range(2 if ctx.quick else 6):
        for m in (6, 8):
            edges = [(i, (i + 1) % m) for i in range(m)]
            w = [0.31 + 0.1 * i + 0.013 * k + 0.0007 * i * i for i in range(m)]
            massive = [i % 2 == 0 for i in range(m)]
            dod, Lf, table = oracle.table_oracle(edges, w, massive, list(range(m)), 3)
            cases.append(dict(edges=edges, weights=w, massive=massive, ext=list(range(m)), D=3, table=table, dod=dod, loops=Lf,
                              accepted=not oracle.divergent_subsets(table), name="polygon_many_components"))
    # the same endpoints, weights and externals under another mass pattern (history inside one process)
    for c in list(cases[: (25 if ctx.quick else 200)]):
        c2 = graphs.remass(rng, c)
        if c2 is not None:
            c2 = dict(c2); c2["name"] = c["name"] + "+remass"; cases.append(c2)
    reqs = [graphs.request(c) for c in cases]
    # determinism: second copy of every request, shuffled, in the same process
    order = list(range(len(reqs))); rng.shuffle(order)
    impl_all = run_harness(reqs + [reqs[i] for i in order])
    impl = impl_all[: len(reqs)]
    again = {i: impl_all[len(reqs) + k] for k, i in enumerate(order)}
    other = run_harness(reqs[::3])           # a fresh process (different hash seeds)
    model = run_driver([dict(r, gammas=a.get("gammas", [])) for r, a in zip(reqs, impl)])
    nacc = 0
    for i, (c, r, a, m) in enumerate(zip(cases, reqs, impl, model)):
        n = len(c["edges"])
        band = min((abs(c["table"][mk][2]) for mk in range(1, (1 << n) - 1)), default=Fraction(1))
        ctx.case(r, nontrivial=graphs.nontrivial_graph(c),
                 sample={"edges": c["edges"], "weights": c["weights"], "massive": c["massive"], "ext": c["ext"], "D": c["D"],
                         "exact_accepted": c["accepted"], "impl": a.get("status")} if i % 40 == 0 else None)
        ctx.count(f"impl.{a.get('status')}"); ctx.count(f"exact.{'accepted' if c['accepted'] else 'rejected'}")
        if not c["accepted"]:
            ctx.count("rejection." + graphs.classify_rejection(c))
        if "tuned" in c:
            ctx.count("near_threshold")
        # correspondence: Ok/Err
        if "error" in a or "error" in m:
            ctx.mismatch("buildTable model vs build", r, a, m, "machinery error"); continue
        if a.get("status") != m.get("status"):
            ctx.mismatch("buildTable model vs generate_from_tropical (Ok/Err)", r, {"status": a.get("status"), "msg": a.get("msg")}, m,
                         f"status {a.get('status')} vs {m.get('status')}")
        # oracle
        if a.get("status") == "panic":
            ctx.violation("build panicked", r, observed=a); continue
        if band > Fraction(1, 10 ** 9):
            exp = "ok" if c["accepted"] else "err"
            if a.get("status") != exp:
                bad = oracle.divergent_subsets(c["table"])
                ctx.violation(f"build returned {a.get('status')} but the exact oracle says {exp} (divergent proper subsets: {bad[:4]})", r,
                              expected=exp, observed=a.get("status"))
                continue
        else:
            ctx.count("inside_1e-9_band")
        if a.get("status") == "ok":
            nacc += 1
            js = [b2f(e[2]) for e in a["entries"]]
            if not all(math.isfinite(x) and x > 0 for x in js):
                ctx.violation("accepted graph with a non-finite or non-positive J value", r, observed=[x for x in js if not (math.isfinite(x) and x > 0)][:5])
        # determinism
        for what, b in (("same process", again[i]), ("fresh process", other[i // 3] if i % 3 == 0 else None)):
            if b is None:
                continue
            if b.get("status") != a.get("status") or b.get("entries") != a.get("entries") or b.get("cached") != a.get("cached") or b.get("dod") != a.get("dod"):
                ctx.violation(f"building the same graph twice ({what}) gave different results", r,
                              expected={k: a.get(k) for k in ("status", "dod", "cached")}, observed={k: b.get(k) for k in ("status", "dod", "cached")})
    # ---- the PUBLIC path: Graph::build_sampler decides exactly as the preprocessing it wraps does (same Ok/Err, same table), whatever
    # it does with the graph before (externals untouched by edges, repeated externals, any signature shape)
    pick = [i for i, c in enumerate(cases) if any(v not in set(x for e in c["edges"] for x in e) for v in c["ext"])][: (30 if ctx.quick else 200)]
    pick += [i for i in range(len(cases)) if i not in pick][: (40 if ctx.quick else 300)]
    breqs = [dict(reqs[i], op="build", sig=rng.choice([[], [[1]] * len(cases[i]["edges"]), [[0, 1]] * len(cases[i]["edges"])])) for i in pick]
    for i, r, b in zip(pick, breqs, run_harness(breqs)):
        a, c = impl[i], cases[i]
        ctx.case(["public", r["edges"], r["ext"], r["D"], r["sig"]], nontrivial=graphs.nontrivial_graph(c)); ctx.count(f"public_path.{b.get('status')}")
        if b.get("status") == "panic":
            ctx.violation("Graph::build_sampler panicked", r, observed=b); continue
        if a.get("status") not in ("ok", "err"):
            continue
        if b.get("status") != a.get("status"):
            n = len(c["edges"])
            band = min((abs(c["table"][mk][2]) for mk in range(1, (1 << n) - 1)), default=Fraction(1))
            exp = ("ok" if c["accepted"] else "err") if band > Fraction(1, 10 ** 9) else a.get("status")
            ctx.violation(f"Graph::build_sampler returned {b.get('status')}, generate_from_tropical on the same graph {a.get('status')} "
                          f"(exact oracle: {exp})", r, expected=exp, observed=b.get("status"))
        elif b.get("status") == "ok" and b.get("table") != a.get("table"):
            ctx.violation("the table of the sampler returned by Graph::build_sampler differs from generate_from_tropical on the same graph", r,
                          observed="tables differ")
    ctx.extra["accepted_fraction_impl"] = nacc / max(1, len(cases))
    big_graph_probe(ctx)
