"""C11 — jacobian = normalisation x U^(-D/2) x V^(-dod) in the rescaled gauge, invariant under the internal rescaling."""
from fractions import Fraction
import math
from ..core import f2b, b2f
from .. import samples as S, sample_checks as SC, kin, exact as X, oracle

MODULE = "Momtrop.Props.C11H"
THEOREMS = ["Momtrop.C11.jacobian_def", "Momtrop.C11.jacobian_rescaled_gauge", "Momtrop.C11.gauge_invariant", "Momtrop.C11.lMat_smul", "Momtrop.C11.det_lMat_smul", "Momtrop.C11.uVec_smul", "Momtrop.C11.Vabs_smul", "Momtrop.C11.lMat_smul_inv"]
RULE = ("accepted connected graphs with 1..3 (quick) / 1..4 (thorough) loops, D=1..6 (odd and even), integer and non-integer weights, "
        "uniform/corner points; the jacobian is recomputed (i) from the returned u, v and the stored normalisation, (ii) gauge-invariantly "
        "from the exact Symanzik polynomials at the logged UNRESCALED parameters, the exact maximal monomials and the oracle's own "
        "I_tr Gamma(dod)/prod Gamma(w) pi^(DL/2) (mpmath). Non-trivial: L>=1, >=3 edges, removal order not the identity")
ASSUMPTIONS = ["tolerance (D/2+dod+2) * 100 L^2 eps cond kappa_V + 1e-11 relative"]


def mp_pow(base, expo):
    from mpmath import mp, mpf
    mp.dps = 40
    return mpf(base.numerator) / mpf(base.denominator) if expo is None else (mpf(base.numerator) / mpf(base.denominator)) ** (mpf(expo.numerator) / mpf(expo.denominator))


def run(ctx):
    from mpmath import mp, mpf, gamma as G, pi
    mp.dps = 40
    rng = ctx.rng
    ss = S.generate(ctx, 16 if ctx.quick else 120, 3 if ctx.quick else 6, max_e=6 if ctx.quick else 7,
                    max_loops=3 if ctx.quick else 4, routings_per_graph=1, kinds=("uniform", "uniform", "corner"), scales=(1, 1, 1, Fraction(1, 2 ** 33), 2 ** 30))
    # exact integer degrees of divergence and even dimensions (integral exponents of powf), >= 4 loops with shifts on several loops
    ss += S.generate(ctx, 0, 3 if ctx.quick else 6, routings_per_graph=1, kinds=("uniform",),
                     special=("integer_dod:4", "integer_dod:2", "integer_dod:3", "integer_dod:5", "integer_dod:6", "integer_dod:1", "vacuum_massless", "vacuum_massless", "vacuum_mixed", "vacuum_mixed", "vacuum",
                              "repeated_weights", "weights_equal_dod", "repeated_weights", "weights_equal_dod", "weights_equal_dod") * (1 if ctx.quick else 4))
    # a vertex with two external legs is listed twice in `externals`
    ss += S.generate(ctx, 5 if ctx.quick else 25, 3, max_e=5, max_loops=3, routings_per_graph=1, kinds=("uniform",), ext_modes=["dup"])
    ss += S.generate(ctx, 3 if ctx.quick else 12, 3, max_e=6, max_loops=5, routings_per_graph=1, kinds=("uniform",), names=["banana5", "banana6"])
    # every loop number 3..5 at ordinary points, in every run (the inverse of the Cholesky factor is a series in N of length dim - 1:
    # a term dropped at dim = 3 or 5 leaves 1, 2, 4 exact), two routings each
    ss += S.generate(ctx, 6 if ctx.quick else 24, 4, max_e=7, max_loops=5, routings_per_graph=2, kinds=("uniform",),
                     names=["banana4", "mercedes", "ladder2", "sunrise_tadpole", "banana6", "banana6", "banana5"], mass_mode="some")
    # integral propagator powers 3, 4, 5 (Gamma(weight) = 2, 6, 24), alone and next to non-integral ones
    from .. import gen
    icases = []
    for _ in range(10 if ctx.quick else 50):
        name = rng.choice(["bubble", "triangle", "sunrise", "box", "bubble_leg", "double_triangle"])
        edges, _, _ = gen.relabel(rng, list(gen.CATALOGUE[name]))
        n = len(edges); D = rng.randint(2, 6)
        w = [float(rng.choice([3, 3, 4, 5, 1, 2])) if rng.random() < 0.6 else rng.choice([0.75, 1.5, 2.5, 1.25]) for _ in range(n)]
        if not any(x >= 3 and x == int(x) for x in w):
            w[rng.randrange(n)] = 3.0
        massive = [rng.random() < 0.6 for _ in range(n)]
        ext = sorted(set(v for e in edges for v in e))
        dod, Lf, table = oracle.table_oracle(edges, w, massive, ext, D)
        if dod > 0 and not oracle.divergent_subsets(table):
            icases.append(dict(edges=edges, weights=w, massive=massive, ext=ext, D=D, table=table, dod=dod, loops=Lf, accepted=True, name="integer_weights"))
    ss += S.samples_for_cases(ctx, icases, 2)
    ss += S.samples_for_cases(ctx, S.big_dimension_cases(rng), 2)      # D = 260 (beyond a byte) and D = 13
    S.run(ss)
    SC.generic_scalar_guard(ctx, ss[:: 5], k=6)
    SC.nolog_agreement(ctx, ss[:: 4], k=16)
    SC.corr_sample(ctx, ss, fields=("uTrop", "vTrop", "jac"))
    for s in ss:
        a, c, r = s["impl"], s["case"], s["routing"]
        nl, D, n = r["L"], c["D"], len(c["edges"])
        order_identity = True
        xpre_b = a.get("log", {}).get("momtrop_feynman_parameter_no_rescaling")
        if xpre_b:
            xp = [b2f(b) for b in xpre_b]
            order_identity = all(xp[i] >= xp[i + 1] for i in range(n - 1))
        ctx.case([s["req"]["x"], c["edges"], c["weights"], D], nontrivial=(n >= 3 and not order_identity),
                 sample={"graph": c["name"], "edges": c["edges"], "D": D, "weights": c["weights"], "status": a.get("status")} if len(ctx.samples) < 4 else None)
        ctx.count(f"L={nl}"); ctx.count(f"D={D}"); ctx.count(f"status.{a.get('status')}")
        if a.get("status") == "panic":
            ctx.violation("sample panicked", S.small_req(s), observed=a); continue
        if a.get("status") != "ok":
            continue
        if b2f(a["uTrop"]) != 1.0 or b2f(a["vTrop"]) != 1.0:
            ctx.violation("returned u_trop / v_trop are not 1", S.small_req(s), observed=[b2f(a["uTrop"]), b2f(a["vTrop"])]); continue
        if not SC.finite([a["u"], a["v"], a["jac"], xpre_b]) or b2f(a["u"]) <= 0 or b2f(a["v"]) <= 0:
            SC.nonfinite_verdict(ctx, s)
            ctx.count("nonfinite_or_nonpositive_skipped"); continue
        u, v, jac = Fraction(b2f(a["u"])), Fraction(b2f(a["v"])), Fraction(b2f(a["jac"]))
        dod = Fraction(b2f(s["built"]["dod"])); halfD = Fraction(D, 2)
        cached = Fraction(b2f(s["built"]["cached"]))
        # (i) jacobian from the returned fields
        exp1 = mp_pow(1 / u, halfD) * mp_pow(1 / v, dod) * mp_pow(cached, None)
        if abs(mpf(float(jac)) - exp1) > mpf(1e-12) * abs(exp1):
            ctx.violation(f"jacobian {float(jac)!r} differs from (1/u)^(D/2) (1/v)^dod normalisation = {float(exp1)!r}", S.small_req(s),
                          expected=float(exp1), observed=float(jac)); continue
        # (ii) gauge-invariant recomputation at the unrescaled parameters
        xpre = SC.fr_list(xpre_b)
        if any(t <= 0 for t in xpre):
            ctx.count("zero_parameter_skipped"); continue
        ex = SC.exact_quantities(s, xpre)
        if ex is None or ex["det"] <= 0 or ex["V"] <= 0:
            ctx.count("degenerate_exact_skipped"); continue
        if SC.tol_cond(nl, ex["cond"], ex["kappa"]) > Fraction(1, 1000):
            ctx.count("cancellation_dominates(cond*kappa)_skipped"); continue
        sy = kin.symanzik(c["edges"], xpre, r["ext_mom"], r["masses"], D)
        gen_mom = {vtx: [Fraction(1000003 * (i + 1) + 17 * i * i)] for i, vtx in enumerate(sorted(r["ext_mom"]))}
        if gen_mom:
            tot = sum(p[0] for p in gen_mom.values()); k0 = sorted(gen_mom)[0]; gen_mom[k0] = [gen_mom[k0][0] - tot]
        sup = kin.symanzik(c["edges"], xpre, gen_mom, [Fraction(1) if m else Fraction(0) for m in c["massive"]], 1)
        if not sup["Fmon"]:
            ctx.count("F_without_monomials_skipped"); continue
        Utr = max(sy["Umon"]); Ftr = max(val for _, val in sup["Fmon"].values()); Vtr = Ftr / Utr
        V = sy["F"] / sy["U"]
        # normalisation from the oracle's own exact table
        Jx = oracle.j_exact(c["table"], n)
        norm = mpf(Jx[-1].numerator) / mpf(Jx[-1].denominator) * G(mpf(c["dod"].numerator) / mpf(c["dod"].denominator))
        for w in c["weights"]:
            norm /= G(mpf(w))
        norm *= pi ** (mpf(D * nl) / 2)
        cdod = c["dod"]
        exp2 = norm * mp_pow(Utr / sy["U"], halfD) * mp_pow(Vtr / V, cdod)
        tol = float((D / 2 + float(cdod) + 2) * SC.tol_cond(nl, ex["cond"], ex["kappa"])) + 1e-10 * (1 + float(sum(c["weights"])) / float(min(abs(c["table"][m][2]) for m in range((1 << n) - 1))))
        rel = abs(mpf(float(jac)) - exp2) / abs(exp2)
        ctx.extra["worst_error_over_tolerance"] = max(ctx.extra.get("worst_error_over_tolerance", 0.0), float(rel) / tol)
        if rel > tol:
            ctx.violation(f"jacobian {float(jac)!r} differs from I_tr Gamma(dod)/prod Gamma(w) pi^(DL/2) (U_tr/U)^(D/2) (V_tr/V)^dod = {float(exp2)!r} at the unrescaled parameters (rel {float(rel):.2e} > tol {tol:.2e})",
                          S.small_req(s), expected=float(exp2), observed=float(jac))
