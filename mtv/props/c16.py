"""C16 — matrix failures are reported: ZeroDet for a zero pivot product, sound stability test, no NaN as Ok."""
import math
from fractions import Fraction
from ..core import f2b, b2f, run_harness, run_driver
from ..cmp import cmp_bits_list
from .. import exact as X
from .. import gen

MODULE = "Momtrop.Props.C16NaN"
THEOREMS = ["Momtrop.C16.ok_det_nonzero", "Momtrop.C16.zeroDet_of_pivot_product_zero",
            "Momtrop.C16.zeroDet_of_det_zero", "Momtrop.C16.ok_stable", "Momtrop.C16.ok_same_without_test",
            "Momtrop.C16.sample_reports_matrix_error", "Momtrop.C16.sample_ok_stable", "Momtrop.C16.foldl_add_nan", "Momtrop.C16.ok_no_nan"]
RULE = ("symmetric matrices n=1..6 in classes definite / zero last pivot (exact) / zero middle pivot / indefinite / "
        "NaN-containing / ill-conditioned / underflowing, each with tolerances {none,0,1e-300,1e-12,1e-6,1,inf,NaN}; "
        "non-trivial when n>=2 and a tolerance is set or the class is not 'definite'; distinct = matrix bits + tolerance"
        " Through samples: tolerances at rounding level, debug on vs off, zero-xi points, generic-scalar guard; window probes between the L21 norms of inverse*A-1 and A*inverse-1; exactly singular matrices with irrational pivots; mixed-scale diagonal matrices.")
ASSUMPTIONS = ["oracle slack for the residual test: rounding of the implementation's own residual evaluation, "
               "4(n+2) eps (sum_j ||(|inv||A|+1)_j||_2 + tol)"]

TOLS = [None, 0.0, 1e-300, 1e-12, 1e-6, 1.0, float("inf"), float("nan")]


def lower_int(rng, n, zero_at):
    L = [[0] * n for _ in range(n)]
    for i in range(n):
        for j in range(i):
            L[i][j] = rng.randint(-3, 3)
        L[i][i] = 0 if i == zero_at else rng.randint(1, 4)
    return [[float(sum(L[i][k] * L[j][k] for k in range(n))) for j in range(n)] for i in range(n)]


def matrices(rng, n, per):
    out = []
    for _ in range(per):
        fam, f = rng.choice(gen.SPD_FAMILIES)
        out.append(("definite", f(rng, n)))
    for _ in range(per):
        out.append(("zero_last_pivot", lower_int(rng, n, n - 1)))
    if n >= 2:
        for _ in range(per):
            out.append(("zero_middle_pivot", lower_int(rng, n, rng.randint(0, n - 2))))
        for _ in range(per):
            A = gen.spd_random(rng, n)
            i = rng.randrange(n)
            A[i][i] = -abs(A[i][i]) - rng.random()
            out.append(("indefinite", A))
        out.append(("indefinite", gen.symmetrize([[1.0 if i == j else 2.0 for j in range(n)] for i in range(n)])))
    for _ in range(max(1, per // 2)):
        A = gen.spd_random(rng, n)
        i, j = rng.randrange(n), rng.randrange(n)
        A[i][j] = A[j][i] = float("nan")
        out.append(("nan_entry", A))
    for _ in range(per):
        A = gen.spd_random(rng, n, ridge=10 ** rng.uniform(-18, -11))
        s = rng.uniform(1.0, 2.5)
        d = [10 ** (-s * k) for k in range(n)]
        out.append(("ill_conditioned", gen.symmetrize([[d[i] * A[i][j] * d[j] for j in range(n)] for i in range(n)])))
    sc = 10 ** (-(330.0 / max(n, 2)) - rng.uniform(0, 5)) if n >= 2 else 10 ** rng.uniform(-175, -160)
    out.append(("underflow", [[sc * (1.0 if i == j else 0.0) for j in range(n)] for i in range(n)]))
    out.append(("underflow", gen.symmetrize([[sc * x for x in r] for r in gen.spd_integer(rng, n)])))
    if n >= 3:
        # tiny leading pivots and a huge trailing one: the determinant is an ordinary number, partial products underflow
        d = [1e-200, 1e-200] + [1e300] + [1.0] * (n - 3)
        out.append(("mixed_scale", [[d[i] if i == j else 0.0 for j in range(n)] for i in range(n)]))
        d2 = [10.0 ** -rng.randint(150, 170), 10.0 ** -rng.randint(150, 170)] + [10.0 ** rng.randint(280, 300)] + [rng.uniform(0.5, 2) for _ in range(n - 3)]
        out.append(("mixed_scale", [[d2[i] if i == j else 0.0 for j in range(n)] for i in range(n)]))
    return out


def residual_ok(n, Af, inv_bits, tol):
    """exact ||inv*A - 1||_{2,1} <= tol + slack ?  returns (ok, value, slack)"""
    inv = X.mat_from_bits(n, inv_bits)
    R = X.sub(X.matmul(inv, Af), X.identity(n))
    val = X.l21(R)
    absP = X.matmul([[abs(x) for x in r] for r in inv], [[abs(x) for x in r] for r in Af])
    slack = 4 * (n + 2) * X.EPS * (X.l21([[x + 1 for x in r] for r in absP]) + Fraction(tol))
    return val <= Fraction(tol) + slack, val, slack


def run(ctx):
    rng = ctx.rng
    per = 3 if ctx.quick else 25
    reqs, infos = [], []
    corpus = [("indefinite", [[1.0, 2.0], [2.0, 1.0]], 1e-6), ("underflow", [[1e-170, 0.0], [0.0, 1e-170]], None)]
    for cls, A, tol in corpus:
        r = {"op": "decomp", "n": len(A), "a": gen.flat_bits(A)}
        if tol is not None:
            r["tol"] = f2b(tol)
        reqs.append(r); infos.append((cls, A, tol))
    for n in range(1, 7):
        for cls, A in matrices(rng, n, per):
            tols = TOLS if ctx.quick is False or cls != "definite" else [None, 0.0, 1e-12, 1.0]
            for tol in tols:
                r = {"op": "decomp", "n": n, "a": gen.flat_bits(A)}
                if tol is not None:
                    r["tol"] = f2b(tol)
                    if rng.random() < 0.5:
                        r["debug"] = True      # print_debug_info: must not change the outcome (the model has no such flag)
                reqs.append(r); infos.append((cls, A, tol))
    # exactly singular matrices whose Cholesky pivots are NOT exactly representable (rank-deficient, irrational square roots): the
    # rounded pivot product may be non-zero - then Ok must come with a non-zero determinant; if it is zero, ZeroDet
    for n in range(2, 6):
        for _ in range(per):
            B = [[float(rng.choice([1, 2, 3, 5, 6, 7])) * rng.choice([-1, 1]) if j < n - 1 else 0.0 for j in range(n)] for i in range(n)]
            A = [[sum(B[i][k] * B[j][k] for k in range(n)) for j in range(n)] for i in range(n)]
            for tol in (None, 1e-6):
                r = {"op": "decomp", "n": n, "a": gen.flat_bits(A)}
                if tol is not None:
                    r["tol"] = f2b(tol)
                reqs.append(r); infos.append(("singular_rounded", A, tol))
    for a2, b2 in ((2.0, 1.0), (8.0, 2.0), (2.0, 3.0), (2.0, 2.0), (0.5, 0.25), (6.0, 3.0)):
        A = [[a2, b2], [b2, b2 * b2 / a2]]
        reqs.append({"op": "decomp", "n": 2, "a": gen.flat_bits(A)}); infos.append(("singular_rounded", A, None))
    impl = run_harness(reqs)
    model = run_driver(reqs)
    # the same matrices through the PUBLIC matrix API of the crate built as a user's debug build (default features, debug assertions and
    # overflow checks on): a singular or indefinite matrix is reported by an error there as well, not by a panic
    from ..core import run_nolog
    sub = list(range(0, len(reqs), 3 if ctx.quick else 2))
    dres, derr = run_nolog([reqs[i] for i in sub])
    if dres is None:
        ctx.mismatch("the crate does not build with its default features", None, derr[-800:], None)
    else:
        for i, dba in zip(sub, dres):
            ctx.count("debug_build_compared")
            if dba.get("status") != impl[i].get("status") or (dba.get("status") == "ok" and dba.get("det") != impl[i].get("det")):
                ctx.violation(f"debug build (debug assertions + overflow checks, default features): decompose_for_tropical gives {dba.get('status')}"
                              f"{(' (' + str(dba.get('msg'))[:100] + ')') if dba.get('status') == 'panic' else ''}, the release build {impl[i].get('status')} "
                              f"for a matrix of class {infos[i][0]}", dict(reqs[i], build="debug assertions"), expected=impl[i].get("status"), observed=dba.get("status"))
    for r, a, m, (cls, A, tol) in zip(reqs, impl, model, infos):
        n = r["n"]
        ctx.case([r["a"], r.get("tol")], nontrivial=(n >= 2 and (tol is not None or cls != "definite")),
                 sample={"class": cls, "n": n, "tol": tol, "matrix": A, "impl_status": a.get("status")} if n == 2 and cls != "definite" else None)
        ctx.count(f"class.{cls}"); ctx.count(f"status.{a.get('status')}"); ctx.count(f"class.{cls}.{a.get('status')}")
        # ---- correspondence
        if "error" in a or "error" in m:
            ctx.mismatch("decompose model vs decompose_for_tropical", r, a, m, "machinery error"); continue
        if a.get("status") != m.get("status"):
            ctx.mismatch("decompose model vs decompose_for_tropical (Ok/ZeroDet/Unstable)", r, a, m,
                         f"status {a.get('status')} vs {m.get('status')}")
        elif a.get("status") == "ok":
            for k in ("det", "inv", "qt", "qti"):
                va, vm = ([a[k]], [m[k]]) if k == "det" else (a[k], m[k])
                d = cmp_bits_list(ctx, va, vm, ulps=4)
                if d and cls in ("definite",):
                    ctx.mismatch("decompose model vs decompose_for_tropical", r, a, m, f"{k}: {d}"); break
                elif d:
                    ctx.count("nonfinite_or_illconditioned_value_difference")
        # ---- oracle on the implementation
        st = a.get("status")
        if st == "panic":
            ctx.violation("decompose_for_tropical panicked", r, observed=a); continue
        if st == "ok":
            if b2f(a["det"]) == 0.0:
                ctx.violation("Ok returned with a zero determinant", r, observed=a); continue
            if tol is not None:
                allv = [a["det"]] + a["inv"] + a["qt"] + a["qti"]
                if any(math.isnan(b2f(b)) for b in allv):
                    ctx.violation("Ok returned although the decomposition contains NaN and the stability test is on", r, observed=a); continue
                if math.isnan(tol):
                    ctx.violation("Ok returned with a NaN tolerance (error <= NaN is false)", r, observed=a); continue
                if all(X.is_finite_bits(b) for b in a["inv"]) and all(X.is_finite_bits(b) for b in r["a"]) and not math.isinf(tol):
                    Af = X.mat_from_bits(n, r["a"])
                    ok, val, slack = residual_ok(n, Af, a["inv"], tol)
                    if not ok:
                        ctx.violation(f"Ok returned although ||inverse*matrix-1||_21 = {float(val):.3e} > tol {tol} (+slack {float(slack):.1e})", r, observed=a)
        if cls == "zero_last_pivot" and st != "zerodet":
            ctx.violation("exactly zero pivot product but the result is not ZeroDet", r, expected="zerodet", observed=a)
        if cls in ("indefinite", "nan_entry", "zero_middle_pivot") and tol is not None and st == "ok":
            ctx.violation(f"Ok returned for a {cls} matrix with the stability test on", r, observed=a)

    through_samples(ctx)
    window_probes(ctx)
    if ctx.mismatches and not ctx.violations:
        search_failing_input(ctx)


def through_samples(ctx):
    """the stability test as seen through `sample`: one- to three-loop samplers with matrix_stability_test = Some(tol), tolerances
    around the rounding level of inverse*L (0, 1e-17, 1.2e-16, 3e-16, 1e-13) and ordinary ones; uniform and corner points.
    Model: lMatrix on the implementation's logged Feynman parameters (bit-exact: + and * only), then decompose with the same
    tolerance; its Ok/ZeroDet/Unstable must be the sample's. Oracle: an Ok sample has no NaN and its residual is <= tol."""
    from .. import samples as S
    rng = ctx.rng
    ss = S.generate(ctx, 8 if ctx.quick else 50, 8 if ctx.quick else 12, max_e=6, max_loops=3, routings_per_graph=1,
                    kinds=("uniform", "uniform", "corner", "zero_xi"))
    ss += S.generate(ctx, 6 if ctx.quick else 30, 12 if ctx.quick else 24, max_e=5, max_loops=1, routings_per_graph=1,
                     kinds=("uniform", "uniform", "uniform", "corner"), names=["bubble", "triangle", "box", "pentagon", "tadpole"])
    for s in ss:
        tol = rng.choice([0.0, 1e-17, 1.2e-16, 3e-16, 1e-13, 1e-6])
        s["tol"] = tol
        s["req"] = S.sample_request(s["case"], s["routing"], s["table"], s["xs"], tol=tol)
    S.run(ss)
    from .. import sample_checks as SCk
    SCk.generic_scalar_guard(ctx, [s for s in ss if s["tol"] >= 1e-13][:: 2], k=8, tol=1e-6)
    # the stability test guards the rng entry point as well (same settings, same verdict as the x-space entry point on the drawn numbers)
    SCk.rng_entry_agreement(ctx, [s for s in ss if s["tol"] >= 1e-13][:: 3], k=10)
    # the same requests with print_debug_info off (the runs above have it on: the Feynman parameters are read from the debug log)
    quiet = run_harness([dict(s["req"], debug=False) for s in ss])
    for s, qa in zip(ss, quiet):
        a = s["impl"]
        ctx.count("sample.debug_on_vs_off")
        if a.get("status") != qa.get("status") or any(a.get(k) != qa.get(k) for k in ("u", "v", "jac", "k")):
            ctx.violation(f"the outcome of a sample with the stability test on depends on print_debug_info: {a.get('status')} with it, "
                          f"{qa.get('status')} without", S.small_req(s), expected=qa.get("status"), observed=a.get("status"))
    reqs, idx = [], []
    for i, s in enumerate(ss):
        a = s["impl"]
        xb = (a.get("log") or {}).get("momtrop_feynman_parameter")
        if a.get("status") in ("ok", "unstable", "zerodet") and xb:
            reqs.append({"op": "lmat", "x": xb, "sig": s["routing"]["sig"]}); idx.append(i)
    ls = run_driver(reqs)
    dreqs = [{"op": "decomp", "n": ss[i]["routing"]["L"], "a": l.get("l", []), "tol": f2b(ss[i]["tol"])} for i, l in zip(idx, ls)]
    ds = run_driver(dreqs)
    for i, l, dr, d in zip(idx, ls, dreqs, ds):
        s = ss[i]; a = s["impl"]; n = s["routing"]["L"]; tol = s["tol"]
        ctx.case(["sample", s["req"]["x"], s["req"]["sig"], s["case"]["edges"], s["case"]["weights"], s["req"]["edge_data"], tol], nontrivial=True,
                 sample=None)
        ctx.count(f"sample.status.{a.get('status')}"); ctx.count(f"sample.L={n}"); ctx.count(f"sample.tol={tol}")
        small = S.small_req(s)
        if "error" in l or "error" in d:
            ctx.mismatch("model lMatrix/decompose on the logged Feynman parameters", small, a.get("status"), d, "driver error"); continue
        if a.get("status") == "ok" and a.get("meta") and a["meta"]["l"] != l.get("l"):
            ctx.mismatch("lMatrix model on the logged Feynman parameters vs Metadata.l_matrix (bits)", small, a["meta"]["l"], l.get("l")); continue
        if d.get("status") != a.get("status"):
            ctx.mismatch("decompose model (with the sample's tolerance, on the sample's own L matrix) vs the sample's Ok/ZeroDet/Unstable",
                         small, {"status": a.get("status")}, {"status": d.get("status")})
            # failing-input search: an Ok sample whose binary64-evaluated L21 distance exceeds the tolerance it was given
            if a.get("status") == "ok" and a.get("meta") and all(X.is_finite_bits(b) for b in a["meta"]["decomp"]["inv"] + a["meta"]["l"]):
                Lf = [[b2f(a["meta"]["l"][r * n + c]) for c in range(n)] for r in range(n)]
                invf = [[b2f(a["meta"]["decomp"]["inv"][r * n + c]) for c in range(n)] for r in range(n)]
                dist = float_l21_residual(n, Lf, invf)
                if dist > tol:
                    ctx.violation(f"Ok sample although the binary64-evaluated L21 distance of inverse*L from 1 is {dist:.3e} > tolerance {tol:.3e} "
                                  "(the model of decompose_for_tropical reports Unstable on the same L matrix)", small, expected="unstable",
                                  observed={"l": a["meta"]["l"], "inv": a["meta"]["decomp"]["inv"]})
        if a.get("status") == "ok":
            # the property speaks of the DECOMPOSITION: u = determinant and the factors. (v, and with it the momenta and the jacobian,
            # can be NaN/negative through the cancellation p^T X p - u^T L^-1 u at extreme points; that is not C16, see DESIGN.md 8.4.)
            dec = a["meta"]["decomp"] if a.get("meta") else {}
            flat = [a["u"]] + [b for key in ("qt", "qti", "inv") for b in dec.get(key, [])] + ([dec["det"]] if "det" in dec else [])
            if any(b2f(b) != b2f(b) for b in flat):
                ctx.violation("Ok sample whose decomposition contains NaN although the stability test is on", small, observed={"u": a["u"], "decomp": dec}); continue
            if a.get("meta"):
                inv = a["meta"]["decomp"]["inv"]; lb = a["meta"]["l"]
                if all(X.is_finite_bits(b) for b in inv) and all(X.is_finite_bits(b) for b in lb):
                    ok, val, slack = residual_ok(n, X.mat_from_bits(n, lb), inv, tol)
                    if not ok:
                        ctx.violation(f"Ok sample although ||inverse*L-1||_21 = {float(val):.3e} > tol {tol} (+slack {float(slack):.1e})", small,
                                      observed={"l": lb, "inv": inv})
                else:
                    ctx.violation("Ok sample with a non-finite decomposition although the stability test is on", small, observed=a["meta"]["decomp"])
    sample_window_probes(ctx, ss)


def sample_window_probes(ctx, ss):
    """through `sample` with metadata on: tolerances placed between the binary64 values of ||inverse*L - 1||_21 and ||L*inverse - 1||_21 of the
    sample's own L matrix - the verdict is the one of the first (what the property and the model use), whoever performs the test"""
    from .. import samples as S
    cand = []
    for s in ss:
        a = s["impl"]; n = s["routing"]["L"]
        if a.get("status") != "ok" or n < 2 or not a.get("meta"):
            continue
        lb, ib = a["meta"]["l"], a["meta"]["decomp"].get("inv", [])
        if not ib or not all(X.is_finite_bits(b) for b in lb + ib):
            continue
        Lf = [[b2f(lb[r * n + c]) for c in range(n)] for r in range(n)]
        invf = [[b2f(ib[r * n + c]) for c in range(n)] for r in range(n)]
        d1 = float_l21_residual(n, Lf, invf); d2 = float_l21_residual_of_product(n, Lf, invf)
        if not (math.isfinite(d1) and math.isfinite(d2)) or d1 == d2 or abs(d1 - d2) <= 0.02 * max(d1, d2):
            continue
        tol = 0.5 * (d1 + d2)
        for meta in (True, False):
            rq = S.sample_request(s["case"], s["routing"], s["table"], s["xs"], tol=tol, meta=meta)
            cand.append((s, rq, d1, d2, tol, meta))
        if len(cand) >= (40 if ctx.quick else 240):
            break
    for (s, rq, d1, d2, tol, meta), a in zip(cand, run_harness([c[1] for c in cand])):
        ctx.case(["sample_window", rq["x"], rq.get("tol"), meta, s["case"]["edges"]], nontrivial=True); ctx.count("sample_window_probe")
        want = "unstable" if d1 > tol else "ok"
        if a.get("status") != want:
            ctx.violation(f"sample (return_metadata={meta}) with a tolerance {tol:.4e} between ||inverse*L-1||_21 = {d1:.4e} and ||L*inverse-1||_21 = {d2:.4e} "
                          f"returns {a.get('status')}; the stability test compares the first with the tolerance: {want}", dict(S.small_req(dict(s, req=rq))),
                          expected=want, observed=a.get("status"))


def window_probes(ctx):
    """tolerances placed between ||inverse*A - 1||_21 and ||A*inverse - 1||_21 (both evaluated in binary64): the property (and
    the model) use the first; an implementation that multiplies in the other order, or takes another norm of the same residual,
    decides differently exactly there."""
    rng = ctx.rng
    base = []
    for n in range(2, 7):
        for _ in range(4 if ctx.quick else 20):
            fam, f = rng.choice(gen.SPD_FAMILIES)
            base.append((n, f(rng, n)))
    a0 = run_harness([{"op": "decomp", "n": n, "a": gen.flat_bits(A)} for n, A in base])
    reqs, infos = [], []
    for (n, A), a in zip(base, a0):
        if a.get("status") != "ok" or not all(X.is_finite_bits(b) for b in a["inv"]):
            continue
        inv = [[b2f(a["inv"][i * n + j]) for j in range(n)] for i in range(n)]
        d1 = float_l21_residual(n, A, inv)
        d2 = float_l21_residual_of_product(n, A, inv)
        if not (math.isfinite(d1) and math.isfinite(d2)) or abs(d1 - d2) <= 0.05 * max(d1, d2):
            continue
        tol = 0.5 * (d1 + d2)
        reqs.append({"op": "decomp", "n": n, "a": gen.flat_bits(A), "tol": f2b(tol)}); infos.append((d1, d2, tol))
    impl = run_harness(reqs); model = run_driver(reqs)
    for r, a, m, (d1, d2, tol) in zip(reqs, impl, model, infos):
        ctx.case(["window", r["a"], r["tol"]], nontrivial=True)
        ctx.count("window_probe")
        if a.get("status") != m.get("status"):
            ctx.mismatch("decompose model vs decompose_for_tropical (tolerance between the L21 norms of inverse*A-1 and A*inverse-1)", r,
                         {"status": a.get("status")}, {"status": m.get("status")})
            if a.get("status") == "ok" and d1 > tol:
                ctx.violation(f"Ok returned although the L21 distance of inverse*matrix from the identity is {d1:.3e} > tolerance {tol:.3e} "
                              f"(the distance of matrix*inverse is {d2:.3e})", r, expected="unstable", observed=a)


def float_l21_residual_of_product(n, A, inv):
    """||A*inv - 1||_{2,1} in binary64 (the other operand order)"""
    import numpy as np
    with np.errstate(all="ignore"):
        res = np.float64(0.0)
        for j in range(n):
            col = np.float64(0.0)
            for i in range(n):
                acc = np.float64(0.0)
                for k in range(n):
                    acc = acc + np.float64(A[i][k]) * np.float64(inv[k][j])
                z = acc - np.float64(1.0 if i == j else 0.0)
                col = col + z * z
            res = res + np.sqrt(col)
        return float(res)


def float_l21_residual(n, A, inv):
    """||inv*A - 1||_{2,1} evaluated in binary64 in the order the property's definition suggests
    (row-by-column products accumulated from zero, one square root per column)"""
    import numpy as np
    with np.errstate(all="ignore"):
        res = np.float64(0.0)
        for j in range(n):
            col = np.float64(0.0)
            for i in range(n):
                acc = np.float64(0.0)
                for k in range(n):
                    acc = acc + np.float64(inv[i][k]) * np.float64(A[k][j])
                z = acc - np.float64(1.0 if i == j else 0.0)
                col = col + z * z
            res = res + np.sqrt(col)
        return float(res)


def search_failing_input(ctx):
    """Correspondence broke: look for a concrete matrix/tolerance on which the real code returns Ok although the
    binary64-evaluated L_{2,1} distance exceeds the tolerance (tolerances placed inside the window between the
    Frobenius-type under-estimates and the L_{2,1} value)."""
    rng = ctx.rng
    base = []
    for n in range(2, 7):
        for _ in range(6):
            fam, f = rng.choice(gen.SPD_FAMILIES)
            base.append((n, f(rng, n)))
    r0 = [{"op": "decomp", "n": n, "a": gen.flat_bits(A)} for n, A in base]
    a0 = run_harness(r0)
    reqs, infos = [], []
    for (n, A), a in zip(base, a0):
        if a.get("status") != "ok" or not all(X.is_finite_bits(b) for b in a["inv"]):
            continue
        inv = [[b2f(a["inv"][i * n + j]) for j in range(n)] for i in range(n)]
        d = float_l21_residual(n, A, inv)
        if not (d > 0 and math.isfinite(d)):
            continue
        for frac in (0.97, 0.9, 0.75, 0.6):
            reqs.append({"op": "decomp", "n": n, "a": gen.flat_bits(A), "tol": f2b(d * frac)})
            infos.append((d, frac))
    for r, a, (d, frac) in zip(reqs, run_harness(reqs), infos):
        ctx.count("search.l21_window_probe")
        if a.get("status") == "ok":
            ctx.violation(f"Ok returned although the binary64-evaluated L21 distance {d:.3e} exceeds the tolerance {d*frac:.3e}", r,
                          expected="unstable", observed=a)
