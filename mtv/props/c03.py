"""C03 — subgraph table holds true loop number, spanning flag, degree of divergence."""
from fractions import Fraction
from itertools import combinations_with_replacement
from ..core import f2b, b2f, run_harness, run_driver
from ..cmp import cmp_record, bits_close
from .. import gen, oracle, graphs

MODULE = "Momtrop.Props.C03"
THEOREMS = ["Momtrop.C03.fromGraph_fields", "Momtrop.C03.genDod_empty", "Momtrop.C03.genDod_nonempty", "Momtrop.C03.preEntry_flags", "Momtrop.C03.numVariables_eq", "Momtrop.C03.spanning_iff", "Momtrop.C03.spanning_nil", "Momtrop.C03.loopNumber_nil", "Momtrop.C03.component_search_exact", "Momtrop.C03.first_component", "Momtrop.C03.components_are_classes", "Momtrop.C03.same_component_iff", "Momtrop.C03.component_mask_bits", "Momtrop.C03.loopNumber_is_cyclomatic", "Momtrop.C03.subset_edges_ok"]
RULE = ("(i) every multigraph with E<=3 (quick) / E<=4 (thorough) edges on 4 vertex slots incl. self-loops and parallel edges, "
        "random u8 relabelling, several mass patterns and external sets (incl. an untouched vertex), all 2^E subsets via the "
        "hook; (ii) catalogue + random graphs up to E=6 (quick) / 8 (thorough), D=1..6, accepted ones through the full table. "
        "Non-trivial: >=2 edges and (parallel edge or self-loop or >=2 components or mixed masses or externals != touched vertices)")
ASSUMPTIONS = ["generalized_dod compared with the exact rational value with tolerance (E+4) eps x (subset weight sum + loops D/2 [+ |dod| + total weight sum + L D/2 when spanning])"]


def exhaustive_graphs(max_e):
    pairs = [(a, b) for a in range(4) for b in range(a, 4)]
    for k in range(1, max_e + 1):
        for combo in combinations_with_replacement(pairs, k):
            yield list(combo)


def run(ctx):
    rng = ctx.rng
    # ---------------- (i) exhaustive small multigraphs through the hook, all subsets
    reqs, infos = [], []
    max_e = 3 if ctx.quick else 4
    combos = 2 if ctx.quick else 4
    for base in exhaustive_graphs(max_e):
        for _ in range(combos):
            edges, labels, unused = gen.relabel(rng, base, extra_vertices=1)
            n = len(edges)
            massive = [rng.random() < 0.4 for _ in range(n)]
            verts = sorted(set(v for e in edges for v in e))
            ext = [v for v in verts if rng.random() < 0.6]
            if rng.random() < 0.15:
                ext.append(unused[0])
            if rng.random() < 0.1:
                ext = []
            weights = [rng.randint(2, 30) / 12.0 for _ in range(n)]
            r = gen.graph_request(edges, weights, massive, ext, 4); r["op"] = "subsets"
            reqs.append(r); infos.append((edges, weights, massive, ext))
    impl = run_harness(reqs)
    model = run_driver(reqs)
    for r, a, m, (edges, weights, massive, ext) in zip(reqs, impl, model, infos):
        n = len(edges)
        case = dict(edges=edges, massive=massive, ext=ext)
        ctx.case(r, nontrivial=graphs.nontrivial_graph(case), sample={"edges": edges, "massive": massive, "ext": ext, "impl_loops": a.get("loops"), "impl_mms": a.get("mms")} if n == 3 else None)
        ctx.count(f"small.E={n}")
        if not cmp_record(ctx, "components/loopNumber/isMMSpanning model vs hooks (all subsets)", r, a, m,
                          {"comps": "exact", "loops": "exact", "mms": "exact", "wsum": ("ulp", 0)}):
            pass
        if a.get("status") == "panic" or "loops" not in a:
            ctx.violation("panic while analysing a subset", r, observed=a); continue
        for mask in range(1 << n):
            loops, comps, sp = oracle.subset_info(edges, massive, ext, mask)
            exp_comps = sorted(sum(1 << e for e in c) for c in comps)
            if a["loops"][mask] != loops or a["mms"][mask] != sp or sorted(a["comps"][mask]) != exp_comps:
                ctx.violation(f"subset {mask:#b}: loop number/spanning/components differ from the union-find oracle", r,
                              expected={"loops": loops, "mms": sp, "comps": exp_comps},
                              observed={"loops": a["loops"][mask], "mms": a["mms"][mask], "comps": a["comps"][mask]})
                break
    # ---------------- (ii) full tables
    cases = graphs.case_stream(rng, 60 if ctx.quick else 500, max_e=6 if ctx.quick else 8, accepted_fraction=0.85)
    # variants with one tiny propagator power (a generalised dod far below f64::EPSILON is still a positive number, not zero)
    for c0 in list(cases[: (10 if ctx.quick else 60)]):
        w = list(c0["weights"]); w[rng.randrange(len(w))] = 10.0 ** -rng.uniform(17, 300)
        dod, Lf, table = oracle.table_oracle(c0["edges"], w, c0["massive"], c0["ext"], c0["D"])
        cases.append(dict(c0, weights=w, dod=dod, loops=Lf, table=table, accepted=not oracle.divergent_subsets(table), name=c0.get("name", "") + "+tiny_weight"))
    reqs = [graphs.request(c) for c in cases]
    impl = run_harness(reqs)
    model = run_driver([dict(r, gammas=a.get("gammas", [])) for r, a in zip(reqs, impl)])
    for c, r, a, m in zip(cases, reqs, impl, model):
        n = len(c["edges"])
        ctx.case(r, nontrivial=graphs.nontrivial_graph(c), sample=None)
        ctx.count(f"table.{a.get('status')}"); ctx.count(f"D={c['D']}"); ctx.count(f"graph.{c['name']}")
        cmp_record(ctx, "fromGraph/generateTable model vs from_graph/generate_from_tropical", r, a, m,
                   {"dod": ("ulp", 4), "numLoops": "exact", "numMassive": "exact", "numVars": "exact"})
        if a.get("status") == "panic":
            ctx.violation("build panicked", r, observed=a); continue
        scale = float(sum(abs(w) for w in c["weights"])) + c["loops"] * c["D"]
        if not bits_close(a["dod"], f2b(float(c["dod"])), 4, absol=1e-12 * scale) or a["numLoops"] != c["loops"] \
                or a["numMassive"] != sum(c["massive"]):
            ctx.violation("dod / loop count / massive-edge count disagree with the input graph", r,
                          expected={"dod": float(c["dod"]), "loops": c["loops"]}, observed=a); continue
        if a.get("status") != "ok":
            continue
        L, D = c["loops"], c["D"]
        if a["numVars"] != 2 * n - 1 + D * L + (D * L) % 2:
            ctx.violation("hypercube dimension differs from 2E-1+DL+(DL mod 2)", r, expected=2 * n - 1 + D * L + (D * L) % 2, observed=a["numVars"])
        EPS = 2.0 ** -52
        wall = float(sum(abs(w) for w in c["weights"]))

        def entry_tol(mask, sp):
            """rounding of omega = (sum of the subset's weights) - loops*D/2 - [spanning] dod, each computed in f64"""
            ws = sum(abs(c["weights"][e]) for e in range(n) if mask >> e & 1)
            return (n + 4) * EPS * (ws + c["table"][mask][0] * D / 2.0 + ((abs(float(c["dod"])) + wall + L * D / 2.0) if sp else 0.0))
        if m.get("status") == "ok":
            for mask, (ea, em) in enumerate(zip(a["entries"], m["entries"])):
                # the model mirrors the order of the code's additions: bit for bit (the exact oracle below is compared with a tolerance)
                if ea[0] != em[0] or ea[1] != em[1] or not bits_close(ea[3], em[3], 0):
                    ctx.mismatch("table entry (loop_number, spanning, generalized_dod) model vs implementation", r,
                                 {"mask": mask, "entry": ea}, {"mask": mask, "entry": em}); break
        for mask, ea in enumerate(a["entries"]):
            loops, sp, om, _ = c["table"][mask]
            if ea[0] != loops or ea[1] != sp or not bits_close(ea[3], f2b(float(om)), 4, absol=entry_tol(mask, sp)):
                ctx.violation(f"table entry of subset {mask:#b} differs from the exact oracle", r,
                              expected={"loops": loops, "mms": sp, "omega": float(om)},
                              observed={"loops": ea[0], "mms": ea[1], "omega": b2f(ea[3])}); break

    # ---------------- (iii) the public getters of a sampler built through Graph::build_sampler (whatever signature is supplied:
    # build_sampler does not look at its shape, and the getters describe the GRAPH)
    from .. import kin
    acc = [(c, a) for c, a in zip(cases, impl) if a.get("status") == "ok" and c.get("accepted")][: (25 if ctx.quick else 150)]
    breqs, binfo = [], []
    for c, a in acc:
        n = len(c["edges"])
        Sg, _ = kin.fundamental_signature(rng, c["edges"])
        L = len(Sg[0]) if Sg else 0
        for variant, sig in (("fundamental", Sg), ("extra_row", Sg + [[0] * L]), ("missing_row", Sg[:-1]), ("empty", [])):
            breqs.append(dict(graphs.request(c), op="build", sig=sig)); binfo.append((c, a, variant))
    for r, b, (c, a, variant) in zip(breqs, run_harness(breqs), binfo):
        n = len(c["edges"])
        ctx.case(["getters", r["edges"], r["ext"], r["D"], variant], nontrivial=True); ctx.count(f"getters.{variant}")
        if b.get("status") != "ok":
            ctx.violation(f"build_sampler fails ({b.get('status')}) for an accepted graph with a {variant} signature: {str(b.get('msg'))[:100]}", r, observed=b); continue
        exp_dim = 2 * n - 1 + c["D"] * c["loops"] + (c["D"] * c["loops"]) % 2
        problems = []
        if b["numEdges"] != n:
            problems.append(f"get_num_edges() = {b['numEdges']}, the graph has {n} edges")
        if b["weights"] != [f2b(w) for w in c["weights"]]:
            problems.append("iter_edge_weights() differs from the input weights")
        if b["dod"] != a["dod"]:
            problems.append(f"get_dod() = {b2f(b['dod'])!r} differs from the table's overall degree of divergence {b2f(a['dod'])!r}")
        if b["dimension"] != exp_dim:
            problems.append(f"get_dimension() = {b['dimension']}, expected 2E-1+DL+(DL mod 2) = {exp_dim}")
        if problems:
            ctx.violation("public getters disagree with the input graph (signature variant %s): %s" % (variant, "; ".join(problems)), r, observed=problems)

